package main

import (
	"fmt"
	"go/ast"
	"go/token"
	"go/types"
	"sort"
	"strings"
	"sync"

	"golang.org/x/tools/go/ssa"
)

// Obligation is one verification condition: asserts[0:nAssert] ∧ pc ⇒ goal.
type Obligation struct {
	Name         string
	Kind         string
	Pkg          string
	Fn           string
	Pos          string
	Tags         []string // property ids
	Src          string   // clause source text (for functional obligations)
	Expect       string   // "unsat" (must hold) or "sat" (vacuity cover: must be reachable)
	Retried      bool     // undecided at the first attempt, solved again with a longer budget
	x            *Exec
	nDecl        int
	CrossChecked bool
	nAssert      int
	pc           string
	goal         string
	Split        string
	site         string

	// results
	Status  string // proved | failed | unknown | cover-ok | cover-failed
	Solver  string
	Secs    float64
	Model   map[string]string
	Output  string
	SMTPath string
	Timeout int
}

// Exec accumulates declarations, definitional assertions and obligations for one top-level
// verification task (one function, one pair lemma, ...).
type Exec struct {
	V            *Verifier
	pkg          string
	name         string
	prefix       string
	decls        []string
	declared     map[string]bool
	asserts      []string
	obs          []*Obligation
	n            int
	compSort     map[string]string
	unsupported  []string
	obCount      map[string]int
	trusted      map[string]bool // assumed contracts / models used
	inlined      map[string]bool
	havocAll     []string // call sites that havoc everything
	paramNames   []string
	epochN       int
	splitLabel   string
	noSafety     bool // pair lemma sides: safety obligations are not emitted
	curPos       token.Pos
	wrapped      int
	noTerm       []string // loops without a decreases clause
	strLens      map[string]int
	refN         int
	usedDefs     map[string]bool
	defDecls     []string
	assertSyms   []assertInfo
	idxTerms     []idxTerm
	opaqueCalls  []string
	skipSafety   bool            // contract directive nosafety: panics of this function are the sweep's obligations
	preWrap2     map[string]bool // contract functions: stable site keys known (baseline) to need wrap-around
	key2Count    map[string]int
	siteKey2     map[string]string // process-local site key -> stable site key
	curCall      *ssa.CallCommon
	funcProps    []string // props of the function under contract: all of its obligations count for them
	boolSymSet   map[string]bool
	boolSymN     int
	symMu        sync.Mutex
	mustWrap     map[string]bool
	curCallInstr ssa.Instruction
	modelTerms   []modelTerm
	reveal       map[string]bool
	textNames    bool
	maxInline    int
	subst        map[string]string // terms fixed by a split -> literal
	preWrap      map[string]bool   // sweep: range obligations known (from the baseline) not to discharge
}

// peekName returns the name the next obligation of this kind at pos would get (text mode).
func (x *Exec) peekName(kind string, pos token.Pos) string {
	txt := x.V.lineText(pos)
	key := kind + ":" + txt
	return fmt.Sprintf("%s.%s/%s#%d", shortPkg(x.pkg), x.name, key, x.obCount[key]+1)
}

func newExec(v *Verifier, pkg, name, prefix string) *Exec {
	return &Exec{V: v, pkg: pkg, name: name, prefix: prefix, declared: map[string]bool{}, compSort: map[string]string{},
		obCount: map[string]int{}, trusted: map[string]bool{}, inlined: map[string]bool{}, strLens: map[string]int{}, reveal: map[string]bool{}}
}

func (x *Exec) unsup(format string, a ...any) {
	s := fmt.Sprintf(format, a...)
	for _, u := range x.unsupported {
		if u == s {
			return
		}
	}
	x.unsupported = append(x.unsupported, s)
}

func (x *Exec) declare(name, sort string) string {
	q := quoteSym(name)
	if !x.declared[q] {
		x.declared[q] = true
		x.decls = append(x.decls, "(declare-const "+q+" "+sort+")")
	}
	return q
}

func (x *Exec) fresh(hint, sort string) string {
	x.n++
	return x.declare(fmt.Sprintf("%s%s!%d", x.prefix, hint, x.n), sort)
}

func (x *Exec) assert(f string) {
	if f == "true" {
		return
	}
	x.asserts = append(x.asserts, "(assert "+f+")")
}

// assertDefQ records a quantified axiom that *defines* a fresh array symbol (copy, append, buffer
// writes).  Such axioms are conservative extensions; cover (satisfiability) queries omit them so
// that solvers can answer sat.
func (x *Exec) assertDefQ(f string) {
	x.asserts = append(x.asserts, "(assert "+f+") ;defq")
}

func isAtom(t string) bool {
	return !strings.ContainsAny(t, " (")
}

// define introduces a named constant equal to term (keeps queries linear in program size).
func (x *Exec) define(hint, sort, term string) string {
	if isAtom(term) {
		return term
	}
	if strings.HasPrefix(term, "(- ") && isAtom(term[3:len(term)-1]) {
		return term
	}
	c := x.fresh(hint, sort)
	x.assert("(= " + c + " " + term + ")")
	return c
}

func (x *Exec) assume(st *State, f string) {
	if f == "true" {
		return
	}
	st.pc = x.define("pc", "Bool", smtAnd(st.pc, f))
}

func (x *Exec) posString(p token.Pos) string {
	if !p.IsValid() {
		return ""
	}
	pp := x.V.fset.Position(p)
	return fmt.Sprintf("%s:%d", pp.Filename, pp.Line)
}

// oblige records an obligation: under st.pc, goal must hold.
func (x *Exec) oblige(st *State, kind string, tags []string, pos token.Pos, goal, src string) *Obligation {
	if goal == "true" {
		// still counted: trivially discharged obligations are part of the evidence
	}
	x.obCount[kind]++
	name := fmt.Sprintf("%s.%s/%s#%d", shortPkg(x.pkg), x.name, kind, x.obCount[kind])
	if x.textNames {
		// sweep mode: names must survive unrelated edits, so they are built from the source text of
		// the line the obligation belongs to instead of an ordinal
		txt := x.V.lineText(pos)
		key := kind + ":" + txt
		x.obCount[key]++
		name = fmt.Sprintf("%s.%s/%s#%d", shortPkg(x.pkg), x.name, key, x.obCount[key])
	}
	if x.splitLabel != "" {
		name += "[" + x.splitLabel + "]"
	}
	o := &Obligation{Name: name, Kind: kind, Pkg: x.pkg, Fn: x.name, Pos: x.posString(pos), Tags: tags, Src: src,
		Expect: "unsat", x: x, nDecl: len(x.decls), nAssert: len(x.asserts), pc: st.pc, goal: goal, Split: x.splitLabel}
	x.obs = append(x.obs, o)
	return o
}

// conjuncts splits a && b && c at the top level.
func conjuncts(e ast.Expr) []ast.Expr {
	if p, ok := e.(*ast.ParenExpr); ok {
		return conjuncts(p.X)
	}
	if b, ok := e.(*ast.BinaryExpr); ok && b.Op == token.LAND {
		return append(conjuncts(b.X), conjuncts(b.Y)...)
	}
	return []ast.Expr{e}
}

// obligeClause emits one obligation per top-level conjunct of a clause.
func (x *Exec) obligeClause(st *State, kind string, tags []string, pos token.Pos, env *Env, c *Clause, what string) {
	for _, e := range conjuncts(c.Expr) {
		t, err := x.specBool(env, e)
		if err != nil {
			x.bindingError(fmt.Sprintf("%s %q", what, c.Src), err.Error(), c.File, c.Line)
			return
		}
		// a large conjunction (an expanded constant-range forall) is proved conjunct by conjunct:
		// each needs one instance of the hypotheses instead of all of them at once
		if strings.HasPrefix(t, "(and ") {
			if n := parseSx(t); n != nil && len(n.list) > 16 {
				for i, part := range n.list[1:] {
					x.oblige(st, kind, tags, pos, part.String(), fmt.Sprintf("%s [conjunct %d of %d]", exprStr(e), i+1, len(n.list)-1))
				}
				continue
			}
		}
		x.oblige(st, kind, tags, pos, t, exprStr(e))
	}
}

func sortStrings(xs []string) { sort.Strings(xs) }

// havocPrefix replaces every component whose key starts with prefix by fresh contents.
func (x *Exec) havocPrefix(st *State, prefix string) {
	for _, k := range sortedKeys(st.mem) {
		if strings.HasPrefix(k, prefix) {
			st.mem[k] = x.fresh("Hp", x.compSort[k])
		}
	}
	if st.pfx == nil {
		st.pfx = map[string]string{}
	}
	st.pfx[prefix] = "p" + x.newEpoch()
}

func shortPkg(p string) string {
	const mod = "github.com/cocosip/go-dicom-codecs/"
	return strings.TrimPrefix(p, mod)
}

// ---------------------------------------------------------------------------------------------
// Components

func (x *Exec) newEpoch() string {
	x.epochN++
	return fmt.Sprintf("%d", x.epochN)
}

func (x *Exec) getComp(st *State, key, sort string) string {
	if t, ok := st.mem[key]; ok {
		return t
	}
	if s0, ok := x.compSort[key]; ok && s0 != sort {
		x.unsup("component %s used at sorts %s and %s", key, s0, sort)
	}
	x.compSort[key] = sort
	ep := st.epoch
	if st.pfx != nil {
		var ps []string
		for p := range st.pfx {
			if strings.HasPrefix(key, p) {
				ps = append(ps, st.pfx[p])
			}
		}
		sort2 := ps
		if len(sort2) > 1 {
			sortStrings(sort2)
		}
		for _, e := range sort2 {
			ep += "_" + e
		}
	}
	c := x.declare(st.nm+"H"+ep+"!"+key, sort)
	st.mem[key] = c
	return c
}

// navigate walks steps from root type; returns the leaf range [start,end) within leavesOf(root),
// the index terms consumed, and the type reached.
func navigate(root types.Type, steps []Step) (start, end int, idxs []string, t types.Type) {
	t = root
	start = 0
	end = len(leavesOf(root))
	for _, s := range steps {
		switch u := t.Underlying().(type) {
		case *types.Struct:
			if s.IsIdx {
				panic("index step on struct")
			}
			off := 0
			for i := 0; i < s.Field; i++ {
				off += len(leavesOf(u.Field(i).Type()))
			}
			start += off
			t = u.Field(s.Field).Type()
			end = start + len(leavesOf(t))
		case *types.Array:
			if !s.IsIdx {
				panic("field step on array")
			}
			idxs = append(idxs, s.Idx)
			t = u.Elem()
		default:
			panic(fmt.Sprintf("cannot navigate into %s", t))
		}
	}
	return
}

func leadSort(nLead int, l Leaf) string {
	return l.smtSort(nLead)
}

// readLoc loads the value stored at loc and assumes its type invariants.
func (x *Exec) readLoc(st *State, loc *Loc) Val {
	out := x.readLocPure(st, loc)
	x.assumeTypeInv(st, &out, 0)
	if loc.Kind == locMem && len(loc.Steps) == 0 && strings.HasPrefix(loc.Key, "G:") && x.V.sentinelErr[loc.Key] && len(out.L) > 0 {
		x.assume(st, "(not (= "+out.L[0]+" 0))")
	}
	return out
}

// readLocPure loads the value stored at loc without side effects on the path condition.
func (x *Exec) readLocPure(st *State, loc *Loc) Val {
	v := x.readLocPure0(st, loc)
	if len(x.subst) > 0 {
		for i, t := range v.L {
			if lit, ok := x.subst[t]; ok {
				v.L[i] = lit
			}
		}
	}
	return v
}

func (x *Exec) readLocPure0(st *State, loc *Loc) Val {
	start, end, idxs, t := navigate(loc.RootT, loc.Steps)
	rl := leavesOf(loc.RootT)
	out := Val{Typ: t}
	if loc.Kind == locLocal {
		cell, ok := st.cells[loc.Alloc]
		if !ok {
			cell = x.zeroVal(loc.RootT)
			st.cells[loc.Alloc] = cell
		}
		for j := start; j < end; j++ {
			out.L = append(out.L, smtSel(cell.L[j], idxs...))
		}
		if start == 0 && end == len(rl) && len(idxs) == 0 {
			out.Loc = cell.Loc
			out.Dyn = cell.Dyn
			out.Back = cell.Back
		}
	} else {
		for j := start; j < end; j++ {
			comp := x.getComp(st, loc.Key+rl[j].Path, rl[j].smtSort(len(loc.Lead)))
			out.L = append(out.L, smtSel(comp, append(append([]string{}, loc.Lead...), idxs...)...))
		}
	}
	return out
}

// assumeTypeInv names the leaves of a loaded value and assumes the Go type invariants
// (integer ranges, slice header well-formedness).
func (x *Exec) assumeTypeInv(st *State, v *Val, consumedDims int) {
	ls := leavesOf(v.Typ)
	if len(ls) != len(v.L) {
		return
	}
	var facts []string
	for i, l := range ls {
		if l.Dims > 0 {
			continue
		}
		if isAtom(v.L[i]) || l.Sort == "Bool" {
			// atoms that are fresh constants still need ranges; handled by callers of freshVal
		}
		switch l.Kind {
		case lkScalar:
			if lo, hi, ok := intBounds(l.Typ); ok {
				if !isLiteral(v.L[i]) {
					c := x.define("ld", "Int", v.L[i])
					v.L[i] = c
					facts = append(facts, "(<= "+lo+" "+c+")", "(<= "+c+" "+hi+")")
				}
			}
		case lkSliceOff:
			c := x.define("ld", "Int", v.L[i])
			v.L[i] = c
			facts = append(facts, "(<= 0 "+c+")")
		case lkSliceLen:
			c := x.define("ld", "Int", v.L[i])
			v.L[i] = c
			facts = append(facts, "(<= 0 "+c+")")
		case lkSliceCap:
			c := x.define("ld", "Int", v.L[i])
			v.L[i] = c
			facts = append(facts, "(<= "+v.L[i-1]+" "+c+")", "(<= "+c+" "+maxAlloc+")")
		case lkGhost:
			if l.Path == "#len" {
				facts = append(facts, "(<= 0 "+v.L[i]+")")
			}
		}
	}
	if len(facts) > 0 {
		x.assume(st, smtAnd(facts...))
	}
}

func isLiteral(t string) bool {
	if t == "true" || t == "false" {
		return true
	}
	if len(t) > 0 && t[0] >= '0' && t[0] <= '9' {
		return true
	}
	return strings.HasPrefix(t, "(- ") && len(t) > 4 && t[3] >= '0' && t[3] <= '9' && !strings.Contains(t[3:], " ")
}

// writeLoc stores val at loc.
func (x *Exec) writeLoc(st *State, loc *Loc, val Val) {
	start, end, idxs, _ := navigate(loc.RootT, loc.Steps)
	rl := leavesOf(loc.RootT)
	if end-start != len(val.L) {
		x.unsup("store of %d leaves into location with %d leaves (%s)", len(val.L), end-start, loc.T)
		return
	}
	if loc.Kind == locLocal {
		cell, ok := st.cells[loc.Alloc]
		if !ok {
			cell = x.zeroVal(loc.RootT)
		}
		nl := append([]string{}, cell.L...)
		for j := start; j < end; j++ {
			if len(idxs) == 0 {
				nl[j] = val.L[j-start]
			} else {
				nl[j] = x.define("cell", rl[j].smtSort(0), smtStoreN(cell.L[j], idxs, val.L[j-start]))
			}
		}
		nc := Val{Typ: cell.Typ, L: nl}
		if start == 0 && end == len(rl) && len(idxs) == 0 {
			nc.Loc = val.Loc
			nc.Dyn = val.Dyn
			nc.Back = val.Back
		}
		st.cells[loc.Alloc] = nc
		return
	}
	if val.Back != nil || (val.Loc != nil && (val.Loc.Kind == locLocal || len(val.Loc.Steps) > 0 || len(val.Loc.Lead) != 1)) {
		if val.Loc != nil && len(val.L) == 0 {
			x.unsup("interior or local pointer stored to memory at %s", x.posString(x.curPos))
			val.L = []string{x.fresh("iptr", "Int")}
		} else if val.Back != nil {
			x.unsup("array-backed slice stored to memory at %s", x.posString(x.curPos))
		}
	}
	for j := start; j < end; j++ {
		key := loc.Key + rl[j].Path
		srt := rl[j].smtSort(len(loc.Lead))
		comp := x.getComp(st, key, srt)
		all := append(append([]string{}, loc.Lead...), idxs...)
		st.mem[key] = x.define("H", srt, smtStoreN(comp, all, val.L[j-start]))
	}
}

func (x *Exec) zeroVal(t types.Type) Val {
	ls := leavesOf(t)
	v := Val{Typ: t}
	for _, l := range ls {
		v.L = append(v.L, zeroLeafTerm(l, 0))
	}
	return v
}

// freshVal creates an unconstrained value of type t; type invariants are returned as facts.
func (x *Exec) freshVal(hint string, t types.Type) (Val, string) {
	ls := leavesOf(t)
	v := Val{Typ: t}
	var facts []string
	for i, l := range ls {
		c := x.fresh(hint+sanitize(l.Path), l.smtSort(0))
		v.L = append(v.L, c)
		if l.Dims > 0 {
			continue
		}
		switch l.Kind {
		case lkScalar:
			if lo, hi, ok := intBounds(l.Typ); ok {
				facts = append(facts, "(<= "+lo+" "+c+")", "(<= "+c+" "+hi+")")
			}
		case lkSliceArr:
			facts = append(facts, "(<= 0 "+c+")")
		case lkSliceOff, lkSliceLen:
			facts = append(facts, "(<= 0 "+c+")")
		case lkSliceCap:
			facts = append(facts, "(<= "+v.L[i-1]+" "+c+")", "(<= "+c+" "+maxAlloc+")")
		case lkGhost:
			if l.Path == "#len" {
				facts = append(facts, "(<= 0 "+c+")")
			}
		case lkRef:
			facts = append(facts, "(<= 0 "+c+")")
		}
	}
	// a nil slice has no elements
	if _, ok := t.Underlying().(*types.Slice); ok && len(v.L) == 4 {
		facts = append(facts, "(=> (= "+v.L[0]+" 0) (= "+v.L[3]+" 0))")
	}
	return v, smtAnd(facts...)
}

func sanitize(s string) string {
	r := strings.NewReplacer(".", "_", "[]", "A", "#", "g", " ", "", "*", "p", "/", "_", "(", "", ")", "")
	return r.Replace(s)
}

// ---------------------------------------------------------------------------------------------
// Frames, loops, main loop over the CFG

type loopInfo struct {
	header  *ssa.BasicBlock
	body    map[*ssa.BasicBlock]bool
	ordinal int
	lc      *LoopContract
	pos     token.Pos
	m0      string
	headSt  *State // state at loop head after havoc (for `old` style references if needed)
}

type retRec struct {
	st   *State
	vals []Val
}

type Frame struct {
	fn            *ssa.Function
	fc            *FuncContract
	vals          map[ssa.Value]Val
	params        []Val
	entry         *State
	top           bool
	depth         int
	loops         map[*ssa.BasicBlock]*loopInfo
	rets          []retRec
	propTags      []string
	callPath      string
	parent        *Frame
	sparams       map[*ssa.Parameter][]sroot
	edgePC        map[[2]*ssa.BasicBlock]string
	unknownParams bool
	callSite      ssa.Instruction
	region        *loopInfo
	regionExits   []*State
}

func (x *Exec) findLoops(fr *Frame) {
	fn := fr.fn
	fr.loops = map[*ssa.BasicBlock]*loopInfo{}
	for _, b := range fn.Blocks {
		for _, s := range b.Succs {
			if s.Dominates(b) {
				li := fr.loops[s]
				if li == nil {
					li = &loopInfo{header: s, body: map[*ssa.BasicBlock]bool{s: true}}
					fr.loops[s] = li
				}
				// natural loop: all blocks that reach b without passing s
				var stack []*ssa.BasicBlock
				if !li.body[b] {
					li.body[b] = true
					stack = append(stack, b)
				}
				for len(stack) > 0 {
					n := stack[len(stack)-1]
					stack = stack[:len(stack)-1]
					for _, p := range n.Preds {
						if !li.body[p] {
							li.body[p] = true
							stack = append(stack, p)
						}
					}
				}
			}
		}
	}
	// ordinals by source position of the for/range statements
	var astLoops []token.Pos
	if syn := fn.Syntax(); syn != nil {
		var body ast.Node
		switch s := syn.(type) {
		case *ast.FuncDecl:
			body = s.Body
		case *ast.FuncLit:
			body = s.Body
		}
		if body != nil {
			ast.Inspect(body, func(n ast.Node) bool {
				switch n.(type) {
				case *ast.FuncLit:
					return false
				case *ast.ForStmt, *ast.RangeStmt:
					astLoops = append(astLoops, n.Pos())
				}
				return true
			})
		}
	}
	var hs []*loopInfo
	for _, li := range fr.loops {
		li.pos = minPos(li.header)
		if !li.pos.IsValid() {
			for b := range li.body {
				if p := minPos(b); p.IsValid() && (!li.pos.IsValid() || p < li.pos) {
					li.pos = p
				}
			}
		}
		hs = append(hs, li)
	}
	sort.Slice(hs, func(i, j int) bool { return hs[i].pos < hs[j].pos })
	if len(astLoops) == len(hs) {
		// match by order: the k-th loop header (by position) belongs to the k-th loop statement
		// whose position precedes it.  Loop statements are visited in source order.
		for i, li := range hs {
			li.ordinal = i + 1
			li.pos = astLoops[i]
		}
	} else {
		for i, li := range hs {
			li.ordinal = i + 1
		}
		if fr.top && len(hs) > 0 {
			x.unsup("loop count mismatch: %d loop statements vs %d CFG loops in %s", len(astLoops), len(hs), fn.Name())
		}
	}
	if fr.fc != nil {
		for _, li := range hs {
			li.lc = fr.fc.Loops[li.ordinal]
		}
		for k, lc := range fr.fc.Loops {
			if k < 1 || k > len(hs) {
				x.bindingError(fmt.Sprintf("loop %d", k), fmt.Sprintf("function has %d loops", len(hs)), lc.File, lc.Line)
			}
		}
	}
}

func minPos(b *ssa.BasicBlock) token.Pos {
	var m token.Pos
	for _, in := range b.Instrs {
		p := in.Pos()
		if d, ok := in.(*ssa.DebugRef); ok {
			p = d.Expr.Pos()
		}
		if p.IsValid() && (!m.IsValid() || p < m) {
			m = p
		}
	}
	return m
}

// bindingError: a contract that no longer binds to the code is an undischargeable obligation.
func (x *Exec) bindingError(what, why, file string, line int) {
	x.obCount["binding"]++
	name := fmt.Sprintf("%s.%s/binding#%d", shortPkg(x.pkg), x.name, x.obCount["binding"])
	o := &Obligation{Name: name, Kind: "binding", Pkg: x.pkg, Fn: x.name, Pos: fmt.Sprintf("%s:%d", file, line),
		Src: what + ": " + why, Expect: "unsat", x: x, pc: "true", goal: "false", Status: "failed", Output: "contract does not bind: " + what + ": " + why}
	o.Tags = []string{"*"}
	x.obs = append(x.obs, o)
}

func rpo(fn *ssa.Function, isBack func(from, to *ssa.BasicBlock) bool) []*ssa.BasicBlock {
	seen := map[*ssa.BasicBlock]bool{}
	var post []*ssa.BasicBlock
	var dfs func(b *ssa.BasicBlock)
	dfs = func(b *ssa.BasicBlock) {
		seen[b] = true
		for _, s := range b.Succs {
			if !seen[s] && !isBack(b, s) {
				dfs(s)
			}
		}
		post = append(post, b)
	}
	if len(fn.Blocks) > 0 {
		dfs(fn.Blocks[0])
	}
	for i, j := 0, len(post)-1; i < j; i, j = i+1, j-1 {
		post[i], post[j] = post[j], post[i]
	}
	return post
}

// mergeStates joins the states arriving at a block.
func (x *Exec) mergeStates(in []*State) *State {
	var live []*State
	for _, s := range in {
		if s != nil && !s.dead && s.pc != "false" {
			live = append(live, s)
		}
	}
	if len(live) == 0 {
		return nil
	}
	if len(live) == 1 {
		return live[0]
	}
	out := &State{cells: map[*ssa.Alloc]Val{}, mem: map[string]string{}, epoch: live[0].epoch, nm: live[0].nm}
	var pcs []string
	for _, s := range live {
		pcs = append(pcs, s.pc)
	}
	out.pc = x.define("pc", "Bool", smtOr(pcs...))
	// cells
	allocs := map[*ssa.Alloc]bool{}
	for _, s := range live {
		for a := range s.cells {
			allocs[a] = true
		}
	}
	for a := range allocs {
		var have []*State
		for _, s := range live {
			if _, ok := s.cells[a]; ok {
				have = append(have, s)
			}
		}
		first := have[0].cells[a]
		same := true
		for _, s := range have[1:] {
			c := s.cells[a]
			if len(c.L) != len(first.L) {
				same = false
				break
			}
			for i := range c.L {
				if c.L[i] != first.L[i] {
					same = false
				}
			}
			if c.Loc != first.Loc || c.Dyn != first.Dyn || c.Back != first.Back {
				// structural annotations differ: drop them
				first.Loc, first.Dyn, first.Back = nil, nil, nil
				if len(first.L) == 0 {
					same = false
				}
			}
		}
		if same {
			out.cells[a] = first
			continue
		}
		ls := leavesOf(first.Typ)
		if len(ls) != len(first.L) {
			x.unsup("cannot merge structured pointer values of %s", a.Comment)
			fv, _ := x.freshVal("mrg", first.Typ)
			out.cells[a] = fv
			continue
		}
		m := Val{Typ: first.Typ}
		for i, l := range ls {
			eq := true
			for _, s := range have[1:] {
				if s.cells[a].L[i] != first.L[i] {
					eq = false
				}
			}
			if eq {
				m.L = append(m.L, first.L[i])
				continue
			}
			c := x.fresh("m_"+sanitize(a.Comment), l.smtSort(0))
			for _, s := range have {
				x.assert(smtImp(s.pc, "(= "+c+" "+s.cells[a].L[i]+")"))
			}
			m.L = append(m.L, c)
		}
		out.cells[a] = m
	}
	// memory components
	keys := map[string]bool{}
	for _, s := range live {
		for k := range s.mem {
			keys[k] = true
		}
	}
	// different epochs: every state must materialise every key from its own epoch
	var ks []string
	for k := range keys {
		ks = append(ks, k)
	}
	sort.Strings(ks)
	for _, k := range ks {
		srt := x.compSort[k]
		var ts []string
		same := true
		for _, s := range live {
			t := x.getComp(s, k, srt)
			ts = append(ts, t)
			if t != ts[0] {
				same = false
			}
		}
		if same {
			out.mem[k] = ts[0]
			continue
		}
		c := x.fresh("Hm", srt)
		for i, s := range live {
			x.assert(smtImp(s.pc, "(= "+c+" "+ts[i]+")"))
		}
		out.mem[k] = c
	}
	// wholesale-havoced prefixes: if the states disagree, rename them all
	pfxAll := map[string]bool{}
	pfxSame := true
	for _, s := range live {
		for p := range s.pfx {
			pfxAll[p] = true
		}
	}
	for p := range pfxAll {
		for _, s := range live {
			if s.pfx == nil || s.pfx[p] != live[0].pfx[p] {
				pfxSame = false
			}
		}
	}
	if len(pfxAll) > 0 {
		out.pfx = map[string]string{}
		for p := range pfxAll {
			if pfxSame {
				out.pfx[p] = live[0].pfx[p]
			} else {
				out.pfx[p] = "j" + x.newEpoch()
			}
		}
	}
	// epochs differ => components not yet touched differ too; be conservative
	for _, s := range live[1:] {
		if s.epoch != live[0].epoch {
			out.epoch = "j" + x.newEpoch()
			break
		}
	}
	fr := map[string]bool{}
	for _, s := range live {
		for _, r := range s.fresh {
			if !fr[r] {
				fr[r] = true
				out.fresh = append(out.fresh, r)
			}
		}
	}
	return out
}

// runFunc symbolically executes fn from state st; returns the merged exit state and results.
func (x *Exec) runFunc(fr *Frame, st *State) (*State, []Val) {
	fn := fr.fn
	if len(fn.Blocks) == 0 {
		x.unsup("function %s has no body", fn.String())
		return st, nil
	}
	x.findLoops(fr)
	isBack := func(from, to *ssa.BasicBlock) bool { return to.Dominates(from) && fr.loops[to] != nil }
	order := rpo(fn, isBack)
	incoming := map[*ssa.BasicBlock][]*State{}
	incoming[fn.Blocks[0]] = []*State{st}
	for _, b := range order {
		cur := x.mergeStates(incoming[b])
		delete(incoming, b)
		if cur == nil {
			continue
		}
		if len(incoming[b]) > 1 || true {
			cur = cur.clone()
		}
		if li := fr.loops[b]; li != nil {
			x.enterLoop(fr, li, cur)
		}
		x.execBlock(fr, b, cur, incoming, isBack)
	}
	// merge returns
	if len(fr.rets) == 0 {
		dead := st.clone()
		dead.pc = "false"
		dead.dead = true
		var zs []Val
		res := fn.Signature.Results()
		for i := 0; i < res.Len(); i++ {
			zs = append(zs, x.zeroVal(res.At(i).Type()))
		}
		return dead, zs
	}
	if len(fr.rets) == 1 {
		return fr.rets[0].st, fr.rets[0].vals
	}
	var sts []*State
	for _, r := range fr.rets {
		sts = append(sts, r.st)
	}
	out := x.mergeStates(sts)
	if out == nil {
		return fr.rets[0].st, fr.rets[0].vals
	}
	out = out.clone()
	nres := len(fr.rets[0].vals)
	results := make([]Val, nres)
	for i := 0; i < nres; i++ {
		first := fr.rets[0].vals[i]
		m := Val{Typ: first.Typ}
		ls := leavesOf(first.Typ)
		for j := range first.L {
			same := true
			for _, r := range fr.rets[1:] {
				if len(r.vals[i].L) != len(first.L) || r.vals[i].L[j] != first.L[j] {
					same = false
				}
			}
			if same {
				m.L = append(m.L, first.L[j])
				continue
			}
			srt := "Int"
			if j < len(ls) {
				srt = ls[j].smtSort(0)
			}
			c := x.fresh("ret", srt)
			for _, r := range fr.rets {
				if r.st.pc == "false" || len(r.vals[i].L) <= j {
					continue
				}
				x.assert(smtImp(r.st.pc, "(= "+c+" "+r.vals[i].L[j]+")"))
			}
			m.L = append(m.L, c)
		}
		results[i] = m
	}
	return out, results
}

// runLoopBody symbolically executes ONE iteration of loop `ordinal` of fr.fn, starting at the loop
// head from a state in which every local variable defined outside the body holds an arbitrary
// value of its type (the loop's own invariants are assumed), and ending at the back edge.
// Used by pair lemmas over kernels that are written inline in scan loops.
func (x *Exec) prepareLoopBody(fr *Frame, ordinal int, st *State) error {
	fn := fr.fn
	x.findLoops(fr)
	var li *loopInfo
	for _, l := range fr.loops {
		if l.ordinal == ordinal {
			li = l
		}
	}
	if li == nil {
		return fmt.Errorf("function %s has no loop %d", fn.Name(), ordinal)
	}
	fr.region = li
	// arbitrary values for everything defined outside the body
	paramOf := map[*ssa.Alloc]int{}
	for _, in := range fn.Blocks[0].Instrs {
		if s, ok := in.(*ssa.Store); ok {
			if a, ok := s.Addr.(*ssa.Alloc); ok {
				if p, ok := s.Val.(*ssa.Parameter); ok {
					for i, fp := range fn.Params {
						if fp == p {
							paramOf[a] = i
						}
					}
				}
			}
		}
	}
	var facts []string
	for _, b := range fn.Blocks {
		if li.body[b] && b != li.header {
			continue
		}
		for _, in := range b.Instrs {
			a, ok := in.(*ssa.Alloc)
			if !ok {
				continue
			}
			if b == li.header {
				continue
			}
			rt := deref(a.Type())
			if !a.Heap {
				if i, isParam := paramOf[a]; isParam && i < len(fr.params) {
					st.cells[a] = fr.params[i]
					continue
				}
				v, f := x.freshVal("rg_"+sanitize(a.Comment), rt)
				facts = append(facts, f)
				st.cells[a] = v
				for i, l := range leavesOf(rt) {
					if l.Dims == 0 && i < len(v.L) {
						x.paramNames = append(x.paramNames, v.L[i])
					}
				}
			} else {
				ref := x.fresh("rgp_"+sanitize(a.Comment), "Int")
				facts = append(facts, "(> "+ref+" 0)", "(< "+ref+" "+fmt.Sprint(int64(1)<<40)+")")
				fr.vals[a] = Val{Typ: a.Type(), L: []string{ref}, NonNil: true}
			}
		}
	}
	x.assume(st, smtAnd(facts...))
	// the loop's invariants (and those of enclosing loops) hold at the head
	for _, l := range fr.loops {
		if l.lc == nil || !l.body[li.header] {
			continue
		}
		for _, inv := range l.lc.Invariants {
			env := x.frameEnv(fr, st, l.pos)
			if env.old == nil && mentionsEntryState(inv.Expr) {
				// a loop body executed on its own has no function-entry state: conjuncts that relate
				// to it are not assumed (assuming less is sound)
				for _, c := range conjuncts(inv.Expr) {
					if mentionsEntryState(c) {
						continue
					}
					if t, e := x.specBool(env, c); e == nil {
						x.assume(st, t)
					}
				}
				continue
			}
			if t, e := x.specBool(env, inv.Expr); e == nil {
				x.assume(st, t)
			}
		}
	}
	return nil
}

// mentionsEntryState reports whether a specification expression refers to the function's entry state.
func mentionsEntryState(e ast.Expr) bool {
	found := false
	ast.Inspect(e, func(n ast.Node) bool {
		if c, ok := n.(*ast.CallExpr); ok {
			if id, ok := c.Fun.(*ast.Ident); ok && (id.Name == "old" || id.Name == "same" || id.Name == "unchanged") {
				found = true
			}
		}
		return !found
	})
	return found
}

// runLoopBody executes the prepared loop body from st to the back edge.
func (x *Exec) runLoopBody(fr *Frame, st *State) (*State, error) {
	fn := fr.fn
	li := fr.region
	isBack := func(from, to *ssa.BasicBlock) bool { return to.Dominates(from) && fr.loops[to] != nil }
	order := rpo(fn, isBack)
	incoming := map[*ssa.BasicBlock][]*State{}
	incoming[li.header] = []*State{st}
	for _, b := range order {
		if !li.body[b] {
			continue
		}
		cur := x.mergeStates(incoming[b])
		delete(incoming, b)
		if cur == nil {
			continue
		}
		cur = cur.clone()
		if l2 := fr.loops[b]; l2 != nil && l2 != li {
			x.enterLoop(fr, l2, cur)
		}
		x.execBlock(fr, b, cur, incoming, isBack)
	}
	exit := x.mergeStates(fr.regionExits)
	if exit == nil {
		return nil, fmt.Errorf("loop %d of %s: the back edge is not reachable", li.ordinal, fn.Name())
	}
	return exit.clone(), nil
}

// enterLoop: check the invariant on entry, havoc what the loop may modify, assume the invariant.
func (x *Exec) enterLoop(fr *Frame, li *loopInfo, st *State) {
	tags := fr.propTags
	if li.lc != nil {
		for _, inv := range li.lc.Invariants {
			env := x.frameEnv(fr, st, li.pos)
			if fr.top {
				x.obligeClause(st, "inv-entry", clauseTags(inv, tags), li.pos, env, inv, fmt.Sprintf("loop %d invariant", li.ordinal))
			} else if _, err := x.specBool(env, inv.Expr); err != nil {
				x.bindingError(fmt.Sprintf("loop %d invariant %q", li.ordinal, inv.Src), err.Error(), inv.File, inv.Line)
			}
		}
	}
	// havoc
	mod := x.loopModifies(fr, li)
	if mod.all {
		st.mem = map[string]string{}
		st.epoch = "L" + x.newEpoch()
	} else {
		for _, k := range mod.comps {
			if s0, ok := x.compSort[k.key]; ok && s0 != k.sort {
				x.unsup("component %s used at sorts %s and %s", k.key, s0, k.sort)
			}
			x.compSort[k.key] = k.sort
			st.mem[k.key] = x.fresh("Hl", k.sort)
		}
		for _, p := range mod.prefixes {
			x.havocPrefix(st, p)
		}
	}
	var facts []string
	for _, a := range mod.allocs {
		if old, ok := st.cells[a]; ok {
			nv, f := x.freshVal("lv_"+sanitize(a.Comment), old.Typ)
			st.cells[a] = nv
			facts = append(facts, f)
		}
	}
	x.assume(st, smtAnd(facts...))
	if li.lc != nil {
		for _, inv := range li.lc.Invariants {
			env := x.frameEnv(fr, st, li.pos)
			t, err := x.specBool(env, inv.Expr)
			if err == nil {
				x.assume(st, t)
			}
		}
		if li.lc.Decreases != nil {
			env := x.frameEnv(fr, st, li.pos)
			t, err := x.specInt(env, li.lc.Decreases.Expr)
			if err != nil {
				x.bindingError(fmt.Sprintf("loop %d decreases %q", li.ordinal, li.lc.Decreases.Src), err.Error(), li.lc.File, li.lc.Line)
			} else {
				li.m0 = x.define("m0", "Int", t)
			}
		}
	}
	if fr.top && (li.lc == nil || li.lc.Decreases == nil) {
		x.noTerm = append(x.noTerm, fmt.Sprintf("%s loop %d", x.name, li.ordinal))
	}
	li.headSt = st.clone()
}

func clauseTags(c *Clause, def []string) []string {
	if len(c.Tags) > 0 {
		return c.Tags
	}
	return def
}

// backEdge: invariant preservation and variant decrease.
func (x *Exec) backEdge(fr *Frame, li *loopInfo, st *State) {
	if !fr.top || li.lc == nil {
		return
	}
	tags := fr.propTags
	for _, inv := range li.lc.Invariants {
		env := x.frameEnv(fr, st, li.pos)
		if _, err := x.specBool(env, inv.Expr); err != nil {
			continue // already reported at entry
		}
		x.obligeClause(st, "inv-preserved", clauseTags(inv, tags), li.pos, env, inv, "invariant")
	}
	if li.lc.Decreases != nil && li.m0 != "" {
		env := x.frameEnv(fr, st, li.pos)
		t, err := x.specInt(env, li.lc.Decreases.Expr)
		if err == nil {
			tt := fr.fc.TermProps
			if len(li.lc.Decreases.Tags) > 0 {
				tt = li.lc.Decreases.Tags
			}
			x.oblige(st, "decreases", tt, li.pos, smtAnd("(<= 0 "+li.m0+")", "(< "+t+" "+li.m0+")"), li.lc.Decreases.Src)
		}
	}
}

func (x *Exec) execBlock(fr *Frame, b *ssa.BasicBlock, st *State, incoming map[*ssa.BasicBlock][]*State, isBack func(from, to *ssa.BasicBlock) bool) {
	for _, in := range b.Instrs {
		if st.pc == "false" {
			return
		}
		if p := in.Pos(); p.IsValid() {
			x.curPos = p
		}
		switch t := in.(type) {
		case *ssa.If:
			c := x.val(fr, st, t.Cond).t()
			s1 := st.clone()
			x.assume(s1, c)
			s2 := st
			x.assume(s2, smtNot(c))
			x.flow(fr, b, b.Succs[0], s1, incoming, isBack)
			x.flow(fr, b, b.Succs[1], s2, incoming, isBack)
			return
		case *ssa.Jump:
			x.flow(fr, b, b.Succs[0], st, incoming, isBack)
			return
		case *ssa.Return:
			var vs []Val
			for _, r := range t.Results {
				vs = append(vs, x.val(fr, st, r))
			}
			if fr.top {
				x.checkEnsures(fr, st, vs, t.Pos())
			}
			fr.rets = append(fr.rets, retRec{st, vs})
			return
		case *ssa.Panic:
			if !x.noSafety {
				x.oblige(st, "panic", fr.propTags, t.Pos(), "false", "explicit panic unreachable")
			}
			st.pc = "false"
			return
		default:
			x.execInstr(fr, st, in)
		}
	}
}

func (x *Exec) flow(fr *Frame, from, to *ssa.BasicBlock, st *State, incoming map[*ssa.BasicBlock][]*State, isBack func(from, to *ssa.BasicBlock) bool) {
	if st.pc == "false" {
		return
	}
	if fr.edgePC != nil {
		fr.edgePC[[2]*ssa.BasicBlock{from, to}] = st.pc
	}
	if fr.region != nil {
		if to == fr.region.header {
			fr.regionExits = append(fr.regionExits, st)
			return
		}
		if !fr.region.body[to] {
			return // leaves the region
		}
	}
	if isBack(from, to) {
		x.backEdge(fr, fr.loops[to], st)
		return
	}
	incoming[to] = append(incoming[to], st)
}

// checkEnsures emits the post-condition obligations at a return.
func (x *Exec) checkEnsures(fr *Frame, st *State, results []Val, pos token.Pos) {
	if fr.fc == nil {
		return
	}
	for _, c := range fr.fc.Ensures {
		if c.hasTag("assumed") {
			// a ghost-channel clause: assumed at call sites, never proved; listed as an assumption
			x.trusted["assumed post-condition (ghost channel semantics, not proved) of "+shortPkg(fr.fc.Pkg)+"."+fr.fc.Key+": "+c.Src] = true
			continue
		}
		env := x.frameEnv(fr, st, token.NoPos)
		env.post = true
		env.results = results
		x.obligeClause(st, "ensures", clauseTags(c, fr.propTags), pos, env, c, "ensures")
	}
}

// isBoolSym reports whether sym is a declared Boolean constant.
func (x *Exec) isBoolSym(sym string) bool {
	x.symMu.Lock()
	defer x.symMu.Unlock()
	if x.boolSymSet == nil {
		x.boolSymSet = map[string]bool{}
	}
	for ; x.boolSymN < len(x.decls); x.boolSymN++ {
		d := x.decls[x.boolSymN]
		if strings.HasSuffix(d, " Bool)") {
			x.boolSymSet[strings.TrimSuffix(strings.TrimPrefix(d, "(declare-const "), " Bool)")] = true
		}
	}
	return x.boolSymSet[sym]
}
