package main

// Zero-annotation safety sweep: every function in scope that has no contract is executed with an
// empty pre-condition (all parameters and the whole heap symbolic); its safety obligations
// (index / slice bounds, nil dereference, division by zero, negative shift, make length, explicit
// panic) are attempted.  The obligations that are discharged on the pinned tree are recorded in a
// committed baseline; a check re-generates them from the current sources and reports every
// baseline obligation that is no longer discharged.  Obligations that were never discharged are
// not claimed (they need contracts) and are only counted.

import (
	"encoding/json"
	"flag"
	"fmt"
	"go/token"
	"go/types"
	"os"
	"path/filepath"
	"regexp"
	"sort"
	"strings"
	"sync"
	"time"

	"golang.org/x/tools/go/ssa"
)

type SweepScope struct {
	Name    string   `json:"name"`
	Props   []string `json:"props"`
	Pkgs    []string `json:"pkgs"`    // package paths relative to the module
	Include string   `json:"include"` // regexp on the function key
	Exclude string   `json:"exclude"`
}

type SweepBaseline struct {
	Scope  string   `json:"scope"`
	Proved []string `json:"proved"`
	Wrap   []string `json:"wrap"` // range obligations that did not discharge: encoded with exact wrap-around from the start
}

func loadSweepScopes(verifDir string) []SweepScope {
	var sc []SweepScope
	b, err := os.ReadFile(filepath.Join(verifDir, "sweep.json"))
	if err != nil {
		return nil
	}
	if err := json.Unmarshal(b, &sc); err != nil {
		fatal("sweep.json: %v", err)
	}
	return sc
}

func (v *Verifier) sweepFuncs(sc SweepScope) []*ssa.Function {
	var inc, exc *regexp.Regexp
	if sc.Include != "" {
		inc = regexp.MustCompile(sc.Include)
	}
	if sc.Exclude != "" {
		exc = regexp.MustCompile(sc.Exclude)
	}
	var out []*ssa.Function
	for k, fn := range v.funcs {
		i := strings.Index(k, ":")
		pkg, key := k[:i], k[i+1:]
		rel := strings.TrimPrefix(strings.TrimPrefix(pkg, v.modPath), "/")
		if !contains(sc.Pkgs, rel) {
			continue
		}
		if fc, has := v.contracts.Funcs[k]; has && !fc.NoSafety {
			continue
		}
		if inc != nil && !inc.MatchString(key) {
			continue
		}
		if exc != nil && exc.MatchString(key) {
			continue
		}
		if len(fn.Blocks) == 0 || key == "init" || strings.HasPrefix(key, "init#") || strings.HasPrefix(key, "Test") || strings.HasPrefix(key, "Benchmark") {
			continue
		}
		if countInstrs(fn) > 4000 {
			continue // very large drivers: out of the sweep's reach (listed in DESIGN.md)
		}
		if pos := v.fset.Position(fn.Pos()); strings.HasSuffix(pos.Filename, "_test.go") {
			continue
		}
		out = append(out, fn)
	}
	sort.Slice(out, func(i, j int) bool { return out[i].String() < out[j].String() })
	return out
}

// genSweep generates the safety obligations of fn under an empty contract.
func (v *Verifier) genSweep(fn *ssa.Function, props []string, mustWrap map[string]bool, preWrap map[string]bool) *Exec {
	x := newExec(v, funcPkgPath(fn), funcKey(fn), "")
	x.mustWrap = mustWrap
	x.preWrap = preWrap
	x.textNames = true
	x.maxInline = 3
	st, params := x.initialState(fn, "")
	fc := &FuncContract{Pkg: funcPkgPath(fn), Key: funcKey(fn), Loops: map[int]*LoopContract{}, Props: props}
	fr := &Frame{fn: fn, fc: fc, vals: map[ssa.Value]Val{}, params: params, top: true, propTags: props, edgePC: map[[2]*ssa.BasicBlock]string{}}
	for i, p := range fn.Params {
		fr.vals[p] = params[i]
	}
	// thin implicit contract of the sweep: a method is not called on a nil receiver
	if fn.Signature.Recv() != nil && len(params) > 0 {
		if _, ok := fn.Params[0].Type().Underlying().(*types.Pointer); ok && len(params[0].L) == 1 {
			x.assume(st, "(not (= "+params[0].L[0]+" 0))")
		}
	}
	fr.entry = st.clone()
	x.observeParams(fn, fr.entry, params)
	x.runFunc(fr, st.clone())
	return x
}

type sweepResult struct {
	Wrapped     map[string]bool
	Scope       string
	Funcs       int
	Obligations int
	Proved      map[string]bool
	Failed      map[string]*Obligation
	Secs        float64
	Ranges      int
}

func (v *Verifier) runSweep(sc SweepScope, timeoutMS int, base *SweepBaseline) *sweepResult {
	var only, preWrap map[string]bool
	if base != nil {
		only = map[string]bool{}
		for _, n := range base.Proved {
			only[n] = true
		}
		preWrap = map[string]bool{}
		for _, n := range base.Wrap {
			preWrap[n] = true
		}
	}
	t0 := time.Now()
	v.maxPasses = 3
	v.rangeMS = 400
	defer func() { v.maxPasses, v.rangeMS = 0, 0 }()
	fns := v.sweepFuncs(sc)
	res := &sweepResult{Scope: sc.Name, Funcs: len(fns), Proved: map[string]bool{}, Failed: map[string]*Obligation{}, Wrapped: map[string]bool{}}
	var mu sync.Mutex
	var wg sync.WaitGroup
	sem := make(chan struct{}, 16)
	for _, fn := range fns {
		fn := fn
		wg.Add(1)
		go func() {
			defer wg.Done()
			sem <- struct{}{}
			defer func() { <-sem }()
			defer func() {
				if r := recover(); r != nil {
					// generator limitation on this function: nothing is claimed for it
					_ = r
				}
			}()
			var wrappedNames []string
			x := v.stabilizeNames(func(mw map[string]bool) *Exec { return v.genSweep(fn, sc.Props, mw, preWrap) }, &wrappedNames)
			var obs []*Obligation
			var skipped []*Obligation
			nr := 0
			for _, o := range x.obs {
				if o.Kind == "range" {
					nr++
					continue
				}
				if o.Expect == "unsat" && o.Status == "" {
					if only != nil && !only[o.Name] {
						skipped = append(skipped, o)
						continue
					}
					obs = append(obs, o)
				}
			}
			solveBatch(obs, filepath.Join(v.vcDir, "sweep"), timeoutMS)
			mu.Lock()
			res.Ranges += nr
			for _, n := range wrappedNames {
				res.Wrapped[n] = true
			}
			for _, o := range skipped {
				res.Obligations++
				res.Failed[o.Name] = o // not claimed: listed as undischarged without an attempt
			}
			for _, o := range obs {
				res.Obligations++
				if o.Status == "proved" {
					res.Proved[o.Name] = true
				} else {
					res.Failed[o.Name] = o
				}
			}
			mu.Unlock()
		}()
	}
	wg.Wait()
	res.Secs = time.Since(t0).Seconds()
	return res
}

func baselinePath(verifDir, scope string) string {
	return filepath.Join(verifDir, "baseline", "sweep_"+scope+".json")
}

func cmdSweep(args []string) {
	fs := flag.NewFlagSet("sweep", flag.ExitOnError)
	update := fs.Bool("update", false, "rewrite the committed baselines from the current tree")
	only := fs.String("scope", "", "only this scope")
	root := fs.String("root", "/repo", "repository root")
	verifDir := fs.String("verif", "/verif", "verif dir")
	showFailed := fs.Bool("failed", false, "list undischarged obligations")
	fs.Parse(args)
	v, err := loadVerifier(*root)
	if err != nil {
		fatal("%v", err)
	}
	v.vcDir = filepath.Join(*verifDir, "out", "vc", "sweep")
	for _, sc := range loadSweepScopes(*verifDir) {
		if *only != "" && sc.Name != *only {
			continue
		}
		res := v.runSweep(sc, 3000, nil)
		fmt.Printf("scope %s: %d functions, %d safety obligations, %d discharged, %d range, %.1fs\n", sc.Name, res.Funcs, res.Obligations, len(res.Proved), res.Ranges, res.Secs)
		if *showFailed {
			var ks []string
			for k := range res.Failed {
				ks = append(ks, k)
			}
			sort.Strings(ks)
			for _, k := range ks {
				fmt.Printf("  undischarged %s  %s\n", k, res.Failed[k].Pos)
			}
		}
		if *update {
			var ks []string
			for k := range res.Proved {
				ks = append(ks, k)
			}
			sort.Strings(ks)
			os.MkdirAll(filepath.Join(*verifDir, "baseline"), 0o755)
			var ws []string
			for k := range res.Wrapped {
				ws = append(ws, k)
			}
			sort.Strings(ws)
			b, _ := json.MarshalIndent(SweepBaseline{Scope: sc.Name, Proved: ks, Wrap: ws}, "", " ")
			os.WriteFile(baselinePath(*verifDir, sc.Name), b, 0o644)
		}
	}
}

// sweepCheck is the check-time back end: every baseline obligation must still be discharged.
func (v *Verifier) sweepCheck(verifDir, prop string, replayDir string) (map[string]any, []staticProblem, []*Obligation) {
	total, discharged := 0, 0
	var problems []staticProblem
	var failedObs []*Obligation
	var scopes []map[string]any
	for _, sc := range loadSweepScopes(verifDir) {
		if !contains(sc.Props, prop) {
			continue
		}
		var base SweepBaseline
		b, err := os.ReadFile(baselinePath(verifDir, sc.Name))
		if err != nil {
			problems = append(problems, staticProblem{Key: sc.Name, Msg: "missing sweep baseline " + baselinePath(verifDir, sc.Name)})
			continue
		}
		json.Unmarshal(b, &base)
		res := v.runSweep(sc, 5000, &base)
		missing := 0
		for _, name := range base.Proved {
			total++
			if res.Proved[name] {
				discharged++
				continue
			}
			if o, ok := res.Failed[name]; ok {
				failedObs = append(failedObs, o)
			} else {
				// the obligation no longer exists under this name (the source line changed): it is not
				// claimed any more; counted, not an alarm
				missing++
				total--
			}
		}
		scopes = append(scopes, map[string]any{"scope": sc.Name, "functions": res.Funcs, "safety_obligations_generated": res.Obligations,
			"baseline_obligations": len(base.Proved), "baseline_no_longer_present": missing, "discharged_now": len(res.Proved),
			"not_claimed_undischarged": len(res.Failed), "range_obligations": res.Ranges, "seconds": round3(res.Secs)})
	}
	return map[string]any{"name": "sweep", "obligations": total, "discharged": discharged, "scopes": scopes}, problems, failedObs
}

var _ = token.NoPos
