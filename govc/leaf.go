package main

// Type decomposition: every Go value is represented as a flat vector of SMT
// terms, one per "leaf" of its type.  Arrays add an index dimension to all
// leaves of their element type; slices are four integer leaves
// (arr, off, len, cap); pointers, interfaces, maps, funcs, chans and strings
// are single Int leaves (opaque references).

import (
	"fmt"
	"go/types"
	"regexp"
	"strings"
	"sync"
)

type leafKind int

const (
	lkScalar leafKind = iota // integer / bool / float leaf with Go type Typ
	lkRef                    // pointer, map, chan, func, interface, string
	lkSliceArr
	lkSliceOff
	lkSliceLen
	lkSliceCap
	lkGhost // ghost leaf of a modelled library type (bytes.Buffer)
)

type Leaf struct {
	Path string
	Dims int
	Sort string // Int, Bool, Real
	Typ  types.Type
	Kind leafKind
}

func (l Leaf) smtSort(extraDims int) string {
	s := l.Sort
	for i := 0; i < l.Dims+extraDims; i++ {
		s = "(Array Int " + s + ")"
	}
	return s
}

var leafCache = map[string][]Leaf{}
var leafMu sync.Mutex

func typeKey(t types.Type) string {
	k := types.TypeString(t, func(p *types.Package) string { return p.Path() })
	// byte and rune are aliases: one heap component per underlying type, whatever the spelling
	if strings.Contains(k, "byte") {
		k = reByteAlias.ReplaceAllString(k, "${1}uint8")
	}
	if strings.Contains(k, "rune") {
		k = reRuneAlias.ReplaceAllString(k, "${1}int32")
	}
	return k
}

var reByteAlias = regexp.MustCompile(`(^|[^A-Za-z0-9_.])byte\b`)
var reRuneAlias = regexp.MustCompile(`(^|[^A-Za-z0-9_.])rune\b`)

// shortKey is used in component names; it must be injective enough and SMT-safe after quoting.
func isBytesBuffer(t types.Type) bool {
	n, ok := t.(*types.Named)
	if !ok {
		return false
	}
	o := n.Obj()
	return o.Pkg() != nil && o.Pkg().Path() == "bytes" && o.Name() == "Buffer"
}

func leavesOf(t types.Type) []Leaf {
	k := typeKey(t)
	leafMu.Lock()
	l, ok := leafCache[k]
	leafMu.Unlock()
	if ok {
		return l
	}
	l = computeLeaves(t)
	leafMu.Lock()
	leafCache[k] = l
	leafMu.Unlock()
	return l
}

func computeLeaves(t types.Type) []Leaf {
	if isBytesBuffer(t) {
		return []Leaf{
			{Path: "#len", Sort: "Int", Kind: lkGhost},
			{Path: "#data", Sort: "Int", Dims: 1, Kind: lkGhost},
		}
	}
	switch u := t.Underlying().(type) {
	case *types.Basic:
		info := u.Info()
		switch {
		case info&types.IsBoolean != 0:
			return []Leaf{{Sort: "Bool", Typ: t, Kind: lkScalar}}
		case info&types.IsInteger != 0:
			return []Leaf{{Sort: "Int", Typ: t, Kind: lkScalar}}
		case info&types.IsFloat != 0:
			return []Leaf{{Sort: "Real", Typ: t, Kind: lkScalar}}
		case info&types.IsString != 0:
			return []Leaf{{Sort: "Int", Typ: t, Kind: lkRef}}
		case u.Kind() == types.UnsafePointer || u.Kind() == types.UntypedNil:
			return []Leaf{{Sort: "Int", Typ: t, Kind: lkRef}}
		case info&types.IsComplex != 0:
			return []Leaf{{Sort: "Int", Typ: t, Kind: lkRef}}
		}
		return []Leaf{{Sort: "Int", Typ: t, Kind: lkRef}}
	case *types.Pointer, *types.Map, *types.Chan, *types.Signature, *types.Interface:
		return []Leaf{{Sort: "Int", Typ: t, Kind: lkRef}}
	case *types.Slice:
		return []Leaf{
			{Path: ".arr", Sort: "Int", Typ: t, Kind: lkSliceArr},
			{Path: ".off", Sort: "Int", Typ: t, Kind: lkSliceOff},
			{Path: ".len", Sort: "Int", Typ: t, Kind: lkSliceLen},
			{Path: ".cap", Sort: "Int", Typ: t, Kind: lkSliceCap},
		}
	case *types.Struct:
		var out []Leaf
		for i := 0; i < u.NumFields(); i++ {
			f := u.Field(i)
			for _, l := range leavesOf(f.Type()) {
				l.Path = "." + f.Name() + l.Path
				out = append(out, l)
			}
		}
		return out
	case *types.Array:
		var out []Leaf
		for _, l := range leavesOf(u.Elem()) {
			l.Path = "[]" + l.Path
			l.Dims++
			out = append(out, l)
		}
		return out
	case *types.Tuple:
		var out []Leaf
		for i := 0; i < u.Len(); i++ {
			for _, l := range leavesOf(u.At(i).Type()) {
				l.Path = fmt.Sprintf("#%d%s", i, l.Path)
				out = append(out, l)
			}
		}
		return out
	case *types.TypeParam:
		return []Leaf{{Sort: "Int", Typ: t, Kind: lkRef}}
	}
	return []Leaf{{Sort: "Int", Typ: t, Kind: lkRef}}
}

// intRange returns (lo, hi, ok) as decimal strings for integer types.
func intInfo(t types.Type) (bits int, signed bool, ok bool) {
	b, isb := t.Underlying().(*types.Basic)
	if !isb || b.Info()&types.IsInteger == 0 {
		return 0, false, false
	}
	switch b.Kind() {
	case types.Int8:
		return 8, true, true
	case types.Int16:
		return 16, true, true
	case types.Int32:
		return 32, true, true
	case types.Int64, types.Int, types.UntypedInt, types.UntypedRune:
		return 64, true, true
	case types.Uint8:
		return 8, false, true
	case types.Uint16:
		return 16, false, true
	case types.Uint32:
		return 32, false, true
	case types.Uint64, types.Uint, types.Uintptr:
		return 64, false, true
	}
	return 64, true, true
}

func pow2str(n int) string {
	// exact decimal 2^n for n <= 64 (and beyond via big shifting by string table)
	tbl := map[int]string{
		7: "128", 8: "256", 15: "32768", 16: "65536", 31: "2147483648", 32: "4294967296",
		63: "9223372036854775808", 64: "18446744073709551616",
	}
	if s, ok := tbl[n]; ok {
		return s
	}
	if n < 63 {
		return fmt.Sprintf("%d", int64(1)<<uint(n))
	}
	// n > 64: compute with decimal doubling
	s := tbl[64]
	for i := 64; i < n; i++ {
		s = decDouble(s)
	}
	return s
}

func decDouble(s string) string {
	out := make([]byte, 0, len(s)+1)
	carry := 0
	for i := len(s) - 1; i >= 0; i-- {
		d := int(s[i]-'0')*2 + carry
		out = append(out, byte('0'+d%10))
		carry = d / 10
	}
	if carry > 0 {
		out = append(out, byte('0'+carry))
	}
	for i, j := 0, len(out)-1; i < j; i, j = i+1, j-1 {
		out[i], out[j] = out[j], out[i]
	}
	return string(out)
}

func intBounds(t types.Type) (lo, hi string, ok bool) {
	bits, signed, ok := intInfo(t)
	if !ok {
		return "", "", false
	}
	if signed {
		return "(- " + pow2str(bits-1) + ")", "(- " + pow2str(bits-1) + " 1)", true
	}
	return "0", "(- " + pow2str(bits) + " 1)", true
}

func wrapFn(t types.Type) string {
	bits, signed, ok := intInfo(t)
	if !ok {
		return ""
	}
	if signed {
		return fmt.Sprintf("wrap_i%d", bits)
	}
	return fmt.Sprintf("wrap_u%d", bits)
}

// smtPrelude declares the helper functions used by every query.
func smtPrelude() string {
	var sb strings.Builder
	for _, bits := range []int{8, 16, 32, 64} {
		m := pow2str(bits)
		h := pow2str(bits - 1)
		fmt.Fprintf(&sb, "(define-fun wrap_u%d ((x Int)) Int (ite (and (<= 0 x) (< x %s)) x (mod x %s)))\n", bits, m, m)
		fmt.Fprintf(&sb, "(define-fun wrap_i%d ((x Int)) Int (ite (and (<= (- %s) x) (< x %s)) x (- (mod (+ x %s) %s) %s)))\n", bits, h, h, h, m, h)
	}
	// truncated division and remainder (Go semantics); divisor non-zero is a separate obligation
	sb.WriteString("(define-fun tdiv ((a Int) (b Int)) Int (ite (>= a 0) (ite (> b 0) (div a b) (- (div a (- b)))) (ite (> b 0) (- (div (- a) b)) (div (- a) (- b)))))\n")
	sb.WriteString("(define-fun trem ((a Int) (b Int)) Int (- a (* b (tdiv a b))))\n")
	// pow2 ladder 0..64
	sb.WriteString("(define-fun pow2 ((c Int)) Int ")
	for i := 0; i < 64; i++ {
		fmt.Fprintf(&sb, "(ite (<= c %d) %s ", i, pow2str(i))
	}
	sb.WriteString(pow2str(64))
	sb.WriteString(strings.Repeat(")", 64))
	sb.WriteString(")\n")
	sb.WriteString("(define-fun imin ((a Int) (b Int)) Int (ite (<= a b) a b))\n")
	sb.WriteString("(define-fun imax ((a Int) (b Int)) Int (ite (>= a b) a b))\n")
	sb.WriteString("(define-fun iabs ((a Int)) Int (ite (>= a 0) a (- a)))\n")
	// uninterpreted bit operations (sound, incomplete); axioms are added at use sites
	sb.WriteString("(declare-fun band (Int Int) Int)\n(declare-fun bor (Int Int) Int)\n(declare-fun bxor (Int Int) Int)\n(declare-fun bandnot (Int Int) Int)\n")
	// uninterpreted float operations
	for _, op := range []string{"fadd", "fsub", "fmul", "fdiv"} {
		fmt.Fprintf(&sb, "(declare-fun %s (Real Real) Real)\n", op)
	}
	sb.WriteString("(declare-fun fneg (Real) Real)\n(declare-fun flt (Real Real) Bool)\n(declare-fun fle (Real Real) Bool)\n")
	sb.WriteString("(declare-fun i2f (Int) Real)\n(declare-fun f2i (Real) Int)\n(declare-fun f2f32 (Real) Real)\n")
	sb.WriteString("(declare-fun strlen (Int) Int)\n")
	return sb.String()
}
