package main

// Specification expressions: Go expression syntax, evaluated to SMT terms over the symbolic
// state.  Integers in specifications are mathematical; program values keep their Go types.

import (
	"fmt"
	"go/ast"
	"go/constant"
	"go/token"
	"go/types"
	"strconv"
	"strings"

	"golang.org/x/tools/go/ssa"
)

var mathInt = types.Typ[types.UntypedInt]
var mathBool = types.Typ[types.UntypedBool]

type Env struct {
	x          *Exec
	fn         *ssa.Function
	fr         *Frame
	pos        token.Pos
	vars       map[string]Val
	oldVars    map[string]Val
	st, old    *State
	post       bool
	results    []Val
	bound      map[string]string
	lets       map[string]Val
	sides      map[string]*Env // pair lemmas: "l" and "r"
	inOld      bool
	noFacts    bool
	regionSide bool
}

func (e *Env) withBound(name, sym string) *Env {
	n := *e
	n.bound = map[string]string{}
	for k, v := range e.bound {
		n.bound[k] = v
	}
	n.bound[name] = sym
	return &n
}

func (e *Env) inState(st *State, vars map[string]Val) *Env {
	n := *e
	n.st = st
	if vars != nil {
		n.vars = vars
	}
	n.inOld = true
	return &n
}

// frameEnv builds the environment for clauses evaluated inside a function body.
func (x *Exec) frameEnv(fr *Frame, st *State, pos token.Pos) *Env {
	env := &Env{x: x, fn: fr.fn, fr: fr, pos: pos, st: st, old: fr.entry, vars: map[string]Val{}, oldVars: map[string]Val{}}
	for i, p := range fr.fn.Params {
		if i < len(fr.params) {
			env.oldVars[p.Name()] = fr.params[i]
			env.vars[p.Name()] = fr.params[i]
		}
	}
	return env
}

func (x *Exec) specBool(env *Env, e ast.Expr) (string, error) {
	v, err := x.spec(env, e)
	if err != nil {
		return "", err
	}
	if len(v.L) != 1 {
		return "", fmt.Errorf("expression %s is not boolean", exprStr(e))
	}
	if !isBoolType(v.Typ) {
		return "", fmt.Errorf("expression %s is not boolean (type %v)", exprStr(e), v.Typ)
	}
	return v.L[0], nil
}

func (x *Exec) specInt(env *Env, e ast.Expr) (string, error) {
	v, err := x.spec(env, e)
	if err != nil {
		return "", err
	}
	if len(v.L) != 1 || isBoolType(v.Typ) {
		return "", fmt.Errorf("expression %s is not an integer", exprStr(e))
	}
	return v.L[0], nil
}

func isBoolType(t types.Type) bool {
	if t == nil {
		return false
	}
	b, ok := t.Underlying().(*types.Basic)
	return ok && b.Info()&types.IsBoolean != 0
}

func exprStr(e ast.Expr) string {
	return types.ExprString(e)
}

func mInt(t string) Val  { return Val{Typ: mathInt, L: []string{t}} }
func mBool(t string) Val { return Val{Typ: mathBool, L: []string{t}} }

// stripSide: if the access path e is rooted at a pair-lemma side identifier (l.x.f[i]), return the
// side and the expression with the side prefix removed.  Index expressions are evaluated in the
// outer environment (they may mention either side) and passed in as let-bound names.
func (x *Exec) stripSide(env *Env, e ast.Expr, lets map[string]Val) (string, ast.Expr, error) {
	switch t := e.(type) {
	case *ast.SelectorExpr:
		if id, ok := t.X.(*ast.Ident); ok {
			if _, ok := env.sides[id.Name]; ok && env.bound[id.Name] == "" {
				return id.Name, t.Sel, nil
			}
		}
		s, in, err := x.stripSide(env, t.X, lets)
		if s != "" || err != nil {
			return s, &ast.SelectorExpr{X: in, Sel: t.Sel}, err
		}
	case *ast.IndexExpr:
		s, in, err := x.stripSide(env, t.X, lets)
		if err != nil {
			return "", nil, err
		}
		if s != "" {
			iv, err := x.spec(env, t.Index)
			if err != nil {
				return "", nil, err
			}
			name := fmt.Sprintf("idx__%d", len(lets))
			lets[name] = iv
			return s, &ast.IndexExpr{X: in, Index: ast.NewIdent(name)}, nil
		}
	case *ast.StarExpr:
		s, in, err := x.stripSide(env, t.X, lets)
		if s != "" || err != nil {
			return s, &ast.StarExpr{X: in}, err
		}
	case *ast.ParenExpr:
		s, in, err := x.stripSide(env, t.X, lets)
		if s != "" || err != nil {
			return s, &ast.ParenExpr{X: in}, err
		}
	}
	return "", nil, nil
}

func (x *Exec) spec(env *Env, e ast.Expr) (Val, error) {
	if env.sides != nil {
		lets := map[string]Val{}
		s, in, err := x.stripSide(env, e, lets)
		if err != nil {
			return Val{}, err
		}
		if s != "" {
			side := env.sides[s]
			sub := *side
			sub.bound = env.bound
			for k, v := range env.lets {
				lets[k] = v
			}
			sub.lets = lets
			sub.sides = nil
			sub.inOld = false
			if env.inOld {
				sub.st = side.old
				sub.post = true
			}
			v, err := x.spec(&sub, in)
			if err == nil && v.Home == nil {
				v.Home = sub.st
			}
			return v, err
		}
	}
	switch t := e.(type) {
	case *ast.ParenExpr:
		return x.spec(env, t.X)
	case *ast.BasicLit:
		switch t.Kind {
		case token.INT:
			v := constant.MakeFromLiteral(t.Value, token.INT, 0)
			return mInt(bigIntStr(v)), nil
		case token.CHAR:
			v := constant.MakeFromLiteral(t.Value, token.CHAR, 0)
			return mInt(bigIntStr(v)), nil
		}
		return Val{}, fmt.Errorf("unsupported literal %s", t.Value)
	case *ast.Ident:
		return x.specIdent(env, t)
	case *ast.UnaryExpr:
		v, err := x.spec(env, t.X)
		if err != nil {
			return Val{}, err
		}
		switch t.Op {
		case token.SUB:
			return mInt("(- " + v.t() + ")"), nil
		case token.ADD:
			return v, nil
		case token.NOT:
			return mBool(smtNot(v.t())), nil
		}
		return Val{}, fmt.Errorf("unsupported unary %s", t.Op)
	case *ast.StarExpr:
		v, err := x.spec(env, t.X)
		if err != nil {
			return Val{}, err
		}
		if _, ok := v.Typ.Underlying().(*types.Pointer); !ok {
			return Val{}, fmt.Errorf("deref of non-pointer %s", exprStr(t.X))
		}
		return x.specReadIn(env, homeOf(env, v), x.locOf(v)), nil
	case *ast.BinaryExpr:
		return x.specBinary(env, t)
	case *ast.CallExpr:
		return x.specCall(env, t)
	case *ast.SelectorExpr:
		return x.specSelector(env, t)
	case *ast.IndexExpr:
		base, err := x.spec(env, t.X)
		if err != nil {
			return Val{}, err
		}
		idx, err := x.specInt(env, t.Index)
		if err != nil {
			return Val{}, err
		}
		return x.specIndex(env, base, idx, t)
	}
	return Val{}, fmt.Errorf("unsupported expression %s", exprStr(e))
}

func (x *Exec) specIndex(env *Env, base Val, idx string, e ast.Expr) (Val, error) {
	if base.Typ == nil {
		return Val{}, fmt.Errorf("cannot index %s", exprStr(e))
	}
	switch u := base.Typ.Underlying().(type) {
	case *types.Slice:
		if len(idx) < 120 && !isLiteral(idx) {
			closed := true
			for _, sym := range env.bound {
				if strings.Contains(idx, sym) {
					closed = false
				}
			}
			if closed {
				x.idxTerms = append(x.idxTerms, idxTerm{idx, len(x.decls)})
			}
		}
		abs := idx
		if base.L[1] != "0" {
			abs = "(+ " + base.L[1] + " " + idx + ")"
		}
		return x.specReadIn(env, homeOf(env, base), x.sliceElemLoc(base, abs, u.Elem())), nil
	case *types.Array:
		out := Val{Typ: u.Elem()}
		for _, l := range base.L {
			out.L = append(out.L, "(select "+l+" "+idx+")")
		}
		x.specFacts(env, out)
		return out, nil
	case *types.Pointer:
		if at, ok := u.Elem().Underlying().(*types.Array); ok {
			return x.specReadIn(env, homeOf(env, base), x.locOf(base).extend(Step{IsIdx: true, Idx: idx}, at.Elem())), nil
		}
	}
	return Val{}, fmt.Errorf("cannot index value of type %s", base.Typ)
}

func (x *Exec) specRead(env *Env, loc *Loc) Val {
	return x.specReadIn(env, env.st, loc)
}

// specReadIn reads loc in state st (values taken from a pair-lemma side are read in that side's
// state, wherever the expression is evaluated).
func (x *Exec) specReadIn(env *Env, st *State, loc *Loc) Val {
	v := x.readLocRaw(st, loc)
	if st != env.st {
		v.Home = st
	}
	x.specFacts(env, v)
	return v
}

func homeOf(env *Env, v Val) *State {
	if v.Home != nil {
		return v.Home
	}
	return env.st
}

// specFacts asserts Go type invariants of values read in specifications (when closed terms).
func (x *Exec) specFacts(env *Env, v Val) {
	if env.noFacts {
		return
	}
	ls := leavesOf(v.Typ)
	if len(ls) != len(v.L) {
		return
	}
	for i, l := range ls {
		if l.Dims > 0 || isLiteral(v.L[i]) {
			continue
		}
		closed := true
		for _, sym := range env.bound {
			if strings.Contains(v.L[i], sym) {
				closed = false
			}
		}
		if !closed {
			continue
		}
		switch l.Kind {
		case lkScalar:
			if lo, hi, ok := intBounds(l.Typ); ok {
				x.assert(smtAnd("(<= "+lo+" "+v.L[i]+")", "(<= "+v.L[i]+" "+hi+")"))
			}
		case lkSliceLen, lkSliceOff:
			x.assert("(<= 0 " + v.L[i] + ")")
		case lkSliceCap:
			x.assert("(<= " + v.L[i-1] + " " + v.L[i] + ")")
		}
	}
}

func (x *Exec) specIdent(env *Env, id *ast.Ident) (Val, error) {
	name := id.Name
	switch name {
	case "true":
		return mBool("true"), nil
	case "false":
		return mBool("false"), nil
	case "nil":
		return Val{Typ: types.Typ[types.UntypedNil], L: []string{"0"}}, nil
	}
	if s, ok := env.bound[name]; ok {
		return mInt(s), nil
	}
	if v, ok := env.lets[name]; ok {
		return v, nil
	}
	if name == "result" && env.post && len(env.results) > 0 {
		return env.results[0], nil
	}
	if strings.HasPrefix(name, "result") && env.post {
		if k, err := strconv.Atoi(name[6:]); err == nil && k < len(env.results) {
			return env.results[k], nil
		}
	}
	if strings.HasPrefix(name, "g_") {
		loc := &Loc{Kind: locMem, Key: "G:ghost." + name, RootT: types.Typ[types.Int], T: types.Typ[types.Int]}
		v := x.readLocRaw(env.st, loc)
		v.Typ = mathInt
		return v, nil
	}
	// named results
	if env.post && env.fn != nil {
		res := env.fn.Signature.Results()
		for i := 0; i < res.Len(); i++ {
			if res.At(i).Name() == name && i < len(env.results) {
				return env.results[i], nil
			}
		}
	}
	// rangeslice: the (once evaluated) operand of the range loop whose hidden counter is rangeindex
	if name == "rangeslice" && env.fr != nil {
		if ri := x.findLocal(env.fr, "rangeindex", env.pos); ri != nil && ri.Referrers() != nil {
			for _, r := range *ri.Referrers() {
				st, ok := r.(*ssa.Store)
				if !ok {
					continue
				}
				inc, ok := st.Val.(*ssa.BinOp)
				if !ok || inc.Referrers() == nil {
					continue
				}
				for _, u := range *inc.Referrers() {
					cmp, ok := u.(*ssa.BinOp)
					if !ok || cmp.Op != token.LSS {
						continue
					}
					if call, ok := cmp.Y.(*ssa.Call); ok {
						if b, ok := call.Call.Value.(*ssa.Builtin); ok && b.Name() == "len" && len(call.Call.Args) == 1 {
							return x.val(env.fr, env.st, call.Call.Args[0]), nil
						}
					}
				}
			}
		}
		return Val{}, fmt.Errorf("rangeslice: no range loop over a slice here")
	}
	// locals (inside function bodies: invariants, asserts)
	if env.fr != nil && (!env.inOld || env.regionSide) {
		if a := x.findLocal(env.fr, name, env.pos); a != nil {
			if !a.Heap {
				if c, ok := env.st.cells[a]; ok {
					return c, nil
				}
			} else if pv, ok := env.fr.vals[a]; ok {
				return x.specRead(env, x.locOf(pv)), nil
			}
		}
	}
	if v, ok := env.vars[name]; ok {
		return v, nil
	}
	// package-level constants and variables
	if env.fn != nil && env.fn.Pkg != nil {
		if obj := env.fn.Pkg.Pkg.Scope().Lookup(name); obj != nil {
			return x.specObject(env, obj, env.fn.Pkg)
		}
	}
	if d, ok := x.V.contracts.Defs[name]; ok && len(d.Params) == 0 {
		x.useDef(name)
		if d.Bool {
			return mBool(quoteSym("def_" + name)), nil
		}
		return mInt(quoteSym("def_" + name)), nil
	}
	return Val{}, fmt.Errorf("unknown identifier %q", name)
}

func (x *Exec) specObject(env *Env, obj types.Object, pkg *ssa.Package) (Val, error) {
	switch o := obj.(type) {
	case *types.Const:
		switch o.Val().Kind() {
		case constant.Int:
			return mInt(bigIntStr(o.Val())), nil
		case constant.Bool:
			if constant.BoolVal(o.Val()) {
				return mBool("true"), nil
			}
			return mBool("false"), nil
		}
	case *types.Var:
		if g, ok := pkg.Members[o.Name()].(*ssa.Global); ok {
			rt := deref(g.Type())
			loc := &Loc{Kind: locMem, Key: "G:" + globalName(g), RootT: rt, T: rt}
			return x.specRead(env, loc), nil
		}
	}
	return Val{}, fmt.Errorf("unsupported package-level object %s", obj.Name())
}

// findLocal finds the local variable named name visible at pos.
func (x *Exec) findLocal(fr *Frame, name string, pos token.Pos) *ssa.Alloc {
	var best *ssa.Alloc
	var cands []*ssa.Alloc
	for _, b := range fr.fn.Blocks {
		for _, in := range b.Instrs {
			if a, ok := in.(*ssa.Alloc); ok && a.Comment == name {
				cands = append(cands, a)
			}
		}
	}
	for _, a := range fr.fn.Locals {
		if a.Comment == name {
			dup := false
			for _, c := range cands {
				if c == a {
					dup = true
				}
			}
			if !dup {
				cands = append(cands, a)
			}
		}
	}
	if len(cands) == 0 {
		return nil
	}
	if len(cands) == 1 {
		return cands[0]
	}
	// several variables of that name: use the scope visible at pos
	if pos.IsValid() && fr.fn.Pkg != nil {
		if obj := x.lookupAt(fr.fn, name, pos); obj != nil {
			for _, c := range cands {
				if c.Pos() == obj.Pos() {
					return c
				}
			}
		}
	}
	// fall back: the last declared before pos (hidden variables such as the counter of a range
	// loop have no position of their own: the first position among their uses stands in)
	effPos := func(a *ssa.Alloc) token.Pos {
		if a.Pos().IsValid() {
			return a.Pos()
		}
		var p token.Pos
		if refs := a.Referrers(); refs != nil {
			for _, r := range *refs {
				if rp := r.Pos(); rp.IsValid() && (!p.IsValid() || rp < p) {
					p = rp
				}
				// the value loaded from / stored to the cell is used by positioned instructions
				if v, ok := r.(ssa.Value); ok {
					if rr := v.Referrers(); rr != nil {
						for _, u := range *rr {
							if up := u.Pos(); up.IsValid() && (!p.IsValid() || up < p) {
								p = up
							}
						}
					}
				}
			}
		}
		return p
	}
	var bestPos token.Pos
	for _, c := range cands {
		cp := effPos(c)
		if !pos.IsValid() || cp <= pos {
			if best == nil || cp > bestPos {
				best, bestPos = c, cp
			}
		}
	}
	if best == nil {
		best = cands[0]
	}
	return best
}

func (x *Exec) lookupAt(fn *ssa.Function, name string, pos token.Pos) types.Object {
	info := x.V.typesInfo[fn.Pkg.Pkg.Path()]
	if info == nil {
		return nil
	}
	syn := fn.Syntax()
	if syn == nil {
		return nil
	}
	// innermost scope containing pos (search scopes of the function's nodes)
	var inner *types.Scope
	ast.Inspect(syn, func(n ast.Node) bool {
		if n == nil {
			return false
		}
		if s, ok := info.Scopes[n]; ok && n.Pos() <= pos && pos <= n.End() {
			inner = s
		}
		return true
	})
	if inner == nil {
		return nil
	}
	// For a loop statement the invariant position is the `for` keyword: variables declared by the
	// loop header are in the loop's own scope and count as visible.
	_, obj := inner.LookupParent(name, token.NoPos)
	return obj
}

func (x *Exec) specSelector(env *Env, t *ast.SelectorExpr) (Val, error) {
	// package-qualified
	if id, ok := t.X.(*ast.Ident); ok && env.fn != nil && env.fn.Pkg != nil {
		if _, isVar := env.vars[id.Name]; !isVar && env.bound[id.Name] == "" {
			isLocal := false
			if env.fr != nil && x.findLocal(env.fr, id.Name, env.pos) != nil {
				isLocal = true
			}
			if !isLocal {
				for _, imp := range env.fn.Pkg.Pkg.Imports() {
					if imp.Name() == id.Name {
						if sp := x.V.prog.Package(imp); sp != nil {
							if obj := imp.Scope().Lookup(t.Sel.Name); obj != nil {
								return x.specObject(env, obj, sp)
							}
						}
						return Val{}, fmt.Errorf("unknown %s.%s", id.Name, t.Sel.Name)
					}
				}
			}
		}
	}
	base, err := x.spec(env, t.X)
	if err != nil {
		return Val{}, err
	}
	return x.specField(env, base, t.Sel.Name, t)
}

func (x *Exec) specField(env *Env, base Val, name string, e ast.Expr) (Val, error) {
	if base.Typ == nil {
		return Val{}, fmt.Errorf("cannot select %s", name)
	}
	switch u := base.Typ.Underlying().(type) {
	case *types.Pointer:
		st, ok := u.Elem().Underlying().(*types.Struct)
		if !ok {
			return Val{}, fmt.Errorf("selector .%s on pointer to non-struct %s", name, u.Elem())
		}
		if isBytesBuffer(u.Elem()) {
			return x.specBufferField(env, homeOf(env, base), x.locOf(base), name)
		}
		for i := 0; i < st.NumFields(); i++ {
			if st.Field(i).Name() == name {
				loc := x.locOf(base).extend(Step{Field: i}, st.Field(i).Type())
				if isBytesBuffer(st.Field(i).Type()) {
					// keep the location so that .len/.data can be selected next
					return Val{Typ: types.NewPointer(st.Field(i).Type()), Loc: loc, Home: base.Home}, nil
				}
				if _, isStruct := st.Field(i).Type().Underlying().(*types.Struct); isStruct {
					return Val{Typ: types.NewPointer(st.Field(i).Type()), Loc: loc, Home: base.Home}, nil
				}
				if _, isArr := st.Field(i).Type().Underlying().(*types.Array); isArr {
					return Val{Typ: types.NewPointer(st.Field(i).Type()), Loc: loc, Home: base.Home}, nil
				}
				return x.specReadIn(env, homeOf(env, base), loc), nil
			}
		}
		// embedded fields (one level)
		for i := 0; i < st.NumFields(); i++ {
			if st.Field(i).Embedded() {
				inner := Val{Typ: types.NewPointer(st.Field(i).Type()), Loc: x.locOf(base).extend(Step{Field: i}, st.Field(i).Type()), Home: base.Home}
				if v, err := x.specField(env, inner, name, e); err == nil {
					return v, nil
				}
			}
		}
		return Val{}, fmt.Errorf("type %s has no field %s", u.Elem(), name)
	case *types.Struct:
		off := 0
		for i := 0; i < u.NumFields(); i++ {
			n := len(leavesOf(u.Field(i).Type()))
			if u.Field(i).Name() == name {
				out := Val{Typ: u.Field(i).Type(), L: append([]string{}, base.L[off:off+n]...)}
				x.specFacts(env, out)
				return out, nil
			}
			off += n
		}
		return Val{}, fmt.Errorf("struct has no field %s", name)
	}
	return Val{}, fmt.Errorf("selector .%s on %s", name, base.Typ)
}

func (x *Exec) specBufferField(env *Env, st *State, loc *Loc, name string) (Val, error) {
	v := x.readLocRaw(st, loc)
	switch name {
	case "len":
		return mInt(v.L[0]), nil
	case "data":
		return Val{Typ: types.NewArray(types.Typ[types.Uint8], 1<<40), L: []string{v.L[1]}}, nil
	}
	return Val{}, fmt.Errorf("bytes.Buffer ghost has fields len and data, not %s", name)
}

func (x *Exec) specBinary(env *Env, t *ast.BinaryExpr) (Val, error) {
	if t.Op == token.LAND || t.Op == token.LOR {
		a, err := x.specBool(env, t.X)
		if err != nil {
			return Val{}, err
		}
		b, err := x.specBool(env, t.Y)
		if err != nil {
			return Val{}, err
		}
		if t.Op == token.LAND {
			return mBool(smtAnd(a, b)), nil
		}
		return mBool(smtOr(a, b)), nil
	}
	a, err := x.spec(env, t.X)
	if err != nil {
		return Val{}, err
	}
	b, err := x.spec(env, t.Y)
	if err != nil {
		return Val{}, err
	}
	if t.Op == token.EQL || t.Op == token.NEQ {
		var eq string
		_, aSl := typeUnder(a.Typ).(*types.Slice)
		_, bSl := typeUnder(b.Typ).(*types.Slice)
		if isBoolType(a.Typ) && isBoolType(b.Typ) {
			eq = "(= " + a.t() + " " + b.t() + ")"
		} else if aSl && bSl && len(a.L) == len(b.L) && len(a.L) >= 3 {
			// in specifications two slices are equal when they are the same window of the same
			// array (Go itself only allows comparison with nil)
			var eqs []string
			for i := range a.L {
				eqs = append(eqs, "(= "+a.L[i]+" "+b.L[i]+")")
			}
			eq = smtAnd(eqs...)
		} else {
			eq = x.valEq(a, b)
		}
		if t.Op == token.NEQ {
			eq = smtNot(eq)
		}
		return mBool(eq), nil
	}
	if len(a.L) != 1 || len(b.L) != 1 {
		return Val{}, fmt.Errorf("operator %s on non-scalar", t.Op)
	}
	A, B := a.t(), b.t()
	if (a.Typ != nil && isFloat(a.Typ)) || (b.Typ != nil && isFloat(b.Typ)) {
		// integer literals next to a float operand are real constants
		if isLiteral(A) && !strings.Contains(A, ".") {
			if strings.HasPrefix(A, "(- ") {
				A = "(- " + strings.TrimSuffix(A[3:], ")") + ".0)"
			} else {
				A += ".0"
			}
		}
		if isLiteral(B) && !strings.Contains(B, ".") {
			if strings.HasPrefix(B, "(- ") {
				B = "(- " + strings.TrimSuffix(B[3:], ")") + ".0)"
			} else {
				B += ".0"
			}
		}
		switch t.Op {
		case token.LSS:
			return mBool("(flt " + A + " " + B + ")"), nil
		case token.LEQ:
			return mBool("(fle " + A + " " + B + ")"), nil
		case token.GTR:
			return mBool("(flt " + B + " " + A + ")"), nil
		case token.GEQ:
			return mBool("(fle " + B + " " + A + ")"), nil
		}
		return Val{}, fmt.Errorf("float arithmetic is not available in specifications")
	}
	switch t.Op {
	case token.ADD:
		return mInt("(+ " + A + " " + B + ")"), nil
	case token.SUB:
		return mInt("(- " + A + " " + B + ")"), nil
	case token.MUL:
		return mInt("(* " + A + " " + B + ")"), nil
	case token.QUO:
		return mInt("(tdiv " + A + " " + B + ")"), nil
	case token.REM:
		return mInt("(trem " + A + " " + B + ")"), nil
	case token.LSS:
		return mBool("(< " + A + " " + B + ")"), nil
	case token.LEQ:
		return mBool("(<= " + A + " " + B + ")"), nil
	case token.GTR:
		return mBool("(> " + A + " " + B + ")"), nil
	case token.GEQ:
		return mBool("(>= " + A + " " + B + ")"), nil
	case token.SHL:
		if isLiteral(B) {
			if n, err := strconv.Atoi(B); err == nil && n >= 0 && n <= 200 {
				return mInt("(* " + A + " " + pow2str(n) + ")"), nil
			}
		}
		return mInt("(* " + A + " (pow2 " + B + "))"), nil
	case token.SHR:
		if isLiteral(B) {
			if n, err := strconv.Atoi(B); err == nil && n >= 0 && n <= 200 {
				return mInt("(div " + A + " " + pow2str(n) + ")"), nil
			}
		}
		return mInt("(div " + A + " (pow2 " + B + "))"), nil
	case token.AND:
		if isLiteral(B) {
			if n, err := strconv.ParseInt(B, 10, 64); err == nil {
				for k := 0; k < 63; k++ {
					if n == (int64(1)<<uint(k))-1 {
						return mInt("(mod " + A + " " + pow2str(k) + ")"), nil
					}
				}
			}
		}
		return mInt("(band " + A + " " + B + ")"), nil
	case token.OR:
		return mInt("(bor " + A + " " + B + ")"), nil
	case token.XOR:
		return mInt("(bxor " + A + " " + B + ")"), nil
	}
	return Val{}, fmt.Errorf("unsupported operator %s", t.Op)
}

func (x *Exec) specCall(env *Env, c *ast.CallExpr) (Val, error) {
	fname := ""
	switch f := c.Fun.(type) {
	case *ast.Ident:
		fname = f.Name
	case *ast.SelectorExpr:
		// method-like ghost accessors are not supported; fallthrough to error
		return Val{}, fmt.Errorf("calls through selectors are not supported in specifications: %s", exprStr(c))
	default:
		return Val{}, fmt.Errorf("unsupported call %s", exprStr(c))
	}
	argInt := func(i int) (string, error) {
		if i >= len(c.Args) {
			return "", fmt.Errorf("%s: missing argument %d", fname, i)
		}
		return x.specInt(env, c.Args[i])
	}
	switch fname {
	case "old":
		if len(c.Args) != 1 {
			return Val{}, fmt.Errorf("old takes one argument")
		}
		if env.old == nil && env.sides == nil {
			return Val{}, fmt.Errorf("old() not available here")
		}
		if env.sides != nil {
			n := *env
			n.inOld = true
			return x.spec(&n, c.Args[0])
		}
		ov, oerr := x.spec(env.inState(env.old, env.oldVars), c.Args[0])
		if oerr == nil && ov.Home == nil && ov.Typ != nil {
			switch ov.Typ.Underlying().(type) {
			case *types.Slice, *types.Pointer:
				// element reads through this value must also see the entry state
				ov.Home = env.old
			}
		}
		return ov, oerr
	case "head":
		// head(k, e): value of e at the head of enclosing loop k in the current iteration
		if len(c.Args) != 2 || env.fr == nil {
			return Val{}, fmt.Errorf("head(loop, expr) is only available inside function bodies")
		}
		lit, ok := c.Args[0].(*ast.BasicLit)
		if !ok {
			return Val{}, fmt.Errorf("head: first argument must be a loop ordinal")
		}
		k, _ := strconv.Atoi(lit.Value)
		for _, li := range env.fr.loops {
			if li.ordinal == k && li.headSt != nil {
				n := *env
				n.st = li.headSt
				n.pos = li.pos
				return x.spec(&n, c.Args[1])
			}
		}
		return Val{}, fmt.Errorf("head: loop %d is not an enclosing loop that has been entered", k)
	case "post":
		if env.sides == nil {
			return Val{}, fmt.Errorf("post() is only available in pair lemmas")
		}
		n := *env
		n.inOld = false
		return x.spec(&n, c.Args[0])
	case "len", "cap":
		if len(c.Args) != 1 {
			return Val{}, fmt.Errorf("%s takes one argument", fname)
		}
		v, err := x.spec(env, c.Args[0])
		if err != nil {
			return Val{}, err
		}
		if v.Typ != nil {
			switch u := v.Typ.Underlying().(type) {
			case *types.Slice:
				if fname == "len" {
					return mInt(v.L[2]), nil
				}
				return mInt(v.L[3]), nil
			case *types.Array:
				return mInt(fmt.Sprint(u.Len())), nil
			case *types.Pointer:
				if at, ok := u.Elem().Underlying().(*types.Array); ok {
					return mInt(fmt.Sprint(at.Len())), nil
				}
			case *types.Basic:
				if u.Info()&types.IsString != 0 {
					return mInt("(strlen " + v.t() + ")"), nil
				}
			}
		}
		return Val{}, fmt.Errorf("%s of %s", fname, exprStr(c.Args[0]))
	case "forall", "exists":
		if len(c.Args) != 4 {
			return Val{}, fmt.Errorf("%s(i, lo, hi, body)", fname)
		}
		id, ok := c.Args[0].(*ast.Ident)
		if !ok {
			return Val{}, fmt.Errorf("%s: first argument must be an identifier", fname)
		}
		lo, err := x.specInt(env, c.Args[1])
		if err != nil {
			return Val{}, err
		}
		hi, err := x.specInt(env, c.Args[2])
		if err != nil {
			return Val{}, err
		}
		// small constant ranges are expanded (quantifier-free queries are decided much more reliably)
		if blo, ok1 := litVal(lo); ok1 {
			if bhi, ok2 := litVal(hi); ok2 && blo.IsInt64() && bhi.IsInt64() && bhi.Int64()-blo.Int64() <= 64 {
				var parts []string
				for k := blo.Int64(); k < bhi.Int64(); k++ {
					b, err := x.specBool(env.withBound(id.Name, smtInt(k)), c.Args[3])
					if err != nil {
						return Val{}, err
					}
					parts = append(parts, b)
				}
				if fname == "forall" {
					return mBool(smtAnd(parts...)), nil
				}
				return mBool(smtOr(parts...)), nil
			}
		}
		x.n++
		sym := fmt.Sprintf("%s!q%d", id.Name, x.n)
		body, err := x.specBool(env.withBound(id.Name, sym), c.Args[3])
		if err != nil {
			return Val{}, err
		}
		rng := smtAnd("(<= "+lo+" "+sym+")", "(< "+sym+" "+hi+")")
		if fname == "forall" {
			return mBool("(forall ((" + sym + " Int)) " + smtImp(rng, body) + ")"), nil
		}
		return mBool("(exists ((" + sym + " Int)) " + smtAnd(rng, body) + ")"), nil
	case "implies":
		if len(c.Args) != 2 {
			return Val{}, fmt.Errorf("implies(a, b)")
		}
		a, err := x.specBool(env, c.Args[0])
		if err != nil {
			return Val{}, err
		}
		b, err := x.specBool(env, c.Args[1])
		if err != nil {
			return Val{}, err
		}
		return mBool(smtImp(a, b)), nil
	case "iff":
		a, err := x.specBool(env, c.Args[0])
		if err != nil {
			return Val{}, err
		}
		b, err := x.specBool(env, c.Args[1])
		if err != nil {
			return Val{}, err
		}
		return mBool("(= " + a + " " + b + ")"), nil
	case "ite":
		if len(c.Args) != 3 {
			return Val{}, fmt.Errorf("ite(c, a, b)")
		}
		cnd, err := x.specBool(env, c.Args[0])
		if err != nil {
			return Val{}, err
		}
		a, err := x.spec(env, c.Args[1])
		if err != nil {
			return Val{}, err
		}
		b, err := x.spec(env, c.Args[2])
		if err != nil {
			return Val{}, err
		}
		r := Val{Typ: a.Typ, L: []string{smtIte(cnd, a.t(), b.t())}}
		if !isBoolType(a.Typ) {
			r.Typ = mathInt
		}
		return r, nil
	case "min", "max", "mod", "div", "pow2", "abs":
		a, err := argInt(0)
		if err != nil {
			return Val{}, err
		}
		switch fname {
		case "abs":
			return mInt("(iabs " + a + ")"), nil
		case "pow2":
			if b, ok := litVal(a); ok && b.IsInt64() && b.Int64() >= 0 && b.Int64() <= 200 {
				return mInt(pow2str(int(b.Int64()))), nil
			}
			return mInt("(pow2 " + a + ")"), nil
		}
		b, err := argInt(1)
		if err != nil {
			return Val{}, err
		}
		switch fname {
		case "min":
			return mInt("(imin " + a + " " + b + ")"), nil
		case "max":
			return mInt("(imax " + a + " " + b + ")"), nil
		case "mod":
			return mInt("(mod " + a + " " + b + ")"), nil
		case "div":
			return mInt("(div " + a + " " + b + ")"), nil
		}
	case "int", "int8", "int16", "int32", "int64", "uint", "uint8", "uint16", "uint32", "uint64", "byte":
		a, err := argInt(0)
		if err != nil {
			return Val{}, err
		}
		w := map[string]string{"int": "wrap_i64", "int8": "wrap_i8", "int16": "wrap_i16", "int32": "wrap_i32", "int64": "wrap_i64",
			"uint": "wrap_u64", "uint8": "wrap_u8", "byte": "wrap_u8", "uint16": "wrap_u16", "uint32": "wrap_u32", "uint64": "wrap_u64"}[fname]
		return mInt("(" + w + " " + a + ")"), nil
	case "isnil":
		v, err := x.spec(env, c.Args[0])
		if err != nil {
			return Val{}, err
		}
		if len(v.L) == 0 {
			return mBool("false"), nil
		}
		return mBool("(= " + v.L[0] + " 0)"), nil
	case "same":
		// same(e) : e has the same value as at entry
		a, err := x.spec(env, c.Args[0])
		if err != nil {
			return Val{}, err
		}
		b, err := x.spec(env.inState(env.old, env.oldVars), c.Args[0])
		if err != nil {
			return Val{}, err
		}
		var eqs []string
		for i := range a.L {
			if i < len(b.L) {
				eqs = append(eqs, "(= "+a.L[i]+" "+b.L[i]+")")
			}
		}
		return mBool(smtAnd(eqs...)), nil
	case "unchanged":
		// unchanged(s): every element of slice s equals its value at function entry
		if len(c.Args) != 1 || env.old == nil {
			return Val{}, fmt.Errorf("unchanged(slice) needs an entry state")
		}
		cur, err := x.spec(env, c.Args[0])
		if err != nil {
			return Val{}, err
		}
		old, err := x.spec(env.inState(env.old, env.oldVars), c.Args[0])
		if err != nil {
			return Val{}, err
		}
		sl, ok := cur.Typ.Underlying().(*types.Slice)
		if !ok || len(cur.L) != 4 || len(old.L) != 4 {
			return Val{}, fmt.Errorf("unchanged: %s is not a slice", exprStr(c.Args[0]))
		}
		x.n++
		sym := fmt.Sprintf("u!q%d", x.n)
		var eqs []string
		for li, l := range leavesOf(sl.Elem()) {
			if l.Dims > 0 {
				return Val{}, fmt.Errorf("unchanged: array-typed elements are not supported")
			}
			_ = li
			key := "E:" + typeKey(sl.Elem()) + l.Path
			srt := l.smtSort(2)
			a := x.getComp(env.st, key, srt)
			b := x.getComp(env.old, key, srt)
			eqs = append(eqs, fmt.Sprintf("(= (select (select %s %s) (+ %s %s)) (select (select %s %s) (+ %s %s)))", a, cur.L[0], cur.L[1], sym, b, old.L[0], old.L[1], sym))
		}
		rng := smtAnd("(<= 0 "+sym+")", "(< "+sym+" "+cur.L[2]+")")
		hdr := smtAnd("(= "+cur.L[0]+" "+old.L[0]+")", "(= "+cur.L[1]+" "+old.L[1]+")", "(= "+cur.L[2]+" "+old.L[2]+")")
		return mBool(smtAnd(hdr, "(forall (("+sym+" Int)) "+smtImp(rng, smtAnd(eqs...))+")")), nil
	case "sliceoff", "slicearr":
		// ghost views of a slice header: backing-array identity and start offset inside it
		v, err := x.spec(env, c.Args[0])
		if err != nil {
			return Val{}, err
		}
		if _, ok := v.Typ.Underlying().(*types.Slice); !ok || len(v.L) != 4 {
			return Val{}, fmt.Errorf("%s of non-slice", fname)
		}
		if fname == "slicearr" {
			return mInt(v.L[0]), nil
		}
		return mInt(v.L[1]), nil
	case "isfresh":
		v, err := x.spec(env, c.Args[0])
		if err != nil {
			return Val{}, err
		}
		if len(v.L) == 0 {
			return Val{}, fmt.Errorf("isfresh of structured pointer")
		}
		return mBool("(> " + v.L[0] + " " + fmt.Sprint(int64(1)<<40) + ")"), nil
	}
	if pr, ok := x.V.contracts.Preds[fname]; ok {
		if len(c.Args) != len(pr.Params) {
			return Val{}, fmt.Errorf("%s expects %d arguments", fname, len(pr.Params))
		}
		n := *env
		n.lets = map[string]Val{}
		for k, v := range env.lets {
			n.lets[k] = v
		}
		for i := range c.Args {
			v, err := x.spec(env, c.Args[i])
			if err != nil {
				return Val{}, err
			}
			n.lets[pr.Params[i]] = v
		}
		// predicates see only their parameters (plus package-level names), not the caller's locals
		n.fr = nil
		n.vars = map[string]Val{}
		n.sides = nil
		// hygiene: the caller's quantified variables are not visible either (a parameter named
		// like one of them must denote the argument)
		n.bound = map[string]string{}
		for k, v := range env.bound {
			n.bound[k] = v // (kept: a non-empty map also marks "inside a quantifier" for reads)
		}
		for _, p := range pr.Params {
			if sym, ok := n.bound[p]; ok {
				// the quantified symbol stays recorded under an unreachable name so that
				// closedness checks (specFacts, pure reads) still see it
				delete(n.bound, p)
				n.bound["\x00"+p] = sym
			}
		}
		return x.spec(&n, pr.Body)
	}
	if d, ok := x.V.contracts.Defs[fname]; ok {
		if len(c.Args) != len(d.Params) {
			return Val{}, fmt.Errorf("%s expects %d arguments", fname, len(d.Params))
		}
		x.useDef(fname)
		var as []string
		for i := range c.Args {
			v, err := x.spec(env, c.Args[i])
			if err != nil {
				return Val{}, err
			}
			if len(v.L) != 1 {
				return Val{}, fmt.Errorf("%s: argument %d is not scalar", fname, i)
			}
			as = append(as, v.L[0])
		}
		app := quoteSym("def_" + fname)
		if len(as) > 0 {
			app = "(" + app + " " + strings.Join(as, " ") + ")"
		}
		if d.Bool {
			return mBool(app), nil
		}
		return mInt(app), nil
	}
	return Val{}, fmt.Errorf("unknown specification function %q", fname)
}

// ---------------------------------------------------------------------------------------------
// Spec definitions → define-fun

func (x *Exec) useDef(name string) {
	if x.usedDefs == nil {
		x.usedDefs = map[string]bool{}
	}
	if x.usedDefs[name] {
		return
	}
	x.usedDefs[name] = true
	d := x.V.contracts.Defs[name]
	// translate the body first so that dependencies are emitted first
	env := &Env{x: x, bound: map[string]string{}, vars: map[string]Val{}, st: &State{cells: nil, mem: map[string]string{}, pc: "true"}, noFacts: true}
	var ps []string
	for _, p := range d.Params {
		// a parameter written "b:bool" is boolean
		pname, psort := p, "Int"
		if i := strings.Index(p, ":"); i >= 0 {
			pname = p[:i]
			if p[i+1:] == "bool" {
				psort = "Bool"
			}
		}
		sym := quoteSym("a_" + pname)
		if psort == "Bool" {
			if env.lets == nil {
				env.lets = map[string]Val{}
			}
			env.lets[pname] = mBool(sym)
		} else {
			env.bound[pname] = sym
		}
		ps = append(ps, "("+sym+" "+psort+")")
	}
	var body string
	var err error
	if d.Bool {
		body, err = x.specBool(env, d.Body)
	} else {
		body, err = x.specInt(env, d.Body)
	}
	if err != nil {
		x.bindingError("def "+name, err.Error(), "", 0)
		body = "0"
		if d.Bool {
			body = "false"
		}
	}
	srt := "Int"
	if d.Bool {
		srt = "Bool"
	}
	kw := "define-fun"
	if d.Rec {
		kw = "define-fun-rec"
		if !x.reveal[name] {
			// recursive spec functions are opaque (uninterpreted) unless the task reveals them
			var sorts []string
			for range d.Params {
				sorts = append(sorts, "Int")
			}
			x.defDecls = append(x.defDecls, fmt.Sprintf("(declare-fun %s (%s) %s)", quoteSym("def_"+name), strings.Join(sorts, " "), srt))
			return
		}
	}
	x.defDecls = append(x.defDecls, fmt.Sprintf("(%s %s (%s) %s %s)", kw, quoteSym("def_"+name), strings.Join(ps, " "), srt, body))
}

func typeUnder(t types.Type) types.Type {
	if t == nil {
		return nil
	}
	return t.Underlying()
}
