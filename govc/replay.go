package main

// Replay: turn a solver model of a failed safety obligation into an in-package Go test that calls
// the real function with the model's arguments, injected with `go test -overlay` (nothing is
// written into /repo).

import (
	"encoding/json"
	"fmt"
	"go/types"
	"os"
	"os/exec"
	"path/filepath"
	"sort"
	"strconv"
	"strings"

	"golang.org/x/tools/go/ssa"
)

type modelTerm struct {
	Label string
	Term  string
}

const replayElems = 48
const replayMaxLen = 1 << 24

// observe registers the entry-state terms whose model values are needed to rebuild inputs.
func (x *Exec) observeParams(fn *ssa.Function, st *State, params []Val) {
	for i, p := range fn.Params {
		if i >= len(params) {
			continue
		}
		x.observeVal(st, p.Name(), params[i], 0)
	}
}

func (x *Exec) observeVal(st *State, label string, v Val, depth int) {
	if depth > 3 || v.Typ == nil {
		return
	}
	switch u := v.Typ.Underlying().(type) {
	case *types.Basic:
		if len(v.L) == 1 {
			x.modelTerms = append(x.modelTerms, modelTerm{label, v.L[0]})
		}
	case *types.Slice:
		if len(v.L) != 4 {
			return
		}
		x.modelTerms = append(x.modelTerms, modelTerm{label + "#arr", v.L[0]}, modelTerm{label + "#len", v.L[2]}, modelTerm{label + "#cap", v.L[3]})
		if _, ok := u.Elem().Underlying().(*types.Basic); ok && depth <= 1 {
			for k := 0; k < replayElems; k++ {
				idx := fmt.Sprintf("(+ %s %d)", v.L[1], k)
				ev := x.readLocPure(st, x.sliceElemLoc(v, idx, u.Elem()))
				if len(ev.L) == 1 {
					x.modelTerms = append(x.modelTerms, modelTerm{fmt.Sprintf("%s[%d]", label, k), ev.L[0]})
				}
			}
		}
	case *types.Pointer:
		if len(v.L) != 1 {
			return
		}
		x.modelTerms = append(x.modelTerms, modelTerm{label + "#ptr", v.L[0]})
		if depth >= 2 {
			return
		}
		loc := x.locOf(v)
		switch e := u.Elem().Underlying().(type) {
		case *types.Struct:
			if isBytesBuffer(u.Elem()) {
				return
			}
			for i := 0; i < e.NumFields(); i++ {
				fl := loc.extend(Step{Field: i}, e.Field(i).Type())
				x.observeLoc(st, label+"."+e.Field(i).Name(), fl, depth+1)
			}
		default:
			x.observeLoc(st, "*"+label, loc, depth+1)
		}
	}
}

func (x *Exec) observeLoc(st *State, label string, loc *Loc, depth int) {
	switch u := loc.T.Underlying().(type) {
	case *types.Basic, *types.Slice, *types.Pointer:
		x.observeVal(st, label, x.readLocPure(st, loc), depth)
	case *types.Array:
		if _, ok := u.Elem().Underlying().(*types.Basic); ok && u.Len() <= 64 {
			for k := int64(0); k < u.Len(); k++ {
				el := loc.extend(Step{IsIdx: true, Idx: fmt.Sprint(k)}, u.Elem())
				x.observeVal(st, fmt.Sprintf("%s[%d]", label, k), x.readLocPure(st, el), depth)
			}
		}
	case *types.Struct:
		if isBytesBuffer(loc.T) || depth > 2 {
			return
		}
		for i := 0; i < u.NumFields(); i++ {
			x.observeLoc(st, label+"."+u.Field(i).Name(), loc.extend(Step{Field: i}, u.Field(i).Type()), depth+1)
		}
	}
}

type replayBuilder struct {
	model   map[string]string
	imports map[string]string // path -> name
	pkg     *types.Package
	lines   []string
	n       int
	err     error
}

func (b *replayBuilder) qual(p *types.Package) string {
	if p == b.pkg {
		return ""
	}
	b.imports[p.Path()] = p.Name()
	return p.Name()
}

func (b *replayBuilder) typ(t types.Type) string { return types.TypeString(t, b.qual) }

func (b *replayBuilder) get(label string) (string, bool) {
	v, ok := b.model[label]
	return v, ok
}

// expr builds a Go expression of type t for the value labelled label.
func (b *replayBuilder) expr(label string, t types.Type, depth int) string {
	switch u := t.Underlying().(type) {
	case *types.Basic:
		v, ok := b.get(label)
		switch {
		case u.Info()&types.IsBoolean != 0:
			if ok && v == "true" {
				return "true"
			}
			return "false"
		case u.Info()&types.IsInteger != 0:
			if !ok {
				v = "0"
			}
			if strings.HasPrefix(v, "-") && u.Info()&types.IsUnsigned != 0 {
				v = "0"
			}
			return b.typ(t) + "(" + v + ")"
		case u.Info()&types.IsString != 0:
			return `""`
		case u.Info()&types.IsFloat != 0:
			return b.typ(t) + "(0)"
		}
		return "*new(" + b.typ(t) + ")"
	case *types.Slice:
		arr, _ := b.get(label + "#arr")
		ls, ok := b.get(label + "#len")
		if !ok || arr == "0" || arr == "" {
			return "nil"
		}
		n, _ := strconv.ParseInt(ls, 10, 64)
		if n > replayMaxLen {
			b.err = fmt.Errorf("model needs a slice of %d elements for %s", n, label)
			return "nil"
		}
		b.n++
		name := fmt.Sprintf("s%d", b.n)
		b.lines = append(b.lines, fmt.Sprintf("%s := make(%s, %d)", name, b.typ(t), n))
		if _, isBasic := u.Elem().Underlying().(*types.Basic); isBasic {
			for k := int64(0); k < n && k < replayElems; k++ {
				if _, ok := b.get(fmt.Sprintf("%s[%d]", label, k)); ok {
					b.lines = append(b.lines, fmt.Sprintf("%s[%d] = %s", name, k, b.expr(fmt.Sprintf("%s[%d]", label, k), u.Elem(), depth+1)))
				}
			}
		}
		return name
	case *types.Pointer:
		pv, ok := b.get(label + "#ptr")
		if ok && pv == "0" {
			return "nil"
		}
		if depth > 2 {
			return "nil"
		}
		b.n++
		name := fmt.Sprintf("p%d", b.n)
		b.lines = append(b.lines, fmt.Sprintf("%s := new(%s)", name, b.typ(u.Elem())))
		switch e := u.Elem().Underlying().(type) {
		case *types.Struct:
			for i := 0; i < e.NumFields(); i++ {
				f := e.Field(i)
				if !f.Exported() && f.Pkg() != b.pkg {
					continue
				}
				b.fill(name+"."+f.Name(), label+"."+f.Name(), f.Type(), depth+1)
			}
		default:
			b.fill("*"+name, "*"+label, u.Elem(), depth+1)
		}
		return name
	case *types.Interface:
		return "nil"
	}
	return "*new(" + b.typ(t) + ")"
}

func (b *replayBuilder) fill(lhs, label string, t types.Type, depth int) {
	switch u := t.Underlying().(type) {
	case *types.Array:
		if _, ok := u.Elem().Underlying().(*types.Basic); ok {
			for k := int64(0); k < u.Len() && k < 64; k++ {
				if _, ok := b.get(fmt.Sprintf("%s[%d]", label, k)); ok {
					b.lines = append(b.lines, fmt.Sprintf("%s[%d] = %s", lhs, k, b.expr(fmt.Sprintf("%s[%d]", label, k), u.Elem(), depth)))
				}
			}
		}
	case *types.Struct:
		for i := 0; i < u.NumFields(); i++ {
			f := u.Field(i)
			if !f.Exported() && f.Pkg() != b.pkg {
				continue
			}
			b.fill(lhs+"."+f.Name(), label+"."+f.Name(), f.Type(), depth+1)
		}
	case *types.Basic, *types.Slice, *types.Pointer:
		e := b.expr(label, t, depth)
		if e != "nil" && e != `""` {
			b.lines = append(b.lines, fmt.Sprintf("%s = %s", lhs, e))
		}
	}
}

type ReplayResult struct {
	Attempted bool   `json:"attempted"`
	Confirmed bool   `json:"confirmed"`
	Outcome   string `json:"outcome"`
	TestFile  string `json:"test_file,omitempty"`
	Output    string `json:"output,omitempty"`
}

// replaySafety builds and runs the replay test for a failed safety obligation.
func (v *Verifier) replaySafety(o *Obligation, dir string) ReplayResult {
	fn := v.funcs[o.Pkg+":"+o.Fn]
	if fn == nil || len(o.Model) == 0 {
		return ReplayResult{Outcome: "no model"}
	}
	if strings.HasPrefix(o.Fn, "pair:") || strings.HasPrefix(o.Fn, "lemma:") {
		return ReplayResult{Outcome: "obligation kind " + o.Kind + " has no automatic replay"}
	}
	// Safety obligations replay as "call with the model's arguments, expect a panic".  Functional
	// obligations (invariants, ensures, call pre-conditions) are tried the same way: a model that
	// breaks an invariant often drives the real code into the panic the invariant guards against;
	// when it does not, the violation is reported without a failing input.
	b := &replayBuilder{model: o.Model, imports: map[string]string{"fmt": "fmt", "testing": "testing"}, pkg: fn.Pkg.Pkg}
	var args []string
	for i, p := range fn.Params {
		if i == 0 && fn.Signature.Recv() != nil {
			// a receiver that the model leaves nil is allocated anyway (methods on empty structs)
			delete(b.model, p.Name()+"#ptr")
		}
		args = append(args, b.expr(p.Name(), p.Type(), 0))
	}
	if b.err != nil {
		return ReplayResult{Outcome: b.err.Error()}
	}
	call := ""
	if fn.Signature.Recv() != nil {
		if args[0] == "nil" {
			return ReplayResult{Outcome: "model has a nil receiver"}
		}
		recv := args[0]
		if _, isPtr := fn.Params[0].Type().Underlying().(*types.Pointer); !isPtr {
			recv = "(" + recv + ")"
		}
		call = fmt.Sprintf("%s.%s(%s)", recv, fn.Name(), strings.Join(args[1:], ", "))
	} else {
		call = fmt.Sprintf("%s(%s)", fn.Name(), strings.Join(args, ", "))
	}
	// functional obligations: evaluate the post-condition on the real result
	post := ""
	extra := ""
	if o.Kind == "ensures" && o.Src != "" {
		if e, err := parseExprSrc(o.Src); err == nil {
			g := &goCompiler{v: v, fn: fn, params: map[string]string{}, defs: map[string]bool{}, bound: map[string]bool{}}
			for i, p := range fn.Params {
				// bind arguments to named variables so that the post-condition can refer to them
				name := fmt.Sprintf("arg%d", i)
				b.lines = append(b.lines, fmt.Sprintf("%s := %s", name, args[i]))
				b.lines = append(b.lines, "_ = "+name)
				g.params[p.Name()] = name
				args[i] = name
			}
			nres := fn.Signature.Results().Len()
			for i := 0; i < nres; i++ {
				g.results = append(g.results, fmt.Sprintf("r%d", i))
			}
			cond := g.expr(e)
			if g.err == nil {
				if fn.Signature.Recv() != nil {
					call = fmt.Sprintf("%s.%s(%s)", args[0], fn.Name(), strings.Join(args[1:], ", "))
				} else {
					call = fmt.Sprintf("%s(%s)", fn.Name(), strings.Join(args, ", "))
				}
				if nres > 0 {
					call = strings.Join(g.results, ", ") + " := " + call
				}
				call = strings.Join(g.olds, "\n\t") + "\n\t" + call
				for _, r := range g.results {
					call += "\n\t_ = " + r
				}
				post = fmt.Sprintf("\n\tif %s {\n\t\tfmt.Println(\"GOVC-REPLAY-POSTOK\")\n\t} else {\n\t\tfmt.Printf(\"GOVC-REPLAY-POSTFAIL: results %%v\\n\", []any{%s})\n\t}", cond, strings.Join(g.results, ", "))
				extra = replayHelpers + "\n" + strings.Join(g.defSrc, "\n") + "\n"
			}
		}
	}
	var imps []string
	for p, n := range b.imports {
		imps = append(imps, fmt.Sprintf("\t%s %q", n, p))
	}
	sort.Strings(imps)
	src := fmt.Sprintf("package %s\n\nimport (\n%s\n)\n%s\n// replay of %s\nfunc TestGovcReplay(t *testing.T) {\n\tdefer func() {\n\t\tif r := recover(); r != nil {\n\t\t\tfmt.Printf(\"GOVC-REPLAY-PANIC: %%v\\n\", r)\n\t\t\treturn\n\t\t}\n\t\tfmt.Println(\"GOVC-REPLAY-RETURNED\")\n\t}()\n\t%s\n\t%s%s\n}\n",
		fn.Pkg.Pkg.Name(), strings.Join(imps, "\n"), extra, o.Name, strings.Join(b.lines, "\n\t"), call, post)
	os.MkdirAll(dir, 0o755)
	base := strings.NewReplacer("/", "_", ":", "_", "*", "p", "(", "", ")", "", " ", "", "[", "_", "]", "", ",", "_", "=", "", "#", "_").Replace(o.Name)
	testPath := filepath.Join(dir, base+"_replay_test.go")
	os.WriteFile(testPath, []byte(src), 0o644)
	rel := strings.TrimPrefix(strings.TrimPrefix(o.Pkg, v.modPath), "/")
	pkgDir := filepath.Join(v.root, rel)
	ov := map[string]map[string]string{"Replace": {filepath.Join(pkgDir, "zz_govc_replay_test.go"): testPath}}
	ovb, _ := json.Marshal(ov)
	ovPath := filepath.Join(dir, base+"_overlay.json")
	os.WriteFile(ovPath, ovb, 0o644)
	cmd := exec.Command("go", "test", "-overlay", ovPath, "-vet=off", "-count=1", "-timeout", "60s", "-run", "^TestGovcReplay$", "-v", "./"+rel)
	cmd.Dir = v.root
	out, _ := cmd.CombinedOutput()
	res := ReplayResult{Attempted: true, TestFile: testPath, Output: firstLines(string(out), 30)}
	switch {
	case strings.Contains(string(out), "GOVC-REPLAY-POSTFAIL"):
		res.Confirmed = true
		res.Outcome = "post-condition violated on the real code with the model's arguments"
	case strings.Contains(string(out), "GOVC-REPLAY-POSTOK"):
		res.Outcome = "model did not reproduce: the post-condition holds on the real code for these arguments"
	case strings.Contains(string(out), "GOVC-REPLAY-PANIC"):
		res.Confirmed = true
		res.Outcome = "panic reproduced on the real code"
	case strings.Contains(string(out), "GOVC-REPLAY-RETURNED"):
		res.Outcome = "model did not reproduce: the call returned normally"
	case strings.Contains(string(out), "panic:") || strings.Contains(string(out), "fatal error:"):
		res.Confirmed = true
		res.Outcome = "crash reproduced on the real code"
	default:
		res.Outcome = "replay test did not run"
	}
	return res
}
