package main

// Footprint back ends (route FP): schedule- and input-independent frame obligations decided by a
// whole-module static analysis over SSA.  Each back end enumerates obligations ("function F does
// not write X") and discharges them by showing that no store in F can reach X.

import (
	"encoding/json"
	"fmt"
	"go/types"
	"os"
	"os/exec"
	"path/filepath"
	"sort"
	"strings"

	"golang.org/x/tools/go/ssa"
	"golang.org/x/tools/go/ssa/ssautil"
)

func init() {
	staticBackends["globals"] = (*Verifier).fpGlobals
	staticBackends["codecrecv"] = (*Verifier).fpCodecRecv
	staticBackends["nogo"] = (*Verifier).fpNoGo
	staticBackends["inputs"] = (*Verifier).fpInputs
	staticBackends["determinism"] = (*Verifier).fpDeterminism
}

// libFuncs: all functions (incl. anonymous) of the library packages (no cmd/, examples/, testdata).
// liftedFuncs builds (once) a second SSA program in the default, register-lifted form: the
// footprint analyses are flow-insensitive per SSA value, so they need one value per assignment.
func (v *Verifier) liftedFuncs() (map[string]*ssa.Function, *ssa.Program) {
	if v.funcs2 != nil {
		return v.funcs2, v.prog2
	}
	prog, _ := ssautil.AllPackages(v.pkgs, ssa.InstantiateGenerics)
	prog.Build()
	v.prog2 = prog
	v.funcs2 = map[string]*ssa.Function{}
	for fn := range ssautil.AllFunctions(prog) {
		pp := funcPkgPath(fn)
		if pp == "" || !strings.HasPrefix(pp, v.modPath) || fn.Parent() != nil || fn.Synthetic != "" {
			continue
		}
		v.funcs2[pp+":"+funcKey(fn)] = fn
	}
	return v.funcs2, v.prog2
}

func (v *Verifier) libFuncs() []*ssa.Function {
	funcs, prog := v.liftedFuncs()
	var out []*ssa.Function
	seen := map[*ssa.Function]bool{}
	var add func(fn *ssa.Function)
	add = func(fn *ssa.Function) {
		if seen[fn] || len(fn.Blocks) == 0 {
			return
		}
		seen[fn] = true
		out = append(out, fn)
		for _, a := range fn.AnonFuncs {
			add(a)
		}
	}
	for k, fn := range funcs {
		pkg := k[:strings.Index(k, ":")]
		rel := strings.TrimPrefix(strings.TrimPrefix(pkg, v.modPath), "/")
		if strings.HasPrefix(rel, "cmd") || strings.HasPrefix(rel, "examples") || strings.Contains(rel, "testdata") {
			continue
		}
		if pos := v.fset.Position(fn.Pos()); strings.HasSuffix(pos.Filename, "_test.go") {
			continue
		}
		add(fn)
	}
	// package initialisers
	for _, p := range prog.AllPackages() {
		if p.Pkg == nil || !strings.HasPrefix(p.Pkg.Path(), v.modPath) {
			continue
		}
		rel := strings.TrimPrefix(strings.TrimPrefix(p.Pkg.Path(), v.modPath), "/")
		if strings.HasPrefix(rel, "cmd") || strings.HasPrefix(rel, "examples") || strings.Contains(rel, "testdata") {
			continue
		}
		if f := p.Func("init"); f != nil {
			add(f)
		}
	}
	sort.Slice(out, func(i, j int) bool { return out[i].String() < out[j].String() })
	return out
}

// ---- generic taint engine ---------------------------------------------------------------------

type taintLevel int

const (
	clean  taintLevel = 0
	capped taintLevel = 1 // aliases the source but len == cap: append cannot write through it
	dirty  taintLevel = 2
)

type taintState struct {
	v       *Verifier
	funcs   []*ssa.Function
	val     map[ssa.Value]taintLevel
	cell    map[*ssa.Alloc]taintLevel // contents of local cells
	field   map[string]taintLevel     // "<struct type>.<field>" contents
	elem    map[string]taintLevel     // contents of slices/arrays/maps of element type
	ret     map[*ssa.Function]taintLevel
	changed bool
	seedVal func(v ssa.Value) taintLevel
	// aliasType: can a value of this type, returned by code we cannot see, alias the seeded memory?
	aliasType func(t types.Type) bool
	byteOnly  bool // only writes of bytes can hit the seeded memory
}

func isByteSlice(t types.Type) bool {
	sl, ok := t.Underlying().(*types.Slice)
	if !ok {
		return false
	}
	b, ok := sl.Elem().Underlying().(*types.Basic)
	return ok && b.Kind() == types.Uint8
}

func isByte(t types.Type) bool {
	b, ok := t.Underlying().(*types.Basic)
	return ok && b.Kind() == types.Uint8
}

func (t *taintState) get(v ssa.Value) taintLevel {
	if v == nil {
		return clean
	}
	if l := t.seedVal(v); l > clean {
		return l
	}
	return t.val[v]
}

func (t *taintState) raise(m map[ssa.Value]taintLevel, k ssa.Value, l taintLevel) {
	if l > m[k] {
		m[k] = l
		t.changed = true
	}
}

func fieldKey(structT types.Type, idx int) string {
	st, ok := structT.Underlying().(*types.Struct)
	if !ok || idx >= st.NumFields() {
		return typeKey(structT) + ".?"
	}
	return typeKey(structT) + "." + st.Field(idx).Name()
}

func refLike(t types.Type) bool {
	switch t.Underlying().(type) {
	case *types.Pointer, *types.Slice, *types.Map, *types.Interface, *types.Signature, *types.Chan:
		return true
	}
	return false
}

// addrContent: the taint of the memory cell an address points to (for loads).
func (t *taintState) loadFrom(addr ssa.Value) taintLevel {
	switch a := addr.(type) {
	case *ssa.Alloc:
		return t.cell[a]
	case *ssa.FieldAddr:
		return maxT(t.field[fieldKey(deref(a.X.Type()), a.Field)], t.interior(a.X))
	case *ssa.IndexAddr:
		return maxT(t.elem[typeKey(deref(a.Type()))], t.interior(a.X))
	}
	return clean
}

// interior: a pointer INTO tainted memory is itself tainted (loads of reference-typed contents of
// tainted memory stay inside the tainted region only if those contents are tainted; scalars are not
// references).  Used so that &tainted[i] counts as tainted destination.
func (t *taintState) interior(base ssa.Value) taintLevel {
	return t.get(base)
}

func maxT(a, b taintLevel) taintLevel {
	if a > b {
		return a
	}
	return b
}

func (t *taintState) step(fn *ssa.Function) {
	for _, b := range fn.Blocks {
		for _, in := range b.Instrs {
			switch i := in.(type) {
			case *ssa.Store:
				lv := t.get(i.Val)
				if !refLike(i.Val.Type()) {
					lv = clean
				}
				if lv == clean {
					continue
				}
				switch a := i.Addr.(type) {
				case *ssa.Alloc:
					if lv > t.cell[a] {
						t.cell[a] = lv
						t.changed = true
					}
				case *ssa.FieldAddr:
					k := fieldKey(deref(a.X.Type()), a.Field)
					if lv > t.field[k] {
						t.field[k] = lv
						t.changed = true
					}
				case *ssa.IndexAddr:
					k := typeKey(deref(a.Type()))
					if lv > t.elem[k] {
						t.elem[k] = lv
						t.changed = true
					}
				}
			case *ssa.UnOp:
				if i.Op.String() == "*" && refLike(i.Type()) {
					t.raise(t.val, i, t.loadFrom(i.X))
				}
			case *ssa.FieldAddr:
				t.raise(t.val, i, t.get(i.X))
			case *ssa.IndexAddr:
				t.raise(t.val, i, t.get(i.X))
			case *ssa.Field:
				if refLike(i.Type()) {
					t.raise(t.val, i, t.get(i.X))
				}
			case *ssa.Index:
				if refLike(i.Type()) {
					t.raise(t.val, i, t.get(i.X))
				}
			case *ssa.Slice:
				l := t.get(i.X)
				if l == dirty && i.Max != nil && i.High != nil && sameValue(i.Max, i.High) {
					l = capped
				}
				t.raise(t.val, i, l)
			case *ssa.Phi:
				for _, e := range i.Edges {
					t.raise(t.val, i, t.get(e))
				}
			case *ssa.ChangeType:
				t.raise(t.val, i, t.get(i.X))
			case *ssa.MakeInterface:
				t.raise(t.val, i, t.get(i.X))
			case *ssa.ChangeInterface:
				t.raise(t.val, i, t.get(i.X))
			case *ssa.TypeAssert:
				t.raise(t.val, i, t.get(i.X))
			case *ssa.Extract:
				t.raise(t.val, i, t.get(i.Tuple))
			case *ssa.Convert:
				if refLike(i.Type()) {
					t.raise(t.val, i, t.get(i.X))
				}
			case *ssa.Lookup:
				if refLike(i.Type()) {
					t.raise(t.val, i, maxT(t.get(i.X), t.elem[typeKey(i.Type())]))
				}
			case *ssa.MakeClosure:
				for _, bnd := range i.Bindings {
					t.raise(t.val, i, t.get(bnd))
				}
			case *ssa.Return:
				for _, r := range i.Results {
					if refLike(r.Type()) {
						if l := t.get(r); l > t.ret[fn] {
							t.ret[fn] = l
							t.changed = true
						}
					}
				}
			case *ssa.Call:
				c := &i.Call
				if bi, ok := c.Value.(*ssa.Builtin); ok {
					switch bi.Name() {
					case "append":
						// the result may alias the first argument; appended reference elements flow into elems
						l := t.get(c.Args[0])
						if l == capped {
							l = clean // reallocation is certain for len == cap and a non-empty append; conservative callers use dirty
						}
						t.raise(t.val, i, l)
					}
					continue
				}
				if callee := c.StaticCallee(); callee != nil && len(callee.Blocks) > 0 {
					for k, a := range c.Args {
						if k < len(callee.Params) && refLike(a.Type()) {
							t.raise(t.val, callee.Params[k], t.get(a))
						}
					}
					if refLike(i.Type()) || isTuple(i.Type()) {
						t.raise(t.val, i, t.ret[callee])
					}
				} else {
					// unknown or external callee: a tainted argument may come back as (part of) the result,
					// but only results that can alias the seeded memory matter (see aliasType)
					var l taintLevel
					for _, a := range c.Args {
						l = maxT(l, t.get(a))
					}
					if c.IsInvoke() {
						l = maxT(l, t.get(c.Value))
					}
					if t.aliasType == nil || t.aliasType(i.Type()) {
						t.raise(t.val, i, l)
					}
				}
			}
		}
	}
}

func isTuple(t types.Type) bool { _, ok := t.(*types.Tuple); return ok }

func sameValue(a, b ssa.Value) bool {
	if a == b {
		return true
	}
	// len(x) computed twice on the same operand
	ca, ok1 := a.(*ssa.Call)
	cb, ok2 := b.(*ssa.Call)
	if ok1 && ok2 {
		ba, oka := ca.Call.Value.(*ssa.Builtin)
		bb, okb := cb.Call.Value.(*ssa.Builtin)
		if oka && okb && ba.Name() == bb.Name() && len(ca.Call.Args) == 1 && len(cb.Call.Args) == 1 {
			return sameValue(ca.Call.Args[0], cb.Call.Args[0])
		}
	}
	ua, ok1 := a.(*ssa.UnOp)
	ub, ok2 := b.(*ssa.UnOp)
	if ok1 && ok2 && ua.Op == ub.Op {
		if aa, ok := ua.X.(*ssa.Alloc); ok && ua.X == ub.X && !aa.Heap {
			return true // two loads of the same local cell (no intervening store assumed: checked by caller context)
		}
	}
	return false
}

func (t *taintState) run() {
	for iter := 0; iter < 50; iter++ {
		t.changed = false
		for _, fn := range t.funcs {
			t.step(fn)
		}
		if !t.changed {
			return
		}
	}
}

type fpWrite struct {
	fn   *ssa.Function
	pos  string
	what string
}

// writesTo lists every instruction in fn that writes through a tainted destination.
func (t *taintState) writesTo(fn *ssa.Function) []fpWrite {
	var out []fpWrite
	for _, b := range fn.Blocks {
		for _, in := range b.Instrs {
			switch i := in.(type) {
			case *ssa.Store:
				if _, isLocal := i.Addr.(*ssa.Alloc); isLocal {
					continue
				}
				if t.byteOnly && !isByte(i.Val.Type()) {
					continue
				}
				if t.get(i.Addr) > clean {
					out = append(out, fpWrite{fn, t.v.fset.Position(i.Pos()).String(), "store"})
				}
			case *ssa.MapUpdate:
				if t.get(i.Map) > clean {
					out = append(out, fpWrite{fn, t.v.fset.Position(i.Pos()).String(), "map update"})
				}
			case *ssa.Call:
				if bi, ok := i.Call.Value.(*ssa.Builtin); ok {
					switch bi.Name() {
					case "copy":
						if t.byteOnly && !isByteSlice(i.Call.Args[0].Type()) {
							continue
						}
						if t.get(i.Call.Args[0]) > clean {
							out = append(out, fpWrite{fn, t.v.fset.Position(i.Pos()).String(), "copy into"})
						}
					case "append":
						if t.byteOnly && !isByteSlice(i.Call.Args[0].Type()) {
							continue
						}
						if t.get(i.Call.Args[0]) == dirty {
							out = append(out, fpWrite{fn, t.v.fset.Position(i.Pos()).String(), "append (may write in place) to"})
						}
					case "clear":
						if t.get(i.Call.Args[0]) > clean {
							out = append(out, fpWrite{fn, t.v.fset.Position(i.Pos()).String(), "clear of"})
						}
					}
				} else if callee := i.Call.StaticCallee(); callee != nil && len(callee.Blocks) == 0 || (i.Call.StaticCallee() != nil && !strings.HasPrefix(funcPkgPath(i.Call.StaticCallee()), t.v.modPath)) {
					// external callee that is known to write through its argument
					name := i.Call.StaticCallee().String()
					switch name {
					case "io.ReadFull", "(*bytes.Reader).Read", "encoding/binary.Read", "io.ReadAtLeast":
						for k, a := range i.Call.Args {
							if k > 0 && t.get(a) > clean {
								out = append(out, fpWrite{fn, t.v.fset.Position(i.Pos()).String(), name + " writes into"})
							}
						}
					}
					if strings.Contains(name, ".PutUint") && len(i.Call.Args) > 1 && t.get(i.Call.Args[1]) > clean {
						out = append(out, fpWrite{fn, t.v.fset.Position(i.Pos()).String(), name + " writes into"})
					}
				}
			}
		}
	}
	return out
}

func newTaint(v *Verifier, seed func(ssa.Value) taintLevel) *taintState {
	return &taintState{v: v, funcs: v.libFuncs(), val: map[ssa.Value]taintLevel{}, cell: map[*ssa.Alloc]taintLevel{},
		field: map[string]taintLevel{}, elem: map[string]taintLevel{}, ret: map[*ssa.Function]taintLevel{}, seedVal: seed}
}

// ---- C18 (1): no function other than init writes a package-level variable ---------------------

func (v *Verifier) initOnly() map[*ssa.Function]bool {
	// functions reachable only from package initialisers
	callers := map[*ssa.Function]map[*ssa.Function]bool{}
	funcs := v.libFuncs()
	for _, fn := range funcs {
		for _, b := range fn.Blocks {
			for _, in := range b.Instrs {
				var c *ssa.CallCommon
				switch i := in.(type) {
				case *ssa.Call:
					c = &i.Call
				case *ssa.Defer:
					c = &i.Call
				case *ssa.Go:
					c = &i.Call
				}
				if c == nil {
					continue
				}
				if callee := c.StaticCallee(); callee != nil {
					if callers[callee] == nil {
						callers[callee] = map[*ssa.Function]bool{}
					}
					callers[callee][fn] = true
				}
			}
			for _, in := range b.Instrs {
				if _, isDbg := in.(*ssa.DebugRef); isDbg {
					continue
				}
				// a function used as a value escapes: treat as callable from anywhere
				for _, op := range in.Operands(nil) {
					if f, ok := (*op).(*ssa.Function); ok {
						if _, isCall := in.(ssa.CallInstruction); !isCall || in.(ssa.CallInstruction).Common().Value != f {
							if callers[f] == nil {
								callers[f] = map[*ssa.Function]bool{}
							}
							callers[f][nil] = true
						}
					}
				}
			}
		}
	}
	initOnly := map[*ssa.Function]bool{}
	for _, fn := range funcs {
		if fn.Name() == "init" || strings.HasPrefix(fn.Name(), "init#") || fn.Synthetic == "package initializer" {
			initOnly[fn] = true
		}
	}
	for changed := true; changed; {
		changed = false
		for _, fn := range funcs {
			if initOnly[fn] || fn.Object() != nil && fn.Object().Exported() || len(callers[fn]) == 0 {
				continue
			}
			all := true
			for c := range callers[fn] {
				if c == nil || !initOnly[c] {
					all = false
				}
			}
			if fn.Parent() != nil && initOnly[fn.Parent()] {
				all = true
			}
			if all {
				initOnly[fn] = true
				changed = true
			}
		}
	}
	return initOnly
}

func (v *Verifier) fpGlobals() (map[string]any, []staticProblem) {
	t := newTaint(v, func(val ssa.Value) taintLevel {
		if g, ok := val.(*ssa.Global); ok && g.Pkg != nil && strings.HasPrefix(g.Pkg.Pkg.Path(), v.modPath) {
			return dirty
		}
		return clean
	})
	t.run()
	initOnly := v.initOnly()
	var probs []staticProblem
	obl, ok := 0, 0
	var samples []string
	for _, fn := range t.funcs {
		if initOnly[fn] {
			continue
		}
		obl++
		ws := t.writesTo(fn)
		// direct stores to a global variable itself
		for _, b := range fn.Blocks {
			for _, in := range b.Instrs {
				if s, isStore := in.(*ssa.Store); isStore {
					if g, isG := s.Addr.(*ssa.Global); isG && g.Pkg != nil && strings.HasPrefix(g.Pkg.Pkg.Path(), v.modPath) {
						ws = append(ws, fpWrite{fn, v.fset.Position(s.Pos()).String(), "assignment to package variable " + g.Name()})
					}
				}
			}
		}
		if len(ws) == 0 {
			ok++
			if len(samples) < 3 {
				samples = append(samples, "no write reachable to package-level state in "+fn.String())
			}
			continue
		}
		for _, w := range ws {
			probs = append(probs, staticProblem{Key: shortPkg(funcPkgPath(fn)) + "." + funcKey(fn), Msg: fmt.Sprintf("%s %s memory reachable from a package-level variable at %s (function is callable after init)", fn.String(), w.what, w.pos)})
			break
		}
	}
	return map[string]any{"name": "globals", "obligations": obl, "discharged": ok, "samples": samples,
		"statement": "for every library function not reachable only from init: no store, map update, copy, append-in-place or clear targets memory reachable from a package-level variable"}, dedupProblems(probs)
}

func dedupProblems(ps []staticProblem) []staticProblem {
	seen := map[string]bool{}
	var out []staticProblem
	for _, p := range ps {
		if !seen[p.Key] {
			seen[p.Key] = true
			out = append(out, p)
		}
	}
	sort.Slice(out, func(i, j int) bool { return out[i].Key < out[j].Key })
	return out
}

// ---- C18 (2): Codec methods never write a receiver field --------------------------------------

func isCodecType(t types.Type) bool {
	n, ok := deref(t).(*types.Named)
	if !ok {
		return false
	}
	need := map[string]bool{"Encode": false, "Decode": false, "TransferSyntax": false}
	ms := types.NewMethodSet(types.NewPointer(n))
	for i := 0; i < ms.Len(); i++ {
		if _, ok := need[ms.At(i).Obj().Name()]; ok {
			need[ms.At(i).Obj().Name()] = true
		}
	}
	for _, ok := range need {
		if !ok {
			return false
		}
	}
	return true
}

func (v *Verifier) fpCodecRecv() (map[string]any, []staticProblem) {
	// seed: the receiver of every method of a Codec type
	recv := map[ssa.Value]bool{}
	var methods []*ssa.Function
	for _, fn := range v.libFuncs() {
		if fn.Signature.Recv() != nil && len(fn.Params) > 0 && isCodecType(fn.Params[0].Type()) {
			recv[fn.Params[0]] = true
			methods = append(methods, fn)
		}
	}
	t := newTaint(v, func(val ssa.Value) taintLevel {
		if recv[val] {
			return dirty
		}
		return clean
	})
	t.run()
	var probs []staticProblem
	obl, ok := 0, 0
	var samples []string
	// every function that may receive the codec object (methods and their callees) is an obligation
	for _, fn := range t.funcs {
		touches := false
		for _, p := range fn.Params {
			if t.get(p) > clean {
				touches = true
			}
		}
		if !touches {
			continue
		}
		obl++
		ws := t.writesTo(fn)
		if len(ws) == 0 {
			ok++
			if len(samples) < 3 {
				samples = append(samples, "no write through the codec object in "+fn.String())
			}
			continue
		}
		probs = append(probs, staticProblem{Key: shortPkg(funcPkgPath(fn)) + "." + funcKey(fn), Msg: fmt.Sprintf("%s %s the codec object (receiver state) at %s", fn.String(), ws[0].what, ws[0].pos)})
	}
	return map[string]any{"name": "codecrecv", "obligations": obl, "discharged": ok, "codec_methods": len(methods), "samples": samples,
		"statement": "no method of a registered codec type (nor any function it passes itself to) writes memory reachable from the codec object"}, dedupProblems(probs)
}

// ---- C18 (3): no goroutines / sync in library code ---------------------------------------------

func (v *Verifier) fpNoGo() (map[string]any, []staticProblem) {
	var probs []staticProblem
	obl := 0
	for _, fn := range v.libFuncs() {
		obl++
		for _, b := range fn.Blocks {
			for _, in := range b.Instrs {
				switch in.(type) {
				case *ssa.Go, *ssa.Select, *ssa.Send:
					probs = append(probs, staticProblem{Key: shortPkg(funcPkgPath(fn)) + "." + funcKey(fn), Msg: fmt.Sprintf("%s uses goroutines/channels at %s: the non-interference argument for C18 no longer applies", fn.String(), v.fset.Position(in.Pos()))})
				}
			}
		}
	}
	ps := dedupProblems(probs)
	return map[string]any{"name": "nogo", "obligations": obl, "discharged": obl - len(ps),
		"statement": "no library function starts a goroutine or communicates over channels"}, ps
}

// ---- C10: the caller's input buffers are never written ----------------------------------------

// entry points whose []byte parameters are caller-owned inputs
func (v *Verifier) inputParams() map[ssa.Value]string {
	out := map[ssa.Value]string{}
	for _, fn := range v.libFuncs() {
		if fn.Parent() != nil {
			continue
		}
		name := fn.Name()
		isEntry := false
		if fn.Object() != nil && fn.Object().Exported() {
			if fn.Signature.Recv() == nil && (strings.HasPrefix(name, "Encode") || strings.HasPrefix(name, "Decode")) {
				isEntry = true
			}
			if fn.Signature.Recv() != nil && (name == "Encode" || name == "Decode" || name == "Parse") {
				isEntry = true
			}
		}
		if fn.Signature.Recv() != nil && (name == "encodeFrame" || name == "decodeFrame") {
			isEntry = true
		}
		if !isEntry {
			continue
		}
		for _, p := range fn.Params {
			if sl, ok := p.Type().Underlying().(*types.Slice); ok {
				if b, ok := sl.Elem().Underlying().(*types.Basic); ok && b.Kind() == types.Uint8 {
					if fn.Signature.Recv() != nil && p == fn.Params[0] {
						continue
					}
					out[p] = fn.String() + " parameter " + p.Name()
				}
			}
		}
	}
	// codestream.NewParser(data)
	for _, fn := range v.libFuncs() {
		if fn.Name() == "NewParser" || fn.Name() == "NewDecoder" || fn.Name() == "NewMQDecoder" {
			for _, p := range fn.Params {
				if sl, ok := p.Type().Underlying().(*types.Slice); ok {
					if b, ok := sl.Elem().Underlying().(*types.Basic); ok && b.Kind() == types.Uint8 {
						out[p] = fn.String() + " parameter " + p.Name()
					}
				}
			}
		}
	}
	return out
}

func (v *Verifier) fpInputs() (map[string]any, []staticProblem) {
	seeds := v.inputParams()
	t := newTaint(v, func(val ssa.Value) taintLevel {
		if _, ok := seeds[val]; ok {
			return dirty
		}
		return clean
	})
	t.aliasType = func(ty types.Type) bool {
		if tup, ok := ty.(*types.Tuple); ok {
			for i := 0; i < tup.Len(); i++ {
				if isByteSlice(tup.At(i).Type()) {
					return true
				}
			}
			return false
		}
		return isByteSlice(ty)
	}
	t.byteOnly = true
	t.run()
	var probs []staticProblem
	obl, ok := 0, 0
	var samples []string
	for _, fn := range t.funcs {
		touches := false
		for _, b := range fn.Blocks {
			for _, in := range b.Instrs {
				if val, isVal := in.(ssa.Value); isVal && t.val[val] > clean {
					touches = true
				}
			}
		}
		for _, p := range fn.Params {
			if t.get(p) > clean {
				touches = true
			}
		}
		if !touches {
			continue
		}
		obl++
		ws := t.writesTo(fn)
		if len(ws) == 0 {
			ok++
			if len(samples) < 3 {
				samples = append(samples, "input bytes are only read in "+fn.String())
			}
			continue
		}
		probs = append(probs, staticProblem{Key: shortPkg(funcPkgPath(fn)) + "." + funcKey(fn), Msg: fmt.Sprintf("%s: %s memory that may alias a caller-owned input buffer at %s", fn.String(), ws[0].what, ws[0].pos)})
	}
	return map[string]any{"name": "inputs", "obligations": obl, "discharged": ok, "input_parameters": len(seeds), "samples": samples,
		"statement": "for every function that can see (an alias of) a caller-owned []byte input of an Encode/Decode/Parse entry point: no store, copy, in-place append or library write targets it"}, dedupProblems(probs)
}

// ---- C10: no source of nondeterminism reaches library code ------------------------------------

func (v *Verifier) fpDeterminism() (map[string]any, []staticProblem) {
	allow := map[string]bool{}
	if b, err := os.ReadFile(filepath.Join("/verif", "baseline", "determinism_allow.json")); err == nil {
		var xs []string
		json.Unmarshal(b, &xs)
		for _, x := range xs {
			allow[x] = true
		}
	}
	var probs []staticProblem
	obl := 0
	found := map[string]bool{}
	for _, fn := range v.libFuncs() {
		obl++
		for _, b := range fn.Blocks {
			for _, in := range b.Instrs {
				what := ""
				switch i := in.(type) {
				case *ssa.Range:
					if _, ok := i.X.Type().Underlying().(*types.Map); ok {
						what = "map iteration"
					}
				case *ssa.Call:
					if callee := i.Call.StaticCallee(); callee != nil {
						pp := funcPkgPath(callee)
						switch {
						case pp == "time" && (callee.Name() == "Now" || callee.Name() == "Since"):
							what = "time." + callee.Name()
						case pp == "math/rand" || pp == "math/rand/v2" || pp == "crypto/rand":
							what = pp
						case pp == "os" && (callee.Name() == "Getenv" || callee.Name() == "LookupEnv"):
							what = "os." + callee.Name()
						}
					}
				case *ssa.Go, *ssa.Select:
					what = "concurrency"
				}
				if what == "" {
					continue
				}
				key := shortPkg(funcPkgPath(fn)) + "." + funcKey(fn) + ": " + what
				found[key] = true
				if !allow[key] {
					probs = append(probs, staticProblem{Key: key, Msg: fmt.Sprintf("%s uses %s at %s: output may depend on something other than its inputs", fn.String(), what, v.fset.Position(in.Pos()))})
				}
			}
		}
	}
	var fl []string
	for k := range found {
		fl = append(fl, k)
	}
	sort.Strings(fl)
	ps := dedupProblems(probs)
	return map[string]any{"name": "determinism", "obligations": obl, "discharged": obl - len(ps), "reviewed_occurrences": fl,
		"statement": "no library function reads the clock, a random source or the environment, and every map iteration is on the reviewed allow-list (order does not reach the output)"}, ps
}

// ---- C18 (4): no write through the caller's parameters object ----------------------------------
// Seeds: every parameter of interface type codec.Parameters of a codec method.  Functions that are
// under a govc contract with an assigns clause (the Validate methods: "requires valid(p), assigns
// nothing") are proved by the deductive back end and skipped here.
func (v *Verifier) fpParams() (map[string]any, []staticProblem) {
	seeds := map[ssa.Value]bool{}
	for _, fn := range v.libFuncs() {
		if fn.Signature.Recv() == nil || len(fn.Params) == 0 || !isCodecType(fn.Params[0].Type()) {
			continue
		}
		for _, p := range fn.Params[1:] {
			if n, ok := p.Type().(*types.Named); ok && n.Obj().Name() == "Parameters" && n.Obj().Pkg() != nil && strings.HasSuffix(n.Obj().Pkg().Path(), "imaging/codec") {
				seeds[p] = true
			}
		}
	}
	t := newTaint(v, func(val ssa.Value) taintLevel {
		if seeds[val] {
			return dirty
		}
		return clean
	})
	t.run()
	var probs []staticProblem
	obl, ok, viaContract := 0, 0, 0
	var samples []string
	for _, fn := range t.funcs {
		touches := false
		for _, p := range fn.Params {
			if t.get(p) > clean {
				touches = true
			}
		}
		if !touches {
			continue
		}
		obl++
		if fc := v.contracts.Funcs[funcPkgPath(fn)+":"+funcKey(fn)]; fc != nil && fc.HasAssign && !fc.Trusted {
			viaContract++
			ok++
			continue
		}
		ws := t.writesTo(fn)
		if len(ws) == 0 {
			ok++
			if len(samples) < 3 {
				samples = append(samples, "no write through the parameters object in "+fn.String())
			}
			continue
		}
		probs = append(probs, staticProblem{Key: shortPkg(funcPkgPath(fn)) + "." + funcKey(fn), Msg: fmt.Sprintf("%s %s the caller's parameters object at %s", fn.String(), ws[0].what, ws[0].pos)})
	}
	return map[string]any{"name": "params", "obligations": obl, "discharged": ok, "discharged_by_contract": viaContract, "parameter_arguments": len(seeds), "samples": samples,
		"statement": "no function that can see the caller's codec.Parameters object writes through it; Validate methods are proved write-free on valid objects by their contracts"}, dedupProblems(probs)
}

// ---- C18 (5): GetDefaultParameters returns a fresh object --------------------------------------
func (v *Verifier) fpFreshDefaults() (map[string]any, []staticProblem) {
	var targets []*ssa.Function
	recv := map[ssa.Value]bool{}
	for _, fn := range v.libFuncs() {
		if fn.Name() == "GetDefaultParameters" && fn.Signature.Recv() != nil && len(fn.Params) > 0 {
			targets = append(targets, fn)
			recv[fn.Params[0]] = true
		}
	}
	t := newTaint(v, func(val ssa.Value) taintLevel {
		if recv[val] {
			return dirty
		}
		if g, ok := val.(*ssa.Global); ok && g.Pkg != nil && strings.HasPrefix(g.Pkg.Pkg.Path(), v.modPath) {
			return dirty
		}
		return clean
	})
	t.run()
	var probs []staticProblem
	ok := 0
	for _, fn := range targets {
		if t.ret[fn] > clean {
			probs = append(probs, staticProblem{Key: shortPkg(funcPkgPath(fn)) + "." + funcKey(fn), Msg: fn.String() + " may return an object reachable from the codec or from a package-level variable: defaults would be shared between callers"})
		} else {
			ok++
		}
	}
	return map[string]any{"name": "freshdefaults", "obligations": len(targets), "discharged": ok,
		"statement": "GetDefaultParameters of every codec returns memory that is not reachable from the codec object or a package-level variable"}, dedupProblems(probs)
}

func init() {
	staticBackends["params"] = (*Verifier).fpParams
	staticBackends["freshdefaults"] = (*Verifier).fpFreshDefaults
}

// ---- route K: constant evaluation of package-level table invariants -----------------------------
// The invariant is compiled to Go and evaluated once in the package (after its init functions ran)
// by an in-package test injected with -overlay.
func (v *Verifier) fpGlobalInv() (map[string]any, []staticProblem) {
	byPkg := map[string][]*GlobalInv{}
	for _, gi := range v.contracts.Globals {
		byPkg[gi.Pkg] = append(byPkg[gi.Pkg], gi)
	}
	var probs []staticProblem
	obl, ok := 0, 0
	var samples []string
	for pkg, gis := range byPkg {
		var anyFn *ssa.Function
		for k, fn := range v.funcs {
			if strings.HasPrefix(k, pkg+":") {
				anyFn = fn
				break
			}
		}
		if anyFn == nil {
			probs = append(probs, staticProblem{Key: pkg, Msg: "no function found in package " + pkg})
			continue
		}
		var body strings.Builder
		var defs []string
		seenDef := map[string]bool{}
		for i, gi := range gis {
			obl++
			g := &goCompiler{v: v, fn: anyFn, params: map[string]string{}, defs: seenDef, bound: map[string]bool{}}
			src := g.exprGlobal(gi.Clause.Expr)
			if g.err != nil {
				probs = append(probs, staticProblem{Key: fmt.Sprintf("%s.%s#%d", shortPkg(pkg), gi.Name, i), Msg: "cannot compile global invariant: " + g.err.Error()})
				continue
			}
			defs = append(defs, g.defSrc...)
			fmt.Fprintf(&body, "\tif %s {\n\t\tfmt.Println(\"GOVC-GLOBALINV-OK %d\")\n\t} else {\n\t\tfmt.Println(\"GOVC-GLOBALINV-FAIL %d\")\n\t}\n", src, i, i)
		}
		src := fmt.Sprintf("package %s\n\nimport (\n\t\"fmt\"\n\t\"testing\"\n)\n%s\n%s\n\nfunc TestGovcGlobalInv(t *testing.T) {\n%s}\n", anyFn.Pkg.Pkg.Name(), replayHelpers, strings.Join(defs, "\n"), body.String())
		dir := filepath.Join("/verif", "out", "globalinv")
		os.MkdirAll(dir, 0o755)
		name := strings.ReplaceAll(shortPkg(pkg), "/", "_")
		testPath := filepath.Join(dir, name+"_globalinv_test.go")
		os.WriteFile(testPath, []byte(src), 0o644)
		rel := strings.TrimPrefix(strings.TrimPrefix(pkg, v.modPath), "/")
		ov := map[string]map[string]string{"Replace": {filepath.Join(v.root, rel, "zz_govc_globalinv_test.go"): testPath}}
		ovb, _ := json.Marshal(ov)
		ovPath := filepath.Join(dir, name+"_overlay.json")
		os.WriteFile(ovPath, ovb, 0o644)
		cmd := exec.Command("go", "test", "-overlay", ovPath, "-vet=off", "-count=1", "-timeout", "120s", "-run", "^TestGovcGlobalInv$", "-v", "./"+rel)
		cmd.Dir = v.root
		out, _ := cmd.CombinedOutput()
		for i, gi := range gis {
			switch {
			case strings.Contains(string(out), fmt.Sprintf("GOVC-GLOBALINV-OK %d\n", i)):
				ok++
				if len(samples) < 4 {
					samples = append(samples, shortPkg(pkg)+"."+gi.Name+": "+gi.Clause.Src+" holds after init (evaluated)")
				}
			case strings.Contains(string(out), fmt.Sprintf("GOVC-GLOBALINV-FAIL %d\n", i)):
				probs = append(probs, staticProblem{Key: fmt.Sprintf("%s.%s#%d", shortPkg(pkg), gi.Name, i), Msg: "package-level table invariant does not hold after init: " + gi.Clause.Src})
			default:
				probs = append(probs, staticProblem{Key: fmt.Sprintf("%s.%s#%d", shortPkg(pkg), gi.Name, i), Msg: "global invariant test did not run: " + lastLines(string(out), 8)})
			}
		}
	}
	return map[string]any{"name": "globalinv", "obligations": obl, "discharged": ok, "samples": samples,
		"statement": "invariants of package-level lookup tables assumed by function contracts hold after package initialisation (decided by executing the compiled invariant once)"}, probs
}

func init() { staticBackends["globalinv"] = (*Verifier).fpGlobalInv }
