package main

import (
	"runtime/debug"
	"encoding/json"
	"flag"
	"fmt"
	"os"
	"os/exec"
	"path/filepath"
	"regexp"
	"sort"
	"strconv"
	"strings"
	"sync"
	"time"
)

type KnownFinding struct {
	Property   string `json:"property"`
	Obligation string `json:"obligation"`      // exact name, or prefix ending in *
	Match      string `json:"match,omitempty"` // bounded stand-ins: regexp every reported failing case must match (the region of the finding)
	What       string `json:"what"`
}

type KnownFile struct {
	Findings []KnownFinding    `json:"findings"`
	Fixed    []json.RawMessage `json:"fixed"`
}

type PropConfig struct {
	Level   string   `json:"level"`
	Bounded []string `json:"bounded"` // package-relative dirs under /verif/bounded holding TestVerif_<ID>_* tests
	Static  []string `json:"static"`  // static back ends: "globals", "codecrecv", "nogo"
	Note    string   `json:"note"`
}

func contains(xs []string, s string) bool {
	for _, x := range xs {
		if x == s {
			return true
		}
	}
	return false
}

func taskHasProp(fc *FuncContract, p string) bool {
	if contains(fc.Props, p) || contains(fc.TermProps, p) || contains(fc.AllocProp, p) {
		return true
	}
	for _, c := range fc.Ensures {
		if c.hasTag(p) {
			return true
		}
	}
	for _, l := range fc.Loops {
		for _, c := range l.Invariants {
			if c.hasTag(p) {
				return true
			}
		}
		if l.Decreases != nil && l.Decreases.hasTag(p) {
			return true
		}
	}
	return false
}

func obHasProp(o *Obligation, p string) bool {
	return contains(o.Tags, p) || contains(o.Tags, "*")
}

type boundedResult struct {
	Name      string  `json:"name"`
	Pkg       string  `json:"package"`
	Domain    string  `json:"domain"`
	Cases     int     `json:"cases"`
	Fails     int     `json:"fails"`
	FirstFail string  `json:"first_fail,omitempty"`
	Secs      float64 `json:"seconds"`
}

var reBounded = regexp.MustCompile(`^BOUNDED name=(\S+) cases=(\d+) fails=(\d+) domain="([^"]*)"`)
var reBoundedFail = regexp.MustCompile(`^BOUNDED-FAIL name=(\S+) (.*)$`)

// runBounded runs the bounded stand-in tests of a property (in-package tests injected by overlay).
func runBounded(root, verifDir, outBase, prop, tier string, seed int64, dirs []string) ([]boundedResult, []string) {
	var results []boundedResult
	var problems []string
	var mu sync.Mutex
	var wg sync.WaitGroup
	sem := make(chan struct{}, 8)
	for _, rel := range dirs {
		rel := rel
		wg.Add(1)
		go func() {
			defer wg.Done()
			sem <- struct{}{}
			defer func() { <-sem }()
			srcDir := filepath.Join(verifDir, "bounded", rel)
			files, _ := filepath.Glob(filepath.Join(srcDir, "*_test.go"))
			if len(files) == 0 {
				mu.Lock()
				problems = append(problems, "no bounded tests in "+srcDir)
				mu.Unlock()
				return
			}
			ov := map[string]map[string]string{"Replace": {}}
			for _, f := range files {
				ov["Replace"][filepath.Join(root, rel, "zz_verif_"+filepath.Base(f))] = f
			}
			ovb, _ := json.Marshal(ov)
			os.MkdirAll(filepath.Join(outBase, "out", "overlay"), 0o755)
			ovPath := filepath.Join(outBase, "out", "overlay", prop+"_"+strings.ReplaceAll(rel, "/", "_")+".json")
			os.WriteFile(ovPath, ovb, 0o644)
			t0 := time.Now()
			cmd := exec.Command("go", "test", "-overlay", ovPath, "-vet=off", "-count=1", "-timeout", "1500s", "-run", "^TestVerif_"+prop+"_", "-v", "./"+rel)
			cmd.Dir = root
			cmd.Env = append(os.Environ(), "VERIF_TIER="+tier, fmt.Sprintf("VERIF_SEED=%d", seed))
			out, err := cmd.CombinedOutput()
			secs := time.Since(t0).Seconds()
			mu.Lock()
			defer mu.Unlock()
			seen := 0
			for _, line := range strings.Split(string(out), "\n") {
				line = strings.TrimSpace(line)
				if m := reBounded.FindStringSubmatch(line); m != nil {
					c, _ := strconv.Atoi(m[2])
					f, _ := strconv.Atoi(m[3])
					results = append(results, boundedResult{Name: m[1], Pkg: rel, Domain: m[4], Cases: c, Fails: f, Secs: secs})
					seen++
				}
				if m := reBoundedFail.FindStringSubmatch(line); m != nil {
					for i := range results {
						if results[i].Name == m[1] && results[i].FirstFail == "" {
							results[i].FirstFail = m[2]
						}
					}
					problems = append(problems, "bounded "+m[1]+": "+m[2])
				}
			}
			if seen == 0 {
				problems = append(problems, fmt.Sprintf("bounded tests in %s produced no result line (err=%v): %s", rel, err, lastLines(string(out), 15)))
			} else if err != nil && !strings.Contains(string(out), "BOUNDED-FAIL") {
				problems = append(problems, fmt.Sprintf("bounded tests in %s failed: %s", rel, lastLines(string(out), 15)))
			}
		}()
	}
	wg.Wait()
	sort.Slice(results, func(i, j int) bool { return results[i].Name < results[j].Name })
	return results, problems
}

func lastLines(s string, n int) string {
	ls := strings.Split(strings.TrimSpace(s), "\n")
	if len(ls) > n {
		ls = ls[len(ls)-n:]
	}
	return strings.Join(ls, " | ")
}

func cmdCheck(args []string) {
	fs := flag.NewFlagSet("check", flag.ExitOnError)
	prop := fs.String("prop", "", "property id")
	tier := fs.String("tier", "quick", "quick|thorough")
	root := fs.String("root", "/repo", "repository root")
	verifDir := fs.String("verif", "/verif", "verif directory")
	outDir := fs.String("outdir", "", "write evidence/replays/vc files below this directory instead of the verif directory (selftest)")
	fs.Parse(args)
	outBase := *verifDir
	if *outDir != "" {
		outBase = *outDir
	}
	if *prop == "" {
		fatal("check: -prop required")
	}
	t0 := time.Now()
	seed := int64(1)
	if s := os.Getenv("VERIF_SEED"); s != "" {
		if k, err := strconv.ParseInt(s, 10, 64); err == nil {
			seed = k
		}
	}
	timeout := 45
	thorough := false
	if *tier == "thorough" {
		timeout = 120
		thorough = true
	}
	// configuration
	var cfgs map[string]PropConfig
	if b, err := os.ReadFile(filepath.Join(*verifDir, "props.json")); err == nil {
		json.Unmarshal(b, &cfgs)
	}
	cfg := cfgs[*prop]
	if cfg.Level == "" {
		cfg.Level = "other"
	}
	var known KnownFile
	if b, err := os.ReadFile(filepath.Join(*verifDir, "known_findings.json")); err == nil {
		if err := json.Unmarshal(b, &known); err != nil {
			fatal("known_findings.json: %v", err)
		}
	}

	v, err := loadVerifier(*root)
	if err != nil {
		fmt.Printf("VIOLATION property=%s replay=%s no-failing-input-found\n", *prop, writeSimpleReplay(outBase, *prop, "load", "cannot load /repo: "+err.Error()))
		os.Exit(1)
	}
	v.vcDir = filepath.Join(outBase, "out", "vc", *prop, "range")
	vcDir := filepath.Join(outBase, "out", "vc", *prop)
	os.RemoveAll(vcDir)
	os.MkdirAll(vcDir, 0o755)
	replayDir := filepath.Join(outBase, "replays", *prop)
	os.RemoveAll(replayDir)
	os.MkdirAll(replayDir, 0o755)
	loadSecs := time.Since(t0).Seconds()

	var violations []string
	violate := func(o string, replayPath string, confirmed bool) {
		line := fmt.Sprintf("VIOLATION property=%s replay=%s", *prop, replayPath)
		if !confirmed {
			line += " no-failing-input-found"
		}
		violations = append(violations, line)
		fmt.Println(line)
	}
	if len(v.loadErrs) > 0 {
		p := writeSimpleReplay(outBase, *prop, "load", "package load errors: "+strings.Join(v.loadErrs, "; "))
		violate("load", p, false)
	}
	for _, e := range v.contracts.Errors {
		p := writeSimpleReplay(outBase, *prop, "contract-syntax", e)
		violate("contract-syntax", p, false)
	}

	// tasks
	type task struct {
		name string
		gen  func() []*Exec
	}
	var tasks []task
	nFuncs := 0
	var funcsUnder []string
	for _, k := range sortedFuncKeys(v.contracts.Funcs) {
		fc := v.contracts.Funcs[k]
		if strings.HasPrefix(k, "iface:") || !taskHasProp(fc, *prop) {
			continue
		}
		if fc.Trusted {
			continue
		}
		fcc := fc
		nFuncs++
		funcsUnder = append(funcsUnder, shortPkg(fc.Pkg)+"."+fc.Key)
		tasks = append(tasks, task{k, func() []*Exec { return v.verifyFunc(fcc) }})
	}
	for _, p := range v.contracts.Pairs {
		has := false
		for _, a := range p.Asserts {
			if a.hasTag(*prop) {
				has = true
			}
		}
		if has {
			p := p
			funcsUnder = append(funcsUnder, "pair "+p.Name+" ("+p.Left+" ~ "+p.Right+")")
			tasks = append(tasks, task{"pair:" + p.Name, func() []*Exec { return v.verifyPair(p) }})
		}
	}
	for _, l := range v.contracts.Lemmas {
		has := false
		for _, a := range l.Asserts {
			if a.hasTag(*prop) {
				has = true
			}
		}
		if has {
			l := l
			funcsUnder = append(funcsUnder, "lemma "+l.Name)
			tasks = append(tasks, task{"lemma:" + l.Name, func() []*Exec { return v.verifyLemma(l) }})
		}
	}
	if only := os.Getenv("GOVC_ONLY"); only != "" {
		// debugging aid: restrict the run to tasks whose name contains the substring (never used by registered commands)
		var keep []task
		for _, t := range tasks {
			if strings.Contains(t.name, only) {
				keep = append(keep, t)
			}
		}
		tasks = keep
	}
	// generate in parallel
	var execs []*Exec
	var mu sync.Mutex
	var wg sync.WaitGroup
	sem := make(chan struct{}, 8)
	v.workers = 4
	for _, t := range tasks {
		t := t
		wg.Add(1)
		go func() {
			defer wg.Done()
			sem <- struct{}{}
			defer func() { <-sem }()
			defer func() {
				if r := recover(); r != nil {
					mu.Lock()
					x := newExec(v, "", t.name, "")
					if os.Getenv("GOVC_DEBUG") != "" {
						fmt.Fprintf(os.Stderr, "PANIC %s: %v\n%s\n", t.name, r, debug.Stack())
					}
					x.bindingError("generator", fmt.Sprintf("internal error while generating VCs for %s: %v", t.name, r), "", 0)
					execs = append(execs, x)
					mu.Unlock()
				}
			}()
			xs := t.gen()
			mu.Lock()
			execs = append(execs, xs...)
			mu.Unlock()
		}()
	}
	wg.Wait()
	sort.Slice(execs, func(i, j int) bool {
		return execs[i].pkg+execs[i].name+execs[i].splitLabel < execs[j].pkg+execs[j].name+execs[j].splitLabel
	})
	genSecs := time.Since(t0).Seconds() - loadSecs

	var obs []*Obligation
	nRange := 0
	wrappedOps := 0
	for _, x := range execs {
		wrappedOps += x.wrapped
		for _, o := range x.obs {
			if o.Kind == "range" {
				nRange++
				continue
			}
			// every obligation of a function listed under the property counts (its post-conditions
			// are what callers verified under the same property assume), whatever the clause tags
			if obHasProp(o, *prop) || contains(x.funcProps, *prop) {
				obs = append(obs, o)
			}
		}
	}
	solveAll(obs, vcDir, timeout, thorough, 16)

	// classify
	isKnownCase := func(name, desc string) *KnownFinding {
		for i := range known.Findings {
			k := &known.Findings[i]
			if k.Property != *prop {
				continue
			}
			if k.Obligation == name || (strings.HasSuffix(k.Obligation, "*") && strings.HasPrefix(name, strings.TrimSuffix(k.Obligation, "*"))) {
				if k.Match != "" {
					// the region of a finding is matched against the failing case itself, not against the
					// per-test summary of all kinds that some tests append
					d := desc
					if i := strings.Index(d, " kinds="); i >= 0 {
						d = d[:i]
					}
					if i := strings.Index(d, " shrunk=["); i >= 0 {
						d = d[:i]
					}
					re, err := regexp.Compile(k.Match)
					if err != nil || !re.MatchString(d) {
						continue
					}
				}
				return k
			}
		}
		return nil
	}
	isKnown := func(name string) *KnownFinding { return isKnownCase(name, "") }
	byBackend := map[string]int{}
	solverSecs := 0.0
	discharged, total, covers, coverUnknown := 0, 0, 0, 0
	knownHit := map[string]bool{}
	var samples []map[string]any
	type slowOb struct {
		name string
		secs float64
		by   string
	}
	var slow []slowOb
	crossChecked := 0
	for _, o := range obs {
		solverSecs += o.Secs
		if o.CrossChecked {
			crossChecked++
		}
		if o.Expect != "sat" && o.Status == "proved" && o.Secs >= 8 {
			slow = append(slow, slowOb{o.Name, o.Secs, o.Solver})
		}
		if o.Expect == "sat" {
			covers++
			switch o.Status {
			case "cover-ok":
			case "cover-unknown":
				coverUnknown++
			default:
				p := writeObligationReplay(replayDir, o, ReplayResult{Outcome: "vacuity: the premises of this contract are unsatisfiable or no return is reachable"})
				violate(o.Name, p, false)
			}
			continue
		}
		total++
		if o.Status == "proved" {
			discharged++
			byBackend["smt:"+o.Solver]++
			if len(samples) < 6 && o.Solver != "trivial" {
				samples = append(samples, map[string]any{"obligation": o.Name, "kind": o.Kind, "at": o.Pos, "clause": o.Src, "verdict": "unsat (" + o.Solver + ")", "seconds": round3(o.Secs)})
			}
			continue
		}
		if k := isKnown(o.Name); k != nil {
			if !knownHit[k.Obligation] {
				knownHit[k.Obligation] = true
				fmt.Printf("KNOWN-FINDING: property=%s %s\n", *prop, k.What)
			}
			continue
		}
		rr := ReplayResult{Outcome: "no model"}
		if o.Status == "failed" && len(o.Model) > 0 {
			rr = v.replaySafety(o, replayDir)
		}
		p := writeObligationReplay(replayDir, o, rr)
		violate(o.Name, p, rr.Confirmed)
	}

	// bounded stand-ins
	var bounded []boundedResult
	boundedCases := 0
	if len(cfg.Bounded) > 0 {
		var problems []string
		seenBounded := map[string]bool{}
		bounded, problems = runBounded(*root, *verifDir, outBase, *prop, *tier, seed, cfg.Bounded)
		for _, b := range bounded {
			boundedCases += b.Cases
		}
		for _, pr := range problems {
			if k := isKnownCase("bounded:"+strings.SplitN(strings.TrimPrefix(pr, "bounded "), ":", 2)[0], pr); k != nil {
				if !knownHit[k.Obligation] {
					knownHit[k.Obligation] = true
					fmt.Printf("KNOWN-FINDING: property=%s %s\n", *prop, k.What)
				}
				continue
			}
			bname := "bounded"
			if strings.HasPrefix(pr, "bounded ") {
				bname = "bounded-" + strings.SplitN(strings.TrimPrefix(pr, "bounded "), ":", 2)[0]
			}
			if seenBounded[bname] {
				// one VIOLATION line per failing bounded test; further failing cases go into the same file
				appendSimpleReplay(outBase, *prop, bname, pr)
				continue
			}
			seenBounded[bname] = true
			p := writeSimpleReplay(outBase, *prop, bname, pr)
			violate("bounded", p, strings.HasPrefix(pr, "bounded "))
		}
	}
	// static back ends
	var staticRes []map[string]any
	for _, sname := range cfg.Static {
		if sname == "sweep" {
			res, probs, failed := v.sweepCheck(*verifDir, *prop, replayDir)
			staticRes = append(staticRes, res)
			if n, ok := res["obligations"].(int); ok {
				total += n
				d, _ := res["discharged"].(int)
				discharged += d
				byBackend["smt:z3-new(sweep)"] += d
			}
			for _, pr := range probs {
				p := writeSimpleReplay(outBase, *prop, "sweep-"+pr.Key, pr.Msg)
				violate("sweep", p, false)
			}
			for _, o := range failed {
				if k := isKnown(o.Name); k != nil {
					if !knownHit[k.Obligation] {
						knownHit[k.Obligation] = true
						fmt.Printf("KNOWN-FINDING: property=%s %s\n", *prop, k.What)
					}
					continue
				}
				// re-solve alone to obtain a model, then replay it
				o.Status = ""
				o.solve(vcDir, timeout, false)
				rr := ReplayResult{Outcome: "no model"}
				if o.Status == "proved" {
					// the batch run timed out but the obligation still holds
					discharged++
					continue
				}
				if len(o.Model) > 0 {
					rr = v.replaySafety(o, replayDir)
				}
				p := writeObligationReplay(replayDir, o, rr)
				violate(o.Name, p, rr.Confirmed)
			}
			continue
		}
		res, probs := v.runStatic(sname)
		staticRes = append(staticRes, res)
		if n, ok := res["obligations"].(int); ok {
			total += n
			d, _ := res["discharged"].(int)
			discharged += d
			byBackend["footprint:"+sname] += d
		}
		for _, pr := range probs {
			if k := isKnown("static:" + sname + ":" + pr.Key); k != nil {
				if !knownHit[k.Obligation] {
					knownHit[k.Obligation] = true
					fmt.Printf("KNOWN-FINDING: property=%s %s\n", *prop, k.What)
				}
				continue
			}
			p := writeSimpleReplay(outBase, *prop, "static-"+sname+"-"+pr.Key, pr.Msg)
			violate("static", p, false)
		}
	}
	if total == 0 && len(bounded) == 0 {
		p := writeSimpleReplay(outBase, *prop, "vacuity", "the check generated no obligations at all")
		violate("vacuity", p, false)
	}

	// evidence
	trusted := map[string]bool{}
	var unsupported, havocs, noVariant []string
	inlined := map[string]bool{}
	opaque := map[string]bool{}
	nosafety := map[string]bool{}
	for _, x := range execs {
		for k := range x.trusted {
			trusted[k] = true
		}
		for k := range x.inlined {
			inlined[k] = true
		}
		for _, u := range x.unsupported {
			unsupported = append(unsupported, x.name+": "+u)
		}
		for _, h := range x.havocAll {
			havocs = append(havocs, x.name+": "+h)
		}
		for _, oc := range x.opaqueCalls {
			opaque[x.name+" -> "+oc] = true
		}
		if x.skipSafety {
			nosafety[x.name] = true
		}
		noVariant = append(noVariant, x.noTerm...)
	}
	for k := range opaque {
		trusted["callee over-approximated by its static write set and arbitrary results (not inlined, no contract): "+k] = true
	}
	for k := range nosafety {
		trusted["panic-freedom of "+k+" is not part of its contract (directive nosafety): covered by the zero-annotation sweep of C08/C17 only as far as its baseline goes"] = true
	}
	var trustedList []string
	for k := range trusted {
		trustedList = append(trustedList, k)
	}
	sort.Strings(trustedList)
	for _, k := range sortedFuncKeys(v.contracts.Funcs) {
		fc := v.contracts.Funcs[k]
		if fc.Trusted && (taskHasProp(fc, *prop) || trusted["contract "+shortPkg(fc.Pkg)+"."+fc.Key]) {
			trustedList = append(trustedList, "assumed (trusted) contract: "+k)
		}
	}
	trustedBase := append([]string{"govc VC generator (/verif/govc): SSA semantics, memory model, arithmetic encoding", "solvers z3 5.1.0 / cvc5 1.0.3 / z3 4.8.12", "go/packages + go/ssa (x/tools v0.50.0)"}, trustedList...)
	assumptions := []string{
		"integers: mathematical Int with a proved range obligation per operation; operations whose range obligation is not proved are encoded with exact wrap-around (count in coverage.wrapped_ops)",
		"memory model: one SMT array per struct field / element type (Burstall); maps, channels, floats and strings are uninterpreted; 64-bit int; slices have cap <= 2^48",
		"not modelled: garbage collection, out-of-memory, goroutine scheduling, 32-bit platforms",
	}
	for _, u := range dedup(unsupported) {
		assumptions = append(assumptions, "outside subset (not proved): "+u)
	}
	for _, h := range dedup(havocs) {
		assumptions = append(assumptions, "unknown callee, everything havoced: "+h)
	}
	if len(noVariant) > 0 {
		assumptions = append(assumptions, fmt.Sprintf("termination not proved for %d loops without a decreases clause: %s", len(dedup(noVariant)), strings.Join(firstN(dedup(noVariant), 12), "; ")))
	}
	if cfg.Note != "" {
		assumptions = append(assumptions, cfg.Note)
	}
	for _, b := range bounded {
		assumptions = append(assumptions, fmt.Sprintf("BOUNDED stand-in (not counted as proved): %s over %s (%d cases)", b.Name, b.Domain, b.Cases))
	}
	var inl []string
	for k := range inlined {
		inl = append(inl, k)
	}
	sort.Strings(inl)
	sort.Slice(slow, func(i, j int) bool { return slow[i].secs > slow[j].secs })
	var slowList []map[string]any
	for i, so := range slow {
		if i >= 12 {
			break
		}
		slowList = append(slowList, map[string]any{"obligation": so.name, "solver_seconds_all_attempts": round3(so.secs), "decided_by": so.by})
		fmt.Printf("SLOW %s: %.1fs (%s)\n", so.name, so.secs, so.by)
	}
	cov := map[string]any{
		"obligations":                           total,
		"discharged":                            discharged,
		"checker_cmd":                           fmt.Sprintf("/verif/check %s %s", *prop, *tier),
		"trusted_base":                          trustedBase,
		"samples":                               samples,
		"explanation":                           fmt.Sprintf("Contract-based deductive verification: %d functions/pairs/lemmas under contract, %d obligations generated from the current /repo sources (SSA -> VC), %d discharged by SMT; %d model-soundness range obligations discharged separately; %d vacuity covers (%d undecided). Bounded stand-ins (not proofs): %d tests, %d cases.", len(funcsUnder), total, discharged, nRange, covers, coverUnknown, len(bounded), boundedCases),
		"functions_under_contract":              funcsUnder,
		"inlined_callees":                       inl,
		"discharged_by_backend":                 byBackend,
		"solver_seconds":                        round3(solverSecs),
		"slow_obligations":                      slowList,
		"cross_checked_by_second_solver_family": crossChecked,
		"range_obligations":                     nRange,
		"wrapped_ops":                           wrappedOps,
		"vacuity_covers":                        covers,
		"vacuity_covers_undecided":              coverUnknown,
		"bounded":                               bounded,
		"static":                                staticRes,
		"load_seconds":                          round3(loadSecs),
		"generate_seconds":                      round3(genSecs),
		"evaluations":                           total + boundedCases,
		"distinct_nontrivial":                   discharged + boundedCases,
		"rule":                                  "one evaluation per generated obligation (each a distinct named VC) plus one per bounded case; trivially-true goals are counted as discharged by back end 'trivial'",
	}
	if len(samples) == 0 {
		cov["samples"] = []map[string]any{{"note": "no SMT-discharged obligation in this run"}}
	}
	ev := map[string]any{
		"property_id": *prop,
		"tier":        *tier,
		"seed":        seed,
		"level":       cfg.Level,
		"coverage":    cov,
		"assumptions": assumptions,
		"wall_s":      round3(time.Since(t0).Seconds()),
		"violations":  len(violations),
	}
	os.MkdirAll(filepath.Join(outBase, "evidence"), 0o755)
	b, _ := json.MarshalIndent(ev, "", " ")
	os.WriteFile(filepath.Join(outBase, "evidence", *prop+".json"), b, 0o644)
	fmt.Printf("%s %s: %d/%d obligations discharged, %d range, %d covers, %d bounded cases, %d violations, %.1fs\n", *prop, *tier, discharged, total, nRange, covers, boundedCases, len(violations), time.Since(t0).Seconds())
	if len(violations) > 0 {
		os.Exit(1)
	}
}

func round3(f float64) float64 { return float64(int(f*1000)) / 1000 }

func dedup(xs []string) []string {
	seen := map[string]bool{}
	var out []string
	for _, x := range xs {
		if !seen[x] {
			seen[x] = true
			out = append(out, x)
		}
	}
	sort.Strings(out)
	return out
}

func firstN(xs []string, n int) []string {
	if len(xs) > n {
		return xs[:n]
	}
	return xs
}

func writeSimpleReplay(verifDir, prop, kind, msg string) string {
	dir := filepath.Join(verifDir, "replays", prop)
	os.MkdirAll(dir, 0o755)
	name := strings.NewReplacer("/", "_", " ", "_", ":", "_", "*", "p", "(", "", ")", "").Replace(kind)
	if len(name) > 120 {
		name = name[:120]
	}
	p := filepath.Join(dir, name+".json")
	b, _ := json.MarshalIndent(map[string]any{"property": prop, "obligation": kind, "verifier_output": msg}, "", " ")
	os.WriteFile(p, b, 0o644)
	return p
}

func appendSimpleReplay(verifDir, prop, kind, msg string) {
	dir := filepath.Join(verifDir, "replays", prop)
	name := strings.NewReplacer("/", "_", " ", "_", ":", "_", "*", "p", "(", "", ")", "").Replace(kind)
	if len(name) > 120 {
		name = name[:120]
	}
	p := filepath.Join(dir, name+".json")
	var m map[string]any
	if b, err := os.ReadFile(p); err == nil && json.Unmarshal(b, &m) == nil {
		more, _ := m["more_failing_cases"].([]any)
		m["more_failing_cases"] = append(more, msg)
		b, _ := json.MarshalIndent(m, "", " ")
		os.WriteFile(p, b, 0o644)
	}
}

func writeObligationReplay(dir string, o *Obligation, rr ReplayResult) string {
	os.MkdirAll(dir, 0o755)
	base := strings.NewReplacer("/", "_", ":", "_", "*", "p", "(", "", ")", "", " ", "", "[", "_", "]", "", ",", "_", "=", "", "#", "_").Replace(o.Name)
	if len(base) > 150 {
		base = base[:150]
	}
	p := filepath.Join(dir, base+".json")
	smt := ""
	if o.SMTPath != "" {
		// keep the query next to the replay
		dst := filepath.Join(dir, base+".smt2")
		if b, err := os.ReadFile(o.SMTPath); err == nil {
			os.WriteFile(dst, b, 0o644)
			smt = dst
		}
	}
	b, _ := json.MarshalIndent(map[string]any{
		"obligation": o.Name, "kind": o.Kind, "function": o.Pkg + ":" + o.Fn, "source": o.Pos, "clause": o.Src,
		"status": o.Status, "solver": o.Solver, "verifier_output": o.Output, "model": o.Model, "smt_query": smt, "replay": rr,
	}, "", " ")
	os.WriteFile(p, b, 0o644)
	return p
}

type staticProblem struct {
	Key string
	Msg string
}
