package main

// Static (footprint) back ends are added in footprint.go.

func (v *Verifier) runStatic(name string) (map[string]any, []staticProblem) {
	if f, ok := staticBackends[name]; ok {
		return f(v)
	}
	return map[string]any{"name": name, "error": "unknown static back end"}, []staticProblem{{Key: "unknown", Msg: "unknown static back end " + name}}
}

var staticBackends = map[string]func(v *Verifier) (map[string]any, []staticProblem){}
