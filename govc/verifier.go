package main

import (
	"encoding/json"
	"fmt"
	"go/ast"
	"go/token"
	"go/types"
	"os"
	"path/filepath"
	"sort"
	"strings"
	"sync"

	"golang.org/x/tools/go/packages"
	"golang.org/x/tools/go/ssa"
	"golang.org/x/tools/go/ssa/ssautil"
)

type Verifier struct {
	fset         *token.FileSet
	prog         *ssa.Program
	pkgs         []*packages.Package
	typesInfo    map[string]*types.Info
	contracts    *Contracts
	modPath      string
	root         string
	funcs        map[string]*ssa.Function // "pkgpath:key"
	loadErrs     []string
	vcDir        string
	rangeTimeout int
	workers      int
	maxPasses    int
	rangeMS      int
	funcs2       map[string]*ssa.Function // lifted-form SSA (footprint back ends)
	sentinelErr  map[string]bool          // "G:pkg.Name" of error variables that are provably never nil
	prewrap      map[string][]string      // baseline/prewrap_contracts.json: task id -> stable site keys
	prewrapOut   map[string][]string      // collected by `govc prewrap -update`
	prewrapMu    sync.Mutex
	prog2        *ssa.Program
}

func (v *Verifier) rangeTimeoutMS() int {
	if v.rangeMS > 0 {
		return v.rangeMS
	}
	return v.rangeTimeout * 1000
}

func loadVerifier(root string) (*Verifier, error) {
	cfg := &packages.Config{Mode: packages.LoadAllSyntax | packages.NeedModule, Dir: root, BuildFlags: []string{"-tags=verif"}}
	pkgs, err := packages.Load(cfg, "./...")
	if err != nil {
		return nil, err
	}
	v := &Verifier{typesInfo: map[string]*types.Info{}, funcs: map[string]*ssa.Function{}, root: root, vcDir: "/verif/out/vc/range", rangeTimeout: 3, workers: 16}
	for _, p := range pkgs {
		for _, e := range p.Errors {
			v.loadErrs = append(v.loadErrs, e.Error())
		}
	}
	if len(pkgs) == 0 {
		return nil, fmt.Errorf("no packages loaded")
	}
	v.fset = pkgs[0].Fset
	prog, _ := ssautil.AllPackages(pkgs, ssa.NaiveForm|ssa.GlobalDebug|ssa.InstantiateGenerics)
	prog.Build()
	v.prog = prog
	v.pkgs = pkgs
	for _, p := range pkgs {
		if p.Module != nil && v.modPath == "" {
			v.modPath = p.Module.Path
		}
	}
	packages.Visit(pkgs, nil, func(p *packages.Package) {
		if p.TypesInfo != nil {
			v.typesInfo[p.PkgPath] = p.TypesInfo
		}
	})
	for fn := range ssautil.AllFunctions(prog) {
		pp := funcPkgPath(fn)
		if pp == "" || !strings.HasPrefix(pp, v.modPath) {
			continue
		}
		if fn.Parent() != nil || fn.Synthetic != "" {
			continue
		}
		v.funcs[pp+":"+funcKey(fn)] = fn
	}
	v.contracts = loadContracts(root, v.modPath)
	v.sentinelErr = sentinelErrors(prog)
	v.loadPrewrap("/verif")
	return v, nil
}

// sentinelErrors finds package-level variables of type error that are only ever assigned in their
// own package initialiser, from errors.New / fmt.Errorf or a conversion of a concrete value
// (io.EOF, ErrInvalidDHT, ...): reading one yields a non-nil error.  Derived from the SSA of the
// whole program (dependencies included) on every run, not assumed.
func sentinelErrors(prog *ssa.Program) map[string]bool {
	type rec struct{ ok bool }
	seen := map[*ssa.Global]*rec{}
	for fn := range ssautil.AllFunctions(prog) {
		for _, b := range fn.Blocks {
			for _, ins := range b.Instrs {
				st, ok := ins.(*ssa.Store)
				if !ok {
					continue
				}
				g, ok := st.Addr.(*ssa.Global)
				if !ok {
					continue
				}
				if _, isIface := deref(g.Type()).Underlying().(*types.Interface); !isIface {
					continue
				}
				r := seen[g]
				if r == nil {
					r = &rec{ok: true}
					seen[g] = r
				}
				good := false
				if fn.Pkg == g.Pkg && fn.Name() == "init" && fn.Parent() == nil {
					switch val := st.Val.(type) {
					case *ssa.MakeInterface:
						if _, isPtr := val.X.Type().Underlying().(*types.Pointer); !isPtr {
							good = true
						} else if _, isAlloc := val.X.(*ssa.Alloc); isAlloc {
							good = true
						}
					case *ssa.Call:
						if callee := val.Call.StaticCallee(); callee != nil && callee.Pkg != nil {
							pn := callee.Pkg.Pkg.Path() + "." + callee.Name()
							if pn == "errors.New" || pn == "fmt.Errorf" {
								good = true
							}
						}
					}
				}
				if !good {
					r.ok = false
				}
			}
		}
	}
	out := map[string]bool{}
	for g, r := range seen {
		if r.ok && deref(g.Type()).String() == "error" {
			out["G:"+globalName(g)] = true
		}
	}
	return out
}

var lineCache = map[string][]string{}
var lineMu sync.Mutex

// lineText returns the trimmed source line at pos (used for edit-stable obligation names).
func (v *Verifier) lineText(pos token.Pos) string {
	if !pos.IsValid() {
		return "?"
	}
	p := v.fset.Position(pos)
	lineMu.Lock()
	defer lineMu.Unlock()
	ls, ok := lineCache[p.Filename]
	if !ok {
		b, err := os.ReadFile(p.Filename)
		if err == nil {
			ls = strings.Split(string(b), "\n")
		}
		lineCache[p.Filename] = ls
	}
	if p.Line-1 < len(ls) && p.Line >= 1 {
		t := strings.Join(strings.Fields(ls[p.Line-1]), " ")
		if i := strings.Index(t, "//"); i > 0 {
			t = strings.TrimSpace(t[:i])
		}
		if len(t) > 90 {
			t = t[:90]
		}
		return t
	}
	return "?"
}

// initialState creates symbolic parameters and an unconstrained heap.
func (x *Exec) initialState(fn *ssa.Function, prefix string) (*State, []Val) {
	st := &State{cells: map[*ssa.Alloc]Val{}, mem: map[string]string{}, epoch: "0", pc: "true", nm: prefix}
	var params []Val
	var facts []string
	for _, p := range fn.Params {
		ls := leavesOf(p.Type())
		v := Val{Typ: p.Type()}
		for i, l := range ls {
			name := prefix + "p_" + p.Name() + sanitize(l.Path)
			c := x.declare(name, l.smtSort(0))
			x.paramNames = append(x.paramNames, c)
			v.L = append(v.L, c)
			if l.Dims > 0 {
				continue
			}
			switch l.Kind {
			case lkScalar:
				if lo, hi, ok := intBounds(l.Typ); ok {
					facts = append(facts, "(<= "+lo+" "+c+")", "(<= "+c+" "+hi+")")
				}
			case lkRef, lkSliceArr:
				facts = append(facts, "(<= 0 "+c+")", "(< "+c+" "+fmt.Sprint(int64(1)<<40)+")")
			case lkSliceOff, lkSliceLen:
				facts = append(facts, "(<= 0 "+c+")")
			case lkSliceCap:
				facts = append(facts, "(<= "+v.L[i-1]+" "+c+")", "(<= "+c+" "+maxAlloc+")")
			}
		}
		if _, ok := p.Type().Underlying().(*types.Slice); ok && len(v.L) == 4 {
			facts = append(facts, "(=> (= "+v.L[0]+" 0) (= "+v.L[3]+" 0))")
		}
		params = append(params, v)
	}
	x.assume(st, smtAnd(facts...))
	return st, params
}

type FuncResult struct {
	Key         string
	Pkg         string
	Execs       []*Exec
	Unsupported []string
}

func (v *Verifier) splitCombos(splits []Split) [][]int64 {
	combos := [][]int64{{}}
	for _, sp := range splits {
		var next [][]int64
		for _, c := range combos {
			for k := sp.Lo; k <= sp.Hi; k++ {
				next = append(next, append(append([]int64{}, c...), k))
			}
		}
		combos = next
	}
	return combos
}

// rootSide returns "l" or "r" when e is an access path rooted at that pair side.
// refsGlobal: does fn's body mention the package-level variable pkg.name?
func refsGlobal(fn *ssa.Function, pkg, name string) bool {
	for _, b := range fn.Blocks {
		for _, in := range b.Instrs {
			for _, op := range in.Operands(nil) {
				if op == nil || *op == nil {
					continue
				}
				if g, ok := (*op).(*ssa.Global); ok && g.Name() == name && g.Pkg != nil && g.Pkg.Pkg.Path() == pkg {
					return true
				}
			}
		}
	}
	return false
}

func rootSide(e ast.Expr) string {
	switch t := e.(type) {
	case *ast.SelectorExpr:
		if id, ok := t.X.(*ast.Ident); ok && (id.Name == "l" || id.Name == "r") {
			return id.Name
		}
		return rootSide(t.X)
	case *ast.IndexExpr:
		return rootSide(t.X)
	case *ast.ParenExpr:
		return rootSide(t.X)
	case *ast.StarExpr:
		return rootSide(t.X)
	}
	return ""
}

func (x *Exec) addSubst(term, lit string) {
	if isLiteral(term) {
		return
	}
	if x.subst == nil {
		x.subst = map[string]string{}
	}
	x.subst[term] = lit
}

// stabilize runs gen until no range obligation fails: sites whose result cannot be proved to stay
// within the range of their type are re-encoded with exact wrap-around semantics.
func (v *Verifier) stabilize(gen func(mustWrap map[string]bool) *Exec) *Exec {
	mustWrap := map[string]bool{}
	var x *Exec
	maxPass := 6
	if v.maxPasses > 0 {
		maxPass = v.maxPasses
	}
	record := func(x *Exec) {
		if v.prewrapOut == nil {
			return
		}
		var keys []string
		for k := range x.preWrap2 {
			keys = append(keys, k)
		}
		for k := range mustWrap {
			if k2, ok := x.siteKey2[k]; ok {
				keys = append(keys, k2)
			}
		}
		sortStrings(keys)
		v.prewrapMu.Lock()
		v.prewrapOut[x.pkg+":"+x.name+"|"+x.splitLabel] = keys
		v.prewrapMu.Unlock()
	}
	for pass := 0; pass < maxPass; pass++ {
		x = gen(mustWrap)
		var ranges []*Obligation
		for _, o := range x.obs {
			if o.Kind == "range" {
				ranges = append(ranges, o)
			}
		}
		if len(ranges) == 0 {
			record(x)
			return x
		}
		solveBatch(ranges, v.vcDir, v.rangeTimeoutMS())
		n := 0
		for _, o := range ranges {
			if o.Status != "proved" {
				mustWrap[o.site] = true
				n++
			}
		}
		if n == 0 {
			record(x)
			return x
		}
	}
	// did not stabilise: wrap every site
	x = gen(map[string]bool{"*": true})
	return x
}

// loadPrewrap reads the committed list of arithmetic sites that are known, on the pinned tree, not
// to admit a no-overflow proof.  Using it only skips the attempt: wrap-around is the exact Go
// semantics, so pre-wrapping a site can never make a proof unsound.
func (v *Verifier) loadPrewrap(verifDir string) {
	b, err := os.ReadFile(filepath.Join(verifDir, "baseline", "prewrap_contracts.json"))
	if err != nil {
		return
	}
	m := map[string][]string{}
	if json.Unmarshal(b, &m) == nil {
		v.prewrap = m
	}
}

func (v *Verifier) prewrapFor(x *Exec) {
	if v.prewrap == nil || v.prewrapOut != nil {
		return
	}
	if ks, ok := v.prewrap[x.pkg+":"+x.name+"|"+x.splitLabel]; ok {
		x.preWrap2 = map[string]bool{}
		for _, k := range ks {
			x.preWrap2[k] = true
		}
	}
}

// stabilizeNames is stabilize that also reports the names of the range obligations that had to be
// re-encoded with wrap-around (recorded in the sweep baseline).
func (v *Verifier) stabilizeNames(gen func(mustWrap map[string]bool) *Exec, names *[]string) *Exec {
	mustWrap := map[string]bool{}
	var x *Exec
	maxPass := 6
	if v.maxPasses > 0 {
		maxPass = v.maxPasses
	}
	for pass := 0; pass < maxPass; pass++ {
		x = gen(mustWrap)
		var ranges []*Obligation
		for _, o := range x.obs {
			if o.Kind == "range" {
				ranges = append(ranges, o)
			}
		}
		if len(ranges) == 0 {
			return x
		}
		solveBatch(ranges, v.vcDir, v.rangeTimeoutMS())
		n := 0
		for _, o := range ranges {
			if o.Status != "proved" {
				mustWrap[o.site] = true
				if pass == 0 {
					// only first-pass names are stable (later passes renumber after wrapped sites vanish)
					*names = append(*names, o.Name)
				}
				n++
			}
		}
		if n == 0 {
			return x
		}
	}
	x = gen(map[string]bool{"*": true})
	return x
}

// verifyFunc generates all obligations of one function under contract.
func (v *Verifier) verifyFunc(fc *FuncContract) []*Exec {
	fn := v.funcs[fc.Pkg+":"+fc.Key]
	if fn == nil {
		x := newExec(v, fc.Pkg, fc.Key, "")
		x.bindingError("func "+fc.Key, "no such function in package "+fc.Pkg, fc.File, fc.Line)
		return []*Exec{x}
	}
	if fc.Trusted {
		return nil
	}
	var out []*Exec
	for _, combo := range v.splitCombos(fc.Splits) {
		combo := combo
		out = append(out, v.stabilize(func(mw map[string]bool) *Exec { return v.genFunc(fc, fn, combo, mw) }))
	}
	return out
}

func (v *Verifier) genFunc(fc *FuncContract, fn *ssa.Function, combo []int64, mustWrap map[string]bool) *Exec {
	x := newExec(v, fc.Pkg, fc.Key, "")
	x.funcProps = fc.Props
	x.skipSafety = fc.NoSafety
	x.mustWrap = mustWrap
	for _, r := range fc.Reveal {
		x.reveal[r] = true
	}
	var labels []string
	for i, sp := range fc.Splits {
		labels = append(labels, fmt.Sprintf("%s=%d", sp.Var, combo[i]))
	}
	x.splitLabel = strings.Join(labels, ",")
	v.prewrapFor(x)
	st, params := x.initialState(fn, "")
	fr := &Frame{fn: fn, fc: fc, vals: map[ssa.Value]Val{}, params: params, top: true, propTags: fc.Props, edgePC: map[[2]*ssa.BasicBlock]string{}}
	for i, p := range fn.Params {
		fr.vals[p] = params[i]
	}
	fr.entry = st
	env := x.frameEnv(fr, st, token.NoPos)
	for i, sp := range fc.Splits {
		e, err := parseExprSrc(sp.Var)
		if err != nil {
			x.bindingError("split "+sp.Var, err.Error(), fc.File, fc.Line)
			continue
		}
		t, err := x.specInt(env, e)
		if err != nil {
			x.bindingError("split "+sp.Var, err.Error(), fc.File, fc.Line)
			continue
		}
		x.assume(st, "(= "+t+" "+smtInt(combo[i])+")")
		x.addSubst(t, smtInt(combo[i]))
	}
	for _, r := range fc.Requires {
		t, err := x.specBool(env, r.Expr)
		if err != nil {
			x.bindingError(fmt.Sprintf("requires %q", r.Src), err.Error(), r.File, r.Line)
			continue
		}
		x.assume(st, t)
	}
	// invariants of package-level tables (established by init, checked by constant evaluation,
	// write-protected by the C18 footprint obligation)
	for _, gi := range v.contracts.Globals {
		genv := env
		if gi.Pkg != fc.Pkg {
			// a table of another package: assumed where the function body reads it directly
			if !refsGlobal(fn, gi.Pkg, gi.Name) {
				continue
			}
			var anyFn *ssa.Function
			for k, f := range v.funcs {
				if strings.HasPrefix(k, gi.Pkg+":") {
					anyFn = f
					break
				}
			}
			if anyFn == nil {
				continue
			}
			ge := *env
			ge.fn = anyFn
			ge.fr = nil
			ge.vars = map[string]Val{}
			genv = &ge
		}
		t, err := x.specBool(genv, gi.Clause.Expr)
		if err != nil {
			x.bindingError(fmt.Sprintf("global invariant %q", gi.Clause.Src), err.Error(), gi.Clause.File, gi.Clause.Line)
			continue
		}
		x.assume(st, t)
		x.trusted["global invariant of "+shortPkg(gi.Pkg)+"."+gi.Name+" (consteval back end): "+gi.Clause.Src] = true
	}
	fr.entry = st.clone()
	x.observeParams(fn, fr.entry, params)
	// vacuity: the pre-condition must be satisfiable
	o := x.oblige(st, "cover-pre", []string{"*"}, fn.Pos(), "false", "pre-condition satisfiable")
	o.Expect = "sat"
	work := st.clone()
	exit, _ := x.runFunc(fr, work)
	if exit != nil && exit.pc != "false" {
		o := x.oblige(exit, "cover-exit", []string{"*"}, fn.Pos(), "false", "some return is reachable under the pre-condition")
		o.Expect = "sat"
	} else {
		x.unsup("no reachable return in %s", fc.Key)
	}
	return x
}

type side struct {
	fn         *ssa.Function
	fr         *Frame
	st         *State
	params     []Val
	prefix     string
	loop       int  // > 0: only one iteration of this loop is executed
	byContract bool // the side is represented by its (separately verified) contract, not its body
	regionExit *State
}

// splitLoopSpec splits "KEY loop N" into (KEY, N).
func splitLoopSpec(s string) (string, int) {
	f := strings.Fields(s)
	if len(f) >= 3 && f[len(f)-2] == "loop" {
		var n int
		if _, err := fmt.Sscanf(f[len(f)-1], "%d", &n); err == nil {
			return strings.Join(f[:len(f)-2], " "), n
		}
	}
	return s, 0
}

// initSide creates the symbolic inputs of one side of a pair lemma.
func (x *Exec) initSide(v *Verifier, pkg, key, prefix string, assumeReq bool, heapNm string) (*side, error) {
	byContract := false
	if f := strings.Fields(key); len(f) >= 2 && f[len(f)-1] == "contract" {
		byContract = true
		key = strings.Join(f[:len(f)-1], " ")
	}
	key, loopN := splitLoopSpec(key)
	fn := v.funcs[pkg+":"+key]
	if fn == nil {
		return nil, fmt.Errorf("no function %s in %s", key, pkg)
	}
	x.prefix = prefix
	defer func() { x.prefix = "" }()
	st, params := x.initialState(fn, prefix)
	if heapNm != "" {
		// sequential composition: this side reads the heap the other side starts from
		st.nm = heapNm
	}
	fc := v.contracts.Funcs[pkg+":"+key]
	fr := &Frame{fn: fn, fc: fc, vals: map[ssa.Value]Val{}, params: params, top: false, edgePC: map[[2]*ssa.BasicBlock]string{}}
	for i, p := range fn.Params {
		fr.vals[p] = params[i]
	}
	if byContract && fc == nil {
		return nil, fmt.Errorf("side %s is used by contract but has none", key)
	}
	env0 := x.frameEnv(fr, st, token.NoPos)
	if fc != nil && assumeReq {
		for _, r := range fc.Requires {
			t, err := x.specBool(env0, r.Expr)
			if err == nil {
				x.assume(st, t)
			}
		}
	}
	sd := &side{fn: fn, fr: fr, st: st, params: params, prefix: prefix, loop: loopN, byContract: byContract}
	if loopN > 0 {
		// the region's start state must exist before the premises are evaluated (they mention locals)
		x.prefix = prefix
		if err := x.prepareLoopBody(fr, loopN, st); err != nil {
			return nil, err
		}
	}
	return sd, nil
}

func (sd *side) env(x *Exec, st, old *State, results []Val) *Env {
	env := &Env{x: x, fn: sd.fn, vars: map[string]Val{}, oldVars: map[string]Val{}, st: st, old: old, post: true, results: results}
	if sd.loop > 0 {
		env.fr = sd.fr
		env.regionSide = true
		if sd.fr.region != nil {
			env.pos = sd.fr.region.pos
		}
	}
	for i, p := range sd.fn.Params {
		env.vars[p.Name()] = sd.params[i]
		env.oldVars[p.Name()] = sd.params[i]
	}
	return env
}

func splitPkgKey(defPkg, s, mod string) (string, string) {
	if i := strings.Index(s, ":"); i >= 0 {
		p := s[:i]
		if !strings.HasPrefix(p, mod) {
			p = mod + "/" + p
		}
		return p, s[i+1:]
	}
	return defPkg, s
}

func (v *Verifier) verifyPair(p *Pair) []*Exec {
	var out []*Exec
	for _, combo := range v.splitCombos(p.Splits) {
		combo := combo
		out = append(out, v.stabilize(func(mw map[string]bool) *Exec { return v.genPair(p, combo, mw) }))
	}
	return out
}

func (v *Verifier) genPair(p *Pair, combo []int64, mustWrap map[string]bool) *Exec {
	x := newExec(v, p.Pkg, "pair:"+p.Name, "")
	x.noSafety = true
	x.mustWrap = mustWrap
	for _, r := range p.Reveal {
		x.reveal[r] = true
	}
	var labels []string
	for i, sp := range p.Splits {
		labels = append(labels, fmt.Sprintf("%s=%d", sp.Var, combo[i]))
	}
	x.splitLabel = strings.Join(labels, ",")
	v.prewrapFor(x)
	lp, lk := splitPkgKey(p.Pkg, p.Left, v.modPath)
	rp, rk := splitPkgKey(p.Pkg, p.Right, v.modPath)
	ls, err := x.initSide(v, lp, lk, "l_", true, "")
	if err != nil {
		x.bindingError("pair left "+p.Left, err.Error(), p.File, p.Line)
		return x
	}
	rheap := ""
	if p.Sequential {
		rheap = "l_"
	}
	rs, err := x.initSide(v, rp, rk, "r_", !p.Sequential, rheap)
	if err != nil {
		x.bindingError("pair right "+p.Right, err.Error(), p.File, p.Line)
		return x
	}
	x.inlined[lp+":"+lk] = true
	x.inlined[rp+":"+rk] = true
	// premises over the entry states are assumed on both sides before execution
	pre := &State{cells: map[*ssa.Alloc]Val{}, mem: map[string]string{}, epoch: "P", pc: smtAnd(ls.st.pc, rs.st.pc)}
	env := &Env{x: x, sides: map[string]*Env{"l": ls.env(x, ls.st, ls.st, nil), "r": rs.env(x, rs.st, rs.st, nil)}, vars: map[string]Val{}, st: pre, old: pre}
	env.inOld = true
	for i, sp := range p.Splits {
		e, err := parseExprSrc(sp.Var)
		if err != nil {
			x.bindingError("split "+sp.Var, err.Error(), p.File, p.Line)
			continue
		}
		t, err := x.specInt(env, e)
		if err != nil {
			x.bindingError("split "+sp.Var, err.Error(), p.File, p.Line)
			continue
		}
		x.assume(pre, "(= "+t+" "+smtInt(combo[i])+")")
		x.addSubst(t, smtInt(combo[i]))
	}
	var later, feeds []*Clause
	for _, a := range p.Assumes {
		if a.hasTag("post") {
			later = append(later, a)
			continue
		}
		if a.hasTag("feed") {
			feeds = append(feeds, a)
			continue
		}
		t, err := x.specBool(env, a.Expr)
		if err != nil {
			x.bindingError(fmt.Sprintf("pair assume %q", a.Src), err.Error(), a.File, a.Line)
			continue
		}
		x.assume(pre, t)
		// equalities between a right-side input and a left-side input additionally identify the two
		// symbols (the right side then computes over the left side's names: congruence for free)
		for _, c := range conjuncts(a.Expr) {
			// a premise that is a bare Boolean input (l.even, !r.even) fixes that input
			neg := false
			ce := c
			if ue, ok := ce.(*ast.UnaryExpr); ok && ue.Op == token.NOT {
				neg, ce = true, ue.X
			}
			if rootSide(ce) != "" {
				if bv, err := x.spec(env, ce); err == nil && len(bv.L) == 1 && isBoolType(bv.Typ) && isAtom(bv.L[0]) {
					if neg {
						x.addSubst(bv.L[0], "false")
					} else {
						x.addSubst(bv.L[0], "true")
					}
					continue
				}
			}
			be, ok := c.(*ast.BinaryExpr)
			if !ok || be.Op != token.EQL {
				continue
			}
			lhs, rhs := be.X, be.Y
			if rootSide(rhs) != "r" {
				lhs, rhs = rhs, lhs
			}
			if rootSide(rhs) != "r" || rootSide(lhs) != "l" {
				continue
			}
			lv, e1 := x.spec(env, lhs)
			rv, e2 := x.spec(env, rhs)
			if e1 != nil || e2 != nil || len(lv.L) != len(rv.L) || len(lv.L) == 0 {
				continue
			}
			for k := range lv.L {
				if lv.L[k] != rv.L[k] {
					x.addSubst(rv.L[k], lv.L[k])
				}
			}
		}
	}
	// a right-side parameter identified with a left-side term is replaced by it outright
	for _, rs := range []*side{ls, rs} {
		if len(x.subst) == 0 {
			break
		}
		for i := range rs.params {
			pv := rs.params[i]
			changed := false
			nl := append([]string{}, pv.L...)
			for k, t := range nl {
				if lit, ok := x.subst[t]; ok {
					nl[k] = lit
					changed = true
				}
			}
			if changed {
				pv.L = nl
				rs.params[i] = pv
				rs.fr.params[i] = pv
				rs.fr.vals[rs.fn.Params[i]] = pv
			}
		}
	}
	ls.st.pc = pre.pc
	rs.st.pc = pre.pc
	run := func(sd *side) (*State, *State, []Val) {
		x.prefix = sd.prefix
		defer func() { x.prefix = "" }()
		sd.fr.entry = sd.st.clone()
		if sd.loop > 0 {
			exit, err := x.runLoopBody(sd.fr, sd.st.clone())
			if err != nil {
				x.bindingError("pair side "+sd.fn.Name(), err.Error(), p.File, p.Line)
				dead := sd.st.clone()
				dead.pc = "false"
				return sd.fr.entry, dead, nil
			}
			return sd.fr.entry, exit, nil
		}
		if sd.byContract {
			exit := sd.st.clone()
			results := x.applyContractR(sd.fr, exit, sd.fn, sd.fr.fc, sd.params, token.NoPos)
			return sd.fr.entry, exit, results
		}
		exit, results := x.runFunc(sd.fr, sd.st.clone())
		return sd.fr.entry, exit, results
	}
	lentry, lexit, lres := run(ls)
	// assume[feed] r.<param> == <expression over the left side's exit state>: the right side's
	// argument IS that value (e.g. the slice the left side returned), not merely equal to it
	for _, a := range feeds {
		be, ok := a.Expr.(*ast.BinaryExpr)
		var pname string
		if ok && be.Op == token.EQL {
			if se, ok2 := be.X.(*ast.SelectorExpr); ok2 {
				if id, ok3 := se.X.(*ast.Ident); ok3 && id.Name == "r" {
					pname = se.Sel.Name
				}
			}
		}
		if pname == "" || !p.Sequential {
			x.bindingError(fmt.Sprintf("pair assume[feed] %q", a.Src), "expected r.<parameter> == <expression> in a sequential pair", a.File, a.Line)
			continue
		}
		envF := &Env{x: x, sides: map[string]*Env{"l": ls.env(x, lexit, lentry, lres)}, vars: map[string]Val{}, st: lexit, old: lexit, post: true}
		val, err := x.spec(envF, be.Y)
		if err != nil {
			x.bindingError(fmt.Sprintf("pair assume[feed] %q", a.Src), err.Error(), a.File, a.Line)
			continue
		}
		found := false
		for i, prm := range rs.fn.Params {
			if prm.Name() == pname && i < len(rs.params) && len(val.L) == len(rs.params[i].L) {
				val.Typ = rs.params[i].Typ
				rs.params[i] = val
				rs.fr.params[i] = val
				rs.fr.vals[prm] = val
				found = true
			}
		}
		if !found {
			x.bindingError(fmt.Sprintf("pair assume[feed] %q", a.Src), "no such parameter on the right side (or shape mismatch)", a.File, a.Line)
		}
	}
	if p.Sequential {
		// composition: the right side starts in the left side's exit state; its pre-condition is
		// an obligation there, not a premise
		nst := lexit.clone()
		nst.cells = rs.st.cells
		nst.pc = smtAnd(lexit.pc, rs.st.pc)
		rs.st = nst
		if rs.fr.fc != nil {
			env0 := &Env{x: x, vars: map[string]Val{}, st: nst, old: nst, fn: rs.fn}
			for i, prm := range rs.fn.Params {
				env0.vars[prm.Name()] = rs.params[i]
			}
			env0.oldVars = env0.vars
			for _, r := range rs.fr.fc.Requires {
				t, err := x.specBool(env0, r.Expr)
				if err != nil {
					x.bindingError(fmt.Sprintf("requires %q of %s", r.Src, rs.fn.Name()), err.Error(), r.File, r.Line)
					continue
				}
				var tags []string
				for _, a := range p.Asserts {
					tags = append(tags, a.Tags...)
				}
				o := x.oblige(nst, "pair-pre", tags, token.NoPos, t, rs.fn.Name()+": "+r.Src)
				o.Pos = fmt.Sprintf("%s:%d", p.File, p.Line)
				o.Timeout = p.Timeout
				x.assume(nst, t)
			}
		}
	}
	rentry, rexit, rres := run(rs)
	st := &State{cells: map[*ssa.Alloc]Val{}, mem: map[string]string{}, epoch: "P", pc: smtAnd(lexit.pc, rexit.pc)}
	env2 := &Env{x: x, sides: map[string]*Env{"l": ls.env(x, lexit, lentry, lres), "r": rs.env(x, rexit, rentry, rres)}, vars: map[string]Val{}, st: st, old: st, post: true}
	for _, a := range later {
		t, err := x.specBool(env2, a.Expr)
		if err != nil {
			x.bindingError(fmt.Sprintf("pair assume %q", a.Src), err.Error(), a.File, a.Line)
			continue
		}
		x.assume(st, t)
	}
	o := x.oblige(st, "cover-pair", []string{"*"}, token.NoPos, "false", "pair premises satisfiable with both exits reachable")
	o.Expect = "sat"
	o.Pos = fmt.Sprintf("%s:%d", p.File, p.Line)
	for _, a := range p.Asserts {
		t, err := x.specBool(env2, a.Expr)
		if err != nil {
			x.bindingError(fmt.Sprintf("pair assert %q", a.Src), err.Error(), a.File, a.Line)
			continue
		}
		o := x.oblige(st, "pair", a.Tags, token.NoPos, t, a.Src)
		o.Pos = fmt.Sprintf("%s:%d", a.File, a.Line)
		o.Timeout = p.Timeout
		// later assertions may use earlier ones (each is an obligation of its own)
		x.assume(st, t)
	}
	return x
}

func (v *Verifier) verifyLemma(l *Lemma) []*Exec {
	var out []*Exec
	for _, combo := range v.splitCombos(l.Splits) {
		x := newExec(v, l.Pkg, "lemma:"+l.Name, "")
		for _, r := range l.Reveal {
			x.reveal[r] = true
		}
		var labels []string
		for i, sp := range l.Splits {
			labels = append(labels, fmt.Sprintf("%s=%d", sp.Var, combo[i]))
		}
		x.splitLabel = strings.Join(labels, ",")
		st := &State{cells: map[*ssa.Alloc]Val{}, mem: map[string]string{}, epoch: "M", pc: "true"}
		env := &Env{x: x, vars: map[string]Val{}, bound: map[string]string{}, st: st, noFacts: true}
		for _, name := range l.Vars {
			env.bound[name] = x.declare("v_"+name, "Int")
			x.paramNames = append(x.paramNames, quoteSym("v_"+name))
		}
		for i, sp := range l.Splits {
			if s, ok := env.bound[sp.Var]; ok {
				x.assume(st, "(= "+s+" "+smtInt(combo[i])+")")
			} else {
				x.bindingError("split "+sp.Var, "not a lemma variable", l.File, l.Line)
			}
		}
		for _, a := range l.Assumes {
			t, err := x.specBool(env, a.Expr)
			if err != nil {
				x.bindingError(fmt.Sprintf("lemma assume %q", a.Src), err.Error(), a.File, a.Line)
				continue
			}
			x.assume(st, t)
		}
		o := x.oblige(st, "cover-lemma", []string{"*"}, token.NoPos, "false", "lemma premises satisfiable")
		o.Expect = "sat"
		o.Pos = fmt.Sprintf("%s:%d", l.File, l.Line)
		for _, a := range l.Asserts {
			t, err := x.specBool(env, a.Expr)
			if err != nil {
				x.bindingError(fmt.Sprintf("lemma assert %q", a.Src), err.Error(), a.File, a.Line)
				continue
			}
			o := x.oblige(st, "lemma", a.Tags, token.NoPos, t, a.Src)
			o.Pos = fmt.Sprintf("%s:%d", a.File, a.Line)
		}
		out = append(out, x)
	}
	return out
}

func sortedFuncKeys(m map[string]*FuncContract) []string {
	var ks []string
	for k := range m {
		ks = append(ks, k)
	}
	sort.Strings(ks)
	return ks
}

func fatal(format string, a ...any) {
	fmt.Fprintf(os.Stderr, format+"\n", a...)
	os.Exit(2)
}
