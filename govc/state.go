package main

import (
	"fmt"
	"go/types"
	"sort"
	"strings"

	"golang.org/x/tools/go/ssa"
)

// Step is one navigation step inside an aggregate.
type Step struct {
	Field int
	Idx   string
	IsIdx bool
}

type locKind int

const (
	locLocal locKind = iota // non-escaping local variable (cell held in State.cells)
	locMem                  // heap object / slice element / global (component arrays in State.mem)
)

// Loc is a statically structured address.
type Loc struct {
	Kind  locKind
	Alloc *ssa.Alloc
	Key   string   // component key prefix ("S:<type>", "E:<elemtype>", "G:<pkg.name>")
	Lead  []string // leading index terms: heap [ref]; slice element [arr, idx]; global []
	RootT types.Type
	Steps []Step
	T     types.Type // type of the pointee
}

func (l *Loc) extend(s Step, t types.Type) *Loc {
	n := *l
	n.Steps = append(append([]Step{}, l.Steps...), s)
	n.T = t
	return &n
}

// Val is a symbolic Go value: one SMT term per leaf of its type.
type Val struct {
	Typ    types.Type
	L      []string
	Loc    *Loc          // for pointer values whose target is known structurally
	Dyn    *Val          // interface values: the dynamic value when statically known
	Fn     *ssa.Function // function values with a statically known body
	Binds  []Val         // closure bindings
	Tuple  []Val         // tuple values (multi-result calls, comma-ok forms)
	NonNil bool          // reference known to be non-nil
	Str    *string       // string constants
	Home   *State        // specification values taken from one side of a pair lemma: the state to read them in
	Back   *Loc          // slice values: the array location backing the slice when it is a view of an array variable/field
}

func (v Val) t() string {
	if len(v.L) == 0 {
		return "0"
	}
	return v.L[0]
}

// State is the symbolic machine state at a program point.
type State struct {
	cells map[*ssa.Alloc]Val
	mem   map[string]string // component key -> SMT term
	epoch string            // names the initial contents of components not yet in mem
	pc    string            // reachability condition (a Bool term)
	fresh []string          // references allocated since function entry (for frame obligations)
	dead  bool
	pfx   map[string]string // component-key prefixes havoced wholesale -> epoch suffix
	nm    string            // name prefix of the initial heap (pair lemma sides have separate heaps)
}

func (s *State) clone() *State {
	n := &State{cells: make(map[*ssa.Alloc]Val, len(s.cells)), mem: make(map[string]string, len(s.mem)), epoch: s.epoch, pc: s.pc, nm: s.nm}
	for k, v := range s.cells {
		n.cells[k] = v
	}
	for k, v := range s.mem {
		n.mem[k] = v
	}
	n.fresh = append([]string{}, s.fresh...)
	if s.pfx != nil {
		n.pfx = map[string]string{}
		for k, v := range s.pfx {
			n.pfx[k] = v
		}
	}
	return n
}

func sortedKeys(m map[string]string) []string {
	ks := make([]string, 0, len(m))
	for k := range m {
		ks = append(ks, k)
	}
	sort.Strings(ks)
	return ks
}

// ---------------------------------------------------------------------------------------------
// SMT helpers

func smtAnd(xs ...string) string {
	var ys []string
	for _, x := range xs {
		if x == "true" || x == "" {
			continue
		}
		if x == "false" {
			return "false"
		}
		ys = append(ys, x)
	}
	switch len(ys) {
	case 0:
		return "true"
	case 1:
		return ys[0]
	}
	return "(and " + strings.Join(ys, " ") + ")"
}

func smtOr(xs ...string) string {
	var ys []string
	for _, x := range xs {
		if x == "false" || x == "" {
			continue
		}
		if x == "true" {
			return "true"
		}
		ys = append(ys, x)
	}
	switch len(ys) {
	case 0:
		return "false"
	case 1:
		return ys[0]
	}
	return "(or " + strings.Join(ys, " ") + ")"
}

func smtNot(x string) string {
	switch x {
	case "true":
		return "false"
	case "false":
		return "true"
	}
	if strings.HasPrefix(x, "(not ") && balanced(x[5:len(x)-1]) {
		return x[5 : len(x)-1]
	}
	return "(not " + x + ")"
}

func balanced(s string) bool {
	d := 0
	for _, c := range s {
		if c == '(' {
			d++
		} else if c == ')' {
			d--
			if d < 0 {
				return false
			}
		}
	}
	return d == 0
}

func smtImp(a, b string) string {
	if a == "true" {
		return b
	}
	if b == "true" || a == "false" {
		return "true"
	}
	return "(=> " + a + " " + b + ")"
}

func smtInt(n int64) string {
	if n < 0 {
		if n == -9223372036854775808 {
			return "(- 9223372036854775808)"
		}
		return fmt.Sprintf("(- %d)", -n)
	}
	return fmt.Sprintf("%d", n)
}

func smtSel(a string, idx ...string) string {
	for _, i := range idx {
		a = "(select " + a + " " + i + ")"
	}
	return a
}

// smtStoreN builds the nested functional update a[i1][i2]...[ik] := v.
func smtStoreN(a string, idx []string, v string) string {
	if len(idx) == 0 {
		return v
	}
	inner := smtStoreN("(select "+a+" "+idx[0]+")", idx[1:], v)
	return "(store " + a + " " + idx[0] + " " + inner + ")"
}

func smtIte(c, a, b string) string {
	if c == "true" {
		return a
	}
	if c == "false" {
		return b
	}
	if a == b {
		return a
	}
	return "(ite " + c + " " + a + " " + b + ")"
}

func quoteSym(s string) string {
	ok := true
	for _, c := range s {
		if !(c >= 'a' && c <= 'z' || c >= 'A' && c <= 'Z' || c >= '0' && c <= '9' || c == '_' || c == '.' || c == '!' || c == '$' || c == '@' || c == '#' || c == '-') {
			ok = false
			break
		}
	}
	if ok && len(s) > 0 && !(s[0] >= '0' && s[0] <= '9') {
		return s
	}
	return "|" + strings.ReplaceAll(strings.ReplaceAll(s, "|", "!"), "\\", "/") + "|"
}

// zeroTerm returns the SMT term for the zero value of a leaf (with extra array dimensions).
func zeroLeafTerm(l Leaf, dropDims int) string {
	var z string
	switch l.Sort {
	case "Bool":
		z = "false"
	case "Real":
		z = "0.0"
	default:
		z = "0"
	}
	srt := l.Sort
	for i := 0; i < l.Dims-dropDims; i++ {
		srt = "(Array Int " + srt + ")"
		z = "((as const " + srt + ") " + z + ")"
	}
	return z
}
