package main

import (
	"fmt"
	"go/token"
	"go/types"
	"strings"

	"golang.org/x/tools/go/ssa"
)

type callKind int

const (
	ckHavoc callKind = iota
	ckModel
	ckContract
	ckInline
)

type callRes struct {
	kind   callKind
	callee *ssa.Function
	fc     *FuncContract
	model  *Model
}

const inlineMaxInstrs = 600
const inlineMaxDepth = 5

func funcKey(fn *ssa.Function) string {
	if fn.Pkg == nil {
		if fn.Signature.Recv() != nil {
			return fn.RelString(nil)
		}
		return fn.String()
	}
	return fn.RelString(fn.Pkg.Pkg)
}

func funcPkgPath(fn *ssa.Function) string {
	if fn.Pkg != nil {
		return fn.Pkg.Pkg.Path()
	}
	if o := fn.Object(); o != nil && o.Pkg() != nil {
		return o.Pkg().Path()
	}
	return ""
}

func countInstrs(fn *ssa.Function) int {
	n := 0
	for _, b := range fn.Blocks {
		n += len(b.Instrs)
	}
	return n
}

// resolveCall decides how a call is handled.  It is used identically by the static write
// analysis and by symbolic execution.
func (x *Exec) resolveCall(fr *Frame, in *ssa.Function, c *ssa.CallCommon) callRes {
	if c.IsInvoke() {
		// interface method: contract keyed by "iface:<pkg>.<Type>.<Method>"
		if m := x.V.ifaceModel(c); m != nil {
			return callRes{kind: ckModel, model: m}
		}
		return callRes{kind: ckHavoc}
	}
	callee := c.StaticCallee()
	if callee == nil {
		return callRes{kind: ckHavoc}
	}
	full := callee.String()
	if m, ok := models[full]; ok {
		return callRes{kind: ckModel, model: m, callee: callee}
	}
	if callee.Pkg != nil || funcPkgPath(callee) != "" {
		if fc := x.V.contracts.Funcs[funcPkgPath(callee)+":"+funcKey(callee)]; fc != nil {
			return callRes{kind: ckContract, callee: callee, fc: fc}
		}
	}
	if m := pureStdlib(callee); m != nil {
		return callRes{kind: ckModel, model: m, callee: callee}
	}
	// inline module functions and small external functions with bodies
	if len(callee.Blocks) > 0 && countInstrs(callee) <= inlineMaxInstrs && (fr == nil || fr.depth < x.inlineLimit()) && !x.onStack(fr, callee) {
		if fr != nil && fr.topFC() != nil {
			for _, o := range fr.topFC().Opaque {
				if o == funcKey(callee) || o == "*" {
					return callRes{kind: ckHavoc, callee: callee}
				}
			}
		}
		if strings.HasPrefix(funcPkgPath(callee), x.V.modPath) {
			return callRes{kind: ckInline, callee: callee}
		}
	}
	return callRes{kind: ckHavoc, callee: callee}
}

func (x *Exec) onStack(fr *Frame, fn *ssa.Function) bool {
	for f := fr; f != nil; f = f.parent {
		if f.fn == fn {
			return true
		}
	}
	return false
}

func (fr *Frame) topFC() *FuncContract {
	f := fr
	for f.parent != nil {
		f = f.parent
	}
	return f.fc
}

func (fr *Frame) frameTags() []string {
	return fr.propTags
}

// call executes a call instruction.
func (x *Exec) call(fr *Frame, st *State, c *ssa.CallCommon, instr ssa.Value, pos token.Pos) Val {
	var rt types.Type = types.NewTuple()
	if instr != nil {
		rt = instr.Type()
		if ci, ok := instr.(ssa.Instruction); ok {
			x.curCallInstr = ci
		}
	}
	if b, ok := c.Value.(*ssa.Builtin); ok {
		return x.builtin(fr, st, b, c, rt, pos)
	}
	var args []Val
	if c.IsInvoke() {
		args = append(args, x.val(fr, st, c.Value))
	}
	for _, a := range c.Args {
		args = append(args, x.val(fr, st, a))
	}
	res := x.resolveCall(fr, fr.fn, c)
	// devirtualise interface calls on known dynamic values
	if c.IsInvoke() && res.kind == ckHavoc && args[0].Dyn != nil {
		if fn := x.V.prog.LookupMethod(args[0].Dyn.Typ, c.Method.Pkg(), c.Method.Name()); fn != nil {
			nc := *c
			nc.Method = nil
			nc.Value = fn
			dargs := append([]Val{*args[0].Dyn}, args[1:]...)
			return x.staticCall(fr, st, fn, dargs, rt, pos, &nc, true)
		}
	}
	if c.IsInvoke() {
		recv := args[0]
		if !recv.NonNil {
			x.safety(st, fr, "nil-iface", pos, "(not (= "+recv.t()+" 0))")
		}
	}
	// closures with a known body
	if res.kind == ckHavoc && res.callee == nil && !c.IsInvoke() {
		fv := x.val(fr, st, c.Value)
		if fv.Fn != nil && len(fv.Fn.Blocks) > 0 && fr.depth < inlineMaxDepth && !x.onStack(fr, fv.Fn) && countInstrs(fv.Fn) <= inlineMaxInstrs {
			return x.inline(fr, st, fv.Fn, args, fv.Binds, rt, pos, c)
		}
	}
	switch res.kind {
	case ckModel:
		return res.model.exec(x, fr, st, c, args, rt, pos)
	case ckContract, ckInline:
		return x.staticCall(fr, st, res.callee, args, rt, pos, c, false)
	}
	name := "?"
	if res.callee != nil {
		name = res.callee.String()
	} else if c.IsInvoke() {
		name = "interface " + c.Method.FullName()
	} else {
		name = "func value " + c.Value.Name()
	}
	if res.callee != nil && x.havocCallee(fr, st, res.callee, c) {
		return x.freshResult(st, rt, "call")
	}
	x.havocAll = append(x.havocAll, fmt.Sprintf("%s at %s", name, x.posString(pos)))
	x.havocAllMem(st)
	return x.freshResult(st, rt, "call")
}

// havocCallee over-approximates a call to a function with a known body that is neither inlined nor
// under contract: everything its body (and its callees, to depth 4) may write according to the
// static write analysis becomes arbitrary, the results are arbitrary.  Returns false when the
// analysis cannot bound the writes (the caller then forgets the whole memory).
func (x *Exec) havocCallee(fr *Frame, st *State, callee *ssa.Function, c *ssa.CallCommon) bool {
	if len(callee.Blocks) == 0 || c == nil {
		return false
	}
	params := map[*ssa.Parameter][]sroot{}
	env := newStaticEnv(fr.fn, fr.sparams)
	if len(c.Args) != len(callee.Params) {
		return false
	}
	for i, p := range callee.Params {
		switch pt := p.Type().Underlying().(type) {
		case *types.Pointer:
			params[p] = env.roots(c.Args[i])
		case *types.Slice:
			params[p] = env.sliceElemRoots(c.Args[i], pt.Elem())
		}
	}
	m := &modSet{}
	x.funcWrites(fr, callee, params, m, 1)
	if m.all {
		return false
	}
	for _, k := range m.comps {
		if s0, ok := x.compSort[k.key]; ok && s0 != k.sort {
			return false
		}
		x.compSort[k.key] = k.sort
		st.mem[k.key] = x.fresh("Hc", k.sort)
	}
	for _, p := range m.prefixes {
		x.havocPrefix(st, p)
	}
	var facts []string
	for _, a := range m.allocs {
		if old, ok := st.cells[a]; ok {
			nv, f := x.freshVal("cv_"+sanitize(a.Comment), old.Typ)
			st.cells[a] = nv
			facts = append(facts, f)
		}
	}
	x.assume(st, smtAnd(facts...))
	x.opaqueCalls = append(x.opaqueCalls, callee.String())
	return true
}

func (x *Exec) freshResult(st *State, rt types.Type, hint string) Val {
	if tup, ok := rt.(*types.Tuple); ok {
		if tup.Len() == 0 {
			return Val{Typ: rt}
		}
		var parts []Val
		for i := 0; i < tup.Len(); i++ {
			v, f := x.freshVal(hint, tup.At(i).Type())
			x.assume(st, f)
			parts = append(parts, v)
		}
		return Val{Typ: rt, Tuple: parts}
	}
	v, f := x.freshVal(hint, rt)
	x.assume(st, f)
	return v
}

func (x *Exec) staticCall(fr *Frame, st *State, callee *ssa.Function, args []Val, rt types.Type, pos token.Pos, c *ssa.CallCommon, devirt bool) Val {
	res := x.resolveCall(fr, fr.fn, &ssa.CallCommon{Value: callee, Args: c.Args})
	if devirt {
		// recompute with the concrete callee
		if fc := x.V.contracts.Funcs[funcPkgPath(callee)+":"+funcKey(callee)]; fc != nil {
			res = callRes{kind: ckContract, callee: callee, fc: fc}
		} else if m, ok := models[callee.String()]; ok {
			return m.exec(x, fr, st, c, args, rt, pos)
		}
	}
	switch res.kind {
	case ckModel:
		return res.model.exec(x, fr, st, c, args, rt, pos)
	case ckContract:
		x.curCall = c
		defer func() { x.curCall = nil }()
		return x.applyContract(fr, st, callee, res.fc, args, rt, pos)
	case ckInline:
		return x.inline(fr, st, callee, args, nil, rt, pos, c)
	}
	if x.havocCallee(fr, st, callee, c) {
		return x.freshResult(st, rt, "call")
	}
	x.havocAll = append(x.havocAll, fmt.Sprintf("%s at %s", callee.String(), x.posString(pos)))
	x.havocAllMem(st)
	return x.freshResult(st, rt, "call")
}

func packResults(rt types.Type, vals []Val) Val {
	if tup, ok := rt.(*types.Tuple); ok {
		if tup.Len() == 0 {
			return Val{Typ: rt}
		}
		return Val{Typ: rt, Tuple: vals}
	}
	if len(vals) == 1 {
		return vals[0]
	}
	return Val{Typ: rt}
}

// inline executes the callee body in place.
func (x *Exec) inline(fr *Frame, st *State, callee *ssa.Function, args []Val, binds []Val, rt types.Type, pos token.Pos, c *ssa.CallCommon) Val {
	x.inlined[callee.String()] = true
	nf := &Frame{fn: callee, vals: map[ssa.Value]Val{}, params: args, depth: fr.depth + 1, parent: fr, propTags: fr.propTags, callSite: x.curCallInstr,
		edgePC: map[[2]*ssa.BasicBlock]string{}}
	for i, p := range callee.Params {
		if i < len(args) {
			nf.vals[p] = args[i]
		}
	}
	for i, fv := range callee.FreeVars {
		if i < len(binds) {
			nf.vals[fv] = binds[i]
		}
	}
	// static roots of pointer/slice parameters for the write analysis inside the callee
	if c != nil {
		env := newStaticEnv(fr.fn, fr.sparams)
		nf.sparams = map[*ssa.Parameter][]sroot{}
		cargs := c.Args
		if len(cargs) == len(callee.Params) {
			for i, p := range callee.Params {
				switch pt := p.Type().Underlying().(type) {
				case *types.Pointer:
					nf.sparams[p] = env.roots(cargs[i])
				case *types.Slice:
					nf.sparams[p] = env.sliceElemRoots(cargs[i], pt.Elem())
				}
			}
		} else {
			nf.sparams = nil
			for _, p := range callee.Params {
				_ = p
			}
			nf.unknownParams = true
		}
	} else {
		nf.unknownParams = true
	}
	nf.entry = st.clone()
	out, results := x.runFunc(nf, st)
	// continue in the caller with the callee's exit state
	*st = *out
	return packResults(rt, results)
}

// applyContract: check requires, havoc assigns, assume ensures.
func (x *Exec) applyContract(fr *Frame, st *State, callee *ssa.Function, fc *FuncContract, args []Val, rt types.Type, pos token.Pos) Val {
	return packResults(rt, x.applyContractR(fr, st, callee, fc, args, pos))
}

// applyContractR: the callee's effect as its contract describes it (requires checked or assumed,
// assigns havoced, ensures assumed); returns the result values.
func (x *Exec) applyContractR(fr *Frame, st *State, callee *ssa.Function, fc *FuncContract, args []Val, pos token.Pos) []Val {
	if fc.Trusted {
		x.trusted["contract "+shortPkg(fc.Pkg)+"."+fc.Key] = true
	}
	env := &Env{x: x, vars: map[string]Val{}, st: st, fn: callee}
	for i, p := range callee.Params {
		if i < len(args) {
			env.vars[p.Name()] = args[i]
		}
	}
	env.oldVars = env.vars
	for _, r := range fc.Requires {
		t, err := x.specBool(env, r.Expr)
		if err != nil {
			x.bindingError(fmt.Sprintf("requires %q of %s", r.Src, fc.Key), err.Error(), r.File, r.Line)
			continue
		}
		if !x.noSafety {
			o := x.oblige(st, "call-pre", fr.propTags, pos, t, fc.Key+": "+r.Src)
			_ = o
		}
		x.assume(st, t)
	}
	old := st.clone()
	// havoc
	if !fc.HasAssign {
		// no frame clause: everything the body may write according to the static analysis
		if x.curCall == nil || !x.havocCallee(fr, st, callee, x.curCall) {
			x.havocAll = append(x.havocAll, fmt.Sprintf("%s (contract without assigns) at %s", fc.Key, x.posString(pos)))
			x.havocAllMem(st)
		}
	} else {
		for _, pat := range fc.Assigns {
			if err := x.havocPattern(env, st, pat); err != nil {
				x.bindingError(fmt.Sprintf("assigns %q of %s", pat, fc.Key), err.Error(), fc.File, fc.Line)
				x.havocAllMem(st)
			}
		}
	}
	// results
	sig := callee.Signature.Results()
	var results []Val
	for i := 0; i < sig.Len(); i++ {
		v, f := x.freshVal("r_"+sanitize(callee.Name()), sig.At(i).Type())
		x.assume(st, f)
		results = append(results, v)
	}
	penv := &Env{x: x, vars: env.vars, oldVars: env.vars, st: st, old: old, fn: callee, post: true, results: results}
	for _, e := range fc.Ensures {
		t, err := x.specBool(penv, e.Expr)
		if err != nil {
			x.bindingError(fmt.Sprintf("ensures %q of %s", e.Src, fc.Key), err.Error(), e.File, e.Line)
			continue
		}
		if e.hasTag("assumed") {
			x.trusted["assumed post-condition (ghost channel semantics, not proved) of "+shortPkg(fc.Pkg)+"."+fc.Key+": "+e.Src] = true
		}
		x.assume(st, t)
	}
	return results
}

// havocPattern havocs the locations named by an assigns pattern evaluated in env.
func (x *Exec) havocPattern(env *Env, st *State, pat string) error {
	if strings.HasPrefix(pat, "@") {
		x.havocPrefix(st, "S:"+x.resolveTypeKey(pat[1:]))
		return nil
	}
	locs, err := x.patternLocs(env, st, pat)
	if err != nil {
		return err
	}
	for _, pl := range locs {
		if pl.wholeArr != "" {
			// all elements of a slice's backing array
			for _, l := range leavesOf(pl.elemT) {
				key := "E:" + typeKey(pl.elemT) + l.Path
				srt := l.smtSort(2)
				comp := x.getComp(st, key, srt)
				fa := x.fresh("hv", l.smtSort(1))
				st.mem[key] = x.define("H", srt, "(store "+comp+" "+pl.wholeArr+" "+fa+")")
			}
			continue
		}
		cur := x.readLocRaw(st, pl.loc)
		nv, _ := x.freshVal("hv", cur.Typ)
		// type invariants hold for the new contents
		x.writeLoc(st, pl.loc, nv)
	}
	return nil
}

type patLoc struct {
	loc      *Loc
	wholeArr string
	elemT    types.Type
}

// patternLocs resolves "e.*", "e.f", "e.f[*]", "s[*]", "*p".
func (x *Exec) patternLocs(env *Env, st *State, pat string) ([]patLoc, error) {
	name, rest := splitAssign(pat)
	if strings.HasPrefix(name, "g_") {
		return []patLoc{{loc: &Loc{Kind: locMem, Key: "G:ghost." + name, RootT: types.Typ[types.Int], T: types.Typ[types.Int]}}}, nil
	}
	if strings.HasPrefix(pat, "@") {
		return nil, nil
	}
	v, ok := env.vars[name]
	if !ok {
		return nil, fmt.Errorf("unknown parameter %q", name)
	}
	if sl, isSlice := v.Typ.Underlying().(*types.Slice); isSlice {
		if rest != "[*]" {
			return nil, fmt.Errorf("slice pattern must be %s[*]", name)
		}
		if v.Back != nil {
			return []patLoc{{loc: v.Back}}, nil
		}
		return []patLoc{{wholeArr: v.L[0], elemT: sl.Elem()}}, nil
	}
	if _, isPtr := v.Typ.Underlying().(*types.Pointer); !isPtr {
		return nil, fmt.Errorf("%q is neither pointer nor slice", name)
	}
	loc := x.locOf(v)
	t := loc.T
	for rest != "" {
		switch {
		case rest == ".*":
			rest = ""
		case strings.HasPrefix(rest, "[*]"):
			rest = rest[3:]
			switch u := t.Underlying().(type) {
			case *types.Array:
				_ = u
				// whole array: stop navigating, havoc from here
				if rest != "" {
					return nil, fmt.Errorf("pattern continues after array [*]")
				}
			case *types.Slice:
				sv := x.readLocRaw(st, loc)
				if rest != "" {
					return nil, fmt.Errorf("pattern continues after slice [*]")
				}
				return []patLoc{{wholeArr: sv.L[0], elemT: u.Elem()}}, nil
			default:
				return nil, fmt.Errorf("[*] on %s", t)
			}
		case strings.HasPrefix(rest, "."):
			rest = rest[1:]
			j := strings.IndexAny(rest, ".[")
			fname := rest
			if j >= 0 {
				fname, rest = rest[:j], rest[j:]
			} else {
				rest = ""
			}
			stt, isStruct := t.Underlying().(*types.Struct)
			if !isStruct {
				return nil, fmt.Errorf("field %s on non-struct %s", fname, t)
			}
			found := false
			for i := 0; i < stt.NumFields(); i++ {
				if stt.Field(i).Name() == fname {
					loc = loc.extend(Step{Field: i}, stt.Field(i).Type())
					t = stt.Field(i).Type()
					found = true
					break
				}
			}
			if !found {
				return nil, fmt.Errorf("no field %s in %s", fname, t)
			}
		default:
			return nil, fmt.Errorf("bad pattern tail %q", rest)
		}
	}
	return []patLoc{{loc: loc}}, nil
}

// readLocRaw reads without adding assumptions.
func (x *Exec) readLocRaw(st *State, loc *Loc) Val {
	return x.readLocPure(st, loc)
}

// inAssigns: the SMT condition that loc is covered by the top-level function's assigns clause
// or lies in memory allocated since entry.
func (x *Exec) inAssigns(fr *Frame, st *State, loc *Loc) string {
	if len(loc.Lead) == 0 {
		// global
		return "false"
	}
	ref := loc.Lead[0]
	var alts []string
	// fresh memory
	alts = append(alts, "(> "+ref+" "+fmt.Sprint(int64(1)<<40)+")")
	env := &Env{x: x, vars: map[string]Val{}, st: fr.entry, fn: fr.fn}
	for i, p := range fr.fn.Params {
		env.vars[p.Name()] = fr.params[i]
	}
	start, end, _, _ := navigate(loc.RootT, loc.Steps)
	for _, pat := range fr.fc.Assigns {
		if strings.HasPrefix(pat, "@") && strings.HasPrefix(loc.Key, "S:"+x.resolveTypeKey(pat[1:])) {
			return "true"
		}
		pls, err := x.patternLocs(env, fr.entry, pat)
		if err != nil {
			continue
		}
		for _, pl := range pls {
			if pl.wholeArr != "" {
				if strings.HasPrefix(loc.Key, "E:") && loc.Key == "E:"+typeKey(pl.elemT) {
					alts = append(alts, "(= "+ref+" "+pl.wholeArr+")")
				}
				continue
			}
			if pl.loc.Kind != locMem || pl.loc.Key != loc.Key || len(pl.loc.Lead) == 0 {
				continue
			}
			ps, pe, _, _ := navigate(pl.loc.RootT, pl.loc.Steps)
			if start >= ps && end <= pe {
				alts = append(alts, "(= "+ref+" "+pl.loc.Lead[0]+")")
			}
		}
	}
	return smtOr(alts...)
}

// ---------------------------------------------------------------------------------------------
// Builtins

func (x *Exec) builtin(fr *Frame, st *State, b *ssa.Builtin, c *ssa.CallCommon, rt types.Type, pos token.Pos) Val {
	var args []Val
	for _, a := range c.Args {
		args = append(args, x.val(fr, st, a))
	}
	mk := func(s string) Val { return Val{Typ: rt, L: []string{s}} }
	switch b.Name() {
	case "len":
		a := args[0]
		switch u := a.Typ.Underlying().(type) {
		case *types.Slice:
			return mk(a.L[2])
		case *types.Basic:
			r := x.define("slen", "Int", "(strlen "+a.t()+")")
			x.assume(st, "(>= "+r+" 0)")
			return mk(r)
		case *types.Array:
			return mk(fmt.Sprint(u.Len()))
		case *types.Pointer:
			if at, ok := u.Elem().Underlying().(*types.Array); ok {
				return mk(fmt.Sprint(at.Len()))
			}
		}
		fv, _ := x.freshVal("len", rt)
		x.assume(st, "(>= "+fv.t()+" 0)")
		return fv
	case "cap":
		a := args[0]
		switch u := a.Typ.Underlying().(type) {
		case *types.Slice:
			return mk(a.L[3])
		case *types.Array:
			return mk(fmt.Sprint(u.Len()))
		case *types.Pointer:
			if at, ok := u.Elem().Underlying().(*types.Array); ok {
				return mk(fmt.Sprint(at.Len()))
			}
		}
		fv, _ := x.freshVal("cap", rt)
		x.assume(st, "(>= "+fv.t()+" 0)")
		return fv
	case "min", "max":
		if isInteger(rt) {
			f := "imin"
			if b.Name() == "max" {
				f = "imax"
			}
			r := args[0].t()
			for _, a := range args[1:] {
				r = "(" + f + " " + r + " " + a.t() + ")"
			}
			return mk(r)
		}
		fv, f := x.freshVal("mm", rt)
		x.assume(st, f)
		return fv
	case "copy":
		return x.builtinCopy(fr, st, args, rt, pos)
	case "append":
		return x.builtinAppend(fr, st, args, rt, pos)
	case "panic":
		if !x.noSafety {
			x.oblige(st, "panic", fr.propTags, pos, "false", "explicit panic unreachable")
		}
		st.pc = "false"
		return Val{Typ: rt}
	case "print", "println", "recover", "delete", "close":
		return x.freshResult(st, rt, "bi")
	case "clear":
		x.havocAllMem(st)
		return Val{Typ: rt}
	case "ssa:wrapnilchk":
		return args[0]
	case "ssa:deferstack":
		return Val{Typ: rt, L: []string{"0"}}
	}
	x.unsup("builtin %s", b.Name())
	return x.freshResult(st, rt, "bi")
}

// elemArr returns the SMT array (index -> leaf value) currently backing slice s for leaf l.
func (x *Exec) elemArrRead(st *State, s Val, et types.Type, li int) (string, func(newArr string)) {
	l := leavesOf(et)[li]
	if s.Back != nil {
		arrLoc := s.Back
		cur := x.readLocRaw(st, arrLoc)
		// leaf li of the element type inside the array value
		term := cur.L[li]
		return term, func(newArr string) {
			nv := Val{Typ: cur.Typ, L: append([]string{}, cur.L...)}
			nv.L[li] = newArr
			x.writeLoc(st, arrLoc, nv)
		}
	}
	key := "E:" + typeKey(et) + l.Path
	srt := l.smtSort(2)
	comp := x.getComp(st, key, srt)
	return "(select " + comp + " " + s.L[0] + ")", func(newArr string) {
		c2 := x.getComp(st, key, srt)
		st.mem[key] = x.define("H", srt, "(store "+c2+" "+s.L[0]+" "+newArr+")")
	}
}

func (x *Exec) builtinCopy(fr *Frame, st *State, args []Val, rt types.Type, pos token.Pos) Val {
	dst, src := args[0], args[1]
	dsl, ok := dst.Typ.Underlying().(*types.Slice)
	if !ok {
		x.havocAllMem(st)
		return x.freshResult(st, rt, "copy")
	}
	et := dsl.Elem()
	var srcLen string
	srcIsSlice := false
	if _, ok := src.Typ.Underlying().(*types.Slice); ok {
		srcLen = src.L[2]
		srcIsSlice = true
	} else {
		srcLen = "(strlen " + src.t() + ")"
	}
	n := x.define("ncopy", "Int", "(imin "+dst.L[2]+" "+srcLen+")")
	ls := leavesOf(et)
	for li, l := range ls {
		if l.Dims > 0 {
			x.unsup("copy of slices with array elements")
		}
		dArr, set := x.elemArrRead(st, dst, et, li)
		na := x.fresh("cp", l.smtSort(1))
		if srcIsSlice {
			sArr, _ := x.elemArrRead(st, src, et, li)
			k := "k!" + fmt.Sprint(x.n)
			x.assertDefQ(fmt.Sprintf("(forall ((%s Int)) (! (= (select %s %s) (ite (and (<= %s %s) (< %s (+ %s %s))) (select %s (+ %s (- %s %s))) (select %s %s))) :pattern ((select %s %s))))",
				k, na, k, dst.L[1], k, k, dst.L[1], n, sArr, src.L[1], k, dst.L[1], dArr, k, na, k))
		} else {
			k := "k!" + fmt.Sprint(x.n)
			x.assertDefQ(fmt.Sprintf("(forall ((%s Int)) (! (=> (not (and (<= %s %s) (< %s (+ %s %s)))) (= (select %s %s) (select %s %s))) :pattern ((select %s %s))))",
				k, dst.L[1], k, k, dst.L[1], n, na, k, dArr, k, na, k))
			x.assertByteRange(na)
		}
		set(na)
	}
	return Val{Typ: rt, L: []string{n}}
}

func (x *Exec) assertByteRange(arr string) {
	k := "k!" + fmt.Sprint(x.n) + "r"
	x.assertDefQ(fmt.Sprintf("(forall ((%s Int)) (! (and (<= 0 (select %s %s)) (<= (select %s %s) 255)) :pattern ((select %s %s))))", k, arr, k, arr, k, arr, k))
}

func (x *Exec) builtinAppend(fr *Frame, st *State, args []Val, rt types.Type, pos token.Pos) Val {
	s, add := args[0], args[1]
	sl, ok := s.Typ.Underlying().(*types.Slice)
	if !ok {
		x.havocAllMem(st)
		return x.freshResult(st, rt, "app")
	}
	et := sl.Elem()
	var addLen string
	addIsSlice := false
	if _, ok := add.Typ.Underlying().(*types.Slice); ok {
		addLen = add.L[2]
		addIsSlice = true
	} else {
		addLen = "(strlen " + add.t() + ")"
	}
	newLen := x.define("alen", "Int", "(+ "+s.L[2]+" "+addLen+")")
	fits := x.define("afits", "Bool", "(<= "+newLen+" "+s.L[3]+")")
	if s.Back != nil {
		x.unsup("append to array-backed slice at %s", x.posString(pos))
		x.havocAllMem(st)
		return x.freshResult(st, rt, "app")
	}
	newArr := x.newRef(st, "app")
	newCap := x.fresh("acap", "Int")
	x.assume(st, "(>= "+newCap+" "+newLen+")")
	rArr := x.define("aarr", "Int", smtIte(fits, s.L[0], newArr))
	rOff := x.define("aoff", "Int", smtIte(fits, s.L[1], "0"))
	rCap := x.define("acap", "Int", smtIte(fits, s.L[3], newCap))
	ls := leavesOf(et)
	for li, l := range ls {
		if l.Dims > 0 {
			x.unsup("append of array-typed elements")
		}
		key := "E:" + typeKey(et) + l.Path
		srt := l.smtSort(2)
		comp := x.getComp(st, key, srt)
		oldA := "(select " + comp + " " + s.L[0] + ")"
		na := x.fresh("ap", l.smtSort(1))
		k := "k!" + fmt.Sprint(x.n)
		// old elements
		x.assertDefQ(fmt.Sprintf("(forall ((%s Int)) (! (=> (and (<= 0 %s) (< %s %s)) (= (select %s (+ %s %s)) (select %s (+ %s %s)))) :pattern ((select %s (+ %s %s)))))",
			k, k, k, s.L[2], na, rOff, k, oldA, s.L[1], k, na, rOff, k))
		// in-place append leaves the rest of the backing array unchanged
		x.assertDefQ(fmt.Sprintf("(=> %s (forall ((%s Int)) (! (=> (not (and (<= (+ %s %s) %s) (< %s (+ %s %s)))) (= (select %s %s) (select %s %s))) :pattern ((select %s %s)))))",
			fits, k, s.L[1], s.L[2], k, k, s.L[1], newLen, na, k, oldA, k, na, k))
		if addIsSlice {
			aArr, _ := x.elemArrRead(st, add, et, li)
			x.assertDefQ(fmt.Sprintf("(forall ((%s Int)) (! (=> (and (<= 0 %s) (< %s %s)) (= (select %s (+ %s %s %s)) (select %s (+ %s %s)))) :pattern ((select %s (+ %s %s %s)))))",
				k, k, k, addLen, na, rOff, s.L[2], k, aArr, add.L[1], k, na, rOff, s.L[2], k))
		}
		if l.Kind == lkScalar {
			if lo, hi, ok := intBounds(l.Typ); ok {
				x.assertDefQ(fmt.Sprintf("(forall ((%s Int)) (! (and (<= %s (select %s %s)) (<= (select %s %s) %s)) :pattern ((select %s %s))))", k, lo, na, k, na, k, hi, na, k))
			}
		}
		c2 := x.getComp(st, key, srt)
		st.mem[key] = x.define("H", srt, "(store "+c2+" "+rArr+" "+na+")")
	}
	return Val{Typ: rt, L: []string{rArr, rOff, newLen, rCap}}
}

// resolveTypeKey maps a short type name used in "@T" assigns patterns to the component type key.
func (x *Exec) resolveTypeKey(name string) string {
	switch name {
	case "bytes.Buffer":
		return "bytes.Buffer"
	}
	return name
}

func (x *Exec) inlineLimit() int {
	if x.maxInline > 0 {
		return x.maxInline
	}
	return inlineMaxDepth
}
