package main

// Contract files: comment-only Go files (`//go:build verif`) inside the package directories of
// /repo.  Every line that starts with `//@` (or `// @`) is a contract line.

import (
	"bufio"
	"fmt"
	"go/ast"
	"go/parser"
	"os"
	"path/filepath"
	"regexp"
	"strconv"
	"strings"
)

type Clause struct {
	Kind string // requires ensures invariant decreases assert assume
	Tags []string
	Src  string
	Expr ast.Expr
	File string
	Line int
}

func (c *Clause) hasTag(p string) bool {
	for _, t := range c.Tags {
		if t == p {
			return true
		}
	}
	return false
}

type Split struct {
	Var    string
	Lo, Hi int64
}

type LoopContract struct {
	Ordinal    int
	Invariants []*Clause
	Decreases  *Clause
	File       string
	Line       int
}

type FuncContract struct {
	Pkg        string // package import path
	Key        string // "(*T).M" or "F"
	Requires   []*Clause
	Ensures    []*Clause
	Assigns    []string // lvalue patterns; nil = unspecified (callers havoc everything)
	HasAssign  bool
	Loops      map[int]*LoopContract
	Trusted    bool
	NoInline   bool
	Pure       bool     // callee has no heap effects (assigns nothing), result unconstrained unless ensures
	Props      []string // properties the safety obligations of this function belong to
	TermProps  []string // properties the termination obligations belong to
	AllocProp  []string // properties that allocation-budget obligations belong to
	AllocBound string   // spec expression: upper bound for every make() length in this function
	NoSafety   bool     // only functional / allocation / call-site obligations; safety stays with the sweep
	Splits     []Split
	Unroll     map[int]int
	File       string
	Line       int
	Opaque     []string // callee keys that must not be inlined (treated as havoc)
	Reveal     []string // recursive spec functions whose definition is visible in this task
	Timeout    int
}

type Def struct {
	Pkg    string
	Name   string
	Params []string
	Body   ast.Expr
	Src    string
	Bool   bool
	Rec    bool
}

type PairSide struct {
	Func   string // function key
	Pkg    string
	Prefix string // "l" or "r"
}

// Lemma: a pure SMT-level obligation over spec definitions.
type Lemma struct {
	Pkg     string
	Name    string
	Vars    []string
	Assumes []*Clause
	Asserts []*Clause
	Splits  []Split
	Reveal  []string
	File    string
	Line    int
}

// Pair lemma: two whole functions executed side by side on symbolic inputs.
type Pair struct {
	Pkg      string
	Name     string
	Left     string // "pkgpath:key" or key in this package
	Right    string
	Assumes  []*Clause
	Asserts  []*Clause
	Splits   []Split
	File     string
	Line     int
	Timeout  int
	Reveal   []string
	LeftPkg  string
	RightPkg string
	// Sequential: the right side starts in the left side's exit state (composition l ; r)
	Sequential bool
}

type GlobalInv struct {
	Pkg    string
	Name   string // global variable name
	Clause *Clause
}

type Pred struct {
	Pkg    string
	Name   string
	Params []string
	Body   ast.Expr
	Src    string
}

type Contracts struct {
	Preds   map[string]*Pred
	Funcs   map[string]*FuncContract // key: pkgpath + ":" + funcKey
	Defs    map[string]*Def          // by name (global namespace)
	Lemmas  []*Lemma
	Pairs   []*Pair
	Globals []*GlobalInv
	Errors  []string
}

var reTag = regexp.MustCompile(`^(\w+)\[([A-Za-z0-9_, ]+)\]`)

func parseExprSrc(src string) (ast.Expr, error) {
	return parser.ParseExpr(src)
}

func parseSplit(s string) (Split, error) {
	// "<var> in lo..hi"
	f := strings.Fields(s)
	if len(f) != 3 || f[1] != "in" {
		return Split{}, fmt.Errorf("bad split %q", s)
	}
	r := strings.Split(f[2], "..")
	if len(r) != 2 {
		return Split{}, fmt.Errorf("bad split range %q", s)
	}
	lo, e1 := strconv.ParseInt(r[0], 10, 64)
	hi, e2 := strconv.ParseInt(r[1], 10, 64)
	if e1 != nil || e2 != nil || hi < lo {
		return Split{}, fmt.Errorf("bad split range %q", s)
	}
	return Split{Var: f[0], Lo: lo, Hi: hi}, nil
}

// loadContractFile parses one contracts_verif.go file.
func (cs *Contracts) loadContractFile(path, pkgPath string) {
	f, err := os.Open(path)
	if err != nil {
		cs.Errors = append(cs.Errors, err.Error())
		return
	}
	defer f.Close()
	sc := bufio.NewScanner(f)
	sc.Buffer(make([]byte, 1<<20), 1<<20)
	var lines []struct {
		s string
		n int
	}
	n := 0
	pending := ""
	pendingLine := 0
	for sc.Scan() {
		n++
		raw := strings.TrimSpace(sc.Text())
		var body string
		switch {
		case strings.HasPrefix(raw, "//@"):
			body = raw[3:]
		case strings.HasPrefix(raw, "// @"):
			body = raw[4:]
		default:
			continue
		}
		body = strings.TrimSpace(body)
		if pending != "" {
			body = pending + " " + body
		} else {
			pendingLine = n
		}
		if strings.HasSuffix(body, "\\") {
			pending = strings.TrimSpace(strings.TrimSuffix(body, "\\"))
			continue
		}
		pending = ""
		if body == "" {
			continue
		}
		lines = append(lines, struct {
			s string
			n int
		}{body, pendingLine})
	}

	var curF *FuncContract
	var curL *LoopContract
	var curLemma *Lemma
	var curPair *Pair
	var curGlobal string
	errf := func(line int, format string, a ...any) {
		cs.Errors = append(cs.Errors, fmt.Sprintf("%s:%d: %s", path, line, fmt.Sprintf(format, a...)))
	}
	mkClause := func(kind, rest string, line int) *Clause {
		c := &Clause{Kind: kind, File: path, Line: line}
		c.Src = strings.TrimSpace(rest)
		e, err := parseExprSrc(c.Src)
		if err != nil {
			errf(line, "cannot parse %s expression %q: %v", kind, c.Src, err)
			return nil
		}
		c.Expr = e
		return c
	}
	for _, ln := range lines {
		s := ln.s
		word := s
		rest := ""
		if i := strings.IndexAny(s, " \t"); i >= 0 {
			word, rest = s[:i], strings.TrimSpace(s[i+1:])
		}
		var tags []string
		if m := reTag.FindStringSubmatch(word); m != nil {
			word = m[1]
			for _, t := range strings.Split(m[2], ",") {
				tags = append(tags, strings.TrimSpace(t))
			}
		}
		switch word {
		case "func":
			curF = &FuncContract{Pkg: pkgPath, Key: rest, Loops: map[int]*LoopContract{}, Unroll: map[int]int{}, File: path, Line: ln.n}
			fkey := pkgPath + ":" + rest
			if strings.HasPrefix(rest, "iface ") {
				// interface method contract (trusted by nature): "func iface (io.Writer).Write"
				curF.Key = strings.TrimSpace(strings.TrimPrefix(rest, "iface "))
				curF.Trusted = true
				fkey = "iface:" + curF.Key
			}
			if _, dup := cs.Funcs[fkey]; dup {
				errf(ln.n, "duplicate contract for %s", rest)
			}
			cs.Funcs[fkey] = curF
			curL, curLemma, curPair, curGlobal = nil, nil, nil, ""
		case "loop":
			if curF == nil {
				errf(ln.n, "loop outside func")
				continue
			}
			k, err := strconv.Atoi(rest)
			if err != nil {
				errf(ln.n, "bad loop ordinal %q", rest)
				continue
			}
			curL = &LoopContract{Ordinal: k, File: path, Line: ln.n}
			curF.Loops[k] = curL
		case "requires", "ensures", "invariant", "decreases", "assume", "assert":
			c := mkClause(word, rest, ln.n)
			if c == nil {
				continue
			}
			c.Tags = tags
			switch {
			case curLemma != nil && word == "assume":
				curLemma.Assumes = append(curLemma.Assumes, c)
			case curLemma != nil && word == "assert":
				curLemma.Asserts = append(curLemma.Asserts, c)
			case curPair != nil && word == "assume":
				curPair.Assumes = append(curPair.Assumes, c)
			case curPair != nil && word == "assert":
				curPair.Asserts = append(curPair.Asserts, c)
			case curGlobal != "" && word == "invariant":
				cs.Globals = append(cs.Globals, &GlobalInv{Pkg: pkgPath, Name: curGlobal, Clause: c})
			case curF == nil:
				errf(ln.n, "%s outside func", word)
			case word == "requires":
				curF.Requires = append(curF.Requires, c)
			case word == "ensures":
				curF.Ensures = append(curF.Ensures, c)
			case word == "invariant":
				if curL == nil {
					errf(ln.n, "invariant outside loop")
					continue
				}
				curL.Invariants = append(curL.Invariants, c)
			case word == "decreases":
				if curL == nil {
					errf(ln.n, "decreases outside loop")
					continue
				}
				curL.Decreases = c
			default:
				errf(ln.n, "%s not allowed here", word)
			}
		case "assigns":
			if curF == nil {
				errf(ln.n, "assigns outside func")
				continue
			}
			curF.HasAssign = true
			for _, a := range strings.Split(rest, ",") {
				a = strings.TrimSpace(a)
				if a != "" && a != "nothing" {
					curF.Assigns = append(curF.Assigns, a)
				}
			}
		case "trusted":
			if curF != nil {
				curF.Trusted = true
			}
		case "pure":
			if curF != nil {
				curF.Pure = true
				curF.HasAssign = true
			}
		case "noinline":
			if curF != nil {
				curF.NoInline = true
			}
		case "opaque":
			if curF != nil {
				curF.Opaque = append(curF.Opaque, strings.Fields(rest)...)
			}
		case "reveal":
			switch {
			case curLemma != nil:
				curLemma.Reveal = append(curLemma.Reveal, strings.Fields(rest)...)
			case curPair != nil:
				curPair.Reveal = append(curPair.Reveal, strings.Fields(rest)...)
			case curF != nil:
				curF.Reveal = append(curF.Reveal, strings.Fields(rest)...)
			}
		case "timeout":
			k, _ := strconv.Atoi(rest)
			if curF != nil && curPair == nil {
				curF.Timeout = k
			}
			if curPair != nil {
				curPair.Timeout = k
			}
		case "props":
			if curF != nil {
				curF.Props = strings.Fields(rest)
			}
		case "termprops":
			if curF != nil {
				curF.TermProps = strings.Fields(rest)
			}
		case "nosafety":
			if curF != nil {
				curF.NoSafety = true
			}
		case "allocbound":
			if curF != nil {
				curF.AllocProp = tags
				curF.AllocBound = rest
			}
		case "split":
			sp, err := parseSplit(rest)
			if err != nil {
				errf(ln.n, "%v", err)
				continue
			}
			switch {
			case curLemma != nil:
				curLemma.Splits = append(curLemma.Splits, sp)
			case curPair != nil:
				curPair.Splits = append(curPair.Splits, sp)
			case curF != nil:
				curF.Splits = append(curF.Splits, sp)
			}
		case "def", "defrec":
			// def name(a, b) = expr     |  def name(a, b) bool = expr
			eq := strings.Index(rest, "=")
			if eq < 0 {
				errf(ln.n, "bad def")
				continue
			}
			head, body := strings.TrimSpace(rest[:eq]), strings.TrimSpace(rest[eq+1:])
			isBool := false
			if strings.HasSuffix(head, " bool") {
				isBool = true
				head = strings.TrimSpace(strings.TrimSuffix(head, " bool"))
			}
			op := strings.Index(head, "(")
			if op < 0 || !strings.HasSuffix(head, ")") {
				errf(ln.n, "bad def head %q", head)
				continue
			}
			name := strings.TrimSpace(head[:op])
			var ps []string
			for _, p := range strings.Split(head[op+1:len(head)-1], ",") {
				p = strings.TrimSpace(p)
				if p != "" {
					ps = append(ps, p)
				}
			}
			e, err := parseExprSrc(body)
			if err != nil {
				errf(ln.n, "cannot parse def %s: %v", name, err)
				continue
			}
			if _, dup := cs.Defs[name]; dup {
				errf(ln.n, "duplicate def %s", name)
			}
			cs.Defs[name] = &Def{Pkg: pkgPath, Name: name, Params: ps, Body: e, Src: body, Bool: isBool, Rec: word == "defrec"}
		case "pred", "macro":
			eq := strings.Index(rest, "=")
			if eq < 0 {
				errf(ln.n, "bad pred")
				continue
			}
			head, body := strings.TrimSpace(rest[:eq]), strings.TrimSpace(rest[eq+1:])
			op := strings.Index(head, "(")
			if op < 0 || !strings.HasSuffix(head, ")") {
				errf(ln.n, "bad pred head %q", head)
				continue
			}
			name := strings.TrimSpace(head[:op])
			var ps []string
			for _, p := range strings.Split(head[op+1:len(head)-1], ",") {
				if p = strings.TrimSpace(p); p != "" {
					ps = append(ps, p)
				}
			}
			e, err := parseExprSrc(body)
			if err != nil {
				errf(ln.n, "cannot parse pred %s: %v", name, err)
				continue
			}
			cs.Preds[name] = &Pred{Pkg: pkgPath, Name: name, Params: ps, Body: e, Src: body}
		case "lemma":
			f := strings.Fields(rest)
			if len(f) == 0 {
				errf(ln.n, "lemma needs a name")
				continue
			}
			curLemma = &Lemma{Pkg: pkgPath, Name: f[0], Vars: f[1:], File: path, Line: ln.n}
			cs.Lemmas = append(cs.Lemmas, curLemma)
			curF, curL, curPair, curGlobal = nil, nil, nil, ""
		case "pair":
			curPair = &Pair{Pkg: pkgPath, Name: rest, File: path, Line: ln.n}
			cs.Pairs = append(cs.Pairs, curPair)
			curF, curL, curLemma, curGlobal = nil, nil, nil, ""
		case "sequential":
			if curPair != nil {
				curPair.Sequential = true
			}
		case "left":
			if curPair != nil {
				curPair.Left = rest
			}
		case "right":
			if curPair != nil {
				curPair.Right = rest
			}
		case "global":
			curGlobal = rest
			curF, curL, curLemma, curPair = nil, nil, nil, nil
		case "unroll":
			f := strings.Fields(rest)
			if curF != nil && curL != nil && len(f) == 1 {
				k, _ := strconv.Atoi(f[0])
				curF.Unroll[curL.Ordinal] = k
			}
		default:
			errf(ln.n, "unknown contract keyword %q", word)
		}
	}
}

// loadContracts finds every contracts_verif.go below root.
func loadContracts(root, modPath string) *Contracts {
	cs := &Contracts{Funcs: map[string]*FuncContract{}, Defs: map[string]*Def{}, Preds: map[string]*Pred{}}
	filepath.Walk(root, func(p string, info os.FileInfo, err error) error {
		if err != nil {
			return nil
		}
		if info.IsDir() {
			if strings.HasPrefix(info.Name(), ".") && p != root {
				return filepath.SkipDir
			}
			return nil
		}
		if strings.HasPrefix(info.Name(), "contracts_verif") && strings.HasSuffix(info.Name(), ".go") {
			rel, _ := filepath.Rel(root, filepath.Dir(p))
			pkg := modPath
			if rel != "." {
				pkg = modPath + "/" + filepath.ToSlash(rel)
			}
			cs.loadContractFile(p, pkg)
		}
		return nil
	})
	return cs
}
