package main

// Static (flow-insensitive) write-set analysis used to havoc at loop heads and to summarise
// inlined callees.  It must over-approximate what symbolic execution of the same code writes.

import (
	"fmt"
	"go/types"
	"os"
	"strings"

	"golang.org/x/tools/go/ssa"
)

type compRef struct {
	key  string
	sort string
}

type modSet struct {
	prefixes []string
	all      bool
	comps    []compRef
	allocs   []*ssa.Alloc
	seen     map[string]bool
	aseen    map[*ssa.Alloc]bool
}

func (m *modSet) addComp(key, sort string) {
	if m.seen == nil {
		m.seen = map[string]bool{}
	}
	if !m.seen[key] {
		m.seen[key] = true
		m.comps = append(m.comps, compRef{key, sort})
	}
}

func (m *modSet) addAlloc(a *ssa.Alloc) {
	if m.aseen == nil {
		m.aseen = map[*ssa.Alloc]bool{}
	}
	if !m.aseen[a] {
		m.aseen[a] = true
		m.allocs = append(m.allocs, a)
	}
}

// sroot is a static description of where an address may point.
type sroot struct {
	unknown bool
	alloc   *ssa.Alloc // non-escaping local
	key     string
	rootT   types.Type
	nLead   int
	steps   []Step // Idx empty for index steps
}

func (r sroot) extend(s Step) sroot {
	n := r
	n.steps = append(append([]Step{}, r.steps...), s)
	return n
}

// addRootWrites adds every leaf component below root r to the set.
func (m *modSet) addRootWrites(r sroot) {
	if r.unknown {
		m.all = true
		return
	}
	if r.alloc != nil {
		m.addAlloc(r.alloc)
		return
	}
	defer func() {
		if recover() != nil {
			m.all = true
		}
	}()
	start, end, _, _ := navigate(r.rootT, r.steps)
	ls := leavesOf(r.rootT)
	for j := start; j < end; j++ {
		m.addComp(r.key+ls[j].Path, ls[j].smtSort(r.nLead))
	}
}

type staticEnv struct {
	fn       *ssa.Function
	params   map[*ssa.Parameter][]sroot // roots of pointer params (inlined callee); nil => type based
	stores   map[*ssa.Alloc][]ssa.Value
	visiting map[ssa.Value]bool
}

func newStaticEnv(fn *ssa.Function, params map[*ssa.Parameter][]sroot) *staticEnv {
	e := &staticEnv{fn: fn, params: params, stores: map[*ssa.Alloc][]ssa.Value{}, visiting: map[ssa.Value]bool{}}
	for _, b := range fn.Blocks {
		for _, in := range b.Instrs {
			if s, ok := in.(*ssa.Store); ok {
				if a, ok := s.Addr.(*ssa.Alloc); ok {
					e.stores[a] = append(e.stores[a], s.Val)
				}
			}
		}
	}
	return e
}

func typeRoot(t types.Type) []sroot {
	p, ok := t.Underlying().(*types.Pointer)
	if !ok {
		return []sroot{{unknown: true}}
	}
	return []sroot{{key: "S:" + typeKey(p.Elem()), rootT: p.Elem(), nLead: 1}}
}

// roots returns the possible targets of pointer value v.
func (e *staticEnv) roots(v ssa.Value) []sroot {
	if e.visiting[v] {
		return typeRoot(v.Type())
	}
	e.visiting[v] = true
	defer delete(e.visiting, v)
	switch t := v.(type) {
	case *ssa.Alloc:
		if !t.Heap {
			return []sroot{{alloc: t, rootT: deref(t.Type())}}
		}
		return typeRoot(t.Type())
	case *ssa.Global:
		return []sroot{{key: "G:" + globalName(t), rootT: deref(t.Type()), nLead: 0}}
	case *ssa.FieldAddr:
		var out []sroot
		for _, r := range e.roots(t.X) {
			if r.unknown {
				out = append(out, r)
			} else {
				out = append(out, r.extend(Step{Field: t.Field}))
			}
		}
		return out
	case *ssa.IndexAddr:
		switch xt := t.X.Type().Underlying().(type) {
		case *types.Pointer: // pointer to array
			var out []sroot
			for _, r := range e.roots(t.X) {
				if r.unknown {
					out = append(out, r)
				} else {
					out = append(out, r.extend(Step{IsIdx: true}))
				}
			}
			return out
		case *types.Slice:
			return e.sliceElemRoots(t.X, xt.Elem())
		}
		return []sroot{{unknown: true}}
	case *ssa.Parameter:
		if e.params != nil {
			if rs, ok := e.params[t]; ok {
				return rs
			}
		}
		return typeRoot(t.Type())
	case *ssa.UnOp:
		// load of a pointer from a local cell: look at what was stored there
		if a, ok := t.X.(*ssa.Alloc); ok && !a.Heap {
			var out []sroot
			for _, sv := range e.stores[a] {
				out = append(out, e.roots(sv)...)
			}
			if len(out) > 0 {
				return dedupRoots(out)
			}
		}
		return typeRoot(t.Type())
	case *ssa.Phi:
		var out []sroot
		for _, ed := range t.Edges {
			out = append(out, e.roots(ed)...)
		}
		return dedupRoots(out)
	case *ssa.ChangeType:
		return e.roots(t.X)
	case *ssa.Convert, *ssa.SliceToArrayPointer:
		return []sroot{{unknown: true}}
	}
	return typeRoot(v.Type())
}

func dedupRoots(rs []sroot) []sroot {
	var out []sroot
	seen := map[string]bool{}
	for _, r := range rs {
		k := r.key + "|"
		if r.alloc != nil {
			k = "a:" + r.alloc.Name() + r.alloc.Comment + "|"
		}
		if r.unknown {
			k = "?"
		}
		for _, s := range r.steps {
			if s.IsIdx {
				k += "[]"
			} else {
				k += "." + string(rune('0'+s.Field))
			}
		}
		if !seen[k] {
			seen[k] = true
			out = append(out, r)
		}
	}
	return out
}

// sliceElemRoots: where do the elements of slice value v live?
func (e *staticEnv) sliceElemRoots(v ssa.Value, elem types.Type) []sroot {
	out := []sroot{{key: "E:" + typeKey(elem), rootT: elem, nLead: 2}}
	// array-backed views
	var walk func(v ssa.Value, depth int)
	walk = func(v ssa.Value, depth int) {
		if depth > 8 {
			out = append(out, sroot{unknown: true})
			return
		}
		switch t := v.(type) {
		case *ssa.Slice:
			if _, ok := t.X.Type().Underlying().(*types.Pointer); ok {
				for _, r := range e.roots(t.X) {
					if r.unknown {
						out = append(out, r)
					} else {
						out = append(out, r.extend(Step{IsIdx: true}))
					}
				}
			} else {
				walk(t.X, depth+1)
			}
		case *ssa.UnOp:
			if a, ok := t.X.(*ssa.Alloc); ok && !a.Heap {
				for _, sv := range e.stores[a] {
					walk(sv, depth+1)
				}
			}
		case *ssa.Phi:
			for _, ed := range t.Edges {
				walk(ed, depth+1)
			}
		case *ssa.Parameter:
			if e.params != nil {
				if rs, ok := e.params[t]; ok {
					out = append(out, rs...)
				}
			}
		}
	}
	walk(v, 0)
	return dedupRoots(out)
}

func deref(t types.Type) types.Type {
	if p, ok := t.Underlying().(*types.Pointer); ok {
		return p.Elem()
	}
	return t
}

func globalName(g *ssa.Global) string {
	if g.Pkg != nil {
		return g.Pkg.Pkg.Path() + "." + g.Name()
	}
	return g.Name()
}

// loopModifies computes what the body of loop li may write.
func (x *Exec) loopModifies(fr *Frame, li *loopInfo) *modSet {
	m := &modSet{}
	env := newStaticEnv(fr.fn, fr.sparams)
	for b := range li.body {
		x.blockWrites(fr, env, b, m, 0)
	}
	return m
}

// funcWrites summarises the writes of a whole function body (for inlined callees inside loops).
func (x *Exec) funcWrites(fr *Frame, fn *ssa.Function, params map[*ssa.Parameter][]sroot, m *modSet, depth int) {
	if depth > 8 || len(fn.Blocks) == 0 {
		if envSet("GOVC_DEBUGWRITES") {
			fmt.Fprintf(os.Stderr, "WRITES-ALL depth/body %s depth=%d\n", fn.String(), depth)
		}
		m.all = true
		return
	}
	env := newStaticEnv(fn, params)
	sub := &modSet{}
	for _, b := range fn.Blocks {
		x.blockWritesEnv(fr, fn, env, b, sub, depth)
	}
	if sub.all {
		m.all = true
	}
	for _, c := range sub.comps {
		m.addComp(c.key, c.sort)
	}
	m.prefixes = append(m.prefixes, sub.prefixes...)
	// writes to the callee's own locals are irrelevant to the caller, except locals of the caller
	// reached through pointer parameters
	for _, a := range sub.allocs {
		if a.Parent() != fn {
			m.addAlloc(a)
		}
	}
}

func (x *Exec) blockWrites(fr *Frame, env *staticEnv, b *ssa.BasicBlock, m *modSet, depth int) {
	x.blockWritesEnv(fr, fr.fn, env, b, m, depth)
}

func (x *Exec) blockWritesEnv(fr *Frame, fn *ssa.Function, env *staticEnv, b *ssa.BasicBlock, m *modSet, depth int) {
	for _, in := range b.Instrs {
		switch t := in.(type) {
		case *ssa.Store:
			for _, r := range env.roots(t.Addr) {
				if r.unknown && envSet("GOVC_DEBUGWRITES") {
					fmt.Fprintf(os.Stderr, "WRITES-ALL unknown root in %s: store %s\n", fn.String(), t.String())
				}
				m.addRootWrites(r)
			}
		case *ssa.Call:
			x.callWrites(fr, fn, env, &t.Call, m, depth)
		case *ssa.Defer:
			x.callWrites(fr, fn, env, &t.Call, m, depth)
		case *ssa.Go:
			m.all = true
		case *ssa.Send, *ssa.Select:
			m.all = true
		}
	}
}

func (x *Exec) callWrites(fr *Frame, fn *ssa.Function, env *staticEnv, c *ssa.CallCommon, m *modSet, depth int) {
	if b, ok := c.Value.(*ssa.Builtin); ok {
		switch b.Name() {
		case "copy":
			if st, ok := c.Args[0].Type().Underlying().(*types.Slice); ok {
				for _, r := range env.sliceElemRoots(c.Args[0], st.Elem()) {
					m.addRootWrites(r)
				}
			} else {
				m.all = true
			}
		case "append":
			if st, ok := c.Args[0].Type().Underlying().(*types.Slice); ok {
				for _, r := range env.sliceElemRoots(c.Args[0], st.Elem()) {
					m.addRootWrites(r)
				}
			} else {
				m.all = true
			}
		case "clear":
			m.all = true
		}
		return
	}
	res := x.resolveCall(fr, fn, c)
	switch res.kind {
	case ckModel:
		res.model.writes(x, env, c, m)
	case ckContract:
		if !res.fc.HasAssign {
			// no frame clause: what the body may write, statically
			if res.callee != nil && len(res.callee.Blocks) > 0 {
				params := map[*ssa.Parameter][]sroot{}
				args := c.Args
				for i, p := range res.callee.Params {
					if i < len(args) {
						if _, isPtr := p.Type().Underlying().(*types.Pointer); isPtr {
							params[p] = env.roots(args[i])
						} else if st, isSl := p.Type().Underlying().(*types.Slice); isSl {
							params[p] = env.sliceElemRoots(args[i], st.Elem())
						}
					}
				}
				x.funcWrites(fr, res.callee, params, m, depth+1)
				return
			}
			m.all = true
			return
		}
		x.contractWrites(env, res.callee, res.fc, c, m)
	case ckInline:
		params := map[*ssa.Parameter][]sroot{}
		args := c.Args
		for i, p := range res.callee.Params {
			if i < len(args) {
				if _, isPtr := p.Type().Underlying().(*types.Pointer); isPtr {
					params[p] = env.roots(args[i])
				} else if st, isSl := p.Type().Underlying().(*types.Slice); isSl {
					params[p] = env.sliceElemRoots(args[i], st.Elem())
				}
			}
		}
		x.funcWrites(fr, res.callee, params, m, depth+1)
	default:
		// a module function that is merely too large / too deep to inline is still analysed
		if res.callee != nil && len(res.callee.Blocks) > 0 && strings.HasPrefix(funcPkgPath(res.callee), x.V.modPath) {
			params := map[*ssa.Parameter][]sroot{}
			args := c.Args
			for i, p := range res.callee.Params {
				if i < len(args) {
					if _, isPtr := p.Type().Underlying().(*types.Pointer); isPtr {
						params[p] = env.roots(args[i])
					} else if st, isSl := p.Type().Underlying().(*types.Slice); isSl {
						params[p] = env.sliceElemRoots(args[i], st.Elem())
					}
				}
			}
			x.funcWrites(fr, res.callee, params, m, depth+1)
			return
		}
		if res.callee != nil {
			switch res.callee.String() {
			case "sort.Slice", "sort.SliceStable":
				// reorders the elements of its first argument (an interface holding a slice)
				if mi, ok := c.Args[0].(*ssa.MakeInterface); ok {
					if st, ok := mi.X.Type().Underlying().(*types.Slice); ok {
						for _, r := range env.sliceElemRoots(mi.X, st.Elem()) {
							m.addRootWrites(r)
						}
						return
					}
				}
			case "sort.Ints", "sort.Strings", "sort.Float64s":
				if st, ok := c.Args[0].Type().Underlying().(*types.Slice); ok {
					for _, r := range env.sliceElemRoots(c.Args[0], st.Elem()) {
						m.addRootWrites(r)
					}
					return
				}
			}
		}
		if envSet("GOVC_DEBUGWRITES") {
			name := "?"
			if res.callee != nil {
				name = res.callee.String()
			}
			fmt.Fprintf(os.Stderr, "WRITES-ALL in %s: call to %s\n", fn.String(), name)
		}
		m.all = true
	}
}

// contractWrites translates a callee's assigns clauses into component keys using static roots of
// the actual arguments.
func (x *Exec) contractWrites(env *staticEnv, callee *ssa.Function, fc *FuncContract, c *ssa.CallCommon, m *modSet) {
	for _, pat := range fc.Assigns {
		name, rest := splitAssign(pat)
		if strings.HasPrefix(name, "g_") {
			m.addComp("G:ghost."+name, "Int")
			continue
		}
		if strings.HasPrefix(pat, "@") {
			m.prefixes = append(m.prefixes, "S:"+x.resolveTypeKey(pat[1:]))
			continue
		}
		var idx = -1
		for i, p := range callee.Params {
			if p.Name() == name {
				idx = i
			}
		}
		if idx < 0 || idx >= len(c.Args) {
			m.all = true
			continue
		}
		arg := c.Args[idx]
		ptype := callee.Params[idx].Type()
		switch {
		case strings.HasPrefix(rest, "[*]") || rest == "[*]":
			if st, ok := ptype.Underlying().(*types.Slice); ok {
				for _, r := range env.sliceElemRoots(arg, st.Elem()) {
					m.addRootWrites(r)
				}
			} else {
				m.all = true
			}
		default:
			// pointer parameter: ".*", ".field", ".field[*]", ".field.sub", or "*p" handled as name with rest ""
			roots := env.roots(arg)
			for _, r := range roots {
				if r.unknown {
					m.all = true
					continue
				}
				rr, ok := staticPath(r, rest)
				if !ok {
					m.all = true
					continue
				}
				if rr.viaSlice != nil {
					m.addRootWrites(*rr.viaSlice)
				} else {
					m.addRootWrites(rr.r)
				}
			}
		}
	}
}

type staticPathRes struct {
	r        sroot
	viaSlice *sroot
}

// splitAssign splits "e.buf[*]" into ("e", ".buf[*]"); "*dst" into ("dst", "").
func splitAssign(p string) (string, string) {
	p = strings.TrimSpace(p)
	if strings.HasPrefix(p, "*") {
		return strings.TrimSpace(p[1:]), ""
	}
	i := strings.IndexAny(p, ".[")
	if i < 0 {
		return p, ""
	}
	return p[:i], p[i:]
}

// staticPath follows ".f.g", ".*", "[*]" from root r (the pointee of a pointer).
func staticPath(r sroot, rest string) (res staticPathRes, ok bool) {
	defer func() {
		if recover() != nil {
			ok = false
		}
	}()
	cur := r
	_, _, _, t := navigate(cur.rootT, cur.steps)
	for rest != "" {
		switch {
		case rest == ".*":
			return staticPathRes{r: cur}, true
		case strings.HasPrefix(rest, "[*]"):
			rest = rest[3:]
			switch u := t.Underlying().(type) {
			case *types.Array:
				cur = cur.extend(Step{IsIdx: true})
				t = u.Elem()
			case *types.Slice:
				// elements of a slice held in a field: elem component
				sr := sroot{key: "E:" + typeKey(u.Elem()), rootT: u.Elem(), nLead: 2}
				if rest != "" {
					return staticPathRes{}, false
				}
				return staticPathRes{viaSlice: &sr}, true
			default:
				return staticPathRes{}, false
			}
		case strings.HasPrefix(rest, "."):
			rest = rest[1:]
			j := strings.IndexAny(rest, ".[")
			name := rest
			if j >= 0 {
				name, rest = rest[:j], rest[j:]
			} else {
				rest = ""
			}
			st, isStruct := t.Underlying().(*types.Struct)
			if !isStruct {
				return staticPathRes{}, false
			}
			found := false
			for i := 0; i < st.NumFields(); i++ {
				if st.Field(i).Name() == name {
					cur = cur.extend(Step{Field: i})
					t = st.Field(i).Type()
					found = true
					break
				}
			}
			if !found {
				return staticPathRes{}, false
			}
		default:
			return staticPathRes{}, false
		}
	}
	return staticPathRes{r: cur}, true
}
