package main

// Generator-side quantifier instantiation.
//
// Range-quantified facts forall(k, lo, hi, body) that the specification evaluator emits are kept
// in the query, and in addition every occurrence  (forall ((k Int)) phi)  is replaced in place by
//      (and (forall ((k Int)) phi) phi[k:=t1] ... phi[k:=tn])
// for a set of ground index terms t relevant to the obligation (skolem constants of the goal,
// loop-head values of integer locals, indices of the slice accesses on the path, each with +-1).
// A universally quantified formula implies each of its instances, so the replacement is an
// equivalence whatever the polarity of the occurrence: nothing is assumed that was not there.
// A goal of the shape  forall k. phi  or  A => forall k. phi  is proved for a fresh constant k
// (validity of phi for an arbitrary k is validity of the quantified goal).

import (
	"fmt"
	"os"
	"regexp"
	"strings"
)

var noInst = envSet("GOVC_NOINST")

type idxTerm struct {
	term  string
	nDecl int
}

var reSpecForall = regexp.MustCompile(`\(forall \(\(([^\s()|]+!q\d+) Int\)\) `)

// sexpEnd returns the index just past the s-expression starting at s[i] ('(').
func sexpEnd(s string, i int) int {
	d := 0
	for j := i; j < len(s); j++ {
		switch s[j] {
		case '|':
			k := strings.IndexByte(s[j+1:], '|')
			if k < 0 {
				return -1
			}
			j += k + 1
		case '(':
			d++
		case ')':
			d--
			if d == 0 {
				return j + 1
			}
		}
	}
	return -1
}

// replaceToken substitutes every whole-token occurrence of sym in s.
func replaceToken(s, sym, by string) string {
	var sb strings.Builder
	i := 0
	for {
		j := strings.Index(s[i:], sym)
		if j < 0 {
			sb.WriteString(s[i:])
			return sb.String()
		}
		j += i
		e := j + len(sym)
		okL := j == 0 || strings.IndexByte("() \t\n", s[j-1]) >= 0
		okR := e == len(s) || strings.IndexByte("() \t\n", s[e]) >= 0
		sb.WriteString(s[i:j])
		if okL && okR {
			sb.WriteString(by)
		} else {
			sb.WriteString(sym)
		}
		i = e
	}
}

// skolemizeGoal strips the universal quantifiers that occur positively in the goal (under and, or,
// the consequent of =>, and an even number of negations): the goal is valid iff the stripped goal
// is valid for arbitrary values of the (uniquely named) variables, which become fresh constants.
func skolemizeGoal(g string) (string, []string) {
	n := parseSx(strings.TrimSpace(g))
	if n == nil {
		return g, nil
	}
	var vars []string
	var rec func(n *sx, pol int) *sx
	rec = func(n *sx, pol int) *sx {
		if n.list == nil || len(n.list) == 0 || pol == 0 {
			return n
		}
		if v, body, ok := n.specForall(); ok {
			if pol > 0 {
				vars = append(vars, v)
				return rec(body, pol)
			}
			return n
		}
		h := n.head()
		switch h {
		case "and", "or", "not", "=>":
		default:
			return n
		}
		out := &sx{list: make([]*sx, len(n.list))}
		out.list[0] = n.list[0]
		for i := 1; i < len(n.list); i++ {
			p := pol
			if h == "not" || (h == "=>" && i < len(n.list)-1) {
				p = -pol
			}
			out.list[i] = rec(n.list[i], p)
		}
		return out
	}
	r := rec(n, +1)
	if len(vars) == 0 {
		return g, nil
	}
	return r.String(), vars
}

// ---- s-expression trees ---------------------------------------------------------------------

type sx struct {
	atom string
	list []*sx
}

func parseSx(s string) *sx {
	pos := 0
	var rec func() *sx
	rec = func() *sx {
		for pos < len(s) && (s[pos] == ' ' || s[pos] == '\n' || s[pos] == '\t') {
			pos++
		}
		if pos >= len(s) {
			return nil
		}
		if s[pos] == '(' {
			pos++
			n := &sx{list: []*sx{}}
			for {
				for pos < len(s) && (s[pos] == ' ' || s[pos] == '\n' || s[pos] == '\t') {
					pos++
				}
				if pos >= len(s) {
					return nil
				}
				if s[pos] == ')' {
					pos++
					return n
				}
				c := rec()
				if c == nil {
					return nil
				}
				n.list = append(n.list, c)
			}
		}
		st := pos
		if s[pos] == '|' {
			k := strings.IndexByte(s[pos+1:], '|')
			if k < 0 {
				return nil
			}
			pos += k + 2
			return &sx{atom: s[st:pos]}
		}
		for pos < len(s) && !strings.ContainsRune("() \t\n", rune(s[pos])) {
			pos++
		}
		if pos == st {
			return nil
		}
		return &sx{atom: s[st:pos]}
	}
	n := rec()
	for pos < len(s) && (s[pos] == ' ' || s[pos] == '\n' || s[pos] == '\t') {
		pos++
	}
	if pos != len(s) {
		return nil
	}
	return n
}

func (n *sx) write(sb *strings.Builder) {
	if n.list == nil {
		sb.WriteString(n.atom)
		return
	}
	sb.WriteByte('(')
	for i, c := range n.list {
		if i > 0 {
			sb.WriteByte(' ')
		}
		c.write(sb)
	}
	sb.WriteByte(')')
}

func (n *sx) String() string {
	var sb strings.Builder
	n.write(&sb)
	return sb.String()
}

func (n *sx) size() int {
	if n.list == nil {
		return len(n.atom) + 1
	}
	t := 2
	for _, c := range n.list {
		t += c.size()
	}
	return t
}

func (n *sx) head() string {
	if n.list != nil && len(n.list) > 0 && n.list[0].list == nil {
		return n.list[0].atom
	}
	return ""
}

func (n *sx) subst(v string, by *sx) *sx {
	if n.list == nil {
		if n.atom == v {
			return by
		}
		return n
	}
	out := &sx{list: make([]*sx, len(n.list))}
	changed := false
	for i, c := range n.list {
		out.list[i] = c.subst(v, by)
		if out.list[i] != c {
			changed = true
		}
	}
	if !changed {
		return n
	}
	return out
}

var reQVar = regexp.MustCompile(`^[^\s()|]+!q\d+$`)

// specForall recognises (forall ((v!qN Int)) body).
func (n *sx) specForall() (string, *sx, bool) {
	if n.head() != "forall" || len(n.list) != 3 {
		return "", nil, false
	}
	b := n.list[1]
	if b.list == nil || len(b.list) != 1 || b.list[0].list == nil || len(b.list[0].list) != 2 {
		return "", nil, false
	}
	v := b.list[0].list[0]
	if v.list != nil || !reQVar.MatchString(v.atom) {
		return "", nil, false
	}
	return v.atom, n.list[2], true
}

type instCtx struct {
	perVar map[string][]*sx // matching-based instances per quantified variable (tier 3)
	all    []*sx            // every candidate term: used for small quantified facts (frames, ranges)
	terms  []*sx
	budget int
	weaken bool
}

// walk adds instances to the specification quantifiers of n.  pol is +1 where n occurs positively
// in an asserted formula, -1 negatively, 0 where the polarity is not known.  With c.weaken a
// positively occurring quantified formula is REPLACED by the conjunction of its instances (a
// consequence of it: the asserted formula becomes weaker); everywhere else the instances are
// conjoined to the quantified formula itself (an equivalence).
func (c *instCtx) walk(n *sx, pol int) *sx {
	if n.list == nil || len(n.list) == 0 {
		return n
	}
	if v, body, ok := n.specForall(); ok {
		if pol < 0 {
			return n // to be refuted, not used: instances do not help
		}
		if c.budget <= 0 || body.size()*len(c.terms) > 800000 || (len(c.terms) == 0 && len(c.all) == 0 && c.perVar == nil) {
			return n
		}
		out := &sx{list: []*sx{{atom: "and"}}}
		terms := c.terms
		if body.size() <= 400 {
			terms = c.all
		}
		if c.perVar != nil {
			terms = c.perVar[v]
		}
		if !(c.weaken && pol > 0 && body.size() > 400) {
			// (small quantified facts - ranges, frames - are cheap for E-matching and stay)
			out.list = append(out.list, n)
		}
		for _, t := range terms {
			inst := body.subst(v, t)
			c.budget -= inst.size()
			out.list = append(out.list, c.walk(inst, pol))
			if c.budget <= 0 {
				break
			}
		}
		if len(out.list) == 1 {
			return &sx{atom: "true"}
		}
		return out
	}
	h := n.head()
	out := &sx{list: make([]*sx, len(n.list))}
	out.list[0] = n.list[0]
	for i := 1; i < len(n.list); i++ {
		p := 0
		switch h {
		case "and", "or":
			p = pol
		case "not":
			p = -pol
		case "=>":
			if i == len(n.list)-1 {
				p = pol
			} else {
				p = -pol
			}
		case "ite":
			if i > 1 {
				p = pol
			}
		case "!":
			if i == 1 {
				p = pol
			}
		case "let", "forall", "exists":
			if i == len(n.list)-1 && h != "let" {
				p = pol // body of a foreign quantifier: polarity is preserved
			}
		}
		out.list[i] = c.walk(n.list[i], p)
	}
	return out
}

// simplify folds Boolean constants (guards decided by substituted premises disappear before any
// instance is generated for the quantifiers below them).
func (n *sx) simplify() *sx {
	if n.list == nil || len(n.list) == 0 {
		return n
	}
	h := n.head()
	if h == "forall" || h == "exists" || h == "let" || h == "!" {
		out := &sx{list: append([]*sx{}, n.list...)}
		out.list[len(out.list)-1] = n.list[len(n.list)-1].simplify()
		if h == "!" {
			out.list[1] = n.list[1].simplify()
			out.list[len(out.list)-1] = n.list[len(n.list)-1]
		}
		if (h == "forall" || h == "exists") && out.list[len(out.list)-1].list == nil {
			if a := out.list[len(out.list)-1].atom; a == "true" || a == "false" {
				return &sx{atom: a}
			}
		}
		return out
	}
	args := make([]*sx, 0, len(n.list)-1)
	for _, c := range n.list[1:] {
		args = append(args, c.simplify())
	}
	isC := func(m *sx, v string) bool { return m.list == nil && m.atom == v }
	tr, fl := &sx{atom: "true"}, &sx{atom: "false"}
	switch h {
	case "not":
		if len(args) == 1 {
			if isC(args[0], "true") {
				return fl
			}
			if isC(args[0], "false") {
				return tr
			}
		}
	case "and":
		var keep []*sx
		for _, a := range args {
			if isC(a, "false") {
				return fl
			}
			if !isC(a, "true") {
				keep = append(keep, a)
			}
		}
		if len(keep) == 0 {
			return tr
		}
		if len(keep) == 1 {
			return keep[0]
		}
		args = keep
	case "or":
		var keep []*sx
		for _, a := range args {
			if isC(a, "true") {
				return tr
			}
			if !isC(a, "false") {
				keep = append(keep, a)
			}
		}
		if len(keep) == 0 {
			return fl
		}
		if len(keep) == 1 {
			return keep[0]
		}
		args = keep
	case "=>":
		if len(args) == 2 {
			if isC(args[0], "false") || isC(args[1], "true") {
				return tr
			}
			if isC(args[0], "true") {
				return args[1]
			}
		}
	case "ite":
		if len(args) == 3 {
			if isC(args[0], "true") {
				return args[1]
			}
			if isC(args[0], "false") {
				return args[2]
			}
		}
	}
	return &sx{list: append([]*sx{n.list[0]}, args...)}
}

// instantiateAssert processes one "(assert F)" line (a trailing ";comment" is kept).
func (c *instCtx) instantiateAssert(a string, isBool func(string) bool) string {
	if !strings.Contains(a, "!q") {
		return a
	}
	body, tail := a, ""
	if k := strings.LastIndex(a, ") ;"); k >= 0 && !strings.Contains(a[k:], "|") {
		body, tail = a[:k+1], a[k+1:]
	}
	n := parseSx(body)
	if n == nil || n.head() != "assert" || len(n.list) != 2 {
		return a
	}
	f := n.list[1].simplify()
	// (= pc!N X) with a Boolean pc!N: in the weakened variant only pc!N => X is kept
	if c.weaken && f.head() == "=" && len(f.list) == 3 && f.list[1].list == nil && isBool(f.list[1].atom) {
		f = &sx{list: []*sx{{atom: "=>"}, f.list[1], c.walk(f.list[2], +1)}}
	} else if f.head() == "=" {
		f = c.walk(f, 0)
	} else {
		f = c.walk(f, +1)
	}
	return "(assert " + f.String() + ")" + tail
}

// instTerms chooses the ground terms for an obligation.
func (o *Obligation) instTerms(skolems []string, needed map[string]bool, small bool) []string {
	x := o.x
	seen := map[string]bool{}
	var out []string
	add := func(t string) {
		if !seen[t] && len(out) < 40 {
			seen[t] = true
			out = append(out, t)
		}
	}
	pm := func(t string) {
		add(t)
		add("(- " + t + " 1)")
		add("(+ " + t + " 1)")
	}
	for _, s := range skolems {
		pm(s)
	}
	add("0")
	for i := o.nDecl - 1; i >= 0; i-- {
		d := x.decls[i]
		if !strings.HasSuffix(d, " Int)") {
			continue
		}
		name := strings.TrimSuffix(strings.TrimPrefix(d, "(declare-const "), " Int)")
		if strings.Contains(name, "lv_") && (needed == nil || needed[name]) {
			// only loop-head values that take part in some slice index (counters, not data)
			used := false
			for _, it := range x.idxTerms {
				if it.nDecl <= o.nDecl && containsToken(it.term, name) {
					used = true
					break
				}
			}
			if used {
				pm(name)
			}
		}
	}
	if small {
		return out
	}
	for i := len(x.idxTerms) - 1; i >= 0; i-- {
		it := x.idxTerms[i]
		if it.nDecl > o.nDecl {
			continue
		}
		ok := true
		for _, s := range smtSymbols(it.term) {
			if x.declared[s] && needed != nil && !needed[s] {
				ok = false
			}
		}
		if ok {
			add(it.term)
		}
	}
	return out
}

func containsToken(s, sym string) bool {
	for i := 0; ; {
		j := strings.Index(s[i:], sym)
		if j < 0 {
			return false
		}
		j += i
		e := j + len(sym)
		if (j == 0 || strings.IndexByte("() \t\n", s[j-1]) >= 0) && (e == len(s) || strings.IndexByte("() \t\n", s[e]) >= 0) {
			return true
		}
		i = e
	}
}

func envSet(k string) bool { return os.Getenv(k) != "" }

var _ = fmt.Sprintf

// ---- matching-based instantiation (E-matching modulo linear arithmetic, done by the generator) ----
//
// For a quantified hypothesis  forall k. phi(k)  every array read  A[f(k)]  in phi with f linear in
// k is a pattern; for every ground read  A[g]  of the same array in the goal, in the ground
// hypotheses or in an instance chosen earlier, k := (g - f(0)) / f'  is an instance term (when the
// division is exact).  The choice of instances has no bearing on soundness (see the header).

type lin struct {
	coef map[string]int64
	c    int64
	ok   bool
}

func linConst(c int64) lin { return lin{coef: map[string]int64{}, c: c, ok: true} }

func (a lin) add(b lin, sign int64) lin {
	if !a.ok || !b.ok {
		return lin{}
	}
	r := linConst(a.c + sign*b.c)
	for k, v := range a.coef {
		r.coef[k] = v
	}
	for k, v := range b.coef {
		r.coef[k] += sign * v
		if r.coef[k] == 0 {
			delete(r.coef, k)
		}
	}
	return r
}

func (a lin) scale(m int64) lin {
	if !a.ok {
		return a
	}
	r := linConst(a.c * m)
	for k, v := range a.coef {
		if v*m != 0 {
			r.coef[k] = v * m
		}
	}
	return r
}

func parseNum(n *sx) (int64, bool) {
	if n.list == nil {
		var v int64
		if len(n.atom) == 0 || n.atom[0] < '0' || n.atom[0] > '9' {
			return 0, false
		}
		for _, ch := range n.atom {
			if ch < '0' || ch > '9' || v > 1<<50 {
				return 0, false
			}
			v = v*10 + int64(ch-'0')
		}
		return v, true
	}
	if n.head() == "-" && len(n.list) == 2 {
		if v, ok := parseNum(n.list[1]); ok {
			return -v, true
		}
	}
	return 0, false
}

func linOf(n *sx) lin {
	if v, ok := parseNum(n); ok {
		return linConst(v)
	}
	if n.list == nil {
		r := linConst(0)
		r.coef[n.atom] = 1
		return r
	}
	switch n.head() {
	case "+":
		r := linConst(0)
		for _, c := range n.list[1:] {
			r = r.add(linOf(c), 1)
		}
		return r
	case "-":
		if len(n.list) == 2 {
			return linOf(n.list[1]).scale(-1)
		}
		r := linOf(n.list[1])
		for _, c := range n.list[2:] {
			r = r.add(linOf(c), -1)
		}
		return r
	case "*":
		if len(n.list) == 3 {
			if v, ok := parseNum(n.list[1]); ok {
				return linOf(n.list[2]).scale(v)
			}
			if v, ok := parseNum(n.list[2]); ok {
				return linOf(n.list[1]).scale(v)
			}
		}
	}
	r := linConst(0)
	r.coef[n.String()] = 1
	return r
}

func (a lin) toSx(atoms map[string]*sx) *sx {
	var keys []string
	for k := range a.coef {
		keys = append(keys, k)
	}
	sortStrings(keys)
	var parts []*sx
	for _, k := range keys {
		at := atoms[k]
		if at == nil {
			at = parseSx(k)
			if at == nil {
				return nil
			}
		}
		v := a.coef[k]
		switch {
		case v == 1:
			parts = append(parts, at)
		case v == -1:
			parts = append(parts, &sx{list: []*sx{{atom: "-"}, at}})
		case v < 0:
			parts = append(parts, &sx{list: []*sx{{atom: "*"}, {list: []*sx{{atom: "-"}, {atom: fmt.Sprint(-v)}}}, at}})
		default:
			parts = append(parts, &sx{list: []*sx{{atom: "*"}, {atom: fmt.Sprint(v)}, at}})
		}
	}
	if a.c != 0 || len(parts) == 0 {
		if a.c < 0 {
			parts = append(parts, &sx{list: []*sx{{atom: "-"}, {atom: fmt.Sprint(-a.c)}}})
		} else {
			parts = append(parts, &sx{atom: fmt.Sprint(a.c)})
		}
	}
	if len(parts) == 1 {
		return parts[0]
	}
	return &sx{list: append([]*sx{{atom: "+"}}, parts...)}
}

// solveIndex finds t with pattern[v := t] == ground (as linear forms).
func solveIndex(pattern, ground *sx, v string) *sx {
	pl, gl := linOf(pattern), linOf(ground)
	if !pl.ok || !gl.ok {
		return nil
	}
	c := pl.coef[v]
	if c == 0 {
		return nil
	}
	// v must not hide inside a non-linear atom of the pattern
	for k := range pl.coef {
		if k != v && containsToken(k, v) {
			return nil
		}
	}
	delete(pl.coef, v)
	rest := gl.add(pl, -1)
	if rest.c%c != 0 {
		return nil
	}
	for _, cv := range rest.coef {
		if cv%c != 0 {
			return nil
		}
	}
	res := linConst(rest.c / c)
	for k, cv := range rest.coef {
		res.coef[k] = cv / c
		if cv/c < 0 {
			// index variables range over non-negative values and the atoms of index expressions
			// (lengths, counters, other indices) are non-negative: such a term is almost always
			// outside the quantifier's range
			return nil
		}
	}
	if res.c < 0 && len(res.coef) == 0 {
		return nil
	}
	return res.toSx(nil)
}

type readRef struct {
	arr string
	idx *sx
}

// collectReads gathers (select (select H A) IDX) occurrences; bound: variables in scope.
func collectReads(n *sx, bound []string, ground *[]readRef, pattern func(v string, r readRef)) {
	collectReadsH(n, bound, ground, pattern, nil)
}

func collectReadsH(n *sx, bound []string, ground *[]readRef, pattern func(v string, r readRef), heapClass func(heap, arr *sx) string) {
	if n.list == nil || len(n.list) == 0 {
		return
	}
	if v, body, ok := n.specForall(); ok {
		collectReadsH(body, append(append([]string{}, bound...), v), ground, pattern, heapClass)
		return
	}
	if h := n.head(); h == "forall" || h == "exists" || h == "let" {
		return // foreign binders: not analysed
	}
	if n.head() == "select" && len(n.list) == 3 && n.list[1].head() == "select" && len(n.list[1].list) == 3 {
		arr := n.list[1].list[2].String()
		if heapClass != nil {
			arr = heapClass(n.list[1].list[1], n.list[1].list[2])
		}
		idx := n.list[2]
		is := idx.String()
		var in []string
		for _, b := range bound {
			if containsToken(is, b) || containsToken(arr, b) {
				in = append(in, b)
			}
		}
		switch {
		case len(in) == 0:
			if ground != nil {
				*ground = append(*ground, readRef{arr, idx})
			}
		case len(in) == 1 && !containsToken(arr, in[0]) && pattern != nil:
			pattern(in[0], readRef{arr, idx})
		}
	}
	if heapClass != nil && n.head() == "select" && len(n.list) == 3 && n.list[1].list == nil && n.list[1].atom != "" {
		// one-level array (a Go array value or a per-field heap): A[idx]
		arr := heapClass(n.list[1], nil)
		idx := n.list[2]
		is := idx.String()
		var in []string
		for _, b := range bound {
			if containsToken(is, b) {
				in = append(in, b)
			}
		}
		switch {
		case len(in) == 0:
			if ground != nil {
				*ground = append(*ground, readRef{arr, idx})
			}
		case len(in) == 1 && pattern != nil:
			pattern(in[0], readRef{arr, idx})
		}
	}
	for _, c := range n.list {
		collectReadsH(c, bound, ground, pattern, heapClass)
	}
}

// triggerReads selects the reads of a quantified body that act as patterns: the sides of an
// equation that are themselves reads (the "defined" location, not the reads inside the defining
// expression), and every read under an arithmetic comparison (range facts).
func triggerReads(n *sx, v string, add func(string, readRef), hc func(heap, arr *sx) string) {
	if n.list == nil || len(n.list) == 0 {
		return
	}
	isRead := func(m *sx) bool {
		return m.head() == "select" && len(m.list) == 3 && (m.list[1].head() == "select" || m.list[1].list == nil)
	}
	switch n.head() {
	case "=":
		if len(n.list) == 3 {
			any := false
			for _, side := range n.list[1:] {
				if isRead(side) {
					collectReadsH(side, []string{v}, nil, add, hc)
					any = true
				}
			}
			if any {
				return
			}
			// Boolean equivalence or scalar equation without a read side: look inside
			for _, side := range n.list[1:] {
				triggerReads(side, v, add, hc)
			}
		}
		return
	case "<=", "<", ">=", ">":
		collectReadsH(n, []string{v}, nil, add, hc)
		return
	case "forall", "exists", "let":
		return
	}
	for _, c := range n.list[1:] {
		triggerReads(c, v, add, hc)
	}
}

// arrayClasses resolves a read (select (select HEAP arr) idx) to the identity of the inner array it
// reads: store chains that update single elements keep the identity, a store that replaces the
// whole inner array (havoc, copy) introduces a new one.  Used only to decide which ground reads a
// pattern is matched against.
func arrayClasses(formulas []*sx) func(heap, arr *sx) string {
	def := map[string]*sx{}
	note := func(e *sx) {
		if e.head() != "=" || len(e.list) != 3 || e.list[1].list != nil {
			return
		}
		if _, ok := def[e.list[1].atom]; !ok {
			def[e.list[1].atom] = e.list[2]
		}
	}
	for _, f := range formulas {
		if f.head() != "assert" || len(f.list) != 2 {
			continue
		}
		g := f.list[1]
		if g.head() == "=>" && len(g.list) == 3 {
			note(g.list[2])
		} else {
			note(g)
		}
	}
	var resolve func(heap *sx, arr string, depth int) string
	resolve = func(heap *sx, arr string, depth int) string {
		if depth > 200 {
			return heap.String() + "#" + arr
		}
		if heap.list == nil {
			d, ok := def[heap.atom]
			if !ok {
				return heap.atom + "#" + arr
			}
			if d.list == nil {
				if len(d.atom) > 0 && (d.atom[0] < '0' || d.atom[0] > '9') {
					return resolve(d, arr, depth+1)
				}
				return heap.atom + "#" + arr
			}
			return resolve(d, arr, depth+1)
		}
		if heap.head() == "store" && len(heap.list) == 4 {
			base, a2, inner := heap.list[1], heap.list[2].String(), heap.list[3]
			if a2 != arr {
				return resolve(base, arr, depth+1)
			}
			// element update of the same inner array?
			for inner.head() == "store" && len(inner.list) == 4 {
				inner = inner.list[1]
			}
			if inner.head() == "select" && len(inner.list) == 3 {
				return resolve(inner.list[1], inner.list[2].String(), depth+1)
			}
			return "arr:" + inner.String()
		}
		return heap.String() + "#" + arr
	}
	var flat func(a *sx, depth int) string
	flat = func(a *sx, depth int) string {
		if depth > 200 {
			return "flat:" + a.String()
		}
		if a.list == nil {
			d, ok := def[a.atom]
			if !ok {
				return "flat:" + a.atom
			}
			return flat(d, depth+1)
		}
		if a.head() == "store" && len(a.list) == 4 {
			return flat(a.list[1], depth+1)
		}
		return "flat:" + a.String()
	}
	return func(heap, arr *sx) string {
		if arr == nil {
			return flat(heap, 0)
		}
		return resolve(heap, arr.String(), 0)
	}
}

type qInfo struct {
	v        string
	body     *sx
	patterns []readRef
	inst     []*sx
	seen     map[string]bool
}

// matchInstances computes instance terms per quantified variable.
func matchInstances(formulas []*sx, skolems []string) map[string][]*sx {
	quants := map[string]*qInfo{}
	var order []string
	var ground []readRef
	hc := arrayClasses(formulas)
	var findQ func(n *sx)
	findQ = func(n *sx) {
		if n.list == nil {
			return
		}
		if v, body, ok := n.specForall(); ok {
			if quants[v] == nil {
				q := &qInfo{v: v, body: body, seen: map[string]bool{}}
				add := func(pv string, r readRef) {
					if pv == v {
						q.patterns = append(q.patterns, r)
					}
				}
				triggerReads(body, v, add, hc)
				if len(q.patterns) == 0 {
					collectReadsH(body, []string{v}, nil, add, hc)
				}
				quants[v] = q
				order = append(order, v)
			}
			// nested quantifiers are found through the instances of the outer one
			return
		}
		for _, c := range n.list {
			findQ(c)
		}
	}
	for _, f := range formulas {
		collectReadsH(f, nil, &ground, nil, hc)
		findQ(f)
	}
	// reads carry a generation: 0 for the reads of the goal and of the ground hypotheses, g+1 for
	// the reads of an instance triggered by a read of generation g.  Matching proceeds breadth
	// first and stops after generation 2 (instance chains of depth 3).
	type gread struct {
		idx *sx
		gen int
	}
	byArr := map[string][]gread{}
	seenRead := map[string]bool{}
	addRead := func(r readRef, gen int) {
		k := r.arr + "@" + r.idx.String()
		if seenRead[k] {
			return
		}
		seenRead[k] = true
		byArr[r.arr] = append(byArr[r.arr], gread{r.idx, gen})
	}
	for _, r := range ground {
		addRead(r, 0)
	}
	total := 0
	addInst := func(q *qInfo, t *sx, gen int) {
		ts := t.String()
		if q.seen[ts] || len(q.inst) >= 24 || total >= 200 || len(ts) > 200 {
			return
		}
		q.seen[ts] = true
		q.inst = append(q.inst, t)
		total++
		var g []readRef
		inst := q.body.subst(q.v, t)
		collectReadsH(inst, nil, &g, nil, hc)
		for _, r := range g {
			addRead(r, gen+1)
		}
		findQ(inst)
	}
	for gen := 0; gen <= 2; gen++ {
		for i := 0; i < len(order); i++ {
			q := quants[order[i]]
			for _, p := range q.patterns {
				rs := byArr[p.arr]
				for j := 0; j < len(rs) && j < 600; j++ {
					if rs[j].gen != gen {
						continue
					}
					if t := solveIndex(p.idx, rs[j].idx, q.v); t != nil {
						addInst(q, t, gen)
					}
				}
			}
		}
	}
	out := map[string][]*sx{}
	for v, q := range quants {
		out[v] = q.inst
	}
	if envSet("GOVC_DEBUGINST") {
		for _, v := range order {
			q := quants[v]
			fmt.Fprintf(os.Stderr, "QUANT %s body=%d\n", v, q.body.size())
			for _, p := range q.patterns {
				fmt.Fprintf(os.Stderr, "   pattern %s @ %s\n", p.arr, p.idx)
			}
			for _, t := range q.inst {
				fmt.Fprintf(os.Stderr, "   inst %s\n", t)
			}
		}
		for k, v := range byArr {
			fmt.Fprintf(os.Stderr, "READS %s: %d\n", k, len(v))
		}
	}
	return out
}
