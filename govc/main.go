package main

import (
	"encoding/json"
	"flag"
	"fmt"
	"os"
	"sort"
	"strings"
	"sync"
	"time"
)

func main() {
	if len(os.Args) < 2 {
		fatal("usage: govc <func|check|list> ...")
	}
	switch os.Args[1] {
	case "func":
		cmdFunc(os.Args[2:])
	case "check":
		cmdCheck(os.Args[2:])
	case "list":
		cmdList(os.Args[2:])
	case "sweep":
		cmdSweep(os.Args[2:])
	default:
		if f, ok := extraCmds[os.Args[1]]; ok {
			f(os.Args[2:])
			return
		}
		fatal("unknown command %s", os.Args[1])
	}
}

var extraCmds = map[string]func(args []string){}

func jsonIndent(v any) ([]byte, error) { return json.MarshalIndent(v, "", " ") }

func cmdList(args []string) {
	v, err := loadVerifier("/repo")
	if err != nil {
		fatal("%v", err)
	}
	for _, k := range sortedFuncKeys(v.contracts.Funcs) {
		fmt.Println(k)
	}
	for _, e := range v.contracts.Errors {
		fmt.Println("ERROR", e)
	}
}

// cmdFunc: verify functions whose key contains a substring; print every obligation.
func cmdFunc(args []string) {
	fs := flag.NewFlagSet("func", flag.ExitOnError)
	match := fs.String("m", "", "substring of pkg:key")
	timeout := fs.Int("t", 10, "solver timeout (s)")
	keep := fs.Bool("keep", false, "keep SMT files")
	verbose := fs.Bool("v", false, "print proved obligations too")
	root := fs.String("root", "/repo", "repository root")
	fs.Parse(args)
	keepSMT = *keep
	t0 := time.Now()
	v, err := loadVerifier(*root)
	if err != nil {
		fatal("%v", err)
	}
	fmt.Printf("loaded in %.1fs; %d functions, %d contracts\n", time.Since(t0).Seconds(), len(v.funcs), len(v.contracts.Funcs))
	for _, e := range v.contracts.Errors {
		fmt.Println("CONTRACT ERROR", e)
	}
	var execs []*Exec
	for _, k := range sortedFuncKeys(v.contracts.Funcs) {
		if strings.Contains(k, *match) && !strings.HasPrefix(k, "iface:") {
			execs = append(execs, v.verifyFunc(v.contracts.Funcs[k])...)
		}
	}
	for _, p := range v.contracts.Pairs {
		if strings.Contains("pair:"+p.Name, *match) {
			execs = append(execs, v.verifyPair(p)...)
		}
	}
	for _, l := range v.contracts.Lemmas {
		if strings.Contains("lemma:"+l.Name, *match) {
			execs = append(execs, v.verifyLemma(l)...)
		}
	}
	var obs []*Obligation
	for _, x := range execs {
		obs = append(obs, x.obs...)
	}
	t1 := time.Now()
	solveAll(obs, "/verif/out/vc/debug", *timeout, false, 16)
	fmt.Printf("%d obligations solved in %.1fs\n", len(obs), time.Since(t1).Seconds())
	cnt := map[string]int{}
	for _, o := range obs {
		cnt[o.Status]++
		if *verbose || (o.Status != "proved" && o.Status != "cover-ok") {
			fmt.Printf("%-12s %-8s %6.2fs %s  %s  %s\n", o.Status, o.Solver, o.Secs, o.Name, o.Pos, o.Src)
			if o.Status == "failed" || o.Status == "unknown" {
				if len(o.Model) > 0 {
					var ks []string
					for k := range o.Model {
						ks = append(ks, k)
					}
					sort.Strings(ks)
					var ms []string
					for _, k := range ks {
						ms = append(ms, k+"="+o.Model[k])
					}
					fmt.Println("     model:", strings.Join(ms, " "))
				} else {
					fmt.Println("     ", firstLines(o.Output, 3))
					if m := candidateModel(o); m != "" {
						fmt.Println("     candidate model (quantified axioms dropped):", m)
					}
				}
				fmt.Println("     smt:", o.SMTPath)
			}
		}
	}
	fmt.Println("summary:", cnt)
	for _, x := range execs {
		for _, u := range x.unsupported {
			fmt.Println("UNSUPPORTED", x.name, ":", u)
		}
		for _, h := range x.havocAll {
			fmt.Println("HAVOC-ALL", x.name, ":", h)
		}
		for _, h := range x.noTerm {
			fmt.Println("NO-VARIANT", h)
		}
	}
}

// candidateModel re-runs an undecided query without its quantified assertions; a model of that
// weaker query is only a hint for debugging contracts.
func candidateModel(o *Obligation) string {
	if o.SMTPath == "" {
		return ""
	}
	b, err := os.ReadFile(o.SMTPath)
	if err != nil {
		return ""
	}
	var keep []string
	for _, l := range strings.Split(string(b), "\n") {
		if strings.Contains(l, "(forall ") || strings.Contains(l, "(exists ") {
			continue
		}
		keep = append(keep, l)
	}
	tmp := o.SMTPath + ".noq.smt2"
	os.WriteFile(tmp, []byte(strings.Join(keep, "\n")), 0o644)
	defer os.Remove(tmp)
	v, out, _ := runSolver(solvers[0], tmp, 5)
	if v != "sat" {
		return "(" + v + ")"
	}
	var ms []string
	for _, m := range reValue.FindAllStringSubmatch(out, -1) {
		ms = append(ms, strings.Trim(m[1], "|")+"="+strings.ReplaceAll(m[2], " ", ""))
	}
	return strings.Join(ms, " ")
}

func init() {
	extraCmds["static"] = func(args []string) {
		root := "/repo"
		if len(args) >= 2 && args[0] == "-root" {
			root, args = args[1], args[2:]
		}
		v, err := loadVerifier(root)
		if err != nil {
			fatal("%v", err)
		}
		for _, name := range args {
			res, probs := v.runStatic(name)
			b, _ := jsonIndent(res)
			fmt.Println(string(b))
			for _, p := range probs {
				fmt.Println("PROBLEM", p.Key, "::", p.Msg)
			}
		}
	}
}

func init() {
	extraCmds["prewrap"] = cmdPrewrap
}

// cmdPrewrap regenerates baseline/prewrap_contracts.json: for every function / pair under contract
// the arithmetic sites that do not admit a no-overflow proof on the current tree.
func cmdPrewrap(args []string) {
	v, err := loadVerifier("/repo")
	if err != nil {
		fatal("%v", err)
	}
	v.prewrapOut = map[string][]string{}
	var wg sync.WaitGroup
	sem := make(chan struct{}, 8)
	for _, k := range sortedFuncKeys(v.contracts.Funcs) {
		fc := v.contracts.Funcs[k]
		if strings.HasPrefix(k, "iface:") || fc.Trusted {
			continue
		}
		wg.Add(1)
		go func() {
			defer wg.Done()
			sem <- struct{}{}
			defer func() { <-sem; recover() }()
			v.verifyFunc(fc)
		}()
	}
	for _, p := range v.contracts.Pairs {
		p := p
		wg.Add(1)
		go func() {
			defer wg.Done()
			sem <- struct{}{}
			defer func() { <-sem; recover() }()
			v.verifyPair(p)
		}()
	}
	wg.Wait()
	out := map[string][]string{}
	n := 0
	for k, ks := range v.prewrapOut {
		if len(ks) > 0 {
			out[k] = ks
			n += len(ks)
		}
	}
	b, _ := jsonIndent(out)
	if err := os.WriteFile("/verif/baseline/prewrap_contracts.json", b, 0o644); err != nil {
		fatal("%v", err)
	}
	fmt.Printf("prewrap: %d tasks with wrapped sites, %d sites\n", len(out), n)
}
