package main

import (
	"fmt"
	"os"
	"go/types"

	"golang.org/x/tools/go/packages"
	"golang.org/x/tools/go/ssa"
	"golang.org/x/tools/go/ssa/ssautil"
)

func main() {
	cfg := &packages.Config{Mode: packages.LoadAllSyntax, Dir: "/repo", BuildFlags: []string{"-tags=verif"}}
	pkgs, err := packages.Load(cfg, os.Args[1])
	if err != nil {
		panic(err)
	}
	prog, spkgs := ssautil.AllPackages(pkgs, ssa.NaiveForm|ssa.GlobalDebug)
	prog.Build()
	for _, p := range spkgs {
		if p == nil {
			continue
		}
		for _, m := range p.Members {
			if t, ok := m.(*ssa.Type); ok {
				ms := prog.MethodSets.MethodSet(types_ptr(t))
				for i := 0; i < ms.Len(); i++ {
					f := prog.MethodValue(ms.At(i))
					if f != nil && f.Name() == os.Args[2] {
						f.WriteTo(os.Stdout)
					}
				}
			}
			if f, ok := m.(*ssa.Function); ok && f.Name() == os.Args[2] {
				f.WriteTo(os.Stdout)
			}
		}
	}
	fmt.Println("done")
}

func types_ptr(t *ssa.Type) types.Type { return types.NewPointer(t.Type()) }
