package main

import (
	"bytes"
	"context"
	"fmt"
	"os"
	"os/exec"
	"path/filepath"
	"regexp"
	"strings"
	"sync"
	"time"
)

func (o *Obligation) render(withModel bool) string {
	var sb strings.Builder
	sb.WriteString("; obligation " + o.Name + "\n; " + o.Pos + "\n")
	if o.Src != "" {
		sb.WriteString("; " + strings.ReplaceAll(o.Src, "\n", " ") + "\n")
	}
	sb.WriteString("(set-option :produce-models true)\n(set-logic ALL)\n")
	sb.WriteString(smtPrelude())
	x := o.x
	for _, d := range x.defDecls {
		sb.WriteString(d + "\n")
	}
	for _, d := range x.decls[:o.nDecl] {
		sb.WriteString(d + "\n")
	}
	for _, a := range x.asserts[:o.nAssert] {
		if o.Expect == "sat" && strings.HasSuffix(a, ";defq") {
			continue
		}
		sb.WriteString(a + "\n")
	}
	sb.WriteString("(assert " + o.pc + ")\n")
	sb.WriteString("(assert (not " + o.goal + "))\n")
	sb.WriteString("(check-sat)\n")
	if withModel {
		if len(x.modelTerms) > 0 {
			var ts []string
			for _, m := range x.modelTerms {
				ts = append(ts, m.Term)
			}
			sb.WriteString("(get-value (" + strings.Join(ts, " ") + "))\n")
		} else if len(x.paramNames) > 0 {
			sb.WriteString("(get-value (" + strings.Join(x.paramNames, " ") + "))\n")
		}
	}
	return sb.String()
}

type solverSpec struct {
	name string
	args func(timeoutS int, file string) []string
}

var solvers = []solverSpec{
	{"z3-new", func(t int, f string) []string { return []string{"z3-new", fmt.Sprintf("-T:%d", t), f} }},
	{"z3-new/simplex", func(t int, f string) []string {
		return []string{"z3-new", fmt.Sprintf("-T:%d", t), "smt.arith.solver=2", f}
	}},
	{"cvc5", func(t int, f string) []string {
		return []string{"cvc5", fmt.Sprintf("--tlimit=%d", t*1000), "--full-saturate-quant", f}
	}},
	{"z3", func(t int, f string) []string { return []string{"z3", fmt.Sprintf("-T:%d", t), f} }},
}

var reValue = regexp.MustCompile(`\(\s*(\|[^|]*\||[^\s()]+)\s+(\(-\s*\d+\)|-?\d+|true|false)\s*\)`)

func runSolver(s solverSpec, file string, timeoutS int) (verdict string, out string, secs float64) {
	args := s.args(timeoutS, file)
	ctx, cancel := context.WithTimeout(context.Background(), time.Duration(timeoutS+5)*time.Second)
	defer cancel()
	cmd := exec.CommandContext(ctx, args[0], args[1:]...)
	var buf bytes.Buffer
	cmd.Stdout = &buf
	cmd.Stderr = &buf
	t0 := time.Now()
	_ = cmd.Run()
	secs = time.Since(t0).Seconds()
	out = buf.String()
	first := strings.TrimSpace(strings.SplitN(out, "\n", 2)[0])
	switch first {
	case "sat", "unsat", "unknown":
		verdict = first
	case "timeout":
		verdict = "timeout"
	default:
		if strings.Contains(out, "timeout") || ctx.Err() != nil {
			verdict = "timeout"
		} else {
			verdict = "error"
		}
	}
	return
}

// solve decides one obligation; thorough = run every solver and cross-check.
func (o *Obligation) solve(dir string, timeoutS int, thorough bool) {
	if o.Status != "" {
		return // binding errors are pre-failed
	}
	if o.Timeout > 0 && o.Timeout > timeoutS {
		timeoutS = o.Timeout
	}
	if o.Expect == "sat" && timeoutS > 6 {
		// vacuity covers: a short attempt is enough (undecided covers are reported, never an alarm)
		timeoutS = 6
	}
	if o.goal == "true" && o.Expect == "unsat" {
		o.Status, o.Solver = "proved", "trivial"
		return
	}
	fname := strings.NewReplacer("/", "_", ":", "_", "*", "p", "(", "", ")", "", " ", "", "[", "_", "]", "", ",", "_", "=", "").Replace(o.Name)
	if len(fname) > 180 {
		fname = fname[:180]
	}
	path := filepath.Join(dir, fname+".smt2")
	if err := os.WriteFile(path, []byte(o.render(true)), 0o644); err != nil {
		o.Status, o.Output = "unknown", err.Error()
		return
	}
	o.SMTPath = path
	var verdicts []string
	final := ""
	record := func(name, v, out string) bool {
		verdicts = append(verdicts, name+"="+v)
		if v != "sat" && v != "unsat" {
			return false
		}
		if final == "" {
			final = v
			o.Solver = name
			if v == "sat" {
				o.Model = map[string]string{}
				if len(o.x.modelTerms) > 0 {
					vals := parseGetValue(out)
					for i, m := range o.x.modelTerms {
						if i < len(vals) {
							o.Model[m.Label] = vals[i]
						}
					}
				} else {
					for _, m := range reValue.FindAllStringSubmatch(out, -1) {
						val := strings.ReplaceAll(strings.ReplaceAll(strings.ReplaceAll(m[2], "(", ""), ")", ""), " ", "")
						o.Model[strings.Trim(m[1], "|")] = val
					}
				}
			}
			o.Output = strings.TrimSpace(firstLines(out, 40))
			return true
		}
		if final != v {
			o.Status = "failed"
			o.Output = "SOLVER DISAGREEMENT: " + strings.Join(verdicts, " ")
		}
		return true
	}
	if thorough {
		for _, s := range solvers {
			v, out, secs := runSolver(s, path, timeoutS)
			o.Secs += secs
			record(s.name, v, out)
			if strings.HasPrefix(o.Output, "SOLVER DISAGREEMENT") {
				return
			}
		}
	} else {
		// quick tier: first a short attempt with the default configuration, then race the two z3
		// arithmetic configurations, then the remaining solvers one after the other
		v, out, secs := runSolver(solvers[0], path, 2)
		o.Secs += secs
		if !record(solvers[0].name, v, out) {
			type res struct {
				name, v, out string
				secs         float64
			}
			ch := make(chan res, 2)
			for _, s := range solvers[:2] {
				s := s
				go func() {
					v, out, secs := runSolver(s, path, timeoutS)
					ch <- res{s.name, v, out, secs}
				}()
			}
			decided := false
			for i := 0; i < 2; i++ {
				r := <-ch
				o.Secs += r.secs
				if !decided && record(r.name, r.v, r.out) {
					decided = true
					// the other process keeps running until its own timeout; its answer is ignored
					break
				}
			}
			if !decided {
				for _, s := range solvers[2:] {
					v, out, secs := runSolver(s, path, timeoutS)
					o.Secs += secs
					if record(s.name, v, out) {
						break
					}
				}
			}
		}
	}
	if final == "" {
		o.Output = "no solver decided: " + strings.Join(verdicts, " ")
	}
	switch {
	case o.Expect == "unsat" && final == "unsat":
		o.Status = "proved"
		if !keepSMT {
			os.Remove(path)
			o.SMTPath = ""
		}
	case o.Expect == "unsat" && final == "sat":
		o.Status = "failed"
	case o.Expect == "unsat":
		o.Status = "unknown"
	case o.Expect == "sat" && final == "sat":
		o.Status = "cover-ok"
		o.Model = nil
		if !keepSMT {
			os.Remove(path)
			o.SMTPath = ""
		}
	case o.Expect == "sat" && final == "unsat":
		o.Status = "cover-failed"
	default:
		// a cover that no solver could decide is not an alarm, but it is reported
		o.Status = "cover-unknown"
	}
}

var keepSMT = false

func firstLines(s string, n int) string {
	ls := strings.Split(s, "\n")
	if len(ls) > n {
		ls = ls[:n]
	}
	return strings.Join(ls, "\n")
}

func solveAll(obs []*Obligation, dir string, timeoutS int, thorough bool, workers int) {
	os.MkdirAll(dir, 0o755)
	ch := make(chan *Obligation)
	var wg sync.WaitGroup
	for i := 0; i < workers; i++ {
		wg.Add(1)
		go func() {
			defer wg.Done()
			for o := range ch {
				o.solve(dir, timeoutS, thorough)
			}
		}()
	}
	for _, o := range obs {
		ch <- o
	}
	close(ch)
	wg.Wait()
}

// parseGetValue extracts the values of a (get-value ...) answer in order.
func parseGetValue(out string) []string {
	i := strings.Index(out, "((")
	if i < 0 {
		return nil
	}
	s := out[i+1:]
	var vals []string
	pos := 0
	readSexp := func() string {
		for pos < len(s) && (s[pos] == ' ' || s[pos] == '\n' || s[pos] == '\t' || s[pos] == '\r') {
			pos++
		}
		if pos >= len(s) {
			return ""
		}
		start := pos
		if s[pos] == '(' {
			d := 0
			for pos < len(s) {
				if s[pos] == '|' {
					pos++
					for pos < len(s) && s[pos] != '|' {
						pos++
					}
				}
				if s[pos] == '(' {
					d++
				} else if s[pos] == ')' {
					d--
					if d == 0 {
						pos++
						break
					}
				}
				pos++
			}
			return s[start:pos]
		}
		if s[pos] == '|' {
			pos++
			for pos < len(s) && s[pos] != '|' {
				pos++
			}
			pos++
			return s[start:pos]
		}
		for pos < len(s) && !strings.ContainsRune(" \n\t\r()", rune(s[pos])) {
			pos++
		}
		return s[start:pos]
	}
	for pos < len(s) {
		for pos < len(s) && (s[pos] == ' ' || s[pos] == '\n' || s[pos] == '\t' || s[pos] == '\r') {
			pos++
		}
		if pos >= len(s) || s[pos] != '(' {
			break
		}
		pos++ // open pair
		_ = readSexp()
		v := readSexp()
		for pos < len(s) && s[pos] != ')' {
			pos++
		}
		pos++
		v = strings.TrimSpace(v)
		if strings.HasPrefix(v, "(-") {
			v = "-" + strings.TrimSpace(strings.Trim(v[2:], "() "))
		}
		vals = append(vals, v)
	}
	return vals
}

// solveBatch decides a list of obligations of ONE Exec (in generation order) in a single
// incremental z3 process: declarations and definitional assertions are added cumulatively and
// each goal is checked inside push/pop.  Used for the cheap model-soundness range obligations.
func solveBatch(obs []*Obligation, dir string, timeoutMS int) {
	if len(obs) == 0 {
		return
	}
	x := obs[0].x
	var sb strings.Builder
	sb.WriteString("(set-option :produce-models false)\n(set-logic ALL)\n")
	sb.WriteString(fmt.Sprintf("(set-option :timeout %d)\n", timeoutMS))
	sb.WriteString(smtPrelude())
	for _, d := range x.defDecls {
		sb.WriteString(d + "\n")
	}
	nd, na := 0, 0
	for _, o := range obs {
		for ; nd < o.nDecl; nd++ {
			sb.WriteString(x.decls[nd] + "\n")
		}
		for ; na < o.nAssert; na++ {
			sb.WriteString(x.asserts[na] + "\n")
		}
		sb.WriteString("(push 1)\n(assert " + o.pc + ")\n(assert (not " + o.goal + "))\n(check-sat)\n(pop 1)\n")
	}
	os.MkdirAll(dir, 0o755)
	fname := strings.NewReplacer("/", "_", ":", "_", "*", "p", "(", "", ")", "", " ", "", "[", "_", "]", "", ",", "_", "=", "").Replace(obs[0].Name)
	if len(fname) > 150 {
		fname = fname[:150]
	}
	path := filepath.Join(dir, "batch_"+fname+".smt2")
	if err := os.WriteFile(path, []byte(sb.String()), 0o644); err != nil {
		return
	}
	defer os.Remove(path)
	hard := len(obs)*timeoutMS/1000 + 20
	if hard > 120 {
		hard = 120
	}
	ctx, cancel := context.WithTimeout(context.Background(), time.Duration(hard)*time.Second)
	defer cancel()
	cmd := exec.CommandContext(ctx, "z3-new", fmt.Sprintf("-t:%d", timeoutMS), path)
	var buf bytes.Buffer
	cmd.Stdout = &buf
	cmd.Stderr = &buf
	t0 := time.Now()
	_ = cmd.Run()
	secs := time.Since(t0).Seconds()
	var verdicts []string
	for _, l := range strings.Split(buf.String(), "\n") {
		l = strings.TrimSpace(l)
		if l == "sat" || l == "unsat" || l == "unknown" || l == "timeout" {
			verdicts = append(verdicts, l)
		}
	}
	for i, o := range obs {
		o.Secs = secs / float64(len(obs))
		o.Solver = "z3-new"
		if i < len(verdicts) && verdicts[i] == "unsat" {
			o.Status = "proved"
		} else if i < len(verdicts) && verdicts[i] == "sat" {
			o.Status = "failed"
		} else {
			o.Status = "unknown"
		}
	}
}
