package main

import (
	"bytes"
	"context"
	"fmt"
	"os"
	"os/exec"
	"path/filepath"
	"regexp"
	"strings"
	"sync"
	"time"
)

func (o *Obligation) render(withModel bool) string {
	s, _ := o.renderInst(withModel, false)
	return s
}

// renderInst renders the query; with inst it adds generator-side quantifier instances (inst.go)
// and reports whether that changed anything.
func (o *Obligation) renderInst(withModel, inst bool) (string, bool) {
	return o.renderVariant(withModel, inst, false)
}

// renderVariant: weaken additionally replaces positively occurring quantified hypotheses by their
// instances and path-condition definitions by implications (a weaker hypothesis set: only an
// "unsat" answer means anything).
func (o *Obligation) renderVariant(withModel, inst, weaken bool) (string, bool) {
	return o.renderVariantT(withModel, inst, weaken, false)
}

func (o *Obligation) renderVariantT(withModel, inst, weaken, small bool) (string, bool) {
	tier := 2
	if small {
		tier = 1
	}
	return o.renderTier(withModel, inst, weaken, tier)
}

// renderTier: tier 0 = no instantiation terms at all (big quantified hypotheses are simply
// dropped in the weakened variant), 1 = skolems and loop counters, 2 = also path index terms.
func (o *Obligation) renderTier(withModel, inst, weaken bool, tier int) (string, bool) {
	var sb strings.Builder
	sb.WriteString("; obligation " + o.Name + "\n; " + o.Pos + "\n")
	if o.Src != "" {
		sb.WriteString("; " + strings.ReplaceAll(o.Src, "\n", " ") + "\n")
	}
	sb.WriteString("(set-option :produce-models true)\n(set-logic ALL)\n")
	sb.WriteString(smtPrelude())
	x := o.x
	for _, d := range x.defDecls {
		sb.WriteString(d + "\n")
	}
	for _, d := range x.decls[:o.nDecl] {
		sb.WriteString(d + "\n")
	}
	keep, needed := o.slice()
	goal := o.goal
	var terms, allTerms []string
	doInst := false
	if inst && o.Expect != "sat" && !noInst {
		if strings.Contains(goal, "!q") {
			doInst = true
		} else {
			for i, a := range x.asserts[:o.nAssert] {
				if (keep == nil || keep[i]) && strings.Contains(a, "!q") {
					doInst = true
					break
				}
			}
		}
	}
	if doInst {
		var sks []string
		goal, sks = skolemizeGoal(goal)
		for _, s := range sks {
			sb.WriteString("(declare-const " + s + " Int)\n")
		}
		allTerms = o.instTerms(sks, needed, false)
		if tier > 0 && tier < 3 {
			terms = o.instTerms(sks, needed, tier == 1)
		}
	}
	ic := &instCtx{budget: 3000000, weaken: weaken}
	for _, t := range terms {
		if n := parseSx(t); n != nil {
			ic.terms = append(ic.terms, n)
		}
	}
	for _, t := range allTerms {
		if n := parseSx(t); n != nil {
			ic.all = append(ic.all, n)
		}
	}
	isBool := x.isBoolSym
	if doInst && tier == 3 {
		var fs []*sx
		for i, a := range x.asserts[:o.nAssert] {
			if keep != nil && !keep[i] {
				continue
			}
			if !strings.Contains(a, "select") && !strings.Contains(a, "store") && !strings.Contains(a, "H") {
				continue
			}
			body := a
			if k := strings.LastIndex(a, ") ;"); k >= 0 && !strings.Contains(a[k:], "|") {
				body = a[:k+1]
			}
			if n := parseSx(body); n != nil {
				fs = append(fs, n.simplify())
			}
		}
		if n := parseSx(goal); n != nil {
			fs = append(fs, n.simplify())
		}
		ic.perVar = matchInstances(fs, nil)
	}
	for i, a := range x.asserts[:o.nAssert] {
		if o.Expect == "sat" && strings.HasSuffix(a, ";defq") {
			continue
		}
		if keep != nil && !keep[i] {
			continue
		}
		if doInst {
			a = ic.instantiateAssert(a, isBool)
		}
		sb.WriteString(a + "\n")
	}
	sb.WriteString("(assert " + o.pc + ")\n")
	if doInst && strings.Contains(goal, "!q") {
		if n := parseSx(goal); n != nil {
			sav := ic.weaken
			ic.weaken = false
			goal = ic.walk(n, -1).String()
			ic.weaken = sav
		}
	}
	sb.WriteString("(assert (not " + goal + "))\n")
	sb.WriteString("(check-sat)\n")
	if withModel {
		if len(x.modelTerms) > 0 {
			var ts []string
			for _, m := range x.modelTerms {
				ts = append(ts, m.Term)
			}
			sb.WriteString("(get-value (" + strings.Join(ts, " ") + "))\n")
		} else if len(x.paramNames) > 0 {
			sb.WriteString("(get-value (" + strings.Join(x.paramNames, " ") + "))\n")
		}
	}
	return sb.String(), doInst
}

// smtSymbols returns the identifiers of an SMT-LIB fragment (|quoted| symbols as one token).
func smtSymbols(a string) []string {
	var out []string
	i := 0
	for i < len(a) {
		c := a[i]
		switch {
		case c == '|':
			j := strings.IndexByte(a[i+1:], '|')
			if j < 0 {
				return out
			}
			out = append(out, a[i:i+j+2])
			i += j + 2
		case c == ';':
			return out
		case c == '(' || c == ')' || c == ' ' || c == '\t' || c == '\n':
			i++
		default:
			j := i
			for j < len(a) && !strings.ContainsRune("() \t\n|", rune(a[j])) {
				j++
			}
			tok := a[i:j]
			if !(tok[0] >= '0' && tok[0] <= '9') && tok[0] != '-' && tok[0] != '+' && tok[0] != '=' && tok[0] != '<' && tok[0] != '>' && tok[0] != '*' && tok[0] != ':' {
				out = append(out, tok)
			}
			i = j
		}
	}
	return out
}

// slice computes the cone of influence of a proof obligation: the definitions (assert (= sym e))
// of symbols the goal and its path condition depend on, plus every other hypothesis that mentions
// a fresh symbol of the cone (or no fresh symbol at all).  Dropping hypotheses can only make a
// proof harder, never unsound; reachability covers (Expect "sat") keep everything, since for them
// a dropped contradictory hypothesis would hide vacuity.
func (o *Obligation) slice() ([]bool, map[string]bool) {
	if o.Expect == "sat" || noSlice {
		return nil, nil
	}
	x := o.x
	x.symMu.Lock()
	for len(x.assertSyms) < o.nAssert {
		a := x.asserts[len(x.assertSyms)]
		syms := smtSymbols(a)
		info := assertInfo{}
		// "(assert (= SYM ...": definition of a declared constant
		if len(syms) >= 2 && syms[0] == "assert" && strings.HasPrefix(a, "(assert (= "+syms[1]+" ") && x.declared[syms[1]] {
			info.def = syms[1]
			info.syms = syms[2:]
		} else if m := reCondDef.FindStringSubmatch(a); m != nil && x.declared[m[2]] {
			info.def = m[2]
			info.syms = syms[1:]
		} else if m := reArrDef.FindStringSubmatch(a); m != nil && x.declared[m[1]] {
			info.def = m[1]
			info.syms = syms[1:]
		} else {
			info.syms = syms[1:]
		}
		x.assertSyms = append(x.assertSyms, info)
	}
	infos := x.assertSyms[:o.nAssert]
	x.symMu.Unlock()
	needed := map[string]bool{}
	for _, s := range smtSymbols(o.pc) {
		needed[s] = true
	}
	for _, s := range smtSymbols(o.goal) {
		needed[s] = true
	}
	keep := make([]bool, o.nAssert)
	for changed := true; changed; {
		changed = false
		for i := o.nAssert - 1; i >= 0; i-- {
			if keep[i] {
				continue
			}
			in := infos[i]
			take := false
			if in.def != "" {
				take = needed[in.def]
			} else {
				anyFresh := false
				for _, s := range in.syms {
					if strings.Contains(s, "!") && x.declared[s] {
						anyFresh = true
						if needed[s] {
							take = true
							break
						}
					}
				}
				if !anyFresh {
					take = true
				}
			}
			if take {
				keep[i] = true
				changed = true
				for _, s := range in.syms {
					needed[s] = true
				}
			}
		}
	}
	return keep, needed
}

var reCondDef = regexp.MustCompile(`^\(assert \(=> (\S+) \(= (\|[^|]*\||[^\s()]+) `)
var reArrDef = regexp.MustCompile(`^\(assert \(forall \(\(\S+ Int\)\) \(! \(= \(select (\|[^|]*\||[^\s()]+) `)

// absNonlinear replaces every product of two non-constant terms by an uninterpreted function
// application (umul x y).  Every model of the real query yields a model of the abstraction
// (interpret umul as multiplication), so "unsat" carries over; it removes the need for the solver
// to see that x*s and x*t are equal when s = t is only known through a hypothesis.
func absNonlinear(txt string) string {
	if !strings.Contains(txt, "(* ") {
		return txt
	}
	lines := strings.Split(txt, "\n")
	changed := false
	var walk func(n *sx) bool
	walk = func(n *sx) bool {
		if n.list == nil {
			return false
		}
		ch := false
		for _, c := range n.list {
			if walk(c) {
				ch = true
			}
		}
		if n.head() == "*" && len(n.list) == 3 {
			_, c1 := parseNum(n.list[1])
			_, c2 := parseNum(n.list[2])
			lit := func(m *sx) bool { return m.list == nil && len(m.atom) > 0 && m.atom[0] >= '0' && m.atom[0] <= '9' }
			if !c1 && !c2 && !lit(n.list[1]) && !lit(n.list[2]) {
				n.list[0] = &sx{atom: "umul"}
				ch = true
			}
		}
		return ch
	}
	for i, l := range lines {
		if !strings.Contains(l, "(* ") || !(strings.HasPrefix(l, "(assert") || strings.HasPrefix(l, "(define-fun")) {
			continue
		}
		body, tail := l, ""
		if k := strings.LastIndex(l, ") ;"); k >= 0 && !strings.Contains(l[k:], "|") {
			body, tail = l[:k+1], l[k+1:]
		}
		n := parseSx(body)
		if n == nil {
			continue
		}
		if walk(n) {
			lines[i] = n.String() + tail
			changed = true
		}
	}
	if !changed {
		return txt
	}
	out := strings.Join(lines, "\n")
	return strings.Replace(out, "(set-logic ALL)\n", "(set-logic ALL)\n(declare-fun umul (Int Int) Int)\n", 1)
}

var reWrapDef = regexp.MustCompile(`\(define-fun (wrap_[iu]\d+) \(\(x Int\)\) Int [^\n]*`)

type assertInfo struct {
	def  string
	syms []string
}

var noSlice = os.Getenv("GOVC_NOSLICE") != ""

type solverSpec struct {
	name string
	args func(timeoutS int, file string) []string
}

var solvers = []solverSpec{
	{"z3-new", func(t int, f string) []string { return []string{"z3-new", fmt.Sprintf("-T:%d", t), f} }},
	{"z3-new/simplex", func(t int, f string) []string {
		return []string{"z3-new", fmt.Sprintf("-T:%d", t), "smt.arith.solver=2", f}
	}},
	{"cvc5", func(t int, f string) []string {
		return []string{"cvc5", fmt.Sprintf("--tlimit=%d", t*1000), "--full-saturate-quant", f}
	}},
	{"z3", func(t int, f string) []string { return []string{"z3", fmt.Sprintf("-T:%d", t), f} }},
}

var reValue = regexp.MustCompile(`\(\s*(\|[^|]*\||[^\s()]+)\s+(\(-\s*\d+\)|-?\d+|true|false)\s*\)`)

func runSolver(s solverSpec, file string, timeoutS int) (verdict string, out string, secs float64) {
	return runSolverCtx(context.Background(), s, file, timeoutS)
}

// runSolverCtx: as runSolver, but the process is killed when parent is cancelled (verdict "cancelled").
func runSolverCtx(parent context.Context, s solverSpec, file string, timeoutS int) (verdict string, out string, secs float64) {
	args := s.args(timeoutS, file)
	ctx, cancel := context.WithTimeout(parent, time.Duration(timeoutS+5)*time.Second)
	defer cancel()
	cmd := exec.CommandContext(ctx, args[0], args[1:]...)
	var buf bytes.Buffer
	cmd.Stdout = &buf
	cmd.Stderr = &buf
	t0 := time.Now()
	_ = cmd.Run()
	secs = time.Since(t0).Seconds()
	out = buf.String()
	first := strings.TrimSpace(strings.SplitN(out, "\n", 2)[0])
	switch first {
	case "sat", "unsat", "unknown":
		verdict = first
	case "timeout":
		verdict = "timeout"
	default:
		if parent.Err() != nil {
			verdict = "cancelled"
		} else if strings.Contains(out, "timeout") || ctx.Err() != nil {
			verdict = "timeout"
		} else {
			verdict = "error"
		}
	}
	return
}

// solve decides one obligation; thorough = run every solver and cross-check.
func (o *Obligation) solve(dir string, timeoutS int, thorough bool) {
	if o.Status != "" {
		return // binding errors are pre-failed
	}
	if o.Timeout > 0 && o.Timeout > timeoutS {
		timeoutS = o.Timeout
	}
	if o.Expect == "sat" && timeoutS > 6 {
		// vacuity covers: a short attempt is enough (undecided covers are reported, never an alarm)
		timeoutS = 6
	}
	if o.goal == "true" && o.Expect == "unsat" {
		o.Status, o.Solver = "proved", "trivial"
		return
	}
	fname := strings.NewReplacer("/", "_", ":", "_", "*", "p", "(", "", ")", "", " ", "", "[", "_", "]", "", ",", "_", "=", "").Replace(o.Name)
	if len(fname) > 180 {
		fname = fname[:180]
	}
	path := filepath.Join(dir, fname+".smt2")
	if err := os.WriteFile(path, []byte(o.render(true)), 0o644); err != nil {
		o.Status, o.Output = "unknown", err.Error()
		return
	}
	o.SMTPath = path
	// Query variants (see inst.go).  "exact" variants are equivalent to the plain query: both
	// answers count.  The others are weakenings of the hypothesis set (quantified hypotheses
	// replaced by instances, path-condition definitions kept as implications, machine-integer
	// wrap functions left uninterpreted): only "unsat" carries over, anything else is discarded.
	type variant struct {
		name  string
		path  string
		exact bool
	}
	var variants []variant
	if o.Expect == "unsat" {
		write := func(name, txt string, exact bool) {
			vp := filepath.Join(dir, fname+"."+name+".smt2")
			if err := os.WriteFile(vp, []byte(txt), 0o644); err == nil {
				variants = append(variants, variant{name, vp, exact})
			}
		}
		abs := func(txt string) string {
			return absNonlinear(reWrapDef.ReplaceAllString(txt, "(declare-fun $1 (Int) Int)"))
		}
		itxt, changed := o.renderTier(true, true, false, 3)
		if changed {
			write("inst", itxt, true)
			w0, _ := o.renderTier(true, true, true, 0)
			ws, _ := o.renderTier(true, true, true, 3)
			wl, _ := o.renderTier(true, true, true, 2)
			hasWrap := strings.Contains(ws, "(wrap_") || abs(ws) != ws
			if hasWrap {
				write("weak0abs", abs(w0), false)
			} else {
				write("weak0", w0, false)
			}
			if hasWrap {
				write("weakMabs", abs(ws), false)
			}
			write("weakM", ws, false)
			if wl != ws {
				if hasWrap {
					write("weak2abs", abs(wl), false)
				}
				write("weak2", wl, false)
			}
		} else if b, err := os.ReadFile(path); err == nil && (bytes.Contains(b, []byte("(wrap_")) || bytes.Contains(b, []byte("(* "))) {
			if a := abs(string(b)); a != string(b) {
				write("abs", a, false)
			}
		}
	}
	defer func() {
		for _, vr := range variants {
			if !keepSMT || o.Status == "proved" {
				os.Remove(vr.path)
			}
		}
	}()
	var verdicts []string
	final := ""
	record := func(name, v, out string) bool {
		verdicts = append(verdicts, name+"="+v)
		if v != "sat" && v != "unsat" {
			return false
		}
		if final == "" {
			final = v
			o.Solver = name
			if v == "sat" {
				o.Model = map[string]string{}
				if len(o.x.modelTerms) > 0 {
					vals := parseGetValue(out)
					for i, m := range o.x.modelTerms {
						if i < len(vals) {
							o.Model[m.Label] = vals[i]
						}
					}
				} else {
					for _, m := range reValue.FindAllStringSubmatch(out, -1) {
						val := strings.ReplaceAll(strings.ReplaceAll(strings.ReplaceAll(m[2], "(", ""), ")", ""), " ", "")
						o.Model[strings.Trim(m[1], "|")] = val
					}
				}
			}
			o.Output = strings.TrimSpace(firstLines(out, 40))
			return true
		}
		if final != v {
			o.Status = "failed"
			o.Output = "SOLVER DISAGREEMENT: " + strings.Join(verdicts, " ")
		}
		return true
	}
	recordV := func(vr variant, solver, v, out string) bool {
		if vr.exact || v == "unsat" {
			return record(solver+"+"+vr.name, v, out)
		}
		verdicts = append(verdicts, solver+"+"+vr.name+"="+v+"(ignored)")
		return false
	}
	{
		// quick tier: a short attempt on the plain query, then a race of the plain query (two z3
		// arithmetic configurations) and every variant; the first decisive answer wins and the
		// other processes are killed; then the remaining solvers
		v, out, secs := runSolver(solvers[0], path, 2)
		o.Secs += secs
		decided := record(solvers[0].name, v, out)
		if !decided {
			type res struct {
				vr           *variant
				name, v, out string
				secs         float64
			}
			rctx, rcancel := context.WithCancel(context.Background())
			n := 2 + len(variants)
			ch := make(chan res, n+4)
			for _, s := range solvers[:2] {
				s := s
				go func() {
					v, out, secs := runSolverCtx(rctx, s, path, timeoutS)
					ch <- res{nil, s.name, v, out, secs}
				}()
			}
			for i := range variants {
				vr := &variants[i]
				go func() {
					v, out, secs := runSolverCtx(rctx, solvers[0], vr.path, timeoutS)
					ch <- res{vr, solvers[0].name, v, out, secs}
				}()
			}
			// cvc5 on the plain query and on the exact instantiated variant
			n++
			go func() {
				v, out, secs := runSolverCtx(rctx, solvers[2], path, timeoutS)
				ch <- res{nil, solvers[2].name, v, out, secs}
			}()
			for i := range variants {
				if variants[i].exact {
					vr := &variants[i]
					n++
					go func() {
						v, out, secs := runSolverCtx(rctx, solvers[2], vr.path, timeoutS)
						ch <- res{vr, solvers[2].name, v, out, secs}
					}()
				}
			}
			maxSecs := 0.0
			for i := 0; i < n; i++ {
				r := <-ch
				if r.secs > maxSecs {
					maxSecs = r.secs
				}
				if decided || r.v == "cancelled" {
					continue
				}
				if r.vr == nil {
					decided = record(r.name, r.v, r.out)
				} else {
					decided = recordV(*r.vr, r.name, r.v, r.out)
				}
				if decided {
					rcancel()
				}
			}
			rcancel()
			o.Secs += maxSecs
			if !decided {
				for _, s := range solvers[3:] {
					v, out, secs := runSolver(s, path, timeoutS)
					o.Secs += secs
					if record(s.name, v, out) {
						break
					}
				}
			}
		}
	}
	if thorough && final != "" && !strings.HasPrefix(o.Output, "SOLVER DISAGREEMENT") {
		// thorough tier: the decisive answer is cross-checked by a solver of the other family on
		// the plain query and on the exact instantiated variant; a contradicting answer is a failure,
		// an undecided cross-check is recorded
		other := []solverSpec{solvers[2], solvers[3]}
		if strings.HasPrefix(o.Solver, "cvc5") {
			other = []solverSpec{solvers[0], solvers[3]}
		}
		targets := []struct {
			name string
			path string
		}{{"", path}}
		for _, vr := range variants {
			if vr.exact {
				targets = append(targets, struct {
					name string
					path string
				}{"+" + vr.name, vr.path})
			}
		}
		checked := false
		for _, tg := range targets {
			for _, sv := range other {
				if checked {
					break
				}
				v, out, secs := runSolver(sv, tg.path, 60)
				o.Secs += secs
				if v == "sat" || v == "unsat" {
					record(sv.name+tg.name+"(cross-check)", v, out)
					checked = true
				} else {
					verdicts = append(verdicts, sv.name+tg.name+"(cross-check)="+v)
				}
			}
		}
		if strings.HasPrefix(o.Output, "SOLVER DISAGREEMENT") {
			return
		}
		o.CrossChecked = checked
	}
	if final == "" {
		o.Output = "no solver decided: " + strings.Join(verdicts, " ")
	}
	switch {
	case o.Expect == "unsat" && final == "unsat":
		o.Status = "proved"
		if !keepSMT {
			os.Remove(path)
			o.SMTPath = ""
		}
	case o.Expect == "unsat" && final == "sat":
		o.Status = "failed"
	case o.Expect == "unsat":
		o.Status = "unknown"
	case o.Expect == "sat" && final == "sat":
		o.Status = "cover-ok"
		o.Model = nil
		if !keepSMT {
			os.Remove(path)
			o.SMTPath = ""
		}
	case o.Expect == "sat" && final == "unsat":
		o.Status = "cover-failed"
	default:
		// a cover that no solver could decide is not an alarm, but it is reported
		o.Status = "cover-unknown"
	}
}

var keepSMT = false

func firstLines(s string, n int) string {
	ls := strings.Split(s, "\n")
	if len(ls) > n {
		ls = ls[:n]
	}
	return strings.Join(ls, "\n")
}

func solveAll(obs []*Obligation, dir string, timeoutS int, thorough bool, workers int) {
	os.MkdirAll(dir, 0o755)
	ch := make(chan *Obligation)
	var wg sync.WaitGroup
	for i := 0; i < workers; i++ {
		wg.Add(1)
		go func() {
			defer wg.Done()
			for o := range ch {
				o.solve(dir, timeoutS, thorough)
			}
		}()
	}
	for _, o := range obs {
		ch <- o
	}
	close(ch)
	wg.Wait()
	// Second attempt for obligations that ended without an answer (time-out, not a model): a loaded
	// machine must not turn a proof into an alarm.  They are retried a few at a time, so that each
	// solver gets whole cores, with three times the budget.  A decisive first answer (sat or unsat)
	// is never retried.
	var again []*Obligation
	for _, o := range obs {
		if o.Expect == "unsat" && o.Status == "unknown" && o.SMTPath != "" {
			again = append(again, o)
		}
	}
	if len(again) == 0 || len(again) > 40 {
		return
	}
	ch2 := make(chan *Obligation)
	var wg2 sync.WaitGroup
	for i := 0; i < 3; i++ {
		wg2.Add(1)
		go func() {
			defer wg2.Done()
			for o := range ch2 {
				first := o.Secs
				o.Status, o.Solver, o.Output, o.Model = "", "", "", nil
				t := timeoutS
				if o.Timeout > t {
					t = o.Timeout
				}
				o.Timeout = 0
				o.solve(dir, 3*t, thorough)
				o.Secs += first
				o.Retried = true
			}
		}()
	}
	for _, o := range again {
		ch2 <- o
	}
	close(ch2)
	wg2.Wait()
}

// parseGetValue extracts the values of a (get-value ...) answer in order.
func parseGetValue(out string) []string {
	i := strings.Index(out, "((")
	if i < 0 {
		return nil
	}
	s := out[i+1:]
	var vals []string
	pos := 0
	readSexp := func() string {
		for pos < len(s) && (s[pos] == ' ' || s[pos] == '\n' || s[pos] == '\t' || s[pos] == '\r') {
			pos++
		}
		if pos >= len(s) {
			return ""
		}
		start := pos
		if s[pos] == '(' {
			d := 0
			for pos < len(s) {
				if s[pos] == '|' {
					pos++
					for pos < len(s) && s[pos] != '|' {
						pos++
					}
				}
				if s[pos] == '(' {
					d++
				} else if s[pos] == ')' {
					d--
					if d == 0 {
						pos++
						break
					}
				}
				pos++
			}
			return s[start:pos]
		}
		if s[pos] == '|' {
			pos++
			for pos < len(s) && s[pos] != '|' {
				pos++
			}
			pos++
			return s[start:pos]
		}
		for pos < len(s) && !strings.ContainsRune(" \n\t\r()", rune(s[pos])) {
			pos++
		}
		return s[start:pos]
	}
	for pos < len(s) {
		for pos < len(s) && (s[pos] == ' ' || s[pos] == '\n' || s[pos] == '\t' || s[pos] == '\r') {
			pos++
		}
		if pos >= len(s) || s[pos] != '(' {
			break
		}
		pos++ // open pair
		_ = readSexp()
		v := readSexp()
		for pos < len(s) && s[pos] != ')' {
			pos++
		}
		pos++
		v = strings.TrimSpace(v)
		if strings.HasPrefix(v, "(-") {
			v = "-" + strings.TrimSpace(strings.Trim(v[2:], "() "))
		}
		vals = append(vals, v)
	}
	return vals
}

// solveBatch decides a list of obligations of ONE Exec (in generation order) in a single
// incremental z3 process: declarations and definitional assertions are added cumulatively and
// each goal is checked inside push/pop.  Used for the cheap model-soundness range obligations.
func solveBatch(obs []*Obligation, dir string, timeoutMS int) {
	if len(obs) == 0 {
		return
	}
	x := obs[0].x
	var sb strings.Builder
	sb.WriteString("(set-option :produce-models false)\n(set-logic ALL)\n")
	sb.WriteString(fmt.Sprintf("(set-option :timeout %d)\n", timeoutMS))
	sb.WriteString(smtPrelude())
	for _, d := range x.defDecls {
		sb.WriteString(d + "\n")
	}
	nd, na := 0, 0
	for _, o := range obs {
		for ; nd < o.nDecl; nd++ {
			sb.WriteString(x.decls[nd] + "\n")
		}
		for ; na < o.nAssert; na++ {
			sb.WriteString(x.asserts[na] + "\n")
		}
		sb.WriteString("(push 1)\n(assert " + o.pc + ")\n(assert (not " + o.goal + "))\n(check-sat)\n(pop 1)\n")
	}
	os.MkdirAll(dir, 0o755)
	fname := strings.NewReplacer("/", "_", ":", "_", "*", "p", "(", "", ")", "", " ", "", "[", "_", "]", "", ",", "_", "=", "").Replace(obs[0].Name)
	if len(fname) > 150 {
		fname = fname[:150]
	}
	path := filepath.Join(dir, "batch_"+fname+".smt2")
	if err := os.WriteFile(path, []byte(sb.String()), 0o644); err != nil {
		return
	}
	defer os.Remove(path)
	hard := len(obs)*timeoutMS/1000 + 20
	if hard > 120 {
		hard = 120
	}
	ctx, cancel := context.WithTimeout(context.Background(), time.Duration(hard)*time.Second)
	defer cancel()
	cmd := exec.CommandContext(ctx, "z3-new", fmt.Sprintf("-t:%d", timeoutMS), path)
	var buf bytes.Buffer
	cmd.Stdout = &buf
	cmd.Stderr = &buf
	t0 := time.Now()
	_ = cmd.Run()
	secs := time.Since(t0).Seconds()
	var verdicts []string
	for _, l := range strings.Split(buf.String(), "\n") {
		l = strings.TrimSpace(l)
		if l == "sat" || l == "unsat" || l == "unknown" || l == "timeout" {
			verdicts = append(verdicts, l)
		}
	}
	for i, o := range obs {
		o.Secs = secs / float64(len(obs))
		o.Solver = "z3-new"
		if i < len(verdicts) && verdicts[i] == "unsat" {
			o.Status = "proved"
		} else if i < len(verdicts) && verdicts[i] == "sat" {
			o.Status = "failed"
		} else {
			o.Status = "unknown"
		}
	}
}
