package main

// Compile specification expressions to Go source, so that a solver model of a failed
// post-condition can be replayed on the real function: call it with the model's arguments and
// evaluate the post-condition on the real result.

import (
	"fmt"
	"go/ast"
	"go/token"
	"strings"

	"golang.org/x/tools/go/ssa"
)

type goCompiler struct {
	v          *Verifier
	fn         *ssa.Function
	params     map[string]string // spec param name -> Go expression
	results    []string
	olds       []string // Go statements saving old() values before the call
	nOld       int
	defs       map[string]bool
	defSrc     []string
	bound      map[string]bool
	inOld      bool
	err        error
	predParams []string
}

func (g *goCompiler) fail(format string, a ...any) string {
	if g.err == nil {
		g.err = fmt.Errorf(format, a...)
	}
	return "0"
}

// expr compiles e; integers are Go int, booleans Go bool.
func (g *goCompiler) expr(e ast.Expr) string {
	switch t := e.(type) {
	case *ast.ParenExpr:
		return "(" + g.expr(t.X) + ")"
	case *ast.BasicLit:
		return "int(" + t.Value + ")"
	case *ast.Ident:
		switch t.Name {
		case "true", "false", "nil":
			return t.Name
		case "result":
			if len(g.results) > 0 {
				return g.resultExpr(0)
			}
			return g.fail("result outside post-condition")
		}
		if g.bound[t.Name] {
			return t.Name
		}
		if strings.HasPrefix(t.Name, "result") {
			var k int
			if _, err := fmt.Sscanf(t.Name, "result%d", &k); err == nil && k < len(g.results) {
				return g.resultExpr(k)
			}
		}
		if p, ok := g.params[t.Name]; ok {
			for _, pp := range g.predParams {
				if pp == t.Name {
					return p // predicate parameter: already a compiled expression
				}
			}
			for _, fp := range g.fn.Params {
				if fp.Name() == t.Name && isInteger(fp.Type()) {
					return "int(" + p + ")"
				}
			}
			return p
		}
		res := g.fn.Signature.Results()
		for i := 0; i < res.Len(); i++ {
			if res.At(i).Name() == t.Name && i < len(g.results) {
				return g.resultExpr(i)
			}
		}
		if d, ok := g.v.contracts.Defs[t.Name]; ok && len(d.Params) == 0 {
			g.useDef(t.Name)
			return "verifDef_" + t.Name + "()"
		}
		// package-level constant or variable of the function's package
		if g.fn.Pkg != nil && g.fn.Pkg.Pkg.Scope().Lookup(t.Name) != nil {
			return "int(" + t.Name + ")"
		}
		return g.fail("cannot compile identifier %s", t.Name)
	case *ast.UnaryExpr:
		switch t.Op {
		case token.SUB:
			return "(-" + g.expr(t.X) + ")"
		case token.NOT:
			return "(!" + g.expr(t.X) + ")"
		case token.ADD:
			return g.expr(t.X)
		}
	case *ast.StarExpr:
		return "(*" + g.access(t.X) + ")"
	case *ast.SelectorExpr, *ast.IndexExpr:
		return g.scalar(g.access(e))
	case *ast.BinaryExpr:
		a, b := g.expr(t.X), g.expr(t.Y)
		switch t.Op {
		case token.LAND, token.LOR, token.EQL, token.NEQ, token.LSS, token.LEQ, token.GTR, token.GEQ, token.ADD, token.SUB, token.MUL:
			return "(" + a + " " + t.Op.String() + " " + b + ")"
		case token.QUO:
			return "verifTdiv(" + a + ", " + b + ")"
		case token.REM:
			return "verifTrem(" + a + ", " + b + ")"
		case token.SHL:
			return "(" + a + " << uint(" + b + "))"
		case token.SHR:
			return "(" + a + " >> uint(" + b + "))"
		case token.AND, token.OR, token.XOR:
			return "(" + a + " " + t.Op.String() + " " + b + ")"
		}
	case *ast.CallExpr:
		return g.call(t)
	}
	return g.fail("cannot compile %s", exprStr(e))
}

func (g *goCompiler) resultExpr(i int) string {
	res := g.fn.Signature.Results()
	if i < res.Len() && isInteger(res.At(i).Type()) {
		return "int(" + g.results[i] + ")"
	}
	return g.results[i]
}

// scalar converts an access expression to int unless it is boolean/pointer-like; since the type is
// not tracked here, integers are converted through a generic helper.
func (g *goCompiler) scalar(acc string) string {
	return "verifInt(" + acc + ")"
}

// access compiles an lvalue-like path (params, fields, indexing) to Go source.
func (g *goCompiler) access(e ast.Expr) string {
	switch t := e.(type) {
	case *ast.ParenExpr:
		return g.access(t.X)
	case *ast.Ident:
		if t.Name == "result" && len(g.results) > 0 {
			return g.results[0]
		}
		if strings.HasPrefix(t.Name, "result") {
			var k int
			if _, err := fmt.Sscanf(t.Name, "result%d", &k); err == nil && k < len(g.results) {
				return g.results[k]
			}
		}
		if p, ok := g.params[t.Name]; ok {
			return p
		}
		if g.fn.Pkg != nil && g.fn.Pkg.Pkg.Scope().Lookup(t.Name) != nil {
			return t.Name
		}
		return g.fail("cannot compile access to %s", t.Name)
	case *ast.SelectorExpr:
		if id, ok := t.X.(*ast.Ident); ok {
			if _, isParam := g.params[id.Name]; !isParam && id.Name != "result" && !strings.HasPrefix(id.Name, "result") {
				return id.Name + "." + t.Sel.Name // package-qualified
			}
		}
		return g.access(t.X) + "." + t.Sel.Name
	case *ast.IndexExpr:
		return g.access(t.X) + "[" + g.expr(t.Index) + "]"
	case *ast.StarExpr:
		return "(*" + g.access(t.X) + ")"
	}
	return g.fail("cannot compile access %s", exprStr(e))
}

func (g *goCompiler) call(c *ast.CallExpr) string {
	id, ok := c.Fun.(*ast.Ident)
	if !ok {
		return g.fail("cannot compile call %s", exprStr(c))
	}
	args := func() []string {
		var as []string
		for _, a := range c.Args {
			as = append(as, g.expr(a))
		}
		return as
	}
	switch id.Name {
	case "old":
		if g.inOld {
			return g.expr(c.Args[0])
		}
		g.inOld = true
		src := g.expr(c.Args[0])
		g.inOld = false
		g.nOld++
		name := fmt.Sprintf("old%d", g.nOld)
		g.olds = append(g.olds, name+" := "+src)
		return name
	case "len":
		return "len(" + g.access(c.Args[0]) + ")"
	case "cap":
		return "cap(" + g.access(c.Args[0]) + ")"
	case "implies":
		a := args()
		return "(!(" + a[0] + ") || (" + a[1] + "))"
	case "iff":
		a := args()
		return "((" + a[0] + ") == (" + a[1] + "))"
	case "ite":
		a := args()
		return "verifIte(" + a[0] + ", func() any { return " + a[1] + " }, func() any { return " + a[2] + " })"
	case "min", "max", "mod", "div":
		a := args()
		return "verif" + strings.Title(id.Name) + "(" + strings.Join(a, ", ") + ")"
	case "abs":
		return "verifAbs(" + g.expr(c.Args[0]) + ")"
	case "pow2":
		return "(1 << uint(" + g.expr(c.Args[0]) + "))"
	case "isnil":
		return "(" + g.access(c.Args[0]) + " == nil)"
	case "forall", "exists":
		v, ok := c.Args[0].(*ast.Ident)
		if !ok {
			return g.fail("bad quantifier")
		}
		lo, hi := g.expr(c.Args[1]), g.expr(c.Args[2])
		g.bound[v.Name] = true
		body := g.expr(c.Args[3])
		delete(g.bound, v.Name)
		if id.Name == "forall" {
			return fmt.Sprintf("func() bool { for %s := %s; %s < %s; %s++ { if !(%s) { return false } }; return true }()", v.Name, lo, v.Name, hi, v.Name, body)
		}
		return fmt.Sprintf("func() bool { for %s := %s; %s < %s; %s++ { if %s { return true } }; return false }()", v.Name, lo, v.Name, hi, v.Name, body)
	case "int", "int8", "int16", "int32", "int64", "uint8", "uint16", "uint32", "byte":
		return "int(" + id.Name + "(" + g.expr(c.Args[0]) + "))"
	}
	if d, ok := g.v.contracts.Defs[id.Name]; ok {
		g.useDef(id.Name)
		_ = d
		return "verifDef_" + id.Name + "(" + strings.Join(args(), ", ") + ")"
	}
	if pr, ok := g.v.contracts.Preds[id.Name]; ok && len(pr.Params) == len(c.Args) {
		// predicates / macros are expanded in place: parameters stand for the argument expressions
		vals := make([]string, len(pr.Params))
		for i := range pr.Params {
			switch c.Args[i].(type) {
			case *ast.Ident, *ast.SelectorExpr, *ast.IndexExpr, *ast.StarExpr:
				sub := &goCompiler{v: g.v, fn: g.fn, params: g.params, results: g.results, defs: g.defs, bound: g.bound, predParams: g.predParams}
				vals[i] = sub.access(c.Args[i])
				if sub.err != nil {
					vals[i] = g.expr(c.Args[i])
				}
			default:
				vals[i] = g.expr(c.Args[i])
			}
		}
		saved := map[string]string{}
		had := map[string]bool{}
		for i, pn := range pr.Params {
			if old, ok := g.params[pn]; ok {
				saved[pn], had[pn] = old, true
			}
			g.params[pn] = vals[i]
		}
		g.predParams = append(g.predParams, pr.Params...)
		body := g.expr(pr.Body)
		g.predParams = g.predParams[:len(g.predParams)-len(pr.Params)]
		for _, pn := range pr.Params {
			if had[pn] {
				g.params[pn] = saved[pn]
			} else {
				delete(g.params, pn)
			}
		}
		return "(" + body + ")"
	}
	return g.fail("cannot compile specification function %s", id.Name)
}

func (g *goCompiler) useDef(name string) {
	if g.defs[name] {
		return
	}
	g.defs[name] = true
	d := g.v.contracts.Defs[name]
	sub := &goCompiler{v: g.v, fn: g.fn, params: map[string]string{}, defs: g.defs, bound: map[string]bool{}}
	var ps []string
	for _, p := range d.Params {
		pn, pt := p, "int"
		if i := strings.Index(p, ":"); i >= 0 {
			pn = p[:i]
			if p[i+1:] == "bool" {
				pt = "bool"
			}
		}
		sub.bound[pn] = true
		ps = append(ps, pn+" "+pt)
	}
	body := sub.expr(d.Body)
	if sub.err != nil && g.err == nil {
		g.err = sub.err
	}
	g.defSrc = append(g.defSrc, sub.defSrc...)
	rt := "int"
	if d.Bool {
		rt = "bool"
	}
	conv := "verifInt(" + body + ")"
	if d.Bool {
		conv = body
	}
	g.defSrc = append(g.defSrc, fmt.Sprintf("func verifDef_%s(%s) %s { return %s }", name, strings.Join(ps, ", "), rt, conv))
}

const replayHelpers = `
func verifInt(x any) int {
	switch v := x.(type) {
	case int: return v
	case int8: return int(v)
	case int16: return int(v)
	case int32: return int(v)
	case int64: return int(v)
	case uint8: return int(v)
	case uint16: return int(v)
	case uint32: return int(v)
	case uint64: return int(v)
	case uint: return int(v)
	case bool: if v { return 1 }; return 0
	}
	panic(fmt.Sprintf("verifInt: %T", x))
}
func verifIte(c bool, a, b func() any) int { if c { return verifInt(a()) }; return verifInt(b()) }
func verifTdiv(a, b int) int { if b == 0 { return 0 }; return a / b }
func verifTrem(a, b int) int { if b == 0 { return 0 }; return a % b }
func verifMin(a, b int) int { if a < b { return a }; return b }
func verifMax(a, b int) int { if a > b { return a }; return b }
func verifAbs(a int) int { if a < 0 { return -a }; return a }
func verifMod(a, b int) int { if b == 0 { return 0 }; m := a % b; if m < 0 { if b > 0 { m += b } else { m -= b } }; return m }
func verifDiv(a, b int) int { if b == 0 { return 0 }; return (a - verifMod(a, b)) / b }
`

// exprGlobal compiles a closed expression over package-level names (tables are indexed directly).
func (g *goCompiler) exprGlobal(e ast.Expr) string {
	return g.expr(e)
}
