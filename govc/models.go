package main

// Trusted models of library functions.  Every model used by a verification task is listed in the
// evidence as part of the trusted base.

import (
	"fmt"
	"go/token"
	"go/types"
	"strings"

	"golang.org/x/tools/go/ssa"
)

type Model struct {
	name   string
	exec   func(x *Exec, fr *Frame, st *State, c *ssa.CallCommon, args []Val, rt types.Type, pos token.Pos) Val
	writes func(x *Exec, env *staticEnv, c *ssa.CallCommon, m *modSet)
}

func noWrites(x *Exec, env *staticEnv, c *ssa.CallCommon, m *modSet) {}

func recvWrites(x *Exec, env *staticEnv, c *ssa.CallCommon, m *modSet) {
	if len(c.Args) == 0 {
		m.all = true
		return
	}
	for _, r := range env.roots(c.Args[0]) {
		m.addRootWrites(r)
	}
}

func allWrites(x *Exec, env *staticEnv, c *ssa.CallCommon, m *modSet) { m.all = true }

var models = map[string]*Model{}

func regModel(name string, exec func(x *Exec, fr *Frame, st *State, c *ssa.CallCommon, args []Val, rt types.Type, pos token.Pos) Val,
	writes func(x *Exec, env *staticEnv, c *ssa.CallCommon, m *modSet)) {
	models[name] = &Model{name: name, exec: exec, writes: writes}
}

func (x *Exec) useModel(name string) { x.trusted["model "+name] = true }

func nonNilErr(x *Exec, st *State) Val {
	e := x.fresh("err", "Int")
	x.assume(st, "(> "+e+" 0)")
	return Val{Typ: types.Universe.Lookup("error").Type(), L: []string{e}, NonNil: true}
}

func nilErr() Val {
	return Val{Typ: types.Universe.Lookup("error").Type(), L: []string{"0"}}
}

// pureStdlib: functions of side-effect-free standard packages get a generic "fresh result, no
// writes" model (pointer-receiver methods additionally havoc their receiver).
func pureStdlib(fn *ssa.Function) *Model {
	pp := funcPkgPath(fn)
	switch pp {
	case "fmt", "errors", "math", "math/bits", "strings", "strconv", "unicode", "unicode/utf8", "sort", "slices", "os", "log", "time", "math/rand", "image", "image/color":
	default:
		return nil
	}
	name := fn.String()
	if pp == "sort" || pp == "slices" || pp == "image" {
		return &Model{name: name + " (havoc)", exec: func(x *Exec, fr *Frame, st *State, c *ssa.CallCommon, args []Val, rt types.Type, pos token.Pos) Val {
			x.useModel(name + ": unknown effects, everything havoced")
			x.havocAllMem(st)
			return x.freshResult(st, rt, "lib")
		}, writes: allWrites}
	}
	recvPtr := false
	if r := fn.Signature.Recv(); r != nil {
		if _, ok := r.Type().Underlying().(*types.Pointer); ok {
			recvPtr = true
		}
	}
	if recvPtr {
		return &Model{name: name, exec: func(x *Exec, fr *Frame, st *State, c *ssa.CallCommon, args []Val, rt types.Type, pos token.Pos) Val {
			x.useModel(name + ": havocs its receiver only")
			if len(args) > 0 {
				loc := x.locOf(args[0])
				nv, _ := x.freshVal("rcv", loc.T)
				x.writeLoc(st, loc, nv)
			}
			return x.freshResult(st, rt, "lib")
		}, writes: recvWrites}
	}
	return &Model{name: name, exec: func(x *Exec, fr *Frame, st *State, c *ssa.CallCommon, args []Val, rt types.Type, pos token.Pos) Val {
		x.useModel(name + ": no heap effects, unconstrained result")
		r := x.freshResult(st, rt, "lib")
		if strings.HasPrefix(name, "fmt.Errorf") || name == "errors.New" {
			x.assume(st, "(> "+r.t()+" 0)")
			r.NonNil = true
		}
		if name == "math/bits.Len32" || name == "math/bits.Len" || name == "math/bits.Len64" || name == "math/bits.Len16" || name == "math/bits.Len8" {
			a := args[0].t()
			x.assume(st, smtAnd("(<= 0 "+r.t()+")", "(<= "+r.t()+" 64)",
				smtImp("(= "+a+" 0)", "(= "+r.t()+" 0)"),
				smtImp("(> "+a+" 0)", smtAnd("(<= (pow2 (- "+r.t()+" 1)) "+a+")", "(< "+a+" (pow2 "+r.t()+"))"))))
		}
		return r
	}, writes: noWrites}
}

// ifaceModel: interface method calls with a built-in meaning.
func (v *Verifier) ifaceModel(c *ssa.CallCommon) *Model {
	if c.Method == nil {
		return nil
	}
	full := c.Method.FullName()
	switch full {
	case "(error).Error":
		return &Model{name: full, exec: func(x *Exec, fr *Frame, st *State, c *ssa.CallCommon, args []Val, rt types.Type, pos token.Pos) Val {
			return x.freshResult(st, rt, "errstr")
		}, writes: noWrites}
	}
	if fc := v.contracts.Funcs["iface:"+full]; fc != nil {
		return &Model{name: "iface " + full, exec: func(x *Exec, fr *Frame, st *State, cc *ssa.CallCommon, args []Val, rt types.Type, pos token.Pos) Val {
			x.trusted["interface contract "+full] = true
			return x.applyIfaceContract(fr, st, fc, c, args, rt, pos)
		}, writes: func(x *Exec, env *staticEnv, cc *ssa.CallCommon, m *modSet) {
			if !fc.HasAssign {
				m.all = true
				return
			}
			for _, pat := range fc.Assigns {
				switch {
				case strings.HasPrefix(pat, "g_"):
					m.addComp("G:ghost."+pat, "Int")
				case strings.HasPrefix(pat, "@"):
					m.prefixes = append(m.prefixes, "S:"+x.resolveTypeKey(pat[1:]))
				default:
					m.all = true
				}
			}
		}}
	}
	return nil
}

// applyIfaceContract: interface contracts may only have ensures over results and `pure`.
func (x *Exec) applyIfaceContract(fr *Frame, st *State, fc *FuncContract, c *ssa.CallCommon, args []Val, rt types.Type, pos token.Pos) Val {
	sig := c.Method.Type().(*types.Signature)
	old := st.clone()
	if !fc.HasAssign {
		x.havocAllMem(st)
	} else {
		henv := &Env{x: x, vars: map[string]Val{"recv": args[0]}, st: st, fn: fr.fn}
		for i := 0; i < sig.Params().Len(); i++ {
			if i+1 < len(args) {
				henv.vars[sig.Params().At(i).Name()] = args[i+1]
				henv.vars[fmt.Sprintf("arg%d", i)] = args[i+1] // unnamed interface parameters
			}
		}
		for _, pat := range fc.Assigns {
			if err := x.havocPattern(henv, st, pat); err != nil {
				x.havocAllMem(st)
			}
		}
	}
	var results []Val
	for i := 0; i < sig.Results().Len(); i++ {
		v, f := x.freshVal("ir", sig.Results().At(i).Type())
		x.assume(st, f)
		results = append(results, v)
	}
	env := &Env{x: x, vars: map[string]Val{}, st: st, old: old, post: true, results: results, fn: fr.fn}
	env.vars["recv"] = args[0]
	for i := 0; i < sig.Params().Len(); i++ {
		if i+1 < len(args) {
			env.vars[sig.Params().At(i).Name()] = args[i+1]
			env.vars[fmt.Sprintf("arg%d", i)] = args[i+1] // unnamed interface parameters
		}
	}
	env.oldVars = env.vars
	for _, e := range fc.Ensures {
		t, err := x.specBool(env, e.Expr)
		if err != nil {
			x.bindingError("interface ensures "+e.Src, err.Error(), e.File, e.Line)
			continue
		}
		x.assume(st, t)
	}
	return packResults(rt, results)
}

func bufLoc(x *Exec, v Val) *Loc {
	return x.locOf(v)
}

func init() {
	// ---- bytes.Buffer: ghost (len, data) -------------------------------------------------------
	regModel("(*bytes.Buffer).WriteByte", func(x *Exec, fr *Frame, st *State, c *ssa.CallCommon, args []Val, rt types.Type, pos token.Pos) Val {
		x.useModel("(*bytes.Buffer).WriteByte appends one byte; returns nil")
		x.nilCheck(st, fr, args[0], pos)
		loc := bufLoc(x, args[0])
		cur := x.readLoc(st, loc)
		nl := x.define("blen", "Int", "(+ "+cur.L[0]+" 1)")
		nd := x.define("bdat", "(Array Int Int)", "(store "+cur.L[1]+" "+cur.L[0]+" "+args[1].t()+")")
		x.writeLoc(st, loc, Val{Typ: loc.T, L: []string{nl, nd}})
		return nilErr()
	}, recvWrites)
	bufWrite := func(x *Exec, fr *Frame, st *State, c *ssa.CallCommon, args []Val, rt types.Type, pos token.Pos) Val {
		x.useModel("(*bytes.Buffer).Write appends len(p) bytes equal to p; returns (len(p), nil)")
		x.nilCheck(st, fr, args[0], pos)
		loc := bufLoc(x, args[0])
		cur := x.readLoc(st, loc)
		p := args[1]
		var plen string
		if len(p.L) == 4 {
			plen = p.L[2]
		} else {
			plen = x.define("sl", "Int", "(strlen "+p.t()+")")
			x.assume(st, "(>= "+plen+" 0)")
		}
		nl := x.define("blen", "Int", "(+ "+cur.L[0]+" "+plen+")")
		nd := x.fresh("bdat", "(Array Int Int)")
		k := "k!" + fmt.Sprint(x.n)
		if len(p.L) == 4 {
			sArr, _ := x.elemArrRead(st, p, types.Typ[types.Uint8], 0)
			x.assertDefQ(fmt.Sprintf("(forall ((%s Int)) (! (= (select %s %s) (ite (and (<= %s %s) (< %s %s)) (select %s (+ %s (- %s %s))) (select %s %s))) :pattern ((select %s %s))))",
				k, nd, k, cur.L[0], k, k, nl, sArr, p.L[1], k, cur.L[0], cur.L[1], k, nd, k))
		} else {
			x.assertDefQ(fmt.Sprintf("(forall ((%s Int)) (! (=> (< %s %s) (= (select %s %s) (select %s %s))) :pattern ((select %s %s))))", k, k, cur.L[0], nd, k, cur.L[1], k, nd, k))
		}
		x.writeLoc(st, loc, Val{Typ: loc.T, L: []string{nl, nd}})
		return packResults(rt, []Val{{Typ: types.Typ[types.Int], L: []string{plen}}, nilErr()})
	}
	regModel("(*bytes.Buffer).Write", bufWrite, recvWrites)
	regModel("(*bytes.Buffer).WriteString", bufWrite, recvWrites)
	regModel("(*bytes.Buffer).Len", func(x *Exec, fr *Frame, st *State, c *ssa.CallCommon, args []Val, rt types.Type, pos token.Pos) Val {
		x.useModel("(*bytes.Buffer).Len returns the number of bytes written (buffers are never read from in this code base)")
		x.nilCheck(st, fr, args[0], pos)
		cur := x.readLoc(st, bufLoc(x, args[0]))
		return Val{Typ: rt, L: []string{cur.L[0]}}
	}, noWrites)
	regModel("(*bytes.Buffer).Bytes", func(x *Exec, fr *Frame, st *State, c *ssa.CallCommon, args []Val, rt types.Type, pos token.Pos) Val {
		x.useModel("(*bytes.Buffer).Bytes returns a fresh-array view holding the bytes written (aliasing with the buffer is not modelled)")
		x.nilCheck(st, fr, args[0], pos)
		cur := x.readLoc(st, bufLoc(x, args[0]))
		arr := x.newRef(st, "bytes")
		key := "E:" + typeKey(types.Typ[types.Uint8])
		srt := "(Array Int (Array Int Int))"
		comp := x.getComp(st, key, srt)
		st.mem[key] = x.define("H", srt, "(store "+comp+" "+arr+" "+cur.L[1]+")")
		cp := x.fresh("bcap", "Int")
		x.assume(st, "(>= "+cp+" "+cur.L[0]+")")
		return Val{Typ: rt, L: []string{arr, "0", cur.L[0], cp}}
	}, noWrites)
	regModel("(*bytes.Buffer).Reset", func(x *Exec, fr *Frame, st *State, c *ssa.CallCommon, args []Val, rt types.Type, pos token.Pos) Val {
		x.useModel("(*bytes.Buffer).Reset empties the buffer")
		loc := bufLoc(x, args[0])
		cur := x.readLoc(st, loc)
		x.writeLoc(st, loc, Val{Typ: loc.T, L: []string{"0", cur.L[1]}})
		return Val{Typ: rt}
	}, recvWrites)
	regModel("(*bytes.Buffer).Grow", func(x *Exec, fr *Frame, st *State, c *ssa.CallCommon, args []Val, rt types.Type, pos token.Pos) Val {
		x.useModel("(*bytes.Buffer).Grow has no visible effect (panics on negative argument)")
		x.safety(st, fr, "grow-neg", pos, "(>= "+args[1].t()+" 0)")
		return Val{Typ: rt}
	}, noWrites)
	regModel("bytes.NewReader", func(x *Exec, fr *Frame, st *State, c *ssa.CallCommon, args []Val, rt types.Type, pos token.Pos) Val {
		x.useModel("bytes.NewReader returns a fresh reader object")
		ref := x.newRef(st, "rdr")
		return Val{Typ: rt, L: []string{ref}, NonNil: true}
	}, noWrites)
	regModel("bytes.NewBuffer", func(x *Exec, fr *Frame, st *State, c *ssa.CallCommon, args []Val, rt types.Type, pos token.Pos) Val {
		x.useModel("bytes.NewBuffer returns a fresh buffer whose ghost contents are buf[0:len]; later writes are NOT reflected in buf")
		ref := x.newRef(st, "nbuf")
		bt := deref(rt)
		loc := &Loc{Kind: locMem, Key: "S:" + typeKey(bt), Lead: []string{ref}, RootT: bt, T: bt}
		p := args[0]
		nd := x.fresh("bdat", "(Array Int Int)")
		x.writeLoc(st, loc, Val{Typ: bt, L: []string{p.L[2], nd}})
		x.unsup("bytes.NewBuffer: writes through the new buffer into the caller's slice are not modelled")
		return Val{Typ: rt, L: []string{ref}, NonNil: true}
	}, noWrites)

	// ---- encoding/binary -------------------------------------------------------------------------
	regModel("encoding/binary.Write", func(x *Exec, fr *Frame, st *State, c *ssa.CallCommon, args []Val, rt types.Type, pos token.Pos) Val {
		x.useModel("binary.Write(w,order,fixed-size integer) appends the value's bytes in the given order to a *bytes.Buffer (unconstrained bytes when the order is not a known constant)")
		w, data := args[0], args[2]
		if w.Dyn != nil && isBytesBuffer(deref(w.Dyn.Typ)) && data.Dyn != nil && isInteger(data.Dyn.Typ) {
			bits, _, _ := intInfo(data.Dyn.Typ)
			loc := bufLoc(x, *w.Dyn)
			cur := x.readLoc(st, loc)
			nl := x.define("blen", "Int", fmt.Sprintf("(+ %s %d)", cur.L[0], bits/8))
			// byte order: the dynamic type of the order argument (binary.bigEndian / littleEndian)
			order := ""
			if args[1].Dyn != nil {
				switch ts := args[1].Dyn.Typ.String(); {
				case strings.HasSuffix(ts, "bigEndian"):
					order = "be"
				case strings.HasSuffix(ts, "littleEndian"):
					order = "le"
				}
			}
			if order != "" && data.Dyn != nil && len(data.Dyn.L) == 1 {
				// exact contents: the value's bytes in the given order (two's complement for
				// negative values: v mod 2^bits)
				n := bits / 8
				v := fmt.Sprintf("(mod %s %s)", data.Dyn.L[0], pow2str(bits))
				ndT := cur.L[1]
				for i := 0; i < n; i++ {
					sh := (n - 1 - i) * 8
					if order == "le" {
						sh = i * 8
					}
					byteV := fmt.Sprintf("(mod (div %s %s) 256)", v, pow2str(sh))
					if n == 1 {
						byteV = v
					}
					ndT = fmt.Sprintf("(store %s (+ %s %d) %s)", ndT, cur.L[0], i, byteV)
				}
				nd := x.define("bdat", "(Array Int Int)", ndT)
				x.writeLoc(st, loc, Val{Typ: loc.T, L: []string{nl, nd}})
				return nilErr()
			}
			nd := x.fresh("bdat", "(Array Int Int)")
			k := "k!" + fmt.Sprint(x.n)
			x.assertDefQ(fmt.Sprintf("(forall ((%s Int)) (! (=> (< %s %s) (= (select %s %s) (select %s %s))) :pattern ((select %s %s))))", k, k, cur.L[0], nd, k, cur.L[1], k, nd, k))
			x.assertByteRange(nd)
			x.writeLoc(st, loc, Val{Typ: loc.T, L: []string{nl, nd}})
			return nilErr()
		}
		x.havocAll = append(x.havocAll, "binary.Write with unknown writer at "+x.posString(pos))
		x.havocAllMem(st)
		return x.freshResult(st, rt, "bw")
	}, func(x *Exec, env *staticEnv, c *ssa.CallCommon, m *modSet) {
		// the writer is an interface made from a pointer: find the MakeInterface operand
		if mi, ok := c.Args[0].(*ssa.MakeInterface); ok {
			for _, r := range env.roots(mi.X) {
				m.addRootWrites(r)
			}
			return
		}
		m.all = true
	})
	regModel("encoding/binary.Read", func(x *Exec, fr *Frame, st *State, c *ssa.CallCommon, args []Val, rt types.Type, pos token.Pos) Val {
		x.useModel("binary.Read(r,order,*integer) stores an unconstrained value of that type; error unconstrained")
		data := args[2]
		if data.Dyn != nil {
			if _, ok := data.Dyn.Typ.Underlying().(*types.Pointer); ok {
				loc := x.locOf(*data.Dyn)
				nv, f := x.freshVal("rd", loc.T)
				x.assume(st, f)
				x.writeLoc(st, loc, nv)
				return x.freshResult(st, rt, "rderr")
			}
		}
		x.havocAll = append(x.havocAll, "binary.Read with unknown target at "+x.posString(pos))
		x.havocAllMem(st)
		return x.freshResult(st, rt, "rderr")
	}, func(x *Exec, env *staticEnv, c *ssa.CallCommon, m *modSet) {
		if mi, ok := c.Args[2].(*ssa.MakeInterface); ok {
			for _, r := range env.roots(mi.X) {
				m.addRootWrites(r)
			}
			return
		}
		m.all = true
	})
	for _, ord := range []string{"bigEndian", "littleEndian"} {
		for _, w := range []int{16, 32, 64} {
			ord, w := ord, w
			regModel(fmt.Sprintf("(encoding/binary.%s).Uint%d", ord, w), func(x *Exec, fr *Frame, st *State, c *ssa.CallCommon, args []Val, rt types.Type, pos token.Pos) Val {
				x.useModel(fmt.Sprintf("binary.%s.Uint%d reads %d bytes (panics when shorter)", ord, w, w/8))
				b := args[1]
				n := w / 8
				x.safety(st, fr, "index", pos, fmt.Sprintf("(<= %d %s)", n, b.L[2]))
				var terms []string
				for i := 0; i < n; i++ {
					abs := fmt.Sprintf("(+ %s %d)", b.L[1], i)
					ev := x.readLoc(st, x.sliceElemLoc(b, abs, types.Typ[types.Uint8]))
					sh := (n - 1 - i) * 8
					if ord == "littleEndian" {
						sh = i * 8
					}
					terms = append(terms, fmt.Sprintf("(* %s %s)", ev.t(), pow2str(sh)))
				}
				return Val{Typ: rt, L: []string{x.define("be", "Int", "(+ "+strings.Join(terms, " ")+")")}}
			}, noWrites)
			regModel(fmt.Sprintf("(encoding/binary.%s).PutUint%d", ord, w), func(x *Exec, fr *Frame, st *State, c *ssa.CallCommon, args []Val, rt types.Type, pos token.Pos) Val {
				x.useModel(fmt.Sprintf("binary.%s.PutUint%d writes %d bytes (panics when shorter)", ord, w, w/8))
				b, v := args[1], args[2]
				n := w / 8
				x.safety(st, fr, "index", pos, fmt.Sprintf("(<= %d %s)", n, b.L[2]))
				for i := 0; i < n; i++ {
					abs := fmt.Sprintf("(+ %s %d)", b.L[1], i)
					sh := (n - 1 - i) * 8
					if ord == "littleEndian" {
						sh = i * 8
					}
					byteV := fmt.Sprintf("(mod (div %s %s) 256)", v.t(), pow2str(sh))
					x.writeLoc(st, x.sliceElemLoc(b, abs, types.Typ[types.Uint8]), Val{Typ: types.Typ[types.Uint8], L: []string{byteV}})
				}
				return Val{Typ: rt}
			}, func(x *Exec, env *staticEnv, c *ssa.CallCommon, m *modSet) {
				for _, r := range env.sliceElemRoots(c.Args[1], types.Typ[types.Uint8]) {
					m.addRootWrites(r)
				}
			})
		}
	}
	regModel("io.ReadFull", func(x *Exec, fr *Frame, st *State, c *ssa.CallCommon, args []Val, rt types.Type, pos token.Pos) Val {
		x.useModel("io.ReadFull overwrites buf with unconstrained bytes; n in [0,len(buf)]; reader state not modelled")
		b := args[1]
		if err := x.havocPattern(&Env{x: x, vars: map[string]Val{"buf": b}, st: st}, st, "buf[*]"); err != nil {
			x.havocAllMem(st)
		}
		r := x.freshResult(st, rt, "rf")
		if len(r.Tuple) == 2 {
			x.assume(st, smtAnd("(<= 0 "+r.Tuple[0].t()+")", "(<= "+r.Tuple[0].t()+" "+b.L[2]+")", smtImp("(= "+r.Tuple[1].t()+" 0)", "(= "+r.Tuple[0].t()+" "+b.L[2]+")")))
		}
		return r
	}, func(x *Exec, env *staticEnv, c *ssa.CallCommon, m *modSet) {
		for _, r := range env.sliceElemRoots(c.Args[1], types.Typ[types.Uint8]) {
			m.addRootWrites(r)
		}
		// the reader itself is unknown
	})
}
