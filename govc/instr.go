package main

import (
	"fmt"
	"go/constant"
	"go/token"
	"go/types"
	"hash/fnv"
	"math/big"
	"strings"

	"golang.org/x/tools/go/ssa"
)

const maxAlloc = "281474976710656" // 2^48: makeslice panics above this (elements of size >= 1)

// val evaluates an SSA value in the current frame.
func (x *Exec) val(fr *Frame, st *State, v ssa.Value) Val {
	switch t := v.(type) {
	case *ssa.Const:
		return x.constVal(t)
	case *ssa.Global:
		rt := deref(t.Type())
		return Val{Typ: t.Type(), Loc: &Loc{Kind: locMem, Key: "G:" + globalName(t), RootT: rt, T: rt}}
	case *ssa.Function:
		return Val{Typ: t.Type(), L: []string{x.funcID(t)}, Fn: t}
	case *ssa.Builtin:
		return Val{Typ: t.Type(), L: []string{"0"}}
	case *ssa.Alloc:
		if r, ok := fr.vals[v]; ok {
			return r
		}
		if !t.Heap {
			rt := deref(t.Type())
			return Val{Typ: t.Type(), Loc: &Loc{Kind: locLocal, Alloc: t, RootT: rt, T: rt}}
		}
	}
	if r, ok := fr.vals[v]; ok {
		return r
	}
	if fr.region != nil {
		// value defined before the loop whose body is executed in isolation: arbitrary
		fv, f := x.freshVal("rgv_"+v.Name(), v.Type())
		x.assume(st, f)
		fr.vals[v] = fv
		return fv
	}
	// value defined in a block not yet executed (should not happen in a reducible CFG)
	x.unsup("use of undefined SSA value %s in %s", v.Name(), fr.fn.Name())
	fv, _ := x.freshVal("undef", v.Type())
	return fv
}

func (x *Exec) funcID(f *ssa.Function) string {
	h := fnv.New32a()
	h.Write([]byte(f.String()))
	return fmt.Sprintf("%d", 1000000+int(h.Sum32()%1000000000))
}

func (x *Exec) constVal(c *ssa.Const) Val {
	t := c.Type()
	if c.Value == nil {
		return x.zeroVal(t)
	}
	switch c.Value.Kind() {
	case constant.Bool:
		if constant.BoolVal(c.Value) {
			return Val{Typ: t, L: []string{"true"}}
		}
		return Val{Typ: t, L: []string{"false"}}
	case constant.Int:
		if b, ok := t.Underlying().(*types.Basic); ok && b.Info()&types.IsFloat != 0 {
			return Val{Typ: t, L: []string{bigIntStr(c.Value) + ".0"}}
		}
		return Val{Typ: t, L: []string{bigIntStr(c.Value)}}
	case constant.Float:
		if b, ok := t.Underlying().(*types.Basic); ok && b.Info()&types.IsInteger != 0 {
			return Val{Typ: t, L: []string{bigIntStr(constant.ToInt(c.Value))}}
		}
		return Val{Typ: t, L: []string{floatStr(c.Value)}}
	case constant.String:
		s := constant.StringVal(c.Value)
		h := fnv.New64a()
		h.Write([]byte(s))
		id := fmt.Sprintf("%d", 2000000000+h.Sum64()%1000000000)
		x.strLens[id] = len(s)
		return Val{Typ: t, L: []string{id}, Str: &s}
	}
	fv, _ := x.freshVal("const", t)
	return fv
}

func bigIntStr(v constant.Value) string {
	s := v.ExactString()
	if strings.HasPrefix(s, "-") {
		return "(- " + s[1:] + ")"
	}
	return s
}

func floatStr(v constant.Value) string {
	r, ok := new(big.Rat).SetString(v.ExactString())
	if !ok {
		return "0.0"
	}
	neg := r.Sign() < 0
	if neg {
		r.Neg(r)
	}
	s := "(/ " + r.Num().String() + ".0 " + r.Denom().String() + ".0)"
	if r.IsInt() {
		s = r.Num().String() + ".0"
	}
	if neg {
		s = "(- " + s + ")"
	}
	return s
}

// locOf converts a pointer value to a location.
func (x *Exec) locOf(v Val) *Loc {
	if v.Loc != nil {
		return v.Loc
	}
	pt := deref(v.Typ)
	return &Loc{Kind: locMem, Key: "S:" + typeKey(pt), Lead: []string{v.t()}, RootT: pt, T: pt}
}

func (x *Exec) safety(st *State, fr *Frame, kind string, pos token.Pos, goal string) {
	if !x.noSafety && !x.skipSafety {
		x.oblige(st, kind, fr.propTags, pos, goal, "")
	}
	x.assume(st, goal)
}

func (x *Exec) nilCheck(st *State, fr *Frame, v Val, pos token.Pos) {
	if v.Loc != nil && len(v.L) == 0 {
		return
	}
	if v.Loc != nil && v.Loc.Kind == locMem && len(v.Loc.Lead) == 1 && v.Loc.Lead[0] == v.t() && v.NonNil {
		return
	}
	if v.NonNil {
		return
	}
	x.safety(st, fr, "nil-deref", pos, "(not (= "+v.t()+" 0))")
}

func (x *Exec) execInstr(fr *Frame, st *State, in ssa.Instruction) {
	switch t := in.(type) {
	case *ssa.DebugRef, *ssa.RunDefers:
		return
	case *ssa.Alloc:
		rt := deref(t.Type())
		if !t.Heap {
			st.cells[t] = x.zeroVal(rt)
			return
		}
		ref := x.newRef(st, "new")
		loc := &Loc{Kind: locMem, Key: "S:" + typeKey(rt), Lead: []string{ref}, RootT: rt, T: rt}
		x.writeLoc(st, loc, x.zeroVal(rt))
		fr.vals[t] = Val{Typ: t.Type(), L: []string{ref}, NonNil: true}
	case *ssa.Store:
		a := x.val(fr, st, t.Addr)
		x.nilCheck(st, fr, a, t.Pos())
		loc := x.locOf(a)
		v := x.val(fr, st, t.Val)
		if fr.top && fr.fc != nil && fr.fc.HasAssign {
			x.frameCheck(fr, st, loc, t.Pos())
		}
		x.writeLoc(st, loc, v)
	case *ssa.UnOp:
		fr.vals[t] = x.nameVal(x.unop(fr, st, t), "u")
	case *ssa.BinOp:
		fr.vals[t] = x.nameVal(x.binop(fr, st, t), "b")
	case *ssa.FieldAddr:
		p := x.val(fr, st, t.X)
		x.nilCheck(st, fr, p, t.Pos())
		loc := x.locOf(p)
		ft := deref(t.Type())
		fr.vals[t] = Val{Typ: t.Type(), Loc: loc.extend(Step{Field: t.Field}, ft)}
	case *ssa.Field:
		s := x.val(fr, st, t.X)
		stt := s.Typ.Underlying().(*types.Struct)
		off := 0
		for i := 0; i < t.Field; i++ {
			off += len(leavesOf(stt.Field(i).Type()))
		}
		n := len(leavesOf(stt.Field(t.Field).Type()))
		fr.vals[t] = Val{Typ: t.Type(), L: append([]string{}, s.L[off:off+n]...)}
	case *ssa.IndexAddr:
		fr.vals[t] = x.indexAddr(fr, st, t)
	case *ssa.Index:
		fr.vals[t] = x.index(fr, st, t)
	case *ssa.Slice:
		fr.vals[t] = x.sliceOp(fr, st, t)
	case *ssa.MakeSlice:
		l := x.val(fr, st, t.Len).t()
		c := x.val(fr, st, t.Cap).t()
		x.safety(st, fr, "make-len", t.Pos(), smtAnd("(<= 0 "+l+")", "(<= "+l+" "+c+")", "(<= "+c+" "+maxAlloc+")"))
		x.allocBudget(fr, st, c, t.Pos())
		et := t.Type().Underlying().(*types.Slice).Elem()
		arr := x.newRef(st, "mk")
		x.initElems(st, et, arr)
		fr.vals[t] = Val{Typ: t.Type(), L: []string{arr, "0", l, c}}
	case *ssa.MakeMap, *ssa.MakeChan:
		ref := x.newRef(st, "map")
		fr.vals[t.(ssa.Value)] = Val{Typ: t.(ssa.Value).Type(), L: []string{ref}, NonNil: true}
	case *ssa.MakeClosure:
		fn, _ := t.Fn.(*ssa.Function)
		var binds []Val
		for _, b := range t.Bindings {
			binds = append(binds, x.val(fr, st, b))
		}
		fr.vals[t] = Val{Typ: t.Type(), L: []string{x.fresh("clo", "Int")}, Fn: fn, Binds: binds, NonNil: true}
	case *ssa.MakeInterface:
		v := x.val(fr, st, t.X)
		id := x.fresh("ifc", "Int")
		x.assume(st, "(> "+id+" 0)")
		fr.vals[t] = Val{Typ: t.Type(), L: []string{id}, Dyn: &v, NonNil: true}
	case *ssa.ChangeInterface:
		v := x.val(fr, st, t.X)
		v.Typ = t.Type()
		fr.vals[t] = v
	case *ssa.ChangeType:
		v := x.val(fr, st, t.X)
		v.Typ = t.Type()
		fr.vals[t] = v
	case *ssa.Convert:
		fr.vals[t] = x.convert(fr, st, t)
	case *ssa.MultiConvert:
		fv, f := x.freshVal("mconv", t.Type())
		x.assume(st, f)
		fr.vals[t] = fv
	case *ssa.SliceToArrayPointer:
		x.unsup("slice to array pointer conversion at %s", x.posString(t.Pos()))
		fv, f := x.freshVal("s2a", t.Type())
		x.assume(st, f)
		fr.vals[t] = fv
	case *ssa.TypeAssert:
		fr.vals[t] = x.typeAssert(fr, st, t)
	case *ssa.Extract:
		tup := x.val(fr, st, t.Tuple)
		if tup.Tuple != nil && t.Index < len(tup.Tuple) {
			fr.vals[t] = tup.Tuple[t.Index]
		} else {
			fv, f := x.freshVal("ext", t.Type())
			x.assume(st, f)
			fr.vals[t] = fv
		}
	case *ssa.Phi:
		// phi nodes appear only for && / || in naive form; the value is decided by the incoming pc's.
		// Incoming edge conditions are not tracked per edge here, so define through implications on
		// the predecessor block reach conditions recorded in blockOut.
		fr.vals[t] = x.phi(fr, st, t)
	case *ssa.Call:
		fr.vals[t] = x.call(fr, st, &t.Call, t, t.Pos())
	case *ssa.Defer:
		x.unsup("defer in %s at %s (deferred call effects are applied immediately)", fr.fn.Name(), x.posString(t.Pos()))
	case *ssa.Go:
		x.unsup("go statement in %s", fr.fn.Name())
		x.havocAllMem(st)
	case *ssa.Lookup:
		// map or string lookup: contents not modelled
		if _, isStr := t.X.Type().Underlying().(*types.Basic); isStr {
			s := x.val(fr, st, t.X)
			i := x.val(fr, st, t.Index).t()
			x.safety(st, fr, "index", t.Pos(), smtAnd("(<= 0 "+i+")", "(< "+i+" (strlen "+s.t()+"))"))
		}
		if t.CommaOk {
			v, f := x.freshVal("lk", t.Type().(*types.Tuple).At(0).Type())
			ok, _ := x.freshVal("lkok", types.Typ[types.Bool])
			x.assume(st, f)
			fr.vals[t] = Val{Typ: t.Type(), Tuple: []Val{v, ok}}
		} else {
			v, f := x.freshVal("lk", t.Type())
			x.assume(st, f)
			fr.vals[t] = v
		}
	case *ssa.MapUpdate:
		m := x.val(fr, st, t.Map)
		x.safety(st, fr, "nil-map", t.Pos(), "(not (= "+m.t()+" 0))")
	case *ssa.Range:
		fr.vals[t] = Val{Typ: t.Type(), L: []string{x.fresh("rng", "Int")}}
	case *ssa.Next:
		tt := t.Type().(*types.Tuple)
		var parts []Val
		for i := 0; i < tt.Len(); i++ {
			v, f := x.freshVal("nx", tt.At(i).Type())
			x.assume(st, f)
			parts = append(parts, v)
		}
		fr.vals[t] = Val{Typ: t.Type(), Tuple: parts}
	case *ssa.Send, *ssa.Select:
		x.unsup("channel operation in %s", fr.fn.Name())
		x.havocAllMem(st)
	default:
		x.unsup("unsupported instruction %T in %s", in, fr.fn.Name())
		if v, ok := in.(ssa.Value); ok {
			fv, f := x.freshVal("uns", v.Type())
			x.assume(st, f)
			fr.vals[v] = fv
		}
	}
}

// nameVal gives every non-atomic leaf term a name (keeps queries small and solver-friendly).
func (x *Exec) nameVal(v Val, hint string) Val {
	ls := leavesOf(v.Typ)
	if len(ls) != len(v.L) {
		return v
	}
	for i := range v.L {
		v.L[i] = x.define(hint, ls[i].smtSort(0), v.L[i])
	}
	return v
}

// newRef allocates a reference distinct from everything seen so far.
func (x *Exec) newRef(st *State, hint string) string {
	r := x.fresh(hint, "Int")
	x.refN++
	// fresh references are numbered from a range no pre-existing reference can be in:
	// all references that exist at function entry (and all unconstrained ones) are assumed < 2^40,
	// allocations are exactly 2^40 + k.
	x.assert("(= " + r + " " + fmt.Sprintf("%d", (int64(1)<<40)+int64(x.refN)) + ")")
	st.fresh = append(st.fresh, r)
	return r
}

func (x *Exec) initElems(st *State, et types.Type, arr string) {
	for _, l := range leavesOf(et) {
		key := "E:" + typeKey(et) + l.Path
		srt := l.smtSort(2)
		comp := x.getComp(st, key, srt)
		z := zeroLeafTerm(Leaf{Sort: l.Sort, Dims: l.Dims + 1}, 0)
		st.mem[key] = x.define("H", srt, "(store "+comp+" "+arr+" "+z+")")
	}
}

func (x *Exec) havocAllMem(st *State) {
	st.mem = map[string]string{}
	st.epoch = "C" + x.newEpoch()
}

func (x *Exec) allocBudget(fr *Frame, st *State, n string, pos token.Pos) {
	if !fr.top || fr.fc == nil || fr.fc.AllocBound == "" {
		return
	}
	e, err := parseExprSrc(fr.fc.AllocBound)
	if err != nil {
		x.bindingError("allocbound", err.Error(), fr.fc.File, fr.fc.Line)
		return
	}
	env := x.frameEnv(fr, st, pos)
	b, err := x.specInt(env, e)
	if err != nil {
		x.bindingError("allocbound "+fr.fc.AllocBound, err.Error(), fr.fc.File, fr.fc.Line)
		return
	}
	x.oblige(st, "alloc-bound", fr.fc.AllocProp, pos, "(<= "+n+" "+b+")", "make length <= "+fr.fc.AllocBound)
}

// ---------------------------------------------------------------------------------------------

func (x *Exec) unop(fr *Frame, st *State, t *ssa.UnOp) Val {
	switch t.Op {
	case token.MUL: // load
		p := x.val(fr, st, t.X)
		x.nilCheck(st, fr, p, t.Pos())
		return x.readLoc(st, x.locOf(p))
	case token.NOT:
		return Val{Typ: t.Type(), L: []string{smtNot(x.val(fr, st, t.X).t())}}
	case token.SUB:
		v := x.val(fr, st, t.X)
		if isFloat(t.Type()) {
			return Val{Typ: t.Type(), L: []string{"(fneg " + v.t() + ")"}}
		}
		return Val{Typ: t.Type(), L: []string{x.wrapAt(fr, st, t, t.Type(), "(- "+v.t()+")")}}
	case token.XOR:
		v := x.val(fr, st, t.X)
		bits, signed, _ := intInfo(t.Type())
		if signed {
			return Val{Typ: t.Type(), L: []string{"(- (- " + v.t() + ") 1)"}}
		}
		return Val{Typ: t.Type(), L: []string{"(- " + pow2str(bits) + " 1 " + v.t() + ")"}}
	case token.ARROW:
		x.unsup("channel receive")
		fv, f := x.freshVal("rcv", t.Type())
		x.assume(st, f)
		return fv
	}
	x.unsup("unary op %s", t.Op)
	fv, f := x.freshVal("un", t.Type())
	x.assume(st, f)
	return fv
}

func intBoundsBig(t types.Type) (lo, hi *big.Int, ok bool) {
	bits, signed, ok := intInfo(t)
	if !ok {
		return nil, nil, false
	}
	one := big.NewInt(1)
	if signed {
		h := new(big.Int).Lsh(one, uint(bits-1))
		return new(big.Int).Neg(h), new(big.Int).Sub(h, one), true
	}
	return big.NewInt(0), new(big.Int).Sub(new(big.Int).Lsh(one, uint(bits)), one), true
}

func isFloat(t types.Type) bool {
	b, ok := t.Underlying().(*types.Basic)
	return ok && b.Info()&types.IsFloat != 0
}

func isInteger(t types.Type) bool {
	b, ok := t.Underlying().(*types.Basic)
	return ok && b.Info()&types.IsInteger != 0
}

func isString(t types.Type) bool {
	b, ok := t.Underlying().(*types.Basic)
	return ok && b.Info()&types.IsString != 0
}

func (x *Exec) wrap(t types.Type, term string) string {
	w := wrapFn(t)
	if w == "" {
		return term
	}
	if isLiteral(term) {
		// constants are already in range (the type checker guarantees it)
		return term
	}
	return "(" + w + " " + term + ")"
}

// wrapAt returns the value of an integer operation whose mathematical result is term.
// First choice: prove that the result is in the range of its type (a "range" obligation) and use
// the mathematical term unchanged.  When an earlier pass could not prove that for this site, the
// operation is encoded exactly with Go's wrap-around semantics instead.
func (x *Exec) wrapAt(fr *Frame, st *State, site ssa.Instruction, t types.Type, term string) string {
	w := wrapFn(t)
	if w == "" || isLiteral(term) {
		return term
	}
	key := x.siteKey(fr, site)
	// stable key (across runs): source line text of the site and of the enclosing call sites, plus
	// the occurrence number in execution order
	if x.key2Count == nil {
		x.key2Count = map[string]int{}
		x.siteKey2 = map[string]string{}
	}
	base := x.V.lineText(site.Pos())
	for f := fr; f != nil && f.callSite != nil; f = f.parent {
		base += " <- " + x.V.lineText(f.callSite.Pos())
	}
	x.key2Count[base]++
	key2 := fmt.Sprintf("%s #%d", base, x.key2Count[base])
	x.siteKey2[key] = key2
	if x.preWrap2[key2] {
		x.wrapped++
		return x.define("w", "Int", "("+w+" "+term+")")
	}
	if x.textNames && x.preWrap != nil && x.preWrap[x.peekName("range", site.Pos())] {
		// keep the numbering of later obligations on this line stable
		x.obCount["range"]++
		x.obCount["range:"+x.V.lineText(site.Pos())]++
		x.wrapped++
		return x.define("w", "Int", "("+w+" "+term+")")
	}
	if x.mustWrap[key] || x.mustWrap["*"] {
		x.wrapped++
		return x.define("w", "Int", "("+w+" "+term+")")
	}
	lo, hi, _ := intBounds(t)
	c := x.define("a", "Int", term)
	goal := smtAnd("(<= "+lo+" "+c+")", "(<= "+c+" "+hi+")")
	o := x.oblige(st, "range", nil, site.Pos(), goal, "integer result in range of "+t.String())
	o.site = key
	x.assume(st, goal)
	return c
}

func (x *Exec) siteKey(fr *Frame, site ssa.Instruction) string {
	path := ""
	for f := fr; f != nil; f = f.parent {
		path += fmt.Sprintf("/%p", f.callSite)
	}
	return fmt.Sprintf("%p%s|%s", site, path, x.splitLabel)
}

// litVal parses an SMT integer literal produced by this generator ("12", "(- 3)").
func litVal(t string) (*big.Int, bool) {
	if !isLiteral(t) || t == "true" || t == "false" {
		return nil, false
	}
	neg := false
	u := t
	if strings.HasPrefix(t, "(- ") {
		neg = true
		u = strings.TrimSuffix(t[3:], ")")
	}
	b, ok := new(big.Int).SetString(u, 10)
	if !ok {
		return nil, false
	}
	if neg {
		b.Neg(b)
	}
	return b, true
}

func bigLit(b *big.Int) string {
	if b.Sign() < 0 {
		return "(- " + new(big.Int).Neg(b).String() + ")"
	}
	return b.String()
}

// termConstInt: the operand is an SSA constant or its term is a literal (after split substitution).
func termConstInt(v ssa.Value, term string) (int64, bool) {
	if n, ok := constInt(v); ok {
		return n, true
	}
	if b, ok := litVal(term); ok && b.IsInt64() {
		return b.Int64(), true
	}
	return 0, false
}

func termConstBig(v ssa.Value, term string) (*big.Int, bool) {
	if b, ok := constBig(v); ok {
		return b, true
	}
	return litVal(term)
}

// constShift returns the constant value of v if it is an integer constant.
func constInt(v ssa.Value) (int64, bool) {
	c, ok := v.(*ssa.Const)
	if !ok || c.Value == nil || c.Value.Kind() != constant.Int {
		return 0, false
	}
	n, exact := constant.Int64Val(c.Value)
	if !exact {
		// may be a uint64 constant above MaxInt64
		return 0, false
	}
	return n, true
}

func constBig(v ssa.Value) (*big.Int, bool) {
	c, ok := v.(*ssa.Const)
	if !ok || c.Value == nil || c.Value.Kind() != constant.Int {
		return nil, false
	}
	b, ok := new(big.Int).SetString(c.Value.ExactString(), 10)
	return b, ok
}

// isMask reports whether n == 2^k - 1 (k >= 0).
func isMask(n *big.Int) (int, bool) {
	if n.Sign() < 0 {
		return 0, false
	}
	m := new(big.Int).Add(n, big.NewInt(1))
	if m.Sign() > 0 && new(big.Int).And(m, n).Sign() == 0 {
		return m.BitLen() - 1, true
	}
	return 0, false
}

func (x *Exec) binop(fr *Frame, st *State, t *ssa.BinOp) Val {
	a := x.val(fr, st, t.X)
	b := x.val(fr, st, t.Y)
	rt := t.Type()
	ot := t.X.Type() // operand type
	mk := func(s string) Val { return Val{Typ: rt, L: []string{s}} }
	switch t.Op {
	case token.EQL, token.NEQ:
		eq := x.valEq(a, b)
		if t.Op == token.NEQ {
			eq = smtNot(eq)
		}
		return mk(eq)
	}
	if isFloat(ot) {
		switch t.Op {
		case token.ADD:
			return mk("(fadd " + a.t() + " " + b.t() + ")")
		case token.SUB:
			return mk("(fsub " + a.t() + " " + b.t() + ")")
		case token.MUL:
			return mk("(fmul " + a.t() + " " + b.t() + ")")
		case token.QUO:
			return mk("(fdiv " + a.t() + " " + b.t() + ")")
		case token.LSS:
			return mk("(flt " + a.t() + " " + b.t() + ")")
		case token.LEQ:
			return mk("(fle " + a.t() + " " + b.t() + ")")
		case token.GTR:
			return mk("(flt " + b.t() + " " + a.t() + ")")
		case token.GEQ:
			return mk("(fle " + b.t() + " " + a.t() + ")")
		}
	}
	if isString(ot) {
		switch t.Op {
		case token.ADD:
			fv, _ := x.freshVal("scat", rt)
			x.assume(st, "(= (strlen "+fv.t()+") (+ (strlen "+a.t()+") (strlen "+b.t()+")))")
			return fv
		default:
			fv, _ := x.freshVal("scmp", rt)
			return fv
		}
	}
	if !isInteger(ot) {
		x.unsup("binary op %s on %s", t.Op, ot)
		fv, f := x.freshVal("bin", rt)
		x.assume(st, f)
		return fv
	}
	A, B := a.t(), b.t()
	if la, ok := litVal(A); ok {
		if lb, ok := litVal(B); ok {
			var r *big.Int
			switch t.Op {
			case token.ADD:
				r = new(big.Int).Add(la, lb)
			case token.SUB:
				r = new(big.Int).Sub(la, lb)
			case token.MUL:
				r = new(big.Int).Mul(la, lb)
			case token.SHL:
				if lb.Sign() >= 0 && lb.IsInt64() && lb.Int64() < 64 {
					r = new(big.Int).Lsh(la, uint(lb.Int64()))
				}
			}
			if r != nil {
				// fold only when the result fits the type (no wrap-around to model)
				if lo, hi, ok := intBoundsBig(rt); ok && r.Cmp(lo) >= 0 && r.Cmp(hi) <= 0 {
					return mk(bigLit(r))
				}
			}
		}
	}
	switch t.Op {
	case token.LSS:
		return mk("(< " + A + " " + B + ")")
	case token.LEQ:
		return mk("(<= " + A + " " + B + ")")
	case token.GTR:
		return mk("(> " + A + " " + B + ")")
	case token.GEQ:
		return mk("(>= " + A + " " + B + ")")
	case token.ADD:
		return mk(x.wrapAt(fr, st, t, rt, "(+ "+A+" "+B+")"))
	case token.SUB:
		return mk(x.wrapAt(fr, st, t, rt, "(- "+A+" "+B+")"))
	case token.MUL:
		return mk(x.wrapAt(fr, st, t, rt, "(* "+A+" "+B+")"))
	case token.QUO:
		x.safety(st, fr, "div-zero", t.Pos(), "(not (= "+B+" 0))")
		if n, ok := termConstInt(t.Y, B); ok && n > 0 {
			_, signed, _ := intInfo(rt)
			if !signed {
				return mk("(div " + A + " " + B + ")")
			}
			return mk("(ite (>= " + A + " 0) (div " + A + " " + B + ") (- (div (- " + A + ") " + B + ")))")
		}
		return mk(x.wrapAt(fr, st, t, rt, "(tdiv "+A+" "+B+")"))
	case token.REM:
		x.safety(st, fr, "div-zero", t.Pos(), "(not (= "+B+" 0))")
		if n, ok := termConstInt(t.Y, B); ok && n > 0 {
			_, signed, _ := intInfo(rt)
			if !signed {
				return mk("(mod " + A + " " + B + ")")
			}
			return mk("(ite (>= " + A + " 0) (mod " + A + " " + B + ") (- (mod (- " + A + ") " + B + ")))")
		}
		return mk("(trem " + A + " " + B + ")")
	case token.SHL, token.SHR:
		bits, _, _ := intInfo(rt)
		if _, signedCount, _ := intInfo(t.Y.Type()); signedCount {
			if _, isConst := termConstInt(t.Y, B); !isConst {
				x.safety(st, fr, "shift-neg", t.Pos(), "(>= "+B+" 0)")
			}
		}
		if n, ok := termConstInt(t.Y, B); ok && n >= 0 {
			if n >= int64(bits) {
				if t.Op == token.SHL {
					return mk("0")
				}
				return mk("(ite (>= " + A + " 0) 0 (- 1))")
			}
			if t.Op == token.SHL {
				return mk(x.wrapAt(fr, st, t, rt, "(* "+A+" "+pow2str(int(n))+")"))
			}
			return mk("(div " + A + " " + pow2str(int(n)) + ")")
		}
		if t.Op == token.SHL {
			return mk(smtIte("(>= "+B+" "+fmt.Sprint(bits)+")", "0", x.wrap(rt, "(* "+A+" (pow2 "+B+"))")))
		}
		return mk("(div " + A + " (pow2 " + B + "))")
	case token.AND:
		if n, ok := termConstBig(t.Y, B); ok {
			if k, ok := isMask(n); ok {
				return mk("(mod " + A + " " + pow2str(k) + ")")
			}
		}
		if n, ok := termConstBig(t.X, A); ok {
			if k, ok := isMask(n); ok {
				return mk("(mod " + B + " " + pow2str(k) + ")")
			}
		}
		// constant mask of contiguous bits a..a+b-1 on a non-negative operand:
		// x & m = ((x div 2^a) mod 2^b) * 2^a
		for side := 0; side < 2; side++ {
			mv, mt, ot := t.Y, B, A
			if side == 1 {
				mv, mt, ot = t.X, A, B
			}
			if n, ok := termConstBig(mv, mt); ok && n.Sign() > 0 {
				a := int(n.TrailingZeroBits())
				sh := new(big.Int).Rsh(n, uint(a))
				if bb, ok := isMask(sh); ok && a > 0 {
					exact := "(* (mod (div " + ot + " " + pow2str(a) + ") " + pow2str(bb) + ") " + pow2str(a) + ")"
					r := x.define("band", "Int", "(band "+A+" "+B+")")
					x.assume(st, bitAxioms("and", r, A, B, rt))
					return mk(smtIte("(>= "+ot+" 0)", exact, r))
				}
			}
		}
		r := x.define("band", "Int", "(band "+A+" "+B+")")
		x.assume(st, bitAxioms("and", r, A, B, rt))
		return mk(r)
	case token.OR:
		// (hi << c) | lo  with 0 <= lo < 2^c  is addition
		if c, ok := shlConst(t.X); ok {
			cond := smtAnd("(<= 0 "+B+")", "(< "+B+" "+pow2str(c)+")")
			r := x.define("bor", "Int", "(bor "+A+" "+B+")")
			x.assume(st, bitAxioms("or", r, A, B, rt))
			return mk(smtIte(cond, "(+ "+A+" "+B+")", r))
		}
		if c, ok := shlConst(t.Y); ok {
			cond := smtAnd("(<= 0 "+A+")", "(< "+A+" "+pow2str(c)+")")
			r := x.define("bor", "Int", "(bor "+A+" "+B+")")
			x.assume(st, bitAxioms("or", r, A, B, rt))
			return mk(smtIte(cond, "(+ "+A+" "+B+")", r))
		}
		// x | c with a positive constant c whose lowest set bit is 2^a and 0 <= x < 2^a is x + c
		{
			var conds []string
			for side := 0; side < 2; side++ {
				cv, ct, ot := t.Y, B, A
				if side == 1 {
					cv, ct, ot = t.X, A, B
				}
				if n, ok := termConstBig(cv, ct); ok && n.Sign() > 0 {
					if a := int(n.TrailingZeroBits()); a > 0 && a < 64 {
						conds = append(conds, smtAnd("(<= 0 "+ot+")", "(< "+ot+" "+pow2str(a)+")"))
					}
				}
			}
			if len(conds) > 0 {
				// either operand may be the constant (both are, after a case split): the sum is exact
				// as soon as ONE of the two disjointness conditions holds
				cond := conds[0]
				if len(conds) == 2 {
					cond = "(or " + conds[0] + " " + conds[1] + ")"
				}
				r := x.define("bor", "Int", "(bor "+A+" "+B+")")
				x.assume(st, bitAxioms("or", r, A, B, rt))
				return mk(smtIte(cond, "(+ "+A+" "+B+")", r))
			}
		}
		// x | (1 << s) with x >= 0 and a symbolic shift amount sets one bit (or none when the shifted
		// one falls off the operand width, in which case the shifted term is 0): exact by cases
		for side := 0; side < 2; side++ {
			sv, stt, ot := t.Y, B, A
			if side == 1 {
				sv, stt, ot = t.X, A, B
			}
			if amt, ok := shlOfOne(sv); ok {
				if _, isLit := litVal(stt); isLit {
					continue
				}
				sh := x.val(fr, st, amt).t()
				r := x.define("bor", "Int", "(bor "+A+" "+B+")")
				x.assume(st, bitAxioms("or", r, A, B, rt))
				bitClear := "(= (mod (div " + ot + " (pow2 " + sh + ")) 2) 0)"
				return mk(smtIte(smtAnd("(>= "+ot+" 0)", "(>= "+sh+" 0)", "(<= "+sh+" 62)"), smtIte(bitClear, "(+ "+ot+" "+stt+")", ot), r))
			}
		}
		// x | 2^a with x >= 0 sets one bit: exact by cases on that bit of x
		for side := 0; side < 2; side++ {
			cv, ct, ot := t.Y, B, A
			if side == 1 {
				cv, ct, ot = t.X, A, B
			}
			if n, ok := termConstBig(cv, ct); ok && n.Sign() > 0 && n.BitLen() <= 62 && int(n.TrailingZeroBits()) == n.BitLen()-1 {
				p2 := n.String()
				r := x.define("bor", "Int", "(bor "+A+" "+B+")")
				x.assume(st, bitAxioms("or", r, A, B, rt))
				bitClear := "(= (mod (div " + ot + " " + p2 + ") 2) 0)"
				return mk(smtIte("(>= "+ot+" 0)", smtIte(bitClear, "(+ "+ot+" "+p2+")", ot), r))
			}
		}
		r := x.define("bor", "Int", "(bor "+A+" "+B+")")
		x.assume(st, bitAxioms("or", r, A, B, rt))
		return mk(r)
	case token.XOR:
		r := x.define("bxor", "Int", "(bxor "+A+" "+B+")")
		x.assume(st, bitAxioms("xor", r, A, B, rt))
		return mk(r)
	case token.AND_NOT:
		r := x.define("bandnot", "Int", "(bandnot "+A+" "+B+")")
		x.assume(st, bitAxioms("andnot", r, A, B, rt))
		return mk(r)
	}
	x.unsup("binary op %s", t.Op)
	fv, f := x.freshVal("bin", rt)
	x.assume(st, f)
	return fv
}

// shlOfOne: is v defined as (1 << amount), possibly behind integer conversions? Returns the amount.
func shlOfOne(v ssa.Value) (ssa.Value, bool) {
	for {
		c, ok := v.(*ssa.Convert)
		if !ok {
			break
		}
		// only widening or same-width conversions keep the value
		if w1, _, ok1 := intInfo(c.X.Type()); !ok1 {
			return nil, false
		} else if w2, _, ok2 := intInfo(c.Type()); !ok2 || w2 < w1 {
			return nil, false
		}
		v = c.X
	}
	b, ok := v.(*ssa.BinOp)
	if !ok || b.Op != token.SHL {
		return nil, false
	}
	if n, ok := constInt(b.X); ok && n == 1 {
		return b.Y, true
	}
	return nil, false
}

// shlConst: is v defined as (something << const) or a load of a cell... only direct SSA defs.
func shlConst(v ssa.Value) (int, bool) {
	switch t := v.(type) {
	case *ssa.BinOp:
		if t.Op == token.SHL {
			if n, ok := constInt(t.Y); ok && n >= 0 && n < 64 {
				return int(n), true
			}
		}
		if t.Op == token.OR {
			// (a<<16 | b<<8) | c : the low zero bits are the min of both
			c1, ok1 := shlConst(t.X)
			c2, ok2 := shlConst(t.Y)
			if ok1 && ok2 {
				if c1 < c2 {
					return c1, true
				}
				return c2, true
			}
		}
		if t.Op == token.AND {
			// x & m with a constant mask whose low a bits are zero is a multiple of 2^a
			for _, op := range []ssa.Value{t.X, t.Y} {
				if n, ok := constBig(op); ok && n.Sign() > 0 {
					if a := int(n.TrailingZeroBits()); a > 0 && a < 64 {
						return a, true
					}
				}
			}
		}
	case *ssa.Convert:
		return shlConst(t.X)
	}
	return 0, false
}

// bitAxioms: sound facts about the uninterpreted bit operators.
func bitAxioms(op, r, a, b string, t types.Type) string {
	lo, hi, _ := intBounds(t)
	range_ := smtAnd("(<= "+lo+" "+r+")", "(<= "+r+" "+hi+")")
	nonneg := smtAnd("(>= "+a+" 0)", "(>= "+b+" 0)")
	eq := func(x, y string) string { return "(= " + x + " " + y + ")" }
	m1 := "(- 1)"
	_, signed, _ := intInfo(t)
	switch op {
	case "and":
		fs := []string{range_,
			smtImp("(>= "+a+" 0)", smtAnd("(>= "+r+" 0)", "(<= "+r+" "+a+")")),
			smtImp("(>= "+b+" 0)", smtAnd("(>= "+r+" 0)", "(<= "+r+" "+b+")")),
			smtImp(eq(a, "0"), eq(r, "0")), smtImp(eq(b, "0"), eq(r, "0")), smtImp(eq(a, b), eq(r, a))}
		if signed {
			fs = append(fs, smtImp(eq(a, m1), eq(r, b)), smtImp(eq(b, m1), eq(r, a)))
		}
		// masks 2^k-1 on either side: x & (2^k-1) == x mod 2^k (two's complement)
		for k := 1; k <= 32; k++ {
			mask := "(- " + pow2str(k) + " 1)"
			fs = append(fs, smtImp(eq(b, mask), eq(r, "(mod "+a+" "+pow2str(k)+")")), smtImp(eq(a, mask), eq(r, "(mod "+b+" "+pow2str(k)+")")))
		}
		return smtAnd(fs...)
	case "or":
		fs := []string{range_, smtImp(nonneg, smtAnd("(>= "+r+" "+a+")", "(>= "+r+" "+b+")", "(<= "+r+" (+ "+a+" "+b+"))")),
			smtImp(eq(a, "0"), eq(r, b)), smtImp(eq(b, "0"), eq(r, a)), smtImp(eq(a, b), eq(r, a))}
		if signed {
			fs = append(fs, smtImp(eq(a, m1), eq(r, m1)), smtImp(eq(b, m1), eq(r, m1)))
		}
		// disjoint operands at a byte boundary (register assembly: hi<<8k | lo): a multiple of 2^k
		// or-ed with a value below 2^k is their sum
		for _, k := range []int{8, 16, 24, 32} {
			p := pow2str(k)
			fs = append(fs, smtImp(smtAnd(nonneg, "(= (mod "+a+" "+p+") 0)", "(< "+b+" "+p+")"), eq(r, "(+ "+a+" "+b+")")),
				smtImp(smtAnd(nonneg, "(= (mod "+b+" "+p+") 0)", "(< "+a+" "+p+")"), eq(r, "(+ "+a+" "+b+")")))
		}
		return smtAnd(fs...)
	case "xor":
		fs := []string{range_, smtImp(nonneg, smtAnd("(>= "+r+" 0)", "(<= "+r+" (+ "+a+" "+b+"))")),
			smtImp(eq(a, "0"), eq(r, b)), smtImp(eq(b, "0"), eq(r, a)), smtImp(eq(a, b), eq(r, "0"))}
		if signed {
			fs = append(fs, smtImp(eq(a, m1), eq(r, "(- (- "+b+") 1)")), smtImp(eq(b, m1), eq(r, "(- (- "+a+") 1)")))
		}
		return smtAnd(fs...)
	case "andnot":
		return smtAnd(range_, smtImp("(>= "+a+" 0)", smtAnd("(>= "+r+" 0)", "(<= "+r+" "+a+")")), smtImp(eq(b, "0"), eq(r, a)))
	}
	return range_
}

// valEq: equality of two values (scalars, pointers, interfaces, structs of those).
func (x *Exec) valEq(a, b Val) string {
	if len(a.L) == 0 || len(b.L) == 0 {
		// structured pointers
		if a.Loc != nil && b.Loc != nil {
			if a.Loc == b.Loc {
				return "true"
			}
		}
		if a.Loc != nil && len(b.L) == 1 && b.L[0] == "0" {
			return "false"
		}
		if b.Loc != nil && len(a.L) == 1 && a.L[0] == "0" {
			return "false"
		}
		return x.fresh("peq", "Bool")
	}
	if _, ok := a.Typ.Underlying().(*types.Slice); ok {
		// slice == nil
		return "(= " + a.L[0] + " " + b.L[0] + ")"
	}
	if a.Dyn != nil && b.t() == "0" || b.Dyn != nil && a.t() == "0" {
		return "false"
	}
	if isFloat(a.Typ) {
		return "(= " + a.t() + " " + b.t() + ")"
	}
	var eqs []string
	for i := range a.L {
		if i < len(b.L) {
			eqs = append(eqs, "(= "+a.L[i]+" "+b.L[i]+")")
		}
	}
	return smtAnd(eqs...)
}

func (x *Exec) convert(fr *Frame, st *State, t *ssa.Convert) Val {
	v := x.val(fr, st, t.X)
	from, to := t.X.Type(), t.Type()
	switch {
	case isInteger(from) && isInteger(to):
		return Val{Typ: to, L: []string{x.wrapAt(fr, st, t, to, v.t())}}
	case isInteger(from) && isFloat(to):
		return Val{Typ: to, L: []string{"(i2f " + v.t() + ")"}}
	case isFloat(from) && isFloat(to):
		if b := to.Underlying().(*types.Basic); b.Kind() == types.Float32 {
			return Val{Typ: to, L: []string{"(f2f32 " + v.t() + ")"}}
		}
		return Val{Typ: to, L: []string{v.t()}}
	case isFloat(from) && isInteger(to):
		r := x.define("f2i", "Int", x.wrap(to, "(f2i "+v.t()+")"))
		return Val{Typ: to, L: []string{r}}
	case isString(to):
		fv, f := x.freshVal("str", to)
		x.assume(st, f)
		if sl, ok := from.Underlying().(*types.Slice); ok && len(v.L) == 4 {
			_ = sl
			x.assume(st, "(= (strlen "+fv.t()+") "+v.L[2]+")")
		}
		return fv
	case isString(from):
		// []byte(s)
		if _, ok := to.Underlying().(*types.Slice); ok {
			arr := x.newRef(st, "s2b")
			n := x.define("sl", "Int", "(strlen "+v.t()+")")
			x.assume(st, "(>= "+n+" 0)")
			return Val{Typ: to, L: []string{arr, "0", n, n}}
		}
	}
	if _, ok := to.Underlying().(*types.Pointer); ok {
		x.unsup("unsafe pointer conversion")
	}
	fv, f := x.freshVal("conv", to)
	x.assume(st, f)
	return fv
}

func (x *Exec) typeAssert(fr *Frame, st *State, t *ssa.TypeAssert) Val {
	v := x.val(fr, st, t.X)
	if v.Dyn != nil && types.Identical(v.Dyn.Typ, t.AssertedType) {
		if t.CommaOk {
			return Val{Typ: t.Type(), Tuple: []Val{*v.Dyn, {Typ: types.Typ[types.Bool], L: []string{"true"}}}}
		}
		return *v.Dyn
	}
	if _, isIface := t.AssertedType.Underlying().(*types.Interface); isIface && v.Dyn != nil {
		// interface-to-interface assertion on a known dynamic value: keep the value when it implements it
		if types.Implements(v.Dyn.Typ, t.AssertedType.Underlying().(*types.Interface)) {
			nv := v
			nv.Typ = t.AssertedType
			if t.CommaOk {
				return Val{Typ: t.Type(), Tuple: []Val{nv, {Typ: types.Typ[types.Bool], L: []string{"true"}}}}
			}
			return nv
		}
	}
	if t.CommaOk {
		r, f := x.freshVal("ta", t.AssertedType)
		ok := x.fresh("taok", "Bool")
		x.assume(st, f)
		if v.Dyn != nil && !types.Identical(v.Dyn.Typ, t.AssertedType) {
			if _, isIface := t.AssertedType.Underlying().(*types.Interface); !isIface {
				ok = "false"
			}
		}
		// a failed assertion yields the zero value
		z := x.zeroVal(t.AssertedType)
		for i := range r.L {
			if i < len(z.L) && leavesOf(t.AssertedType)[i].Dims == 0 {
				x.assume(st, smtImp(smtNot(ok), "(= "+r.L[i]+" "+z.L[i]+")"))
			}
		}
		if _, isPtr := t.AssertedType.Underlying().(*types.Pointer); isPtr {
			// a successful assertion to a pointer type may still yield a nil pointer
		}
		return Val{Typ: t.Type(), Tuple: []Val{r, {Typ: types.Typ[types.Bool], L: []string{ok}}}}
	}
	x.unsup("single-value type assertion with unknown dynamic type at %s (may panic; not proved)", x.posString(t.Pos()))
	r, f := x.freshVal("ta", t.AssertedType)
	x.assume(st, f)
	return r
}

func (x *Exec) phi(fr *Frame, st *State, t *ssa.Phi) Val {
	// Evaluate by cases on which predecessor's exit condition holds.  Naive-form phis only merge
	// boolean short-circuit results, so an ite chain over predecessor reach conditions is exact.
	blk := t.Block()
	lt := leavesOf(t.Type())
	res := Val{Typ: t.Type()}
	for li := range lt {
		c := x.fresh("phi", lt[li].smtSort(0))
		for i, e := range t.Edges {
			pred := blk.Preds[i]
			pc, ok := fr.edgePC[[2]*ssa.BasicBlock{pred, blk}]
			if !ok {
				continue
			}
			ev := x.val(fr, st, e)
			if li < len(ev.L) {
				x.assert(smtImp(pc, "(= "+c+" "+ev.L[li]+")"))
			}
		}
		res.L = append(res.L, c)
	}
	return res
}

// ---------------------------------------------------------------------------------------------
// Indexing and slicing

func (x *Exec) sliceElemLoc(s Val, absIdx string, et types.Type) *Loc {
	if s.Back != nil {
		return s.Back.extend(Step{IsIdx: true, Idx: absIdx}, et)
	}
	return &Loc{Kind: locMem, Key: "E:" + typeKey(et), Lead: []string{s.L[0], absIdx}, RootT: et, T: et}
}

func (x *Exec) indexAddr(fr *Frame, st *State, t *ssa.IndexAddr) Val {
	base := x.val(fr, st, t.X)
	i := x.val(fr, st, t.Index).t()
	et := deref(t.Type())
	switch u := t.X.Type().Underlying().(type) {
	case *types.Pointer:
		arr := u.Elem().Underlying().(*types.Array)
		x.nilCheck(st, fr, base, t.Pos())
		x.safety(st, fr, "index", t.Pos(), smtAnd("(<= 0 "+i+")", "(< "+i+" "+fmt.Sprint(arr.Len())+")"))
		return Val{Typ: t.Type(), Loc: x.locOf(base).extend(Step{IsIdx: true, Idx: i}, et)}
	case *types.Slice:
		x.safety(st, fr, "index", t.Pos(), smtAnd("(<= 0 "+i+")", "(< "+i+" "+base.L[2]+")"))
		if len(i) < 100 {
			x.idxTerms = append(x.idxTerms, idxTerm{i, len(x.decls)})
		}
		abs := i
		if base.L[1] != "0" {
			abs = "(+ " + base.L[1] + " " + i + ")"
		}
		return Val{Typ: t.Type(), Loc: x.sliceElemLoc(base, abs, et)}
	}
	x.unsup("IndexAddr on %s", t.X.Type())
	return Val{Typ: t.Type(), L: []string{x.fresh("ia", "Int")}}
}

func (x *Exec) index(fr *Frame, st *State, t *ssa.Index) Val {
	base := x.val(fr, st, t.X)
	i := x.val(fr, st, t.Index).t()
	switch u := t.X.Type().Underlying().(type) {
	case *types.Array:
		x.safety(st, fr, "index", t.Pos(), smtAnd("(<= 0 "+i+")", "(< "+i+" "+fmt.Sprint(u.Len())+")"))
		out := Val{Typ: t.Type()}
		for _, l := range base.L {
			out.L = append(out.L, "(select "+l+" "+i+")")
		}
		x.assumeTypeInv(st, &out, 0)
		return out
	case *types.Basic: // string
		x.safety(st, fr, "index", t.Pos(), smtAnd("(<= 0 "+i+")", "(< "+i+" (strlen "+base.t()+"))"))
		fv, f := x.freshVal("sb", t.Type())
		x.assume(st, f)
		return fv
	}
	fv, f := x.freshVal("idx", t.Type())
	x.assume(st, f)
	return fv
}

func (x *Exec) sliceOp(fr *Frame, st *State, t *ssa.Slice) Val {
	base := x.val(fr, st, t.X)
	opt := func(v ssa.Value, def string) string {
		if v == nil {
			return def
		}
		return x.val(fr, st, v).t()
	}
	switch u := t.X.Type().Underlying().(type) {
	case *types.Slice:
		lo := opt(t.Low, "0")
		hi := opt(t.High, base.L[2])
		mx := opt(t.Max, base.L[3])
		x.safety(st, fr, "slice", t.Pos(), smtAnd("(<= 0 "+lo+")", "(<= "+lo+" "+hi+")", "(<= "+hi+" "+mx+")", "(<= "+mx+" "+base.L[3]+")"))
		off := base.L[1]
		if lo != "0" {
			off = x.define("off", "Int", "(+ "+base.L[1]+" "+lo+")")
		}
		r := Val{Typ: t.Type(), L: []string{base.L[0], off, x.define("len", "Int", "(- "+hi+" "+lo+")"), x.define("cap", "Int", "(- "+mx+" "+lo+")")}, Back: base.Back}
		return r
	case *types.Pointer:
		arr := u.Elem().Underlying().(*types.Array)
		n := fmt.Sprint(arr.Len())
		x.nilCheck(st, fr, base, t.Pos())
		lo := opt(t.Low, "0")
		hi := opt(t.High, n)
		mx := opt(t.Max, n)
		x.safety(st, fr, "slice", t.Pos(), smtAnd("(<= 0 "+lo+")", "(<= "+lo+" "+hi+")", "(<= "+hi+" "+mx+")", "(<= "+mx+" "+n+")"))
		loc := x.locOf(base)
		// the array itself becomes the backing store; arr leaf: a reference standing for this view
		aref := "(- 1)"
		if loc.Kind == locMem && len(loc.Lead) > 0 {
			aref = loc.Lead[0]
		}
		return Val{Typ: t.Type(), L: []string{aref, lo, x.define("len", "Int", "(- "+hi+" "+lo+")"), x.define("cap", "Int", "(- "+mx+" "+lo+")")}, Back: loc}
	case *types.Basic: // string
		lo := opt(t.Low, "0")
		hi := opt(t.High, "(strlen "+base.t()+")")
		x.safety(st, fr, "slice", t.Pos(), smtAnd("(<= 0 "+lo+")", "(<= "+lo+" "+hi+")", "(<= "+hi+" (strlen "+base.t()+"))"))
		fv, _ := x.freshVal("ss", t.Type())
		x.assume(st, "(= (strlen "+fv.t()+") (- "+hi+" "+lo+"))")
		return fv
	}
	fv, f := x.freshVal("slc", t.Type())
	x.assume(st, f)
	return fv
}

// frameCheck: a store must lie inside the function's assigns clause (or in fresh memory).
func (x *Exec) frameCheck(fr *Frame, st *State, loc *Loc, pos token.Pos) {
	if loc.Kind == locLocal {
		return
	}
	ok := x.inAssigns(fr, st, loc)
	x.oblige(st, "frame", fr.frameTags(), pos, ok, "store target within assigns")
}
