#!/bin/sh
# Imports round-3 agent deliverables /tmp/mut3_out/<ID>-<X>/ into /verif/seeded/R3-<ID>-<X>/ and
# confirms each change in a scratch worktree (see import_seeded.sh).  Usage: import_round3.sh <ID>-<X> ...   (pkgdir is read from the first line of notes.md)
export PATH=/opt/veriftools/go1.26.8/bin:$PATH GOFLAGS=-mod=mod GOPROXY=off GOSUMDB=off GOTOOLCHAIN=local
while [ $# -ge 1 ]; do
  name=$1; shift 1
  pkgdir=$(head -1 /tmp/mut3_out/$name/notes.md | sed -e 's/^pkgdir:[ ]*//' -e 's#^\./##' -e 's#/$##' | tr -d '` ')
  id=${name%-*}
  src=/tmp/mut3_out/$name
  dst=/verif/seeded/R3-$name
  mkdir -p "$dst"
  cp "$src/patch.diff" "$src/demo_test.go" "$src/notes.md" "$dst/" 2>/dev/null
  wt=$(mktemp -d /tmp/seedchk.XXXXXX)
  git -C /repo worktree add -q --detach "$wt" HEAD
  log="$dst/confirm.log"; : > "$log"
  ( cd "$wt" && cp "$dst/demo_test.go" "$pkgdir/zz_mutation_demo_test.go" && go test -vet=off -count=1 -timeout 10m "./$pkgdir/" -run "$(grep -o '^func Test[A-Za-z0-9_]*' $dst/demo_test.go | sed 's/func //' | paste -sd'|')" ) >> "$log" 2>&1; base_rc=$?
  ( cd "$wt" && rm -f "$pkgdir/zz_mutation_demo_test.go" && git apply "$dst/patch.diff" ) >> "$log" 2>&1; apply_rc=$?
  ( cd "$wt" && go build ./... ) >> "$log" 2>&1; build_rc=$?
  ( cd "$wt" && go test -vet=off -count=1 -timeout 25m ./... ) > "$dst/suite.log" 2>&1; suite_rc=$?
  ( cd "$wt" && cp "$dst/demo_test.go" "$pkgdir/zz_mutation_demo_test.go" && go test -vet=off -count=1 -timeout 10m "./$pkgdir/" -run "$(grep -o '^func Test[A-Za-z0-9_]*' $dst/demo_test.go | sed 's/func //' | paste -sd'|')" ) >> "$log" 2>&1; demo_rc=$?
  git -C /repo worktree remove --force "$wt"
  ok=no; [ $base_rc -eq 0 ] && [ $apply_rc -eq 0 ] && [ $build_rc -eq 0 ] && [ $suite_rc -eq 0 ] && [ $demo_rc -ne 0 ] && ok=yes
  jq -n --arg p "$id" --arg ok "$ok" --arg pkg "$pkgdir" --argjson rc "{\"demo_on_base\":$base_rc,\"apply\":$apply_rc,\"build\":$build_rc,\"suite\":$suite_rc,\"demo_with_change\":$demo_rc}" \
    '{property:$p, expect:"violation", confirmed:$ok, round:3, demo_package_dir:$pkg, ran:"scratch worktree of /repo HEAD: demo on base (must pass), git apply patch.diff, go build ./..., go test -vet=off -count=1 -timeout 25m ./... (must pass), demo with change (must fail)", exit_codes:$rc}' > "$dst/meta.json"
  echo "R3-$name confirmed=$ok base=$base_rc apply=$apply_rc build=$build_rc suite=$suite_rc demo=$demo_rc"
done
