#!/bin/sh
# Imports the deliverables of a mutation agent (/tmp/mut_<ID>/MUTATION/{A,B}) into
# /verif/seeded/<ID>-<X>/ and CONFIRMS each change in a scratch worktree of /repo HEAD:
# patch applies, builds, the whole existing suite passes, the demo fails with the change and passes
# without it.  Usage: tools/import_seeded.sh C01 [C02 ...]
export PATH=/opt/veriftools/go1.26.8/bin:$PATH GOFLAGS=-mod=mod GOPROXY=off GOSUMDB=off GOTOOLCHAIN=local
for id in "$@"; do
 for x in A B; do
  src=/tmp/mut_$id/MUTATION/$x
  [ -f "$src/patch.diff" ] || { echo "$id-$x: no patch"; continue; }
  dst=/verif/seeded/$id-$x
  mkdir -p "$dst"
  cp "$src/patch.diff" "$dst/patch.diff"; cp "$src/demo_test.go" "$dst/demo_test.go"; cp "$src/notes.md" "$dst/notes.md" 2>/dev/null
  pkgdir=$(head -1 "$dst/demo_test.go" | sed -E 's/.*[Dd]irectory:? *//; s/[ (].*//; s#/$##')
  wt=$(mktemp -d /tmp/seedchk.XXXXXX)
  git -C /repo worktree add -q --detach "$wt" HEAD
  log="$dst/confirm.log"; : > "$log"
  ( cd "$wt" && cp "$dst/demo_test.go" "$pkgdir/zz_mutation_demo_test.go" && go test -vet=off -count=1 -run 'Mutation|mutation|ZZ' "./$pkgdir/" ) >> "$log" 2>&1; base_rc=$?
  ( cd "$wt" && rm -f "$pkgdir/zz_mutation_demo_test.go" && git apply "$dst/patch.diff" ) >> "$log" 2>&1; apply_rc=$?
  ( cd "$wt" && go build ./... ) >> "$log" 2>&1; build_rc=$?
  ( cd "$wt" && go test -vet=off -count=1 -timeout 25m ./... ) > "$dst/suite.log" 2>&1; suite_rc=$?
  ( cd "$wt" && cp "$dst/demo_test.go" "$pkgdir/zz_mutation_demo_test.go" && go test -vet=off -count=1 -run 'Mutation|mutation|ZZ' "./$pkgdir/" ) >> "$log" 2>&1; demo_rc=$?
  git -C /repo worktree remove --force "$wt"
  ok=no; [ $base_rc -eq 0 ] && [ $apply_rc -eq 0 ] && [ $build_rc -eq 0 ] && [ $suite_rc -eq 0 ] && [ $demo_rc -ne 0 ] && ok=yes
  needs=$(grep -i -m1 -A2 'trigger\|needs\|manifest' "$dst/notes.md" 2>/dev/null | tr '\n' ' ' | cut -c1-400)
  jq -n --arg p "$id" --arg ok "$ok" --arg pkg "$pkgdir" --arg needs "$needs" --argjson rc "{\"demo_on_base\":$base_rc,\"apply\":$apply_rc,\"build\":$build_rc,\"suite\":$suite_rc,\"demo_with_change\":$demo_rc}" \
    '{property:$p, expect:"violation", confirmed:$ok, demo_package_dir:$pkg, needs_to_manifest:$needs, ran:"scratch worktree of /repo HEAD: demo on base (must pass), git apply patch.diff, go build ./..., go test -vet=off -count=1 -timeout 25m ./... (must pass), demo with change (must fail)", exit_codes:$rc}' > "$dst/meta.json"
  echo "$id-$x confirmed=$ok base=$base_rc apply=$apply_rc build=$build_rc suite=$suite_rc demo=$demo_rc"
 done
done
