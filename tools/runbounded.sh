#!/bin/sh
# Usage: tools/runbounded.sh <ID> <pkg-rel-dir> [root]   — runs the bounded stand-ins of one package directly
export PATH=/opt/veriftools/go1.26.8/bin:$PATH GOFLAGS=-mod=mod GOPROXY=off GOSUMDB=off GOTOOLCHAIN=local
id=$1; rel=$2; root=${3:-/repo}
ov=$(mktemp /tmp/ov.XXXXXX.json)
printf '{"Replace": {' > $ov; first=1
for f in /verif/bounded/$rel/*_test.go; do [ $first = 1 ] || printf ',' >> $ov; first=0; printf '"%s/%s/zz_verif_%s": "%s"' "$root" "$rel" "$(basename $f)" "$f" >> $ov; done
printf '}}' >> $ov
cd $root && go test -overlay $ov -vet=off -count=1 -timeout 1500s -run "^TestVerif_${id}_" -v ./$rel 2>&1 | grep "^BOUNDED\|^ok\|^FAIL\|panic" | cut -c1-${COLS:-600}
rm -f $ov
