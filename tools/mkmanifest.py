#!/usr/bin/env python3
"""Regenerates /verif/MANIFEST.json from props.json and the texts below."""
import json, subprocess
props = json.load(open('/verif/props.json'))
ids = [json.loads(l)['id'] for l in open('/verif/properties.jsonl')]
hooks = subprocess.check_output(['git', '-C', '/repo', 'log', '--format=%h %s', 'ed2dec1..HEAD']).decode().splitlines()
hook_commits = [l.split()[0] for l in hooks if 'verif hook' in l]

T = {
 'C01': ("RLE: govc proves, for all inputs, the encoder object invariant (run/literal state machine never overruns its 132-byte buffer), no panic in any RLE function, even encoded length, header offsets even/ascending/in range, decoder bounds for arbitrary data and frame descriptions, decoded length = frame size rounded to even, and termination of every loop; decode(encode(s)) = s itself and the independent PackBits reading are a bounded stand-in (exhaustive short strings, run/literal boundary sweep, frame grid).",
         "contracts + loop invariants on rle.go discharged by SMT; bounded content identity"),
 'C02': ("JPEG Lossless: a pair lemma over ONE iteration of the real encodeScan loop body and ONE iteration of the real decodeScan loop body proves, for every precision 2..16, every predictor (symbolic), every position and every neighbourhood, that the decoder stores exactly the encoder's source sample given the same difference; the difference category coder is proved against T.81 F.1.2.1/F.2.2.1 and its encoder/decoder pair is proved inverse for all 65536 differences; the same per-sample pair lemma is proved for the first-order-prediction (SV1) codec, including that the encoder's left-neighbour cache equals the sample just coded; Huffman table construction, bit I/O and whole-image composition are bounded stand-ins.",
         "relational (pair) lemmas over real loop bodies + function contracts, SMT; bounded Huffman/bit layer"),
 'C03': ("JPEG-LS lossless: pair lemma encodeRegularSample ~ decodeRegularSample for every bit depth 2..16 (decoded sample = source, contexts evolve in lockstep), every scalar helper proved against its T.87 spec function (MED predictor, error mapping, modulo reduction, context update A.12/A.13, Golomb parameter, reconstruction); the Golomb bit layer is an assumed channel contract backed by an exhaustive bounded test; the run-interruption sample (A.7.2) is proved the same way: EncodeRunInterruption is proved to hand the limited-length Golomb coder only representable tokens (k <= 16, escape tokens of at most qbpp bits) and to maintain the run-context invariant A <= N*2^(P-1), the encoder's interruption pixel function is proved to reconstruct its source sample, and two pair lemmas (error value / whole interruption pixel, every bit depth) prove that the decoder recovers it with both run contexts in lockstep; run-length coding and whole images are bounded stand-ins.",
         "pair lemma + function contracts against T.87 spec functions, SMT; bounded Golomb/run mode"),
 'C04': ("JPEG 2000 reversible path: the reversible colour transform pair is proved inverse (scalar and array forms); the 5/3 lifting is proved, for every signal length and both parities, to compute exactly the T.800 Annex F predict/update formulas in the code's own 32-bit arithmetic (forward and inverse, quantified loop invariants), and a composition lemma over the two proved contracts shows inverse(forward(x)) = x for all samples within +-2^28; the tile-grid functions and the layer/pass bookkeeping are proved; T1/MQ/T2, the 2-D/multi-level drivers and the 3700-line encoder are outside the SMT subset and are covered by bounded round trips over the configuration lattice.",
         "contracts + quantified loop invariants on RCT and 5/3 lifting, sequential pair (composition) lemma, SMT with generator-side quantifier instantiation; bounded codec round trips"),
 'C05': ("JPEG 2000 lossless syntaxes: finalizeBlock / finalizeRDCodeBlockLayers / appendRDLosslessLayer are proved, for an ARBITRARY rate allocation and any number of layers, to give the final lossless layer all coding passes and a byte range of the complete bitstream that ends exactly at the last pass (nothing of a code-block is dropped), with every index in bounds; the codec's parameter mapping is proved to stay on the reversible path and, when a rate target is combined with AppendLosslessLayer, to request at least one layer above the rate-limited ones; allocator monotonicity and the codec round trip over the parameter lattice are bounded stand-ins.",
         "contracts with quantified pre-conditions on the real layer-finalisation functions, SMT; bounded parameter lattice"),
 'C06': ("HTJ2K lossless: the Scup locator (last 12 bits of the cleanup segment) writer and parser are proved inverse for every legal suffix length and the parser is proved panic-free for every byte string; the HT cleanup block coder, MEL/VLC tables and the codec round trip (sizes, block sizes, levels, the 14 third-party fixtures) are bounded stand-ins.",
         "pair lemma + contracts on the Scup locator, SMT; bounded HT block coder and fixtures"),
 'C11': ("JPEG DCT codecs: ScaleQuantTable is proved equal to the IJG quality-scaling rule with entries in 1..255 for every quality and base table (quantified loop invariant); the zig-zag order is proved (by constant evaluation of a structural characterisation: each position is the zig-zag successor of the previous one, Unzig is its inverse) and the built-in Huffman tables are proved to describe prefix codes; the per-sample error bound against the stream's own DQT tables, accepted-by-decoder and geometry are bounded stand-ins (every quality, every partial block shape).",
         "contract on the quality->table function, SMT; table invariants by constant evaluation; bounded error-bound sweep"),
 'C07': ("JPEG-LS near-lossless: the property statement itself is the post-condition of the real encoder kernel encodeRegularSample, proved for ALL NEAR (symbolic, no case split), all precisions, contexts and neighbourhoods: |reconstruction - source| <= NEAR and 0 <= reconstruction <= MAXVAL; a pair lemma over the real encoder and decoder kernels proves the decoder reconstructs exactly the value the encoder wrote back (so the bound transfers to the decoded image for regular-mode samples); the scan header is proved to declare the NEAR the samples were coded with, and Encode to reject NEAR outside 0..min(255, MAXVAL/2); quantize / ModuloRange / ComputeReconstructedSample are proved against T.87 A.4.4-A.4.5; the Golomb layer is an assumed channel (bounded-backed); run-mode samples and whole images are bounded stand-ins.",
         "post-condition of the real kernel under symbolic NEAR + encoder/decoder pair lemma + header contracts, SMT; bounded Golomb/run mode"),
 'C08': ("No decoder panics: a zero-annotation safety sweep generates every index/slice/nil/division/shift/make/panic obligation of every decoder-side function under an empty pre-condition (all parameters and the heap symbolic); the obligations discharged on the pinned tree are the committed baseline and must stay discharged; functions under contract are fully proved, among them RLE, the Huffman category coder, the JPEG-LS helpers and run-length scanner, the JPEG 2000 codestream parser primitives (cursor stays inside the input), SIZ/COD validation (what a parsed header guarantees downstream) and the decoder's stream-state reset (no stale state can index the next image's components); bounded truncation/corruption sweeps of every decoder stand in for the rest.",
         "safety obligations from SSA with empty pre-conditions, SMT, baseline comparison; contracts on parser primitives and header validation; bounded corruption sweeps"),
 'C09': ("Bounded time/memory: every JPEG 2000 parser primitive is proved to move the cursor forward by exactly what it read (a marker segment with a length below 2 is an error, so the main-header loop cannot step backwards), the tile-data scan and the SIZ/COD parsers are proved to terminate (loop variants), a SIZ that is returned is proved to satisfy the A.5.1 constraints the allocator relies on, a second SIZ is proved to be rejected, and the tile rectangle a tile decoder sizes its buffers from is proved to lie inside the declared image and inside one tile; the tile assembler's planes are proved to be sized from the declared image area (not the reference-grid extents) and the Part-2 MCT array decoders are proved to allocate nothing larger than the bytes their segment carries (allocation-bound obligations on every make); loop variants are proved for every other loop of the functions under contract on the decoder side; wall-clock time and heap cannot be expressed by contracts; bounded corruption sweeps with a watchdog and allocation accounting stand in.",
         "progress/termination contracts and header-validation post-conditions proved by SMT; bounded watchdog sweeps"),
 'C10': ("Codec contract: footprint obligations over the whole module prove that no function that can see (an alias of) a caller-owned input buffer writes through it, and that no library function consults clock, randomness, environment or (un-reviewed) map order; jpeg2000.Decoder is proved to clear every stream-derived field before each Decode and after a failed one (no history dependence through MCT bindings, ROI state or component buffers); decoded RLE length is proved; frame order/1:1, history independence of reused encoder objects (including parameters changed between calls) and decoded sizes for the other syntaxes are bounded stand-ins.",
         "whole-module footprint (frame) analysis over SSA + contracts; bounded histories"),
 'C13': ("T.81 conformance: Predictor is proved equal to Table H.1, predictSample to the H.1.2.1 edge rules, the category/EXTEND coder to F.1.2.1/F.2.2.1, modulo-2^16 reconstruction by the pair lemma; spec functions are transcribed from the standard; an independent reference codec runs in the bounded stand-in.",
         "function contracts against spec functions transcribed from T.81, SMT; bounded reference codec"),
 'C14': ("T.87 conformance: every scalar helper (MED, error mapping, modulo reduction, quantisation, reconstruction, A.12/A.13 update, Golomb parameter, bias correction) is proved equal to its spec function transcribed from T.87; the run-interruption mapping (A.21-A.23: map bit, EMErrval, context update, Golomb parameter of the run contexts) is proved against its spec functions; an independent T.87 decoder and lossless==near(0) byte identity run as bounded stand-ins.",
         "function contracts against spec functions transcribed from T.87, SMT; bounded independent decoder"),
 'C16': ("Well-formed streams: WriteSegment's length field is proved to equal payload+2 (pre-condition payload <= 65533); the frame headers of every JPEG-family encoder (SOF0, SOF1, SOF3 x2, SOF55 x2) are proved to carry exactly the encoder's precision/height/width/components, the JPEG-LS scan headers to carry NEAR/ILV; the JPEG 2000 SIZ segment is proved byte-exact for all parameters (marker, Lsiz, Rsiz, Xsiz..YTOsiz, Csiz and every Ssiz/XRsiz/YRsiz), the COD segment's length, layers, levels, HT bit and wavelet are proved; the Huffman bit writer is proved never to leave an unescaped 0xFF as the last byte handed to the sink (writeByte, WriteBits, Flush: the 1-padded final byte is stuffed like any other); RLE length/header facts are proved; the whole-stream structure is checked by independent strict marker walkers in the bounded stand-in.",
         "contracts with ghost output bytes / exact buffer contents, SMT; bounded strict marker walkers"),
 'C17': ("Encoders reject unrepresentable input: every JPEG-family entry point (baseline, extended incl. the 12-bit path, lossless, SV1, JPEG-LS lossless and near-lossless) is proved to return an error for dimensions outside 1..65535, unsupported component counts, precision or quality out of range, NEAR outside 0..min(255, MAXVAL/2) and pixel buffers shorter than the frame, and what reaches the header writers is proved to fit their fields (call-site pre-conditions); jpeg2000.Encoder.validateParams is proved to accept only what SIZ/COD can carry (components 1..4, depth 1..16, levels 0..6, layers 1..65535, code-block 4..1024 with area <= 4096, precincts <= 32768); zero-annotation safety sweep over every encoder-side function (empty pre-conditions); RLE encoder fully proved incl. the 15-segment limit; the argument lattice at API level is a bounded stand-in.",
         "rejection post-conditions on the real entry points + call-site pre-conditions of header writers, SMT; safety sweep; bounded argument lattice"),
 'C18': ("Concurrency as non-interference: over ALL library functions, (1) no function callable after init writes memory reachable from a package-level variable, (2) no codec method (nor any callee it hands itself to) writes the codec object, (3) no goroutines/channels exist in library code; with private pixel data this leaves no shared mutable location. Schedules are not explored and the race detector is not run (different technique).",
         "whole-module footprint (frame) analysis over SSA"),
 'C19': ("Tiled images: encoder tileBounds and decoder GetTileBounds are proved to return the same rectangle for every grid (pair lemma), every tile is proved non-empty and inside the image, and t2.NewTileDecoder is proved to clip its rectangle to the image area and to one tile; multi-tile codec round trips are a bounded stand-in.",
         "pair lemma + contracts on the real tile-grid functions, SMT; bounded multi-tile round trips"),
 'C20': ("Building blocks: RCT forward/inverse proved inverse for all int32 triples within +-2^28 (scalar pair lemma and array forms); 5/3 lifting forward and inverse proved against the Annex F formulas for every length and both parities, and proved mutually inverse by a composition lemma (samples within +-2^28); MQ, EBCOT T1, the 2-D/multi-level DWT drivers and the 9/7 path are bounded stand-ins (exhaustive short sequences/signals, style grid).",
         "pair lemmas + contracts with quantified invariants on RCT and 5/3 lifting, SMT; bounded MQ/T1/2-D DWT"),
}
NA = {
 'C12': "floating point: the bound is a statement about float32/float64 9/7 lifting, RoundToEven and Ldexp step sizes; floats are uninterpreted in the verifier and no contract within reach expresses it",
 'C15': "the oracle is a foreign implementation (image/jpeg) and a numeric IDCT tolerance; no contract within reach expresses either",
}
checks = []
claimed = [i for i in ids if i in props and i in T]
for i in claimed:
    p = props[i]
    checks.append({
        "property_id": i,
        "quick_cmd": "./check %s quick" % i,
        "thorough_cmd": "./check %s thorough" % i,
        "evidence_file": "/verif/evidence/%s.json" % i,
        "replay_cmd_template": "cat {path}",
        "engine": "govc",
        "level_claimed": {"category": p.get("level", "other"), "text": T[i][0], "design_ref": "DESIGN.md section 3 (%s) and section 9" % i},
        "level_note": (p.get("note") or "") + " Trusted base: govc VC generator and memory model, SMT solvers, library models and assumed contracts listed in the evidence file.",
        "technique": "contract-based deductive verification: " + T[i][1],
    })
na = []
for i in ids:
    if i in claimed:
        continue
    na.append({"property_id": i, "reason": NA.get(i, "not claimed yet: no contract within reach built so far (see DESIGN.md section 9)")})
m = {
 "version": 1,
 "setup_cmd": "./setup.sh",
 "hooks": {"guard": "verif", "enable": "go build -tags verif: comment-only contract files <pkg>/contracts_verif.go (//go:build verif); they add no declarations, govc reads them as text",
           "baseline_off_cmd": "cd /repo && PATH=/opt/veriftools/go1.26.8/bin:$PATH GOFLAGS=-mod=mod GOPROXY=off GOSUMDB=off GOTOOLCHAIN=local go test -json -vet=off -count=1 -timeout 25m ./...",
           "source_commits": hook_commits, "add_only": True},
 "engines": [{"name": "govc", "path": "/verif/govc", "serves_properties": claimed,
              "kind_free_text": "contract-based deductive verifier for Go written for this task: go/ssa (naive form) -> verification conditions (Burstall memory model, integer arithmetic with proved range obligations or exact wrap-around) -> z3 5.1 / cvc5 1.0 / z3 4.8; pair (relational) lemmas over real function bodies and loop bodies; footprint back end; zero-annotation safety sweep; replay of solver models on the real code via go test -overlay"}],
 "checks": checks,
 "notes": "See DESIGN.md. Known findings: known_findings.json. Every check rebuilds its obligations from /repo's working tree.",
 "not_applicable": na,
}
json.dump(m, open('/verif/MANIFEST.json', 'w'), indent=1)
print("claimed", claimed, "na", [x['property_id'] for x in na])
