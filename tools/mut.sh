#!/bin/sh
# Usage: tools/mut.sh <patch.diff | seeded-dir> <govc args...>
# Applies a change to a scratch worktree of /repo (HEAD plus the current, possibly uncommitted,
# contract files), runs bin/govc5 (or $GOVC) with -root <worktree> and the given arguments, removes
# the worktree.  /repo itself is never touched.
p="$1"; shift
[ -d "$p" ] && p="$p/patch.diff"
p=$(readlink -f "$p")
export PATH=/opt/veriftools/go1.26.8/bin:$PATH GOFLAGS=-mod=mod GOPROXY=off GOSUMDB=off GOTOOLCHAIN=local
wt=$(mktemp -d /tmp/govc-mut.XXXXXX)
git -C /repo worktree add -q --detach "$wt" HEAD || exit 2
(cd ${CONTRACTS_FROM:-/repo} && find . -name contracts_verif.go | while read f; do mkdir -p "$wt/$(dirname $f)"; cp "$f" "$wt/$f"; done)
git -C "$wt" apply "$p" || { echo "patch does not apply"; git -C /repo worktree remove --force "$wt"; exit 2; }
G=${GOVC:-/verif/bin/govc5}
"$G" "$@" -root "$wt"
rc=$?
git -C /repo worktree remove --force "$wt"
exit $rc
