#!/bin/sh
# Must-fail corpus: applies each seeded change (or reverts a fix commit) to a scratch worktree of
# /repo outside /repo and /verif, runs the property's check against it and expects a VIOLATION
# (entries with "expect": "silent" must stay silent).  Scratch worktrees are removed afterwards.
# Usage: selftest/run.sh [dir ...]      (default: every directory under /verif/seeded and /verif/selftest/cases)
cd "$(dirname "$0")/.." || exit 2
export PATH=/opt/veriftools/go1.26.8/bin:$PATH GOFLAGS=-mod=mod GOPROXY=off GOSUMDB=off GOTOOLCHAIN=local
[ -x bin/govc ] || ./setup.sh >/dev/null
dirs="$*"
[ -n "$dirs" ] || dirs="$(ls -d seeded/*/ selftest/cases/*/ 2>/dev/null)"
fail=0
for d in $dirs; do
  d=${d%/}
  meta="$d/meta.json"
  [ -f "$meta" ] || continue
  props=$(jq -r '.property | if type=="array" then .[] else . end' "$meta")
  expect=$(jq -r '.expect // "violation"' "$meta")
  revert=$(jq -r '.revert_commit // empty' "$meta")
  wt=$(mktemp -d /tmp/govc-selftest.XXXXXX)
  git -C /repo worktree add -q --detach "$wt" HEAD || { echo "SELFTEST $d: cannot create worktree"; fail=1; continue; }
  if [ -n "$revert" ]; then
    git -C /repo show "$revert" | git -C "$wt" apply -R || { echo "SELFTEST $d: cannot revert $revert"; fail=1; }
  else
    git -C "$wt" apply "$PWD/$d/patch.diff" || { echo "SELFTEST $d: patch does not apply"; fail=1; }
  fi
  for p in $props; do
    out=$(mktemp -d /tmp/govc-selftest-out.XXXXXX)
    ./bin/govc check -prop "$p" -tier quick -root "$wt" -outdir "$out" > "$out/log" 2>&1
    rc=$?
    nviol=$(grep -c '^VIOLATION' "$out/log")
    first=$(grep '^VIOLATION' "$out/log" | head -1)
    if [ "$expect" = "violation" ]; then
      if [ $rc -ne 0 ] && [ "$nviol" -gt 0 ]; then echo "SELFTEST ok   $d [$p]: detected ($nviol) $first"; else echo "SELFTEST MISS $d [$p]: no violation reported (rc=$rc)"; fail=1; fi
    else
      if [ $rc -eq 0 ] && [ "$nviol" -eq 0 ]; then echo "SELFTEST ok   $d [$p]: silent"; else echo "SELFTEST FALSE-ALARM $d [$p]: $first"; fail=1; fi
    fi
    rm -rf "$out"
  done
  git -C /repo worktree remove --force "$wt"
done
exit $fail
