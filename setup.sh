#!/bin/sh
# Build govc offline. Usage: ./setup.sh
set -e
cd "$(dirname "$0")"
export PATH=/opt/veriftools/go1.26.8/bin:$PATH GOFLAGS=-mod=mod GOPROXY=off GOSUMDB=off GOTOOLCHAIN=local
mkdir -p bin out evidence replays
(cd govc && go build -o ../bin/govc .)
echo "govc built"
