#!/bin/sh
# Runs every claimed check once (quick tier by default) and prints a one-line summary per property.
cd "$(dirname "$0")" || exit 2
TIER="${1:-quick}"
for id in $(jq -r '.checks[].property_id' MANIFEST.json); do
  t0=$(date +%s)
  ./check "$id" "$TIER" > "out/check_$id.log" 2>&1
  rc=$?
  t1=$(date +%s)
  echo "$id rc=$rc $((t1-t0))s $(grep -c '^VIOLATION' out/check_$id.log) violations, $(grep -c '^KNOWN-FINDING' out/check_$id.log) known | $(tail -1 out/check_$id.log)"
done
