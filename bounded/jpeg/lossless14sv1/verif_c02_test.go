package lossless14sv1

// Bounded stand-ins for C02 (jpeg/lossless14sv1, the Selection-Value-1 codec):
// Decode(Encode(image)) returns the input samples and the same width, height,
// component count and precision, for precision 2..16 and 1 or 3 components.

import (
	"fmt"
	"math/rand"
	"testing"
)

func verifSafeEncode(pix []byte, w, h, nc, p int) (out []byte, err error, pan interface{}) {
	defer func() {
		if r := recover(); r != nil {
			pan = r
		}
	}()
	out, err = Encode(pix, w, h, nc, p)
	return
}

type verifDecoded struct {
	pix        []byte
	w, h, c, p int
}

func verifSafeDecode(data []byte) (d verifDecoded, err error, pan interface{}) {
	defer func() {
		if r := recover(); r != nil {
			pan = r
		}
	}()
	d.pix, d.w, d.h, d.c, d.p, err = Decode(data)
	return
}

// verifStreamMaxCodeLen returns the longest code length of any DHT table in
// the stream header (0 if none).
func verifStreamMaxCodeLen(stream []byte) int {
	pos := 2
	best := 0
	for pos+4 <= len(stream) && stream[pos] == 0xFF {
		m := stream[pos+1]
		l := int(stream[pos+2])<<8 | int(stream[pos+3])
		if m == 0xDA {
			break
		}
		if m == 0xC4 {
			seg := stream[pos+4 : pos+2+l]
			for len(seg) >= 17 {
				n := 0
				for i := 1; i <= 16; i++ {
					n += int(seg[i])
					if seg[i] != 0 && i > best {
						best = i
					}
				}
				if 17+n > len(seg) {
					break
				}
				seg = seg[17+n:]
			}
		}
		pos += 2 + l
	}
	return best
}

// verifStreamHasSymbol reports whether any DHT table of the stream header
// defines a code for the given symbol (category).
func verifStreamHasSymbol(stream []byte, sym byte) bool {
	pos := 2
	for pos+4 <= len(stream) && stream[pos] == 0xFF {
		m := stream[pos+1]
		l := int(stream[pos+2])<<8 | int(stream[pos+3])
		if m == 0xDA {
			break
		}
		if m == 0xC4 {
			seg := stream[pos+4 : pos+2+l]
			for len(seg) >= 17 {
				n := 0
				for i := 1; i <= 16; i++ {
					n += int(seg[i])
				}
				if 17+n > len(seg) {
					break
				}
				for _, v := range seg[17 : 17+n] {
					if v == sym {
						return true
					}
				}
				seg = seg[17+n:]
			}
		}
		pos += 2 + l
	}
	return false
}

func verifC02Check(rep *verifReport, im verifImage) (stream []byte) {
	rep.cases++
	src := im.pack()
	size := len(im.S)
	desc := im.String()
	stream, err, pan := verifSafeEncode(src, im.W, im.H, im.Nc, im.P)
	if pan != nil {
		rep.fail("kind=encode_panic", im.P, size, fmt.Sprintf("%s panic=%q", desc, fmt.Sprint(pan)))
		return stream
	}
	if err != nil {
		rep.fail("kind=encode_error", im.P, size, fmt.Sprintf("%s err=%s", desc, verifShortErr(err)))
		return stream
	}
	d, err, pan := verifSafeDecode(stream)
	if pan != nil {
		rep.fail("kind=decode_panic", im.P, size, fmt.Sprintf("%s panic=%q", desc, fmt.Sprint(pan)))
		return stream
	}
	if err != nil {
		rep.fail("kind=decode_error", im.P, size, fmt.Sprintf("%s err=%s", desc, verifShortErr(err)))
		return stream
	}
	if d.w != im.W || d.h != im.H || d.c != im.Nc || d.p != im.P {
		rep.fail("kind=header_mismatch", im.P, size, fmt.Sprintf("%s got_w=%d got_h=%d got_nc=%d got_p=%d", desc, d.w, d.h, d.c, d.p))
		return stream
	}
	if len(d.pix) != len(src) {
		rep.fail("kind=length_mismatch", im.P, size, fmt.Sprintf("%s want_bytes=%d got_bytes=%d", desc, len(src), len(d.pix)))
		return stream
	}
	got := verifUnpack(d.pix, im.P)
	if !verifEqualInts(im.S, got) {
		rep.fail("kind=sample_mismatch", im.P, size, fmt.Sprintf("%s %s", desc, verifDiff(im.S, got)))
	}
	return stream
}

func TestVerif_C02_RoundTripGrid(t *testing.T) {
	rep := verifNewReport("TestVerif_C02_RoundTripGrid")
	rng := rand.New(rand.NewSource(verifSeed()*7919 + 14))
	reps := 4
	if verifTier() == "thorough" {
		reps = 40
	}
	cat16 := 0
	for P := 2; P <= 16; P++ {
		for _, nc := range []int{1, 3} {
			for _, sz := range verifSizes {
				for _, content := range verifContents {
					n := 1
					if content == "noise" || content == "half" || content == "extremes" {
						n = reps
					}
					for i := 0; i < n; i++ {
						st := verifC02Check(rep, verifMakeImage(content, P, sz[0], sz[1], nc, rng))
						if st != nil && verifStreamHasSymbol(st, 16) {
							cat16++
						}
					}
				}
			}
		}
	}
	rep.finish(t, fmt.Sprintf("SV1 Decode(Encode(img)) == img incl. w,h,components,precision; P 2..16 x components {1,3} x WxH {1x1,1x2,2x1,2x2,3x3,5x4,8x8,17x9,64x3} x contents %v (random contents x%d, seed %d); cover: %d streams code category 16 (difference -32768)",
		verifContents, reps, verifSeed(), cat16))
}

func verifEnumerate(P, W, H, Nc int, f func(verifImage)) {
	n := W * H * Nc
	im := verifImage{P: P, W: W, H: H, Nc: Nc, Name: "enumerated", S: make([]int, n)}
	m := 1 << uint(P)
	for {
		f(im)
		i := 0
		for i < n {
			im.S[i]++
			if im.S[i] < m {
				break
			}
			im.S[i] = 0
			i++
		}
		if i == n {
			return
		}
	}
}

func TestVerif_C02_ExhaustiveTiny(t *testing.T) {
	rep := verifNewReport("TestVerif_C02_ExhaustiveTiny")
	type shape struct{ P, W, H, Nc int }
	var shapes []shape
	var domain string
	if verifTier() == "thorough" {
		for w := 1; w <= 3; w++ {
			for h := 1; h <= 3; h++ {
				shapes = append(shapes, shape{2, w, h, 1})
				if w*h <= 6 {
					shapes = append(shapes, shape{3, w, h, 1})
				}
				if w*h <= 2 {
					shapes = append(shapes, shape{2, w, h, 3}, shape{3, w, h, 3})
				}
			}
		}
		shapes = append(shapes, shape{2, 3, 1, 3}, shape{2, 1, 3, 3}, shape{2, 2, 2, 3})
		domain = "ALL images: P=2 1 component WxH up to 3x3; P=3 1 component W*H<=6; 3 components P in {2,3} W*H<=2 and P=2 3x1,1x3,2x2 (3x3 at P=3 not enumerated: 8^9 images)"
	} else {
		for _, wh := range [][2]int{{1, 1}, {1, 2}, {2, 1}, {2, 2}, {3, 2}, {2, 3}} {
			shapes = append(shapes, shape{2, wh[0], wh[1], 1})
		}
		for _, wh := range [][2]int{{1, 1}, {1, 2}, {2, 1}} {
			shapes = append(shapes, shape{2, wh[0], wh[1], 3}, shape{3, wh[0], wh[1], 1})
		}
		shapes = append(shapes, shape{3, 2, 2, 1})
		domain = "ALL images: P=2 1 component 1x1,1x2,2x1,2x2,3x2,2x3; P=2 3 components and P=3 1 component 1x1,1x2,2x1; P=3 1 component 2x2 (2x2x3 at P=2 = 4^12 images only in the thorough tier)"
	}
	for _, s := range shapes {
		verifEnumerate(s.P, s.W, s.H, s.Nc, func(im verifImage) {
			cp := im
			if rep.fails < 50 {
				cp.S = append([]int(nil), im.S...)
			}
			verifC02Check(rep, cp)
		})
	}
	rep.finish(t, domain)
}

func verifLongCodeDiff(cat int) int {
	switch {
	case cat == 0:
		return 0
	case cat == 16:
		return -32768
	case cat%2 == 0:
		return -(1<<uint(cat) - 1) // most negative value of the category
	default:
		return 1 << uint(cat-1) // smallest positive value of the category
	}
}

// verifLongCodeImage builds a one-line P=16 image whose predictor-1 differences
// have Fibonacci-distributed categories 0..16 (so that an optimal Huffman code
// needs more than 16 bits before length limiting), in seeded random order.
func verifLongCodeImage(nc int, rng *rand.Rand) verifImage {
	var diffs []int
	a, b := 1, 1
	for cat := 16; cat >= 0; cat-- { // category 16 once, 15 once, 14 twice, 13 three times, ...
		for i := 0; i < a; i++ {
			diffs = append(diffs, verifLongCodeDiff(cat))
		}
		a, b = b, a+b
	}
	rng.Shuffle(len(diffs), func(i, j int) { diffs[i], diffs[j] = diffs[j], diffs[i] })
	W := len(diffs) + 1
	im := verifImage{P: 16, W: W, H: 1, Nc: nc, Name: "fibonacci_categories", S: make([]int, W*nc)}
	for c := 0; c < nc; c++ {
		prev := 32768 // first sample equals the initial prediction: difference 0
		im.S[c] = prev
		for x := 1; x < W; x++ {
			prev = (prev + diffs[(x-1+c*17)%len(diffs)]) & 0xFFFF
			im.S[x*nc+c] = prev
		}
	}
	return im
}

// Alphabets that force 16-bit Huffman codes.
func TestVerif_C02_LongHuffmanCodes(t *testing.T) {
	rep := verifNewReport("TestVerif_C02_LongHuffmanCodes")
	rng := rand.New(rand.NewSource(verifSeed()*31 + 5))
	reps := 8
	if verifTier() == "thorough" {
		reps = 100
	}
	maxLen := 0
	w := 0
	for i := 0; i < reps; i++ {
		for _, nc := range []int{1, 3} {
			im := verifLongCodeImage(nc, rng)
			w = im.W
			verifC02Check(rep, im)
			if s, err, pan := verifSafeEncode(im.pack(), im.W, im.H, im.Nc, im.P); err == nil && pan == nil {
				if l := verifStreamMaxCodeLen(s); l > maxLen {
					maxLen = l
				}
			}
		}
	}
	rep.finish(t, fmt.Sprintf("SV1 round trip of one-line P=16 images (W=%d) whose differences have Fibonacci-distributed categories 0..16 (incl. -32768), %d shuffles x components {1,3}; cover: longest code in the encoder's DHT = %d bits",
		w, reps, maxLen))
}
