package lossless14sv1

// Bounded stand-ins for C13 (jpeg/lossless14sv1): interoperability of the
// Selection-Value-1 encoder/decoder with the independent T.81 Annex H
// reference codec of verif_t81ref_test.go (predictor 1), in both directions.

import (
	"fmt"
	"math/rand"
	"testing"
)

// direction A: SV1 encoder -> reference decoder
func TestVerif_C13_LibEncRefDec(t *testing.T) {
	rep := verifNewReport("TestVerif_C13_LibEncRefDec")
	rng := rand.New(rand.NewSource(verifSeed()*104729 + 14))
	reps := 4
	if verifTier() == "thorough" {
		reps = 40
	}
	check := func(im verifImage) {
		rep.cases++
		size := len(im.S)
		desc := "dir=libenc_refdec " + im.String()
		stream, err, pan := verifSafeEncode(im.pack(), im.W, im.H, im.Nc, im.P)
		if pan != nil || err != nil {
			rep.fail("dir=libenc_refdec kind=encode_failed", im.P, size, fmt.Sprintf("%s err=%v panic=%v", desc, err, pan))
			return
		}
		d, err := verifRefDecode(stream)
		if err != nil {
			rep.fail("dir=libenc_refdec kind=ref_rejects_stream", im.P, size, fmt.Sprintf("%s err=%s", desc, verifShortErr(err)))
			return
		}
		if d.W != im.W || d.H != im.H || d.Nc != im.Nc || d.P != im.P || d.Pred != 1 {
			rep.fail("dir=libenc_refdec kind=header_mismatch", im.P, size, fmt.Sprintf("%s got_w=%d got_h=%d got_nc=%d got_p=%d got_ss=%d", desc, d.W, d.H, d.Nc, d.P, d.Pred))
			return
		}
		if !verifEqualInts(im.S, d.S) {
			rep.fail("dir=libenc_refdec kind=sample_mismatch", im.P, size, fmt.Sprintf("%s ref_decoder: %s", desc, verifDiff(im.S, d.S)))
		}
	}
	for P := 2; P <= 16; P++ {
		for _, nc := range []int{1, 3} {
			for _, sz := range verifSizes {
				for _, content := range verifContents {
					n := 1
					if content == "noise" || content == "half" || content == "extremes" {
						n = reps
					}
					for i := 0; i < n; i++ {
						check(verifMakeImage(content, P, sz[0], sz[1], nc, rng))
					}
				}
			}
		}
	}
	for i := 0; i < 2; i++ {
		for _, nc := range []int{1, 3} {
			check(verifLongCodeImage(nc, rng))
		}
	}
	rep.finish(t, fmt.Sprintf("reference T.81 decoder applied to SV1 Encode(img) returns img and Ss=1; P 2..16 x components {1,3} x WxH {1x1,1x2,2x1,2x2,3x3,5x4,8x8,17x9,64x3} x contents %v (random contents x%d, seed %d) + 4 long-code images (P=16, 16-bit Huffman codes)",
		verifContents, reps, verifSeed()))
}

// direction B: reference encoder (predictor 1) -> SV1 decoder
func verifC13RefEncLibDecCheck(t *testing.T, rep *verifReport, im verifImage, o verifRefOpts, rng *rand.Rand) {
	rep.cases++
	size := len(im.S)
	stream := verifRefEncode(im, o, rng)
	self, err := verifRefDecode(stream)
	if err != nil || !verifEqualInts(self.S, im.S) || self.P != im.P || self.W != im.W || self.H != im.H || self.Nc != im.Nc {
		t.Fatalf("TEST DEFECT: reference codec does not round-trip its own stream: %v %s %s", err, o.desc(im.Nc), im.String())
	}
	tdClass := "td_all0"
	for c := 0; c < im.Nc; c++ {
		if o.Td[c] != 0 {
			tdClass = "td_nonzero"
		}
	}
	desc := fmt.Sprintf("dir=refenc_libdec %s %s", o.desc(im.Nc), im.String())
	key := func(kind string) string {
		return fmt.Sprintf("dir=refenc_libdec pred=1 tdclass=%s kind=%s", tdClass, kind)
	}
	d, err, pan := verifSafeDecode(stream)
	switch {
	case pan != nil:
		rep.fail(key("decode_panic"), im.P, size, fmt.Sprintf("%s panic=%q", desc, fmt.Sprint(pan)))
		return
	case err != nil:
		rep.fail(key("decode_error"), im.P, size, fmt.Sprintf("%s err=%s", desc, verifShortErr(err)))
		return
	case d.w != im.W || d.h != im.H || d.c != im.Nc || d.p != im.P:
		rep.fail(key("header_mismatch"), im.P, size, fmt.Sprintf("%s got_w=%d got_h=%d got_nc=%d got_p=%d", desc, d.w, d.h, d.c, d.p))
		return
	}
	got := verifUnpack(d.pix, im.P)
	if !verifEqualInts(im.S, got) {
		rep.fail(key("sample_mismatch"), im.P, size, fmt.Sprintf("%s lib_decoder: %s", desc, verifDiff(im.S, got)))
	}
}

func verifTdAssignments(nc int) [][3]int {
	var out [][3]int
	if nc == 1 {
		for a := 0; a < 4; a++ {
			out = append(out, [3]int{a, 0, 0})
		}
		return out
	}
	for a := 0; a < 4; a++ {
		for b := 0; b < 4; b++ {
			for c := 0; c < 4; c++ {
				out = append(out, [3]int{a, b, c})
			}
		}
	}
	return out
}

func TestVerif_C13_RefEncLibDec(t *testing.T) {
	rep := verifNewReport("TestVerif_C13_RefEncLibDec")
	rng := rand.New(rand.NewSource(verifSeed()*1299709 + 14))
	reps := 2
	if verifTier() == "thorough" {
		reps = 12
	}
	contents := []string{"noise", "noise", "noise", "half", "extremes", "checker", "rampdiag", "neg32768", "zero"}
	for P := 2; P <= 16; P++ {
		for _, nc := range []int{1, 3} {
			for _, td := range verifTdAssignments(nc) {
				for kind := 0; kind < 3; kind++ {
					for flags := 0; flags < 4; flags++ {
						for i := 0; i < reps; i++ {
							sz := verifSizes[rng.Intn(len(verifSizes))]
							im := verifMakeImage(contents[rng.Intn(len(contents))], P, sz[0], sz[1], nc, rng)
							o := verifRefOpts{Pred: 1, Td: td, TableKind: kind, Extras: flags&1 != 0, DHTAfterSOF: flags&2 != 0, DHTSplit: rng.Intn(2) == 0}
							verifC13RefEncLibDecCheck(t, rep, im, o, rng)
						}
					}
				}
			}
		}
	}
	rep.finish(t, fmt.Sprintf("SV1 Decode(reference T.81 encoder(img, Ss=1)) returns img; P 2..16 x components {1,3} x ALL table destinations Td in {0..3}^components x tables {K.3 luminance DC extended to 17 categories, per-image optimal, random valid canonical} x {with,without} APP0/APP1/COM/APP14 before SOF3 x DHT {before,after} SOF3 (one or several DHT segments, seeded) x %d seeded image(s) per combination (WxH from the grid sizes, contents %v, seed %d)",
		reps, contents, verifSeed()))
}

// Table destinations 0..3 (B.2.3: Td in 0..3 for the lossless process).
func TestVerif_C13_Witness_TableDestinations(t *testing.T) {
	rep := verifNewReport("TestVerif_C13_Witness_TableDestinations")
	for td := 0; td < 4; td++ {
		for _, after := range []bool{false, true} {
			im := verifImage{P: 8, W: 1, H: 1, Nc: 1, S: []int{128}, Name: "witness"}
			o := verifRefOpts{Pred: 1, Td: [3]int{td, 0, 0}, DHTAfterSOF: after}
			rep.cases++
			stream := verifRefEncode(im, o, nil)
			if self, err := verifRefDecode(stream); err != nil || !verifEqualInts(self.S, im.S) {
				t.Fatalf("TEST DEFECT: reference codec does not round-trip its own stream: %v", err)
			}
			d, err, pan := verifSafeDecode(stream)
			res := ""
			switch {
			case pan != nil:
				res = fmt.Sprintf("panic:%q", fmt.Sprint(pan))
			case err != nil:
				res = "error:" + verifShortErr(err)
			default:
				if got := verifUnpack(d.pix, 8); !verifEqualInts(got, im.S) {
					res = "got:" + verifInts(got)
				}
			}
			if res != "" {
				rep.fail(fmt.Sprintf("td=%d", td), 8, 0, fmt.Sprintf("P=8 W=1 H=1 Nc=1 src=[128] pred=1 td=%d dht_after_sof=%v libdec_of_refenc=%s stream=% x", td, after, res, stream))
			}
		}
	}
	rep.finish(t, "P=8 1x1 one-component image [128], predictor 1, K.3-extended table sent as DHT Th=Td for Td in 0..3, DHT before/after SOF3; SV1 Decode(reference stream) must return [128]")
}
