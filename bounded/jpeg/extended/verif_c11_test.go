package extended

// Bounded stand-in for C11 on the Extended (process 2/4) encoder/decoder pair:
// extended.Encode(pixels, w, h, components, bitDepth, quality) -> extended.Decode(stream), with
// bitDepth 8 (1 or 3 components; the encoder delegates to the Baseline encoder and the decoder to
// Go's image/jpeg) and bitDepth 12 (1 component, 16-bit little-endian samples 0..4095, native SOF1
// implementation).  See verif_c11_common_test.go for the statement, the bound and the domains.
// The 12-bit encoder writes the same 8-bit-precision (Pq=0) table ScaleQuantTable produces for 8-bit
// data, so the bound in 12-bit sample units uses exactly the same formula on the parsed table.

import "testing"

func verifC11Codecs() []*verifC11Codec {
	enc := func(pix []byte, w, h, comps, bits, q int) ([]byte, error) { return Encode(pix, w, h, comps, bits, q) }
	dec := func(s []byte) ([]byte, int, int, int, int, error) { return Decode(s) }
	return []*verifC11Codec{
		{name: "extended-grey8", comps: 1, bits: 8, sofs: []byte{0xC0, 0xC1}, encode: enc, decode: dec},
		{name: "extended-rgb8", comps: 3, bits: 8, sofs: []byte{0xC0, 0xC1}, encode: enc, decode: dec},
		{name: "extended-grey12", comps: 1, bits: 12, sofs: []byte{0xC1}, encode: enc, decode: dec},
	}
}

func TestVerif_C11_BlockShapes(t *testing.T) {
	verifC11RunBlockShapes(t, "TestVerif_C11_BlockShapes", verifC11Codecs())
}

func TestVerif_C11_EveryQuality(t *testing.T) {
	verifC11RunEveryQuality(t, "TestVerif_C11_EveryQuality", verifC11Codecs())
}

func TestVerif_C11_Quality100Grey(t *testing.T) {
	verifC11RunQuality100(t, "TestVerif_C11_Quality100Grey", verifC11Codecs())
}

func TestVerif_C11_RandomSizes(t *testing.T) {
	verifC11RunRandomSizes(t, "TestVerif_C11_RandomSizes", verifC11Codecs())
}

func TestVerif_C11_StreamTables(t *testing.T) {
	verifC11RunStreamTables(t, "TestVerif_C11_StreamTables", verifC11Codecs())
}
