package baseline

// Shared machinery of the C11 bounded stand-ins (identical copy in jpeg/baseline and jpeg/extended;
// only the package clause differs).
//
// C11: "For every image and every quality 1..100, decoding the Baseline or Extended encoder's output
// yields an image of identical geometry whose every sample differs from the source by no more than
// the worst-case effect of the quantisation tables written in that stream (one eighth of the
// C(u)C(v)-weighted sum of the table entries per DCT component, propagated through the colour matrix
// for RGB) plus a fixed rounding allowance of 2 grey levels (5 per RGB channel). In particular at
// quality 100 no greyscale sample is off by more than 10, and at every quality the matching decoder
// accepts the stream the encoder returned."
//
// The bound is computed from the DQT segment(s) found in the emitted stream by an independent marker
// walk (no library parser): each dequantised coefficient is off by at most Q[u][v]/2, the inverse
// DCT sample is (1/4)*sum C(u)C(v)F(u,v)cos()cos(), so a sample of one DCT component is off by at
// most B(Q) = (1/8)*sum_{u,v} C(u)C(v)Q[u][v], C(0)=1/sqrt(2), C(k>0)=1.
//   greyscale (8 or 12 bit, sample units):  |err| <= B(Q_Y) + 2
//   RGB (encoder converts to YCbCr 4:4:4):  |err_R| <= B(Q_Y) + 1.402*B(Q_Cr) + 5
//                                           |err_G| <= B(Q_Y) + 0.344136*B(Q_Cb) + 0.714136*B(Q_Cr) + 5
//                                           |err_B| <= B(Q_Y) + 1.772*B(Q_Cb) + 5
// where Q_c is the table the SOF header of the stream assigns to component c.

import (
	"fmt"
	"math"
	"math/rand"
	"os"
	"sort"
	"strconv"
	"strings"
	"testing"
	"time"
)

func verifC11Thorough() bool { return os.Getenv("VERIF_TIER") == "thorough" }

func verifC11Seed() int64 {
	if s := os.Getenv("VERIF_SEED"); s != "" {
		if v, err := strconv.ParseInt(s, 10, 64); err == nil {
			return v
		}
	}
	return 20260923
}

// verifC11FigureA6 is ITU-T T.81 Figure A.6 written out literally: entry [row v][column u] is the
// position of DCT coefficient S(v,u) in the zig-zag sequence.
var verifC11FigureA6 = [8][8]int{
	{0, 1, 5, 6, 14, 15, 27, 28},
	{2, 4, 7, 13, 16, 26, 29, 42},
	{3, 8, 12, 17, 25, 30, 41, 43},
	{9, 11, 18, 24, 31, 40, 44, 53},
	{10, 19, 23, 32, 39, 45, 52, 54},
	{20, 22, 33, 38, 46, 51, 55, 60},
	{21, 34, 37, 47, 50, 56, 59, 61},
	{35, 36, 48, 49, 57, 58, 62, 63},
}

// ---------------------------------------------------------------------------------------------
// independent header walk

type verifC11Header struct {
	sof       byte
	precision int
	w, h      int
	compID    []int
	compHV    []int
	compTq    []int
	tables    map[int]*[64]int // natural (row-major v*8+u) order
	tablePq   map[int]int
	sawSOS    bool
}

func verifC11ParseHeader(s []byte) (*verifC11Header, error) {
	if len(s) < 4 || s[0] != 0xFF || s[1] != 0xD8 {
		return nil, fmt.Errorf("no SOI")
	}
	h := &verifC11Header{tables: map[int]*[64]int{}, tablePq: map[int]int{}}
	i := 2
	for {
		if i >= len(s) {
			return nil, fmt.Errorf("ran off the stream before SOS")
		}
		if s[i] != 0xFF {
			return nil, fmt.Errorf("offset %d: expected marker, found 0x%02x", i, s[i])
		}
		for i < len(s) && s[i] == 0xFF {
			i++
		}
		if i >= len(s) {
			return nil, fmt.Errorf("truncated marker")
		}
		m := s[i]
		i++
		if m == 0x01 || (m >= 0xD0 && m <= 0xD8) {
			continue
		}
		if m == 0xD9 {
			return nil, fmt.Errorf("EOI before SOS")
		}
		if i+2 > len(s) {
			return nil, fmt.Errorf("truncated segment length")
		}
		l := int(s[i])<<8 | int(s[i+1])
		if l < 2 || i+l > len(s) {
			return nil, fmt.Errorf("marker 0x%02x: bad length %d", m, l)
		}
		p := s[i+2 : i+l]
		i += l
		switch {
		case m == 0xDB:
			for len(p) > 0 {
				pq, tq := int(p[0]>>4), int(p[0]&15)
				n := 64 * (pq + 1)
				if pq > 1 || tq > 3 || len(p) < 1+n {
					return nil, fmt.Errorf("malformed DQT (Pq=%d Tq=%d remaining=%d)", pq, tq, len(p))
				}
				var t [64]int
				for v := 0; v < 8; v++ {
					for u := 0; u < 8; u++ {
						k := verifC11FigureA6[v][u]
						if pq == 0 {
							t[v*8+u] = int(p[1+k])
						} else {
							t[v*8+u] = int(p[1+2*k])<<8 | int(p[2+2*k])
						}
					}
				}
				h.tables[tq] = &t
				h.tablePq[tq] = pq
				p = p[1+n:]
			}
		case m >= 0xC0 && m <= 0xCF && m != 0xC4 && m != 0xC8 && m != 0xCC:
			if len(p) < 6 || len(p) != 6+3*int(p[5]) {
				return nil, fmt.Errorf("malformed SOF")
			}
			h.sof = m
			h.precision = int(p[0])
			h.h = int(p[1])<<8 | int(p[2])
			h.w = int(p[3])<<8 | int(p[4])
			for c := 0; c < int(p[5]); c++ {
				h.compID = append(h.compID, int(p[6+3*c]))
				h.compHV = append(h.compHV, int(p[7+3*c]))
				h.compTq = append(h.compTq, int(p[8+3*c]))
			}
		case m == 0xDA:
			h.sawSOS = true
			return h, nil
		}
	}
}

// verifC11TableBound is B(Q) = (1/8) * sum C(u)C(v) Q[v][u].
func verifC11TableBound(q *[64]int) float64 {
	sum := 0.0
	for v := 0; v < 8; v++ {
		for u := 0; u < 8; u++ {
			c := 1.0
			if u == 0 {
				c /= math.Sqrt2
			}
			if v == 0 {
				c /= math.Sqrt2
			}
			sum += c * float64(q[v*8+u])
		}
	}
	return sum / 8
}

// verifC11Bounds returns the per-channel bound for the stream described by h.
func verifC11Bounds(h *verifC11Header) ([]float64, error) {
	b := make([]float64, len(h.compTq))
	for c, tq := range h.compTq {
		t := h.tables[tq]
		if t == nil {
			return nil, fmt.Errorf("component %d refers to quantisation table %d which the stream never defines", c, tq)
		}
		for _, e := range t {
			if e < 1 {
				return nil, fmt.Errorf("quantisation table %d holds a zero entry", tq)
			}
		}
		b[c] = verifC11TableBound(t)
	}
	switch len(b) {
	case 1:
		return []float64{b[0] + 2}, nil
	case 3:
		y, cb, cr := b[0], b[1], b[2]
		return []float64{y + 1.402*cr + 5, y + 0.344136*cb + 0.714136*cr + 5, y + 1.772*cb + 5}, nil
	}
	return nil, fmt.Errorf("%d components", len(b))
}

// ---------------------------------------------------------------------------------------------
// codecs, cases, content

type verifC11Codec struct {
	name   string
	comps  int
	bits   int
	sofs   []byte // SOF markers the encoder may legitimately emit
	encode func(pix []byte, w, h, comps, bits, quality int) ([]byte, error)
	decode func(stream []byte) (pix []byte, w, h, comps, bits int, err error)
}

type verifC11Case struct {
	W, H, Q  int
	Fill     string
	Seed     int64
	Explicit []int // sample values when Fill=="explicit"
}

var verifC11Fills = []string{"noise", "black", "white", "checker", "vstripes", "hstripes", "extremes", "ramp", "impulse", "invimpulse", "blocks", "mid", "lownoise", "edge", "cshift", "corners", "adversarial"}

// verifC11Samples returns w*h*comps interleaved sample values in 0..2^bits-1.
func verifC11Samples(cd *verifC11Codec, c verifC11Case) []int {
	if c.Fill == "explicit" {
		return append([]int(nil), c.Explicit...)
	}
	rng := rand.New(rand.NewSource(c.Seed))
	max := 1<<uint(cd.bits) - 1
	n := c.W * c.H * cd.comps
	out := make([]int, n)
	imp := rng.Intn(c.W * c.H)
	if c.Fill == "adversarial" {
		return verifC11Adversarial(cd, c, rng)
	}
	for i := range out {
		pix, ch := i/cd.comps, i%cd.comps
		x, y := pix%c.W, pix/c.W
		v := 0
		switch c.Fill {
		case "noise":
			v = rng.Intn(max + 1)
		case "black":
			v = 0
		case "white":
			v = max
		case "checker": // Nyquist in both directions
			v = ((x + y) & 1) * max
		case "vstripes":
			v = (x & 1) * max
		case "hstripes":
			v = (y & 1) * max
		case "extremes":
			v = rng.Intn(2) * max
		case "ramp":
			v = ((x*5 + y*3 + ch*40) * (max + 1) / 256) % (max + 1)
		case "impulse":
			if pix == imp {
				v = max
			}
		case "invimpulse":
			v = max
			if pix == imp {
				v = 0
			}
		case "blocks":
			v = ((x/8 + y/8) & 1) * max
		case "mid":
			v = (max + 1) / 2
		case "lownoise":
			v = (max+1)/2 + rng.Intn(7) - 3
		case "edge":
			if x >= c.W/2 {
				v = max
			}
		case "cshift": // Nyquist checkerboard with a different phase per channel (saturated colours)
			v = ((x + y + ch) & 1) * max
		case "corners": // random corners of the colour cube
			v = rng.Intn(2) * max
		}
		out[i] = v
	}
	return out
}

// verifC11Adversarial builds content that approaches the worst case of the bound: in every 8x8
// block a target pixel is chosen and every DCT coefficient is set to min(0.45*Q(u,v), Q(u,v)/2-0.8) (Q = IJG scaling of
// Annex K.1 for the case's quality) with the sign of its basis function at the target, so that all
// 64 coefficients quantise to zero while their contributions add up at the target pixel
// (about 0.9*B(Q) of error).  The block is scaled down if it would leave the sample range.  All
// channels of an RGB image get the same value (pure luminance).
func verifC11Adversarial(cd *verifC11Codec, c verifC11Case, rng *rand.Rand) []int {
	max := 1<<uint(cd.bits) - 1
	mid := float64((max + 1) / 2)
	scale := 200 - 2*c.Q
	if c.Q < 50 {
		scale = 5000 / c.Q
	}
	var q [64]float64
	for i := range q {
		v := (verifC11K[0][i]*scale + 50) / 100
		if v < 1 {
			v = 1
		}
		if v > 255 {
			v = 255
		}
		q[i] = float64(v)
	}
	cosT := func(k, x int) float64 { return math.Cos(float64((2*x+1)*k) * math.Pi / 16) }
	out := make([]int, c.W*c.H*cd.comps)
	for by := 0; by*8 < c.H; by++ {
		for bx := 0; bx*8 < c.W; bx++ {
			tx, ty := rng.Intn(8), rng.Intn(8)
			if bx*8+tx >= c.W {
				tx = c.W - 1 - bx*8
			}
			if by*8+ty >= c.H {
				ty = c.H - 1 - by*8
			}
			sgn := 1.0
			if rng.Intn(2) == 0 {
				sgn = -1
			}
			var f [64]float64
			for v := 0; v < 8; v++ {
				for u := 0; u < 8; u++ {
					a := 0.45 * q[v*8+u]
					if lim := q[v*8+u]/2 - 0.8; a > lim { // keep clear of the rounding noise of the integer samples
						a = math.Max(lim, 0)
					}
					f[v*8+u] = sgn * a
					if cosT(u, tx)*cosT(v, ty) < 0 {
						f[v*8+u] = -f[v*8+u]
					}
				}
			}
			var dev [64]float64
			maxDev := 0.0
			for y := 0; y < 8; y++ {
				for x := 0; x < 8; x++ {
					sum := 0.0
					for v := 0; v < 8; v++ {
						for u := 0; u < 8; u++ {
							cc := 1.0
							if u == 0 {
								cc /= math.Sqrt2
							}
							if v == 0 {
								cc /= math.Sqrt2
							}
							sum += cc * f[v*8+u] * cosT(u, x) * cosT(v, y)
						}
					}
					dev[y*8+x] = sum / 4
					if a := math.Abs(sum / 4); a > maxDev {
						maxDev = a
					}
				}
			}
			k := 1.0
			if maxDev > mid-1 {
				k = (mid - 1) / maxDev
			}
			for y := 0; y < 8 && by*8+y < c.H; y++ {
				for x := 0; x < 8 && bx*8+x < c.W; x++ {
					val := int(math.Round(mid + k*dev[y*8+x]))
					if val < 0 {
						val = 0
					}
					if val > max {
						val = max
					}
					for ch := 0; ch < cd.comps; ch++ {
						out[((by*8+y)*c.W+bx*8+x)*cd.comps+ch] = val
					}
				}
			}
		}
	}
	return out
}

func verifC11Pack(cd *verifC11Codec, samples []int) []byte {
	if cd.bits <= 8 {
		b := make([]byte, len(samples))
		for i, v := range samples {
			b[i] = byte(v)
		}
		return b
	}
	b := make([]byte, 2*len(samples))
	for i, v := range samples {
		b[2*i] = byte(v)
		b[2*i+1] = byte(v >> 8)
	}
	return b
}

func (c verifC11Case) desc(cd *verifC11Codec) string {
	s := fmt.Sprintf("codec=%s comps=%d bits=%d w=%d h=%d quality=%d fill=%s", cd.name, cd.comps, cd.bits, c.W, c.H, c.Q, c.Fill)
	if c.Fill == "explicit" {
		parts := make([]string, len(c.Explicit))
		for i, v := range c.Explicit {
			parts[i] = strconv.Itoa(v)
		}
		return s + " samples=" + strings.Join(parts, ",")
	}
	return s + fmt.Sprintf(" seed=%d", c.Seed)
}

type verifC11Result struct {
	kind, detail string
	maxErr       int     // largest absolute sample error
	maxRatio     float64 // largest err/bound
	wx, wy, wc   int     // position of the largest excess (valid when kind is a bound kind)
}

// verifC11Check runs one case. kind=="" on success.
func verifC11Check(cd *verifC11Codec, c verifC11Case) (res verifC11Result) {
	d := c.desc(cd)
	stage := "encode"
	defer func() {
		if r := recover(); r != nil {
			res.kind = "panic-in-" + stage
			res.detail = fmt.Sprintf("%s panic=%q", d, strings.ReplaceAll(fmt.Sprint(r), "\n", " "))
		}
	}()
	samples := verifC11Samples(cd, c)
	stream, err := cd.encode(verifC11Pack(cd, samples), c.W, c.H, cd.comps, cd.bits, c.Q)
	if err != nil {
		return verifC11Result{kind: "encode-error", detail: fmt.Sprintf("%s err=%q", d, err.Error())}
	}
	stage = "header-walk"
	hd, err := verifC11ParseHeader(stream)
	if err != nil {
		return verifC11Result{kind: "stream-malformed", detail: fmt.Sprintf("%s err=%q", d, err.Error())}
	}
	sofOK := false
	for _, m := range cd.sofs {
		sofOK = sofOK || m == hd.sof
	}
	if !sofOK || hd.w != c.W || hd.h != c.H || len(hd.compTq) != cd.comps || hd.precision != cd.bits {
		return verifC11Result{kind: "stream-geometry", detail: fmt.Sprintf("%s sof=0x%02x stream_w=%d stream_h=%d stream_comps=%d stream_precision=%d", d, hd.sof, hd.w, hd.h, len(hd.compTq), hd.precision)}
	}
	bounds, err := verifC11Bounds(hd)
	if err != nil {
		return verifC11Result{kind: "stream-tables", detail: fmt.Sprintf("%s err=%q", d, err.Error())}
	}
	stage = "decode"
	pix, w, h, comps, bits, err := cd.decode(stream)
	if err != nil {
		return verifC11Result{kind: "decoder-rejects", detail: fmt.Sprintf("%s stream_len=%d err=%q", d, len(stream), err.Error())}
	}
	stage = "compare"
	bps := 1
	if cd.bits > 8 {
		bps = 2
	}
	if w != c.W || h != c.H || comps != cd.comps || bits != cd.bits || len(pix) != c.W*c.H*cd.comps*bps {
		return verifC11Result{kind: "geometry", detail: fmt.Sprintf("%s decoded w=%d h=%d comps=%d bits=%d len=%d want_len=%d", d, w, h, comps, bits, len(pix), c.W*c.H*cd.comps*bps)}
	}
	worstExcess := math.Inf(-1)
	var worstGot, worstSrc int
	outOfRange := -1
	for i, src := range samples {
		got := int(pix[i])
		if bps == 2 {
			got = int(pix[2*i]) | int(pix[2*i+1])<<8
		}
		if got > 1<<uint(cd.bits)-1 && outOfRange < 0 {
			outOfRange = i
		}
		e := got - src
		if e < 0 {
			e = -e
		}
		if e > res.maxErr {
			res.maxErr = e
		}
		b := bounds[i%cd.comps]
		if r := float64(e) / b; r > res.maxRatio {
			res.maxRatio = r
		}
		if ex := float64(e) - b; ex > worstExcess {
			worstExcess = ex
			res.wx, res.wy, res.wc = (i/cd.comps)%c.W, (i/cd.comps)/c.W, i%cd.comps
			worstGot, worstSrc = got, src
		}
	}
	if outOfRange >= 0 {
		res.kind = "sample-out-of-range"
		res.detail = fmt.Sprintf("%s sample_index=%d", d, outOfRange)
		return res
	}
	if worstExcess > 0 {
		res.kind = "bound-exceeded"
		e := worstGot - worstSrc
		if e < 0 {
			e = -e
		}
		res.detail = fmt.Sprintf("%s x=%d y=%d channel=%d source=%d decoded=%d error=%d bound=%.3f", d, res.wx, res.wy, res.wc, worstSrc, worstGot, e, bounds[res.wc])
		return res
	}
	if c.Q == 100 && cd.comps == 1 && res.maxErr > 10 {
		res.kind = "q100-grey-error>10"
		res.detail = fmt.Sprintf("%s max_error=%d", d, res.maxErr)
	}
	return res
}

// verifC11Minimise cuts the 8x8 block (clipped to the image) holding the worst sample out of a
// failing case and, if that block alone still fails the same way, returns it as an explicit case.
func verifC11Minimise(cd *verifC11Codec, c verifC11Case, r verifC11Result) (verifC11Case, verifC11Result, bool) {
	if !strings.HasPrefix(r.kind, "bound-exceeded") && !strings.HasPrefix(r.kind, "q100") {
		return c, r, false
	}
	samples := verifC11Samples(cd, c)
	x0, y0 := r.wx/8*8, r.wy/8*8
	if strings.HasPrefix(r.kind, "q100") {
		x0, y0 = 0, 0
	}
	bw, bh := c.W-x0, c.H-y0
	if bw > 8 {
		bw = 8
	}
	if bh > 8 {
		bh = 8
	}
	if bw == c.W && bh == c.H {
		return c, r, false
	}
	ex := make([]int, 0, bw*bh*cd.comps)
	for y := y0; y < y0+bh; y++ {
		for x := x0; x < x0+bw; x++ {
			for ch := 0; ch < cd.comps; ch++ {
				ex = append(ex, samples[(y*c.W+x)*cd.comps+ch])
			}
		}
	}
	mc := verifC11Case{W: bw, H: bh, Q: c.Q, Fill: "explicit", Explicit: ex}
	mr := verifC11Check(cd, mc)
	if mr.kind == r.kind {
		return mc, mr, true
	}
	return c, r, false
}

// ---------------------------------------------------------------------------------------------
// report

type verifC11Report struct {
	name         string
	cases, fails int
	nKind        map[string]int
	first        map[string]string
	order        []string
	qSeen        map[string]map[int]bool // codec -> qualities visited
	maxRatio     map[string]float64
	maxQ100      map[string]int
	qFail        map[string]map[int]bool // failure kind -> qualities at which it occurred
	start        time.Time
}

func verifC11NewReport(name string) *verifC11Report {
	return &verifC11Report{name: name, nKind: map[string]int{}, first: map[string]string{}, qSeen: map[string]map[int]bool{},
		maxRatio: map[string]float64{}, maxQ100: map[string]int{}, qFail: map[string]map[int]bool{}, start: time.Now()}
}

func (r *verifC11Report) run(cd *verifC11Codec, c verifC11Case) {
	res := verifC11Check(cd, c)
	r.cases++
	if r.qSeen[cd.name] == nil {
		r.qSeen[cd.name] = map[int]bool{}
	}
	r.qSeen[cd.name][c.Q] = true
	if res.maxRatio > r.maxRatio[cd.name] {
		r.maxRatio[cd.name] = res.maxRatio
	}
	if c.Q == 100 && cd.comps == 1 && res.maxErr > r.maxQ100[cd.name] {
		r.maxQ100[cd.name] = res.maxErr
	}
	if res.kind == "" {
		return
	}
	r.fails++
	kind := res.kind + "/" + cd.name
	if r.nKind[kind] == 0 {
		r.order = append(r.order, kind)
		detail := res.detail
		if mc, mr, ok := verifC11Minimise(cd, c, res); ok {
			_ = mc
			detail += " minimal=[" + mr.detail + "]"
		}
		r.first[kind] = detail
	}
	r.nKind[kind]++
	if r.qFail[kind] == nil {
		r.qFail[kind] = map[int]bool{}
	}
	r.qFail[kind][c.Q] = true
}

func (r *verifC11Report) finish(t *testing.T, domain string) {
	obs := ""
	names := make([]string, 0, len(r.qSeen))
	for name := range r.qSeen {
		names = append(names, name)
	}
	sort.Strings(names)
	for _, name := range names {
		seen := r.qSeen[name]
		obs += fmt.Sprintf(" [%s: qualities_visited=%d max_error/bound=%.3f", name, len(seen), r.maxRatio[name])
		if m, ok := r.maxQ100[name]; ok {
			obs += fmt.Sprintf(" max_grey_error_at_q100=%d", m)
		}
		obs += "]"
	}
	fmt.Printf("BOUNDED name=%s cases=%d fails=%d domain=%q\n", r.name, r.cases, r.fails, domain+"; observed:"+obs)
	for i, k := range r.order {
		if i >= 5 {
			break
		}
		qs := ""
		for q := 1; q <= 100; q++ {
			if r.qFail[k][q] {
				qs += fmt.Sprintf(",%d", q)
			}
		}
		fmt.Printf("BOUNDED-FAIL name=%s kind=%s count=%d failing_qualities=%s first: %s\n", r.name, k, r.nKind[k], strings.TrimPrefix(qs, ","), r.first[k])
	}
	if r.fails > 0 {
		t.Fail()
	}
}

// ---------------------------------------------------------------------------------------------
// the four domains (shared by both packages; codecs differ)

// verifC11RunBlockShapes: every size 1..33 x 1..33 (every partial 8x8 block shape, with 0..4 full
// blocks before it); the quality advances by 37 (mod 100) per case so every quality is visited many
// times per codec; fills cycle.
func verifC11RunBlockShapes(t *testing.T, name string, codecs []*verifC11Codec) {
	r := verifC11NewReport(name)
	for _, cd := range codecs {
		i := 0
		for w := 1; w <= 33; w++ {
			for h := 1; h <= 33; h++ {
				r.run(cd, verifC11Case{W: w, H: h, Q: 1 + (i*37)%100, Fill: verifC11Fills[(i/7+i)%len(verifC11Fills)], Seed: verifC11Seed() + int64(i)})
				i++
			}
		}
	}
	r.finish(t, fmt.Sprintf("codecs %s; all sizes 1..33 x 1..33; quality=1+(37*i mod 100) (all of 1..100 visited per codec); fills %v cycled; seed=%d", verifC11Names(codecs), verifC11Fills, verifC11Seed()))
}

// verifC11RunEveryQuality: quality 1..100 x every fill x a few sizes.
func verifC11RunEveryQuality(t *testing.T, name string, codecs []*verifC11Codec) {
	sizes := [][2]int{{1, 1}, {8, 8}, {9, 7}, {16, 16}, {23, 17}}
	if verifC11Thorough() {
		sizes = append(sizes, [2]int{64, 64}, [2]int{3, 100}, [2]int{100, 3}, [2]int{65, 33})
	}
	r := verifC11NewReport(name)
	i := 0
	for _, cd := range codecs {
		for q := 1; q <= 100; q++ {
			for _, f := range verifC11Fills {
				for _, sz := range sizes {
					r.run(cd, verifC11Case{W: sz[0], H: sz[1], Q: q, Fill: f, Seed: verifC11Seed() + int64(i)})
					i++
				}
			}
		}
	}
	r.finish(t, fmt.Sprintf("codecs %s x quality 1..100 (every value) x fills %v x sizes %v; seed=%d", verifC11Names(codecs), verifC11Fills, sizes, verifC11Seed()))
}

// verifC11RunQuality100: greyscale codecs only, quality 100, explicit "<= 10" clause.
func verifC11RunQuality100(t *testing.T, name string, codecs []*verifC11Codec) {
	nNoise := 300
	if verifC11Thorough() {
		nNoise = 6000
	}
	r := verifC11NewReport(name)
	var grey []*verifC11Codec
	for _, cd := range codecs {
		if cd.comps != 1 {
			continue
		}
		grey = append(grey, cd)
		i := 0
		for _, f := range verifC11Fills {
			for _, sz := range [][2]int{{1, 1}, {2, 3}, {7, 7}, {8, 8}, {9, 9}, {15, 17}, {16, 16}, {31, 33}, {64, 64}, {1, 64}, {64, 1}} {
				r.run(cd, verifC11Case{W: sz[0], H: sz[1], Q: 100, Fill: f, Seed: verifC11Seed() + int64(i)})
				i++
			}
		}
		for k := 0; k < nNoise; k++ {
			f := []string{"noise", "extremes", "lownoise"}[k%3]
			r.run(cd, verifC11Case{W: 8 + k%9, H: 8 + (k/9)%9, Q: 100, Fill: f, Seed: verifC11Seed() + 1000 + int64(k)})
		}
	}
	r.finish(t, fmt.Sprintf("greyscale codecs %s at quality 100: fills %v x 11 sizes (1x1..64x64, 1x64, 64x1) plus %d seeded noise/extremes/lownoise images of 8..16 x 8..16; additionally asserts max error <= 10; seed=%d", verifC11Names(grey), verifC11Fills, nNoise, verifC11Seed()))
}

// verifC11RunRandomSizes: seeded random sizes/qualities/fills plus the 16-bit field extremes.
func verifC11RunRandomSizes(t *testing.T, name string, codecs []*verifC11Codec) {
	n, maxDim := 120, 128
	if verifC11Thorough() {
		n, maxDim = 1200, 512
	}
	edge := [][2]int{{65535, 1}, {1, 65535}, {4097, 2}, {2, 4097}, {257, 255}}
	r := verifC11NewReport(name)
	for ci, cd := range codecs {
		rng := rand.New(rand.NewSource(verifC11Seed() ^ int64(0xC11+ci)))
		for k := 0; k < n; k++ {
			w, h := 1+rng.Intn(maxDim), 1+rng.Intn(maxDim)
			if k%5 == 0 {
				w = 1 + rng.Intn(9)
			}
			if k%7 == 0 {
				h = 1 + rng.Intn(9)
			}
			r.run(cd, verifC11Case{W: w, H: h, Q: 1 + rng.Intn(100), Fill: verifC11Fills[rng.Intn(len(verifC11Fills))], Seed: rng.Int63()})
		}
		for k, sz := range edge {
			r.run(cd, verifC11Case{W: sz[0], H: sz[1], Q: []int{100, 1, 50, 75, 90}[k], Fill: []string{"noise", "checker", "extremes", "ramp", "noise"}[k], Seed: verifC11Seed() + int64(k)})
		}
	}
	r.finish(t, fmt.Sprintf("codecs %s x %d seeded random cases each: w,h in 1..%d (every 5th/7th case narrow 1..9), quality uniform 1..100, fills %v; plus sizes %v; seed=%d", verifC11Names(codecs), n, maxDim, verifC11Fills, edge, verifC11Seed()))
}

func verifC11Names(codecs []*verifC11Codec) string {
	n := make([]string, len(codecs))
	for i, cd := range codecs {
		n[i] = cd.name
	}
	return "{" + strings.Join(n, ", ") + "}"
}

// T.81 Annex K Tables K.1 (luminance) and K.2 (chrominance), written literally.
var verifC11K = [2][64]int{
	{16, 11, 10, 16, 24, 40, 51, 61, 12, 12, 14, 19, 26, 58, 60, 55, 14, 13, 16, 24, 40, 57, 69, 56, 14, 17, 22, 29, 51, 87, 80, 62,
		18, 22, 37, 56, 68, 109, 103, 77, 24, 35, 55, 64, 81, 104, 113, 92, 49, 64, 78, 87, 103, 121, 120, 101, 72, 92, 95, 98, 112, 100, 103, 99},
	{17, 18, 24, 47, 99, 99, 99, 99, 18, 21, 26, 66, 99, 99, 99, 99, 24, 26, 56, 99, 99, 99, 99, 99, 47, 66, 99, 99, 99, 99, 99, 99,
		99, 99, 99, 99, 99, 99, 99, 99, 99, 99, 99, 99, 99, 99, 99, 99, 99, 99, 99, 99, 99, 99, 99, 99, 99, 99, 99, 99, 99, 99, 99, 99},
}

// verifC11RunStreamTables links the bound to the scalar check in jpeg/standard: for every quality
// the tables found in the emitted stream by the independent walk are exactly the IJG scaling of
// Annex K.1 (component 0) / K.2 (components 1,2), stored with 8-bit entries (Pq=0) -- this also
// documents what the 12-bit path does (same 8-bit table, clamp 1..255, no 12-bit rescaling).
func verifC11RunStreamTables(t *testing.T, name string, codecs []*verifC11Codec) {
	r := verifC11NewReport(name)
	for _, cd := range codecs {
		for q := 1; q <= 100; q++ {
			c := verifC11Case{W: 9, H: 9, Q: q, Fill: "noise", Seed: verifC11Seed() + int64(q)}
			kind, detail := func() (kind, detail string) {
				defer func() {
					if p := recover(); p != nil {
						kind, detail = "panic", fmt.Sprintf("%s panic=%q", c.desc(cd), fmt.Sprint(p))
					}
				}()
				stream, err := cd.encode(verifC11Pack(cd, verifC11Samples(cd, c)), c.W, c.H, cd.comps, cd.bits, q)
				if err != nil {
					return "encode-error", fmt.Sprintf("%s err=%q", c.desc(cd), err.Error())
				}
				hd, err := verifC11ParseHeader(stream)
				if err != nil {
					return "stream-malformed", fmt.Sprintf("%s err=%q", c.desc(cd), err.Error())
				}
				scale := 200 - 2*q
				if q < 50 {
					scale = 5000 / q
				}
				for ci, tq := range hd.compTq {
					tb := hd.tables[tq]
					if tb == nil {
						return "stream-tables", fmt.Sprintf("%s component=%d table=%d undefined", c.desc(cd), ci, tq)
					}
					if hd.tablePq[tq] != 0 {
						return "table-precision", fmt.Sprintf("%s table=%d Pq=%d", c.desc(cd), tq, hd.tablePq[tq])
					}
					base := verifC11K[0]
					if ci > 0 {
						base = verifC11K[1]
					}
					for i := 0; i < 64; i++ {
						want := (base[i]*scale + 50) / 100
						if want < 1 {
							want = 1
						}
						if want > 255 {
							want = 255
						}
						if tb[i] != want {
							return "table-not-IJG", fmt.Sprintf("%s component=%d table=%d natural_index=%d got=%d want=%d", c.desc(cd), ci, tq, i, tb[i], want)
						}
					}
				}
				return "", ""
			}()
			r.cases++
			if r.qSeen[cd.name] == nil {
				r.qSeen[cd.name] = map[int]bool{}
			}
			r.qSeen[cd.name][q] = true
			if kind != "" {
				r.fails++
				k := kind + "/" + cd.name
				if r.nKind[k] == 0 {
					r.order = append(r.order, k)
					r.first[k] = detail
					r.qFail[k] = map[int]bool{}
				}
				r.nKind[k]++
				r.qFail[k][q] = true
			}
		}
	}
	r.finish(t, fmt.Sprintf("codecs %s x quality 1..100: DQT tables recovered from the stream (independent marker walk, de-zigzagged with Figure A.6) == clamp((AnnexK*scale+50)/100,1,255) with Pq=0, component 0 -> K.1, components 1,2 -> K.2", verifC11Names(codecs)))
}
