package baseline

// Bounded stand-in for C11 on the Baseline (process 1, SOF0) encoder/decoder pair:
// baseline.Encode(pixels, w, h, components, quality) -> baseline.Decode(stream).
// See verif_c11_common_test.go for the statement, the bound and the domains.

import "testing"

func verifC11Codecs() []*verifC11Codec {
	enc := func(pix []byte, w, h, comps, _ int, q int) ([]byte, error) { return Encode(pix, w, h, comps, q) }
	dec := func(s []byte) ([]byte, int, int, int, int, error) {
		pix, w, h, comps, err := Decode(s)
		return pix, w, h, comps, 8, err
	}
	return []*verifC11Codec{
		{name: "baseline-grey8", comps: 1, bits: 8, sofs: []byte{0xC0}, encode: enc, decode: dec},
		{name: "baseline-rgb8", comps: 3, bits: 8, sofs: []byte{0xC0}, encode: enc, decode: dec},
	}
}

func TestVerif_C11_BlockShapes(t *testing.T) {
	verifC11RunBlockShapes(t, "TestVerif_C11_BlockShapes", verifC11Codecs())
}

func TestVerif_C11_EveryQuality(t *testing.T) {
	verifC11RunEveryQuality(t, "TestVerif_C11_EveryQuality", verifC11Codecs())
}

func TestVerif_C11_Quality100Grey(t *testing.T) {
	verifC11RunQuality100(t, "TestVerif_C11_Quality100Grey", verifC11Codecs())
}

func TestVerif_C11_RandomSizes(t *testing.T) {
	verifC11RunRandomSizes(t, "TestVerif_C11_RandomSizes", verifC11Codecs())
}

func TestVerif_C11_StreamTables(t *testing.T) {
	verifC11RunStreamTables(t, "TestVerif_C11_StreamTables", verifC11Codecs())
}
