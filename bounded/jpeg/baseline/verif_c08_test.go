// Bounded stand-ins for properties C08 (no panic on any input) and C09 (time / memory budget).
// Injected into package jpeg/baseline by `go test -overlay`; never copied into /repo. See ../README.md (or ../../README.md).

package baseline

import (
	"fmt"
	"math/rand"
	"os"
	"regexp"
	"runtime"
	"runtime/debug"
	"runtime/metrics"
	"sort"
	"strconv"
	"strings"
	"sync/atomic"
	"syscall"
	"testing"
	"time"

	codecHelpers "github.com/cocosip/go-dicom-codecs/codec"
	"github.com/cocosip/go-dicom/pkg/imaging/imagetypes"
)

// ---------------------------------------------------------------------------------------------
// Shared harness for the C08 / C09 bounded stand-ins. In-package overlay tests cannot share a helper
// package, so this block is duplicated verbatim in every verif_c08_test.go (identifiers are prefixed
// verifC08 to stay clear of the package's own tests and of other bounded stand-ins).
// ---------------------------------------------------------------------------------------------

const verifC08MaxS = int64(1) << 22 // C09 quantifier: declared samples <= 2^22

// verifC08QuickMaxS is the declared-size cap applied to the generic mutations in the quick tier (handcrafted
// "special" cases and the thorough tier always use verifC08MaxS). The JPEG 2000 packages lower it because
// every decode of a stream that declares 2^22 samples allocates and clears 16 MiB per component.
var verifC08QuickMaxS = verifC08MaxS

// verifC08SecondaryOnOK: run the secondary entry points on every case the primary one accepted (default).
// Packages whose decode is expensive switch it off in the quick tier (panicking and every 8th case remain).
var verifC08SecondaryOnOK = true

func verifC08Cap(c *verifC08Case) int64 {
	if c.kind == "special" || verifC08Tier() == "thorough" {
		return verifC08MaxS
	}
	return verifC08QuickMaxS
}

func verifC08Tier() string {
	if os.Getenv("VERIF_TIER") == "thorough" {
		return "thorough"
	}
	return "quick"
}

func verifC08Seed() int64 {
	if s, err := strconv.ParseInt(os.Getenv("VERIF_SEED"), 10, 64); err == nil {
		return s
	}
	return 20260923
}

// verifC08Base is one valid stream produced by the package's own encoder.
type verifC08Base struct {
	name string
	data []byte
	// light marks a stream that is expensive to decode. quick tier: only unchanged / every 4th truncation /
	// segment mutations, no byte and word substitution; thorough tier: the 15 value list instead of all 256.
	light bool
}

// verifC08Case is one input handed to a decoder plus the recipe that produced it.
type verifC08Case struct {
	base string // description of the base stream (geometry / parameters) or of the random prefix
	kind string // valid | trunc | byte | word | segdrop | segdup | segswap | segfirst | rand | special
	off  int
	val  int
	data []byte
}

func (c *verifC08Case) key() string {
	return fmt.Sprintf("%s|%s|%d|%d", c.base, c.kind, c.off, c.val)
}

func (c *verifC08Case) String() string {
	s := fmt.Sprintf("base=%q mut=%s off=%d val=0x%x len=%d", c.base, c.kind, c.off, c.val, len(c.data))
	if len(c.data) <= 64 {
		s += fmt.Sprintf(" hex=%x", c.data)
	}
	return s
}

var verifC08ByteVals = []int{0, 1, 2, 3, 4, 15, 16, 17, 63, 64, 127, 128, 200, 254, 255}
var verifC08WordVals = []int{0, 1, 0x7fff, 0x8000, 0xffff}

// verifC08Enumerate produces the finite input domain shared by C08 and C09:
//
//	valid    every base stream unchanged
//	trunc    every proper prefix of every base (bases > 4 KiB: first 1024 offsets, then a stride)
//	byte     single byte substitution at each of the first N bytes (quick N=300, thorough N=1500)
//	         with values verifC08ByteVals (thorough: all 256; "light" streams see verifC08Base)
//	word     big-endian 16 bit substitution with verifC08WordVals at every offset of the first W
//	         bytes (quick W=120, thorough W=N)
//	seg*     marker segment dropped / duplicated / swapped with its successor / moved to the front
//	rand     seeded random strings behind each valid start-of-image prefix
//
// fn returns false to stop the enumeration.
func verifC08Enumerate(bases, prefixes []verifC08Base, markers []byte, segs func([]byte) [][2]int,
	tier string, seed int64, fn func(c *verifC08Case) bool) {
	nByte, nWord, nRand, allVals := 300, 120, 400, false
	if tier == "thorough" {
		nByte, nWord, nRand, allVals = 1500, 1500, 6000, true
	}
	clone := func(b []byte) []byte { return append(make([]byte, 0, len(b)), b...) }
	for _, b := range bases {
		if !fn(&verifC08Case{base: b.name, kind: "valid", data: clone(b.data)}) {
			return
		}
	}
	for _, b := range bases {
		n := len(b.data)
		for off := 0; off < n; {
			// exact-capacity copy: an over-read past the truncation point must fault, not read the tail
			if !fn(&verifC08Case{base: b.name, kind: "trunc", off: off, data: clone(b.data[:off])}) {
				return
			}
			if n > 4096 && off >= 1024 {
				off += 1 + n/1024
			} else if b.light && tier != "thorough" {
				off += 4 // quick tier, light base: every 4th truncation point
			} else {
				off++
			}
		}
	}
	for _, b := range bases {
		if b.light && tier != "thorough" {
			continue
		}
		n := len(b.data)
		lim := nByte
		if lim > n {
			lim = n
		}
		for off := 0; off < lim; off++ {
			if allVals && !b.light {
				for v := 0; v < 256; v++ {
					if byte(v) == b.data[off] {
						continue
					}
					d := clone(b.data)
					d[off] = byte(v)
					if !fn(&verifC08Case{base: b.name, kind: "byte", off: off, val: v, data: d}) {
						return
					}
				}
				continue
			}
			for _, v := range verifC08ByteVals {
				if byte(v) == b.data[off] {
					continue
				}
				d := clone(b.data)
				d[off] = byte(v)
				if !fn(&verifC08Case{base: b.name, kind: "byte", off: off, val: v, data: d}) {
					return
				}
			}
		}
	}
	for _, b := range bases {
		if b.light && tier != "thorough" {
			continue
		}
		n := len(b.data)
		lim := nWord
		if lim > n-1 {
			lim = n - 1
		}
		for off := 0; off < lim; off++ {
			for _, v := range verifC08WordVals {
				if b.data[off] == byte(v>>8) && b.data[off+1] == byte(v) {
					continue
				}
				d := clone(b.data)
				d[off], d[off+1] = byte(v>>8), byte(v)
				if !fn(&verifC08Case{base: b.name, kind: "word", off: off, val: v, data: d}) {
					return
				}
			}
		}
	}
	if segs != nil {
		for _, b := range bases {
			sp := segs(b.data)
			for i, s := range sp {
				seg := b.data[s[0]:s[1]]
				// drop
				d := append(clone(b.data[:s[0]]), b.data[s[1]:]...)
				if !fn(&verifC08Case{base: b.name, kind: "segdrop", off: s[0], val: i, data: d}) {
					return
				}
				// duplicate
				d = append(clone(b.data[:s[1]]), seg...)
				d = append(d, b.data[s[1]:]...)
				if !fn(&verifC08Case{base: b.name, kind: "segdup", off: s[0], val: i, data: d}) {
					return
				}
				// move to the front (right after the 2-byte start marker)
				if i > 0 && sp[0][0] <= s[0] {
					d = append(clone(b.data[:sp[0][0]]), seg...)
					d = append(d, b.data[sp[0][0]:s[0]]...)
					d = append(d, b.data[s[1]:]...)
					if !fn(&verifC08Case{base: b.name, kind: "segfirst", off: s[0], val: i, data: d}) {
						return
					}
				}
				// swap with successor
				if i+1 < len(sp) && sp[i+1][0] == s[1] {
					nx := b.data[sp[i+1][0]:sp[i+1][1]]
					d = append(clone(b.data[:s[0]]), nx...)
					d = append(d, seg...)
					d = append(d, b.data[sp[i+1][1]:]...)
					if !fn(&verifC08Case{base: b.name, kind: "segswap", off: s[0], val: i, data: d}) {
						return
					}
				}
			}
		}
	}
	rng := rand.New(rand.NewSource(seed))
	for _, p := range prefixes {
		for i := 0; i < nRand; i++ {
			n := rng.Intn(200)
			if i%16 == 15 {
				n = rng.Intn(3000)
			}
			d := clone(p.data)
			structured := i%2 == 1
			for len(d) < len(p.data)+n {
				if structured && len(markers) > 0 && rng.Intn(6) == 0 {
					// a marker followed by a short, often self-consistent length field
					d = append(d, 0xFF, markers[rng.Intn(len(markers))])
					if rng.Intn(3) > 0 {
						l := rng.Intn(40)
						d = append(d, byte(l>>8), byte(l))
					}
					continue
				}
				switch rng.Intn(8) {
				case 0:
					d = append(d, 0)
				case 1:
					d = append(d, 0xFF)
				case 2:
					d = append(d, byte(rng.Intn(20)))
				default:
					d = append(d, byte(rng.Intn(256)))
				}
			}
			if !fn(&verifC08Case{base: p.name, kind: "rand", off: i, val: int(seed & 0x7fffffff), data: clone(d)}) {
				return
			}
		}
	}
}

// verifC08Excl marks a recipe that cannot be executed inside the test process because the decode under test
// does not come back in time or exhausts memory (the run that discovered it was stopped by guard()).
// Every entry is a recorded C09 violation; c08 is set when it is a C08 violation as well.
type verifC08Excl struct {
	why string
	c08 bool
}

// verifC08ProcCPU returns the CPU time (user+system) consumed so far by this test process.
func verifC08ProcCPU() time.Duration {
	var ru syscall.Rusage
	if err := syscall.Getrusage(syscall.RUSAGE_SELF, &ru); err != nil {
		return 0
	}
	return time.Duration(ru.Utime.Nano() + ru.Stime.Nano())
}

// verifC08Effective discounts scheduler contention on a shared machine: the time charged to a decode is the
// smaller of its wall time and of the CPU time the process consumed meanwhile (the decoders never sleep; the
// garbage collector's helper threads make the CPU figure the larger one on an idle machine).
func verifC08Effective(wall, cpu time.Duration) time.Duration {
	if cpu > 0 && cpu < wall {
		return cpu
	}
	return wall
}

// verifC08Decoder is one decoding entry point. ok reports "returned a result, not an error".
type verifC08Decoder struct {
	name string
	fn   func(data []byte) (ok bool)
}

type verifC08Site struct {
	msg, frame, first string
	count             int
}

type verifC08Runner struct {
	test, pkg       string
	cases, skipped  int
	fails           int
	sites           map[string]*verifC08Site
	order           []string
	extra           []string // other failure lines (timeouts, memory budget, excluded recipes)
	cur             atomic.Pointer[verifC08Case]
	curDec          atomic.Pointer[string]
	curStart        atomic.Int64
	curCPU          atomic.Int64
	stop            chan struct{}
	maxDur          time.Duration
	maxDurCase      string
	maxAlloc        uint64
	maxAllocCase    string
	maxAllocS       int64
	domain          string
	caseLimit       time.Duration
	memAbort        uint64
	finishedSummary atomic.Bool
}

func verifC08NewRunner(test, pkg string, caseLimit time.Duration) *verifC08Runner {
	r := &verifC08Runner{test: test, pkg: pkg, sites: map[string]*verifC08Site{}, stop: make(chan struct{}),
		caseLimit: caseLimit, memAbort: 6 << 30}
	return r
}

var verifC08Digits = regexp.MustCompile(`[0-9]+`)

// verifC08TopFrame returns "func file:line" of the first frame under /repo that is not this test.
func verifC08TopFrame(stack string) string {
	lines := strings.Split(stack, "\n")
	for i := 1; i < len(lines); i++ {
		l := strings.TrimSpace(lines[i])
		if !strings.HasPrefix(l, "/repo/") || strings.Contains(l, "zz_verif") || strings.Contains(l, "verif_c08") {
			continue
		}
		if j := strings.Index(l, " +0x"); j > 0 {
			l = l[:j]
		}
		fn := strings.TrimSpace(lines[i-1])
		if j := strings.LastIndex(fn, "("); j > 0 {
			fn = fn[:j]
		}
		if j := strings.LastIndex(fn, "/"); j >= 0 {
			fn = fn[j+1:]
		}
		return fn + " " + l
	}
	return "?"
}

// call runs one decoder on one input under recover().
func (r *verifC08Runner) call(dec *verifC08Decoder, c *verifC08Case) (ok, panicked bool) {
	r.cur.Store(c)
	r.curDec.Store(&dec.name)
	r.curCPU.Store(int64(verifC08ProcCPU()))
	r.curStart.Store(time.Now().UnixNano())
	defer func() {
		r.curStart.Store(0)
		if p := recover(); p != nil {
			panicked = true
			msg := fmt.Sprint(p)
			frame := verifC08TopFrame(string(debug.Stack()))
			k := verifC08Digits.ReplaceAllString(msg, "N") + " @ " + frame
			s := r.sites[k]
			if s == nil {
				s = &verifC08Site{msg: msg, frame: frame, first: "entry=" + dec.name + " " + c.String()}
				r.sites[k] = s
				r.order = append(r.order, k)
			}
			s.count++
		}
	}()
	ok = dec.fn(c.data)
	return
}

// guard watches the running case from a second goroutine: a decode that exceeds caseLimit (effective time, see
// verifC08Effective; 6 x caseLimit wall time in any case) or a heap that
// exceeds memAbort cannot be interrupted, so the guard reports the case and ends the test process.
func (r *verifC08Runner) guard() {
	sample := []metrics.Sample{{Name: "/memory/classes/heap/objects:bytes"}}
	tick := time.NewTicker(20 * time.Millisecond)
	defer tick.Stop()
	for {
		select {
		case <-r.stop:
			return
		case <-tick.C:
		}
		st := r.curStart.Load()
		c := r.cur.Load()
		if st == 0 || c == nil {
			continue
		}
		metrics.Read(sample)
		heap := sample[0].Value.Uint64()
		el := time.Duration(time.Now().UnixNano() - st)
		cpu := verifC08ProcCPU() - time.Duration(r.curCPU.Load())
		why := ""
		if eff := verifC08Effective(el, cpu); eff > r.caseLimit || el > 6*r.caseLimit {
			why = fmt.Sprintf("kind=timeout wall=%s process_cpu=%s limit=%s", el.Round(time.Millisecond), cpu.Round(time.Millisecond), r.caseLimit)
		} else if heap > r.memAbort {
			why = fmt.Sprintf("kind=mem-abort live_heap=%d limit=%d", heap, r.memAbort)
		}
		if why == "" || r.curStart.Load() != st {
			continue
		}
		dn := ""
		if p := r.curDec.Load(); p != nil {
			dn = *p
		}
		fmt.Printf("BOUNDED-FAIL name=%s pkg=%s %s entry=%s %s (process stopped: the decode cannot be interrupted)\n",
			r.test, r.pkg, why, dn, c.String())
		fmt.Printf("BOUNDED name=%s cases=%d fails=%d domain=\"ABORTED after %d cases by the case above; %s\"\n",
			r.test, r.cases, r.fails+1, r.cases, r.domain)
		os.Exit(1)
	}
}

// peakLive re-runs one case and samples the heap (live + not yet swept objects, GOGC=25 so at most 1.25 x live)
// every 0.5 ms; it returns the growth of the maximum sample over the level before the call.
func (r *verifC08Runner) peakLive(dec *verifC08Decoder, c *verifC08Case) uint64 {
	runtime.GC()
	old := debug.SetGCPercent(25)
	defer debug.SetGCPercent(old)
	read := func() uint64 {
		s := []metrics.Sample{{Name: "/memory/classes/heap/objects:bytes"}}
		metrics.Read(s)
		return s[0].Value.Uint64()
	}
	base := read()
	var peak atomic.Uint64
	done, fin := make(chan struct{}), make(chan struct{})
	go func() {
		defer close(fin)
		tick := time.NewTicker(500 * time.Microsecond)
		defer tick.Stop()
		for {
			select {
			case <-done:
				return
			case <-tick.C:
				if v := read(); v > peak.Load() {
					peak.Store(v)
				}
			}
		}
	}()
	r.call(dec, c)
	close(done)
	<-fin
	if p := peak.Load(); p > base {
		return p - base
	}
	return 0
}

func (r *verifC08Runner) finish(t *testing.T) {
	close(r.stop)
	r.cur.Store(nil)
	keys := append([]string(nil), r.order...)
	sort.SliceStable(keys, func(i, j int) bool { return r.sites[keys[i]].count > r.sites[keys[j]].count })
	printed := 0
	for _, k := range keys {
		s := r.sites[k]
		if printed < 5 {
			fmt.Printf("BOUNDED-FAIL name=%s pkg=%s kind=panic site=%q panic=%q hits=%d %s\n", r.test, r.pkg, s.frame, s.msg, s.count, s.first)
			printed++
		}
	}
	for _, e := range r.extra {
		if printed < 5 {
			fmt.Printf("BOUNDED-FAIL name=%s pkg=%s %s\n", r.test, r.pkg, e)
			printed++
		}
	}
	// complete list (informational; not part of the BOUNDED protocol)
	for i, k := range keys {
		s := r.sites[k]
		fmt.Printf("VERIF-C08-SITE name=%s pkg=%s n=%d/%d site=%q panic=%q hits=%d %s\n", r.test, r.pkg, i+1, len(keys), s.frame, s.msg, s.count, s.first)
	}
	for _, e := range r.extra {
		fmt.Printf("VERIF-C08-EXTRA name=%s pkg=%s %s\n", r.test, r.pkg, e)
	}
	fmt.Printf("BOUNDED name=%s cases=%d fails=%d domain=\"%s\"\n", r.test, r.cases, r.fails, r.domain)
	if r.fails > 0 {
		t.Fail()
	}
}

// verifC08RunC08 executes the C08 statement: every entry point returns (result or error) without panicking.
// decs[0] is the package level entry point and sees every case; the remaining entry points (thin DICOM codec
// wrappers around decs[0]) see the cases decs[0] accepted, the cases it panicked on, and every 8th other case.
func verifC08RunC08(t *testing.T, pkg string, decs []verifC08Decoder, declared func([]byte) (int64, bool, int64),
	excluded map[string]verifC08Excl, enumerate func(fn func(c *verifC08Case) bool), domain string) {
	r := verifC08NewRunner(t.Name(), pkg, 30*time.Second)
	r.domain = domain
	old := debug.SetMemoryLimit(3 << 30)
	defer debug.SetMemoryLimit(old)
	go r.guard()
	start := time.Now()
	var kindTime map[string]time.Duration
	var kindN map[string]int
	if os.Getenv("VERIF_C08_DEBUG") != "" {
		kindTime, kindN = map[string]time.Duration{}, map[string]int{}
		defer func() {
			for k, v := range kindTime {
				fmt.Printf("VERIF-C08-DEBUG secs=%.3f n=%d key=%s\n", v.Seconds(), kindN[k], k)
			}
		}()
	}
	enumerate(func(c *verifC08Case) bool {
		if e, ex := excluded[c.key()]; ex && os.Getenv("VERIF_RUN_EXCLUDED") == "" {
			if !e.c08 {
				r.skipped++ // a C09 violation (too slow / too much memory), not a panic: see TestVerif_C09
				return true
			}
			r.cases++
			r.fails++
			r.extra = append(r.extra, fmt.Sprintf("kind=excluded-known-abort why=%q %s", e.why, c.String()))
			return true
		}
		if _, _, g := declared(c.data); g > verifC08Cap(c) {
			r.skipped++
			return true
		}
		r.cases++
		tCase := time.Now()
		defer func() {
			if kindTime != nil {
				el := time.Since(tCase)
				kindTime[c.kind] += el
				kindTime["base:"+c.base] += el
				kindN[c.kind]++
				kindN["base:"+c.base]++
				if el > 500*time.Millisecond {
					fmt.Printf("VERIF-C08-SLOW %s %s\n", el, c.String())
				}
			}
		}()
		failed, primOK := false, false
		for i := range decs {
			if i > 0 && !((primOK && verifC08SecondaryOnOK) || failed || r.cases%8 == 0) {
				continue
			}
			ok, p := r.call(&decs[i], c)
			if i == 0 {
				primOK = ok && !p
			}
			if p {
				failed = true
			}
		}
		if failed {
			r.fails++
		}
		return true
	})
	r.domain = fmt.Sprintf("%s; executed=%d skipped_declared_gt_cap=%d; elapsed=%s", domain, r.cases, r.skipped, time.Since(start).Round(time.Millisecond))
	r.finish(t)
}

// verifC08RunC09 executes the C09 statement on a sample of the same domain: each decode returns within 10 s
// and allocates (runtime.MemStats.TotalAlloc delta, an upper bound of the peak heap growth of the call;
// an exceedance is confirmed by peakLive before it counts) at most 512 MiB + 64*S bytes where S is the sample count declared by the first frame header (0 if none).
func verifC08RunC09(t *testing.T, pkg string, decs []verifC08Decoder, declared func([]byte) (int64, bool, int64),
	excluded map[string]verifC08Excl, enumerate func(fn func(c *verifC08Case) bool), every int, domain string) {
	r := verifC08NewRunner(t.Name(), pkg, 10*time.Second)
	r.domain = domain
	old := debug.SetMemoryLimit(3 << 30)
	defer debug.SetMemoryLimit(old)
	go r.guard()
	start := time.Now()
	seq := 0
	var m0, m1 runtime.MemStats
	var notes []string
	baseS := map[string]int64{}
	enumerate(func(c *verifC08Case) bool {
		seq++
		s, _, g := declared(c.data)
		if c.kind == "valid" {
			baseS[c.base] = s
		}
		if e, ex := excluded[c.key()]; ex && os.Getenv("VERIF_RUN_EXCLUDED") == "" {
			r.cases++
			r.fails++
			r.extra = append(r.extra, fmt.Sprintf("kind=excluded-known-abort declaredS=%d why=%q %s", s, e.why, c.String()))
			return true
		}
		if g > verifC08Cap(c) {
			r.skipped++
			return true
		}
		// sample: every case whose declared size differs from its base stream's, plus every n-th other case
		if bs, has := baseS[c.base]; !(c.kind == "valid" || c.kind == "special" || (has && bs != s) || seq%every == 0) {
			return true
		}
		if s < 0 {
			s = 0
		}
		budget := uint64(512<<20) + 64*uint64(s)
		r.cases++
		bad := false
		for i := range decs {
			if i > 0 && r.cases%4 != 0 {
				continue
			}
			runtime.ReadMemStats(&m0)
			t0, c0 := time.Now(), verifC08ProcCPU()
			r.call(&decs[i], c)
			el := verifC08Effective(time.Since(t0), verifC08ProcCPU()-c0)
			runtime.ReadMemStats(&m1)
			alloc := m1.TotalAlloc - m0.TotalAlloc
			if el > r.maxDur {
				r.maxDur, r.maxDurCase = el, c.String()
			}
			if alloc > r.maxAlloc {
				r.maxAlloc, r.maxAllocCase, r.maxAllocS = alloc, c.String(), s
			}
			if el > 10*time.Second {
				bad = true
				r.extra = append(r.extra, fmt.Sprintf("kind=time elapsed=%s limit=10s declaredS=%d entry=%s %s", el, s, decs[i].name, c.String()))
			}
			if alloc > budget {
				// TotalAlloc counts every allocation of the call, freed or not; confirm with a direct measurement
				peak := r.peakLive(&decs[i], c)
				if peak > budget {
					bad = true
					r.extra = append(r.extra, fmt.Sprintf("kind=alloc totalalloc_delta=%d sampled_peak_heap=%d budget=%d declaredS=%d entry=%s %s", alloc, peak, budget, s, decs[i].name, c.String()))
				} else {
					notes = append(notes, fmt.Sprintf("VERIF-C09-NOTE name=%s proxy-only exceedance (not counted): totalalloc_delta=%d > budget=%d but sampled_peak_heap=%d declaredS=%d entry=%s %s", r.test, alloc, budget, peak, s, decs[i].name, c.String()))
				}
			}
		}
		if bad {
			r.fails++
		}
		return true
	})
	// panics are C08's business: they are recorded by call() but do not count as C09 failures
	r.sites, r.order = map[string]*verifC08Site{}, nil
	r.domain = fmt.Sprintf("%s; executed=%d skipped_declared_gt_cap=%d; max_time=%s max_totalalloc=%d (declaredS=%d); elapsed=%s",
		domain, r.cases, r.skipped, r.maxDur.Round(time.Microsecond), r.maxAlloc, r.maxAllocS, time.Since(start).Round(time.Millisecond))
	for _, n := range notes {
		fmt.Println(n)
	}
	fmt.Printf("VERIF-C09-MAX name=%s slowest=%s case={%s} largest_alloc=%d case={%s}\n", t.Name(), r.maxDur, r.maxDurCase, r.maxAlloc, r.maxAllocCase)
	r.finish(t)
}

// ---- ISO 10918 / 14495 marker level helpers (independent of the package's own parser) ----

func verifC08IsSOF(m byte) bool {
	return (m >= 0xC0 && m <= 0xCF && m != 0xC4 && m != 0xC8 && m != 0xCC) || m == 0xF7
}

// verifC08Declared parses the stream independently of the decoder under test.
// s/declared: sample count X*Y*Nf of the first frame header (SOFn or SOF55) found by walking the marker
// segments from SOI the way ISO 10918-1 B.1.1.2 prescribes; guard: the largest X*Y*Nf over every byte
// position that looks like a frame header at all (conservative input filter that keeps the machine alive).
func verifC08Declared(data []byte) (s int64, declared bool, guard int64) {
	frame := func(i int) (int64, bool) { // i = offset of the 0xFF of the marker
		if i+10 > len(data) {
			return 0, false
		}
		y := int64(data[i+5])<<8 | int64(data[i+6])
		x := int64(data[i+7])<<8 | int64(data[i+8])
		n := int64(data[i+9])
		return x * y * n, true
	}
	for i := 0; i+1 < len(data); i++ {
		if data[i] == 0xFF && verifC08IsSOF(data[i+1]) {
			if v, ok := frame(i); ok && v > guard {
				guard = v
			}
		}
	}
	pos := 2
	for pos+1 < len(data) {
		if data[pos] != 0xFF {
			return
		}
		for pos+1 < len(data) && data[pos+1] == 0xFF {
			pos++
		}
		if pos+1 >= len(data) {
			return
		}
		m := data[pos+1]
		if verifC08IsSOF(m) {
			if v, ok := frame(pos); ok {
				return v, true, guard
			}
			return
		}
		if m == 0xDA || m == 0x00 {
			return
		}
		if m == 0xD8 || m == 0xD9 || (m >= 0xD0 && m <= 0xD7) {
			pos += 2
			continue
		}
		if pos+3 >= len(data) {
			return
		}
		l := int(data[pos+2])<<8 | int(data[pos+3])
		if l < 2 {
			return
		}
		pos += 2 + l
	}
	return
}

// verifC08Segments returns the [start,end) spans of the marker segments between SOI and the entropy coded
// data (the SOS header is the last span).
func verifC08Segments(data []byte) [][2]int {
	var out [][2]int
	pos := 2
	for pos+3 < len(data) && data[pos] == 0xFF {
		m := data[pos+1]
		if m == 0xD8 || m == 0xD9 || (m >= 0xD0 && m <= 0xD7) || m == 0xFF || m == 0 {
			break
		}
		l := int(data[pos+2])<<8 | int(data[pos+3])
		if l < 2 || pos+2+l > len(data) {
			break
		}
		out = append(out, [2]int{pos, pos + 2 + l})
		pos += 2 + l
		if m == 0xDA {
			break
		}
	}
	return out
}

func verifC08Pixels(w, h, comps, bits int, seed int64) []byte {
	rng := rand.New(rand.NewSource(seed))
	bps := 1
	if bits > 8 {
		bps = 2
	}
	out := make([]byte, w*h*comps*bps)
	mask := (1 << uint(bits)) - 1
	for i := 0; i < w*h*comps; i++ {
		// smooth ramp plus noise plus a flat area so that run modes / EOB / ZRL paths are all exercised
		x, y := (i/comps)%w, (i/comps)/w
		v := (x*37 + y*11 + (i%comps)*5) & mask
		if (x/4+y/4)%3 == 0 {
			v = (rng.Intn(mask + 1)) & mask
		} else if (x/4+y/4)%3 == 1 {
			v = mask / 3
		}
		if bps == 1 {
			out[i] = byte(v)
		} else {
			out[2*i], out[2*i+1] = byte(v), byte(v>>8)
		}
	}
	return out
}

// ---- JPEG family test bodies ----

// verifC08HeaderThroughSOS returns the prefix of a valid stream up to and including its SOS header.
func verifC08HeaderThroughSOS(data []byte) []byte {
	sp := verifC08Segments(data)
	if len(sp) == 0 {
		return data[:2]
	}
	return data[:sp[len(sp)-1][1]]
}

// verifC08WithSegment inserts seg (a complete marker segment) before span index at of base.
func verifC08WithSegment(base []byte, at int, seg []byte) []byte {
	sp := verifC08Segments(base)
	pos := 2
	if at < len(sp) {
		pos = sp[at][0]
	} else if len(sp) > 0 {
		pos = sp[len(sp)-1][0]
	}
	out := append([]byte(nil), base[:pos]...)
	out = append(out, seg...)
	return append(out, base[pos:]...)
}

func verifC08Seg(marker byte, payload ...byte) []byte {
	l := len(payload) + 2
	return append([]byte{0xFF, marker, byte(l >> 8), byte(l)}, payload...)
}

// verifC08DHTSpecials: DHT segments whose BITS list is not a prefix code (more codes of a length than exist).
func verifC08DHTSpecials(bases []verifC08Base) []verifC08Case {
	var out []verifC08Case
	mk := func(tcth byte, bits [16]byte) []byte {
		p := []byte{tcth}
		n := 0
		for _, b := range bits {
			p = append(p, b)
			n += int(b)
		}
		for i := 0; i < n; i++ {
			p = append(p, byte(i))
		}
		return verifC08Seg(0xC4, p...)
	}
	var variants [][16]byte
	for _, first := range []byte{3, 4, 255} {
		var b [16]byte
		b[0] = first
		variants = append(variants, b)
	}
	var b2 [16]byte
	b2[1] = 5
	variants = append(variants, b2)
	var b3 [16]byte
	b3[7] = 255
	b3[6] = 255
	variants = append(variants, b3)
	var b4 [16]byte
	for i := range b4 {
		b4[i] = 255
	}
	variants = append(variants, b4)
	var b5 [16]byte
	b5[15] = 255
	b5[8] = 255
	variants = append(variants, b5)
	// a scan header with Ns=0 (no components) before any frame header, and in front of a valid stream's own SOS
	sos0 := verifC08Seg(0xDA, 0x00, 0x00, 0x3F, 0x00)
	out = append(out, verifC08Case{base: "SOI+SOS(Ns=0)+EOI", kind: "special", off: 100, data: append(append([]byte{0xFF, 0xD8}, sos0...), 0xFF, 0xD9)})
	out = append(out, verifC08Case{base: "SOI+SOS(Ns=0)+8 scan bytes", kind: "special", off: 101, data: append(append([]byte{0xFF, 0xD8}, sos0...), 1, 2, 3, 4, 5, 6, 7, 8)})
	for bi, b := range bases {
		if bi > 1 {
			break
		}
		sp := verifC08Segments(b.data)
		out = append(out, verifC08Case{base: b.name + " + SOS(Ns=0) before SOS", kind: "special", off: 102, data: verifC08WithSegment(b.data, len(sp)-1, sos0)})
		out = append(out, verifC08Case{base: b.name + " + SOS(Ns=0) first", kind: "special", off: 103, data: verifC08WithSegment(b.data, 0, sos0)})
	}
	for vi, v := range variants {
		for _, tcth := range []byte{0x00, 0x10, 0x01} {
			seg := mk(tcth, v)
			out = append(out, verifC08Case{base: "SOI+DHT only", kind: "special", off: vi, val: int(tcth), data: append([]byte{0xFF, 0xD8}, seg...)})
			for bi, b := range bases {
				if bi > 1 {
					break
				}
				// placed last before SOS so that it overrides the stream's own table
				sp := verifC08Segments(b.data)
				out = append(out, verifC08Case{base: b.name + " + bad DHT before SOS", kind: "special", off: vi, val: int(tcth), data: verifC08WithSegment(b.data, len(sp)-1, seg)})
			}
		}
	}
	return out
}

func verifC08JPEGDomain(tier string, nb int, extra string) string {
	n, w, r := 300, 120, 400
	vals := "15 values {0,1,2,3,4,15,16,17,63,64,127,128,200,254,255}"
	if tier == "thorough" {
		n, w, r = 1500, 1500, 6000
		vals = "all 256 values"
	}
	return fmt.Sprintf("tier=%s seed=%d; %d valid streams from the package encoder (%s); each: unchanged, every truncation, byte substitution at first %d bytes x %s, 16-bit big-endian substitution {0,1,0x7fff,0x8000,0xffff} at first %d offsets, marker-segment drop/dup/swap/move-first; %d seeded random strings per start prefix (SOI, and a valid header through SOS); handcrafted specials (non-prefix-code DHT BITS, SOS with Ns=0; for JPEG-LS: LSE preset grids and the SOF55.P x SOS.NEAR grid); inputs whose independently parsed frame header (any SOFn-looking position) declares > 2^22 samples are skipped",
		tier, verifC08Seed(), nb, extra, n, vals, w, r)
}

const verifC08Pkg = "jpeg/baseline"

var verifC08Markers = []byte{0xC0, 0xC0, 0xC4, 0xC4, 0xDA, 0xDA, 0xDB, 0xDD, 0xD9, 0xE0, 0xFE, 0xD0, 0xC1, 0xC3}

func verifC08Bases(t *testing.T) []verifC08Base {
	var out []verifC08Base
	for _, g := range [][2]int{{1, 1}, {8, 8}, {17, 5}} {
		for _, comps := range []int{1, 3} {
			for _, q := range []int{90, 25} {
				if q == 25 && !(g[0] == 17) {
					continue
				}
				name := fmt.Sprintf("baseline.Encode %dx%d comps=%d bits=8 quality=%d", g[0], g[1], comps, q)
				func() {
					defer func() {
						if p := recover(); p != nil {
							t.Logf("encoder panicked for %s: %v", name, p)
						}
					}()
					d, err := Encode(verifC08Pixels(g[0], g[1], comps, 8, 7), g[0], g[1], comps, q)
					if err != nil {
						t.Logf("encoder refused %s: %v", name, err)
						return
					}
					out = append(out, verifC08Base{name: name, data: d})
				}()
			}
		}
	}
	return out
}

func verifC08Decoders() []verifC08Decoder {
	return []verifC08Decoder{
		{name: "baseline.Decode", fn: func(d []byte) bool {
			_, _, _, _, err := Decode(d)
			return err == nil
		}},
		{name: "(*baseline.Codec).Decode", fn: func(d []byte) bool {
			info := &imagetypes.FrameInfo{BitsAllocated: 8, BitsStored: 8, HighBit: 7, SamplesPerPixel: 1, PhotometricInterpretation: "MONOCHROME2"}
			src, dst := codecHelpers.NewTestPixelData(info), codecHelpers.NewTestPixelData(info)
			_ = src.AddFrame(d)
			return NewBaselineCodec(90).Decode(src, dst, nil) == nil
		}},
	}
}

// verifC08Excluded lists recipes (verifC08Case.key) that abort the whole test process (out of memory, or a
// decode that does not return within the watchdog limit); each one is a recorded violation and is not executed
// so that the remaining domain can run. Set VERIF_RUN_EXCLUDED=1 to execute them anyway.
var verifC08Excluded = map[string]verifC08Excl{}

func verifC08Setup(t *testing.T) (decs []verifC08Decoder, enumerate func(fn func(c *verifC08Case) bool), domain string) {
	bases := verifC08Bases(t)
	if len(bases) == 0 {
		t.Fatalf("no base streams")
	}
	prefixes := []verifC08Base{{name: "prefix=SOI", data: []byte{0xFF, 0xD8}}}
	for _, i := range []int{2, 3} {
		if i < len(bases) {
			prefixes = append(prefixes, verifC08Base{name: "prefix=header-through-SOS of " + bases[i].name, data: verifC08HeaderThroughSOS(bases[i].data)})
		}
	}
	specials := verifC08DHTSpecials(bases[2:])
	tier, seed := verifC08Tier(), verifC08Seed()
	enumerate = func(fn func(c *verifC08Case) bool) {
		stopped := false
		verifC08Enumerate(bases, prefixes, verifC08Markers, verifC08Segments, tier, seed, func(c *verifC08Case) bool {
			if !fn(c) {
				stopped = true
				return false
			}
			return true
		})
		for i := range specials {
			if stopped || !fn(&specials[i]) {
				return
			}
		}
	}
	return verifC08Decoders(), enumerate, verifC08JPEGDomain(tier, len(bases), "1x1,8x8,17x5 x {1,3} components, 8 bit, quality 90 (+25 for 17x5)")
}

func TestVerif_C08_baseline(t *testing.T) {
	decs, enumerate, domain := verifC08Setup(t)
	verifC08RunC08(t, verifC08Pkg, decs, verifC08Declared, verifC08Excluded, enumerate,
		"C08 no-panic, entries baseline.Decode (all cases) and (*Codec).Decode (accepted, panicking and every 8th case); "+domain)
}

func TestVerif_C09_baseline(t *testing.T) {
	decs, enumerate, domain := verifC08Setup(t)
	every := 4
	if verifC08Tier() == "thorough" {
		every = 1
	}
	verifC08RunC09(t, verifC08Pkg, decs, verifC08Declared, verifC08Excluded, enumerate, every,
		fmt.Sprintf("C09 per decode: time <= 10 s (min of wall time and process CPU time of the call, to discount contention on a shared machine; hard stop at 60 s wall) and TotalAlloc delta (upper bound proxy for peak heap; an exceedance counts only if a 0.5 ms heap sampling re-run confirms it) <= 512MiB+64*S, S = samples declared by first frame header (0 if none); sample = every case whose declared S differs from its base stream + every %d-th case of: ", every)+domain)
}
