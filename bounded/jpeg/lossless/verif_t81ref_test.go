package lossless

// Independent reference implementation of the Huffman-coded lossless mode of
// ITU-T T.81 (Annex H prediction, F.1.2 / F.2.2 Huffman coding of differences,
// Annex B marker syntax, Annex C code generation).  Written from the standard
// for the C13 bounded stand-in; it shares no code with the library under test
// (only the Go standard library is imported).
//
// Restrictions (stated, all inside the C13 quantifier): one frame (SOF3), one
// interleaved scan with Ns = Nf, H = V = 1, point transform Pt = 0, no restart
// intervals, no DNL.  Anything else is reported as an error by the decoder.
//
// The same file (different package clause) lives in jpeg/lossless14sv1.

import (
	"errors"
	"fmt"
	"math/rand"
	"sort"
)

// ---------------------------------------------------------------------------
// Huffman table (Annex C: code generation; F.2.2.3: decoding tables)

type verifRefTable struct {
	bits [17]int // bits[l] = number of codes of length l, l = 1..16
	vals []byte  // symbols in order of increasing code length

	size [256]int // code length per symbol, 0 = symbol has no code
	code [256]uint32
	minc [17]int
	maxc [17]int
	valp [17]int
}

// derive generates the code table and rejects tables that are not valid
// T.81 tables (over-subscribed, all-ones code word used, duplicate symbol).
func (t *verifRefTable) derive() error {
	n := 0
	for l := 1; l <= 16; l++ {
		if t.bits[l] < 0 {
			return errors.New("ref: negative BITS entry")
		}
		n += t.bits[l]
	}
	if n == 0 || n > 256 || n != len(t.vals) {
		return fmt.Errorf("ref: BITS sum %d does not match %d HUFFVAL entries", n, len(t.vals))
	}
	for i := range t.size {
		t.size[i] = 0
	}
	code := 0
	k := 0
	for l := 1; l <= 16; l++ {
		t.maxc[l] = -1
		if t.bits[l] > 0 {
			t.valp[l] = k
			t.minc[l] = code
			for i := 0; i < t.bits[l]; i++ {
				if code >= 1<<uint(l)-1 {
					return fmt.Errorf("ref: Huffman table over-subscribed or uses the all-ones code of length %d", l)
				}
				s := t.vals[k]
				if t.size[s] != 0 {
					return fmt.Errorf("ref: symbol %d defined twice", s)
				}
				t.size[s] = l
				t.code[s] = uint32(code)
				code++
				k++
			}
			t.maxc[l] = code - 1
		}
		code <<= 1
	}
	return nil
}

func (t *verifRefTable) maxLen() int {
	m := 0
	for l := 1; l <= 16; l++ {
		if t.bits[l] > 0 {
			m = l
		}
	}
	return m
}

// verifRefStd17 is the "typical" luminance DC table of T.81 Table K.3
// (12 categories, code lengths 2,3,3,3,3,3,4,5,6,7,8,9) extended by one code
// per length 10..14 for the categories 12..16 of the lossless mode.
func verifRefStd17() *verifRefTable {
	t := &verifRefTable{}
	t.bits[2] = 1
	t.bits[3] = 5
	for l := 4; l <= 14; l++ {
		t.bits[l] = 1
	}
	for s := 0; s <= 16; s++ {
		t.vals = append(t.vals, byte(s))
	}
	if err := t.derive(); err != nil {
		panic(err)
	}
	return t
}

// verifRefHuffLengths returns the depths of the leaves of a Huffman tree for
// the given weights (plain two-smallest merging, O(n^2)).
func verifRefHuffLengths(w []uint64) []int {
	n := len(w)
	if n == 1 {
		return []int{1}
	}
	weight := append([]uint64(nil), w...)
	parent := make([]int, n, 2*n)
	active := make([]int, n)
	for i := range active {
		active[i] = i
		parent[i] = -1
	}
	for len(active) > 1 {
		// merge the two lightest active nodes (stable order on ties)
		sort.SliceStable(active, func(a, b int) bool { return weight[active[a]] < weight[active[b]] })
		a, b := active[0], active[1]
		weight = append(weight, weight[a]+weight[b])
		parent = append(parent, -1)
		id := len(weight) - 1
		parent[a], parent[b] = id, id
		active = append(active[2:], id)
	}
	depth := make([]int, n)
	for i := 0; i < n; i++ {
		for p := parent[i]; p >= 0; p = parent[p] {
			depth[i]++
		}
	}
	return depth
}

// verifRefOptimal builds a per-image Huffman table for the categories with a
// non-zero count: Huffman lengths with one extra zero-weight leaf (so that the
// all-ones code word stays unused); if the tree is deeper than 16 the weights
// are halved (rounding up) until it fits.
func verifRefOptimal(freq [17]int) *verifRefTable {
	var syms []int
	for s, f := range freq {
		if f > 0 {
			syms = append(syms, s)
		}
	}
	if len(syms) == 0 {
		panic("verif ref: empty alphabet")
	}
	sort.SliceStable(syms, func(a, b int) bool { return freq[syms[a]] > freq[syms[b]] })
	w := make([]uint64, len(syms)+1)
	for i, s := range syms {
		w[i] = uint64(freq[s])
	}
	w[len(syms)] = 0 // reserved leaf
	var depths []int
	for {
		depths = verifRefHuffLengths(w)
		m := 0
		for _, d := range depths {
			if d > m {
				m = d
			}
		}
		if m <= 16 {
			break
		}
		for i := range syms {
			w[i] = (w[i] + 1) / 2
		}
	}
	sort.Ints(depths)
	depths = depths[:len(depths)-1] // drop one deepest leaf: the all-ones code
	t := &verifRefTable{}
	for i, s := range syms { // most frequent symbol gets the shortest length
		t.bits[depths[i]]++
		t.vals = append(t.vals, byte(s))
	}
	if err := t.derive(); err != nil {
		panic(err)
	}
	return t
}

// verifRefRandomTable builds a random valid canonical table whose alphabet
// contains at least the used categories (plus random other categories 0..16).
// A random binary tree is grown by splitting leaves (uniformly, or always the
// deepest one to get long codes), one deepest leaf is reserved (all-ones code)
// and possibly further leaves are left unused (incomplete code).
func verifRefRandomTable(rng *rand.Rand, used [17]bool) *verifRefTable {
	var syms []int
	for s := 0; s <= 16; s++ {
		if used[s] || rng.Intn(2) == 0 {
			syms = append(syms, s)
		}
	}
	rng.Shuffle(len(syms), func(a, b int) { syms[a], syms[b] = syms[b], syms[a] })
	n := len(syms)
	want := n + 1 + rng.Intn(3) // leaves: symbols + reserved + optional unused
	skew := rng.Intn(3) > 0
	depths := []int{1, 1}
	for len(depths) < want {
		idx := -1
		if skew && rng.Intn(8) != 0 {
			for i, d := range depths {
				if d < 16 && (idx < 0 || d > depths[idx]) {
					idx = i
				}
			}
		} else {
			for tries := 0; tries < 64 && idx < 0; tries++ {
				i := rng.Intn(len(depths))
				if depths[i] < 16 {
					idx = i
				}
			}
		}
		if idx < 0 {
			break
		}
		depths[idx]++
		depths = append(depths, depths[idx])
	}
	sort.Ints(depths)
	depths = depths[:len(depths)-1] // reserved all-ones leaf
	for len(depths) > n {           // drop random leaves: incomplete code
		i := rng.Intn(len(depths))
		depths = append(depths[:i], depths[i+1:]...)
	}
	t := &verifRefTable{}
	for i, s := range syms {
		t.bits[depths[i]]++
		t.vals = append(t.vals, byte(s))
	}
	if err := t.derive(); err != nil {
		panic(err)
	}
	return t
}

// ---------------------------------------------------------------------------
// prediction (H.1.2.1) and difference categories (H.1.2.2, Table H.2)

// verifRefPredict returns Px for the sample of component c at (x,y); S holds
// the (reconstructed) samples interleaved by pixel.
func verifRefPredict(sel, P int, S []int, W, Nc, c, x, y int) int {
	at := func(x, y int) int { return S[(y*W+x)*Nc+c] }
	if y == 0 {
		if x == 0 {
			return 1 << uint(P-1) // start of scan: 2^(P-Pt-1), Pt = 0
		}
		return at(x-1, 0) // first line: one-dimensional horizontal predictor Ra
	}
	if x == 0 {
		return at(0, y-1) // start of every other line: Rb
	}
	ra, rb, rc := at(x-1, y), at(x, y-1), at(x-1, y-1)
	switch sel {
	case 1:
		return ra
	case 2:
		return rb
	case 3:
		return rc
	case 4:
		return ra + rb - rc
	case 5:
		return ra + ((rb - rc) >> 1)
	case 6:
		return rb + ((ra - rc) >> 1)
	case 7:
		return (ra + rb) >> 1
	}
	panic("verif ref: bad predictor")
}

// verifRefCategory returns SSSS for a difference in -32768..32767.
func verifRefCategory(d int) int {
	if d == -32768 {
		return 16
	}
	if d < 0 {
		d = -d
	}
	n := 0
	for d > 0 {
		n++
		d >>= 1
	}
	return n
}

// ---------------------------------------------------------------------------
// encoder

type verifRefOpts struct {
	Pred        int    // Ss, 1..7
	Td          [3]int // entropy table destination per component, 0..3
	TableKind   int    // 0 = std17, 1 = per-image optimal, 2 = random valid canonical
	Extras      bool   // APPn / COM segments before SOF3
	DHTAfterSOF bool   // DHT between SOF3 and SOS instead of before SOF3
	DHTSplit    bool   // one DHT segment per table instead of one for all
}

var verifRefKindNames = []string{"std17", "optimal", "random"}

func (o verifRefOpts) desc(nc int) string {
	return fmt.Sprintf("pred=%d td=%v tables=%s extras=%v dht_after_sof=%v dht_split=%v",
		o.Pred, o.Td[:nc], verifRefKindNames[o.TableKind], o.Extras, o.DHTAfterSOF, o.DHTSplit)
}

type verifRefBitW struct {
	out []byte
	acc uint32
	n   int
}

func (w *verifRefBitW) put(v uint32, nbits int) {
	for i := nbits - 1; i >= 0; i-- {
		w.acc = w.acc<<1 | (v>>uint(i))&1
		w.n++
		if w.n == 8 {
			w.out = append(w.out, byte(w.acc))
			if byte(w.acc) == 0xFF {
				w.out = append(w.out, 0x00) // byte stuffing, F.1.2.3
			}
			w.acc, w.n = 0, 0
		}
	}
}

func (w *verifRefBitW) flush() {
	for w.n != 0 {
		w.put(1, 1) // pad with 1-bits
	}
}

func verifRefSegment(out []byte, marker byte, payload []byte) []byte {
	l := len(payload) + 2
	out = append(out, 0xFF, marker, byte(l>>8), byte(l))
	return append(out, payload...)
}

// verifRefEncode encodes im as a single-scan SOF3 stream.
func verifRefEncode(im verifImage, o verifRefOpts, rng *rand.Rand) []byte {
	W, H, Nc, P := im.W, im.H, im.Nc, im.P
	// differences, modulo 2^16, as signed 16 bit values
	diffs := make([]int, len(im.S))
	var freq [4][17]int
	var used [4][17]bool
	for c := 0; c < Nc; c++ {
		for y := 0; y < H; y++ {
			for x := 0; x < W; x++ {
				px := verifRefPredict(o.Pred, P, im.S, W, Nc, c, x, y)
				d := (im.S[(y*W+x)*Nc+c] - px) & 0xFFFF
				if d >= 32768 {
					d -= 65536
				}
				diffs[(y*W+x)*Nc+c] = d
				k := verifRefCategory(d)
				freq[o.Td[c]][k]++
				used[o.Td[c]][k] = true
			}
		}
	}
	var tables [4]*verifRefTable
	var ids []int
	for c := 0; c < Nc; c++ {
		id := o.Td[c]
		if tables[id] != nil {
			continue
		}
		switch o.TableKind {
		case 0:
			tables[id] = verifRefStd17()
		case 1:
			tables[id] = verifRefOptimal(freq[id])
		default:
			tables[id] = verifRefRandomTable(rng, used[id])
		}
		ids = append(ids, id)
	}

	out := []byte{0xFF, 0xD8}
	if o.Extras {
		out = verifRefSegment(out, 0xE0, []byte{'J', 'F', 'I', 'F', 0, 1, 2, 0, 0, 1, 0, 1, 0, 0})
		out = verifRefSegment(out, 0xE1, []byte{0xFF, 0xD8, 0xFF, 0xDA, 0x00, 0xFF, 0xFF, 0x00, 0xFF, 0xC3, 0xFF, 0xC4, 0x12})
		out = verifRefSegment(out, 0xFE, []byte("verif reference encoder"))
		out = verifRefSegment(out, 0xEE, []byte{})
	}
	dht := func() {
		var all []byte
		for _, id := range ids {
			t := tables[id]
			seg := []byte{byte(id)} // Tc = 0 (lossless table), Th = id
			for l := 1; l <= 16; l++ {
				seg = append(seg, byte(t.bits[l]))
			}
			seg = append(seg, t.vals...)
			if o.DHTSplit {
				out = verifRefSegment(out, 0xC4, seg)
			} else {
				all = append(all, seg...)
			}
		}
		if !o.DHTSplit {
			out = verifRefSegment(out, 0xC4, all)
		}
	}
	if !o.DHTAfterSOF {
		dht()
	}
	sof := []byte{byte(P), byte(H >> 8), byte(H), byte(W >> 8), byte(W), byte(Nc)}
	for c := 0; c < Nc; c++ {
		sof = append(sof, byte(c+1), 0x11, 0)
	}
	out = verifRefSegment(out, 0xC3, sof)
	if o.DHTAfterSOF {
		dht()
	}
	sos := []byte{byte(Nc)}
	for c := 0; c < Nc; c++ {
		sos = append(sos, byte(c+1), byte(o.Td[c]<<4)) // Ta = 0
	}
	sos = append(sos, byte(o.Pred), 0, 0) // Ss = predictor, Se = 0, Ah = 0, Al = Pt = 0
	out = verifRefSegment(out, 0xDA, sos)

	bw := &verifRefBitW{}
	for i, d := range diffs { // MCU = one sample of every component
		t := tables[o.Td[i%Nc]]
		k := verifRefCategory(d)
		if t.size[k] == 0 {
			panic("verif ref: category without code")
		}
		bw.put(t.code[k], t.size[k])
		if k >= 1 && k <= 15 {
			v := d
			if d < 0 {
				v = d - 1
			}
			bw.put(uint32(v)&(1<<uint(k)-1), k)
		}
	}
	bw.flush()
	out = append(out, bw.out...)
	return append(out, 0xFF, 0xD9)
}

// ---------------------------------------------------------------------------
// decoder

type verifRefDecoded struct {
	P, W, H, Nc int
	Pred        int
	Td          [3]int
	S           []int // interleaved by pixel
	MaxCodeLen  int   // longest code length over the tables used by the scan
}

type verifRefBitR struct {
	data []byte
	pos  int
	cur  byte
	n    int
}

func (r *verifRefBitR) bit() (int, error) {
	if r.n == 0 {
		if r.pos >= len(r.data) {
			return 0, errors.New("ref: entropy-coded data exhausted")
		}
		b := r.data[r.pos]
		r.pos++
		if b == 0xFF {
			if r.pos >= len(r.data) {
				return 0, errors.New("ref: truncated after 0xFF")
			}
			if r.data[r.pos] != 0x00 {
				return 0, fmt.Errorf("ref: marker 0xFF%02X inside entropy-coded segment", r.data[r.pos])
			}
			r.pos++
		}
		r.cur, r.n = b, 8
	}
	r.n--
	return int(r.cur>>uint(r.n)) & 1, nil
}

func verifRefDecode(data []byte) (*verifRefDecoded, error) {
	pos := 0
	nextMarker := func() (byte, error) {
		if pos >= len(data) || data[pos] != 0xFF {
			return 0, fmt.Errorf("ref: expected marker at offset %d", pos)
		}
		for pos < len(data) && data[pos] == 0xFF { // fill bytes
			pos++
		}
		if pos >= len(data) {
			return 0, errors.New("ref: truncated marker")
		}
		m := data[pos]
		pos++
		if m == 0 {
			return 0, errors.New("ref: 0xFF00 outside entropy-coded segment")
		}
		return m, nil
	}
	segment := func() ([]byte, error) {
		if pos+2 > len(data) {
			return nil, errors.New("ref: truncated segment length")
		}
		l := int(data[pos])<<8 | int(data[pos+1])
		if l < 2 || pos+l > len(data) {
			return nil, errors.New("ref: bad segment length")
		}
		seg := data[pos+2 : pos+l]
		pos += l
		return seg, nil
	}

	m, err := nextMarker()
	if err != nil {
		return nil, err
	}
	if m != 0xD8 {
		return nil, errors.New("ref: no SOI")
	}
	var tables [4]*verifRefTable
	var d *verifRefDecoded
	var compID [3]byte
	for {
		m, err := nextMarker()
		if err != nil {
			return nil, err
		}
		switch {
		case m == 0xC4: // DHT
			seg, err := segment()
			if err != nil {
				return nil, err
			}
			if len(seg) == 0 {
				return nil, errors.New("ref: empty DHT")
			}
			for len(seg) > 0 {
				if len(seg) < 17 {
					return nil, errors.New("ref: truncated DHT")
				}
				tc, th := seg[0]>>4, seg[0]&15
				if tc != 0 || th > 3 {
					return nil, fmt.Errorf("ref: DHT Tc=%d Th=%d not allowed in a lossless stream", tc, th)
				}
				t := &verifRefTable{}
				n := 0
				for l := 1; l <= 16; l++ {
					t.bits[l] = int(seg[l])
					n += t.bits[l]
				}
				if len(seg) < 17+n {
					return nil, errors.New("ref: truncated DHT values")
				}
				t.vals = append([]byte(nil), seg[17:17+n]...)
				if err := t.derive(); err != nil {
					return nil, err
				}
				tables[th] = t
				seg = seg[17+n:]
			}
		case m == 0xC3: // SOF3
			if d != nil {
				return nil, errors.New("ref: second frame header")
			}
			seg, err := segment()
			if err != nil {
				return nil, err
			}
			if len(seg) < 6 || len(seg) != 6+3*int(seg[5]) {
				return nil, errors.New("ref: bad SOF3 length")
			}
			d = &verifRefDecoded{P: int(seg[0]), H: int(seg[1])<<8 | int(seg[2]), W: int(seg[3])<<8 | int(seg[4]), Nc: int(seg[5])}
			if d.P < 2 || d.P > 16 {
				return nil, fmt.Errorf("ref: precision %d", d.P)
			}
			if d.W == 0 || d.H == 0 {
				return nil, errors.New("ref: zero dimension (DNL not supported)")
			}
			if d.Nc < 1 || d.Nc > 3 {
				return nil, fmt.Errorf("ref: %d components not supported by the reference", d.Nc)
			}
			for c := 0; c < d.Nc; c++ {
				compID[c] = seg[6+3*c]
				if seg[7+3*c] != 0x11 {
					return nil, errors.New("ref: sampling factors other than 1x1 not supported")
				}
				if seg[8+3*c] != 0 {
					return nil, errors.New("ref: Tq must be 0 in a lossless frame")
				}
				for e := 0; e < c; e++ {
					if compID[e] == compID[c] {
						return nil, errors.New("ref: duplicate component identifier")
					}
				}
			}
		case m == 0xDA: // SOS
			if d == nil {
				return nil, errors.New("ref: SOS before SOF3")
			}
			seg, err := segment()
			if err != nil {
				return nil, err
			}
			if len(seg) < 1 || len(seg) != 4+2*int(seg[0]) {
				return nil, errors.New("ref: bad SOS length")
			}
			if int(seg[0]) != d.Nc {
				return nil, errors.New("ref: only single-scan (Ns = Nf) streams supported")
			}
			for c := 0; c < d.Nc; c++ {
				if seg[1+2*c] != compID[c] {
					return nil, errors.New("ref: scan component selectors do not follow the frame header order")
				}
				td, ta := int(seg[2+2*c]>>4), int(seg[2+2*c]&15)
				if td > 3 || ta != 0 {
					return nil, fmt.Errorf("ref: Td=%d Ta=%d invalid for lossless", td, ta)
				}
				if tables[td] == nil {
					return nil, fmt.Errorf("ref: Huffman table %d not defined", td)
				}
				d.Td[c] = td
				if l := tables[td].maxLen(); l > d.MaxCodeLen {
					d.MaxCodeLen = l
				}
			}
			ss, se, ahal := int(seg[1+2*d.Nc]), seg[2+2*d.Nc], seg[3+2*d.Nc]
			if ss < 1 || ss > 7 {
				return nil, fmt.Errorf("ref: predictor selection %d", ss)
			}
			if se != 0 || ahal != 0 {
				return nil, errors.New("ref: Se/Ah must be 0 and point transform is not supported")
			}
			d.Pred = ss
			// entropy-coded segment
			br := &verifRefBitR{data: data, pos: pos}
			d.S = make([]int, d.W*d.H*d.Nc)
			for y := 0; y < d.H; y++ {
				for x := 0; x < d.W; x++ {
					for c := 0; c < d.Nc; c++ {
						t := tables[d.Td[c]]
						// DECODE (F.2.2.3)
						code, l := 0, 0
						for {
							b, err := br.bit()
							if err != nil {
								return nil, err
							}
							code = code<<1 | b
							l++
							if t.maxc[l] >= 0 && code <= t.maxc[l] {
								break
							}
							if l == 16 {
								return nil, errors.New("ref: invalid Huffman code in scan")
							}
						}
						ssss := int(t.vals[t.valp[l]+code-t.minc[l]])
						if ssss > 16 {
							return nil, fmt.Errorf("ref: category %d", ssss)
						}
						diff := 0
						switch {
						case ssss == 16:
							diff = 32768
						case ssss > 0:
							v := 0
							for i := 0; i < ssss; i++ { // RECEIVE
								b, err := br.bit()
								if err != nil {
									return nil, err
								}
								v = v<<1 | b
							}
							if v < 1<<uint(ssss-1) { // EXTEND
								v += (-1 << uint(ssss)) + 1
							}
							diff = v
						}
						px := verifRefPredict(ss, d.P, d.S, d.W, d.Nc, c, x, y)
						d.S[(y*d.W+x)*d.Nc+c] = (px + diff) & 0xFFFF
					}
				}
			}
			pos = br.pos
			m, err := nextMarker()
			if err != nil {
				return nil, fmt.Errorf("ref: after scan: %v", err)
			}
			if m != 0xD9 {
				return nil, fmt.Errorf("ref: marker 0xFF%02X after the scan, expected EOI", m)
			}
			return d, nil
		case m >= 0xE0 && m <= 0xEF, m == 0xFE: // APPn, COM
			if _, err := segment(); err != nil {
				return nil, err
			}
		case m == 0xDD:
			seg, err := segment()
			if err != nil {
				return nil, err
			}
			if len(seg) != 2 || seg[0] != 0 || seg[1] != 0 {
				return nil, errors.New("ref: restart intervals not supported")
			}
		case m == 0xD9:
			return nil, errors.New("ref: EOI before scan")
		default:
			return nil, fmt.Errorf("ref: marker 0xFF%02X not supported in a single-scan lossless stream", m)
		}
	}
}
