package lossless

// Shared helpers for the bounded stand-ins of C02 / C13 (tiers, seeding, image
// generators, grouped failure reporting).  No library code is used here.
// The same file (different package clause) lives in jpeg/lossless14sv1.

import (
	"fmt"
	"math/rand"
	"os"
	"sort"
	"strconv"
	"strings"
	"testing"
)

func verifTier() string {
	if os.Getenv("VERIF_TIER") == "thorough" {
		return "thorough"
	}
	return "quick"
}

func verifSeed() int64 {
	s, err := strconv.ParseInt(os.Getenv("VERIF_SEED"), 10, 64)
	if err != nil {
		return 1
	}
	return s
}

// verifImage is a source image: samples interleaved by pixel (y, x, component).
type verifImage struct {
	P, W, H, Nc int
	S           []int
	Name        string
}

// pack stores the samples in the container layout of the property: one byte per
// sample for P<=8, two bytes little endian for P>8, unused high bits zero.
func (im verifImage) pack() []byte {
	if im.P <= 8 {
		out := make([]byte, len(im.S))
		for i, v := range im.S {
			out[i] = byte(v)
		}
		return out
	}
	out := make([]byte, 2*len(im.S))
	for i, v := range im.S {
		out[2*i] = byte(v)
		out[2*i+1] = byte(v >> 8)
	}
	return out
}

func verifUnpack(pix []byte, P int) []int {
	if P <= 8 {
		out := make([]int, len(pix))
		for i, b := range pix {
			out[i] = int(b)
		}
		return out
	}
	out := make([]int, len(pix)/2)
	for i := range out {
		out[i] = int(pix[2*i]) | int(pix[2*i+1])<<8
	}
	return out
}

func verifInts(s []int) string {
	parts := make([]string, len(s))
	for i, v := range s {
		parts[i] = strconv.Itoa(v)
	}
	return "[" + strings.Join(parts, ",") + "]"
}

func (im verifImage) String() string {
	s := fmt.Sprintf("P=%d W=%d H=%d Nc=%d content=%s", im.P, im.W, im.H, im.Nc, im.Name)
	if len(im.S) <= 16 {
		s += " samples=" + verifInts(im.S)
	}
	return s
}

// verifDiff describes the first mismatch between want and got (sample lists).
func verifDiff(want, got []int) string {
	if len(want) != len(got) {
		return fmt.Sprintf("len_want=%d len_got=%d", len(want), len(got))
	}
	for i := range want {
		if want[i] != got[i] {
			if len(want) <= 16 {
				return fmt.Sprintf("first_bad_index=%d want=%d got=%d got_all=%s", i, want[i], got[i], verifInts(got))
			}
			return fmt.Sprintf("first_bad_index=%d want=%d got=%d", i, want[i], got[i])
		}
	}
	return "equal"
}

func verifEqualInts(a, b []int) bool {
	if len(a) != len(b) {
		return false
	}
	for i := range a {
		if a[i] != b[i] {
			return false
		}
	}
	return true
}

// verifSizes are the (W,H) pairs of the structured grid.
var verifSizes = [][2]int{{1, 1}, {1, 2}, {2, 1}, {2, 2}, {3, 3}, {5, 4}, {8, 8}, {17, 9}, {64, 3}}

// verifContents are the content generators of the structured grid.
//
//	noise      uniform seeded noise in [0,2^P)
//	zero/max   constant 0 / 2^P-1
//	checker(2) alternating 0 / 2^P-1 checkerboard, both phases
//	hstripes   rows alternate 0 / max; vstripes columns alternate 0 / max
//	rampx/y/d  ramps (step 1 horizontally, big odd step vertically, diagonal)
//	half       seeded noise over {0, 2^(P-1)}   (differences of +-2^(P-1); at P=16: -32768, category 16)
//	extremes   seeded noise over {0, 2^P-1}     (double wrap at P=15, predictors 4-6)
//	neg32768   (x+y+c) parity pattern over {0, 2^(P-1)}: with predictor 1 at P=16 every difference is -32768
var verifContents = []string{"noise", "zero", "max", "checker", "checker_inv", "hstripes", "vstripes",
	"rampx", "rampy", "rampdiag", "half", "extremes", "neg32768"}

func verifMakeImage(name string, P, W, H, Nc int, rng *rand.Rand) verifImage {
	im := verifImage{P: P, W: W, H: H, Nc: Nc, Name: name, S: make([]int, W*H*Nc)}
	max := 1<<uint(P) - 1
	half := 1 << uint(P-1)
	for y := 0; y < H; y++ {
		for x := 0; x < W; x++ {
			for c := 0; c < Nc; c++ {
				v := 0
				switch name {
				case "noise":
					v = rng.Intn(max + 1)
				case "zero":
					v = 0
				case "max":
					v = max
				case "checker":
					if (x+y+c)&1 == 1 {
						v = max
					}
				case "checker_inv":
					if (x+y+c)&1 == 0 {
						v = max
					}
				case "hstripes":
					if (y+c)&1 == 1 {
						v = max
					}
				case "vstripes":
					if (x+c)&1 == 1 {
						v = max
					}
				case "rampx":
					v = (x + 3*c) & max
				case "rampy":
					v = (y*(max/3|1) + c) & max
				case "rampdiag":
					v = ((x+y)*(max/7|1) + 5*c) & max
				case "half":
					if rng.Intn(2) == 1 {
						v = half
					}
				case "extremes":
					if rng.Intn(2) == 1 {
						v = max
					}
				case "neg32768":
					if (x+y+c)&1 == 1 {
						v = half
					}
				default:
					panic("verif: unknown content " + name)
				}
				im.S[(y*W+x)*Nc+c] = v
			}
		}
	}
	return im
}

// ---------------------------------------------------------------------------
// grouped failure reporting (protocol of /verif/bounded/README.md)

type verifGroup struct {
	key     string
	n       int
	precs   map[int]bool
	minSize int
	minDesc string
}

type verifReport struct {
	name   string
	cases  int
	fails  int
	groups map[string]*verifGroup
}

func verifNewReport(name string) *verifReport {
	return &verifReport{name: name, groups: map[string]*verifGroup{}}
}

// fail records one failing case.  key identifies the group (key=value pairs),
// P is the precision (aggregated per group), size orders candidates for the
// "minimal case" shown for the group, desc describes the case.
func (r *verifReport) fail(key string, P, size int, desc string) {
	r.fails++
	g := r.groups[key]
	if g == nil {
		g = &verifGroup{key: key, precs: map[int]bool{}, minSize: size, minDesc: desc}
		r.groups[key] = g
	} else if size < g.minSize {
		g.minSize, g.minDesc = size, desc
	}
	g.n++
	g.precs[P] = true
}

func verifRanges(set map[int]bool) string {
	var v []int
	for k := range set {
		v = append(v, k)
	}
	sort.Ints(v)
	var parts []string
	for i := 0; i < len(v); {
		j := i
		for j+1 < len(v) && v[j+1] == v[j]+1 {
			j++
		}
		if j > i {
			parts = append(parts, fmt.Sprintf("%d-%d", v[i], v[j]))
		} else {
			parts = append(parts, strconv.Itoa(v[i]))
		}
		i = j + 1
	}
	return strings.Join(parts, ",")
}

func (r *verifReport) finish(t *testing.T, domain string) {
	fmt.Printf("BOUNDED name=%s cases=%d fails=%d domain=%q\n", r.name, r.cases, r.fails, domain)
	keys := make([]string, 0, len(r.groups))
	for k := range r.groups {
		keys = append(keys, k)
	}
	sort.Strings(keys)
	for i, k := range keys {
		if i == 5 {
			break
		}
		g := r.groups[k]
		extra := ""
		if i == 4 && len(keys) > 5 {
			extra = fmt.Sprintf(" omitted_groups=%d", len(keys)-5)
		}
		fmt.Printf("BOUNDED-FAIL name=%s %s precisions=%s nfail=%d min_case={%s}%s\n",
			r.name, g.key, verifRanges(g.precs), g.n, g.minDesc, extra)
	}
	if r.fails > 0 {
		t.Fail()
	}
}

func verifShortErr(err error) string {
	s := err.Error()
	s = strings.ReplaceAll(s, "\"", "'")
	if len(s) > 80 {
		s = s[:80]
	}
	return "\"" + s + "\""
}
