package lossless

// Bounded stand-ins for C02 (jpeg/lossless): Decode(Encode(image)) returns the
// input samples and the same width, height, component count and precision, for
// precision 2..16, predictor selection 1..7 and automatic selection (0),
// 1 or 3 components.

import (
	"fmt"
	"math/rand"
	"testing"
)

func verifSafeEncode(pix []byte, w, h, nc, p, pred int) (out []byte, err error, pan interface{}) {
	defer func() {
		if r := recover(); r != nil {
			pan = r
		}
	}()
	out, err = Encode(pix, w, h, nc, p, pred)
	return
}

type verifDecoded struct {
	pix        []byte
	w, h, c, p int
}

func verifSafeDecode(data []byte) (d verifDecoded, err error, pan interface{}) {
	defer func() {
		if r := recover(); r != nil {
			pan = r
		}
	}()
	d.pix, d.w, d.h, d.c, d.p, err = Decode(data)
	return
}

// verifStreamPredictor returns the Ss byte of the first SOS segment (used to
// report which predictor the automatic selection chose), -1 if not found.
func verifStreamPredictor(stream []byte) int {
	pos := 2
	for pos+4 <= len(stream) && stream[pos] == 0xFF {
		m := stream[pos+1]
		l := int(stream[pos+2])<<8 | int(stream[pos+3])
		if m == 0xDA {
			if pos+2+l <= len(stream) && l >= 6 {
				return int(stream[pos+2+l-3])
			}
			return -1
		}
		pos += 2 + l
	}
	return -1
}

// verifStreamMaxCodeLen returns the longest code length of any DHT table in
// the stream header (0 if none).
func verifStreamMaxCodeLen(stream []byte) int {
	pos := 2
	best := 0
	for pos+4 <= len(stream) && stream[pos] == 0xFF {
		m := stream[pos+1]
		l := int(stream[pos+2])<<8 | int(stream[pos+3])
		if m == 0xDA {
			break
		}
		if m == 0xC4 {
			seg := stream[pos+4 : pos+2+l]
			for len(seg) >= 17 {
				n := 0
				for i := 1; i <= 16; i++ {
					n += int(seg[i])
					if seg[i] != 0 && i > best {
						best = i
					}
				}
				if 17+n > len(seg) {
					break
				}
				seg = seg[17+n:]
			}
		}
		pos += 2 + l
	}
	return best
}

// verifStreamHasSymbol reports whether any DHT table of the stream header
// defines a code for the given symbol (category).
func verifStreamHasSymbol(stream []byte, sym byte) bool {
	pos := 2
	for pos+4 <= len(stream) && stream[pos] == 0xFF {
		m := stream[pos+1]
		l := int(stream[pos+2])<<8 | int(stream[pos+3])
		if m == 0xDA {
			break
		}
		if m == 0xC4 {
			seg := stream[pos+4 : pos+2+l]
			for len(seg) >= 17 {
				n := 0
				for i := 1; i <= 16; i++ {
					n += int(seg[i])
				}
				if 17+n > len(seg) {
					break
				}
				for _, v := range seg[17 : 17+n] {
					if v == sym {
						return true
					}
				}
				seg = seg[17+n:]
			}
		}
		pos += 2 + l
	}
	return false
}

// verifC02Check runs one round trip and records a failure in rep.
// keyPrefix starts the group key; the failure kind is appended.
func verifC02Check(rep *verifReport, im verifImage, pred int) (stream []byte) {
	rep.cases++
	src := im.pack()
	size := len(im.S)
	desc := fmt.Sprintf("pred=%d %s", pred, im.String())
	key := func(kind string, sel int) string {
		if pred == 0 {
			return fmt.Sprintf("pred=0 selected=%d kind=%s", sel, kind)
		}
		return fmt.Sprintf("pred=%d kind=%s", pred, kind)
	}
	stream, err, pan := verifSafeEncode(src, im.W, im.H, im.Nc, im.P, pred)
	if pan != nil {
		rep.fail(key("encode_panic", -1), im.P, size, fmt.Sprintf("%s panic=%q", desc, fmt.Sprint(pan)))
		return nil
	}
	if err != nil {
		rep.fail(key("encode_error", -1), im.P, size, fmt.Sprintf("%s err=%s", desc, verifShortErr(err)))
		return nil
	}
	sel := verifStreamPredictor(stream)
	d, err, pan := verifSafeDecode(stream)
	if pan != nil {
		rep.fail(key("decode_panic", sel), im.P, size, fmt.Sprintf("%s panic=%q", desc, fmt.Sprint(pan)))
		return stream
	}
	if err != nil {
		rep.fail(key("decode_error", sel), im.P, size, fmt.Sprintf("%s err=%s", desc, verifShortErr(err)))
		return stream
	}
	if d.w != im.W || d.h != im.H || d.c != im.Nc || d.p != im.P {
		rep.fail(key("header_mismatch", sel), im.P, size, fmt.Sprintf("%s got_w=%d got_h=%d got_nc=%d got_p=%d", desc, d.w, d.h, d.c, d.p))
		return stream
	}
	if len(d.pix) != len(src) {
		rep.fail(key("length_mismatch", sel), im.P, size, fmt.Sprintf("%s want_bytes=%d got_bytes=%d", desc, len(src), len(d.pix)))
		return stream
	}
	got := verifUnpack(d.pix, im.P)
	if !verifEqualInts(im.S, got) {
		rep.fail(key("sample_mismatch", sel), im.P, size, fmt.Sprintf("%s %s", desc, verifDiff(im.S, got)))
	}
	return stream
}

func verifC02Grid(t *testing.T, pred int) {
	rep := verifNewReport(fmt.Sprintf("TestVerif_C02_RoundTrip_Pred%d", pred))
	rng := rand.New(rand.NewSource(verifSeed()*7919 + int64(pred)))
	reps := 1
	if verifTier() == "thorough" {
		reps = 8
	}
	cat16 := 0
	for P := 2; P <= 16; P++ {
		for _, nc := range []int{1, 3} {
			for _, sz := range verifSizes {
				for _, content := range verifContents {
					n := 1
					if content == "noise" || content == "half" || content == "extremes" {
						n = reps
					}
					for i := 0; i < n; i++ {
						st := verifC02Check(rep, verifMakeImage(content, P, sz[0], sz[1], nc, rng), pred)
						if st != nil && verifStreamHasSymbol(st, 16) {
							cat16++
						}
					}
				}
			}
		}
	}
	rep.finish(t, fmt.Sprintf("Decode(Encode(img,pred=%d)) == img incl. w,h,components,precision; P 2..16 x components {1,3} x WxH {1x1,1x2,2x1,2x2,3x3,5x4,8x8,17x9,64x3} x contents %v (random contents x%d, seed %d); pred 0 = automatic selection; cover: %d streams code category 16 (difference -32768)",
		pred, verifContents, reps, verifSeed(), cat16))
}

func TestVerif_C02_RoundTrip_Pred0(t *testing.T) { verifC02Grid(t, 0) }
func TestVerif_C02_RoundTrip_Pred1(t *testing.T) { verifC02Grid(t, 1) }
func TestVerif_C02_RoundTrip_Pred2(t *testing.T) { verifC02Grid(t, 2) }
func TestVerif_C02_RoundTrip_Pred3(t *testing.T) { verifC02Grid(t, 3) }
func TestVerif_C02_RoundTrip_Pred4(t *testing.T) { verifC02Grid(t, 4) }
func TestVerif_C02_RoundTrip_Pred5(t *testing.T) { verifC02Grid(t, 5) }
func TestVerif_C02_RoundTrip_Pred6(t *testing.T) { verifC02Grid(t, 6) }
func TestVerif_C02_RoundTrip_Pred7(t *testing.T) { verifC02Grid(t, 7) }

// verifEnumerate calls f with every image of the given shape (all sample
// values in [0,2^P)).
func verifEnumerate(P, W, H, Nc int, f func(verifImage)) {
	n := W * H * Nc
	im := verifImage{P: P, W: W, H: H, Nc: Nc, Name: "enumerated", S: make([]int, n)}
	m := 1 << uint(P)
	for {
		f(im)
		i := 0
		for i < n {
			im.S[i]++
			if im.S[i] < m {
				break
			}
			im.S[i] = 0
			i++
		}
		if i == n {
			return
		}
	}
}

// Exhaustive over tiny images.
func TestVerif_C02_ExhaustiveTiny(t *testing.T) {
	rep := verifNewReport("TestVerif_C02_ExhaustiveTiny")
	type shape struct{ P, W, H, Nc int }
	var shapes []shape
	var domain string
	if verifTier() == "thorough" {
		for w := 1; w <= 3; w++ {
			for h := 1; h <= 3; h++ {
				shapes = append(shapes, shape{2, w, h, 1})
				if w*h <= 6 {
					shapes = append(shapes, shape{3, w, h, 1})
				}
				if w*h <= 2 {
					shapes = append(shapes, shape{2, w, h, 3}, shape{3, w, h, 3})
				}
			}
		}
		shapes = append(shapes, shape{2, 3, 1, 3}, shape{2, 1, 3, 3})
		domain = "ALL images: P=2 1 component WxH up to 3x3; P=3 1 component W*H<=6; 3 components P in {2,3} W*H<=2 and P=2 3x1,1x3; x predictor 0..7 (3x3 at P=3 and 2x2x3 not enumerated: 8^9 / 4^12 images)"
	} else {
		for _, wh := range [][2]int{{1, 1}, {1, 2}, {2, 1}, {2, 2}} {
			shapes = append(shapes, shape{2, wh[0], wh[1], 1})
		}
		for _, wh := range [][2]int{{1, 1}, {1, 2}, {2, 1}} {
			shapes = append(shapes, shape{2, wh[0], wh[1], 3})
		}
		domain = "ALL images at P=2: 1 component 1x1,1x2,2x1,2x2; 3 components 1x1,1x2,2x1 (2x2x3 = 4^12 images not enumerated); x predictor 0..7"
	}
	for _, s := range shapes {
		for pred := 0; pred <= 7; pred++ {
			verifEnumerate(s.P, s.W, s.H, s.Nc, func(im verifImage) {
				cp := im
				if rep.fails < 50 { // keep a private copy only while failures are still being collected
					cp.S = append([]int(nil), im.S...)
				}
				verifC02Check(rep, cp, pred)
			})
		}
	}
	rep.finish(t, domain)
}

// verifLongCodeImage builds a one-line P=16 image whose predictor-1 differences
// have Fibonacci-distributed categories 0..16 (so that an optimal Huffman code
// needs more than 16 bits before length limiting), in seeded random order.
func verifLongCodeImage(nc int, rng *rand.Rand) verifImage {
	var diffs []int
	a, b := 1, 1
	for cat := 16; cat >= 0; cat-- { // category 16 once, 15 once, 14 twice, 13 three times, ...
		for i := 0; i < a; i++ {
			diffs = append(diffs, verifLongCodeDiff(cat))
		}
		a, b = b, a+b
	}
	rng.Shuffle(len(diffs), func(i, j int) { diffs[i], diffs[j] = diffs[j], diffs[i] })
	W := len(diffs) + 1
	im := verifImage{P: 16, W: W, H: 1, Nc: nc, Name: "fibonacci_categories", S: make([]int, W*nc)}
	for c := 0; c < nc; c++ {
		prev := 32768 // first sample equals the initial prediction: difference 0
		im.S[c] = prev
		for x := 1; x < W; x++ {
			prev = (prev + diffs[(x-1+c*17)%len(diffs)]) & 0xFFFF
			im.S[x*nc+c] = prev
		}
	}
	return im
}

func verifLongCodeDiff(cat int) int {
	switch {
	case cat == 0:
		return 0
	case cat == 16:
		return -32768
	case cat%2 == 0:
		return -(1<<uint(cat) - 1) // most negative value of the category
	default:
		return 1 << uint(cat-1) // smallest positive value of the category
	}
}

// Alphabets that force 16-bit Huffman codes.
func TestVerif_C02_LongHuffmanCodes(t *testing.T) {
	rep := verifNewReport("TestVerif_C02_LongHuffmanCodes")
	rng := rand.New(rand.NewSource(verifSeed()*31 + 5))
	reps := 2
	if verifTier() == "thorough" {
		reps = 20
	}
	maxLen := 0
	for i := 0; i < reps; i++ {
		for _, nc := range []int{1, 3} {
			im := verifLongCodeImage(nc, rng)
			for pred := 0; pred <= 7; pred++ {
				verifC02Check(rep, im, pred)
				if pred == 1 {
					if s, err, pan := verifSafeEncode(im.pack(), im.W, im.H, im.Nc, im.P, pred); err == nil && pan == nil {
						if l := verifStreamMaxCodeLen(s); l > maxLen {
							maxLen = l
						}
					}
				}
			}
		}
	}
	rep.finish(t, fmt.Sprintf("round trip of one-line P=16 images (W=%d) whose predictor-1 differences have Fibonacci-distributed categories 0..16, %d shuffles x components {1,3} x predictor 0..7; cover: longest code in the encoder's DHT for predictor 1 = %d bits",
		len(verifLongCodeImage(1, rng).S), reps, maxLen))
}

// Minimal witnesses for the suspected single wrap by 2^P in the decoder.
func TestVerif_C02_Witness_DoubleWrap(t *testing.T) {
	rep := verifNewReport("TestVerif_C02_Witness_DoubleWrap")
	for _, P := range []int{14, 15, 16} {
		m := 1<<uint(P) - 1
		for pred := 1; pred <= 7; pred++ {
			for _, s := range [][]int{{m, 0, 0, m}, {0, m, m, 0}} {
				verifC02Check(rep, verifImage{P: P, W: 2, H: 2, Nc: 1, S: s, Name: "witness"}, pred)
			}
		}
	}
	// automatic selection: an image for which SelectBestPredictor picks 4
	verifC02Check(rep, verifImage{P: 15, W: 2, H: 2, Nc: 1, S: []int{32015, 32767, 32767, 0}, Name: "witness_auto"}, 0)
	rep.finish(t, "round trip of the 2x2 one-component images [max,0;0,max] and [0,max;max,0], P in {14,15,16}, predictor 1..7, plus [32015,32767;32767,0] at P=15 with automatic selection (prediction Ra+Rb-Rc etc. leaves [-2^P,2^(P+1)) so that (Px+diff) needs reduction modulo 2^16, not a single +-2^P)")
}
