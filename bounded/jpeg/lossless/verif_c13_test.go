package lossless

// Bounded stand-ins for C13 (jpeg/lossless): interoperability of the library's
// lossless JPEG encoder/decoder with the independent T.81 Annex H reference
// codec of verif_t81ref_test.go, in both directions.
//
// Tests are split by (direction, predictor); inside a test the failing cases
// are grouped by failure kind (and table-destination class) and the
// precisions of a group are aggregated.

import (
	"fmt"
	"math/rand"
	"testing"
)

// ---------------------------------------------------------------------------
// direction A: library encoder -> reference decoder

func verifC13LibEncRefDecCheck(rep *verifReport, im verifImage, pred int) {
	rep.cases++
	size := len(im.S)
	desc := fmt.Sprintf("dir=libenc_refdec pred=%d %s", pred, im.String())
	stream, err, pan := verifSafeEncode(im.pack(), im.W, im.H, im.Nc, im.P, pred)
	if pan != nil || err != nil {
		rep.fail(fmt.Sprintf("dir=libenc_refdec pred=%d kind=encode_failed", pred), im.P, size, fmt.Sprintf("%s err=%v panic=%v", desc, err, pan))
		return
	}
	sel := verifStreamPredictor(stream)
	key := func(kind string) string {
		if pred == 0 {
			return fmt.Sprintf("dir=libenc_refdec pred=0 selected=%d kind=%s", sel, kind)
		}
		return fmt.Sprintf("dir=libenc_refdec pred=%d kind=%s", pred, kind)
	}
	d, err := verifRefDecode(stream)
	if err != nil {
		rep.fail(key("ref_rejects_stream"), im.P, size, fmt.Sprintf("%s err=%s", desc, verifShortErr(err)))
		return
	}
	if d.W != im.W || d.H != im.H || d.Nc != im.Nc || d.P != im.P || (pred != 0 && d.Pred != pred) {
		rep.fail(key("header_mismatch"), im.P, size, fmt.Sprintf("%s got_w=%d got_h=%d got_nc=%d got_p=%d got_ss=%d", desc, d.W, d.H, d.Nc, d.P, d.Pred))
		return
	}
	if !verifEqualInts(im.S, d.S) {
		rep.fail(key("sample_mismatch"), im.P, size, fmt.Sprintf("%s ref_decoder: %s", desc, verifDiff(im.S, d.S)))
	}
}

func verifC13LibEncRefDec(t *testing.T, pred int) {
	rep := verifNewReport(fmt.Sprintf("TestVerif_C13_LibEncRefDec_Pred%d", pred))
	rng := rand.New(rand.NewSource(verifSeed()*104729 + int64(pred)))
	reps := 2
	if verifTier() == "thorough" {
		reps = 10
	}
	for P := 2; P <= 16; P++ {
		for _, nc := range []int{1, 3} {
			for _, sz := range verifSizes {
				for _, content := range verifContents {
					n := 1
					if content == "noise" || content == "half" || content == "extremes" {
						n = reps
					}
					for i := 0; i < n; i++ {
						verifC13LibEncRefDecCheck(rep, verifMakeImage(content, P, sz[0], sz[1], nc, rng), pred)
					}
				}
			}
		}
	}
	rep.finish(t, fmt.Sprintf("reference T.81 decoder applied to Encode(img,pred=%d) returns img; P 2..16 x components {1,3} x WxH {1x1,1x2,2x1,2x2,3x3,5x4,8x8,17x9,64x3} x contents %v (random contents x%d, seed %d)",
		pred, verifContents, reps, verifSeed()))
}

func TestVerif_C13_LibEncRefDec_Pred0(t *testing.T) { verifC13LibEncRefDec(t, 0) }
func TestVerif_C13_LibEncRefDec_Pred1(t *testing.T) { verifC13LibEncRefDec(t, 1) }
func TestVerif_C13_LibEncRefDec_Pred2(t *testing.T) { verifC13LibEncRefDec(t, 2) }
func TestVerif_C13_LibEncRefDec_Pred3(t *testing.T) { verifC13LibEncRefDec(t, 3) }
func TestVerif_C13_LibEncRefDec_Pred4(t *testing.T) { verifC13LibEncRefDec(t, 4) }
func TestVerif_C13_LibEncRefDec_Pred5(t *testing.T) { verifC13LibEncRefDec(t, 5) }
func TestVerif_C13_LibEncRefDec_Pred6(t *testing.T) { verifC13LibEncRefDec(t, 6) }
func TestVerif_C13_LibEncRefDec_Pred7(t *testing.T) { verifC13LibEncRefDec(t, 7) }

// ---------------------------------------------------------------------------
// direction B: reference encoder -> library decoder

// verifC13RefEncLibDecCheck encodes im with the reference encoder, checks the
// reference codec against itself (a failure there is a defect of the TEST and
// aborts the test), then decodes with the library.  Returns "" or the failure
// kind.
func verifC13RefEncLibDecCheck(t *testing.T, rep *verifReport, im verifImage, o verifRefOpts, rng *rand.Rand) string {
	rep.cases++
	size := len(im.S)
	stream := verifRefEncode(im, o, rng)
	self, err := verifRefDecode(stream)
	if err != nil || !verifEqualInts(self.S, im.S) || self.P != im.P || self.W != im.W || self.H != im.H || self.Nc != im.Nc {
		t.Fatalf("TEST DEFECT: reference codec does not round-trip its own stream: %v %s %s", err, o.desc(im.Nc), im.String())
	}
	tdClass := "td_le1"
	for c := 0; c < im.Nc; c++ {
		if o.Td[c] >= 2 {
			tdClass = "td_ge2"
		}
	}
	desc := fmt.Sprintf("dir=refenc_libdec %s %s", o.desc(im.Nc), im.String())
	key := func(kind string) string {
		return fmt.Sprintf("dir=refenc_libdec pred=%d tdclass=%s kind=%s", o.Pred, tdClass, kind)
	}
	d, err, pan := verifSafeDecode(stream)
	switch {
	case pan != nil:
		rep.fail(key("decode_panic"), im.P, size, fmt.Sprintf("%s panic=%q", desc, fmt.Sprint(pan)))
		return "decode_panic"
	case err != nil:
		rep.fail(key("decode_error"), im.P, size, fmt.Sprintf("%s err=%s", desc, verifShortErr(err)))
		return "decode_error"
	case d.w != im.W || d.h != im.H || d.c != im.Nc || d.p != im.P:
		rep.fail(key("header_mismatch"), im.P, size, fmt.Sprintf("%s got_w=%d got_h=%d got_nc=%d got_p=%d", desc, d.w, d.h, d.c, d.p))
		return "header_mismatch"
	}
	got := verifUnpack(d.pix, im.P)
	if !verifEqualInts(im.S, got) {
		rep.fail(key("sample_mismatch"), im.P, size, fmt.Sprintf("%s lib_decoder: %s", desc, verifDiff(im.S, got)))
		return "sample_mismatch"
	}
	return ""
}

// verifTdAssignments lists all table-destination assignments for nc components.
func verifTdAssignments(nc int) [][3]int {
	var out [][3]int
	if nc == 1 {
		for a := 0; a < 4; a++ {
			out = append(out, [3]int{a, 0, 0})
		}
		return out
	}
	for a := 0; a < 4; a++ {
		for b := 0; b < 4; b++ {
			for c := 0; c < 4; c++ {
				out = append(out, [3]int{a, b, c})
			}
		}
	}
	return out
}

func verifC13RefEncLibDec(t *testing.T, pred int) {
	rep := verifNewReport(fmt.Sprintf("TestVerif_C13_RefEncLibDec_Pred%d", pred))
	rng := rand.New(rand.NewSource(verifSeed()*1299709 + int64(pred)))
	reps := 1
	if verifTier() == "thorough" {
		reps = 6
	}
	contents := []string{"noise", "noise", "noise", "half", "extremes", "checker", "rampdiag", "neg32768", "zero"}
	for P := 2; P <= 16; P++ {
		for _, nc := range []int{1, 3} {
			for _, td := range verifTdAssignments(nc) {
				for kind := 0; kind < 3; kind++ {
					for flags := 0; flags < 4; flags++ {
						for i := 0; i < reps; i++ {
							sz := verifSizes[rng.Intn(len(verifSizes))]
							im := verifMakeImage(contents[rng.Intn(len(contents))], P, sz[0], sz[1], nc, rng)
							o := verifRefOpts{Pred: pred, Td: td, TableKind: kind, Extras: flags&1 != 0, DHTAfterSOF: flags&2 != 0, DHTSplit: rng.Intn(2) == 0}
							verifC13RefEncLibDecCheck(t, rep, im, o, rng)
						}
					}
				}
			}
		}
	}
	rep.finish(t, fmt.Sprintf("Decode(reference T.81 encoder(img, Ss=%d)) returns img; P 2..16 x components {1,3} x ALL table destinations Td in {0..3}^components x tables {K.3 luminance DC extended to 17 categories, per-image optimal, random valid canonical} x {with,without} APP0/APP1/COM/APP14 before SOF3 x DHT {before,after} SOF3 (one or several DHT segments, seeded) x %d seeded image(s) per combination (WxH from the grid sizes, contents %v, seed %d)",
		pred, reps, contents, verifSeed()))
}

func TestVerif_C13_RefEncLibDec_Pred1(t *testing.T) { verifC13RefEncLibDec(t, 1) }
func TestVerif_C13_RefEncLibDec_Pred2(t *testing.T) { verifC13RefEncLibDec(t, 2) }
func TestVerif_C13_RefEncLibDec_Pred3(t *testing.T) { verifC13RefEncLibDec(t, 3) }
func TestVerif_C13_RefEncLibDec_Pred4(t *testing.T) { verifC13RefEncLibDec(t, 4) }
func TestVerif_C13_RefEncLibDec_Pred5(t *testing.T) { verifC13RefEncLibDec(t, 5) }
func TestVerif_C13_RefEncLibDec_Pred6(t *testing.T) { verifC13RefEncLibDec(t, 6) }
func TestVerif_C13_RefEncLibDec_Pred7(t *testing.T) { verifC13RefEncLibDec(t, 7) }

// ---------------------------------------------------------------------------
// minimal witnesses for the defects suspected in DESIGN.md

// verifC13EdgeWitness checks both directions on one tiny one-component P=8
// image with the K.3-extended table and table destination 0 and reports one
// failure line per predictor.
func verifC13EdgeWitness(t *testing.T, name string, w, h int, samples []int, domain string) {
	rep := verifNewReport(name)
	for pred := 1; pred <= 7; pred++ {
		rep.cases++
		im := verifImage{P: 8, W: w, H: h, Nc: 1, S: samples, Name: "witness"}
		refStream := verifRefEncode(im, verifRefOpts{Pred: pred}, nil)
		if self, err := verifRefDecode(refStream); err != nil || !verifEqualInts(self.S, im.S) {
			t.Fatalf("TEST DEFECT: reference codec does not round-trip its own stream: %v", err)
		}
		var a, b string
		d, err, pan := verifSafeDecode(refStream)
		switch {
		case pan != nil:
			a = fmt.Sprintf("panic:%q", fmt.Sprint(pan))
		case err != nil:
			a = "error:" + verifShortErr(err)
		default:
			if got := verifUnpack(d.pix, 8); !verifEqualInts(got, samples) {
				a = verifInts(got)
			}
		}
		libStream, err, pan := verifSafeEncode(im.pack(), w, h, 1, 8, pred)
		if err != nil || pan != nil {
			b = fmt.Sprintf("encode_failed:%v/%v", err, pan)
		} else if rd, err := verifRefDecode(libStream); err != nil {
			b = "ref_error:" + verifShortErr(err)
		} else if !verifEqualInts(rd.S, samples) {
			b = verifInts(rd.S)
		}
		if a != "" || b != "" {
			if a == "" {
				a = "ok"
			}
			if b == "" {
				b = "ok"
			}
			rep.fail(fmt.Sprintf("pred=%d", pred), 8, pred,
				fmt.Sprintf("P=8 W=%d H=%d Nc=1 src=%s libdec_of_refenc=%s refdec_of_libenc=%s", w, h, verifInts(samples), a, b))
		}
	}
	rep.finish(t, domain)
}

// First-line rule of H.1.2.1: every sample of the first line after the first
// one is predicted by Ra, whatever predictor is selected.
func TestVerif_C13_Witness_FirstRowRule(t *testing.T) {
	verifC13EdgeWitness(t, "TestVerif_C13_Witness_FirstRowRule", 2, 1, []int{0, 0},
		"P=8, one component, 2x1 image [0,0], predictor 1..7, both directions (reference encoder -> Decode; Encode -> reference decoder); T.81 H.1.2.1: first line uses Ra")
}

// First-column rule of H.1.2.1: the first sample of every line but the first
// is predicted by Rb, whatever predictor is selected.
func TestVerif_C13_Witness_FirstColumnRule(t *testing.T) {
	verifC13EdgeWitness(t, "TestVerif_C13_Witness_FirstColumnRule", 1, 2, []int{0, 0},
		"P=8, one component, 1x2 image [0;0], predictor 1..7, both directions; T.81 H.1.2.1: start of each line after the first uses Rb")
}

// Interior samples use the selected predictor in both implementations
// (control: expected to pass; a 2x2 image whose first row/column are the
// neutral value 2^(P-1), for which the library's edge handling coincides).
func TestVerif_C13_Witness_InteriorControl(t *testing.T) {
	verifC13EdgeWitness(t, "TestVerif_C13_Witness_InteriorControl", 2, 2, []int{128, 128, 128, 77},
		"control: P=8, one component, 2x2 image [128,128;128,77] (first row and column equal 2^(P-1)), predictor 1..7, both directions")
}

// Table destinations 0..3 (B.2.3: Td in 0..3 for the lossless process).
func TestVerif_C13_Witness_TableDestinations(t *testing.T) {
	rep := verifNewReport("TestVerif_C13_Witness_TableDestinations")
	for td := 0; td < 4; td++ {
		for _, after := range []bool{false, true} {
			im := verifImage{P: 8, W: 1, H: 1, Nc: 1, S: []int{128}, Name: "witness"}
			o := verifRefOpts{Pred: 1, Td: [3]int{td, 0, 0}, DHTAfterSOF: after}
			rep.cases++
			stream := verifRefEncode(im, o, nil)
			if self, err := verifRefDecode(stream); err != nil || !verifEqualInts(self.S, im.S) {
				t.Fatalf("TEST DEFECT: reference codec does not round-trip its own stream: %v", err)
			}
			d, err, pan := verifSafeDecode(stream)
			res := ""
			switch {
			case pan != nil:
				res = fmt.Sprintf("panic:%q", fmt.Sprint(pan))
			case err != nil:
				res = "error:" + verifShortErr(err)
			default:
				if got := verifUnpack(d.pix, 8); !verifEqualInts(got, im.S) {
					res = "got:" + verifInts(got)
				}
			}
			if res != "" {
				rep.fail(fmt.Sprintf("td=%d", td), 8, 0, fmt.Sprintf("P=8 W=1 H=1 Nc=1 src=[128] pred=1 td=%d dht_after_sof=%v libdec_of_refenc=%s stream=% x", td, after, res, stream))
			}
		}
	}
	rep.finish(t, "P=8 1x1 one-component image [128], predictor 1, K.3-extended table sent as DHT Th=Td for Td in 0..3, DHT before/after SOF3; Decode(reference stream) must return [128]")
}

// Single wrap in the decoder (P=15, predictors 4..6): interoperability view of
// the C02 witness; the reference encoder output is decoded by the library and
// the library encoder output by the reference decoder.
func TestVerif_C13_Witness_DoubleWrap(t *testing.T) {
	rep := verifNewReport("TestVerif_C13_Witness_DoubleWrap")
	for _, P := range []int{14, 15, 16} {
		m := 1<<uint(P) - 1
		def := 1 << uint(P-1)
		for pred := 1; pred <= 7; pred++ {
			// S(0,0) = 2^(P-1) and the other first-row / first-column samples
			// are predicted from it, so the library's edge handling coincides
			// with T.81 for every predictor; only sample (1,1) discriminates.
			for _, s := range [][]int{{def, 0, 0, m}, {def, m, m, 0}} {
				im := verifImage{P: P, W: 2, H: 2, Nc: 1, S: s, Name: "witness"}
				verifC13LibEncRefDecCheck(rep, im, pred)
				verifC13RefEncLibDecCheck(t, rep, im, verifRefOpts{Pred: pred}, nil)
			}
		}
	}
	rep.finish(t, "2x2 one-component images [2^(P-1),0;0,max] and [2^(P-1),max;max,0] (edge predictions identical in library and T.81, sample (1,1) needs reduction modulo 2^16), P in {14,15,16}, predictor 1..7, both directions, table destination 0, K.3-extended table")
}
