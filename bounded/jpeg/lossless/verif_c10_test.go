package lossless

import (
	"fmt"
	"math/rand"
	"testing"
)

// C10 (last clause): for the lossless transfer syntaxes the decoded bytes equal the source frame -
// also when the difference statistics are so skewed that the optimal Huffman code needs the
// length-limiting step (unrestricted code lengths above 16 bits).
func TestVerif_C10_LosslessLongHuffmanCodes(t *testing.T) {
	rep := verifNewReport("TestVerif_C10_LosslessLongHuffmanCodes")
	rng := rand.New(rand.NewSource(verifSeed()*37 + 11))
	reps := 2
	if verifTier() == "thorough" {
		reps = 12
	}
	maxLen := 0
	for i := 0; i < reps; i++ {
		for _, nc := range []int{1, 3} {
			im := verifLongCodeImage(nc, rng)
			for _, pred := range []int{0, 1} {
				verifC02Check(rep, im, pred)
			}
			if s, err, pan := verifSafeEncode(im.pack(), im.W, im.H, im.Nc, im.P, 1); err == nil && pan == nil {
				if l := verifStreamMaxCodeLen(s); l > maxLen {
					maxLen = l
				}
			}
		}
	}
	rep.finish(t, fmt.Sprintf("lossless round trip (decoded == source) of one-line P=16 images whose predictor-1 differences have Fibonacci-distributed categories 0..16 (unrestricted Huffman depth > 16), %d shuffles x components {1,3} x predictor {auto,1}; cover: longest code in the DHT = %d bits", reps, maxLen))
}
