package standard

// Bounded stand-ins for C02 at the level of the shared Huffman layer
// (jpeg/standard): every 16-bit lossless difference survives
// EncodeLosslessDifference/WriteBits -> Decode/ReceiveLosslessDifference with
// real Huffman tables at every bit alignment (including streams with stuffed
// 0xFF bytes), and every table produced by BuildOptimalHuffmanTable is a valid
// T.81 table that survives the DHT write/parse path and decodes every symbol.

import (
	"bytes"
	"fmt"
	"math/rand"
	"os"
	"sort"
	"strconv"
	"strings"
	"testing"
)

func verifTier() string {
	if os.Getenv("VERIF_TIER") == "thorough" {
		return "thorough"
	}
	return "quick"
}

func verifSeed() int64 {
	s, err := strconv.ParseInt(os.Getenv("VERIF_SEED"), 10, 64)
	if err != nil {
		return 1
	}
	return s
}

type verifGroup struct {
	key  string
	n    int
	desc string
}

type verifReport struct {
	name   string
	cases  int
	fails  int
	groups map[string]*verifGroup
}

func verifNewReport(name string) *verifReport {
	return &verifReport{name: name, groups: map[string]*verifGroup{}}
}

func (r *verifReport) fail(key, desc string) {
	r.fails++
	g := r.groups[key]
	if g == nil {
		g = &verifGroup{key: key, desc: desc}
		r.groups[key] = g
	}
	g.n++
}

func (r *verifReport) finish(t *testing.T, domain string) {
	fmt.Printf("BOUNDED name=%s cases=%d fails=%d domain=%q\n", r.name, r.cases, r.fails, domain)
	keys := make([]string, 0, len(r.groups))
	for k := range r.groups {
		keys = append(keys, k)
	}
	sort.Strings(keys)
	for i, k := range keys {
		if i == 5 {
			break
		}
		g := r.groups[k]
		extra := ""
		if i == 4 && len(keys) > 5 {
			extra = fmt.Sprintf(" omitted_groups=%d", len(keys)-5)
		}
		fmt.Printf("BOUNDED-FAIL name=%s %s nfail=%d first_case={%s}%s\n", r.name, g.key, g.n, g.desc, extra)
	}
	if r.fails > 0 {
		t.Fail()
	}
}

// verifTableCheck checks that a table is a valid T.81 Huffman table for the
// given set of required symbols: lengths 1..16, BITS/HUFFVAL consistent, no
// duplicate symbol, not over-subscribed, all-ones code word unused.
func verifTableCheck(tab *HuffmanTable, need []int) string {
	n := 0
	for l := 0; l < 16; l++ {
		if tab.Bits[l] < 0 || tab.Bits[l] > 255 {
			return fmt.Sprintf("bits[%d]=%d", l, tab.Bits[l])
		}
		n += tab.Bits[l]
	}
	if n != len(tab.Values) {
		return fmt.Sprintf("sum(bits)=%d len(values)=%d", n, len(tab.Values))
	}
	seen := map[byte]bool{}
	for _, v := range tab.Values {
		if seen[v] {
			return fmt.Sprintf("symbol %d twice", v)
		}
		seen[v] = true
	}
	for _, s := range need {
		if !seen[byte(s)] {
			return fmt.Sprintf("symbol %d with non-zero frequency has no code", s)
		}
	}
	code := 0
	for l := 0; l < 16; l++ {
		code += tab.Bits[l]
		if tab.Bits[l] > 0 && code > 1<<uint(l+1)-1 {
			return fmt.Sprintf("over-subscribed or all-ones code of length %d used", l+1)
		}
		code <<= 1
	}
	return ""
}

// verifDHTRoundTrip writes the table with WriteHuffmanTable and parses the
// segment back (marker and length through Reader, payload by hand).
func verifDHTRoundTrip(tab *HuffmanTable, class, id byte) (bits [16]int, values []byte, err error) {
	var buf bytes.Buffer
	if err = WriteHuffmanTable(NewWriter(&buf), class, id, tab); err != nil {
		return
	}
	rd := NewReader(bytes.NewReader(buf.Bytes()))
	m, err := rd.ReadMarker()
	if err != nil {
		return
	}
	if m != MarkerDHT {
		err = fmt.Errorf("marker %04x", m)
		return
	}
	seg, err := rd.ReadSegment()
	if err != nil {
		return
	}
	if len(seg) < 17 || seg[0] != class<<4|id {
		err = fmt.Errorf("bad DHT payload head")
		return
	}
	n := 0
	for i := 0; i < 16; i++ {
		bits[i] = int(seg[1+i])
		n += bits[i]
	}
	if len(seg) != 17+n {
		err = fmt.Errorf("DHT payload length %d, expected %d", len(seg), 17+n)
		return
	}
	values = append([]byte(nil), seg[17:]...)
	return
}

// verifCodeSymbols encodes the symbol sequence with codes, preceded by `align`
// one-bits, and decodes it with dec; returns a description of the first
// mismatch or "".
func verifCodeSymbols(codes []HuffmanCode, dec *HuffmanTable, syms []byte, align int) (res string) {
	defer func() {
		if r := recover(); r != nil {
			res = fmt.Sprintf("panic=%q", fmt.Sprint(r))
		}
	}()
	var buf bytes.Buffer
	e := NewHuffmanEncoder(&buf)
	if err := e.WriteBits(0xFFFFFFFF, align); err != nil {
		return "write_error"
	}
	for _, s := range syms {
		c := codes[s]
		if c.Len == 0 {
			return fmt.Sprintf("symbol=%d has no code", s)
		}
		if err := e.WriteBits(uint32(c.Code), c.Len); err != nil {
			return "write_error"
		}
	}
	if err := e.Flush(); err != nil {
		return "flush_error"
	}
	d := NewHuffmanDecoder(bytes.NewReader(buf.Bytes()))
	if align > 0 {
		v, err := d.ReadBits(align)
		if err != nil || v != 1<<uint(align)-1 {
			return fmt.Sprintf("prefix_bits=%d err=%v", v, err)
		}
	}
	for i, s := range syms {
		got, err := d.Decode(dec)
		if err != nil {
			return fmt.Sprintf("index=%d symbol=%d err=%q", i, s, err.Error())
		}
		if got != s {
			return fmt.Sprintf("index=%d symbol=%d got=%d", i, s, got)
		}
	}
	return ""
}

type verifNamedTable struct {
	name  string
	table *HuffmanTable
}

func verifFibFreq(nsym int) [256]uint64 {
	var f [256]uint64
	a, b := uint64(1), uint64(1)
	for s := nsym - 1; s >= 0; s-- {
		f[s] = a
		a, b = b, a+b
	}
	return f
}

func verifLosslessTables() []verifNamedTable {
	var uni [256]uint64
	for s := 0; s <= 16; s++ {
		uni[s] = 1000
	}
	var rev [256]uint64 // category 16 most frequent
	fib := verifFibFreq(17)
	for s := 0; s <= 16; s++ {
		rev[16-s] = fib[s]
	}
	return []verifNamedTable{
		{"ExtendedDCLuminance", BuildStandardHuffmanTable(ExtendedDCLuminanceBits, ExtendedDCLuminanceValues)},
		{"ExtendedDCChrominance", BuildStandardHuffmanTable(ExtendedDCChrominanceBits, ExtendedDCChrominanceValues)},
		{"Optimal(fibonacci,cat0 frequent)", BuildOptimalHuffmanTable(fib)},
		{"Optimal(fibonacci,cat16 frequent)", BuildOptimalHuffmanTable(rev)},
		{"Optimal(uniform)", BuildOptimalHuffmanTable(uni)},
	}
}

// All 65536 differences through the category coder and real Huffman tables.
func TestVerif_C02_AllDifferences(t *testing.T) {
	rep := verifNewReport("TestVerif_C02_AllDifferences")
	rng := rand.New(rand.NewSource(verifSeed()*17 + 3))
	tables := verifLosslessTables()
	orders := []string{"ascending", "shuffled", "interleaved_32767"}
	if verifTier() == "thorough" {
		orders = append(orders, "descending", "shuffled2", "interleaved_m32768")
	}
	stuffed := 0
	maxLen := 0
	var skipped []string
	for _, nt := range tables {
		if msg := verifTableCheck(nt.table, nil); msg != "" {
			if !strings.HasPrefix(nt.name, "Optimal") {
				// a malformed constant table that no codec uses is outside
				// C02 (which is about the encoders' output): skip and note it
				skipped = append(skipped, fmt.Sprintf("%s (%s)", nt.name, msg))
				continue
			}
			rep.cases++
			rep.fail("table="+strings.ReplaceAll(nt.name, " ", "_")+" kind=invalid_table", msg)
			continue
		}
		for l := 0; l < 16; l++ {
			if nt.table.Bits[l] > 0 && l+1 > maxLen {
				maxLen = l + 1
			}
		}
		codes := BuildHuffmanCodes(nt.table)
		for _, order := range orders {
			seq := make([]int, 0, 2*65536)
			for d := -32768; d <= 32767; d++ {
				seq = append(seq, d)
			}
			switch order {
			case "descending":
				for i, j := 0, len(seq)-1; i < j; i, j = i+1, j-1 {
					seq[i], seq[j] = seq[j], seq[i]
				}
			case "shuffled", "shuffled2":
				rng.Shuffle(len(seq), func(i, j int) { seq[i], seq[j] = seq[j], seq[i] })
			case "interleaved_32767", "interleaved_m32768":
				// every difference followed by a value whose magnitude bits
				// are all ones (32767) / whose neighbours create long 1-runs
				fill := 32767
				if order == "interleaved_m32768" {
					fill = -32768
				}
				out := make([]int, 0, 2*len(seq))
				for _, d := range seq {
					out = append(out, d, fill)
				}
				seq = out
			}
			for align := 0; align < 8; align++ {
				key := fmt.Sprintf("table=%s order=%s align=%d", strings.ReplaceAll(nt.name, " ", "_"), order, align)
				func() {
					defer func() {
						if r := recover(); r != nil {
							rep.cases++
							rep.fail(key+" kind=panic", fmt.Sprintf("panic=%q", fmt.Sprint(r)))
						}
					}()
					var buf bytes.Buffer
					e := NewHuffmanEncoder(&buf)
					_ = e.WriteBits(0xFFFFFFFF, align)
					for _, d := range seq {
						cat, bits := e.EncodeLosslessDifference(d)
						c := codes[cat]
						if cat < 0 || cat > 16 || c.Len == 0 || (cat != 16 && cat > 0 && bits >= 1<<uint(cat)) {
							rep.cases++
							rep.fail(key+" kind=bad_category", fmt.Sprintf("diff=%d cat=%d bits=%d codelen=%d", d, cat, bits, c.Len))
							return
						}
						_ = e.WriteBits(uint32(c.Code), c.Len)
						if cat > 0 && cat != 16 {
							_ = e.WriteBits(bits, cat)
						}
					}
					_ = e.Flush()
					stuffed += bytes.Count(buf.Bytes(), []byte{0xFF, 0x00})
					dec := NewHuffmanDecoder(bytes.NewReader(buf.Bytes()))
					if align > 0 {
						if v, err := dec.ReadBits(align); err != nil || v != 1<<uint(align)-1 {
							rep.cases++
							rep.fail(key+" kind=prefix", fmt.Sprintf("v=%d err=%v", v, err))
							return
						}
					}
					for i, d := range seq {
						rep.cases++
						cat, err := dec.Decode(nt.table)
						if err != nil {
							rep.fail(key+" kind=decode_error", fmt.Sprintf("index=%d diff=%d err=%q", i, d, err.Error()))
							return
						}
						got, err := dec.ReceiveLosslessDifference(int(cat))
						if err != nil {
							rep.fail(key+" kind=receive_error", fmt.Sprintf("index=%d diff=%d cat=%d err=%q", i, d, cat, err.Error()))
							return
						}
						if got != d {
							rep.fail(key+" kind=value_mismatch", fmt.Sprintf("index=%d diff=%d cat=%d got=%d", i, d, cat, got))
							return
						}
					}
				}()
			}
		}
	}
	rep.finish(t, fmt.Sprintf("all 65536 differences -32768..32767: EncodeLosslessDifference + WriteBits(code,bits) -> Decode + ReceiveLosslessDifference; tables {ExtendedDCLuminance, ExtendedDCChrominance, BuildOptimalHuffmanTable(fibonacci / reversed fibonacci / uniform over categories 0..16)} x orders %v x bit alignment 0..7 (prefix of 1-bits); cover: longest code %d bits, %d stuffed 0xFF00 pairs in the streams (seed %d); constant tables skipped because they are not valid tables (unused by the codecs): %v",
		orders, maxLen, stuffed, verifSeed(), skipped))
}

// EncodeCategory / ReceiveExtend (the non-lossless pair) on -32767..32767.
func TestVerif_C02_CategoryExtend(t *testing.T) {
	rep := verifNewReport("TestVerif_C02_CategoryExtend")
	for align := 0; align < 8; align++ {
		func() {
			key := fmt.Sprintf("align=%d", align)
			defer func() {
				if r := recover(); r != nil {
					rep.cases++
					rep.fail(key+" kind=panic", fmt.Sprintf("panic=%q", fmt.Sprint(r)))
				}
			}()
			var buf bytes.Buffer
			e := NewHuffmanEncoder(&buf)
			_ = e.WriteBits(0, align)
			type cv struct{ cat, v int }
			var seq []cv
			for v := -32767; v <= 32767; v++ {
				cat, bits := e.EncodeCategory(v)
				want := 0
				for a := v; a != 0; a /= 2 {
					want++
				}
				if cat != want || bits >= 1<<uint(cat) && cat > 0 {
					rep.cases++
					rep.fail(key+" kind=bad_category", fmt.Sprintf("v=%d cat=%d want_cat=%d bits=%d", v, cat, want, bits))
					return
				}
				_ = e.WriteBits(bits, cat)
				seq = append(seq, cv{cat, v})
			}
			_ = e.Flush()
			d := NewHuffmanDecoder(bytes.NewReader(buf.Bytes()))
			if align > 0 {
				_, _ = d.ReadBits(align)
			}
			for _, s := range seq {
				rep.cases++
				got, err := d.ReceiveExtend(s.cat)
				if err != nil || got != s.v {
					rep.fail(key+" kind=value_mismatch", fmt.Sprintf("v=%d cat=%d got=%d err=%v", s.v, s.cat, got, err))
					return
				}
			}
		}()
	}
	rep.finish(t, "EncodeCategory(v) -> WriteBits(bits,cat) -> ReceiveExtend(cat) == v for all v in -32767..32767 in one stream (with 0xFF stuffing), bit alignment 0..7; category = bit length of |v|")
}

// verifProfile is a frequency profile over symbols 0..n-1.
type verifProfile struct {
	name string
	freq [256]uint64
}

func verifProfiles(rng *rand.Rand, nRandom int) []verifProfile {
	var out []verifProfile
	for n := 1; n <= 17; n++ {
		var uni, geo2, geo3, one [256]uint64
		g2, g3 := uint64(1), uint64(1)
		for s := 0; s < n; s++ {
			uni[s] = 7
			geo2[n-1-s] = g2
			geo3[s] = g3
			g2 *= 2
			g3 *= 3
			one[s] = 1
		}
		one[0] = 1 << 34
		out = append(out,
			verifProfile{fmt.Sprintf("uniform_n%d", n), uni},
			verifProfile{fmt.Sprintf("fibonacci_n%d", n), verifFibFreq(n)},
			verifProfile{fmt.Sprintf("pow2_n%d", n), geo2},
			verifProfile{fmt.Sprintf("pow3_n%d", n), geo3},
			verifProfile{fmt.Sprintf("one_dominant_n%d", n), one})
	}
	// exhaustive tiny profiles: up to 4 symbols, frequencies 0..3
	for a := uint64(0); a <= 3; a++ {
		for b := uint64(0); b <= 3; b++ {
			for c := uint64(0); c <= 3; c++ {
				for d := uint64(0); d <= 3; d++ {
					if a+b+c+d == 0 {
						continue
					}
					var f [256]uint64
					f[0], f[5], f[11], f[16] = a, b, c, d
					out = append(out, verifProfile{fmt.Sprintf("tiny_%d_%d_%d_%d", a, b, c, d), f})
				}
			}
		}
	}
	for i := 0; i < nRandom; i++ {
		var f [256]uint64
		mode := rng.Intn(4)
		for s := 0; s <= 16; s++ {
			switch mode {
			case 0: // sparse small counts
				if rng.Intn(2) == 0 {
					f[s] = uint64(rng.Intn(6))
				}
			case 1: // wide dynamic range
				f[s] = uint64(1) << uint(rng.Intn(34))
			case 2: // noisy fibonacci, shuffled symbols
				f[s] = verifFibFreq(17)[rng.Intn(17)] + uint64(rng.Intn(2))
			default:
				f[s] = uint64(rng.Intn(1000))
			}
		}
		empty := true
		for s := 0; s <= 16; s++ {
			if f[s] != 0 {
				empty = false
			}
		}
		if empty {
			f[rng.Intn(17)] = 1
		}
		out = append(out, verifProfile{fmt.Sprintf("random%d_mode%d", i, mode), f})
	}
	return out
}

// BuildOptimalHuffmanTable over skewed profiles -> DHT write/parse -> Build ->
// every symbol decodes.
func TestVerif_C02_OptimalTables(t *testing.T) {
	rep := verifNewReport("TestVerif_C02_OptimalTables")
	rng := rand.New(rand.NewSource(verifSeed()*101 + 9))
	nRandom := 1500
	if verifTier() == "thorough" {
		nRandom = 60000
	}
	profiles := verifProfiles(rng, nRandom)
	maxLen := 0
	for _, p := range profiles {
		rep.cases++
		var need []int
		for s, f := range p.freq {
			if f > 0 {
				need = append(need, s)
			}
		}
		fdesc := func() string {
			var parts []string
			for _, s := range need {
				parts = append(parts, fmt.Sprintf("%d:%d", s, p.freq[s]))
			}
			return "profile=" + p.name + " freq={" + strings.Join(parts, ",") + "}"
		}
		var tab *HuffmanTable
		func() {
			defer func() {
				if r := recover(); r != nil {
					rep.fail("kind=build_panic", fmt.Sprintf("%s panic=%q", fdesc(), fmt.Sprint(r)))
					tab = nil
				}
			}()
			tab = BuildOptimalHuffmanTable(p.freq)
		}()
		if tab == nil {
			continue
		}
		if msg := verifTableCheck(tab, need); msg != "" {
			rep.fail("kind=invalid_table", fmt.Sprintf("%s bits=%v values=%v problem=%q", fdesc(), tab.Bits, tab.Values, msg))
			continue
		}
		if len(tab.Values) != len(need) {
			rep.fail("kind=extra_symbols", fmt.Sprintf("%s values=%v", fdesc(), tab.Values))
			continue
		}
		for l := 0; l < 16; l++ {
			if tab.Bits[l] > 0 && l+1 > maxLen {
				maxLen = l + 1
			}
		}
		bits, values, err := verifDHTRoundTrip(tab, 0, byte(rep.cases&3))
		if err != nil {
			rep.fail("kind=dht_roundtrip", fmt.Sprintf("%s err=%q", fdesc(), err.Error()))
			continue
		}
		if bits != tab.Bits || !bytes.Equal(values, tab.Values) {
			rep.fail("kind=dht_roundtrip", fmt.Sprintf("%s bits=%v parsed_bits=%v", fdesc(), tab.Bits, bits))
			continue
		}
		// decoder tables the two ways the codecs build them
		decA := &HuffmanTable{Bits: bits, Values: values}
		if err := decA.Build(); err != nil {
			rep.fail("kind=build_error", fmt.Sprintf("%s err=%q", fdesc(), err.Error()))
			continue
		}
		decB := BuildStandardHuffmanTable(bits, values)
		codes := BuildHuffmanCodes(tab)
		// symbol sequence: every ordered pair of coded symbols (covers every
		// symbol after every other one), then each symbol 3 times
		var seq []byte
		for _, a := range need {
			for _, b := range need {
				seq = append(seq, byte(a), byte(b))
			}
		}
		for _, a := range need {
			seq = append(seq, byte(a), byte(a), byte(a))
		}
		bad := ""
		for align := 0; align < 8 && bad == ""; align++ {
			if r := verifCodeSymbols(codes, decA, seq, align); r != "" {
				bad = fmt.Sprintf("align=%d table=Build %s", align, r)
			} else if r := verifCodeSymbols(codes, decB, seq, align); r != "" {
				bad = fmt.Sprintf("align=%d table=BuildStandardHuffmanTable %s", align, r)
			}
		}
		if bad != "" {
			rep.fail("kind=symbol_roundtrip", fmt.Sprintf("%s bits=%v values=%v %s", fdesc(), tab.Bits, tab.Values, bad))
		}
	}
	rep.finish(t, fmt.Sprintf("BuildOptimalHuffmanTable(freq) is a valid T.81 table (lengths<=16, exactly the symbols with freq>0, not over-subscribed, all-ones code unused) -> WriteHuffmanTable -> Reader.ReadMarker/ReadSegment + parse -> HuffmanTable.Build and BuildStandardHuffmanTable -> BuildHuffmanCodes/WriteBits -> Decode returns every symbol (all ordered symbol pairs, bit alignment 0..7); profiles over symbols 0..16: {uniform, fibonacci, powers of 2, powers of 3, one dominant} x n in 1..17, all profiles over symbols {0,5,11,16} with frequencies 0..3, %d seeded random profiles (frequencies < 2^34, seed %d); cover: longest code %d bits",
		nRandom, verifSeed(), maxLen))
}
