package standard

// Scalar part of the C11 bounded stand-in: the quality -> quantisation-table map and the zig-zag
// permutation that the Baseline/Extended encoders and decoders share.
//
//  * ScaleQuantTable(base, q) for every quality 1..100 against an independent statement of the IJG
//    rule: scale = 5000/q (q < 50, integer division) or 200-2q; entry = clamp((base*scale+50)/100, 1, 255).
//    Every base entry value 1..255 is visited at every quality (exhaustive scalar domain 255 x 100),
//    in addition to the two Annex K tables the encoders really use.
//    12-bit path: jpeg/extended/sequential12.go passes DefaultLuminanceQuantTable through this very
//    function (same 1..255 clamp, no rescaling for the 12-bit sample range) and writes the result
//    with Pq=0 (8-bit entries); there is no 16-bit-entry table path in the library's encoders.
//  * ZigZag / Unzig against ITU-T T.81 Figure A.6 written out literally.

import (
	"fmt"
	"testing"
)

// verifC11FigureA6 is T.81 Figure A.6: entry [v][u] is the zig-zag position of coefficient S(v,u).
var verifC11FigureA6 = [8][8]int{
	{0, 1, 5, 6, 14, 15, 27, 28},
	{2, 4, 7, 13, 16, 26, 29, 42},
	{3, 8, 12, 17, 25, 30, 41, 43},
	{9, 11, 18, 24, 31, 40, 44, 53},
	{10, 19, 23, 32, 39, 45, 52, 54},
	{20, 22, 33, 38, 46, 51, 55, 60},
	{21, 34, 37, 47, 50, 56, 59, 61},
	{35, 36, 48, 49, 57, 58, 62, 63},
}

// T.81 Annex K Tables K.1 and K.2 written out literally (independent of tables.go).
var verifC11K1 = [64]int32{
	16, 11, 10, 16, 24, 40, 51, 61,
	12, 12, 14, 19, 26, 58, 60, 55,
	14, 13, 16, 24, 40, 57, 69, 56,
	14, 17, 22, 29, 51, 87, 80, 62,
	18, 22, 37, 56, 68, 109, 103, 77,
	24, 35, 55, 64, 81, 104, 113, 92,
	49, 64, 78, 87, 103, 121, 120, 101,
	72, 92, 95, 98, 112, 100, 103, 99,
}

var verifC11K2 = [64]int32{
	17, 18, 24, 47, 99, 99, 99, 99,
	18, 21, 26, 66, 99, 99, 99, 99,
	24, 26, 56, 99, 99, 99, 99, 99,
	47, 66, 99, 99, 99, 99, 99, 99,
	99, 99, 99, 99, 99, 99, 99, 99,
	99, 99, 99, 99, 99, 99, 99, 99,
	99, 99, 99, 99, 99, 99, 99, 99,
	99, 99, 99, 99, 99, 99, 99, 99,
}

func verifC11IJG(base int64, q int) int64 {
	var scale int64
	if q < 50 {
		scale = 5000 / int64(q)
	} else {
		scale = 200 - 2*int64(q)
	}
	v := (base*scale + 50) / 100
	if v < 1 {
		v = 1
	}
	if v > 255 {
		v = 255
	}
	return v
}

type verifC11Rep struct {
	name         string
	cases, fails int
	lines        []string
}

func (r *verifC11Rep) fail(desc string) {
	r.fails++
	if len(r.lines) < 5 {
		r.lines = append(r.lines, desc)
	}
}

func (r *verifC11Rep) finish(t *testing.T, domain string) {
	fmt.Printf("BOUNDED name=%s cases=%d fails=%d domain=%q\n", r.name, r.cases, r.fails, domain)
	for _, l := range r.lines {
		fmt.Printf("BOUNDED-FAIL name=%s %s\n", r.name, l)
	}
	if r.fails > 0 {
		t.Fail()
	}
}

func TestVerif_C11_ScaleQuantTable(t *testing.T) {
	r := &verifC11Rep{name: "TestVerif_C11_ScaleQuantTable"}
	type tab struct {
		name string
		t    [64]int32
	}
	tabs := []tab{{"DefaultLuminanceQuantTable", DefaultLuminanceQuantTable}, {"DefaultChrominanceQuantTable", DefaultChrominanceQuantTable}}
	// the library's base tables must be Annex K.1 / K.2
	r.cases += 2
	if DefaultLuminanceQuantTable != verifC11K1 {
		r.fail("kind=base-table table=DefaultLuminanceQuantTable differs from T.81 Table K.1")
	}
	if DefaultChrominanceQuantTable != verifC11K2 {
		r.fail("kind=base-table table=DefaultChrominanceQuantTable differs from T.81 Table K.2")
	}
	// four synthetic tables that together hold every entry value 1..255 (index i of table k = 64k+i+1, capped)
	for k := 0; k < 4; k++ {
		var tb [64]int32
		for i := range tb {
			v := 64*k + i + 1
			if v > 255 {
				v = 255
			}
			tb[i] = int32(v)
		}
		tabs = append(tabs, tab{fmt.Sprintf("values_%d..%d", 64*k+1, 64*k+64), tb})
	}
	for _, tb := range tabs {
		for q := 1; q <= 100; q++ {
			func() {
				defer func() {
					if p := recover(); p != nil {
						r.cases++
						r.fail(fmt.Sprintf("kind=panic table=%s quality=%d panic=%q", tb.name, q, fmt.Sprint(p)))
					}
				}()
				in := tb.t
				got := ScaleQuantTable(in, q)
				if in != tb.t {
					r.cases++
					r.fail(fmt.Sprintf("kind=input-mutated table=%s quality=%d", tb.name, q))
				}
				for i := 0; i < 64; i++ {
					r.cases++
					want := verifC11IJG(int64(tb.t[i]), q)
					if int64(got[i]) != want {
						r.fail(fmt.Sprintf("kind=entry-mismatch table=%s quality=%d index=%d base=%d got=%d want=%d", tb.name, q, i, tb.t[i], got[i], want))
					}
				}
				// consequences used by C11: quality 100 gives the all-ones table, quality 50 the base table
				if q == 100 {
					for i := 0; i < 64; i++ {
						if got[i] != 1 {
							r.fail(fmt.Sprintf("kind=q100-not-all-ones table=%s index=%d got=%d", tb.name, i, got[i]))
							break
						}
					}
				}
				if q == 50 && got != tb.t {
					r.fail(fmt.Sprintf("kind=q50-not-identity table=%s", tb.name))
				}
			}()
		}
	}
	// monotonicity in quality (a higher quality never yields a coarser entry)
	for _, tb := range tabs {
		prev := ScaleQuantTable(tb.t, 1)
		for q := 2; q <= 100; q++ {
			cur := ScaleQuantTable(tb.t, q)
			r.cases++
			for i := 0; i < 64; i++ {
				if cur[i] > prev[i] {
					r.fail(fmt.Sprintf("kind=not-monotone table=%s quality=%d index=%d entry=%d previous=%d", tb.name, q, i, cur[i], prev[i]))
					break
				}
			}
			prev = cur
		}
	}
	r.finish(t, "ScaleQuantTable vs independent IJG rule (scale = q<50 ? 5000/q : 200-2q; entry = clamp((base*scale+50)/100,1,255)): quality 1..100 (every value) x {Annex K.1, Annex K.2 (checked literally), 4 synthetic tables covering every base entry 1..255}; plus q=100 -> all ones, q=50 -> identity, entries non-increasing in quality; the 12-bit Extended encoder uses this same function and clamp (Pq=0 tables)")
}

func TestVerif_C11_ZigZagFigureA6(t *testing.T) {
	r := &verifC11Rep{name: "TestVerif_C11_ZigZagFigureA6"}
	seen := [64]bool{}
	for v := 0; v < 8; v++ {
		for u := 0; u < 8; u++ {
			k := verifC11FigureA6[v][u]
			nat := v*8 + u
			r.cases += 2
			if ZigZag[k] != nat {
				r.fail(fmt.Sprintf("kind=zigzag zigzag_index=%d got_natural=%d want_natural=%d (v=%d,u=%d)", k, ZigZag[k], nat, v, u))
			}
			if Unzig[nat] != k {
				r.fail(fmt.Sprintf("kind=unzig natural_index=%d (v=%d,u=%d) got_zigzag=%d want_zigzag=%d", nat, v, u, Unzig[nat], k))
			}
			seen[k] = true
		}
	}
	for k := 0; k < 64; k++ {
		r.cases += 2
		if !seen[k] {
			r.fail(fmt.Sprintf("kind=figure-not-a-permutation missing=%d", k))
		}
		if ZigZag[k] < 0 || ZigZag[k] > 63 || Unzig[ZigZag[k]&63] != k {
			r.fail(fmt.Sprintf("kind=not-inverse k=%d ZigZag[k]=%d", k, ZigZag[k]))
		}
	}
	r.finish(t, "all 64 coefficient positions: ZigZag[A6[v][u]] == 8v+u and Unzig[8v+u] == A6[v][u] with A6 = T.81 Figure A.6 written literally; ZigZag/Unzig mutually inverse permutations of 0..63")
}
