package rle

// Bounded stand-in tests for property C01 (RLE Encode/Decode round trip + Annex G well-formedness).
//
// These tests are injected into package rle with `go test -overlay` (see /verif/bounded/README.md);
// they never live in /repo.  All helper identifiers are prefixed verifC01.
//
// The independent reader (verifC01PackBits / verifC01Header / verifC01Reassemble) is written from
// DICOM PS3.5 Annex G only and shares no code with rle.go.

import (
	"bytes"
	"encoding/binary"
	"encoding/hex"
	"fmt"
	"math/rand"
	"os"
	"strconv"
	"testing"
	"time"

	"github.com/cocosip/go-dicom/pkg/imaging/imagetypes"
)

// ---------------------------------------------------------------------------------------------
// environment / reporting
// ---------------------------------------------------------------------------------------------

func verifC01Thorough() bool { return os.Getenv("VERIF_TIER") == "thorough" }

func verifC01Seed() int64 {
	if s := os.Getenv("VERIF_SEED"); s != "" {
		if v, err := strconv.ParseInt(s, 0, 64); err == nil {
			return v
		}
	}
	return 1
}

type verifC01Report struct {
	name  string
	cases int
	fails int
	lines []string
	start time.Time
}

func verifC01NewReport(name string) *verifC01Report {
	return &verifC01Report{name: name, start: time.Now()}
}

// record counts one executed case; msg == "" means the case passed.
func (r *verifC01Report) record(caseDesc, msg string) {
	r.cases++
	if msg == "" {
		return
	}
	r.fails++
	if len(r.lines) < 5 {
		r.lines = append(r.lines, caseDesc+" "+msg)
	}
}

func (r *verifC01Report) done(t *testing.T, domain string) {
	fmt.Printf("BOUNDED name=%s cases=%d fails=%d domain=%q\n", r.name, r.cases, r.fails, domain)
	for _, l := range r.lines {
		fmt.Printf("BOUNDED-FAIL name=%s %s\n", r.name, l)
	}
	t.Logf("%s: %d cases, %d fails, %.2fs", r.name, r.cases, r.fails, time.Since(r.start).Seconds())
	if r.fails > 0 {
		t.Fail()
	}
}

func verifC01Hex(b []byte) string {
	if len(b) == 0 {
		return "-"
	}
	if len(b) <= 48 {
		return hex.EncodeToString(b)
	}
	return hex.EncodeToString(b[:48]) + "..."
}

// ---------------------------------------------------------------------------------------------
// independent Annex G reader
// ---------------------------------------------------------------------------------------------

type verifC01Packet struct {
	outStart int // index of the first byte this packet produces
	outLen   int // number of bytes it produces
	literal  bool
}

// verifC01PackBits expands one RLE segment per PS3.5 G.3.2 / G.5:
//
//	n in 0..127   : copy the next n+1 bytes literally
//	n in 129..255 : (signed -1..-127) output the next byte 257-n times
//	n == 128      : (signed -128) no operation
//
// A packet needs at least two bytes, so a single trailing byte can only be the even-length
// padding, which Annex G requires to be zero.
//
// dst is an optional scratch buffer that is overwritten; packets are collected only on request.
func verifC01PackBits(seg []byte, dst []byte, wantPackets bool) (out []byte, packets []verifC01Packet, noops int, pad int, err error) {
	out = dst[:0]
	i := 0
	for len(seg)-i >= 2 {
		n := seg[i]
		i++
		switch {
		case n <= 127:
			cnt := int(n) + 1
			if i+cnt > len(seg) {
				return out, packets, noops, 0, fmt.Errorf("literal packet at %d needs %d bytes, %d left", i-1, cnt, len(seg)-i)
			}
			if wantPackets {
				packets = append(packets, verifC01Packet{outStart: len(out), outLen: cnt, literal: true})
			}
			out = append(out, seg[i:i+cnt]...)
			i += cnt
		case n == 128:
			noops++
		default:
			cnt := 257 - int(n)
			v := seg[i]
			i++
			if wantPackets {
				packets = append(packets, verifC01Packet{outStart: len(out), outLen: cnt})
			}
			for k := 0; k < cnt; k++ {
				out = append(out, v)
			}
		}
	}
	pad = len(seg) - i
	if pad == 1 && seg[i] != 0 {
		return out, packets, noops, pad, fmt.Errorf("padding byte is 0x%02x, want 0x00", seg[i])
	}
	return out, packets, noops, pad, nil
}

// verifC01Header checks the 64-byte RLE header (G.5) and returns the used offsets.
// strict: every segment is non-empty, so offsets must be strictly ascending and < len(buf).
func verifC01Header(buf []byte, wantSegs int, strict bool) ([]int, string) {
	if len(buf) < 64 {
		return nil, fmt.Sprintf("why=short_stream len=%d", len(buf))
	}
	if len(buf)%2 != 0 {
		return nil, fmt.Sprintf("why=odd_encoded_length len=%d", len(buf))
	}
	cnt := int(binary.LittleEndian.Uint32(buf[0:4]))
	if cnt != wantSegs {
		return nil, fmt.Sprintf("why=segment_count got=%d want=%d", cnt, wantSegs)
	}
	offs := make([]int, cnt)
	for i := 0; i < 15; i++ {
		o := int(binary.LittleEndian.Uint32(buf[4+4*i : 8+4*i]))
		if i >= cnt {
			if o != 0 {
				return nil, fmt.Sprintf("why=unused_offset_nonzero idx=%d off=%d", i, o)
			}
			continue
		}
		offs[i] = o
		if i == 0 && o != 64 {
			return nil, fmt.Sprintf("why=first_offset got=%d want=64", o)
		}
		if o%2 != 0 {
			return nil, fmt.Sprintf("why=odd_offset idx=%d off=%d", i, o)
		}
		if strict {
			if o >= len(buf) {
				return nil, fmt.Sprintf("why=offset_out_of_range idx=%d off=%d len=%d", i, o, len(buf))
			}
			if i > 0 && o <= offs[i-1] {
				return nil, fmt.Sprintf("why=offsets_not_ascending idx=%d off=%d prev=%d", i, o, offs[i-1])
			}
		} else {
			if o > len(buf) {
				return nil, fmt.Sprintf("why=offset_out_of_range idx=%d off=%d len=%d", i, o, len(buf))
			}
			if i > 0 && o < offs[i-1] {
				return nil, fmt.Sprintf("why=offsets_descending idx=%d off=%d prev=%d", i, o, offs[i-1])
			}
		}
	}
	return offs, ""
}

func verifC01SegBytes(buf []byte, offs []int, i int) []byte {
	if i+1 < len(offs) {
		return buf[offs[i]:offs[i+1]]
	}
	return buf[offs[i]:]
}

// ---------------------------------------------------------------------------------------------
// segment level harness (real rleEncoder / rleDecoder on one byte string)
// ---------------------------------------------------------------------------------------------

const verifC01Sentinel = 0xAA // never part of any segment-level input

// scratch buffers reused across the (many) segment-level cases; tests are not run in parallel.
var verifC01Scratch struct{ out, dense, str []byte }

func verifC01Filled(buf []byte, n int) []byte {
	if cap(buf) < n {
		buf = make([]byte, n)
	}
	buf = buf[:n]
	for i := range buf {
		buf[i] = verifC01Sentinel
	}
	return buf
}

// verifC01SegCase encodes s twice (segment 0 from a fresh encoder, segment 1 after the
// inter-segment padding), using the same call protocol as Codec.encodeFrame, and checks the
// stream with the real decoder (dense and strided) and with the independent reader.
func verifC01SegCase(s []byte) (msg string) {
	defer func() {
		if p := recover(); p != nil {
			msg = fmt.Sprintf("why=panic panic=%q", fmt.Sprint(p))
		}
	}()

	enc := newRLEEncoder()
	for seg := 0; seg < 2; seg++ {
		enc.NextSegment()
		for _, b := range s {
			enc.Encode(b)
		}
		enc.Flush()
	}
	enc.MakeEvenLength()
	buf := enc.GetBuffer()

	offs, hmsg := verifC01Header(buf, 2, len(s) > 0)
	if hmsg != "" {
		return hmsg
	}

	// independent reader
	for seg := 0; seg < 2; seg++ {
		data := verifC01SegBytes(buf, offs, seg)
		out, _, noops, pad, err := verifC01PackBits(data, verifC01Scratch.out, false)
		verifC01Scratch.out = out
		if err != nil {
			return fmt.Sprintf("why=independent_reader_error seg=%d err=%q enc=%s", seg, err.Error(), verifC01Hex(data))
		}
		if noops != 0 {
			return fmt.Sprintf("why=control_128_emitted seg=%d n=%d enc=%s", seg, noops, verifC01Hex(data))
		}
		if pad > 1 {
			return fmt.Sprintf("why=padding_gt_1 seg=%d pad=%d", seg, pad)
		}
		if !bytes.Equal(out, s) {
			return fmt.Sprintf("why=independent_reader_mismatch seg=%d gotlen=%d wantlen=%d got=%s enc=%s", seg, len(out), len(s), verifC01Hex(out), verifC01Hex(data))
		}
	}

	// real decoder
	dec, err := newRLEDecoder(buf)
	if err != nil {
		return fmt.Sprintf("why=newRLEDecoder_error err=%q", err.Error())
	}
	if dec.NumberOfSegments != 2 {
		return fmt.Sprintf("why=decoder_segment_count got=%d want=2", dec.NumberOfSegments)
	}
	for seg := 0; seg < 2; seg++ {
		// dense: start 0, stride 1, two guard bytes behind the expected output
		dense := verifC01Filled(verifC01Scratch.dense, len(s)+2)
		verifC01Scratch.dense = dense
		if err := dec.DecodeSegment(seg, dense, 0, 1); err != nil {
			return fmt.Sprintf("why=DecodeSegment_error seg=%d stride=1 err=%q", seg, err.Error())
		}
		if !bytes.Equal(dense[:len(s)], s) {
			return fmt.Sprintf("why=decode_mismatch seg=%d stride=1 got=%s", seg, verifC01Hex(dense[:len(s)]))
		}
		if dense[len(s)] != verifC01Sentinel || dense[len(s)+1] != verifC01Sentinel {
			return fmt.Sprintf("why=decode_wrote_past_end seg=%d stride=1 tail=%s", seg, verifC01Hex(dense[len(s):]))
		}
		// strided: start 2, stride 3 (like the last plane of an 8-bit 3-sample interleaved frame)
		str := verifC01Filled(verifC01Scratch.str, 3*len(s)+3)
		verifC01Scratch.str = str
		if err := dec.DecodeSegment(seg, str, 2, 3); err != nil {
			return fmt.Sprintf("why=DecodeSegment_error seg=%d stride=3 err=%q", seg, err.Error())
		}
		for k := range str {
			want := byte(verifC01Sentinel)
			if k >= 2 && (k-2)%3 == 0 && (k-2)/3 < len(s) {
				want = s[(k-2)/3]
			}
			if str[k] != want {
				return fmt.Sprintf("why=decode_mismatch seg=%d stride=3 at=%d got=0x%02x want=0x%02x", seg, k, str[k], want)
			}
		}
	}
	return ""
}

// ---------------------------------------------------------------------------------------------
// Test 1: exhaustive short strings over {0x00,0x01,0xFF}
// ---------------------------------------------------------------------------------------------

func TestVerif_C01_SegmentExhaustive(t *testing.T) {
	rep := verifC01NewReport("TestVerif_C01_SegmentExhaustive")
	maxLen := 10
	if verifC01Thorough() {
		maxLen = 12
	}
	alphabet := []byte{0x00, 0x01, 0xFF}
	s := make([]byte, 0, maxLen)
	total := 1
	for n := 0; n <= maxLen; n++ {
		s = s[:n]
		for idx := 0; idx < total; idx++ {
			v := idx
			for k := n - 1; k >= 0; k-- {
				s[k] = alphabet[v%3]
				v /= 3
			}
			msg := verifC01SegCase(s)
			if msg != "" {
				rep.record(fmt.Sprintf("len=%d input=%s", n, verifC01Hex(s)), msg)
			} else {
				rep.record("", "")
			}
		}
		total *= 3
	}
	rep.done(t, fmt.Sprintf("every byte string of length 0..%d over {00,01,FF}; each encoded as segment 0 and segment 1 of a 2-segment stream with rleEncoder (NextSegment/Encode/Flush/MakeEvenLength/GetBuffer); checked with header parser, independent Annex G PackBits reader (no ctrl 128, exact expansion, <=1 zero pad, even offsets) and rleDecoder.DecodeSegment stride 1 and stride 3 with guard bytes", maxLen))
}

// ---------------------------------------------------------------------------------------------
// Test 2: run / literal boundary sweep
// ---------------------------------------------------------------------------------------------

// verifC01Lit appends l "literal" bytes with values in 1..150 (never 0x00, 0xFF or the sentinel).
//
//	kind 0: no two adjacent bytes equal            (a b c d ...)
//	kind 1: every byte doubled                     (a a b b c c ...)   -> repeatCnt==2 path
//	kind 2: single, pair, single, pair             (a b b c d d ...)   -> mixes 1- and 2-byte appends
func verifC01Lit(dst []byte, l, kind, phase int) []byte {
	for i := 0; i < l; i++ {
		var v int
		switch kind {
		case 0:
			v = i
		case 1:
			v = i / 2
		default:
			g, k := i/3, i%3
			if k == 0 {
				v = 2 * g
			} else {
				v = 2*g + 1
			}
		}
		dst = append(dst, byte(1+(v+phase)%150))
	}
	return dst
}

func verifC01Run(dst []byte, r int, v byte) []byte {
	for i := 0; i < r; i++ {
		dst = append(dst, v)
	}
	return dst
}

func verifC01Window(centres []int, radius, lo, hi int) []int {
	seen := map[int]bool{}
	var out []int
	for v := lo; v <= hi; v++ {
		for _, c := range centres {
			if v >= c-radius && v <= c+radius && !seen[v] {
				seen[v] = true
				out = append(out, v)
			}
		}
	}
	return out
}

func verifC01Range(lo, hi int) []int {
	out := make([]int, 0, hi-lo+1)
	for v := lo; v <= hi; v++ {
		out = append(out, v)
	}
	return out
}

func TestVerif_C01_RunLiteralBoundarySweep(t *testing.T) {
	rep := verifC01NewReport("TestVerif_C01_RunLiteralBoundarySweep")
	thorough := verifC01Thorough()

	centres := []int{0, 2, 3, 127, 128, 129, 130, 255, 256, 257, 300}
	allR := verifC01Range(1, 300)
	allL := verifC01Range(0, 300)
	winR := verifC01Window(centres, 2, 1, 300)
	winL := verifC01Window(centres, 2, 0, 300)

	buf := make([]byte, 0, 1024)
	// runCase formats the case description only when the case fails.
	runCase := func(s []byte, format string, args ...interface{}) {
		msg := verifC01SegCase(s)
		if msg != "" {
			rep.record(fmt.Sprintf(format, args...), msg)
		} else {
			rep.record("", "")
		}
	}

	for kind := 0; kind < 3; kind++ {
		// kind 0 gets the full 1..300 x 0..300 grid; the pair-carrying kinds get the full grid only
		// in the thorough tier, otherwise full literal range x run lengths near the thresholds.
		rs, ls := allR, allL
		if kind != 0 && !thorough {
			rs = winR
		}
		for _, rv := range []byte{0x00, 0xFF} {
			if rv == 0xFF && kind != 0 && !thorough {
				continue
			}
			for _, r := range rs {
				for _, l := range ls {
					// literal + run
					buf = verifC01Lit(buf[:0], l, kind, 0)
					buf = verifC01Run(buf, r, rv)
					runCase(buf, "shape=lit+run kind=%d l=%d r=%d runbyte=0x%02x", kind, l, r, rv)
					// run + literal
					buf = verifC01Run(buf[:0], r, rv)
					buf = verifC01Lit(buf, l, kind, 0)
					runCase(buf, "shape=run+lit kind=%d l=%d r=%d runbyte=0x%02x", kind, l, r, rv)
				}
			}
		}
	}

	// run + run (different byte): full 1..300 x 1..300
	for _, r1 := range allR {
		for _, r2 := range allR {
			buf = verifC01Run(buf[:0], r1, 0x00)
			buf = verifC01Run(buf, r2, 0xFF)
			runCase(buf, "shape=run+run r1=%d r2=%d bytes=00,ff", r1, r2)
		}
	}

	// literal + run + literal: literal lengths near thresholds (thorough: l1 full), run full range
	for kind := 0; kind < 3; kind++ {
		l1s, l2s, rs := winL, winL, allR
		if kind != 0 && !thorough {
			rs = winR
		}
		if thorough {
			l1s = allL
		}
		for _, l1 := range l1s {
			for _, r := range rs {
				for _, l2 := range l2s {
					buf = verifC01Lit(buf[:0], l1, kind, 0)
					buf = verifC01Run(buf, r, 0xFF)
					buf = verifC01Lit(buf, l2, kind, 7)
					runCase(buf, "shape=lit+run+lit kind=%d l1=%d r=%d l2=%d runbyte=0xff", kind, l1, r, l2)
				}
			}
		}
	}

	tier := "quick: full r 1..300 x l 0..300 for plain literals, threshold windows (+-2 around 0,2,3,127,128,129,130,255,256,257,300) for pair-carrying literals"
	if thorough {
		tier = "thorough: full r 1..300 x l 0..300 for all literal kinds"
	}
	rep.done(t, "shapes literal+run, run+literal (run byte 00/FF), run+run(00 then FF, r1,r2 in 1..300), literal+run+literal; literal kinds: no repeats / all pairs / single+pair mix; "+tier+"; same checks as SegmentExhaustive")
}

// ---------------------------------------------------------------------------------------------
// Test 3: frame level through Codec.Encode / Codec.Decode
// ---------------------------------------------------------------------------------------------

type verifC01PixelData struct {
	info   imagetypes.FrameInfo
	frames [][]byte
	encaps bool
}

func (pd *verifC01PixelData) GetFrame(i int) ([]byte, error) {
	if i < 0 || i >= len(pd.frames) {
		return nil, fmt.Errorf("frame index %d out of range", i)
	}
	return pd.frames[i], nil
}
func (pd *verifC01PixelData) AddFrame(b []byte) error { pd.frames = append(pd.frames, b); return nil }
func (pd *verifC01PixelData) FrameCount() int         { return len(pd.frames) }
func (pd *verifC01PixelData) GetFrameInfo() *imagetypes.FrameInfo {
	c := pd.info
	return &c
}
func (pd *verifC01PixelData) IsEncapsulated() bool { return pd.encaps }

type verifC01Cfg struct {
	bits, spp, planar int
	w, h              int
}

func (c verifC01Cfg) ba() int        { return c.bits / 8 }
func (c verifC01Cfg) pixels() int    { return c.w * c.h }
func (c verifC01Cfg) planes() int    { return c.ba() * c.spp }
func (c verifC01Cfg) nativeLen() int { return c.planes() * c.pixels() }
func (c verifC01Cfg) String() string {
	return fmt.Sprintf("bits=%d spp=%d planar=%d w=%d h=%d", c.bits, c.spp, c.planar, c.w, c.h)
}

// verifC01Pos is the index in the native (little-endian) frame of byte j (0 = least significant)
// of sample c of pixel p.  PS3.3 C.7.6.3.1.3: planar 0 = R1 G1 B1 R2 ..., planar 1 = R1 R2 ... G1 ...
func (c verifC01Cfg) pos(p, s, j int) int {
	if c.planar == 0 {
		return (p*c.spp+s)*c.ba() + j
	}
	return (s*c.pixels()+p)*c.ba() + j
}

func (c verifC01Cfg) info() imagetypes.FrameInfo {
	pi := "MONOCHROME2"
	if c.spp == 3 {
		pi = "RGB"
	}
	return imagetypes.FrameInfo{
		Width: uint16(c.w), Height: uint16(c.h),
		BitsAllocated: uint16(c.bits), BitsStored: uint16(c.bits), HighBit: uint16(c.bits - 1),
		SamplesPerPixel: uint16(c.spp), PixelRepresentation: 0,
		PlanarConfiguration: uint16(c.planar), PhotometricInterpretation: pi,
	}
}

// verifC01FillSamples writes value(p, s) little-endian into every sample.
func verifC01FillSamples(c verifC01Cfg, dst []byte, value func(p, s int) uint32) {
	ba := c.ba()
	n := c.pixels()
	for p := 0; p < n; p++ {
		for s := 0; s < c.spp; s++ {
			v := value(p, s)
			for j := 0; j < ba; j++ {
				dst[c.pos(p, s, j)] = byte(v >> (8 * uint(j)))
			}
		}
	}
}

var verifC01Contents = []string{
	"noise", "noise3sticky",
	"const00", "constFF", "const80", "const81",
	"ramp", "ramp3",
	"twolevel2", "twolevel3", "twolevel127", "twolevel128", "twolevel129", "twolevel130", "twolevel256", "twolevel257",
}

func verifC01MakeContent(c verifC01Cfg, kind string, rng *rand.Rand) []byte {
	dst := make([]byte, c.nativeLen())
	switch kind {
	case "noise":
		rng.Read(dst)
	case "noise3sticky":
		alphabet := []byte{0x00, 0x01, 0xFF}
		cur := alphabet[rng.Intn(3)]
		for i := range dst {
			if rng.Intn(10) >= 7 {
				cur = alphabet[rng.Intn(3)]
			}
			dst[i] = cur
		}
	case "const00":
	case "constFF":
		for i := range dst {
			dst[i] = 0xFF
		}
	case "const80":
		for i := range dst {
			dst[i] = 0x80
		}
	case "const81":
		for i := range dst {
			dst[i] = 0x81
		}
	case "ramp":
		verifC01FillSamples(c, dst, func(p, s int) uint32 { return uint32(p + 7*s) })
	case "ramp3":
		verifC01FillSamples(c, dst, func(p, s int) uint32 { return uint32(p/3) * 0x00010101 })
	default:
		var blk int
		if _, err := fmt.Sscanf(kind, "twolevel%d", &blk); err != nil || blk <= 0 {
			panic("verifC01MakeContent: unknown content " + kind)
		}
		verifC01FillSamples(c, dst, func(p, s int) uint32 {
			hi := ((p / blk) & 1) == 1
			if s == 1 {
				hi = !hi
			}
			if hi {
				return 0xFFFFFFFF
			}
			return 0
		})
	}
	return dst
}

// verifC01Reassemble rebuilds the native frame from the encoded stream with the independent reader.
// Annex G.2: the composite pixel code is split into byte planes; segment order is sample by
// sample, and within a sample most significant byte first.
func verifC01Reassemble(c verifC01Cfg, enc []byte, offs []int) (frame []byte, rowCross bool, msg string) {
	frame = make([]byte, c.nativeLen())
	ba := c.ba()
	n := c.pixels()
	for seg := 0; seg < c.planes(); seg++ {
		data := verifC01SegBytes(enc, offs, seg)
		out, packets, noops, pad, err := verifC01PackBits(data, nil, true)
		if err != nil {
			return nil, rowCross, fmt.Sprintf("why=independent_reader_error seg=%d err=%q", seg, err.Error())
		}
		if noops != 0 {
			return nil, rowCross, fmt.Sprintf("why=control_128_emitted seg=%d n=%d", seg, noops)
		}
		if pad > 1 {
			return nil, rowCross, fmt.Sprintf("why=padding_gt_1 seg=%d pad=%d", seg, pad)
		}
		if len(out) != n {
			return nil, rowCross, fmt.Sprintf("why=independent_reader_plane_length seg=%d got=%d want=%d", seg, len(out), n)
		}
		for _, pk := range packets {
			if pk.outStart/c.w != (pk.outStart+pk.outLen-1)/c.w {
				rowCross = true
			}
		}
		s := seg / ba
		j := ba - 1 - seg%ba // segment 0 of a sample is its most significant byte
		for p := 0; p < n; p++ {
			frame[c.pos(p, s, j)] = out[p]
		}
	}
	return frame, rowCross, ""
}

func verifC01FirstDiff(a, b []byte) int {
	n := len(a)
	if len(b) < n {
		n = len(b)
	}
	for i := 0; i < n; i++ {
		if a[i] != b[i] {
			return i
		}
	}
	if len(a) != len(b) {
		return n
	}
	return -1
}

// verifC01FrameCase runs one frame through Codec.Encode and Codec.Decode and checks C01.
func verifC01FrameCase(c verifC01Cfg, native []byte) (rowCross bool, msg string) {
	defer func() {
		if p := recover(); p != nil {
			msg = fmt.Sprintf("why=panic panic=%q", fmt.Sprint(p))
		}
	}()
	orig := append([]byte(nil), native...)
	cd := NewRLECodec()
	info := c.info()

	src := &verifC01PixelData{info: info}
	_ = src.AddFrame(native)
	encPD := &verifC01PixelData{info: info, encaps: true}
	if err := cd.Encode(src, encPD, cd.GetDefaultParameters()); err != nil {
		return false, fmt.Sprintf("why=Encode_error err=%q", err.Error())
	}
	if encPD.FrameCount() != 1 {
		return false, fmt.Sprintf("why=Encode_frame_count got=%d want=1", encPD.FrameCount())
	}
	if !bytes.Equal(native, orig) {
		return false, fmt.Sprintf("why=Encode_modified_source at=%d", verifC01FirstDiff(native, orig))
	}
	enc := encPD.frames[0]
	encCopy := append([]byte(nil), enc...)

	// structure of the encoded frame
	offs, hmsg := verifC01Header(enc, c.planes(), true)
	if hmsg != "" {
		return false, hmsg + " hdr=" + verifC01Hex(enc[:verifC01Min(len(enc), 64)])
	}
	frame, rowCross, rmsg := verifC01Reassemble(c, enc, offs)
	if rmsg != "" {
		return rowCross, rmsg
	}
	if d := verifC01FirstDiff(frame, orig); d >= 0 {
		return rowCross, fmt.Sprintf("why=independent_reader_frame_mismatch at=%d got=0x%02x want=0x%02x", d, frame[d], orig[d])
	}

	// real decoder
	decPD := &verifC01PixelData{info: info}
	if err := cd.Decode(encPD, decPD, cd.GetDefaultParameters()); err != nil {
		return rowCross, fmt.Sprintf("why=Decode_error err=%q", err.Error())
	}
	if decPD.FrameCount() != 1 {
		return rowCross, fmt.Sprintf("why=Decode_frame_count got=%d want=1", decPD.FrameCount())
	}
	if !bytes.Equal(enc, encCopy) {
		return rowCross, "why=Decode_modified_encoded_frame"
	}
	got := decPD.frames[0]
	want := orig
	if len(orig)%2 == 1 {
		want = append(append([]byte(nil), orig...), 0x00)
	}
	if len(got) != len(want) {
		return rowCross, fmt.Sprintf("why=decoded_length got=%d want=%d native=%d", len(got), len(want), len(orig))
	}
	if d := verifC01FirstDiff(got, want); d >= 0 {
		return rowCross, fmt.Sprintf("why=roundtrip_mismatch at=%d got=0x%02x want=0x%02x native=%d", d, got[d], want[d], len(orig))
	}
	return rowCross, ""
}

func verifC01Min(a, b int) int {
	if a < b {
		return a
	}
	return b
}

func TestVerif_C01_FrameRoundTripGrid(t *testing.T) {
	rep := verifC01NewReport("TestVerif_C01_FrameRoundTripGrid")
	seed := verifC01Seed()
	rng := rand.New(rand.NewSource(seed))
	thorough := verifC01Thorough()

	sizes := [][2]int{{1, 1}, {1, 2}, {3, 1}, {3, 3}, {5, 7}, {16, 16}, {17, 3}, {64, 1}, {1, 64}, {255, 1}, {1, 255}, {129, 2}, {65535, 1}, {1, 65535}}
	rowCrossFrames := 0
	oddFrames := 0

	runOne := func(c verifC01Cfg, kind string) {
		native := verifC01MakeContent(c, kind, rng)
		if len(native)%2 == 1 {
			oddFrames++
		}
		cross, msg := verifC01FrameCase(c, native)
		if cross {
			rowCrossFrames++
		}
		if msg != "" {
			rep.record(fmt.Sprintf("%s content=%s seed=%d", c, kind, seed), msg)
		} else {
			rep.record("", "")
		}
	}

	for _, bits := range []int{8, 16, 32} {
		for _, spp := range []int{1, 3} {
			for _, planar := range []int{0, 1} {
				for _, sz := range sizes {
					c := verifC01Cfg{bits: bits, spp: spp, planar: planar, w: sz[0], h: sz[1]}
					for _, kind := range verifC01Contents {
						runOne(c, kind)
					}
				}
			}
		}
	}

	// random sizes
	nRandom := 400
	if thorough {
		nRandom = 6000
	}
	for i := 0; i < nRandom; i++ {
		c := verifC01Cfg{
			bits: []int{8, 16, 32}[rng.Intn(3)], spp: []int{1, 3}[rng.Intn(2)], planar: rng.Intn(2),
			w: 1 + rng.Intn(48), h: 1 + rng.Intn(48),
		}
		switch rng.Intn(10) {
		case 0:
			c.w = 1 + rng.Intn(3000)
			c.h = 1 + rng.Intn(4)
		case 1:
			c.h = 1 + rng.Intn(3000)
			c.w = 1 + rng.Intn(4)
		}
		runOne(c, verifC01Contents[rng.Intn(len(verifC01Contents))])
	}

	t.Logf("informational (not part of C01 as stated): %d of %d frames contain a packet that spans an image row boundary (PS3.5 G.3.1 asks encoders to restart runs at each row); %d frames had odd native length", rowCrossFrames, rep.cases, oddFrames)
	rep.done(t, fmt.Sprintf("Codec.Encode then Codec.Decode, one frame; BitsAllocated {8,16,32} x SamplesPerPixel {1,3} x PlanarConfiguration {0,1} x WxH {1x1,1x2,3x1,3x3,5x7,16x16,17x3,64x1,1x64,255x1,1x255,129x2,65535x1,1x65535} x contents {noise, sticky 3-symbol noise, const 00/FF/80/81, ramp, ramp/3, two-level blocks 2,3,127,128,129,130,256,257}; plus %d random frames (W,H in 1..48, 20%% with one side up to 3000) seed=%d; checks: roundtrip (+1 zero byte iff native length odd), even length, header count/offsets, unused offsets zero, independent Annex G reader reassembles the frame MSB-plane-first", nRandom, seed))
}

// A second, smaller frame-level test with several frames per pixel-data object, to cover the
// frame loop of Codec.Encode / Codec.Decode.
func TestVerif_C01_MultiFrame(t *testing.T) {
	rep := verifC01NewReport("TestVerif_C01_MultiFrame")
	seed := verifC01Seed()
	rng := rand.New(rand.NewSource(seed + 1000))

	one := func(c verifC01Cfg, nFrames int) (msg string) {
		defer func() {
			if p := recover(); p != nil {
				msg = fmt.Sprintf("why=panic panic=%q", fmt.Sprint(p))
			}
		}()
		cd := NewRLECodec()
		info := c.info()
		src := &verifC01PixelData{info: info}
		var origs [][]byte
		for f := 0; f < nFrames; f++ {
			n := verifC01MakeContent(c, verifC01Contents[(f*5+c.w)%len(verifC01Contents)], rng)
			origs = append(origs, append([]byte(nil), n...))
			_ = src.AddFrame(n)
		}
		encPD := &verifC01PixelData{info: info, encaps: true}
		if err := cd.Encode(src, encPD, nil); err != nil {
			return fmt.Sprintf("why=Encode_error err=%q", err.Error())
		}
		decPD := &verifC01PixelData{info: info}
		if err := cd.Decode(encPD, decPD, nil); err != nil {
			return fmt.Sprintf("why=Decode_error err=%q", err.Error())
		}
		if encPD.FrameCount() != nFrames || decPD.FrameCount() != nFrames {
			return fmt.Sprintf("why=frame_count enc=%d dec=%d want=%d", encPD.FrameCount(), decPD.FrameCount(), nFrames)
		}
		for f := 0; f < nFrames; f++ {
			offs, hmsg := verifC01Header(encPD.frames[f], c.planes(), true)
			if hmsg != "" {
				return fmt.Sprintf("frame=%d %s", f, hmsg)
			}
			fr, _, rmsg := verifC01Reassemble(c, encPD.frames[f], offs)
			if rmsg != "" {
				return fmt.Sprintf("frame=%d %s", f, rmsg)
			}
			if d := verifC01FirstDiff(fr, origs[f]); d >= 0 {
				return fmt.Sprintf("frame=%d why=independent_reader_frame_mismatch at=%d", f, d)
			}
			want := origs[f]
			if len(want)%2 == 1 {
				want = append(append([]byte(nil), want...), 0)
			}
			if d := verifC01FirstDiff(decPD.frames[f], want); d >= 0 {
				return fmt.Sprintf("frame=%d why=roundtrip_mismatch at=%d gotlen=%d wantlen=%d", f, d, len(decPD.frames[f]), len(want))
			}
		}
		return ""
	}

	for _, bits := range []int{8, 16, 32} {
		for _, spp := range []int{1, 3} {
			for _, planar := range []int{0, 1} {
				for _, sz := range [][2]int{{1, 1}, {3, 3}, {5, 7}, {16, 16}, {131, 3}} {
					for _, nf := range []int{2, 5} {
						c := verifC01Cfg{bits: bits, spp: spp, planar: planar, w: sz[0], h: sz[1]}
						msg := one(c, nf)
						if msg != "" {
							rep.record(fmt.Sprintf("%s frames=%d seed=%d", c, nf, seed), msg)
						} else {
							rep.record("", "")
						}
					}
				}
			}
		}
	}
	rep.done(t, fmt.Sprintf("Codec.Encode/Decode on 2- and 5-frame pixel data, BitsAllocated {8,16,32} x SamplesPerPixel {1,3} x PlanarConfiguration {0,1} x WxH {1x1,3x3,5x7,16x16,131x3}, contents cycling through the grid generators, seed=%d; per frame same checks as FrameRoundTripGrid", seed))
}
