// Bounded stand-ins for properties C08 (no panic on any input) and C09 (time / memory budget).
// Injected into package rle by `go test -overlay`; never copied into /repo. See ../README.md (or ../../README.md).

package rle

import (
	"encoding/binary"
	"fmt"
	"math/rand"
	"os"
	"regexp"
	"runtime"
	"runtime/debug"
	"runtime/metrics"
	"sort"
	"strconv"
	"strings"
	"sync/atomic"
	"syscall"
	"testing"
	"time"

	codecHelpers "github.com/cocosip/go-dicom-codecs/codec"
	"github.com/cocosip/go-dicom/pkg/imaging/imagetypes"
)

// ---------------------------------------------------------------------------------------------
// Shared harness for the C08 / C09 bounded stand-ins. In-package overlay tests cannot share a helper
// package, so this block is duplicated verbatim in every verif_c08_test.go (identifiers are prefixed
// verifC08 to stay clear of the package's own tests and of other bounded stand-ins).
// ---------------------------------------------------------------------------------------------

const verifC08MaxS = int64(1) << 22 // C09 quantifier: declared samples <= 2^22

// verifC08QuickMaxS is the declared-size cap applied to the generic mutations in the quick tier (handcrafted
// "special" cases and the thorough tier always use verifC08MaxS). The JPEG 2000 packages lower it because
// every decode of a stream that declares 2^22 samples allocates and clears 16 MiB per component.
var verifC08QuickMaxS = verifC08MaxS

// verifC08SecondaryOnOK: run the secondary entry points on every case the primary one accepted (default).
// Packages whose decode is expensive switch it off in the quick tier (panicking and every 8th case remain).
var verifC08SecondaryOnOK = true

func verifC08Cap(c *verifC08Case) int64 {
	if c.kind == "special" || verifC08Tier() == "thorough" {
		return verifC08MaxS
	}
	return verifC08QuickMaxS
}

func verifC08Tier() string {
	if os.Getenv("VERIF_TIER") == "thorough" {
		return "thorough"
	}
	return "quick"
}

func verifC08Seed() int64 {
	if s, err := strconv.ParseInt(os.Getenv("VERIF_SEED"), 10, 64); err == nil {
		return s
	}
	return 20260923
}

// verifC08Base is one valid stream produced by the package's own encoder.
type verifC08Base struct {
	name string
	data []byte
	// light marks a stream that is expensive to decode. quick tier: only unchanged / every 4th truncation /
	// segment mutations, no byte and word substitution; thorough tier: the 15 value list instead of all 256.
	light bool
}

// verifC08Case is one input handed to a decoder plus the recipe that produced it.
type verifC08Case struct {
	base string // description of the base stream (geometry / parameters) or of the random prefix
	kind string // valid | trunc | byte | word | segdrop | segdup | segswap | segfirst | rand | special
	off  int
	val  int
	data []byte
}

func (c *verifC08Case) key() string {
	return fmt.Sprintf("%s|%s|%d|%d", c.base, c.kind, c.off, c.val)
}

func (c *verifC08Case) String() string {
	s := fmt.Sprintf("base=%q mut=%s off=%d val=0x%x len=%d", c.base, c.kind, c.off, c.val, len(c.data))
	if len(c.data) <= 64 {
		s += fmt.Sprintf(" hex=%x", c.data)
	}
	return s
}

var verifC08ByteVals = []int{0, 1, 2, 3, 4, 15, 16, 17, 63, 64, 127, 128, 200, 254, 255}
var verifC08WordVals = []int{0, 1, 0x7fff, 0x8000, 0xffff}

// verifC08Enumerate produces the finite input domain shared by C08 and C09:
//
//	valid    every base stream unchanged
//	trunc    every proper prefix of every base (bases > 4 KiB: first 1024 offsets, then a stride)
//	byte     single byte substitution at each of the first N bytes (quick N=300, thorough N=1500)
//	         with values verifC08ByteVals (thorough: all 256; "light" streams see verifC08Base)
//	word     big-endian 16 bit substitution with verifC08WordVals at every offset of the first W
//	         bytes (quick W=120, thorough W=N)
//	seg*     marker segment dropped / duplicated / swapped with its successor / moved to the front
//	rand     seeded random strings behind each valid start-of-image prefix
//
// fn returns false to stop the enumeration.
func verifC08Enumerate(bases, prefixes []verifC08Base, markers []byte, segs func([]byte) [][2]int,
	tier string, seed int64, fn func(c *verifC08Case) bool) {
	nByte, nWord, nRand, allVals := 300, 120, 400, false
	if tier == "thorough" {
		nByte, nWord, nRand, allVals = 1500, 1500, 6000, true
	}
	clone := func(b []byte) []byte { return append(make([]byte, 0, len(b)), b...) }
	for _, b := range bases {
		if !fn(&verifC08Case{base: b.name, kind: "valid", data: clone(b.data)}) {
			return
		}
	}
	for _, b := range bases {
		n := len(b.data)
		for off := 0; off < n; {
			// exact-capacity copy: an over-read past the truncation point must fault, not read the tail
			if !fn(&verifC08Case{base: b.name, kind: "trunc", off: off, data: clone(b.data[:off])}) {
				return
			}
			if n > 4096 && off >= 1024 {
				off += 1 + n/1024
			} else if b.light && tier != "thorough" {
				off += 4 // quick tier, light base: every 4th truncation point
			} else {
				off++
			}
		}
	}
	for _, b := range bases {
		if b.light && tier != "thorough" {
			continue
		}
		n := len(b.data)
		lim := nByte
		if lim > n {
			lim = n
		}
		for off := 0; off < lim; off++ {
			if allVals && !b.light {
				for v := 0; v < 256; v++ {
					if byte(v) == b.data[off] {
						continue
					}
					d := clone(b.data)
					d[off] = byte(v)
					if !fn(&verifC08Case{base: b.name, kind: "byte", off: off, val: v, data: d}) {
						return
					}
				}
				continue
			}
			for _, v := range verifC08ByteVals {
				if byte(v) == b.data[off] {
					continue
				}
				d := clone(b.data)
				d[off] = byte(v)
				if !fn(&verifC08Case{base: b.name, kind: "byte", off: off, val: v, data: d}) {
					return
				}
			}
		}
	}
	for _, b := range bases {
		if b.light && tier != "thorough" {
			continue
		}
		n := len(b.data)
		lim := nWord
		if lim > n-1 {
			lim = n - 1
		}
		for off := 0; off < lim; off++ {
			for _, v := range verifC08WordVals {
				if b.data[off] == byte(v>>8) && b.data[off+1] == byte(v) {
					continue
				}
				d := clone(b.data)
				d[off], d[off+1] = byte(v>>8), byte(v)
				if !fn(&verifC08Case{base: b.name, kind: "word", off: off, val: v, data: d}) {
					return
				}
			}
		}
	}
	if segs != nil {
		for _, b := range bases {
			sp := segs(b.data)
			for i, s := range sp {
				seg := b.data[s[0]:s[1]]
				// drop
				d := append(clone(b.data[:s[0]]), b.data[s[1]:]...)
				if !fn(&verifC08Case{base: b.name, kind: "segdrop", off: s[0], val: i, data: d}) {
					return
				}
				// duplicate
				d = append(clone(b.data[:s[1]]), seg...)
				d = append(d, b.data[s[1]:]...)
				if !fn(&verifC08Case{base: b.name, kind: "segdup", off: s[0], val: i, data: d}) {
					return
				}
				// move to the front (right after the 2-byte start marker)
				if i > 0 && sp[0][0] <= s[0] {
					d = append(clone(b.data[:sp[0][0]]), seg...)
					d = append(d, b.data[sp[0][0]:s[0]]...)
					d = append(d, b.data[s[1]:]...)
					if !fn(&verifC08Case{base: b.name, kind: "segfirst", off: s[0], val: i, data: d}) {
						return
					}
				}
				// swap with successor
				if i+1 < len(sp) && sp[i+1][0] == s[1] {
					nx := b.data[sp[i+1][0]:sp[i+1][1]]
					d = append(clone(b.data[:s[0]]), nx...)
					d = append(d, seg...)
					d = append(d, b.data[sp[i+1][1]:]...)
					if !fn(&verifC08Case{base: b.name, kind: "segswap", off: s[0], val: i, data: d}) {
						return
					}
				}
			}
		}
	}
	rng := rand.New(rand.NewSource(seed))
	for _, p := range prefixes {
		for i := 0; i < nRand; i++ {
			n := rng.Intn(200)
			if i%16 == 15 {
				n = rng.Intn(3000)
			}
			d := clone(p.data)
			structured := i%2 == 1
			for len(d) < len(p.data)+n {
				if structured && len(markers) > 0 && rng.Intn(6) == 0 {
					// a marker followed by a short, often self-consistent length field
					d = append(d, 0xFF, markers[rng.Intn(len(markers))])
					if rng.Intn(3) > 0 {
						l := rng.Intn(40)
						d = append(d, byte(l>>8), byte(l))
					}
					continue
				}
				switch rng.Intn(8) {
				case 0:
					d = append(d, 0)
				case 1:
					d = append(d, 0xFF)
				case 2:
					d = append(d, byte(rng.Intn(20)))
				default:
					d = append(d, byte(rng.Intn(256)))
				}
			}
			if !fn(&verifC08Case{base: p.name, kind: "rand", off: i, val: int(seed & 0x7fffffff), data: clone(d)}) {
				return
			}
		}
	}
}

// verifC08Excl marks a recipe that cannot be executed inside the test process because the decode under test
// does not come back in time or exhausts memory (the run that discovered it was stopped by guard()).
// Every entry is a recorded C09 violation; c08 is set when it is a C08 violation as well.
type verifC08Excl struct {
	why string
	c08 bool
}

// verifC08ProcCPU returns the CPU time (user+system) consumed so far by this test process.
func verifC08ProcCPU() time.Duration {
	var ru syscall.Rusage
	if err := syscall.Getrusage(syscall.RUSAGE_SELF, &ru); err != nil {
		return 0
	}
	return time.Duration(ru.Utime.Nano() + ru.Stime.Nano())
}

// verifC08Effective discounts scheduler contention on a shared machine: the time charged to a decode is the
// smaller of its wall time and of the CPU time the process consumed meanwhile (the decoders never sleep; the
// garbage collector's helper threads make the CPU figure the larger one on an idle machine).
func verifC08Effective(wall, cpu time.Duration) time.Duration {
	if cpu > 0 && cpu < wall {
		return cpu
	}
	return wall
}

// verifC08Decoder is one decoding entry point. ok reports "returned a result, not an error".
type verifC08Decoder struct {
	name string
	fn   func(data []byte) (ok bool)
}

type verifC08Site struct {
	msg, frame, first string
	count             int
}

type verifC08Runner struct {
	test, pkg       string
	cases, skipped  int
	fails           int
	sites           map[string]*verifC08Site
	order           []string
	extra           []string // other failure lines (timeouts, memory budget, excluded recipes)
	cur             atomic.Pointer[verifC08Case]
	curDec          atomic.Pointer[string]
	curStart        atomic.Int64
	curCPU          atomic.Int64
	stop            chan struct{}
	maxDur          time.Duration
	maxDurCase      string
	maxAlloc        uint64
	maxAllocCase    string
	maxAllocS       int64
	domain          string
	caseLimit       time.Duration
	memAbort        uint64
	finishedSummary atomic.Bool
}

func verifC08NewRunner(test, pkg string, caseLimit time.Duration) *verifC08Runner {
	r := &verifC08Runner{test: test, pkg: pkg, sites: map[string]*verifC08Site{}, stop: make(chan struct{}),
		caseLimit: caseLimit, memAbort: 6 << 30}
	return r
}

var verifC08Digits = regexp.MustCompile(`[0-9]+`)

// verifC08TopFrame returns "func file:line" of the first frame under /repo that is not this test.
func verifC08TopFrame(stack string) string {
	lines := strings.Split(stack, "\n")
	for i := 1; i < len(lines); i++ {
		l := strings.TrimSpace(lines[i])
		if !strings.HasPrefix(l, "/repo/") || strings.Contains(l, "zz_verif") || strings.Contains(l, "verif_c08") {
			continue
		}
		if j := strings.Index(l, " +0x"); j > 0 {
			l = l[:j]
		}
		fn := strings.TrimSpace(lines[i-1])
		if j := strings.LastIndex(fn, "("); j > 0 {
			fn = fn[:j]
		}
		if j := strings.LastIndex(fn, "/"); j >= 0 {
			fn = fn[j+1:]
		}
		return fn + " " + l
	}
	return "?"
}

// call runs one decoder on one input under recover().
func (r *verifC08Runner) call(dec *verifC08Decoder, c *verifC08Case) (ok, panicked bool) {
	r.cur.Store(c)
	r.curDec.Store(&dec.name)
	r.curCPU.Store(int64(verifC08ProcCPU()))
	r.curStart.Store(time.Now().UnixNano())
	defer func() {
		r.curStart.Store(0)
		if p := recover(); p != nil {
			panicked = true
			msg := fmt.Sprint(p)
			frame := verifC08TopFrame(string(debug.Stack()))
			k := verifC08Digits.ReplaceAllString(msg, "N") + " @ " + frame
			s := r.sites[k]
			if s == nil {
				s = &verifC08Site{msg: msg, frame: frame, first: "entry=" + dec.name + " " + c.String()}
				r.sites[k] = s
				r.order = append(r.order, k)
			}
			s.count++
		}
	}()
	ok = dec.fn(c.data)
	return
}

// guard watches the running case from a second goroutine: a decode that exceeds caseLimit (effective time, see
// verifC08Effective; 6 x caseLimit wall time in any case) or a heap that
// exceeds memAbort cannot be interrupted, so the guard reports the case and ends the test process.
func (r *verifC08Runner) guard() {
	sample := []metrics.Sample{{Name: "/memory/classes/heap/objects:bytes"}}
	tick := time.NewTicker(20 * time.Millisecond)
	defer tick.Stop()
	for {
		select {
		case <-r.stop:
			return
		case <-tick.C:
		}
		st := r.curStart.Load()
		c := r.cur.Load()
		if st == 0 || c == nil {
			continue
		}
		metrics.Read(sample)
		heap := sample[0].Value.Uint64()
		el := time.Duration(time.Now().UnixNano() - st)
		cpu := verifC08ProcCPU() - time.Duration(r.curCPU.Load())
		why := ""
		if eff := verifC08Effective(el, cpu); eff > r.caseLimit || el > 6*r.caseLimit {
			why = fmt.Sprintf("kind=timeout wall=%s process_cpu=%s limit=%s", el.Round(time.Millisecond), cpu.Round(time.Millisecond), r.caseLimit)
		} else if heap > r.memAbort {
			why = fmt.Sprintf("kind=mem-abort live_heap=%d limit=%d", heap, r.memAbort)
		}
		if why == "" || r.curStart.Load() != st {
			continue
		}
		dn := ""
		if p := r.curDec.Load(); p != nil {
			dn = *p
		}
		fmt.Printf("BOUNDED-FAIL name=%s pkg=%s %s entry=%s %s (process stopped: the decode cannot be interrupted)\n",
			r.test, r.pkg, why, dn, c.String())
		fmt.Printf("BOUNDED name=%s cases=%d fails=%d domain=\"ABORTED after %d cases by the case above; %s\"\n",
			r.test, r.cases, r.fails+1, r.cases, r.domain)
		os.Exit(1)
	}
}

// peakLive re-runs one case and samples the heap (live + not yet swept objects, GOGC=25 so at most 1.25 x live)
// every 0.5 ms; it returns the growth of the maximum sample over the level before the call.
func (r *verifC08Runner) peakLive(dec *verifC08Decoder, c *verifC08Case) uint64 {
	runtime.GC()
	old := debug.SetGCPercent(25)
	defer debug.SetGCPercent(old)
	read := func() uint64 {
		s := []metrics.Sample{{Name: "/memory/classes/heap/objects:bytes"}}
		metrics.Read(s)
		return s[0].Value.Uint64()
	}
	base := read()
	var peak atomic.Uint64
	done, fin := make(chan struct{}), make(chan struct{})
	go func() {
		defer close(fin)
		tick := time.NewTicker(500 * time.Microsecond)
		defer tick.Stop()
		for {
			select {
			case <-done:
				return
			case <-tick.C:
				if v := read(); v > peak.Load() {
					peak.Store(v)
				}
			}
		}
	}()
	r.call(dec, c)
	close(done)
	<-fin
	if p := peak.Load(); p > base {
		return p - base
	}
	return 0
}

func (r *verifC08Runner) finish(t *testing.T) {
	close(r.stop)
	r.cur.Store(nil)
	keys := append([]string(nil), r.order...)
	sort.SliceStable(keys, func(i, j int) bool { return r.sites[keys[i]].count > r.sites[keys[j]].count })
	printed := 0
	for _, k := range keys {
		s := r.sites[k]
		if printed < 5 {
			fmt.Printf("BOUNDED-FAIL name=%s pkg=%s kind=panic site=%q panic=%q hits=%d %s\n", r.test, r.pkg, s.frame, s.msg, s.count, s.first)
			printed++
		}
	}
	for _, e := range r.extra {
		if printed < 5 {
			fmt.Printf("BOUNDED-FAIL name=%s pkg=%s %s\n", r.test, r.pkg, e)
			printed++
		}
	}
	// complete list (informational; not part of the BOUNDED protocol)
	for i, k := range keys {
		s := r.sites[k]
		fmt.Printf("VERIF-C08-SITE name=%s pkg=%s n=%d/%d site=%q panic=%q hits=%d %s\n", r.test, r.pkg, i+1, len(keys), s.frame, s.msg, s.count, s.first)
	}
	for _, e := range r.extra {
		fmt.Printf("VERIF-C08-EXTRA name=%s pkg=%s %s\n", r.test, r.pkg, e)
	}
	fmt.Printf("BOUNDED name=%s cases=%d fails=%d domain=\"%s\"\n", r.test, r.cases, r.fails, r.domain)
	if r.fails > 0 {
		t.Fail()
	}
}

// verifC08RunC08 executes the C08 statement: every entry point returns (result or error) without panicking.
// decs[0] is the package level entry point and sees every case; the remaining entry points (thin DICOM codec
// wrappers around decs[0]) see the cases decs[0] accepted, the cases it panicked on, and every 8th other case.
func verifC08RunC08(t *testing.T, pkg string, decs []verifC08Decoder, declared func([]byte) (int64, bool, int64),
	excluded map[string]verifC08Excl, enumerate func(fn func(c *verifC08Case) bool), domain string) {
	r := verifC08NewRunner(t.Name(), pkg, 30*time.Second)
	r.domain = domain
	old := debug.SetMemoryLimit(3 << 30)
	defer debug.SetMemoryLimit(old)
	go r.guard()
	start := time.Now()
	var kindTime map[string]time.Duration
	var kindN map[string]int
	if os.Getenv("VERIF_C08_DEBUG") != "" {
		kindTime, kindN = map[string]time.Duration{}, map[string]int{}
		defer func() {
			for k, v := range kindTime {
				fmt.Printf("VERIF-C08-DEBUG secs=%.3f n=%d key=%s\n", v.Seconds(), kindN[k], k)
			}
		}()
	}
	enumerate(func(c *verifC08Case) bool {
		if e, ex := excluded[c.key()]; ex && os.Getenv("VERIF_RUN_EXCLUDED") == "" {
			if !e.c08 {
				r.skipped++ // a C09 violation (too slow / too much memory), not a panic: see TestVerif_C09
				return true
			}
			r.cases++
			r.fails++
			r.extra = append(r.extra, fmt.Sprintf("kind=excluded-known-abort why=%q %s", e.why, c.String()))
			return true
		}
		if _, _, g := declared(c.data); g > verifC08Cap(c) {
			r.skipped++
			return true
		}
		r.cases++
		tCase := time.Now()
		defer func() {
			if kindTime != nil {
				el := time.Since(tCase)
				kindTime[c.kind] += el
				kindTime["base:"+c.base] += el
				kindN[c.kind]++
				kindN["base:"+c.base]++
				if el > 500*time.Millisecond {
					fmt.Printf("VERIF-C08-SLOW %s %s\n", el, c.String())
				}
			}
		}()
		failed, primOK := false, false
		for i := range decs {
			if i > 0 && !((primOK && verifC08SecondaryOnOK) || failed || r.cases%8 == 0) {
				continue
			}
			ok, p := r.call(&decs[i], c)
			if i == 0 {
				primOK = ok && !p
			}
			if p {
				failed = true
			}
		}
		if failed {
			r.fails++
		}
		return true
	})
	r.domain = fmt.Sprintf("%s; executed=%d skipped_declared_gt_cap=%d; elapsed=%s", domain, r.cases, r.skipped, time.Since(start).Round(time.Millisecond))
	r.finish(t)
}

// verifC08RunC09 executes the C09 statement on a sample of the same domain: each decode returns within 10 s
// and allocates (runtime.MemStats.TotalAlloc delta, an upper bound of the peak heap growth of the call;
// an exceedance is confirmed by peakLive before it counts) at most 512 MiB + 64*S bytes where S is the sample count declared by the first frame header (0 if none).
func verifC08RunC09(t *testing.T, pkg string, decs []verifC08Decoder, declared func([]byte) (int64, bool, int64),
	excluded map[string]verifC08Excl, enumerate func(fn func(c *verifC08Case) bool), every int, domain string) {
	r := verifC08NewRunner(t.Name(), pkg, 10*time.Second)
	r.domain = domain
	old := debug.SetMemoryLimit(3 << 30)
	defer debug.SetMemoryLimit(old)
	go r.guard()
	start := time.Now()
	seq := 0
	var m0, m1 runtime.MemStats
	var notes []string
	baseS := map[string]int64{}
	enumerate(func(c *verifC08Case) bool {
		seq++
		s, _, g := declared(c.data)
		if c.kind == "valid" {
			baseS[c.base] = s
		}
		if e, ex := excluded[c.key()]; ex && os.Getenv("VERIF_RUN_EXCLUDED") == "" {
			r.cases++
			r.fails++
			r.extra = append(r.extra, fmt.Sprintf("kind=excluded-known-abort declaredS=%d why=%q %s", s, e.why, c.String()))
			return true
		}
		if g > verifC08Cap(c) {
			r.skipped++
			return true
		}
		// sample: every case whose declared size differs from its base stream's, plus every n-th other case
		if bs, has := baseS[c.base]; !(c.kind == "valid" || c.kind == "special" || (has && bs != s) || seq%every == 0) {
			return true
		}
		if s < 0 {
			s = 0
		}
		budget := uint64(512<<20) + 64*uint64(s)
		r.cases++
		bad := false
		for i := range decs {
			if i > 0 && r.cases%4 != 0 {
				continue
			}
			runtime.ReadMemStats(&m0)
			t0, c0 := time.Now(), verifC08ProcCPU()
			r.call(&decs[i], c)
			el := verifC08Effective(time.Since(t0), verifC08ProcCPU()-c0)
			runtime.ReadMemStats(&m1)
			alloc := m1.TotalAlloc - m0.TotalAlloc
			if el > r.maxDur {
				r.maxDur, r.maxDurCase = el, c.String()
			}
			if alloc > r.maxAlloc {
				r.maxAlloc, r.maxAllocCase, r.maxAllocS = alloc, c.String(), s
			}
			if el > 10*time.Second {
				bad = true
				r.extra = append(r.extra, fmt.Sprintf("kind=time elapsed=%s limit=10s declaredS=%d entry=%s %s", el, s, decs[i].name, c.String()))
			}
			if alloc > budget {
				// TotalAlloc counts every allocation of the call, freed or not; confirm with a direct measurement
				peak := r.peakLive(&decs[i], c)
				if peak > budget {
					bad = true
					r.extra = append(r.extra, fmt.Sprintf("kind=alloc totalalloc_delta=%d sampled_peak_heap=%d budget=%d declaredS=%d entry=%s %s", alloc, peak, budget, s, decs[i].name, c.String()))
				} else {
					notes = append(notes, fmt.Sprintf("VERIF-C09-NOTE name=%s proxy-only exceedance (not counted): totalalloc_delta=%d > budget=%d but sampled_peak_heap=%d declaredS=%d entry=%s %s", r.test, alloc, budget, peak, s, decs[i].name, c.String()))
				}
			}
		}
		if bad {
			r.fails++
		}
		return true
	})
	// panics are C08's business: they are recorded by call() but do not count as C09 failures
	r.sites, r.order = map[string]*verifC08Site{}, nil
	r.domain = fmt.Sprintf("%s; executed=%d skipped_declared_gt_cap=%d; max_time=%s max_totalalloc=%d (declaredS=%d); elapsed=%s",
		domain, r.cases, r.skipped, r.maxDur.Round(time.Microsecond), r.maxAlloc, r.maxAllocS, time.Since(start).Round(time.Millisecond))
	for _, n := range notes {
		fmt.Println(n)
	}
	fmt.Printf("VERIF-C09-MAX name=%s slowest=%s case={%s} largest_alloc=%d case={%s}\n", t.Name(), r.maxDur, r.maxDurCase, r.maxAlloc, r.maxAllocCase)
	r.finish(t)
}

const verifC08Pkg = "rle"

// The RLE stream has no frame header of its own: the declared size is the FrameInfo handed to the codec.
var verifC08CurInfo *imagetypes.FrameInfo

func verifC08Declared(_ []byte) (int64, bool, int64) {
	if verifC08CurInfo == nil {
		return 0, false, 0
	}
	s := int64(verifC08CurInfo.Width) * int64(verifC08CurInfo.Height) * int64(verifC08CurInfo.SamplesPerPixel)
	return s, true, s
}

func verifC08InfoString(i *imagetypes.FrameInfo) string {
	if i == nil {
		return "FrameInfo=nil"
	}
	return fmt.Sprintf("FrameInfo{Rows=%d Cols=%d BitsAllocated=%d SamplesPerPixel=%d Planar=%d}", i.Height, i.Width, i.BitsAllocated, i.SamplesPerPixel, i.PlanarConfiguration)
}

type verifC08RLEBase struct {
	info imagetypes.FrameInfo
	verifC08Base
}

func verifC08RLEPixels(n int, seed int64) []byte {
	rng := rand.New(rand.NewSource(seed))
	out := make([]byte, n)
	for i := range out {
		switch (i / 7) % 3 {
		case 0:
			out[i] = byte(rng.Intn(256))
		case 1:
			out[i] = 0x55
		default:
			out[i] = byte(i)
		}
	}
	return out
}

func verifC08Bases(t *testing.T) []verifC08RLEBase {
	var out []verifC08RLEBase
	c := NewRLECodec()
	for _, g := range [][2]int{{1, 1}, {8, 8}, {17, 5}} {
		for _, cfg := range [][3]int{{8, 1, 0}, {16, 1, 0}, {8, 3, 0}, {8, 3, 1}, {16, 3, 1}, {32, 1, 0}} {
			if g[0] != 17 && (cfg[0] == 32 || (cfg[0] == 16 && cfg[1] == 3)) {
				continue
			}
			info := imagetypes.FrameInfo{Width: uint16(g[0]), Height: uint16(g[1]), BitsAllocated: uint16(cfg[0]), BitsStored: uint16(cfg[0]), HighBit: uint16(cfg[0] - 1),
				SamplesPerPixel: uint16(cfg[1]), PlanarConfiguration: uint16(cfg[2]), PhotometricInterpretation: "MONOCHROME2"}
			if cfg[1] == 3 {
				info.PhotometricInterpretation = "RGB"
			}
			src := verifC08RLEPixels(g[0]*g[1]*cfg[1]*cfg[0]/8, 11)
			var dst []byte
			name := "rle.encodeFrame " + verifC08InfoString(&info)
			func() {
				defer func() {
					if p := recover(); p != nil {
						t.Logf("encoder panicked for %s: %v", name, p)
					}
				}()
				if err := c.encodeFrame(src, &dst, &info, nil); err != nil {
					t.Logf("encoder refused %s: %v", name, err)
					return
				}
				out = append(out, verifC08RLEBase{info: info, verifC08Base: verifC08Base{name: name, data: dst}})
			}()
		}
	}
	return out
}

func verifC08Decoders() []verifC08Decoder {
	c := NewRLECodec()
	return []verifC08Decoder{
		{name: "(*rle.Codec).decodeFrame", fn: func(d []byte) bool {
			var dst []byte
			return c.decodeFrame(d, &dst, verifC08CurInfo, nil) == nil
		}},
		{name: "(*rle.Codec).Decode", fn: func(d []byte) bool {
			src, dst := codecHelpers.NewTestPixelData(verifC08CurInfo), codecHelpers.NewTestPixelData(verifC08CurInfo)
			_ = src.AddFrame(d)
			return c.Decode(src, dst, nil) == nil
		}},
	}
}

// verifC08Excluded lists recipes (verifC08Case.key) that abort the whole test process (out of memory, or a
// decode that does not return within the watchdog limit); each one is a recorded violation and is not executed
// so that the remaining domain can run. Set VERIF_RUN_EXCLUDED=1 to execute them anyway.
var verifC08Excluded = map[string]verifC08Excl{}

var verifC08U32Vals = []uint32{0, 1, 2, 15, 16, 63, 64, 65, 0x7fffffff, 0x80000000, 0xfffffffe, 0xffffffff}

func verifC08Setup(t *testing.T) (decs []verifC08Decoder, enumerate func(fn func(c *verifC08Case) bool), domain string) {
	bases := verifC08Bases(t)
	if len(bases) == 0 {
		t.Fatalf("no base streams")
	}
	tier, seed := verifC08Tier(), verifC08Seed()
	// FrameInfo sweep values
	bitsVals := []uint16{0, 1, 7, 8, 9, 16, 17, 24, 32, 64, 120, 121, 65535}
	sppVals := []uint16{0, 1, 2, 3, 4, 15, 16, 65535}
	planarVals := []uint16{0, 1, 2}
	enumerate = func(fn func(c *verifC08Case) bool) {
		stopped := false
		wrap := func(c *verifC08Case) bool {
			if !fn(c) {
				stopped = true
				return false
			}
			return true
		}
		// 1. stream mutations under the matching FrameInfo
		for bi := range bases {
			b := &bases[bi]
			info := b.info
			verifC08CurInfo = &info
			hdr := b.data
			if len(hdr) > 64 {
				hdr = hdr[:64]
			}
			verifC08Enumerate([]verifC08Base{b.verifC08Base}, []verifC08Base{
				{name: "prefix=64-byte segment header of " + b.name, data: hdr},
				{name: "prefix=none (pure random) with " + verifC08InfoString(&info)},
			}, nil, nil, tier, seed+int64(bi), wrap)
			if stopped {
				return
			}
			// little-endian uint32 substitution in each of the 16 header fields
			for f := 0; f < 16 && 4*f+4 <= len(b.data); f++ {
				vals := append([]uint32(nil), verifC08U32Vals...)
				vals = append(vals, uint32(len(b.data)-1), uint32(len(b.data)), uint32(len(b.data)+1))
				for _, v := range vals {
					d := append([]byte(nil), b.data...)
					binary.LittleEndian.PutUint32(d[4*f:], v)
					if !wrap(&verifC08Case{base: b.name, kind: "u32le", off: 4 * f, val: int(v), data: d}) {
						return
					}
				}
			}
		}
		// 2. FrameInfo sweep (incl. 0 and mismatching values) against valid and corrupted segment headers
		for bi := range bases {
			b := &bases[bi]
			if tier != "thorough" && !(bi == 9 || bi == 10) {
				continue
			}
			streams := []verifC08Base{{name: "valid", data: b.data}}
			for _, m := range [][2]uint32{{0, 0}, {0, 15}, {0, 16}, {0, 2}, {1, 0}, {1, 0xffffffff}, {1, uint32(len(b.data))}, {2, 0}, {2, 10}, {15, 0xffffffff}} {
				d := append([]byte(nil), b.data...)
				binary.LittleEndian.PutUint32(d[4*m[0]:], m[1])
				streams = append(streams, verifC08Base{name: fmt.Sprintf("hdr[u32 #%d]=%d", m[0], m[1]), data: d})
			}
			streams = append(streams, verifC08Base{name: "trunc64", data: b.data[:64]}, verifC08Base{name: "trunc63", data: b.data[:63]}, verifC08Base{name: "empty", data: nil})
			w, h := b.info.Width, b.info.Height
			dims := []uint16{0, 1, w, h, w + 1, 2048}
			n := 0
			for _, rows := range dims {
				for _, cols := range dims {
					for _, bits := range bitsVals {
						for _, spp := range sppVals {
							for _, pl := range planarVals {
								info := imagetypes.FrameInfo{Width: cols, Height: rows, BitsAllocated: bits, BitsStored: bits, SamplesPerPixel: spp, PlanarConfiguration: pl}
								verifC08CurInfo = &info
								for _, s := range streams {
									n++
									if !wrap(&verifC08Case{base: b.name + " stream=" + s.name + " decoded with " + verifC08InfoString(&info), kind: "sweep", off: n, data: append([]byte(nil), s.data...)}) {
										return
									}
								}
							}
						}
					}
				}
			}
		}
		// 3. nil FrameInfo
		verifC08CurInfo = nil
		wrap(&verifC08Case{base: bases[0].name + " decoded with FrameInfo=nil", kind: "special", data: append([]byte(nil), bases[0].data...)})
	}
	nb, r := 300, 400
	if tier == "thorough" {
		nb, r = 1500, 6000
	}
	domain = fmt.Sprintf("tier=%s seed=%d; %d valid frames from (*Codec).encodeFrame (1x1,8x8,17x5 x {8b/1spp, 16b/1spp, 8b/3spp planar0, 8b/3spp planar1; 17x5 also 16b/3spp planar1, 32b/1spp}); under the matching FrameInfo: unchanged, every truncation, byte substitution at first %d bytes, 16-bit substitution at first offsets, little-endian uint32 substitution (15 values incl. len-1,len,len+1) in each of the 16 header fields, %d random bodies behind the valid 64-byte header and %d pure random strings per frame; FrameInfo sweep Rows,Cols in {0,1,w,h,w+1,2048} x BitsAllocated {0,1,7,8,9,16,17,24,32,64,120,121,65535} x SamplesPerPixel {0,1,2,3,4,15,16,65535} x Planar {0,1,2} against the valid stream, 10 corrupted segment headers, 64/63-byte truncations and the empty stream (quick: 2 of the frames: 17x5 16b/1spp and 17x5 8b/3spp planar0); FrameInfo=nil; cases with Rows*Cols*SamplesPerPixel > 2^22 skipped",
		tier, seed, len(bases), nb, r, r)
	return verifC08Decoders(), enumerate, domain
}

func TestVerif_C08_rle(t *testing.T) {
	decs, enumerate, domain := verifC08Setup(t)
	verifC08RunC08(t, verifC08Pkg, decs, verifC08Declared, verifC08Excluded, enumerate,
		"C08 no-panic, entries (*Codec).decodeFrame (all cases) and (*Codec).Decode (accepted, panicking and every 8th case); "+domain)
}

func TestVerif_C09_rle(t *testing.T) {
	decs, enumerate, domain := verifC08Setup(t)
	every := 8
	if verifC08Tier() == "thorough" {
		every = 4
	}
	verifC08RunC09(t, verifC08Pkg, decs, verifC08Declared, verifC08Excluded, enumerate, every,
		fmt.Sprintf("C09 per decode: time <= 10 s (min of wall time and process CPU time of the call, to discount contention on a shared machine; hard stop at 60 s wall) and TotalAlloc delta (upper bound proxy for peak heap; an exceedance counts only if a 0.5 ms heap sampling re-run confirms it) <= 512MiB+64*S, S = Rows*Cols*SamplesPerPixel of the FrameInfo (the RLE stream declares no size itself); sample = every %d-th case of: ", every)+domain)
}
