package main

// C17: an encoder called with arguments it cannot represent or satisfy returns an error; it never
// panics; whenever it returns a stream, decoding that stream yields exactly the requested geometry.

import (
	"fmt"
	"math"
	"testing"
	"time"

	"github.com/cocosip/go-dicom-codecs/jpeg/baseline"
	"github.com/cocosip/go-dicom-codecs/jpeg/extended"
	jpegll "github.com/cocosip/go-dicom-codecs/jpeg/lossless"
	"github.com/cocosip/go-dicom-codecs/jpeg/lossless14sv1"
	"github.com/cocosip/go-dicom-codecs/jpeg2000"
	"github.com/cocosip/go-dicom-codecs/jpeg2000/htj2k"
	j2kll "github.com/cocosip/go-dicom-codecs/jpeg2000/lossless"
	j2kly "github.com/cocosip/go-dicom-codecs/jpeg2000/lossy"
	"github.com/cocosip/go-dicom-codecs/jpeg2000/t2"
	jlsll "github.com/cocosip/go-dicom-codecs/jpegls/lossless"
	"github.com/cocosip/go-dicom-codecs/jpegls/nearlossless"
	"github.com/cocosip/go-dicom/pkg/imaging/codec"
	"github.com/cocosip/go-dicom/pkg/imaging/imagetypes"
)

type verifGeom struct{ w, h, c, bits, n int }

type verifEncoder struct {
	name       string
	extraName  string // quality | near | predictor | ""
	extraDef   int
	extraValid func(bits, v int) bool
	hasBits    bool
	bitsDef    []int // bit depths used in the dimension/buffer sweeps
	bitsOK     func(b int) bool
	encode     func(buf []byte, w, h, c, bits, extra int) ([]byte, error)
	decode     func(s []byte) (verifGeom, error)
	header     func(s []byte) (verifGeom, string)
}

func verifNearLimit(bits int) int {
	if bits < 1 || bits > 16 {
		return 255
	}
	l := ((1 << uint(bits)) - 1) / 2
	if l > 255 {
		l = 255
	}
	return l
}

func verifJPEGHeader(s []byte) (verifGeom, string) {
	in, bad := verifWalkJPEG(s)
	return verifGeom{in.width, in.height, in.comps, in.precision, 0}, bad
}

func verifJLSHeader(s []byte) (verifGeom, string) {
	in, bad := verifWalkJPEGLS(s)
	return verifGeom{in.width, in.height, in.comps, in.precision, 0}, bad
}

func verifEncoders() []verifEncoder {
	q := func(_, v int) bool { return v >= 1 && v <= 100 }
	return []verifEncoder{
		{name: "baseline", extraName: "quality", extraDef: 75, extraValid: q, bitsDef: []int{8}, bitsOK: func(b int) bool { return true },
			encode: func(buf []byte, w, h, c, _, x int) ([]byte, error) { return baseline.Encode(buf, w, h, c, x) },
			decode: func(s []byte) (verifGeom, error) {
				p, w, h, c, err := baseline.Decode(s)
				return verifGeom{w, h, c, 8, len(p)}, err
			}, header: verifJPEGHeader},
		{name: "extended", extraName: "quality", extraDef: 75, extraValid: q, hasBits: true, bitsDef: []int{8, 12}, bitsOK: func(b int) bool { return b == 8 || b == 12 },
			encode: func(buf []byte, w, h, c, b, x int) ([]byte, error) { return extended.Encode(buf, w, h, c, b, x) },
			decode: func(s []byte) (verifGeom, error) {
				p, w, h, c, b, err := extended.Decode(s)
				return verifGeom{w, h, c, b, len(p)}, err
			}, header: verifJPEGHeader},
		{name: "jpeg.lossless", extraName: "predictor", extraDef: 1, extraValid: func(_, v int) bool { return v >= 0 && v <= 7 }, hasBits: true, bitsDef: []int{8, 16},
			bitsOK: func(b int) bool { return b >= 2 && b <= 16 },
			encode: func(buf []byte, w, h, c, b, x int) ([]byte, error) { return jpegll.Encode(buf, w, h, c, b, x) },
			decode: func(s []byte) (verifGeom, error) {
				p, w, h, c, b, err := jpegll.Decode(s)
				return verifGeom{w, h, c, b, len(p)}, err
			}, header: verifJPEGHeader},
		{name: "jpeg.lossless14sv1", hasBits: true, bitsDef: []int{8, 16}, bitsOK: func(b int) bool { return b >= 2 && b <= 16 },
			extraValid: func(_, _ int) bool { return true },
			encode:     func(buf []byte, w, h, c, b, _ int) ([]byte, error) { return lossless14sv1.Encode(buf, w, h, c, b) },
			decode: func(s []byte) (verifGeom, error) {
				p, w, h, c, b, err := lossless14sv1.Decode(s)
				return verifGeom{w, h, c, b, len(p)}, err
			}, header: verifJPEGHeader},
		{name: "jpegls.lossless", hasBits: true, bitsDef: []int{8, 16}, bitsOK: func(b int) bool { return b >= 2 && b <= 16 },
			extraValid: func(_, _ int) bool { return true },
			encode:     func(buf []byte, w, h, c, b, _ int) ([]byte, error) { return jlsll.Encode(buf, w, h, c, b) },
			decode: func(s []byte) (verifGeom, error) {
				p, w, h, c, b, err := jlsll.Decode(s)
				return verifGeom{w, h, c, b, len(p)}, err
			}, header: verifJLSHeader},
		{name: "jpegls.nearlossless", extraName: "near", extraDef: 1, hasBits: true, bitsDef: []int{8, 16}, bitsOK: func(b int) bool { return b >= 2 && b <= 16 },
			extraValid: func(bits, v int) bool { return v >= 0 && v <= verifNearLimit(bits) },
			encode:     func(buf []byte, w, h, c, b, x int) ([]byte, error) { return nearlossless.Encode(buf, w, h, c, b, x) },
			decode: func(s []byte) (verifGeom, error) {
				p, w, h, c, b, _, err := nearlossless.Decode(s)
				return verifGeom{w, h, c, b, len(p)}, err
			}, header: verifJLSHeader},
	}
}

type verifArgs struct {
	w, h, c, bits, extra, buflen int
	kind                         int
}

// verifMustReject returns the reason why C17 demands an error for these arguments ("" = arguments acceptable).
func verifMustReject(e *verifEncoder, a verifArgs) string {
	switch {
	case a.w <= 0 || a.h <= 0:
		return "non_positive_dimension"
	case a.w > 65535 || a.h > 65535:
		return "dimension_above_65535"
	case a.c <= 0 || a.c > 255:
		return "component_count"
	case e.hasBits && !e.bitsOK(a.bits):
		return "bit_depth"
	case !e.extraValid(a.bits, a.extra):
		return e.extraName + "_out_of_range"
	}
	bits := a.bits
	if !e.hasBits {
		bits = 8
	}
	need := int64(a.w) * int64(a.h) * int64(a.c) * int64((bits+7)/8)
	if int64(a.buflen) < need {
		return "short_buffer"
	}
	return ""
}

func (a verifArgs) String(e *verifEncoder) string {
	s := fmt.Sprintf("enc=%s width=%d height=%d components=%d", e.name, a.w, a.h, a.c)
	if e.hasBits {
		s += fmt.Sprintf(" bitDepth=%d", a.bits)
	}
	if e.extraName != "" {
		s += fmt.Sprintf(" %s=%d", e.extraName, a.extra)
	}
	return s + fmt.Sprintf(" len(pixels)=%d", a.buflen)
}

func verifHTFactory() t2.BlockDecoderFactory {
	return func(width, height int, _ int) t2.BlockDecoder { return htj2k.NewHTDecoder(width, height) }
}

func verifBuf(r *verifRng, n, bits, kind int) []byte {
	if n <= 0 {
		return []byte{}
	}
	b := make([]byte, n)
	if kind == 2 {
		return b
	}
	mask := byte(0xFF)
	if bits >= 1 && bits < 8 {
		mask = byte(1<<uint(bits)) - 1
	}
	himask := byte(0xFF)
	if bits > 8 && bits < 16 {
		himask = byte(1<<uint(bits-8)) - 1
	}
	for i := range b {
		v := byte(r.next())
		if bits <= 8 {
			b[i] = v & mask
		} else if i&1 == 1 {
			b[i] = v & himask
		} else {
			b[i] = v
		}
	}
	return b
}

// verifRunCase executes one argument tuple against e and records the verdict.
func verifRunCase(rep *verifReport, e *verifEncoder, r *verifRng, a verifArgs) (accepted bool) {
	buf := verifBuf(r, a.buflen, a.bits, a.kind)
	var out []byte
	var err error
	o := verifGuard(60*time.Second, func() { out, err = e.encode(buf, a.w, a.h, a.c, a.bits, a.extra) })
	reason := verifMustReject(e, a)
	desc := a.String(e)
	if o.panicked || o.timedOut {
		why := reason
		if why == "" {
			why = "valid_arguments"
		}
		rep.failTag("panic_on_"+why, e.name+"@"+verifSite(o.msg), desc+" panic="+o.msg)
		return false
	}
	if err != nil {
		rep.ok() // an error is always acceptable for C17
		return false
	}
	if reason != "" {
		// a stream was returned for arguments that must be rejected
		g, bad := e.header(out)
		rep.failTag("accepted_"+reason, e.name, fmt.Sprintf("%s -> stream of %d bytes, header says %dx%d comps=%d P=%d %s", desc, len(out), g.w, g.h, g.c, g.bits, bad))
		return true
	}
	// valid arguments and a stream: it must describe and decode to exactly the requested geometry
	g, bad := e.header(out)
	bits := a.bits
	if !e.hasBits {
		bits = 8
	}
	if bad != "" {
		rep.failTag("stream_malformed", e.name, desc+" violation='"+bad+"'")
		return true
	}
	if g.w != a.w || g.h != a.h || g.c != a.c || g.bits != bits {
		rep.failTag("header_geometry_differs", e.name, fmt.Sprintf("%s header=%dx%d comps=%d P=%d", desc, g.w, g.h, g.c, g.bits))
		return true
	}
	var dg verifGeom
	var derr error
	o = verifGuard(60*time.Second, func() { dg, derr = e.decode(out) })
	switch {
	case o.panicked || o.timedOut:
		rep.failTag("decoder_panics_on_encoder_output@"+verifSite(o.msg), e.name, desc+" panic="+o.msg)
	case derr != nil:
		rep.failTag("decoder_rejects_encoder_output", e.name, desc+" err="+verifErrStr(derr))
	case dg.w != a.w || dg.h != a.h || dg.c != a.c || dg.n != a.w*a.h*a.c*((bits+7)/8):
		rep.failTag("decoded_geometry_differs", e.name, fmt.Sprintf("%s decoded=%dx%d comps=%d bits=%d len=%d", desc, dg.w, dg.h, dg.c, dg.bits, dg.n))
	default:
		rep.ok()
	}
	return true
}

func verifSite(msg string) string {
	for i := len(msg) - 1; i > 0; i-- {
		if msg[i-1] == '@' && msg[i] == ' ' {
			return msg[i+1:]
		}
	}
	return "?"
}

func verifLineDims(w, h int) bool {
	lo, hi := w, h
	if lo > hi {
		lo, hi = hi, lo
	}
	return lo == 1 && (hi == 32768 || hi == 65535 || hi == 65536 || hi == 65537)
}

var verifDims = []int{-65536, -1, 0, 1, 2, 3, 32767, 32768, 32769, 65534, 65535, 65536, 65537}

func TestVerif_C17_dimensions(t *testing.T) {
	rep := verifNewReport(t, "TestVerif_C17_dimensions",
		"package-level Encode of {baseline, extended, jpeg.lossless, jpeg.lossless14sv1, jpegls.lossless, jpegls.nearlossless}: width x height in {-65536,-1,0,1,2,3,32767,32768,32769,65534,65535,65536,65537}^2 x components{1,3} x bitDepth{8 | 8,12 | 8,16} with default quality/NEAR/predictor; len(pixels) in {0, 1, need-1, need} where need-1/need only if need <= 140000 bytes and, in the quick tier, need <= 20000 or the image is Nx1/1xN with N in {32768,65535,65536,65537} (so 65536x1, 1x65537 ... get full buffers, 65535x65535 only short ones {0,1,4096}); noise pixels; must-error oracle: dim<=0, dim>65535, short buffer; any returned stream is walked and decoded")
	defer rep.finish()
	r := verifNewRng(1701)
	encs := verifEncoders()
	for ei := range encs {
		e := &encs[ei]
		risky := false // set when the encoder accepted or panicked on a too-short buffer: skip both-huge products then
		for pass := 0; pass < 2; pass++ {
			for _, w := range verifDims {
				for _, h := range verifDims {
					bothHuge := w > 4096 && h > 4096
					if (pass == 0) == bothHuge {
						continue
					}
					if bothHuge && risky {
						continue
					}
					for _, c := range []int{1, 3} {
						for _, bits := range e.bitsDef {
							need := int64(-1)
							if w > 0 && h > 0 {
								need = int64(w) * int64(h) * int64(c) * int64((bits+7)/8)
							}
							lens := []int{0, 1}
							if need > 20000 && !verifLineDims(w, h) && !verifThorough() {
								lens = append(lens, 4096) // quick tier: full buffers for huge images only for Nx1 / 1xN with N in {32768,65535,65536,65537}
							} else if need > 1 && need <= 140000 {
								lens = append(lens, int(need-1), int(need))
							} else if need == 1 {
								lens = []int{0, 1}
							} else if need > 140000 {
								lens = append(lens, 4096)
							}
							for _, bl := range lens {
								a := verifArgs{w: w, h: h, c: c, bits: bits, extra: e.extraDef, buflen: bl}
								before := rep.fails
								verifRunCase(rep, e, r, a)
								if rep.fails > before && int64(bl) < need {
									risky = true
								}
							}
						}
					}
				}
			}
		}
		if risky {
			rep.note(e.name + ": products of two huge dimensions skipped after a short buffer was not rejected cleanly")
		}
	}
}

func TestVerif_C17_components_bitdepth_params(t *testing.T) {
	rep := verifNewReport(t, "TestVerif_C17_components_bitdepth_params",
		"same 6 package-level Encode functions on 5x3 and 8x8 images: components{-1,0,1,2,3,4,5,255,256} x bitDepth{-8,-1,0,1,2,7,8,9,11,12,13,15,16,17,24,32,64} (where the function has one) with full and empty buffers; quality{-1,0,1,2,50,99,100,101,255,1000}; NEAR{-1,0,1,2,3,MAXVAL/2-1,MAXVAL/2,MAXVAL/2+1,127,128,254,255,256,1000} x bitDepth{2,4,8,12,16}; predictor{-1,0..8,100} x bitDepth{8,16}; must-error oracle: components<=0 or >255, bit depth outside documented range (extended 8/12, others 2..16), quality outside 1..100, NEAR outside 0..min(255,MAXVAL/2) (T.87), predictor outside 0..7; any returned stream is walked and decoded")
	defer rep.finish()
	r := verifNewRng(1702)
	encs := verifEncoders()
	for ei := range encs {
		e := &encs[ei]
		for _, sz := range []verifWH{{5, 3}, {8, 8}} {
			bitsList := []int{8}
			if e.hasBits {
				bitsList = []int{-8, -1, 0, 1, 2, 7, 8, 9, 11, 12, 13, 15, 16, 17, 24, 32, 64}
			}
			for _, c := range []int{-1, 0, 1, 2, 3, 4, 5, 255, 256} {
				for _, bits := range bitsList {
					bps := (bits + 7) / 8
					if bps < 1 {
						bps = 1
					}
					cc := c
					if cc < 1 {
						cc = 1
					}
					full := sz.w * sz.h * cc * bps
					for _, bl := range []int{full, 0} {
						kind := 0
						if bits != 8 && bits != 16 {
							kind = 2 // flat image: keeps the known JPEG-LS/JPEG-lossless round-trip defects (C02/C03) out of this test
						}
						verifRunCase(rep, e, r, verifArgs{w: sz.w, h: sz.h, c: c, bits: bits, extra: e.extraDef, buflen: bl, kind: kind})
					}
				}
			}
			// extra parameter
			var xs []int
			var xbits []int
			switch e.extraName {
			case "quality":
				xs = []int{-1, 0, 1, 2, 50, 99, 100, 101, 255, 1000}
				xbits = e.bitsDef
			case "near":
				xbits = []int{2, 4, 8, 12, 16}
			case "predictor":
				xs = []int{-1, 0, 1, 2, 3, 4, 5, 6, 7, 8, 100}
				xbits = []int{8, 16}
			}
			for _, bits := range xbits {
				vals := xs
				if e.extraName == "near" {
					l := verifNearLimit(bits)
					m := ((1 << uint(bits)) - 1) / 2
					vals = []int{-1, 0, 1, 2, 3, m - 1, m, m + 1, 127, 128, 254, 255, 256, 1000, l}
				}
				seen := map[int]bool{}
				for _, x := range vals {
					if seen[x] {
						continue
					}
					seen[x] = true
					for _, c := range []int{1, 3} {
						if e.name == "extended" && bits == 12 && c == 3 {
							continue
						}
						full := sz.w * sz.h * c * ((bits + 7) / 8)
						kind := 0
						if e.extraName == "near" && bits != 8 && bits != 16 {
							kind = 2
						}
						verifRunCase(rep, e, r, verifArgs{w: sz.w, h: sz.h, c: c, bits: bits, extra: x, buflen: full, kind: kind})
					}
				}
			}
		}
	}
}

func TestVerif_C17_buffer_lengths(t *testing.T) {
	rep := verifNewReport(t, "TestVerif_C17_buffer_lengths",
		"same 6 package-level Encode functions: geometries {1x1,2x2,5x3,8x8,9x7,17x1,1x17,16x16} x components{1,3} x bitDepth{8 | 8,12 | 8,16}: len(pixels) = every value 0..min(need,48) and need-2,need-1,need,need+1,2*need; must-error oracle: len < width*height*components*ceil(bitDepth/8); any returned stream is walked and decoded")
	defer rep.finish()
	r := verifNewRng(1703)
	encs := verifEncoders()
	for ei := range encs {
		e := &encs[ei]
		for _, sz := range []verifWH{{1, 1}, {2, 2}, {5, 3}, {8, 8}, {9, 7}, {17, 1}, {1, 17}, {16, 16}} {
			for _, c := range []int{1, 3} {
				for _, bits := range e.bitsDef {
					if e.name == "extended" && bits == 12 && c == 3 {
						continue
					}
					need := sz.w * sz.h * c * ((bits + 7) / 8)
					seen := map[int]bool{}
					var lens []int
					for l := 0; l <= need && l <= 48; l++ {
						lens = append(lens, l)
					}
					lens = append(lens, need-2, need-1, need, need+1, 2*need)
					for _, l := range lens {
						if l < 0 || seen[l] {
							continue
						}
						seen[l] = true
						verifRunCase(rep, e, r, verifArgs{w: sz.w, h: sz.h, c: c, bits: bits, extra: e.extraDef, buflen: l})
					}
				}
			}
		}
	}
}

// ---------------------------------------------------------------- jpeg2000.Encoder

func verifJ2KMustReject(p *jpeg2000.EncodeParams, buflen int) string {
	pow2 := func(v int) bool { return v > 0 && v&(v-1) == 0 }
	switch {
	case p.Width <= 0 || p.Height <= 0:
		return "non_positive_dimension"
	case p.Components <= 0 || p.Components > 16384:
		return "component_count"
	case p.BitDepth < 1 || p.BitDepth > 38:
		return "bit_depth"
	case p.NumLevels < 0 || p.NumLevels > 32:
		return "level_count"
	case !pow2(p.CodeBlockWidth) || !pow2(p.CodeBlockHeight) || p.CodeBlockWidth < 4 || p.CodeBlockHeight < 4 || p.CodeBlockWidth > 1024 || p.CodeBlockHeight > 1024:
		return "code_block_size"
	case p.CodeBlockWidth*p.CodeBlockHeight > 4096:
		return "code_block_area_above_4096"
	case p.NumLayers < 1 || p.NumLayers > 65535:
		return "layer_count"
	case !p.Lossless && (p.Quality < 1 || p.Quality > 100):
		return "quality_out_of_range"
	case p.ProgressionOrder > 4:
		return "progression_order"
	case p.TileWidth < 0 || p.TileHeight < 0:
		return "negative_tile_size"
	case (p.PrecinctWidth != 0 && !pow2(p.PrecinctWidth)) || (p.PrecinctHeight != 0 && !pow2(p.PrecinctHeight)) || p.PrecinctWidth > 32768 || p.PrecinctHeight > 32768:
		return "precinct_size"
	}
	need := int64(p.Width) * int64(p.Height) * int64(p.Components) * int64((p.BitDepth+7)/8)
	if int64(buflen) < need {
		return "short_buffer"
	}
	return ""
}

func verifJ2KCase(rep *verifReport, r *verifRng, name string, p *jpeg2000.EncodeParams, buflen int, ht bool) {
	if ht {
		p.HTJ2KMode = true
		p.BlockEncoderFactory = func(w, h int) jpeg2000.BlockEncoder { return htj2k.NewHTEncoder(w, h) }
	}
	desc := fmt.Sprintf("enc=%s Width=%d Height=%d Components=%d BitDepth=%d Lossless=%v Quality=%d NumLevels=%d CodeBlock=%dx%d NumLayers=%d Prog=%d Tile=%dx%d Precinct=%dx%d len(pixels)=%d",
		name, p.Width, p.Height, p.Components, p.BitDepth, p.Lossless, p.Quality, p.NumLevels, p.CodeBlockWidth, p.CodeBlockHeight, p.NumLayers, p.ProgressionOrder, p.TileWidth, p.TileHeight, p.PrecinctWidth, p.PrecinctHeight, buflen)
	reason := verifJ2KMustReject(p, buflen)
	buf := verifBuf(r, buflen, p.BitDepth, 0)
	var out []byte
	var err error
	o := verifGuard(90*time.Second, func() { out, err = jpeg2000.NewEncoder(p).Encode(buf) })
	if o.panicked || o.timedOut {
		why := reason
		if why == "" {
			why = "valid_arguments"
		}
		rep.failTag("panic_on_"+why, name+"@"+verifSite(o.msg), desc+" panic="+o.msg)
		return
	}
	if err != nil {
		rep.ok()
		return
	}
	in, bad := verifWalkJ2K(out)
	if reason != "" {
		rep.failTag("accepted_"+reason, name, fmt.Sprintf("%s -> stream of %d bytes, SIZ %dx%d comps=%d %s", desc, len(out), in.xsiz-in.xo, in.ysiz-in.yo, in.comps, bad))
		return
	}
	if bad != "" {
		rep.failTag("stream_malformed", name, desc+" violation='"+bad+"'")
		return
	}
	if in.xsiz-in.xo != p.Width || in.ysiz-in.yo != p.Height || in.comps != p.Components || len(in.ssiz) == 0 || int(in.ssiz[0]&0x7F)+1 != p.BitDepth {
		rep.failTag("header_geometry_differs", name, fmt.Sprintf("%s SIZ=%dx%d comps=%d Ssiz=%v", desc, in.xsiz-in.xo, in.ysiz-in.yo, in.comps, in.ssiz))
		return
	}
	d := jpeg2000.NewDecoder()
	if ht {
		d.SetBlockDecoderFactory(verifHTFactory())
	}
	var derr error
	var px []byte
	o = verifGuard(90*time.Second, func() {
		derr = d.Decode(append([]byte(nil), out...))
		if derr == nil {
			px = d.GetPixelData()
		}
	})
	switch {
	case o.panicked || o.timedOut:
		rep.failTag("decoder_panics_on_encoder_output@"+verifSite(o.msg), name, desc+" panic="+o.msg)
	case derr != nil:
		rep.failTag("decoder_rejects_encoder_output", name, desc+" err="+verifErrStr(derr))
	case d.Width() != p.Width || d.Height() != p.Height || d.Components() != p.Components || len(px) != p.Width*p.Height*p.Components*((p.BitDepth+7)/8):
		rep.failTag("decoded_geometry_differs", name, fmt.Sprintf("%s decoded=%dx%d comps=%d bits=%d len=%d", desc, d.Width(), d.Height(), d.Components(), d.BitDepth(), len(px)))
	default:
		rep.ok()
	}
}

func TestVerif_C17_j2k_encoder(t *testing.T) {
	rep := verifNewReport(t, "TestVerif_C17_j2k_encoder",
		"jpeg2000.NewEncoder(params).Encode (classic and HTJ2K block coder), one field varied at a time from DefaultEncodeParams(16x12, 1 comp, 8 bit): Width/Height{-65536,-1,0,1,2,3,32767..32769,65534..65537} x Components{1,3} with len(pixels){0,1,need-1,need if need<=70000 (quick tier: <=20000 or Nx1/1xN with N in {32768,65535,65536,65537})}; Components{-1,0,1,2,3,4,5,255,16385}; BitDepth{-1,0,1,2,7,8,9,12,15,16,17,24,32,38,39}; NumLevels{-1,0,1,5,6,7,32,33}; CodeBlock w,h in {0,1,2,3,4,8,16,32,48,64,128,256,512,1024,2048}^2; NumLayers{-1,0,1,2,65535,65536}; Quality{-1,0,1,100,101} lossy; ProgressionOrder{0..5,255}; Tile{-1,1,7,16,1000}; Precinct{-1,1,3,48,64,65536}; buffer lengths 0..need+1 on 3x2; must-error oracle per T.800 (code-block 4..1024 pow2 and area<=4096, levels 0..32, layers 1..65535, ...); every returned stream walked and decoded")
	defer rep.finish()
	r := verifNewRng(1704)
	for _, ht := range []bool{false, true} {
		name := "j2k"
		if ht {
			name = "htj2k"
		}
		base := func() *jpeg2000.EncodeParams {
			p := jpeg2000.DefaultEncodeParams(16, 12, 1, 8, false)
			p.NumLevels = 2
			if ht {
				p.ProgressionOrder = 2
			}
			return p
		}
		full := func(p *jpeg2000.EncodeParams) int {
			if p.Width <= 0 || p.Height <= 0 || p.Components <= 0 {
				return 64
			}
			bps := (p.BitDepth + 7) / 8
			if bps < 1 {
				bps = 1
			}
			n := int64(p.Width) * int64(p.Height) * int64(p.Components) * int64(bps)
			if n > 70000 || (n > 20000 && !verifLineDims(p.Width, p.Height) && !verifThorough()) {
				return 4096
			}
			return int(n)
		}
		// dimensions
		for _, w := range verifDims {
			for _, h := range verifDims {
				for _, c := range []int{1, 3} {
					if w > 4096 && h > 4096 && c == 3 {
						continue
					}
					p := base()
					p.Width, p.Height, p.Components = w, h, c
					n := full(p)
					lens := []int{0, 1, n - 1, n}
					seen := map[int]bool{}
					for _, l := range lens {
						if l < 0 || seen[l] {
							continue
						}
						seen[l] = true
						q := *p
						verifJ2KCase(rep, r, name, &q, l, ht)
					}
				}
			}
		}
		one := func(set func(p *jpeg2000.EncodeParams)) {
			p := base()
			set(p)
			n := full(p)
			verifJ2KCase(rep, r, name, p, n, ht)
		}
		for _, c := range []int{-1, 0, 1, 2, 3, 4, 5, 255, 16385} {
			one(func(p *jpeg2000.EncodeParams) { p.Components = c; p.Width, p.Height = 4, 3 })
		}
		for _, b := range []int{-1, 0, 1, 2, 7, 8, 9, 12, 15, 16, 17, 24, 32, 38, 39} {
			for _, c := range []int{1, 3} {
				for _, ll := range []bool{true, false} {
					one(func(p *jpeg2000.EncodeParams) { p.BitDepth, p.Components, p.Lossless = b, c, ll })
				}
			}
		}
		for _, l := range []int{-1, 0, 1, 5, 6, 7, 32, 33} {
			one(func(p *jpeg2000.EncodeParams) { p.NumLevels = l })
		}
		cbs := []int{0, 1, 2, 3, 4, 8, 16, 32, 48, 64, 128, 256, 512, 1024, 2048}
		for _, cw := range cbs {
			for _, ch := range cbs {
				one(func(p *jpeg2000.EncodeParams) { p.CodeBlockWidth, p.CodeBlockHeight = cw, ch })
			}
		}
		for _, l := range []int{-1, 0, 1, 2, 65535, 65536} {
			one(func(p *jpeg2000.EncodeParams) { p.NumLayers = l; p.Width, p.Height = 4, 4; p.NumLevels = 0 })
		}
		for _, q := range []int{-1, 0, 1, 100, 101} {
			for _, c := range []int{1, 3} {
				one(func(p *jpeg2000.EncodeParams) { p.Lossless, p.Quality, p.Components = false, q, c })
			}
		}
		for _, po := range []int{0, 1, 2, 3, 4, 5, 255} {
			one(func(p *jpeg2000.EncodeParams) { p.ProgressionOrder = uint8(po) })
		}
		for _, tw := range []int{-1, 1, 7, 16, 1000} {
			for _, th := range []int{-1, 1, 7, 16, 1000} {
				one(func(p *jpeg2000.EncodeParams) { p.TileWidth, p.TileHeight = tw, th; p.NumLevels = 1 })
			}
		}
		for _, pw := range []int{-1, 1, 3, 48, 64, 65536} {
			for _, phh := range []int{-1, 1, 3, 48, 64, 65536} {
				one(func(p *jpeg2000.EncodeParams) { p.PrecinctWidth, p.PrecinctHeight = pw, phh })
			}
		}
		for _, c := range []int{1, 3} {
			for _, b := range []int{8, 12} {
				p := base()
				p.Width, p.Height, p.Components, p.BitDepth, p.NumLevels = 3, 2, c, b, 0
				n := full(p)
				for l := 0; l <= n+1; l++ {
					q := *p
					verifJ2KCase(rep, r, name, &q, l, ht)
				}
			}
		}
	}
}

// ---------------------------------------------------------------- Codec.Encode robustness (all registered codecs)

type verifForeignParams struct{ mode int }

func (f *verifForeignParams) GetParameter(name string) interface{} {
	switch f.mode {
	case 0:
		return nil
	case 1: // wrong dynamic types
		switch name {
		case "quality", "near", "predictor", "numLevels", "rate":
			return "seven"
		case "allowMCT", "irreversible":
			return 1
		}
		return 3.5
	case 2: // out-of-range values of the right type
		switch name {
		case "quality":
			return -5
		case "near":
			return 1000
		case "predictor":
			return 99
		case "numLevels":
			return 99
		case "rate":
			return -1
		case "bitDepth":
			return 13
		case "blockWidth", "blockHeight":
			return 3
		case "numLayers":
			return -1
		case "progressionOrder":
			return 77
		case "targetRatio":
			return -1.0
		case "rateLevels":
			return []int{}
		case "allowMCT", "irreversible", "usePCRDOpt", "appendLosslessLayer":
			return true
		case "mctMatrix", "inverseMctMatrix":
			return [][]float64{{1}}
		case "mctOffsets":
			return []int32{1, 2, 3, 4, 5}
		}
		return nil
	default: // extreme values
		switch name {
		case "quality", "near", "predictor", "numLevels", "rate", "bitDepth", "blockWidth", "blockHeight", "numLayers", "progressionOrder":
			return math.MaxInt
		case "targetRatio", "mctNormScale":
			return math.Inf(1)
		case "rateLevels":
			return []int{math.MaxInt, math.MinInt}
		case "mctBindings":
			return []jpeg2000.MCTBindingParams{{ComponentIDs: []uint16{9, 9}, Matrix: [][]float64{{1}}}}
		}
		return nil
	}
}
func (f *verifForeignParams) SetParameter(string, interface{}) {}

// verifHeaderGeom parses the geometry an emitted frame declares, using the family walker.
func verifHeaderGeom(ts verifTS, f []byte, info *imagetypes.FrameInfo) (verifGeom, string) {
	switch ts.tag {
	case "RLE":
		bytesA := int((info.BitsAllocated-1)/8 + 1)
		bad := verifWalkRLE(f, bytesA*int(info.SamplesPerPixel), int(info.Width)*int(info.Height))
		return verifGeom{int(info.Width), int(info.Height), int(info.SamplesPerPixel), 0, 0}, bad
	case ".50", ".51", ".57", ".70":
		return verifJPEGHeader(f)
	case ".80", ".81":
		return verifJLSHeader(f)
	}
	in, bad := verifWalkJ2K(f)
	return verifGeom{in.xsiz - in.xo, in.ysiz - in.yo, in.comps, 0, 0}, bad
}

func TestVerif_C17_codec_encode_robustness(t *testing.T) {
	rep := verifNewReport(t, "TestVerif_C17_codec_encode_robustness",
		"Codec.Encode of all 14 registered codecs: parameters {nil, foreign Parameters impl returning nil / wrong types / out-of-range ints / MaxInt,+Inf} on valid 9x7 8-bit gray+RGB and 16/12-bit gray frames; sources with {0 frames, 1 empty frame, 1 nil frame, [valid,empty], frame one byte short, frame 1 byte long}; nil src, nil dst, nil FrameInfo; FrameInfo fields zeroed or odd {Width 0, Height 0, SamplesPerPixel 0/2/4, BitsAllocated 0/1/12/24/32, BitsStored 0/1/BA+1/17, Width 65535 x Height 1 with 16-byte frame}; verdict: no panic; output frames <= input frames; every emitted frame declares exactly FrameInfo's width, height, components (family walker); a frame shorter than W*H*spp*ceil(BA/8) must be an error")
	defer rep.finish()
	r := verifNewRng(1705)
	type scen struct {
		name   string
		info   *imagetypes.FrameInfo
		frames [][]byte
		params codec.Parameters
		nilSrc bool
		nilDst bool
		short  bool // frame shorter than the FrameInfo needs: must be an error
	}
	for _, ts := range verifAllTS() {
		c := verifCodec(ts.ts)
		if c == nil {
			continue
		}
		var sc []scen
		hi, hb := 12, 16
		if ts.maxBits < 12 {
			hi, hb = 8, 8
		}
		valid := []struct{ ba, bs, spp int }{{8, 8, 1}, {8, 8, 3}, {hb, hi, 1}}
		for _, v := range valid {
			info := verifInfo(9, 7, v.ba, v.bs, v.spp)
			fr := verifFrame(r, 9, 7, v.ba, v.bs, v.spp, 0)
			tag := fmt.Sprintf("ba=%d,bs=%d,spp=%d", v.ba, v.bs, v.spp)
			sc = append(sc, scen{name: "nil_params " + tag, info: info, frames: [][]byte{fr}})
			for m := 0; m < 4; m++ {
				sc = append(sc, scen{name: fmt.Sprintf("foreign_params_mode%d %s", m, tag), info: info, frames: [][]byte{fr}, params: &verifForeignParams{mode: m}})
			}
			sc = append(sc, scen{name: "base_parameters_empty " + tag, info: info, frames: [][]byte{fr}, params: codec.NewBaseParameters()})
			sc = append(sc, scen{name: "zero_frames " + tag, info: info, frames: [][]byte{}})
			sc = append(sc, scen{name: "one_empty_frame " + tag, info: info, frames: [][]byte{{}}, short: true})
			sc = append(sc, scen{name: "one_nil_frame " + tag, info: info, frames: [][]byte{nil}, short: true})
			sc = append(sc, scen{name: "valid_then_empty " + tag, info: info, frames: [][]byte{fr, {}}, short: true})
			sc = append(sc, scen{name: "one_byte_short " + tag, info: info, frames: [][]byte{fr[:len(fr)-1]}, short: true})
			sc = append(sc, scen{name: "one_byte_frame " + tag, info: info, frames: [][]byte{{0x7F}}, short: true})
			sc = append(sc, scen{name: "nil_src " + tag, info: info, nilSrc: true})
			sc = append(sc, scen{name: "nil_dst " + tag, info: info, frames: [][]byte{fr}, nilDst: true})
		}
		fr8 := verifFrame(r, 9, 7, 8, 8, 1, 0)
		sc = append(sc, scen{name: "nil_frameinfo", info: nil, frames: [][]byte{fr8}})
		mod := func(name string, f func(i *imagetypes.FrameInfo)) {
			info := verifInfo(9, 7, 8, 8, 1)
			f(info)
			need := int(info.Width) * int(info.Height) * int(info.SamplesPerPixel) * int((info.BitsAllocated+7)/8)
			sc = append(sc, scen{name: "frameinfo_" + name, info: info, frames: [][]byte{fr8}, short: len(fr8) < need})
		}
		mod("width0", func(i *imagetypes.FrameInfo) { i.Width = 0 })
		mod("height0", func(i *imagetypes.FrameInfo) { i.Height = 0 })
		mod("spp0", func(i *imagetypes.FrameInfo) { i.SamplesPerPixel = 0 })
		mod("spp2", func(i *imagetypes.FrameInfo) { i.SamplesPerPixel = 2 })
		mod("spp4", func(i *imagetypes.FrameInfo) { i.SamplesPerPixel = 4 })
		mod("ba0", func(i *imagetypes.FrameInfo) { i.BitsAllocated = 0 })
		mod("ba1_bs1", func(i *imagetypes.FrameInfo) { i.BitsAllocated, i.BitsStored = 1, 1 })
		mod("ba12_bs12", func(i *imagetypes.FrameInfo) { i.BitsAllocated, i.BitsStored = 12, 12 })
		mod("ba24_bs24", func(i *imagetypes.FrameInfo) { i.BitsAllocated, i.BitsStored = 24, 24 })
		mod("ba32_bs32", func(i *imagetypes.FrameInfo) { i.BitsAllocated, i.BitsStored = 32, 32 })
		mod("bs0", func(i *imagetypes.FrameInfo) { i.BitsStored = 0 })
		mod("bs1", func(i *imagetypes.FrameInfo) { i.BitsStored = 1 })
		mod("bs9_ba8", func(i *imagetypes.FrameInfo) { i.BitsStored = 9 })
		mod("bs17_ba16", func(i *imagetypes.FrameInfo) { i.BitsAllocated, i.BitsStored = 16, 17 })
		mod("65535x1_short", func(i *imagetypes.FrameInfo) { i.Width, i.Height = 65535, 1 })
		mod("65535x65535_short", func(i *imagetypes.FrameInfo) { i.Width, i.Height = 65535, 65535 })
		mod("signed", func(i *imagetypes.FrameInfo) { i.PixelRepresentation = 1 })
		mod("planar1_rgb_short", func(i *imagetypes.FrameInfo) { i.SamplesPerPixel, i.PlanarConfiguration = 3, 1 })

		for _, s := range sc {
			desc := fmt.Sprintf("ts=%s scenario=%s", ts.tag, s.name)
			if s.info != nil {
				desc += " " + verifInfoStr(s.info)
			}
			var src, dst *verifPixelData
			var srcI, dstI imagetypes.PixelData
			if !s.nilSrc {
				src = &verifPixelData{frames: verifCloneFrames(s.frames), info: s.info}
				for i, f := range s.frames {
					if f == nil {
						src.frames[i] = nil
					}
				}
				srcI = src
			}
			if !s.nilDst {
				dst = &verifPixelData{info: s.info, encaps: true}
				dstI = dst
			}
			var err error
			o := verifGuard(60*time.Second, func() { err = c.Encode(srcI, dstI, s.params) })
			if o.panicked || o.timedOut {
				rep.failTag("panic", ts.tag+"@"+verifSite(o.msg), desc+" panic="+o.msg)
				continue
			}
			nOut := 0
			if dst != nil {
				nOut = len(dst.frames)
			}
			if err == nil && (s.nilSrc || s.nilDst || s.info == nil) {
				rep.failTag("nil_argument_accepted", ts.tag, desc)
				continue
			}
			if err == nil && nOut != len(s.frames) {
				rep.failTag("frame_count_differs_without_error", ts.tag, fmt.Sprintf("%s frames_in=%d frames_out=%d", desc, len(s.frames), nOut))
				continue
			}
			if err == nil && s.short {
				rep.failTag("short_or_empty_frame_accepted", ts.tag, fmt.Sprintf("%s frame_len=%d", desc, len(s.frames[len(s.frames)-1])))
				continue
			}
			bad := false
			if err == nil {
				for fi, f := range dst.frames {
					g, viol := verifHeaderGeom(ts, f, s.info)
					if viol != "" {
						rep.failTag("emitted_frame_malformed", ts.tag, fmt.Sprintf("%s frame=%d violation='%s'", desc, fi, viol))
						bad = true
						break
					}
					if g.w != int(s.info.Width) || g.h != int(s.info.Height) || g.c != int(s.info.SamplesPerPixel) {
						rep.failTag("emitted_frame_geometry_differs", ts.tag, fmt.Sprintf("%s frame=%d header=%dx%d comps=%d", desc, fi, g.w, g.h, g.c))
						bad = true
						break
					}
				}
			}
			if !bad {
				rep.ok()
			}
		}
	}
}

// Strict reading of the first sentence of C17 for the typed parameter structs: an out-of-range quality,
// NEAR, predictor, level count or code-block size handed to Codec.Encode must produce an error
// (the wrappers' Validate() methods silently replace such values).
func TestVerif_C17_codec_typed_parameters_out_of_range(t *testing.T) {
	rep := verifNewReport(t, "TestVerif_C17_codec_typed_parameters_out_of_range",
		"Codec.Encode with the codec's own typed parameter struct carrying one out-of-range value on a valid 9x7 8-bit gray frame: baseline Quality{0,101,-1}; extended Quality{0,101} BitDepth{7,13}; jpeg.lossless Predictor{-1,8}; jpegls.nearlossless NEAR{-1,256}; jpeg2000 lossless NumLevels{-1,7} NumLayers{0} ProgressionOrder{5}; jpeg2000 lossy NumLevels{-1,7} Rate{-1} NumLayers{0}; htj2k Quality{0,101} BlockWidth/Height{3,2048,48} NumLevels{-1,7}; C17 sentence 1 demands an error")
	defer rep.finish()
	r := verifNewRng(1706)
	info := verifInfo(9, 7, 8, 8, 1)
	fr := verifFrame(r, 9, 7, 8, 8, 1, 0)
	type tc struct {
		ts   string
		what string
		p    codec.Parameters
	}
	var cases []tc
	for _, q := range []int{0, 101, -1} {
		p := baseline.NewBaselineParameters()
		p.Quality = q
		cases = append(cases, tc{".50", fmt.Sprintf("Quality=%d", q), p})
	}
	for _, q := range []int{0, 101} {
		p := extended.NewExtendedParameters()
		p.Quality = q
		cases = append(cases, tc{".51", fmt.Sprintf("Quality=%d", q), p})
	}
	for _, b := range []int{7, 13} {
		p := extended.NewExtendedParameters()
		p.BitDepth = b
		cases = append(cases, tc{".51", fmt.Sprintf("BitDepth=%d", b), p})
	}
	for _, v := range []int{-1, 8} {
		p := jpegll.NewLosslessParameters()
		p.Predictor = v
		cases = append(cases, tc{".57", fmt.Sprintf("Predictor=%d", v), p})
	}
	for _, v := range []int{-1, 256} {
		p := nearlossless.NewNearLosslessParameters()
		p.NEAR = v
		cases = append(cases, tc{".81", fmt.Sprintf("NEAR=%d", v), p})
	}
	for _, tsTag := range []string{".90", ".92"} {
		for _, v := range []int{-1, 7} {
			p := j2kll.NewLosslessParameters()
			p.NumLevels = v
			cases = append(cases, tc{tsTag, fmt.Sprintf("NumLevels=%d", v), p})
		}
		p := j2kll.NewLosslessParameters()
		p.NumLayers = 0
		cases = append(cases, tc{tsTag, "NumLayers=0", p})
		p2 := j2kll.NewLosslessParameters()
		p2.ProgressionOrder = 5
		cases = append(cases, tc{tsTag, "ProgressionOrder=5", p2})
	}
	for _, tsTag := range []string{".91", ".93"} {
		for _, v := range []int{-1, 7} {
			p := j2kly.NewLossyParameters()
			p.NumLevels = v
			cases = append(cases, tc{tsTag, fmt.Sprintf("NumLevels=%d", v), p})
		}
		p := j2kly.NewLossyParameters()
		p.Rate = -1
		cases = append(cases, tc{tsTag, "Rate=-1", p})
		p2 := j2kly.NewLossyParameters()
		p2.NumLayers = 0
		cases = append(cases, tc{tsTag, "NumLayers=0", p2})
	}
	for _, tsTag := range []string{".201", ".202", ".203"} {
		mk := func() *htj2k.Parameters {
			if tsTag == ".203" {
				return htj2k.NewHTJ2KParameters()
			}
			return htj2k.NewHTJ2KLosslessParameters()
		}
		for _, q := range []int{0, 101} {
			p := mk()
			p.Quality = q
			cases = append(cases, tc{tsTag, fmt.Sprintf("Quality=%d", q), p})
		}
		for _, b := range []int{3, 2048, 48} {
			p := mk()
			p.BlockWidth = b
			cases = append(cases, tc{tsTag, fmt.Sprintf("BlockWidth=%d", b), p})
			p2 := mk()
			p2.BlockHeight = b
			cases = append(cases, tc{tsTag, fmt.Sprintf("BlockHeight=%d", b), p2})
		}
		for _, v := range []int{-1, 7} {
			p := mk()
			p.NumLevels = v
			cases = append(cases, tc{tsTag, fmt.Sprintf("NumLevels=%d", v), p})
		}
	}
	for _, k := range cases {
		var c codec.Codec
		for _, ts := range verifAllTS() {
			if ts.tag == k.ts {
				c = verifCodec(ts.ts)
			}
		}
		if c == nil {
			continue
		}
		desc := fmt.Sprintf("ts=%s param %s %s", k.ts, k.what, verifInfoStr(info))
		out, err, o := verifEncode(c, info, [][]byte{fr}, k.p)
		switch {
		case o.panicked || o.timedOut:
			rep.failTag("panic@"+verifSite(o.msg), k.ts, desc+" panic="+o.msg)
		case err == nil:
			rep.failTag("out_of_range_parameter_silently_replaced", k.ts+":"+k.what, fmt.Sprintf("%s -> no error, %d frame(s) emitted", desc, len(out)))
		default:
			rep.ok()
		}
	}
}

// ---------------------------------------------------------------- RLE

func TestVerif_C17_rle(t *testing.T) {
	rep := verifNewReport(t, "TestVerif_C17_rle",
		"rle.Codec.Encode: Width,Height in {0,1,2,3,255,256,65535} x BitsAllocated{0,1,7,8,9,16,17,24,32,40,64,120,128,65535} x SamplesPerPixel{0,1,2,3,4,15,16,65535} x PlanarConfiguration{0,1} with frame length {0,1,need-1,need,need+1} (need<=300000, otherwise 0,1,64); must-error oracle: zero dimension, segments=ceil(BA/8)*spp outside 1..15, frame shorter than W*H*spp*ceil(BA/8); any emitted frame: Annex G walker (segment count, every segment decodes to W*H bytes) and Decode back to need bytes (+pad)")
	defer rep.finish()
	r := verifNewRng(1707)
	c := verifCodec(verifAllTS()[0].ts)
	dims := []int{0, 1, 2, 3, 255, 256, 65535}
	for _, w := range dims {
		for _, h := range dims {
			for _, ba := range []int{0, 1, 7, 8, 9, 16, 17, 24, 32, 40, 64, 120, 128, 65535} {
				for _, spp := range []int{0, 1, 2, 3, 4, 15, 16, 65535} {
					for _, planar := range []int{0, 1} {
						if planar == 1 && (spp < 2 || w*h > 70000) {
							continue
						}
						bytesA := (ba + 7) / 8
						segs := int64(bytesA) * int64(spp)
						need := int64(w) * int64(h) * int64(spp) * int64(bytesA)
						var lens []int
						if need > 0 && need <= 300000 {
							lens = []int{0, 1, int(need - 1), int(need), int(need + 1)}
						} else {
							lens = []int{0, 1, 64}
						}
						if w*h > 70000 && !(ba == 8 && spp == 1) && !(ba == 16 && spp == 3) {
							lens = []int{0, 64}
						}
						seen := map[int]bool{}
						for _, l := range lens {
							if l < 0 || seen[l] {
								continue
							}
							seen[l] = true
							info := verifInfo(w, h, ba, ba, spp)
							if ba == 0 {
								info.HighBit = 0
							}
							info.PlanarConfiguration = uint16(planar)
							fr := verifBuf(r, l, 8, 0)
							desc := fmt.Sprintf("enc=rle Width=%d Height=%d BitsAllocated=%d SamplesPerPixel=%d Planar=%d len(frame)=%d", w, h, ba, spp, planar, l)
							reason := ""
							switch {
							case w == 0 || h == 0:
								reason = "zero_dimension"
							case segs < 1 || segs > 15:
								reason = "segment_count_outside_1..15"
							case int64(l) < need:
								reason = "short_buffer"
							}
							out, err, o := verifEncode(c, info, [][]byte{fr}, nil)
							if o.panicked || o.timedOut {
								if reason == "" {
									reason = "valid_arguments"
								}
								rep.failTag("panic_on_"+reason, "RLE@"+verifSite(o.msg), desc+" panic="+o.msg)
								continue
							}
							if err != nil {
								rep.ok()
								continue
							}
							if reason != "" {
								rep.failTag("accepted_"+reason, "RLE", fmt.Sprintf("%s -> %d frame(s), first %d bytes", desc, len(out), len(out[0])))
								continue
							}
							if len(out) != 1 {
								rep.failTag("frame_count", "RLE", desc)
								continue
							}
							if bad := verifWalkRLE(out[0], int(segs), w*h); bad != "" {
								rep.failTag("stream_malformed", "RLE", desc+" violation='"+bad+"'")
								continue
							}
							dec, derr, o := verifDecode(c, info, out, nil)
							wantLen := int(need)
							if wantLen&1 == 1 {
								wantLen++
							}
							switch {
							case o.panicked || o.timedOut:
								rep.failTag("decoder_panics_on_encoder_output@"+verifSite(o.msg), "RLE", desc+" panic="+o.msg)
							case derr != nil || len(dec) != 1:
								rep.failTag("decoder_rejects_encoder_output", "RLE", desc+" err="+verifErrStr(derr))
							case len(dec[0]) != wantLen:
								rep.failTag("decoded_geometry_differs", "RLE", fmt.Sprintf("%s decoded_len=%d want=%d", desc, len(dec[0]), wantLen))
							default:
								rep.ok()
							}
						}
					}
				}
			}
		}
	}
}
