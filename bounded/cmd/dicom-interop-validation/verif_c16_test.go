package main

// C16: every frame emitted by an encoder is exactly one self-delimiting codestream whose frame header
// declares exactly what was given to the encoder. Checked with the independent walkers of
// verif_walkers_test.go on the output of the real encoders for noise images.

import (
	"fmt"
	"testing"
	"time"

	"github.com/cocosip/go-dicom-codecs/jpeg/baseline"
	"github.com/cocosip/go-dicom-codecs/jpeg/extended"
	jpegll "github.com/cocosip/go-dicom-codecs/jpeg/lossless"
	"github.com/cocosip/go-dicom-codecs/jpeg/lossless14sv1"
	"github.com/cocosip/go-dicom-codecs/jpeg2000"
	"github.com/cocosip/go-dicom-codecs/jpeg2000/htj2k"
	jlsll "github.com/cocosip/go-dicom-codecs/jpegls/lossless"
	"github.com/cocosip/go-dicom-codecs/jpegls/nearlossless"
)

type verifWH struct{ w, h int }

// sizes whose 16-bit fields need both bytes (256=0x0100, 257=0x0101, 1000=0x03E8, 65535=0xFFFF) plus tiny ones.
// thorough: three more sizes and the whole list three times (the rng advances, so the noise differs).
func verifC16Sizes(big bool) []verifWH {
	s := []verifWH{{1, 1}, {8, 8}, {17, 13}, {256, 2}, {2, 256}, {257, 3}, {3, 257}, {1000, 3}, {3, 1000}, {256, 256}, {257, 257}}
	if big {
		s = append(s, verifWH{65535, 1}, verifWH{1, 65535})
	}
	if verifThorough() {
		s = append(s, verifWH{1000, 33}, verifWH{33, 1000}, verifWH{512, 300})
		s = append(append(append([]verifWH{}, s...), s...), s...)
	}
	return s
}

func verifC16SizeDesc(big bool) string {
	d := "sizes {1x1,8x8,17x13,256x2,2x256,257x3,3x257,1000x3,3x1000,256x256,257x257"
	if big {
		d += ",65535x1,1x65535"
	}
	if verifThorough() {
		d += ",1000x33,33x1000,512x300} x 3 noise draws"
	} else {
		d += "}"
	}
	return d
}

func verifNoise(r *verifRng, w, h, comps, bitDepth int) []byte {
	ba := 8
	if bitDepth > 8 {
		ba = 16
	}
	return verifFrame(r, w, h, ba, bitDepth, comps, 0)
}

// verifEnc runs one encoder call guarded; returns stream, error, outcome.
func verifEnc(fn func() ([]byte, error)) ([]byte, error, verifOutcome) {
	var out []byte
	var err error
	o := verifGuard(120*time.Second, func() { out, err = fn() })
	return out, err, o
}

func verifCheckJPEG(rep *verifReport, desc string, out []byte, err error, o verifOutcome, sof byte, prec, w, h, comps, predictor int) {
	switch {
	case o.panicked || o.timedOut:
		rep.fail("encoder_panic:"+o.msg, desc)
	case err != nil:
		rep.fail("encoder_error_on_valid_input", desc+" err="+verifErrStr(err))
	default:
		in, bad := verifWalkJPEG(out)
		if bad != "" {
			rep.fail("structure:"+verifCauseKey(bad), desc+" violation='"+bad+"'")
			return
		}
		if in.sof != sof || in.precision != prec || in.width != w || in.height != h || in.comps != comps ||
			(predictor > 0 && in.predictor != predictor) || in.al != 0 {
			rep.fail("header_mismatch", fmt.Sprintf("%s header: SOF=%02X P=%d X=%d Y=%d Nf=%d Ss=%d Al=%d", desc, in.sof, in.precision, in.width, in.height, in.comps, in.predictor, in.al))
			return
		}
		rep.ok()
	}
}

// verifCauseKey strips offsets/numbers so that violations group by kind.
func verifCauseKey(s string) string {
	out := make([]byte, 0, len(s))
	lastHash := false
	for i := 0; i < len(s); i++ {
		c := s[i]
		if c >= '0' && c <= '9' {
			if !lastHash {
				out = append(out, '#')
				lastHash = true
			}
			continue
		}
		lastHash = false
		if c == ' ' {
			c = '_'
		}
		out = append(out, c)
	}
	if len(out) > 70 {
		out = out[:70]
	}
	return string(out)
}

func TestVerif_C16_jpeg_dct(t *testing.T) {
	rep := verifNewReport(t, "TestVerif_C16_jpeg_dct",
		"baseline.Encode (SOF0) comps{1,3} quality{1,50,90,100}; extended.Encode 8-bit comps{1,3} and 12-bit comps{1} quality{1,75,100}; uniform noise; "+verifC16SizeDesc(true)+"; strict T.81 walker + SOF fields")
	defer rep.finish()
	r := verifNewRng(1601)
	for _, sz := range verifC16Sizes(true) {
		for _, comps := range []int{1, 3} {
			px := verifNoise(r, sz.w, sz.h, comps, 8)
			for _, q := range []int{1, 50, 90, 100} {
				out, err, o := verifEnc(func() ([]byte, error) { return baseline.Encode(px, sz.w, sz.h, comps, q) })
				verifCheckJPEG(rep, fmt.Sprintf("enc=baseline w=%d h=%d comps=%d q=%d", sz.w, sz.h, comps, q), out, err, o, 0xC0, 8, sz.w, sz.h, comps, 0)
			}
			for _, q := range []int{1, 75, 100} {
				out, err, o := verifEnc(func() ([]byte, error) { return extended.Encode(px, sz.w, sz.h, comps, 8, q) })
				// An 8-bit stream of the extended codec may legitimately be SOF0 or SOF1; accept what the stream says for the SOF type
				sof := byte(0xC1)
				if len(out) > 0 {
					if in, _ := verifWalkJPEG(out); in.sof == 0xC0 {
						sof = 0xC0
					}
				}
				verifCheckJPEG(rep, fmt.Sprintf("enc=extended8 w=%d h=%d comps=%d q=%d", sz.w, sz.h, comps, q), out, err, o, sof, 8, sz.w, sz.h, comps, 0)
			}
		}
		px12 := verifNoise(r, sz.w, sz.h, 1, 12)
		for _, q := range []int{1, 75, 100} {
			out, err, o := verifEnc(func() ([]byte, error) { return extended.Encode(px12, sz.w, sz.h, 1, 12, q) })
			verifCheckJPEG(rep, fmt.Sprintf("enc=extended12 w=%d h=%d comps=1 q=%d", sz.w, sz.h, q), out, err, o, 0xC1, 12, sz.w, sz.h, 1, 0)
		}
	}
}

func TestVerif_C16_jpeg_lossless(t *testing.T) {
	rep := verifNewReport(t, "TestVerif_C16_jpeg_lossless",
		"jpeg/lossless.Encode predictors 1..7 x bitDepth{2,8,12,16} x comps{1,3}; lossless14sv1.Encode bitDepth{2,8,12,16} x comps{1,3}; uniform noise; "+verifC16SizeDesc(true)+" (images above 60000 pixels: predictor 1,4,7 and SV1, bitDepth 8,16); strict T.81 walker + SOF3/SOS fields (P,Y,X,Nf,Ss=predictor,Pt=0)")
	defer rep.finish()
	r := verifNewRng(1602)
	for _, sz := range verifC16Sizes(true) {
		huge := sz.w*sz.h > 60000
		for _, bd := range []int{2, 8, 12, 16} {
			for _, comps := range []int{1, 3} {
				if huge && (bd == 2 || bd == 12) {
					continue
				}
				px := verifNoise(r, sz.w, sz.h, comps, bd)
				for pred := 1; pred <= 7; pred++ {
					if huge && pred != 1 && pred != 4 && pred != 7 {
						continue
					}
					out, err, o := verifEnc(func() ([]byte, error) { return jpegll.Encode(px, sz.w, sz.h, comps, bd, pred) })
					verifCheckJPEG(rep, fmt.Sprintf("enc=jpeg.lossless w=%d h=%d comps=%d bits=%d predictor=%d", sz.w, sz.h, comps, bd, pred), out, err, o, 0xC3, bd, sz.w, sz.h, comps, pred)
				}
				out, err, o := verifEnc(func() ([]byte, error) { return lossless14sv1.Encode(px, sz.w, sz.h, comps, bd) })
				verifCheckJPEG(rep, fmt.Sprintf("enc=jpeg.sv1 w=%d h=%d comps=%d bits=%d", sz.w, sz.h, comps, bd), out, err, o, 0xC3, bd, sz.w, sz.h, comps, 1)
			}
		}
	}
}

func verifCheckJLS(rep *verifReport, desc string, out []byte, err error, o verifOutcome, prec, w, h, comps, near int) {
	switch {
	case o.panicked || o.timedOut:
		rep.fail("encoder_panic:"+o.msg, desc)
	case err != nil:
		rep.fail("encoder_error_on_valid_input", desc+" err="+verifErrStr(err))
	default:
		in, bad := verifWalkJPEGLS(out)
		if bad != "" {
			rep.fail("structure:"+verifCauseKey(bad), desc+" violation='"+bad+"'")
			return
		}
		if in.precision != prec || in.width != w || in.height != h || in.comps != comps || in.near != near || in.pt != 0 {
			rep.fail("header_mismatch", fmt.Sprintf("%s header: P=%d X=%d Y=%d Nf=%d NEAR=%d ILV=%d Pt=%d", desc, in.precision, in.width, in.height, in.comps, in.near, in.ilv, in.pt))
			return
		}
		rep.ok()
	}
}

func TestVerif_C16_jpegls(t *testing.T) {
	rep := verifNewReport(t, "TestVerif_C16_jpegls",
		"jpegls/lossless.Encode bitDepth{2,8,12,16} x comps{1,3}; jpegls/nearlossless.Encode NEAR{0,1,3,10, min(255,MAXVAL/2)} x bitDepth{2,8,12,16} x comps{1,3}; uniform noise; "+verifC16SizeDesc(true)+" (images above 60000 pixels: bitDepth 8,16, NEAR 3); strict T.87 walker (SOF55, LSE, SOS NEAR/ILV, FF followed by byte<0x80 in scan, EOI last)")
	defer rep.finish()
	r := verifNewRng(1603)
	for _, sz := range verifC16Sizes(true) {
		huge := sz.w*sz.h > 60000
		for _, bd := range []int{2, 8, 12, 16} {
			if huge && (bd == 2 || bd == 12) {
				continue
			}
			for _, comps := range []int{1, 3} {
				px := verifNoise(r, sz.w, sz.h, comps, bd)
				out, err, o := verifEnc(func() ([]byte, error) { return jlsll.Encode(px, sz.w, sz.h, comps, bd) })
				verifCheckJLS(rep, fmt.Sprintf("enc=jpegls.lossless w=%d h=%d comps=%d bits=%d", sz.w, sz.h, comps, bd), out, err, o, bd, sz.w, sz.h, comps, 0)
				lim := ((1 << uint(bd)) - 1) / 2
				if lim > 255 {
					lim = 255
				}
				seen := map[int]bool{}
				for _, near := range []int{0, 1, 3, 10, lim} {
					if near > lim || seen[near] {
						continue
					}
					seen[near] = true
					if huge && near != 3 {
						continue
					}
					out, err, o := verifEnc(func() ([]byte, error) { return nearlossless.Encode(px, sz.w, sz.h, comps, bd, near) })
					verifCheckJLS(rep, fmt.Sprintf("enc=jpegls.near w=%d h=%d comps=%d bits=%d near=%d", sz.w, sz.h, comps, bd, near), out, err, o, bd, sz.w, sz.h, comps, near)
				}
			}
		}
	}
}

type verifJ2KCfg struct {
	name string
	set  func(p *jpeg2000.EncodeParams)
}

func verifCheckJ2K(rep *verifReport, desc string, out []byte, err error, o verifOutcome, p *jpeg2000.EncodeParams, ht bool) {
	switch {
	case o.panicked || o.timedOut:
		rep.fail("encoder_panic:"+o.msg, desc)
	case err != nil:
		rep.fail("encoder_error_on_valid_input", desc+" err="+verifErrStr(err))
	default:
		in, bad := verifWalkJ2K(out)
		if bad != "" {
			rep.fail("structure:"+verifCauseKey(bad), desc+" violation='"+bad+"'")
			return
		}
		wantS := byte(p.BitDepth - 1)
		if p.IsSigned {
			wantS |= 0x80
		}
		okS := len(in.ssiz) == p.Components
		for _, s := range in.ssiz {
			if s != wantS {
				okS = false
			}
		}
		wantT := 1
		if !p.Lossless {
			wantT = 0
		}
		tw, th := p.TileWidth, p.TileHeight
		if tw == 0 {
			tw = p.Width
		}
		if th == 0 {
			th = p.Height
		}
		if in.xsiz-in.xo != p.Width || in.ysiz-in.yo != p.Height || in.comps != p.Components || !okS ||
			in.transform != wantT || in.prog != int(p.ProgressionOrder) || in.layers != p.NumLayers || in.levels != p.NumLevels ||
			in.xcb != verifLog2(p.CodeBlockWidth) || in.ycb != verifLog2(p.CodeBlockHeight) || in.xt != tw || in.yt != th {
			rep.fail("header_mismatch", fmt.Sprintf("%s header: W=%d H=%d Csiz=%d Ssiz=%v transform=%d prog=%d layers=%d levels=%d xcb=%d ycb=%d XT=%d YT=%d",
				desc, in.xsiz-in.xo, in.ysiz-in.yo, in.comps, in.ssiz, in.transform, in.prog, in.layers, in.levels, in.xcb, in.ycb, in.xt, in.yt))
			return
		}
		if ht && (in.rsiz&0x4000 == 0 || !in.hasCAP || in.cbstyle&0x40 == 0) {
			rep.fail("htj2k_signalling", fmt.Sprintf("%s Rsiz=%04X CAP=%v cbstyle=%02X", desc, in.rsiz, in.hasCAP, in.cbstyle))
			return
		}
		rep.ok()
	}
}

func verifLog2(v int) int {
	n := 0
	for (1 << uint(n)) < v {
		n++
	}
	return n
}

func verifJ2KCfgs() []verifJ2KCfg {
	cfgs := []verifJ2KCfg{
		{"reversible", func(p *jpeg2000.EncodeParams) {}},
		{"irreversible_q80", func(p *jpeg2000.EncodeParams) { p.Lossless = false; p.Quality = 80 }},
		{"irreversible_q100", func(p *jpeg2000.EncodeParams) { p.Lossless = false; p.Quality = 100 }},
		{"levels0", func(p *jpeg2000.EncodeParams) { p.NumLevels = 0 }},
		{"levels2_cb16x8", func(p *jpeg2000.EncodeParams) { p.NumLevels = 2; p.CodeBlockWidth = 16; p.CodeBlockHeight = 8 }},
		{"tiled64x32", func(p *jpeg2000.EncodeParams) { p.TileWidth = 64; p.TileHeight = 32; p.NumLevels = 2 }},
		{"tiled100x100_irrev", func(p *jpeg2000.EncodeParams) {
			p.TileWidth = 100
			p.TileHeight = 100
			p.NumLevels = 3
			p.Lossless = false
		}},
		{"layers3", func(p *jpeg2000.EncodeParams) { p.NumLayers = 3 }},
		{"layers4_irrev_ratio8", func(p *jpeg2000.EncodeParams) {
			p.NumLayers = 4
			p.Lossless = false
			p.TargetRatio = 8
			p.UsePCRDOpt = true
		}},
		{"precinct32", func(p *jpeg2000.EncodeParams) { p.PrecinctWidth = 32; p.PrecinctHeight = 32; p.NumLevels = 3 }},
		// added after seeded change C16-B: the multi-tile writers with several layers / a rate target
		// (global rate allocation) are a separate code path with their own SOT/Psot computation
		{"tiled32_layers2", func(p *jpeg2000.EncodeParams) { p.TileWidth, p.TileHeight = 32, 32; p.NumLevels = 2; p.NumLayers = 2 }},
		{"tiled32_layers3_ratio4", func(p *jpeg2000.EncodeParams) {
			p.TileWidth, p.TileHeight = 32, 32
			p.NumLevels = 2
			p.NumLayers = 3
			p.TargetRatio = 4
			p.UsePCRDOpt = true
		}},
		{"tiled8_layers2_64tiles", func(p *jpeg2000.EncodeParams) { p.TileWidth, p.TileHeight = 8, 8; p.NumLevels = 1; p.NumLayers = 2 }},
		{"signed", func(p *jpeg2000.EncodeParams) { p.IsSigned = true }},
	}
	for po := 0; po <= 4; po++ {
		po := po
		cfgs = append(cfgs, verifJ2KCfg{fmt.Sprintf("prog%d_layers2_levels3", po), func(p *jpeg2000.EncodeParams) {
			p.ProgressionOrder = uint8(po)
			p.NumLayers = 2
			p.NumLevels = 3
		}})
		cfgs = append(cfgs, verifJ2KCfg{fmt.Sprintf("prog%d_tiled48_irrev", po), func(p *jpeg2000.EncodeParams) {
			p.ProgressionOrder = uint8(po)
			p.TileWidth, p.TileHeight = 48, 48
			p.NumLevels = 2
			p.Lossless = false
		}})
	}
	return cfgs
}

func TestVerif_C16_j2k(t *testing.T) {
	rep := verifNewReport(t, "TestVerif_C16_j2k",
		"jpeg2000.Encoder.Encode: configs {reversible, irreversible q80/q100, levels 0, cb16x8, tiled 64x32 / 100x100 / 48x48, layers 3, 4 layers+PCRD ratio 8, precinct 32, signed, progression 0..4 (layered and tiled)} x comps{1,3} x bitDepth{8,12,16} (subset per size); images {noise (4/7), all-max, checker, zero}; "+verifC16SizeDesc(true)+" (images above 60000 pixels: reversible + irreversible q80, 1 comp 8 bit, plus every config at 8 bit gray for 256x256/257x257); strict T.800 Annex A walker (SOC,SIZ,COD,QCD,SOT Psot chain,TLM,no FF90+ in packet data,EOC last) + SIZ/COD fields; plus ROI x {tiles 32x32, 32x16, 0x16, 24x24} x {1..3 layers, target ratio 4/6} x comps{1,3}; plus 14 ROI / MCT / MCC+MCO streams walked for structure")
	defer rep.finish()
	r := verifNewRng(1604)
	cfgs := verifJ2KCfgs()
	for si, sz := range verifC16Sizes(true) {
		huge := sz.w*sz.h > 60000
		line := sz.w == 1 || sz.h == 1
		for ci, cfg := range cfgs {
			if huge && line && ci > 1 {
				continue
			}
			for _, comps := range []int{1, 3} {
				for bi, bd := range []int{8, 12, 16} {
					// thin the product deterministically in quick tier: every config sees every size,
					// but only one (comps,bitDepth) pair rotates unless thorough
					if !verifThorough() && ci >= 3 && (si+ci+bi+comps)%3 != 0 {
						continue
					}
					if huge && (bd != 8 || comps != 1) {
						continue
					}
					p := jpeg2000.DefaultEncodeParams(sz.w, sz.h, comps, bd, false)
					cfg.set(p)
					kind := []int{0, 0, 3, 0, 4, 0, 2}[(si+ci+bi+comps)%7]
					ba := 8
					if bd > 8 {
						ba = 16
					}
					px := verifFrame(r, sz.w, sz.h, ba, bd, comps, kind)
					out, err, o := verifEnc(func() ([]byte, error) { return jpeg2000.NewEncoder(p).Encode(px) })
					verifCheckJ2K(rep, fmt.Sprintf("enc=j2k cfg=%s w=%d h=%d comps=%d bits=%d img=%d", cfg.name, sz.w, sz.h, comps, bd, kind), out, err, o, p, false)
				}
			}
		}
	}
	// ROI (RGN + COM) streams
	for _, comps := range []int{1, 3} {
		p := jpeg2000.DefaultEncodeParams(64, 48, comps, 8, false)
		p.ROI = &jpeg2000.ROIParams{X0: 8, Y0: 8, Width: 16, Height: 16, Shift: 5}
		px := verifNoise(r, 64, 48, comps, 8)
		out, err, o := verifEnc(func() ([]byte, error) { return jpeg2000.NewEncoder(p).Encode(px) })
		verifCheckJ2K(rep, fmt.Sprintf("enc=j2k cfg=roi w=64 h=48 comps=%d bits=8", comps), out, err, o, p, false)
	}
	// ROI together with tiling and with the global rate-allocation path (several layers / target ratio):
	// every tile-part header then carries RGN segments, which Psot has to count
	for _, tc := range []struct {
		tw, th, layers int
		ratio         float64
	}{{32, 32, 1, 0}, {32, 32, 2, 0}, {32, 16, 3, 0}, {0, 16, 2, 0}, {32, 32, 1, 4}, {24, 24, 3, 6}} {
		for _, comps := range []int{1, 3} {
			p := jpeg2000.DefaultEncodeParams(64, 48, comps, 8, false)
			p.TileWidth, p.TileHeight, p.NumLayers, p.TargetRatio = tc.tw, tc.th, tc.layers, tc.ratio
			p.ROI = &jpeg2000.ROIParams{X0: 8, Y0: 8, Width: 16, Height: 16, Shift: 5}
			px := verifNoise(r, 64, 48, comps, 8)
			out, err, o := verifEnc(func() ([]byte, error) { return jpeg2000.NewEncoder(p).Encode(px) })
			verifCheckJ2K(rep, fmt.Sprintf("enc=j2k cfg=roi+tiles%dx%d+layers%d+ratio%g w=64 h=48 comps=%d bits=8", tc.tw, tc.th, tc.layers, tc.ratio, comps), out, err, o, p, false)
		}
	}
	// Part 2 style streams (ROIConfig COM+RGN, custom MCT matrix, MCT/MCC/MCO bindings): structure only
	for _, st := range verifC10Streams(rep, r) {
		if _, bad := verifWalkJ2K(st.data); bad != "" {
			rep.fail("structure:"+verifCauseKey(bad), "enc=j2k stream="+st.name+" violation='"+bad+"'")
		} else {
			rep.ok()
		}
	}
}

func TestVerif_C16_htj2k(t *testing.T) {
	rep := verifNewReport(t, "TestVerif_C16_htj2k",
		"jpeg2000.Encoder with HTJ2KMode + htj2k.NewHTEncoder (as htj2k.Codec configures it): lossless and lossy q{50,90} x comps{1,3} x bitDepth{8,12,16} x levels{0,1,5 clamped} x code-block{64x64,32x32}; uniform noise and flat; "+verifC16SizeDesc(true)+" (images above 60000 pixels: 1 comp, 8 bit, levels 5, cb 64); T.800/T.814 walker incl. CAP, Rsiz bit 14, TLM sum = Psot")
	defer rep.finish()
	r := verifNewRng(1605)
	for si, sz := range verifC16Sizes(true) {
		huge := sz.w*sz.h > 60000
		for _, comps := range []int{1, 3} {
			for bi, bd := range []int{8, 12, 16} {
				for li, lv := range []int{0, 1, 5} {
					for mi, mode := range []string{"lossless", "lossy50", "lossy90"} {
						for ki, cb := range []int{64, 32} {
							_, _, _, _ = bi, li, mi, ki
							if huge && (comps != 1 || bd != 8 || lv != 5 || cb != 64) {
								continue
							}
							p := jpeg2000.DefaultEncodeParams(sz.w, sz.h, comps, bd, false)
							maxl := 0
							md := sz.w
							if sz.h < md {
								md = sz.h
							}
							for (1 << uint(maxl)) < md {
								maxl++
							}
							if maxl > 6 {
								maxl = 6
							}
							p.NumLevels = lv
							if lv > maxl {
								p.NumLevels = maxl
							}
							p.CodeBlockWidth, p.CodeBlockHeight = cb, cb
							p.ProgressionOrder = 2
							p.HTJ2KMode = true
							p.BlockEncoderFactory = func(w, h int) jpeg2000.BlockEncoder { return htj2k.NewHTEncoder(w, h) }
							switch mode {
							case "lossy50":
								p.Lossless, p.Quality = false, 50
							case "lossy90":
								p.Lossless, p.Quality = false, 90
							}
							kind := 0
							if (si+li)%5 == 4 {
								kind = 2
							}
							ba := 8
							if bd > 8 {
								ba = 16
							}
							px := verifFrame(r, sz.w, sz.h, ba, bd, comps, kind)
							out, err, o := verifEnc(func() ([]byte, error) { return jpeg2000.NewEncoder(p).Encode(px) })
							verifCheckJ2K(rep, fmt.Sprintf("enc=htj2k mode=%s w=%d h=%d comps=%d bits=%d levels=%d cb=%d img=%d", mode, sz.w, sz.h, comps, bd, p.NumLevels, cb, kind), out, err, o, p, true)
						}
					}
				}
			}
		}
	}
}

func TestVerif_C16_rle(t *testing.T) {
	rep := verifNewReport(t, "TestVerif_C16_rle",
		"rle.Codec.Encode: BitsAllocated{8,16} x SamplesPerPixel{1,3} x image{noise, zero, gradient, checker} x "+verifC16SizeDesc(true)+"; PS3.5 Annex G header walker: count=bytes*spp, offset[0]=64, even increasing offsets, unused=0, every segment PackBits-decodes to rows*cols bytes with at most one zero pad byte, even total length")
	defer rep.finish()
	r := verifNewRng(1606)
	var c = verifCodec(verifAllTS()[0].ts)
	for _, sz := range verifC16Sizes(true) {
		for _, ba := range []int{8, 16} {
			for _, spp := range []int{1, 3} {
				for _, kind := range []int{0, 2, 1, 4} {
					info := verifInfo(sz.w, sz.h, ba, ba, spp)
					fr := verifFrame(r, sz.w, sz.h, ba, ba, spp, kind)
					desc := fmt.Sprintf("enc=rle %s img=%d", verifInfoStr(info), kind)
					out, err, o := verifEncode(c, info, [][]byte{fr}, nil)
					switch {
					case o.panicked || o.timedOut:
						rep.fail("encoder_panic:"+o.msg, desc)
					case err != nil || len(out) != 1:
						rep.fail("encoder_error_on_valid_input", desc+" err="+verifErrStr(err))
					default:
						if bad := verifWalkRLE(out[0], (ba/8)*spp, sz.w*sz.h); bad != "" {
							rep.fail("structure:"+verifCauseKey(bad), desc+" violation='"+bad+"'")
						} else {
							rep.ok()
						}
					}
				}
			}
		}
	}
}

// Every registered codec, driven through Codec.Encode with default (nil) parameters on a 3-frame noise
// sequence: each emitted frame must be one well-formed stream of the right family declaring FrameInfo.
func TestVerif_C16_registered_codecs(t *testing.T) {
	rep := verifNewReport(t, "TestVerif_C16_registered_codecs",
		"Codec.Encode(nil params) of all 14 registered transfer syntaxes; 3 noise frames; FrameInfo (BA,BS) in {(8,8),(16,12),(16,16)} within syntax precision x SamplesPerPixel{1,3}; sizes {17x13,257x3,3x257}; each output frame walked with the family walker and compared with FrameInfo (width,height,components,precision)")
	defer rep.finish()
	r := verifNewRng(1607)
	for _, ts := range verifAllTS() {
		c := verifCodec(ts.ts)
		if c == nil {
			rep.fail("codec_not_registered", "ts="+ts.tag)
			continue
		}
		for _, sz := range []verifWH{{17, 13}, {257, 3}, {3, 257}} {
			for _, bb := range [][2]int{{8, 8}, {16, 12}, {16, 16}} {
				for _, spp := range []int{1, 3} {
					ba, bs := bb[0], bb[1]
					if bs > ts.maxBits || (spp == 3 && bs > ts.rgbMax) {
						continue
					}
					info := verifInfo(sz.w, sz.h, ba, bs, spp)
					frames := [][]byte{verifFrame(r, sz.w, sz.h, ba, bs, spp, 0), verifFrame(r, sz.w, sz.h, ba, bs, spp, 0), verifFrame(r, sz.w, sz.h, ba, bs, spp, 0)}
					desc := fmt.Sprintf("ts=%s %s", ts.tag, verifInfoStr(info))
					out, err, o := verifEncode(c, info, frames, nil)
					if o.panicked || o.timedOut {
						rep.fail("encoder_panic:"+o.msg, desc)
						continue
					}
					if err != nil {
						rep.fail("encoder_error_on_valid_input", desc+" err="+verifErrStr(err))
						continue
					}
					if len(out) != 3 {
						rep.fail("frame_count", fmt.Sprintf("%s frames_out=%d", desc, len(out)))
						continue
					}
					for fi, f := range out {
						d := fmt.Sprintf("%s frame=%d", desc, fi)
						switch ts.tag {
						case "RLE":
							if bad := verifWalkRLE(f, (ba/8)*spp, sz.w*sz.h); bad != "" {
								rep.fail("structure:"+verifCauseKey(bad), d+" violation='"+bad+"'")
							} else {
								rep.ok()
							}
						case ".50", ".51", ".57", ".70":
							in, bad := verifWalkJPEG(f)
							wantP := bs
							if ts.tag == ".50" || (ts.tag == ".51" && bs <= 8) {
								wantP = 8
							}
							if ts.tag == ".51" && bs > 8 {
								wantP = 12
							}
							if bad != "" {
								rep.fail("structure:"+verifCauseKey(bad), d+" violation='"+bad+"'")
							} else if in.width != sz.w || in.height != sz.h || in.comps != spp || in.precision != wantP {
								rep.fail("header_mismatch", fmt.Sprintf("%s header: SOF=%02X P=%d X=%d Y=%d Nf=%d", d, in.sof, in.precision, in.width, in.height, in.comps))
							} else {
								rep.ok()
							}
						case ".80", ".81":
							in, bad := verifWalkJPEGLS(f)
							if bad != "" {
								rep.fail("structure:"+verifCauseKey(bad), d+" violation='"+bad+"'")
							} else if in.width != sz.w || in.height != sz.h || in.comps != spp || in.precision != bs || (ts.tag == ".80" && in.near != 0) {
								rep.fail("header_mismatch", fmt.Sprintf("%s header: P=%d X=%d Y=%d Nf=%d NEAR=%d", d, in.precision, in.width, in.height, in.comps, in.near))
							} else {
								rep.ok()
							}
						default:
							in, bad := verifWalkJ2K(f)
							// HTJ2K codecs are documented to code BitsAllocated-deep samples; J2K codecs BitsStored
							okP := len(in.ssiz) == spp
							for _, s := range in.ssiz {
								pd := int(s&0x7F) + 1
								if s&0x80 != 0 || (pd != bs && !(ts.tag[:3] == ".20" && pd == ba)) {
									okP = false
								}
							}
							if bad != "" {
								rep.fail("structure:"+verifCauseKey(bad), d+" violation='"+bad+"'")
							} else if in.xsiz-in.xo != sz.w || in.ysiz-in.yo != sz.h || in.comps != spp || !okP {
								rep.fail("header_mismatch", fmt.Sprintf("%s header: W=%d H=%d Csiz=%d Ssiz=%v", d, in.xsiz-in.xo, in.ysiz-in.yo, in.comps, in.ssiz))
							} else {
								rep.ok()
							}
						}
					}
				}
			}
		}
	}
}

// Self-check of the walkers: every single-point corruption of a valid stream listed below must be
// rejected, otherwise the walkers above would be too lax to serve as an oracle.
func TestVerif_C16_walker_selfcheck(t *testing.T) {
	rep := verifNewReport(t, "TestVerif_C16_walker_selfcheck",
		"mutations of valid encoder outputs (append byte, drop end marker, length field +-1, marker code injected into entropy/packet data, Psot +-1, TLM entry +1, SOF/SIZ length, RLE offset/pad) for the JPEG, JPEG-LS, JPEG 2000, HTJ2K and RLE walkers; every mutation must be rejected")
	defer rep.finish()
	r := verifNewRng(1699)
	mut := func(b []byte, f func(c []byte) []byte) []byte { return f(append([]byte(nil), b...)) }
	findSeg := func(b []byte, marker byte) int {
		for i := 2; i+1 < len(b); i++ {
			if b[i] == 0xFF && b[i+1] == marker {
				return i
			}
		}
		return -1
	}
	check := func(fam, what string, bad string) {
		if bad == "" {
			rep.fail("walker_accepts_corruption", "family="+fam+" mutation="+what)
		} else {
			rep.ok()
		}
	}
	// ---- JPEG
	px := verifNoise(r, 40, 30, 1, 8)
	j, err := baseline.Encode(px, 40, 30, 1, 90)
	if _, bad := verifWalkJPEG(j); err != nil || bad != "" {
		rep.fail("selfcheck_base_stream_invalid", "family=jpeg "+bad)
		return
	}
	sos := findSeg(j, 0xDA)
	ent := sos + 2 + verifBE16(j, sos+2) + 10
	jm := map[string][]byte{
		"append":       mut(j, func(c []byte) []byte { return append(c, 0) }),
		"drop_eoi":     mut(j, func(c []byte) []byte { return c[:len(c)-2] }),
		"dht_len+1":    mut(j, func(c []byte) []byte { i := findSeg(c, 0xC4); c[i+3]++; return c }),
		"dqt_len-1":    mut(j, func(c []byte) []byte { i := findSeg(c, 0xDB); c[i+3]--; return c }),
		"sof_len+3":    mut(j, func(c []byte) []byte { i := findSeg(c, 0xC0); c[i+3] += 3; return c }),
		"rst_in_scan":  mut(j, func(c []byte) []byte { c[ent], c[ent+1] = 0xFF, 0xD0; return c }),
		"ff01_in_scan": mut(j, func(c []byte) []byte { c[ent], c[ent+1] = 0xFF, 0x01; return c }),
		"eoi_in_scan":  mut(j, func(c []byte) []byte { c[ent], c[ent+1] = 0xFF, 0xD9; return c }),
		"sos_se":       mut(j, func(c []byte) []byte { c[sos+2+verifBE16(c, sos+2)-2] = 62; return c }),
	}
	for k, v := range jm {
		_, bad := verifWalkJPEG(v)
		check("jpeg", k, bad)
	}
	// ---- JPEG-LS
	l, err := nearlossless.Encode(px, 40, 30, 1, 8, 2)
	if _, bad := verifWalkJPEGLS(l); err != nil || bad != "" {
		rep.fail("selfcheck_base_stream_invalid", "family=jpegls "+bad)
		return
	}
	sos = findSeg(l, 0xDA)
	ent = sos + 2 + verifBE16(l, sos+2) + 10
	lm := map[string][]byte{
		"append":       mut(l, func(c []byte) []byte { return append(c, 0) }),
		"drop_eoi":     mut(l, func(c []byte) []byte { return c[:len(c)-2] }),
		"sof_len+1":    mut(l, func(c []byte) []byte { i := findSeg(c, 0xF7); c[i+3]++; return c }),
		"sos_len+1":    mut(l, func(c []byte) []byte { c[sos+3]++; return c }),
		"ff80_in_scan": mut(l, func(c []byte) []byte { c[ent], c[ent+1] = 0xFF, 0x80; return c }),
		"eoi_in_scan":  mut(l, func(c []byte) []byte { c[ent], c[ent+1] = 0xFF, 0xD9; return c }),
		"near_200":     mut(l, func(c []byte) []byte { c[sos+2+verifBE16(c, sos+2)-3] = 200; return c }),
	}
	for k, v := range lm {
		_, bad := verifWalkJPEGLS(v)
		check("jpegls", k, bad)
	}
	// ---- JPEG 2000 (two tiles) and HTJ2K (TLM)
	p := jpeg2000.DefaultEncodeParams(40, 30, 1, 8, false)
	p.TileWidth, p.TileHeight, p.NumLevels = 32, 32, 2
	k2, err := jpeg2000.NewEncoder(p).Encode(px)
	if _, bad := verifWalkJ2K(k2); err != nil || bad != "" {
		rep.fail("selfcheck_base_stream_invalid", "family=j2k "+bad)
		return
	}
	sot := findSeg(k2, 0x90)
	sod := findSeg(k2, 0x93)
	km := map[string][]byte{
		"append":       mut(k2, func(c []byte) []byte { return append(c, 0) }),
		"drop_eoc":     mut(k2, func(c []byte) []byte { return c[:len(c)-2] }),
		"psot+1":       mut(k2, func(c []byte) []byte { c[sot+9]++; return c }),
		"psot-1":       mut(k2, func(c []byte) []byte { c[sot+9]--; return c }),
		"siz_len+1":    mut(k2, func(c []byte) []byte { c[5]++; return c }),
		"cod_len+1":    mut(k2, func(c []byte) []byte { i := findSeg(c, 0x52); c[i+3]++; return c }),
		"qcd_len-1":    mut(k2, func(c []byte) []byte { i := findSeg(c, 0x5C); c[i+3]--; return c }),
		"ff91_in_data": mut(k2, func(c []byte) []byte { c[sod+4], c[sod+5] = 0xFF, 0x91; return c }),
		"ffd9_in_data": mut(k2, func(c []byte) []byte { c[sod+4], c[sod+5] = 0xFF, 0xD9; return c }),
		"tpsot":        mut(k2, func(c []byte) []byte { c[sot+10] = 1; return c }),
		"cblk_exp":     mut(k2, func(c []byte) []byte { i := findSeg(c, 0x52); c[i+10], c[i+11] = 5, 5; return c }),
	}
	for k, v := range km {
		_, bad := verifWalkJ2K(v)
		check("j2k", k, bad)
	}
	ph := jpeg2000.DefaultEncodeParams(40, 30, 1, 8, false)
	ph.NumLevels, ph.ProgressionOrder, ph.HTJ2KMode = 2, 2, true
	ph.BlockEncoderFactory = func(w, h int) jpeg2000.BlockEncoder { return htj2k.NewHTEncoder(w, h) }
	h2, err := jpeg2000.NewEncoder(ph).Encode(px)
	hin, bad := verifWalkJ2K(h2)
	if err != nil || bad != "" || !hin.hasTLM {
		rep.fail("selfcheck_base_stream_invalid", fmt.Sprintf("family=htj2k %s tlm=%v", bad, hin.hasTLM))
		return
	}
	tlm := findSeg(h2, 0x55)
	hm := map[string][]byte{
		"tlm_ptlm+1": mut(h2, func(c []byte) []byte { c[tlm+2+verifBE16(c, tlm+2)-1]++; return c }),
		"tlm_len+6":  mut(h2, func(c []byte) []byte { c[tlm+3] += 6; return c }),
		"cap_len+2":  mut(h2, func(c []byte) []byte { i := findSeg(c, 0x50); c[i+3] += 2; return c }),
	}
	for k, v := range hm {
		_, bad := verifWalkJ2K(v)
		check("htj2k", k, bad)
	}
	// ---- RLE
	info := verifInfo(40, 30, 16, 16, 1)
	rl, e2, _ := verifEncode(verifCodec(verifAllTS()[0].ts), info, [][]byte{verifFrame(r, 40, 30, 16, 16, 1, 0)}, nil)
	if e2 != nil || len(rl) != 1 || verifWalkRLE(rl[0], 2, 1200) != "" {
		rep.fail("selfcheck_base_stream_invalid", "family=rle")
		return
	}
	rm := map[string][]byte{
		"append":     mut(rl[0], func(c []byte) []byte { return append(c, 0) }),
		"append2":    mut(rl[0], func(c []byte) []byte { return append(c, 0, 0) }),
		"count3":     mut(rl[0], func(c []byte) []byte { c[0] = 3; return c }),
		"offset0_66": mut(rl[0], func(c []byte) []byte { c[4] = 66; return c }),
		"offset1+2":  mut(rl[0], func(c []byte) []byte { c[8] += 2; return c }),
		"unused_off": mut(rl[0], func(c []byte) []byte { c[12] = 4; return c }),
		"truncate2":  mut(rl[0], func(c []byte) []byte { return c[:len(c)-2] }),
	}
	for k, v := range rm {
		check("rle", k, verifWalkRLE(v, 2, 1200))
	}
}
