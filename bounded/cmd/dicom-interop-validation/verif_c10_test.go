package main

// C10: one output frame per input frame, same order; output frame i depends only on input frame i,
// FrameInfo and parameters (not on other frames, earlier calls on the same object, or timing);
// input buffers unmodified; decoded frame length = Rows x Columns x SamplesPerPixel x ceil(BitsAllocated/8)
// (RLE rounded up to even); for lossless transfer syntaxes decoded bytes equal the source frame.

import (
	"fmt"
	"sync"
	"testing"
	"time"

	"github.com/cocosip/go-dicom-codecs/jpeg2000"
	"github.com/cocosip/go-dicom-codecs/jpeg2000/htj2k"
	"github.com/cocosip/go-dicom/pkg/imaging/codec"
)

type verifCombo struct{ ba, bs, spp int }

// FrameInfo domain: BitsAllocated {8,16}, 1 < BitsStored <= BitsAllocated within the precision the syntax supports, spp {1,3}.
func verifC10Combos(ts verifTS) []verifCombo {
	var out []verifCombo
	for _, spp := range []int{1, 3} {
		for _, ba := range []int{8, 16} {
			var bss []int
			if ba == 8 {
				bss = []int{2, 7, 8}
			} else {
				bss = []int{2, 8, 9, 12, 15, 16}
			}
			for _, bs := range bss {
				if bs > ts.maxBits || (spp == 3 && bs > ts.rgbMax) {
					continue
				}
				if verifContains(ts.tag, ".20") && !verifThorough() {
					// HTJ2K codes BitsAllocated-deep samples and one decode costs 7-15 ms: the quick tier keeps
					// gray (8,2),(8,8),(16,8),(16,12),(16,16) and RGB (8,8),(16,16)
					keep := (spp == 1 && (bs == 8 || bs == 12 || bs == 16 || (ba == 8 && bs == 2))) || (spp == 3 && bs == ba)
					if !keep {
						continue
					}
				}
				out = append(out, verifCombo{ba, bs, spp})
			}
		}
	}
	return out
}

type verifC10Shared struct {
	count, inputs, length, identity *verifReport
}

var (
	verifC10Once sync.Once
	verifC10Res  *verifC10Shared
)

func verifC10Sequences(r *verifRng) [][]int {
	seqs := [][]int{
		{0},
		{4, 2, 0, 3, 1},          // permutation of the pool
		{2, 3},                   // sub-sequence
		{1, 1, 1, 1, 1, 1, 1, 1}, // same frame repeated, length 8
		{0, 3, 0, 3, 0, 3},       // alternating noise / all-zero
		{4, 0, 4, 0},             // alternating all-max / noise
	}
	for k := 0; k < 2; k++ { // random
		n := 2 + r.intn(7)
		s := make([]int, n)
		for i := range s {
			s[i] = r.intn(5)
		}
		seqs = append(seqs, s)
	}
	return seqs
}

func verifC10Pass() *verifC10Shared {
	verifC10Once.Do(func() {
		dom := "all 14 registered syntaxes {RLE,.50,.51,.57,.70,.80,.81,.90,.91,.92,.93,.201,.202,.203} via Codec.Encode/Decode(nil params); FrameInfo BA{8,16} x BS{2,7,8 | 2,8,9,12,15,16} (<= syntax precision; .51 RGB only <=8; HTJ2K quick tier: gray (8,2),(8,8),(16,8),(16,12),(16,16), RGB (8,8),(16,16), sequences 0..2 decoded) x spp{1,3}; image 11x9 (+16x8 thorough); pool of 5 frames {noise,noise,gradient,zero,max}; sequences: len1, permutation, sub-sequence, 8x same frame, alternating noise/zero, alternating max/noise, 2 random of len 2..8"
		s := &verifC10Shared{
			count:    verifNewReport(nil, "TestVerif_C10_frame_count_order_independence", dom+"; checks: #out==#in, Encode(seq)[i]==Encode([seq[i]])[0], Decode(seq)[i]==Decode([seq[i]])[0], repeat call byte-identical"),
			inputs:   verifNewReport(nil, "TestVerif_C10_inputs_unmodified", dom+"; check: every source frame buffer and every encoded frame buffer handed to Encode/Decode is byte-identical afterwards"),
			length:   verifNewReport(nil, "TestVerif_C10_decoded_length", dom+"; check: len(decoded frame)==W*H*spp*ceil(BA/8) (RLE rounded up to even)"),
			identity: verifNewReport(nil, "TestVerif_C10_lossless_identity", "lossless syntaxes {RLE,.57,.70,.80,.90,.92,.201,.202}; same FrameInfo/frames as C10_frame_count_order_independence; check: decoded bytes == source frame (sample values < 2^BitsStored)"),
		}
		verifC10Res = s
		r := verifNewRng(1001)
		sizes := []verifWH{{11, 9}}
		if verifThorough() {
			sizes = append(sizes, verifWH{16, 8})
		}
		rejected := map[string]int{}
		for _, ts := range verifAllTS() {
			c := verifCodec(ts.ts)
			if c == nil {
				s.count.fail("codec_not_registered", "ts="+ts.tag)
				continue
			}
			for _, sz := range sizes {
				for _, cb := range verifC10Combos(ts) {
					info := verifInfo(sz.w, sz.h, cb.ba, cb.bs, cb.spp)
					desc := fmt.Sprintf("ts=%s %s", ts.tag, verifInfoStr(info))
					pool := make([][]byte, 5)
					for k, kind := range []int{0, 0, 1, 2, 3} {
						pool[k] = verifFrame(r, sz.w, sz.h, cb.ba, cb.bs, cb.spp, kind)
					}
					// F: single-frame encode of every pool frame
					F := make([][]byte, 5)
					rejectedCombo := false
					for k := range pool {
						out, err, o := verifEncode(c, info, [][]byte{pool[k]}, nil)
						if o.panicked || o.timedOut {
							s.count.failTag("encode_panic:"+o.msg, ts.tag, fmt.Sprintf("%s frames=1 img=%d", desc, k))
							rejectedCombo = true
							break
						}
						if o.inputMutated {
							s.inputs.failTag("encode_modified_source_frame", ts.tag, fmt.Sprintf("%s img=%d %s", desc, k, o.mutatedAt))
						} else {
							s.inputs.ok()
						}
						if err != nil {
							rejected[fmt.Sprintf("%s(ba=%d,bs=%d,spp=%d)", ts.tag, cb.ba, cb.bs, cb.spp)]++
							rejectedCombo = true
							break
						}
						if len(out) != 1 {
							s.count.failTag("encode_frame_count", ts.tag, fmt.Sprintf("%s frames_in=1 frames_out=%d", desc, len(out)))
							rejectedCombo = true
							break
						}
						s.count.ok()
						F[k] = out[0]
					}
					if rejectedCombo {
						continue
					}
					// G: single-frame decode of every F
					G := make([][]byte, 5)
					decodable := true
					want := sz.w * sz.h * cb.spp * ((cb.ba + 7) / 8)
					if ts.isRLE && want&1 == 1 {
						want++
					}
					for k := range F {
						out, err, o := verifDecode(c, info, [][]byte{F[k]}, nil)
						if o.panicked || o.timedOut {
							s.count.failTag("decode_panic:"+o.msg, ts.tag, fmt.Sprintf("%s frames=1 img=%d", desc, k))
							decodable = false
							break
						}
						if o.inputMutated {
							s.inputs.failTag("decode_modified_encoded_frame", ts.tag, fmt.Sprintf("%s img=%d %s", desc, k, o.mutatedAt))
						} else {
							s.inputs.ok()
						}
						if err != nil || len(out) != 1 {
							s.count.failTag("decode_of_own_output_failed", ts.tag, fmt.Sprintf("%s frames=1 img=%d err=%s frames_out=%d", desc, k, verifErrStr(err), len(out)))
							decodable = false
							break
						}
						s.count.ok()
						G[k] = out[0]
						if len(out[0]) != want {
							s.length.failTag("decoded_length:"+verifLenCause(len(out[0]), sz.w, sz.h, cb.spp, cb.ba), ts.tag, fmt.Sprintf("%s img=%d got=%d want=%d", desc, k, len(out[0]), want))
						} else {
							s.length.ok()
						}
						if ts.lossless {
							src := pool[k]
							if len(out[0]) >= len(src) && verifEqualBytes(out[0][:len(src)], src) && len(out[0]) == want {
								s.identity.ok()
							} else if len(out[0]) != want {
								s.identity.failTag("length_differs_from_source", ts.tag, fmt.Sprintf("%s img=%d got=%d want=%d", desc, k, len(out[0]), want))
							} else {
								s.identity.failTag("decoded_bytes_differ", ts.tag, fmt.Sprintf("%s img=%d first_diff=%d", desc, k, verifFirstDiff(out[0], src)))
							}
						}
					}
					// sequences
					for si, seq := range verifC10Sequences(r) {
						frames := make([][]byte, len(seq))
						for i, k := range seq {
							frames[i] = pool[k]
						}
						sd := fmt.Sprintf("%s seq=%v", desc, seq)
						out, err, o := verifEncode(c, info, frames, nil)
						if o.panicked || o.timedOut {
							s.count.failTag("encode_panic:"+o.msg, ts.tag, sd)
							continue
						}
						if o.inputMutated {
							s.inputs.failTag("encode_modified_source_frame", ts.tag, sd+" "+o.mutatedAt)
						} else {
							s.inputs.ok()
						}
						if err != nil {
							s.count.failTag("encode_sequence_error_but_single_frames_ok", ts.tag, sd+" err="+verifErrStr(err))
							continue
						}
						if len(out) != len(seq) {
							s.count.failTag("encode_frame_count", ts.tag, fmt.Sprintf("%s frames_out=%d", sd, len(out)))
							continue
						}
						bad := -1
						for i, k := range seq {
							if !verifEqualBytes(out[i], F[k]) {
								bad = i
								break
							}
						}
						if bad >= 0 {
							s.count.failTag("encode_frame_depends_on_context", ts.tag, fmt.Sprintf("%s index=%d", sd, bad))
						} else {
							s.count.ok()
						}
						if !decodable {
							continue
						}
						if verifContains(ts.tag, ".20") && si >= 3 && !verifThorough() {
							continue // HTJ2K decode is slow: quick tier decodes sequences 0..2 only
						}
						dec, err, o := verifDecode(c, info, out, nil)
						if o.panicked || o.timedOut {
							s.count.failTag("decode_panic:"+o.msg, ts.tag, sd)
							continue
						}
						if o.inputMutated {
							s.inputs.failTag("decode_modified_encoded_frame", ts.tag, sd+" "+o.mutatedAt)
						} else {
							s.inputs.ok()
						}
						if err != nil {
							s.count.failTag("decode_sequence_error_but_single_frames_ok", ts.tag, sd+" err="+verifErrStr(err))
							continue
						}
						if len(dec) != len(seq) {
							s.count.failTag("decode_frame_count", ts.tag, fmt.Sprintf("%s frames_out=%d", sd, len(dec)))
							continue
						}
						bad = -1
						for i, k := range seq {
							if !verifEqualBytes(dec[i], G[k]) {
								bad = i
								break
							}
						}
						if bad >= 0 {
							s.count.failTag("decode_frame_depends_on_context", ts.tag, fmt.Sprintf("%s index=%d", sd, bad))
						} else {
							s.count.ok()
						}
					}
					// determinism: repeat the very first call last
					out, err, o := verifEncode(c, info, [][]byte{pool[0]}, nil)
					if o.panicked || o.timedOut || err != nil || len(out) != 1 || !verifEqualBytes(out[0], F[0]) {
						s.count.failTag("encode_not_repeatable", ts.tag, desc+" img=0 err="+verifErrStr(err))
					} else {
						s.count.ok()
					}
				}
			}
		}
		if len(rejected) > 0 {
			keys := ""
			n := 0
			for _, ts := range verifAllTS() {
				for _, cb := range verifC10Combos(ts) {
					k := fmt.Sprintf("%s(ba=%d,bs=%d,spp=%d)", ts.tag, cb.ba, cb.bs, cb.spp)
					if rejected[k] > 0 {
						n++
						if n <= 12 {
							keys += " " + k
						}
					}
				}
			}
			s.count.note(fmt.Sprintf("%d FrameInfo combos rejected by Encode with an error (not counted as failures):%s", n, keys))
		}
	})
	return verifC10Res
}

func verifLenCause(got, w, h, spp, ba int) string {
	samples := w * h * spp
	switch {
	case got == samples && ba == 16:
		return "one_byte_per_sample_although_BitsAllocated_16"
	case got == 2*samples && ba == 8:
		return "two_bytes_per_sample_although_BitsAllocated_8"
	case got == ((w+7)/8*8)*((h+7)/8*8)*spp || got == ((w+15)/16*16)*((h+15)/16*16)*spp:
		return "includes_MCU_padding(stride)"
	}
	return "other"
}

func verifFirstDiff(a, b []byte) int {
	n := len(a)
	if len(b) < n {
		n = len(b)
	}
	for i := 0; i < n; i++ {
		if a[i] != b[i] {
			return i
		}
	}
	if len(a) != len(b) {
		return n
	}
	return -1
}

func TestVerif_C10_frame_count_order_independence(t *testing.T) {
	r := verifC10Pass().count
	r.t = t
	r.finish()
}

func TestVerif_C10_inputs_unmodified(t *testing.T) {
	r := verifC10Pass().inputs
	r.t = t
	r.finish()
}

func TestVerif_C10_decoded_length(t *testing.T) {
	r := verifC10Pass().length
	r.t = t
	r.finish()
}

func TestVerif_C10_lossless_identity(t *testing.T) {
	r := verifC10Pass().identity
	r.t = t
	r.finish()
}

// ---------------------------------------------------------------- call history on one codec object

// Parameter variations applied between the reference calls (through the generic SetParameter interface).
func verifC10Vary(ts verifTS, p codec.Parameters) {
	switch ts.tag {
	case ".50", ".51", ".203":
		p.SetParameter("quality", 31)
	case ".57", ".70":
		p.SetParameter("predictor", 4)
	case ".81":
		p.SetParameter("near", 9)
	case ".90", ".92":
		p.SetParameter("numLevels", 1)
		p.SetParameter("progressionOrder", 3)
	case ".91", ".93":
		p.SetParameter("rate", 40)
		p.SetParameter("numLevels", 2)
	case ".201", ".202":
		p.SetParameter("numLevels", 1)
		p.SetParameter("blockWidth", 32)
		p.SetParameter("blockHeight", 32)
	}
}

func TestVerif_C10_codec_call_history(t *testing.T) {
	rep := verifNewReport(t, "TestVerif_C10_codec_call_history",
		"each of the 14 registered codec objects: reference E1=Enc(I1,nil),D1=Dec(E1) taken first; then history {Enc(I2,nil), Dec(E2), Enc(I2,varied params: quality/predictor/near/numLevels/rate/block size), Dec of that, Enc(I3,nil), Dec(E3)} with I2,I3 unrelated (other size, bit depth, spp, flat vs noise); after every history step Enc(I1,nil) and Dec(E1) must reproduce E1/D1 byte for byte; I1 in {8-bit gray 13x7, 8-bit RGB 9x9, 16/12-bit gray 10x6 where supported}")
	defer rep.finish()
	r := verifNewRng(1002)
	for _, ts := range verifAllTS() {
		c := verifCodec(ts.ts)
		if c == nil {
			continue
		}
		type img struct {
			info   [5]int
			frames [][]byte
		}
		mk := func(w, h, ba, bs, spp, kind, n int) img {
			fs := make([][]byte, n)
			for i := range fs {
				fs[i] = verifFrame(r, w, h, ba, bs, spp, kind)
			}
			return img{[5]int{w, h, ba, bs, spp}, fs}
		}
		hi := 12
		if ts.maxBits < 12 {
			hi = 8
		}
		hb := 16
		if hi == 8 {
			hb = 8
		}
		refs := []img{mk(13, 7, 8, 8, 1, 0, 2), mk(9, 9, 8, 8, 3, 0, 1), mk(10, 6, hb, hi, 1, 0, 2)}
		others := []img{mk(32, 20, 8, 8, 3, 1, 1), mk(5, 40, hb, hi, 1, 3, 3), mk(24, 24, 8, 7, 1, 0, 1), mk(7, 5, 8, 8, 3, 2, 2)}
		for ri, I1 := range refs {
			info1 := verifInfo(I1.info[0], I1.info[1], I1.info[2], I1.info[3], I1.info[4])
			desc := fmt.Sprintf("ts=%s ref=%d %s", ts.tag, ri, verifInfoStr(info1))
			E1, err, o := verifEncode(c, info1, I1.frames, nil)
			if o.panicked || o.timedOut || err != nil {
				rep.note(fmt.Sprintf("%s ref %d not encodable (%s%s)", ts.tag, ri, verifErrStr(err), o.msg))
				continue
			}
			D1, derr, o := verifDecode(c, info1, E1, nil)
			if o.panicked || o.timedOut || derr != nil {
				rep.fail("decode_of_own_output_failed", desc+" err="+verifErrStr(derr)+o.msg)
				continue
			}
			recheck := func(step string) {
				e, err, o := verifEncode(c, info1, I1.frames, nil)
				okE := !o.panicked && !o.timedOut && err == nil && len(e) == len(E1)
				if okE {
					for i := range e {
						okE = okE && verifEqualBytes(e[i], E1[i])
					}
				}
				if !okE {
					rep.failTag("encode_depends_on_earlier_calls", ts.tag, desc+" after="+step+" err="+verifErrStr(err)+o.msg)
				} else {
					rep.ok()
				}
				d, err, o := verifDecode(c, info1, E1, nil)
				okD := !o.panicked && !o.timedOut && err == nil && len(d) == len(D1)
				if okD {
					for i := range d {
						okD = okD && verifEqualBytes(d[i], D1[i])
					}
				}
				if !okD {
					rep.failTag("decode_depends_on_earlier_calls", ts.tag, desc+" after="+step+" err="+verifErrStr(err)+o.msg)
				} else {
					rep.ok()
				}
			}
			for oi, I2 := range others {
				info2 := verifInfo(I2.info[0], I2.info[1], I2.info[2], I2.info[3], I2.info[4])
				E2, err, _ := verifEncode(c, info2, I2.frames, nil)
				recheck(fmt.Sprintf("Enc(other%d,nil)", oi))
				if err == nil && len(E2) > 0 {
					verifDecode(c, info2, E2, nil)
					recheck(fmt.Sprintf("Dec(other%d)", oi))
				}
				p := c.GetDefaultParameters()
				if p != nil {
					verifC10Vary(ts, p)
					E3, err, _ := verifEncode(c, info2, I2.frames, p)
					recheck(fmt.Sprintf("Enc(other%d,varied)", oi))
					if err == nil && len(E3) > 0 {
						verifDecode(c, info2, E3, p)
						recheck(fmt.Sprintf("Dec(other%d,varied)", oi))
					}
				}
				// decode of garbage / truncated stream must not poison the object either
				if len(E2) > 0 && len(E2[0]) > 8 {
					verifDecode(c, info2, [][]byte{E2[0][:len(E2[0])/2]}, nil)
					recheck(fmt.Sprintf("Dec(truncated other%d)", oi))
				}
			}
		}
	}
}

// ---------------------------------------------------------------- jpeg2000.Decoder object reuse

type verifJ2KStream struct {
	name string
	data []byte
	roi  *jpeg2000.ROIParams // legacy ROI needs SetROI on the decoder
}

func verifC10Streams(rep *verifReport, r *verifRng) []verifJ2KStream {
	var out []verifJ2KStream
	add := func(name string, w, h, comps, bd int, set func(p *jpeg2000.EncodeParams), kind int) {
		p := jpeg2000.DefaultEncodeParams(w, h, comps, bd, false)
		p.NumLevels = 2
		if set != nil {
			set(p)
		}
		ba := 8
		if bd > 8 {
			ba = 16
		}
		px := verifFrame(r, w, h, ba, bd, comps, kind)
		data, err, o := verifEnc(func() ([]byte, error) { return jpeg2000.NewEncoder(p).Encode(px) })
		if o.panicked || o.timedOut || err != nil {
			rep.note(fmt.Sprintf("stream %s not produced (%s%s)", name, verifErrStr(err), o.msg))
			return
		}
		out = append(out, verifJ2KStream{name: name, data: data, roi: nil})
	}
	ident3 := [][]float64{{1, 0, 0}, {0, 1, 0}, {0, 0, 1}}
	swap3 := [][]float64{{0, 1, 0}, {1, 0, 0}, {0, 0, 1}}
	add("gray8_24x16_plain", 24, 16, 1, 8, nil, 0)
	add("gray8_24x16_plain_other", 24, 16, 1, 8, nil, 1)
	add("gray16_20x10_plain", 20, 10, 1, 16, nil, 0)
	add("rgb8_24x16_rct", 24, 16, 3, 8, nil, 0)
	add("rgb8_24x16_nomct", 24, 16, 3, 8, func(p *jpeg2000.EncodeParams) { p.EnableMCT = false }, 0)
	add("rgb8_24x16_ict_lossy", 24, 16, 3, 8, func(p *jpeg2000.EncodeParams) { p.Lossless = false; p.Quality = 90 }, 0)
	add("rgb8_12x12_rct", 12, 12, 3, 8, nil, 1)
	add("gray8_24x16_roicfg", 24, 16, 1, 8, func(p *jpeg2000.EncodeParams) {
		p.ROIConfig = &jpeg2000.ROIConfig{DefaultShift: 5, DefaultStyle: jpeg2000.ROIStyleMaxShift,
			ROIs: []jpeg2000.ROIRegion{{ID: "a", Rect: &jpeg2000.ROIParams{X0: 4, Y0: 4, Width: 8, Height: 6}, Shift: 5}}}
	}, 0)
	add("rgb8_24x16_roicfg", 24, 16, 3, 8, func(p *jpeg2000.EncodeParams) {
		p.ROIConfig = &jpeg2000.ROIConfig{DefaultShift: 4, DefaultStyle: jpeg2000.ROIStyleMaxShift,
			ROIs: []jpeg2000.ROIRegion{{ID: "a", Rect: &jpeg2000.ROIParams{X0: 2, Y0: 2, Width: 10, Height: 10}, Shift: 4},
				{ID: "b", Rect: &jpeg2000.ROIParams{X0: 14, Y0: 6, Width: 6, Height: 6}, Shift: 4}}}
	}, 0)
	add("gray16_40x30_roicfg_big", 40, 30, 1, 16, func(p *jpeg2000.EncodeParams) {
		p.ROIConfig = &jpeg2000.ROIConfig{DefaultShift: 3, DefaultStyle: jpeg2000.ROIStyleMaxShift,
			ROIs: []jpeg2000.ROIRegion{{ID: "a", Rect: &jpeg2000.ROIParams{X0: 25, Y0: 20, Width: 10, Height: 8}, Shift: 3}}}
	}, 0)
	add("rgb8_24x16_mctmatrix_swap", 24, 16, 3, 8, func(p *jpeg2000.EncodeParams) {
		p.MCTMatrix, p.InverseMCTMatrix, p.MCTReversible = swap3, swap3, true
	}, 0)
	add("rgb8_24x16_mctmatrix_ident_offsets", 24, 16, 3, 8, func(p *jpeg2000.EncodeParams) {
		p.MCTMatrix, p.InverseMCTMatrix, p.MCTReversible = ident3, ident3, true
		p.MCTOffsets = []int32{7, -3, 11}
	}, 0)
	add("rgb8_24x16_mctbinding", 24, 16, 3, 8, func(p *jpeg2000.EncodeParams) {
		b := jpeg2000.NewMCTBinding().Assoc(2).Components([]uint16{0, 1, 2}).Matrix(swap3).Inverse(swap3).
			Offsets([]int32{5, -5, 9}).ElementType(1).MCOPrecision(1).Build()
		p.MCTBindings = []jpeg2000.MCTBindingParams{b}
	}, 0)
	add("2comp8_24x16_mctbinding", 24, 16, 2, 8, func(p *jpeg2000.EncodeParams) {
		b := jpeg2000.NewMCTBinding().Assoc(2).Components([]uint16{0, 1}).Matrix([][]float64{{0, 1}, {1, 0}}).Inverse([][]float64{{0, 1}, {1, 0}}).
			Offsets([]int32{5, -5}).ElementType(1).MCOPrecision(1).Build()
		p.MCTBindings = []jpeg2000.MCTBindingParams{b}
		p.NumLevels = 0
	}, 0)
	return out
}

type verifDecResult struct {
	err     string
	px      []byte
	w, h, c int
	outcome verifOutcome
}

func verifJ2KDecodeOn(d *jpeg2000.Decoder, data []byte) verifDecResult {
	var res verifDecResult
	given := append([]byte(nil), data...)
	res.outcome = verifGuard(60*time.Second, func() {
		if err := d.Decode(given); err != nil {
			res.err = "error: " + verifErrStr(err)
			return
		}
		res.px = append([]byte(nil), d.GetPixelData()...)
		res.w, res.h, res.c = d.Width(), d.Height(), d.Components()
	})
	if res.outcome.panicked {
		res.err = "panic:" + res.outcome.msg
	}
	if d := verifFirstDiff(given, data); d >= 0 && !res.outcome.timedOut {
		res.outcome.inputMutated = true
		res.outcome.mutatedAt = fmt.Sprintf("offset=%d len=%d", d, len(data))
	}
	return res
}

func verifSameDec(a, b verifDecResult) bool {
	return a.err == b.err && a.w == b.w && a.h == b.h && a.c == b.c && verifEqualBytes(a.px, b.px)
}

func TestVerif_C10_j2k_decoder_history(t *testing.T) {
	rep := verifNewReport(t, "TestVerif_C10_j2k_decoder_history",
		"one jpeg2000.Decoder object: all ordered pairs (A then B, incl. A==B) of 14 codestreams {gray8/gray16/RGB plain, RGB with RCT / without MCT / ICT lossy, ROIConfig (COM JP2ROI + RGN) gray, RGB and 40x30, custom MCT matrix (swap, identity+offsets), MCT/MCC/MCO bindings 3-comp and 2-comp}; result of B on the reused decoder (error status, W,H,comps, pixel bytes) must equal B on a fresh jpeg2000.NewDecoder(); plus triples A,B,A")
	defer rep.finish()
	r := verifNewRng(1003)
	streams := verifC10Streams(rep, r)
	fresh := make([]verifDecResult, len(streams))
	for i, s := range streams {
		fresh[i] = verifJ2KDecodeOn(jpeg2000.NewDecoder(), s.data)
		if fresh[i].err != "" {
			rep.note(fmt.Sprintf("fresh decode of %s gives %s", s.name, fresh[i].err))
		}
	}
	pairOK := map[[2]int]bool{}
	for i, a := range streams {
		for j, b := range streams {
			d := jpeg2000.NewDecoder()
			verifJ2KDecodeOn(d, a.data)
			got := verifJ2KDecodeOn(d, b.data)
			desc := fmt.Sprintf("first=%s second=%s fresh(second)={err=%q %dx%dx%d} reused={err=%q %dx%dx%d first_diff=%d}", a.name, b.name,
				fresh[j].err, fresh[j].w, fresh[j].h, fresh[j].c, got.err, got.w, got.h, got.c, verifFirstDiff(got.px, fresh[j].px))
			if !verifSameDec(got, fresh[j]) {
				rep.failTag("decoder_state_leak_"+verifLeakKind(a.name), b.name, desc)
			} else {
				rep.ok()
				pairOK[[2]int{i, j}] = true
			}
		}
	}
	// triples A,B,A only where both pairs behaved (otherwise the cause is already reported above)
	for i, a := range streams {
		for j, b := range streams {
			if i == j || !pairOK[[2]int{i, j}] || !pairOK[[2]int{j, i}] {
				continue
			}
			d := jpeg2000.NewDecoder()
			verifJ2KDecodeOn(d, a.data)
			verifJ2KDecodeOn(d, b.data)
			got3 := verifJ2KDecodeOn(d, a.data)
			if !verifSameDec(got3, fresh[i]) {
				rep.failTag("decoder_state_leak_triple", a.name+","+b.name+","+a.name, fmt.Sprintf("history=%s,%s,%s reused={err=%q first_diff=%d}", a.name, b.name, a.name, got3.err, verifFirstDiff(got3.px, fresh[i].px)))
			} else {
				rep.ok()
			}
		}
	}
	// Decoder.Decode must not write into the caller's codestream buffer
	{
		ph := jpeg2000.DefaultEncodeParams(24, 16, 1, 8, false)
		ph.NumLevels, ph.ProgressionOrder, ph.HTJ2KMode = 2, 2, true
		ph.BlockEncoderFactory = func(w, h int) jpeg2000.BlockEncoder { return htj2k.NewHTEncoder(w, h) }
		px := verifFrame(r, 24, 16, 8, 8, 1, 0)
		if data, err := jpeg2000.NewEncoder(ph).Encode(px); err == nil {
			// one tile in several tile-parts (one per resolution), as htj2k.Codec emits
			streams = append(streams, verifJ2KStream{name: "htj2k_gray8_24x16_multi_tilepart", data: data})
		}
	}
	for _, sst := range streams {
		res := verifJ2KDecodeOn(jpeg2000.NewDecoder(), sst.data)
		if res.outcome.inputMutated {
			rep.failTag("decode_modified_codestream_buffer", sst.name, "stream="+sst.name+" "+res.outcome.mutatedAt)
		} else {
			rep.ok()
		}
	}
}

func verifLeakKind(name string) string {
	switch {
	case verifContains(name, "roicfg"):
		return "after_ROIConfig_stream"
	case verifContains(name, "mctbinding"):
		return "after_MCC_binding_stream"
	case verifContains(name, "mctmatrix"):
		return "after_MCT_matrix_stream"
	}
	return "after_plain_stream"
}

func verifContains(s, sub string) bool {
	for i := 0; i+len(sub) <= len(s); i++ {
		if s[i:i+len(sub)] == sub {
			return true
		}
	}
	return false
}

// ---------------------------------------------------------------- jpeg2000.Encoder object reuse

func TestVerif_C10_j2k_encoder_history(t *testing.T) {
	rep := verifNewReport(t, "TestVerif_C10_j2k_encoder_history",
		"one jpeg2000.Encoder object per config {reversible, irreversible q60, layers3+PCRD ratio 6, tiled 16x16, ROI rect, ROIConfig, RGB RCT, RGB ICT, RGB MCT binding, HTJ2K lossless, HTJ2K lossy} x bitDepth{8,12}: Encode(A),Encode(B),Encode(A),Encode(C),Encode(B) with A noise, B flat/zero, C gradient (same geometry); each output must equal the output of a fresh Encoder for the same input; input buffers unmodified")
	defer rep.finish()
	r := verifNewRng(1004)
	type cfg struct {
		name  string
		comps int
		set   func(p *jpeg2000.EncodeParams)
	}
	swap3 := [][]float64{{0, 1, 0}, {1, 0, 0}, {0, 0, 1}}
	cfgs := []cfg{
		{"reversible", 1, nil},
		{"irreversible_q60", 1, func(p *jpeg2000.EncodeParams) { p.Lossless = false; p.Quality = 60 }},
		{"layers3_pcrd", 1, func(p *jpeg2000.EncodeParams) {
			p.Lossless = false
			p.NumLayers = 3
			p.TargetRatio = 6
			p.UsePCRDOpt = true
		}},
		{"tiled16", 1, func(p *jpeg2000.EncodeParams) { p.TileWidth, p.TileHeight = 16, 16 }},
		{"roi_rect", 1, func(p *jpeg2000.EncodeParams) {
			p.ROI = &jpeg2000.ROIParams{X0: 4, Y0: 4, Width: 8, Height: 8, Shift: 4}
		}},
		{"roi_cfg", 1, func(p *jpeg2000.EncodeParams) {
			p.ROIConfig = &jpeg2000.ROIConfig{DefaultShift: 4, ROIs: []jpeg2000.ROIRegion{{Rect: &jpeg2000.ROIParams{X0: 4, Y0: 4, Width: 8, Height: 8}, Shift: 4}}}
		}},
		{"rgb_rct", 3, nil},
		{"rgb_ict_q70", 3, func(p *jpeg2000.EncodeParams) { p.Lossless = false; p.Quality = 70 }},
		{"rgb_mctbinding", 3, func(p *jpeg2000.EncodeParams) {
			b := jpeg2000.NewMCTBinding().Assoc(2).Components([]uint16{0, 1, 2}).Matrix(swap3).Inverse(swap3).Offsets([]int32{5, -5, 9}).ElementType(1).MCOPrecision(1).Build()
			p.MCTBindings = []jpeg2000.MCTBindingParams{b}
		}},
		{"htj2k_lossless", 1, func(p *jpeg2000.EncodeParams) {
			p.HTJ2KMode, p.ProgressionOrder = true, 2
			p.BlockEncoderFactory = func(w, h int) jpeg2000.BlockEncoder { return htj2k.NewHTEncoder(w, h) }
		}},
		{"htj2k_lossy_q70", 3, func(p *jpeg2000.EncodeParams) {
			p.HTJ2KMode, p.ProgressionOrder, p.Lossless, p.Quality = true, 2, false, 70
			p.BlockEncoderFactory = func(w, h int) jpeg2000.BlockEncoder { return htj2k.NewHTEncoder(w, h) }
		}},
	}
	const w, h = 40, 24
	for _, cf := range cfgs {
		for _, bd := range []int{8, 12} {
			mkp := func() *jpeg2000.EncodeParams {
				p := jpeg2000.DefaultEncodeParams(w, h, cf.comps, bd, false)
				p.NumLevels = 2
				if cf.set != nil {
					cf.set(p)
				}
				return p
			}
			ba := 8
			if bd > 8 {
				ba = 16
			}
			imgs := map[string][]byte{
				"A": verifFrame(r, w, h, ba, bd, cf.comps, 0),
				"B": verifFrame(r, w, h, ba, bd, cf.comps, 2),
				"C": verifFrame(r, w, h, ba, bd, cf.comps, 1),
			}
			ref := map[string][]byte{}
			okRef := true
			for _, k := range []string{"A", "B", "C"} {
				out, err, o := verifEnc(func() ([]byte, error) { return jpeg2000.NewEncoder(mkp()).Encode(imgs[k]) })
				if o.panicked || o.timedOut || err != nil {
					rep.note(fmt.Sprintf("cfg %s bits %d img %s not encodable: %s%s", cf.name, bd, k, verifErrStr(err), o.msg))
					okRef = false
					break
				}
				ref[k] = out
			}
			if !okRef {
				continue
			}
			enc := jpeg2000.NewEncoder(mkp())
			hist := ""
			for _, k := range []string{"A", "B", "A", "C", "B"} {
				hist += k
				cp := append([]byte(nil), imgs[k]...)
				out, err, o := verifEnc(func() ([]byte, error) { return enc.Encode(imgs[k]) })
				desc := fmt.Sprintf("cfg=%s comps=%d bits=%d w=%d h=%d history=%s", cf.name, cf.comps, bd, w, h, hist)
				switch {
				case o.panicked || o.timedOut:
					rep.fail("encoder_panic_on_reuse:"+o.msg, desc)
				case err != nil:
					rep.fail("encoder_error_on_reuse", desc+" err="+verifErrStr(err))
				case !verifEqualBytes(out, ref[k]):
					rep.fail("encoder_output_depends_on_history:"+cf.name, fmt.Sprintf("%s len_reused=%d len_fresh=%d first_diff=%d", desc, len(out), len(ref[k]), verifFirstDiff(out, ref[k])))
				case !verifEqualBytes(cp, imgs[k]):
					rep.fail("encoder_modified_input", desc)
				default:
					rep.ok()
				}
			}
		}
	}
}


// Parameters changed between two calls on one Encoder (the Encoder keeps the caller's *EncodeParams):
// the second output must be what a fresh Encoder produces for the new parameters.
func TestVerif_C10_j2k_encoder_param_change(t *testing.T) {
	rep := verifNewReport(t, "TestVerif_C10_j2k_encoder_param_change",
		"one jpeg2000.Encoder per start config {RGB ICT q70, RGB RCT lossless, gray lossy q60} x bitDepth{8,12}; Encode(A); then one parameter of the SAME params object is changed {EnableMCT off, EnableMCT on, Lossless flipped, Quality 30, NumLevels 1, NumLayers 2}; Encode(B) must equal the output of a fresh Encoder with the changed parameters")
	defer rep.finish()
	r := verifNewRng(1014)
	type start struct {
		name  string
		comps int
		set   func(p *jpeg2000.EncodeParams)
	}
	starts := []start{
		{"rgb_ict_q70", 3, func(p *jpeg2000.EncodeParams) { p.Lossless = false; p.Quality = 70 }},
		{"rgb_rct", 3, nil},
		{"rgb_ict_nomct", 3, func(p *jpeg2000.EncodeParams) { p.Lossless = false; p.Quality = 70; p.EnableMCT = false }},
		{"gray_q60", 1, func(p *jpeg2000.EncodeParams) { p.Lossless = false; p.Quality = 60 }},
	}
	type change struct {
		name string
		do   func(p *jpeg2000.EncodeParams)
	}
	changes := []change{
		{"mct_off", func(p *jpeg2000.EncodeParams) { p.EnableMCT = false }},
		{"mct_on", func(p *jpeg2000.EncodeParams) { p.EnableMCT = true }},
		{"flip_lossless", func(p *jpeg2000.EncodeParams) { p.Lossless = !p.Lossless; p.Quality = 75 }},
		{"quality30", func(p *jpeg2000.EncodeParams) { p.Quality = 30 }},
		{"levels1", func(p *jpeg2000.EncodeParams) { p.NumLevels = 1 }},
		{"layers2", func(p *jpeg2000.EncodeParams) { p.NumLayers = 2 }},
	}
	const w, h = 24, 16
	for _, st := range starts {
		for _, bd := range []int{8, 12} {
			ba := 8
			if bd > 8 {
				ba = 16
			}
			imgA := verifFrame(r, w, h, ba, bd, st.comps, 0)
			imgB := verifFrame(r, w, h, ba, bd, st.comps, 1)
			for _, ch := range changes {
				mk := func(changed bool) *jpeg2000.EncodeParams {
					p := jpeg2000.DefaultEncodeParams(w, h, st.comps, bd, false)
					p.NumLevels = 2
					if st.set != nil {
						st.set(p)
					}
					if changed {
						ch.do(p)
					}
					return p
				}
				desc := fmt.Sprintf("start=%s change=%s comps=%d bits=%d w=%d h=%d", st.name, ch.name, st.comps, bd, w, h)
				want, err, o := verifEnc(func() ([]byte, error) { return jpeg2000.NewEncoder(mk(true)).Encode(imgB) })
				if o.panicked || o.timedOut || err != nil {
					rep.note(desc + " not encodable with the changed parameters: " + verifErrStr(err) + o.msg)
					continue
				}
				p := mk(false)
				enc := jpeg2000.NewEncoder(p)
				if _, err, o := verifEnc(func() ([]byte, error) { return enc.Encode(imgA) }); o.panicked || o.timedOut || err != nil {
					rep.note(desc + " first image not encodable: " + verifErrStr(err) + o.msg)
					continue
				}
				ch.do(p)
				got, err, o := verifEnc(func() ([]byte, error) { return enc.Encode(imgB) })
				switch {
				case o.panicked || o.timedOut:
					rep.fail("encoder_panic_after_param_change:"+o.msg, desc)
				case err != nil:
					rep.fail("encoder_error_after_param_change", desc+" err="+verifErrStr(err))
				case !verifEqualBytes(got, want):
					rep.fail("encoder_output_depends_on_previous_call:"+ch.name, fmt.Sprintf("%s len_reused=%d len_fresh=%d first_diff=%d", desc, len(got), len(want), verifFirstDiff(got, want)))
				default:
					rep.ok()
				}
			}
		}
	}
}

// ---------------------------------------------------------------- timing: overlapping calls on one codec object

func TestVerif_C10_concurrent_calls(t *testing.T) {
	rep := verifNewReport(t, "TestVerif_C10_concurrent_calls",
		"each of the 14 registered codec objects: 4 goroutines x 3 rounds call Encode then Decode on 4 different images (8-bit gray noise 19x11, 8-bit RGB 9x9, 8-bit gray flat 16x16, 8-bit gray gradient 33x5) at the same time; every result must equal the result of the same call made alone beforehand (independence of timing / other calls in flight)")
	defer rep.finish()
	r := verifNewRng(1005)
	type job struct {
		w, h, spp, kind int
	}
	jobs := []job{{19, 11, 1, 0}, {9, 9, 3, 0}, {16, 16, 1, 2}, {33, 5, 1, 1}}
	for _, ts := range verifAllTS() {
		c := verifCodec(ts.ts)
		if c == nil {
			continue
		}
		type ref struct {
			frame, enc, dec []byte
			ok              bool
		}
		refs := make([]ref, len(jobs))
		for i, j := range jobs {
			info := verifInfo(j.w, j.h, 8, 8, j.spp)
			f := verifFrame(r, j.w, j.h, 8, 8, j.spp, j.kind)
			e, err, o := verifEncode(c, info, [][]byte{f}, nil)
			if o.panicked || o.timedOut || err != nil || len(e) != 1 {
				continue
			}
			d, err, o := verifDecode(c, info, e, nil)
			if o.panicked || o.timedOut || err != nil || len(d) != 1 {
				continue
			}
			refs[i] = ref{f, e[0], d[0], true}
		}
		var wg sync.WaitGroup
		var mu sync.Mutex
		for i, j := range jobs {
			if !refs[i].ok {
				continue
			}
			wg.Add(1)
			go func(i int, j job) {
				defer wg.Done()
				info := verifInfo(j.w, j.h, 8, 8, j.spp)
				for round := 0; round < 3; round++ {
					e, err, o := verifEncode(c, info, [][]byte{refs[i].frame}, nil)
					good := !o.panicked && !o.timedOut && err == nil && len(e) == 1 && verifEqualBytes(e[0], refs[i].enc)
					var d [][]byte
					if good {
						d, err, o = verifDecode(c, info, [][]byte{refs[i].enc}, nil)
						good = !o.panicked && !o.timedOut && err == nil && len(d) == 1 && verifEqualBytes(d[0], refs[i].dec)
					}
					mu.Lock()
					if good {
						rep.ok()
					} else {
						rep.failTag("result_differs_under_concurrency", ts.tag, fmt.Sprintf("ts=%s job=%d w=%d h=%d spp=%d round=%d err=%s %s", ts.tag, i, j.w, j.h, j.spp, round, verifErrStr(err), o.msg))
					}
					mu.Unlock()
				}
			}(i, j)
		}
		wg.Wait()
	}
}
