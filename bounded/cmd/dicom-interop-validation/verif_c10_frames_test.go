package main

// Added after seeded change C10-A (an encoder object reused for all frames kept a value from the
// previous frame): a frame's encoding must not depend on its position in the frame sequence, also for
// frames large and busy enough that rate-driven layer budgets are not clamped.

import (
	"fmt"
	"testing"
)

func TestVerif_C10_frame_position_independence(t *testing.T) {
	rep := verifNewReport(t, "TestVerif_C10_frame_position_independence",
		"each of the 14 registered codecs, nil parameters: frame F (64x64 and 96x80 seeded noise / gradient, 8-bit gray, 8-bit RGB, 12- or 16-bit gray where supported) encoded alone and as frames 0, 2 and 3 of [F,G,F,F] with an unrelated G of the same description; all encodings of F must be byte-identical; quick: 2 seeds, thorough: 6")
	defer rep.finish()
	r := verifNewRng(1010)
	seeds := 2
	if verifThorough() {
		seeds = 6
	}
	for _, ts := range verifAllTS() {
		c := verifCodec(ts.ts)
		if c == nil {
			continue
		}
		hi, hb := 12, 16
		if ts.maxBits < 12 {
			hi, hb = 8, 8
		}
		type cfg struct{ w, h, ba, bs, spp int }
		cfgs := []cfg{{64, 64, 8, 8, 1}, {96, 80, 8, 8, 1}, {64, 64, hb, hi, 1}}
		if ts.rgbMax >= 8 {
			cfgs = append(cfgs, cfg{64, 64, 8, 8, 3})
		}
		for _, cf := range cfgs {
			for s := 0; s < seeds; s++ {
				for _, kind := range []int{0, 1} {
					info := verifInfo(cf.w, cf.h, cf.ba, cf.bs, cf.spp)
					F := verifFrame(r, cf.w, cf.h, cf.ba, cf.bs, cf.spp, kind)
					G := verifFrame(r, cf.w, cf.h, cf.ba, cf.bs, cf.spp, 0)
					desc := fmt.Sprintf("ts=%s %s kind=%d seed=%d", ts.tag, verifInfoStr(info), kind, s)
					alone, err, o := verifEncode(c, info, [][]byte{F}, nil)
					if o.panicked || o.timedOut || err != nil || len(alone) != 1 {
						rep.note(desc + " not encodable: " + verifErrStr(err) + o.msg)
						continue
					}
					seq, err, o := verifEncode(c, info, [][]byte{F, G, F, F}, nil)
					if o.panicked || o.timedOut || err != nil || len(seq) != 4 {
						rep.failTag("sequence_encode_failed", ts.tag, desc+" err="+verifErrStr(err)+o.msg)
						continue
					}
					bad := ""
					for _, i := range []int{0, 2, 3} {
						if !verifEqualBytes(seq[i], alone[0]) {
							bad += fmt.Sprintf(" frame%d:len=%d(alone=%d)", i, len(seq[i]), len(alone[0]))
						}
					}
					if bad != "" {
						rep.failTag("encoding_depends_on_frame_position", ts.tag, desc+bad)
					} else {
						rep.ok()
					}
				}
			}
		}
	}
}
