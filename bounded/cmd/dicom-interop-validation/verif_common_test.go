package main

// Shared helpers for the bounded stand-ins of C10, C16 and C17.
// All identifiers start with "verif" (see /verif/bounded/README.md).

import (
	"fmt"
	"os"
	"runtime/debug"
	"strconv"
	"strings"
	"testing"
	"time"

	"github.com/cocosip/go-dicom/pkg/dicom/transfer"
	"github.com/cocosip/go-dicom/pkg/imaging/codec"
	"github.com/cocosip/go-dicom/pkg/imaging/imagetypes"
)

// ---------------------------------------------------------------- tier / seed

func verifThorough() bool { return os.Getenv("VERIF_TIER") == "thorough" }

func verifSeed() uint64 {
	if s := os.Getenv("VERIF_SEED"); s != "" {
		if v, err := strconv.ParseUint(s, 0, 64); err == nil {
			return v
		}
	}
	return 0x5eed1234abcd
}

// verifRng is a small deterministic splitmix64 generator.
type verifRng struct{ s uint64 }

func verifNewRng(salt uint64) *verifRng {
	return &verifRng{s: verifSeed() ^ (salt * 0x9e3779b97f4a7c15)}
}

func (r *verifRng) next() uint64 {
	r.s += 0x9e3779b97f4a7c15
	z := r.s
	z = (z ^ (z >> 30)) * 0xbf58476d1ce4e5b9
	z = (z ^ (z >> 27)) * 0x94d049bb133111eb
	return z ^ (z >> 31)
}

func (r *verifRng) intn(n int) int {
	if n <= 0 {
		return 0
	}
	return int(r.next() % uint64(n))
}

// ---------------------------------------------------------------- reporting

type verifReport struct {
	t      *testing.T
	name   string
	domain string
	cases  int
	fails  int
	lines  int
	// distinct failure causes (key -> count), first example kept
	causes   map[string]int
	examples map[string]string
	order    []string
	notes    []string
	tags     map[string][]string
}

func verifNewReport(t *testing.T, name, domain string) *verifReport {
	return &verifReport{t: t, name: name, domain: domain, causes: map[string]int{}, examples: map[string]string{}}
}

func (r *verifReport) ok() { r.cases++ }

// fail records one failing case. cause groups failures that share a root symptom;
// desc is a compact key=value description of the concrete input.
func (r *verifReport) fail(cause, desc string) {
	r.cases++
	r.fails++
	if _, seen := r.causes[cause]; !seen {
		r.order = append(r.order, cause)
		r.examples[cause] = desc
	}
	r.causes[cause]++
}

// failTag is fail plus a short tag (e.g. the transfer syntax) collected per cause and printed with it.
func (r *verifReport) failTag(cause, tag, desc string) {
	r.fail(cause, desc)
	if r.tags == nil {
		r.tags = map[string][]string{}
	}
	for _, t := range r.tags[cause] {
		if t == tag {
			return
		}
	}
	r.tags[cause] = append(r.tags[cause], tag)
}

func (r *verifReport) note(s string) { r.notes = append(r.notes, s) }

func (r *verifReport) finish() {
	dom := r.domain
	if len(r.notes) > 0 {
		dom += " | " + strings.Join(r.notes, "; ")
	}
	dom = strings.ReplaceAll(dom, "\"", "'")
	fmt.Printf("BOUNDED name=%s cases=%d fails=%d domain=\"%s\"\n", r.name, r.cases, r.fails, dom)
	// One line per distinct cause (first = minimal example because domains are enumerated small-first), max 5.
	for i, c := range r.order {
		if i >= 5 {
			break
		}
		tg := ""
		if len(r.tags[c]) > 0 {
			tl := r.tags[c]
			more := ""
			if len(tl) > 10 {
				more = fmt.Sprintf(",+%d more", len(tl)-10)
				tl = tl[:10]
			}
			tg = " affected={" + strings.Join(tl, ",") + more + "}"
		}
		fmt.Printf("BOUNDED-FAIL name=%s cause=%s count=%d%s first: %s\n", r.name, c, r.causes[c], tg, r.examples[c])
	}
	if len(r.order) > 5 && os.Getenv("VERIF_SHOW_ALL") != "" {
		for _, c := range r.order[5:] {
			fmt.Printf("BOUNDED-NOTE name=%s cause=%s count=%d affected={%s} first: %s\n", r.name, c, r.causes[c], strings.Join(r.tags[c], ","), r.examples[c])
		}
	} else if len(r.order) > 5 {
		fmt.Printf("BOUNDED-NOTE name=%s %d further distinct causes not shown: %s\n", r.name, len(r.order)-5, strings.Join(r.order[5:], ","))
	}
	if r.fails > 0 {
		r.t.Fail()
	}
}

// ---------------------------------------------------------------- guarded calls

type verifOutcome struct {
	panicked bool
	timedOut bool
	msg      string
	// set by verifEncode/verifDecode: the callee changed bytes of a frame buffer it was given
	inputMutated bool
	mutatedAt    string
}

// verifGuard runs fn, converting a panic into an outcome; a watchdog turns a hang into a failure
// (the goroutine is leaked in that case).
func verifGuard(limit time.Duration, fn func()) verifOutcome {
	done := make(chan verifOutcome, 1)
	go func() {
		defer func() {
			if p := recover(); p != nil {
				st := string(debug.Stack())
				done <- verifOutcome{panicked: true, msg: fmt.Sprintf("%v @ %s", p, verifPanicSite(st))}
				return
			}
			done <- verifOutcome{}
		}()
		fn()
	}()
	select {
	case o := <-done:
		return o
	case <-time.After(limit):
		return verifOutcome{timedOut: true, msg: "timeout " + limit.String()}
	}
}

// verifPanicSite extracts the first /repo frame from a stack trace.
func verifPanicSite(stack string) string {
	lines := strings.Split(stack, "\n")
	seenPanic := false
	for _, ln := range lines {
		s := strings.TrimSpace(ln)
		if strings.HasPrefix(s, "panic(") {
			seenPanic = true
			continue
		}
		if !seenPanic {
			continue
		}
		if strings.HasPrefix(s, "/repo/") && !strings.Contains(s, "zz_verif_") {
			if i := strings.Index(s, " +0x"); i > 0 {
				s = s[:i]
			}
			return strings.TrimPrefix(s, "/repo/")
		}
	}
	return "?"
}

// ---------------------------------------------------------------- PixelData

type verifPixelData struct {
	frames [][]byte
	info   *imagetypes.FrameInfo
	encaps bool
}

func (p *verifPixelData) GetFrame(i int) ([]byte, error) {
	if i < 0 || i >= len(p.frames) {
		return nil, fmt.Errorf("frame %d out of range", i)
	}
	return p.frames[i], nil
}
func (p *verifPixelData) AddFrame(b []byte) error             { p.frames = append(p.frames, b); return nil }
func (p *verifPixelData) FrameCount() int                     { return len(p.frames) }
func (p *verifPixelData) GetFrameInfo() *imagetypes.FrameInfo { return p.info }
func (p *verifPixelData) IsEncapsulated() bool                { return p.encaps }

func verifInfo(w, h, ba, bs, spp int) *imagetypes.FrameInfo {
	pi := "MONOCHROME2"
	if spp == 3 {
		pi = "RGB"
	}
	return &imagetypes.FrameInfo{
		Width: uint16(w), Height: uint16(h),
		BitsAllocated: uint16(ba), BitsStored: uint16(bs), HighBit: uint16(bs - 1),
		SamplesPerPixel: uint16(spp), PixelRepresentation: 0, PlanarConfiguration: 0,
		PhotometricInterpretation: pi,
	}
}

func verifCloneFrames(fs [][]byte) [][]byte {
	out := make([][]byte, len(fs))
	for i, f := range fs {
		out[i] = append([]byte(nil), f...)
	}
	return out
}

// verifFrame makes one native frame of w*h*spp samples, ceil(ba/8) bytes each (little endian),
// sample values < 2^bs. kind: 0 noise, 1 horizontal gradient, 2 all zero, 3 all max, 4 checker extreme.
func verifFrame(r *verifRng, w, h, ba, bs, spp, kind int) []byte {
	bps := (ba + 7) / 8
	n := w * h * spp
	out := make([]byte, n*bps)
	maxv := (1 << uint(bs)) - 1
	for i := 0; i < n; i++ {
		var v int
		switch kind {
		case 0:
			v = int(r.next()) & maxv
		case 1:
			x := (i / spp) % w
			v = (x * maxv) / verifMax(1, w-1)
		case 2:
			v = 0
		case 3:
			v = maxv
		default:
			px := i / spp
			if ((px%w)+(px/w))&1 == 0 {
				v = maxv
			}
		}
		if bps == 1 {
			out[i] = byte(v)
		} else {
			out[2*i] = byte(v)
			out[2*i+1] = byte(v >> 8)
		}
	}
	return out
}

func verifMax(a, b int) int {
	if a > b {
		return a
	}
	return b
}

func verifEqualBytes(a, b []byte) bool {
	if len(a) != len(b) {
		return false
	}
	for i := range a {
		if a[i] != b[i] {
			return false
		}
	}
	return true
}

// ---------------------------------------------------------------- codec table

type verifTS struct {
	tag      string // short name, e.g. ".50"
	ts       *transfer.Syntax
	lossless bool
	maxBits  int // highest supported BitsStored
	rgbMax   int // highest BitsStored supported with SamplesPerPixel=3 (0 = none)
	isRLE    bool
}

func verifAllTS() []verifTS {
	return []verifTS{
		{"RLE", transfer.RLELossless, true, 16, 16, true},
		{".50", transfer.JPEGBaseline8Bit, false, 8, 8, false},
		{".51", transfer.JPEGProcess2_4, false, 12, 8, false},
		{".57", transfer.JPEGLossless, true, 16, 16, false},
		{".70", transfer.JPEGLosslessSV1, true, 16, 16, false},
		{".80", transfer.JPEGLSLossless, true, 16, 16, false},
		{".81", transfer.JPEGLSNearLossless, false, 16, 16, false},
		{".90", transfer.JPEG2000Lossless, true, 16, 16, false},
		{".91", transfer.JPEG2000, false, 16, 16, false},
		{".92", transfer.JPEG2000Part2MultiComponentLosslessOnly, true, 16, 16, false},
		{".93", transfer.JPEG2000Part2MultiComponent, false, 16, 16, false},
		{".201", transfer.HTJ2KLossless, true, 16, 16, false},
		{".202", transfer.HTJ2KLosslessRPCL, true, 16, 16, false},
		{".203", transfer.HTJ2K, false, 16, 16, false},
	}
}

func verifCodec(ts *transfer.Syntax) codec.Codec {
	c, ok := codec.GetGlobalRegistry().GetCodec(ts)
	if !ok {
		return nil
	}
	return c
}

// verifEncode runs Codec.Encode on private copies of frames; afterwards the copies are compared with the
// originals (outcome.inputMutated). The caller's frames therefore always stay pristine.
func verifEncode(c codec.Codec, info *imagetypes.FrameInfo, frames [][]byte, params codec.Parameters) ([][]byte, error, verifOutcome) {
	given := verifCloneFrames(frames)
	src := &verifPixelData{frames: given, info: info}
	dst := &verifPixelData{info: info, encaps: true}
	var err error
	o := verifGuard(60*time.Second, func() { err = c.Encode(src, dst, params) })
	verifMarkMutation(&o, frames, given)
	return dst.frames, err, o
}

func verifDecode(c codec.Codec, info *imagetypes.FrameInfo, frames [][]byte, params codec.Parameters) ([][]byte, error, verifOutcome) {
	given := verifCloneFrames(frames)
	src := &verifPixelData{frames: given, info: info, encaps: true}
	dst := &verifPixelData{info: info}
	var err error
	o := verifGuard(60*time.Second, func() { err = c.Decode(src, dst, params) })
	verifMarkMutation(&o, frames, given)
	return dst.frames, err, o
}

func verifMarkMutation(o *verifOutcome, orig, given [][]byte) {
	if o.timedOut {
		return
	}
	for i := range orig {
		if d := verifFirstDiff(orig[i], given[i]); d >= 0 {
			o.inputMutated = true
			o.mutatedAt = fmt.Sprintf("frame=%d offset=%d len=%d", i, d, len(orig[i]))
			return
		}
	}
}

func verifInfoStr(info *imagetypes.FrameInfo) string {
	return fmt.Sprintf("w=%d h=%d ba=%d bs=%d spp=%d", info.Width, info.Height, info.BitsAllocated, info.BitsStored, info.SamplesPerPixel)
}

func verifErrStr(err error) string {
	if err == nil {
		return "nil"
	}
	s := err.Error()
	if len(s) > 90 {
		s = s[:90] + "..."
	}
	return strings.ReplaceAll(s, "\n", " ")
}
