package main

// Independent strict codestream walkers used by the C16 stand-ins (and by C17 to cross-check geometry).
// They do not use any parser of the repository.

import (
	"encoding/binary"
	"fmt"
)

// ================================================================= JPEG (ITU-T T.81)

type verifJPEGInfo struct {
	sof        byte // 0xC0, 0xC1, 0xC3 ...
	precision  int
	height     int
	width      int
	comps      int
	compIDs    []byte
	scans      int
	predictor  int // Ss of the first scan (lossless: predictor)
	se, ah, al int
	ffInScan   int // number of stuffed FF00 pairs seen (diagnostic)
}

func verifBE16(b []byte, p int) int { return int(b[p])<<8 | int(b[p+1]) }

// verifWalkJPEG validates a T.81 interchange-format stream. Returns info and the first violation ("" = ok).
func verifWalkJPEG(b []byte) (verifJPEGInfo, string) {
	var in verifJPEGInfo
	n := len(b)
	if n < 4 || b[0] != 0xFF || b[1] != 0xD8 {
		return in, "no SOI at offset 0"
	}
	p := 2
	var dqtDefined [4]bool
	var dhtDefined [2][4]bool
	var compTq map[byte]byte
	restartInterval := 0
	sawSOF := false
	for {
		// marker prefix (optional fill bytes FF are allowed by B.1.1.2)
		if p >= n {
			return in, fmt.Sprintf("ran off end at %d without EOI", p)
		}
		if b[p] != 0xFF {
			return in, fmt.Sprintf("expected marker at %d, found %02X", p, b[p])
		}
		for p < n && b[p] == 0xFF {
			p++
		}
		if p >= n {
			return in, "truncated marker"
		}
		m := b[p]
		p++
		switch {
		case m == 0xD9: // EOI
			if in.scans == 0 {
				return in, "EOI before any scan"
			}
			if p != n {
				return in, fmt.Sprintf("%d byte(s) follow EOI", n-p)
			}
			return in, ""
		case m == 0xD8:
			return in, fmt.Sprintf("second SOI at %d", p-2)
		case m >= 0xD0 && m <= 0xD7:
			return in, fmt.Sprintf("RST%d outside entropy-coded data at %d", m-0xD0, p-2)
		case m == 0x00 || m == 0x01 || (m >= 0x02 && m <= 0xBF):
			return in, fmt.Sprintf("reserved/invalid marker FF%02X at %d", m, p-2)
		}
		// all remaining markers carry a length
		if p+2 > n {
			return in, fmt.Sprintf("truncated length of FF%02X", m)
		}
		L := verifBE16(b, p)
		if L < 2 || p+L > n {
			return in, fmt.Sprintf("FF%02X length %d exceeds stream (pos %d, len %d)", m, L, p, n)
		}
		seg := b[p+2 : p+L]
		switch {
		case m == 0xDB: // DQT
			q := 0
			if len(seg) == 0 {
				return in, "empty DQT"
			}
			for q < len(seg) {
				pq, tq := int(seg[q]>>4), int(seg[q]&15)
				if pq > 1 || tq > 3 {
					return in, fmt.Sprintf("DQT bad Pq/Tq %02X", seg[q])
				}
				need := 1 + 64*(pq+1)
				if q+need > len(seg) {
					return in, fmt.Sprintf("DQT length %d does not match content (table needs %d at %d)", L, need, q)
				}
				for k := 0; k < 64; k++ {
					var v int
					if pq == 0 {
						v = int(seg[q+1+k])
					} else {
						v = verifBE16(seg, q+1+2*k)
					}
					if v == 0 {
						return in, fmt.Sprintf("DQT table %d has zero element %d", tq, k)
					}
				}
				dqtDefined[tq] = true
				q += need
			}
		case m == 0xC4: // DHT
			q := 0
			if len(seg) == 0 {
				return in, "empty DHT"
			}
			for q < len(seg) {
				tc, th := int(seg[q]>>4), int(seg[q]&15)
				if tc > 1 || th > 3 {
					return in, fmt.Sprintf("DHT bad Tc/Th %02X", seg[q])
				}
				if q+17 > len(seg) {
					return in, "DHT truncated BITS"
				}
				total := 0
				// Kraft sum in units of 2^-16; all-ones code must stay unused => strictly < 2^16
				kraft := 0
				for i := 1; i <= 16; i++ {
					c := int(seg[q+i])
					total += c
					kraft += c << uint(16-i)
				}
				if total == 0 || total > 256 {
					return in, fmt.Sprintf("DHT class %d id %d has %d symbols", tc, th, total)
				}
				if kraft >= 1<<16 {
					return in, fmt.Sprintf("DHT class %d id %d BITS not a valid prefix code (kraft=%d/65536)", tc, th, kraft)
				}
				if q+17+total > len(seg) {
					return in, fmt.Sprintf("DHT length %d does not match content", L)
				}
				seen := map[byte]bool{}
				for _, v := range seg[q+17 : q+17+total] {
					if seen[v] {
						return in, fmt.Sprintf("DHT class %d id %d duplicate symbol %02X", tc, th, v)
					}
					seen[v] = true
					if tc == 0 && v > 16 {
						return in, fmt.Sprintf("DHT DC symbol %d > 16", v)
					}
				}
				dhtDefined[tc][th] = true
				q += 17 + total
			}
		case m == 0xC0 || m == 0xC1 || m == 0xC2 || m == 0xC3 || (m >= 0xC5 && m <= 0xC7) || (m >= 0xC9 && m <= 0xCB) || (m >= 0xCD && m <= 0xCF):
			if sawSOF {
				return in, "second SOF"
			}
			sawSOF = true
			if len(seg) < 6 {
				return in, "SOF too short"
			}
			in.sof = m
			in.precision = int(seg[0])
			in.height = verifBE16(seg, 1)
			in.width = verifBE16(seg, 3)
			in.comps = int(seg[5])
			if L != 8+3*in.comps {
				return in, fmt.Sprintf("SOF length %d != 8+3*%d", L, in.comps)
			}
			if in.comps == 0 {
				return in, "SOF Nf=0"
			}
			if in.width == 0 {
				return in, "SOF X=0"
			}
			if in.height == 0 {
				return in, "SOF Y=0 without DNL"
			}
			compTq = map[byte]byte{}
			for i := 0; i < in.comps; i++ {
				id, hv, tq := seg[6+3*i], seg[7+3*i], seg[8+3*i]
				if _, dup := compTq[id]; dup {
					return in, fmt.Sprintf("SOF duplicate component id %d", id)
				}
				hh, vv := hv>>4, hv&15
				if hh < 1 || hh > 4 || vv < 1 || vv > 4 {
					return in, fmt.Sprintf("SOF bad sampling %02X", hv)
				}
				if tq > 3 {
					return in, "SOF Tq>3"
				}
				if m == 0xC3 && tq != 0 {
					return in, "SOF3 Tq must be 0"
				}
				compTq[id] = tq
				in.compIDs = append(in.compIDs, id)
			}
			switch m {
			case 0xC0:
				if in.precision != 8 {
					return in, fmt.Sprintf("SOF0 precision %d != 8", in.precision)
				}
			case 0xC1:
				if in.precision != 8 && in.precision != 12 {
					return in, fmt.Sprintf("SOF1 precision %d not 8/12", in.precision)
				}
			case 0xC3:
				if in.precision < 2 || in.precision > 16 {
					return in, fmt.Sprintf("SOF3 precision %d not 2..16", in.precision)
				}
			}
		case m == 0xDD: // DRI
			if L != 4 {
				return in, fmt.Sprintf("DRI length %d != 4", L)
			}
			restartInterval = verifBE16(seg, 0)
		case m == 0xDA: // SOS
			if !sawSOF {
				return in, "SOS before SOF"
			}
			if len(seg) < 1 {
				return in, "SOS too short"
			}
			ns := int(seg[0])
			if ns < 1 || ns > 4 || L != 6+2*ns {
				return in, fmt.Sprintf("SOS length %d != 6+2*%d", L, ns)
			}
			for i := 0; i < ns; i++ {
				cs, tt := seg[1+2*i], seg[2+2*i]
				tq, ok := compTq[cs]
				if !ok {
					return in, fmt.Sprintf("SOS references unknown component %d", cs)
				}
				td, ta := tt>>4, tt&15
				if td > 3 || ta > 3 {
					return in, "SOS Td/Ta > 3"
				}
				if in.sof == 0xC0 && (td > 1 || ta > 1) {
					return in, "baseline SOS Td/Ta > 1"
				}
				if !dhtDefined[0][td] {
					return in, fmt.Sprintf("SOS uses undefined DC/lossless table %d", td)
				}
				if in.sof != 0xC3 {
					if !dhtDefined[1][ta] {
						return in, fmt.Sprintf("SOS uses undefined AC table %d", ta)
					}
					if !dqtDefined[tq] {
						return in, fmt.Sprintf("component %d uses undefined DQT %d", cs, tq)
					}
				} else if ta != 0 {
					return in, "lossless SOS Ta != 0"
				}
			}
			ss, se, a := int(seg[1+2*ns]), int(seg[2+2*ns]), seg[3+2*ns]
			if in.scans == 0 {
				in.predictor, in.se, in.ah, in.al = ss, se, int(a>>4), int(a&15)
			}
			switch in.sof {
			case 0xC0, 0xC1:
				if ss != 0 || se != 63 || a != 0 {
					return in, fmt.Sprintf("sequential DCT SOS Ss=%d Se=%d AhAl=%02X (want 0,63,0)", ss, se, a)
				}
			case 0xC3:
				if ss < 1 || ss > 7 || se != 0 || a>>4 != 0 {
					return in, fmt.Sprintf("lossless SOS Ss=%d Se=%d Ah=%d", ss, se, a>>4)
				}
			}
			in.scans++
			p += L
			// entropy-coded segment
			nextRST := 0
			for {
				if p >= n {
					return in, "entropy-coded data runs to end of stream without EOI"
				}
				if b[p] != 0xFF {
					p++
					continue
				}
				// b[p] == FF
				if p+1 >= n {
					return in, "stream ends with lone FF"
				}
				nx := b[p+1]
				if nx == 0x00 {
					in.ffInScan++
					p += 2
					continue
				}
				if nx == 0xFF { // fill byte before a marker
					p++
					continue
				}
				if nx >= 0xD0 && nx <= 0xD7 {
					if restartInterval == 0 {
						return in, fmt.Sprintf("unescaped FF%02X (RST) in entropy data at %d with no DRI", nx, p)
					}
					if int(nx-0xD0) != nextRST {
						return in, fmt.Sprintf("RST out of sequence at %d", p)
					}
					nextRST = (nextRST + 1) & 7
					p += 2
					continue
				}
				break // a real marker: leave p at the FF
			}
			continue
		case m >= 0xE0 && m <= 0xEF, m == 0xFE: // APPn, COM
		case m == 0xDC: // DNL
			if L != 4 {
				return in, "DNL length != 4"
			}
		case m == 0xCC: // DAC
		case m == 0xDE, m == 0xDF: // DHP, EXP
		default:
			return in, fmt.Sprintf("unexpected marker FF%02X at %d", m, p-2)
		}
		p += L
	}
}

// ================================================================= JPEG-LS (ITU-T T.87)

type verifJLSInfo struct {
	precision, height, width, comps int
	near, ilv, pt                   int
	scans                           int
	lse1                            bool
	maxval                          int
}

func verifWalkJPEGLS(b []byte) (verifJLSInfo, string) {
	var in verifJLSInfo
	n := len(b)
	if n < 4 || b[0] != 0xFF || b[1] != 0xD8 {
		return in, "no SOI at offset 0"
	}
	p := 2
	sawSOF := false
	compIDs := map[byte]bool{}
	compsCoded := 0
	for {
		if p >= n {
			return in, "ran off end without EOI"
		}
		if b[p] != 0xFF {
			return in, fmt.Sprintf("expected marker at %d, found %02X", p, b[p])
		}
		for p < n && b[p] == 0xFF {
			p++
		}
		if p >= n {
			return in, "truncated marker"
		}
		m := b[p]
		p++
		if m < 0x80 {
			return in, fmt.Sprintf("FF%02X is not a marker (second byte < 0x80) at %d", m, p-2)
		}
		if m == 0xD9 {
			if in.scans == 0 {
				return in, "EOI before any scan"
			}
			if compsCoded != in.comps {
				return in, fmt.Sprintf("scans cover %d of %d components", compsCoded, in.comps)
			}
			if p != n {
				return in, fmt.Sprintf("%d byte(s) follow EOI", n-p)
			}
			return in, ""
		}
		if m == 0xD8 || (m >= 0xD0 && m <= 0xD7) {
			return in, fmt.Sprintf("unexpected FF%02X at %d", m, p-2)
		}
		if p+2 > n {
			return in, "truncated length"
		}
		L := verifBE16(b, p)
		if L < 2 || p+L > n {
			return in, fmt.Sprintf("FF%02X length %d exceeds stream", m, L)
		}
		seg := b[p+2 : p+L]
		switch {
		case m == 0xF7: // SOF55
			if sawSOF {
				return in, "second SOF55"
			}
			sawSOF = true
			if len(seg) < 6 {
				return in, "SOF55 too short"
			}
			in.precision, in.height, in.width, in.comps = int(seg[0]), verifBE16(seg, 1), verifBE16(seg, 3), int(seg[5])
			if L != 8+3*in.comps {
				return in, fmt.Sprintf("SOF55 length %d != 8+3*%d", L, in.comps)
			}
			if in.precision < 2 || in.precision > 16 {
				return in, fmt.Sprintf("SOF55 precision %d", in.precision)
			}
			if in.width == 0 || in.height == 0 || in.comps == 0 {
				return in, fmt.Sprintf("SOF55 zero field X=%d Y=%d Nf=%d (no LSE id 4 seen)", in.width, in.height, in.comps)
			}
			in.maxval = (1 << uint(in.precision)) - 1
			for i := 0; i < in.comps; i++ {
				id, hv := seg[6+3*i], seg[7+3*i]
				if compIDs[id] {
					return in, "SOF55 duplicate component id"
				}
				compIDs[id] = true
				if hv != 0x11 && (hv>>4 < 1 || hv>>4 > 4 || hv&15 < 1 || hv&15 > 4) {
					return in, "SOF55 bad sampling"
				}
				if seg[8+3*i] != 0 {
					return in, "SOF55 Tq must be 0"
				}
			}
		case m == 0xF8: // LSE
			if len(seg) < 1 {
				return in, "LSE empty"
			}
			switch seg[0] {
			case 1:
				if L != 13 {
					return in, fmt.Sprintf("LSE id1 length %d != 13", L)
				}
				mv := verifBE16(seg, 1)
				t1, t2, t3, rst := verifBE16(seg, 3), verifBE16(seg, 5), verifBE16(seg, 7), verifBE16(seg, 9)
				if mv != 0 {
					if sawSOF && mv > (1<<uint(in.precision))-1 {
						return in, "LSE MAXVAL exceeds precision"
					}
					in.maxval = mv
				}
				_ = rst
				if t1 != 0 && (t1 > t2 || t2 > t3) {
					return in, fmt.Sprintf("LSE thresholds not ordered %d,%d,%d", t1, t2, t3)
				}
				in.lse1 = true
			case 2, 3:
				if L < 5 {
					return in, "LSE mapping table too short"
				}
			case 4:
				if L < 4 {
					return in, "LSE id4 too short"
				}
			default:
				return in, fmt.Sprintf("LSE unknown id %d", seg[0])
			}
		case m == 0xDA:
			if !sawSOF {
				return in, "SOS before SOF55"
			}
			if len(seg) < 1 {
				return in, "SOS empty"
			}
			ns := int(seg[0])
			if ns < 1 || ns > 4 || L != 6+2*ns {
				return in, fmt.Sprintf("SOS length %d != 6+2*%d", L, ns)
			}
			for i := 0; i < ns; i++ {
				if !compIDs[seg[1+2*i]] {
					return in, fmt.Sprintf("SOS references unknown component %d", seg[1+2*i])
				}
			}
			near, ilv, a := int(seg[1+2*ns]), int(seg[2+2*ns]), seg[3+2*ns]
			if ilv > 2 {
				return in, fmt.Sprintf("SOS ILV=%d", ilv)
			}
			if ilv == 0 && ns != 1 {
				return in, fmt.Sprintf("SOS ILV=0 with Ns=%d", ns)
			}
			if ilv != 0 && ns < 2 {
				return in, fmt.Sprintf("SOS ILV=%d with Ns=%d", ilv, ns)
			}
			if a>>4 != 0 {
				return in, "SOS Ah != 0"
			}
			lim := in.maxval / 2
			if lim > 255 {
				lim = 255
			}
			if near > lim {
				return in, fmt.Sprintf("SOS NEAR=%d > min(255,MAXVAL/2)=%d", near, lim)
			}
			if in.scans == 0 {
				in.near, in.ilv, in.pt = near, ilv, int(a&15)
			} else if near != in.near {
				return in, "NEAR differs between scans"
			}
			in.scans++
			compsCoded += ns
			p += L
			// scan data: after FF the next byte must have MSB clear; otherwise it is a marker
			for {
				if p >= n {
					return in, "scan data runs to end of stream without EOI"
				}
				if b[p] != 0xFF {
					p++
					continue
				}
				if p+1 >= n {
					return in, "stream ends with lone FF"
				}
				if b[p+1] < 0x80 {
					p += 2
					continue
				}
				break
			}
			continue
		case m == 0xDD:
			if L != 4 && L != 5 && L != 6 {
				return in, "DRI length"
			}
		case m >= 0xE0 && m <= 0xEF, m == 0xFE:
		default:
			return in, fmt.Sprintf("unexpected marker FF%02X at %d", m, p-2)
		}
		p += L
	}
}

// ================================================================= JPEG 2000 (ITU-T T.800 Annex A)

type verifJ2KInfo struct {
	rsiz                                 int
	xsiz, ysiz, xo, yo, xt, yt, xto, yto int
	comps                                int
	ssiz                                 []byte
	prog, layers, mct, levels            int
	xcb, ycb, cbstyle, transform         int
	scod                                 int
	qstyle                               int
	tileParts                            int
	hasTLM, hasCAP                       bool
	tiles                                int
}

func verifWalkJ2K(b []byte) (verifJ2KInfo, string) {
	var in verifJ2KInfo
	n := len(b)
	if n < 4 || b[0] != 0xFF || b[1] != 0x4F {
		return in, "no SOC at offset 0"
	}
	if b[2] != 0xFF || b[3] != 0x51 {
		return in, "SIZ is not the second marker"
	}
	p := 2
	sawCOD, sawQCD := false, false
	var tlm []uint32 // Ptlm values in order
	var tlmTiles []int
	// ---- main header
	for {
		if p+2 > n {
			return in, "main header runs off end"
		}
		if b[p] != 0xFF {
			return in, fmt.Sprintf("expected marker at %d, found %02X", p, b[p])
		}
		m := b[p+1]
		if m == 0x90 {
			break
		}
		if m == 0xD9 || m == 0x93 || m == 0x4F {
			return in, fmt.Sprintf("unexpected FF%02X in main header at %d", m, p)
		}
		if p+4 > n {
			return in, "truncated segment length"
		}
		L := verifBE16(b, p+2)
		if L < 2 || p+2+L > n {
			return in, fmt.Sprintf("FF%02X length %d exceeds stream", m, L)
		}
		seg := b[p+4 : p+2+L]
		switch m {
		case 0x51:
			if len(seg) < 36 {
				return in, "SIZ too short"
			}
			in.rsiz = verifBE16(seg, 0)
			u := func(o int) int { return int(binary.BigEndian.Uint32(seg[o:])) }
			in.xsiz, in.ysiz, in.xo, in.yo = u(2), u(6), u(10), u(14)
			in.xt, in.yt, in.xto, in.yto = u(18), u(22), u(26), u(30)
			in.comps = verifBE16(seg, 34)
			if L != 38+3*in.comps {
				return in, fmt.Sprintf("Lsiz %d != 38+3*%d", L, in.comps)
			}
			if in.comps < 1 || in.comps > 16384 {
				return in, "Csiz out of range"
			}
			if in.xsiz <= in.xo || in.ysiz <= in.yo || in.xt == 0 || in.yt == 0 {
				return in, fmt.Sprintf("SIZ geometry invalid Xsiz=%d Ysiz=%d XTsiz=%d YTsiz=%d", in.xsiz, in.ysiz, in.xt, in.yt)
			}
			if in.xto > in.xo || in.yto > in.yo || in.xto+in.xt <= in.xo || in.yto+in.yt <= in.yo {
				return in, "SIZ tile offset invalid"
			}
			for i := 0; i < in.comps; i++ {
				s, xr, yr := seg[36+3*i], seg[37+3*i], seg[38+3*i]
				if int(s&0x7F)+1 > 38 || xr == 0 || yr == 0 {
					return in, "SIZ component field invalid"
				}
				in.ssiz = append(in.ssiz, s)
			}
			in.tiles = ((in.xsiz - in.xto + in.xt - 1) / in.xt) * ((in.ysiz - in.yto + in.yt - 1) / in.yt)
			if in.tiles > 65535 {
				return in, "more than 65535 tiles"
			}
		case 0x50: // CAP
			if len(seg) < 4 {
				return in, "CAP too short"
			}
			pc := binary.BigEndian.Uint32(seg)
			cnt := 0
			for x := pc; x != 0; x &= x - 1 {
				cnt++
			}
			if L != 6+2*cnt {
				return in, fmt.Sprintf("Lcap %d != 6+2*%d", L, cnt)
			}
			in.hasCAP = true
		case 0x52: // COD
			if sawCOD {
				return in, "second COD in main header"
			}
			sawCOD = true
			if len(seg) < 10 {
				return in, "COD too short"
			}
			in.scod = int(seg[0])
			in.prog, in.layers, in.mct = int(seg[1]), verifBE16(seg, 2), int(seg[4])
			in.levels, in.xcb, in.ycb, in.cbstyle, in.transform = int(seg[5]), int(seg[6])+2, int(seg[7])+2, int(seg[8]), int(seg[9])
			want := 12
			if in.scod&1 != 0 {
				want += in.levels + 1
			}
			if L != want {
				return in, fmt.Sprintf("Lcod %d != %d", L, want)
			}
			if in.prog > 4 {
				return in, fmt.Sprintf("COD progression %d", in.prog)
			}
			if in.layers < 1 {
				return in, "COD layers = 0"
			}
			if in.levels > 32 {
				return in, "COD levels > 32"
			}
			if seg[6] > 8 || seg[7] > 8 || in.xcb+in.ycb > 12 {
				return in, fmt.Sprintf("COD code-block exponents xcb=%d ycb=%d violate xcb,ycb<=10, xcb+ycb<=12", in.xcb, in.ycb)
			}
			if in.transform > 1 {
				return in, "COD transform > 1"
			}
			if in.scod&^0x07 != 0 {
				return in, fmt.Sprintf("COD Scod reserved bits set %02X", in.scod)
			}
		case 0x5C: // QCD
			if sawQCD {
				return in, "second QCD in main header"
			}
			sawQCD = true
			if len(seg) < 1 {
				return in, "QCD empty"
			}
			in.qstyle = int(seg[0] & 0x1F)
			if sawCOD {
				nb := 3*in.levels + 1
				var want int
				switch in.qstyle {
				case 0:
					want = 3 + nb
				case 1:
					want = 5
				case 2:
					want = 3 + 2*nb
				default:
					return in, fmt.Sprintf("QCD style %d", in.qstyle)
				}
				if L != want {
					return in, fmt.Sprintf("Lqcd %d != %d (style %d, levels %d)", L, want, in.qstyle, in.levels)
				}
				if in.transform == 1 && in.qstyle != 0 {
					return in, "reversible transform with quantisation style != 0"
				}
				if in.transform == 0 && in.qstyle == 0 {
					return in, "irreversible transform with no-quantisation style"
				}
			}
		case 0x5E: // RGN
			want := 5
			if in.comps >= 257 {
				want = 6
			}
			if L != want {
				return in, fmt.Sprintf("Lrgn %d != %d", L, want)
			}
			if int(seg[0]) >= in.comps {
				return in, "RGN component out of range"
			}
			if seg[1] != 0 {
				return in, fmt.Sprintf("RGN Srgn=%d (only 0 defined in Part 1)", seg[1])
			}
		case 0x55: // TLM
			if len(seg) < 2 {
				return in, "TLM too short"
			}
			st, sp := int(seg[1]>>4)&3, int(seg[1]>>6)&1
			if st == 3 {
				return in, "TLM ST=3"
			}
			es := st + 2 + 2*sp
			if (len(seg)-2)%es != 0 {
				return in, fmt.Sprintf("Ltlm %d does not match entry size %d", L, es)
			}
			for q := 2; q < len(seg); q += es {
				ti := -1
				if st == 1 {
					ti = int(seg[q])
				} else if st == 2 {
					ti = verifBE16(seg, q)
				}
				var pl uint32
				if sp == 0 {
					pl = uint32(verifBE16(seg, q+st))
				} else {
					pl = binary.BigEndian.Uint32(seg[q+st:])
				}
				tlm = append(tlm, pl)
				tlmTiles = append(tlmTiles, ti)
			}
			in.hasTLM = true
		case 0x53, 0x5D, 0x5F, 0x57, 0x60, 0x63, 0x64, 0x59, 0x74, 0x75, 0x77, 0x78, 0x76, 0x71, 0x72, 0x73, 0x79:
			// COC QCC POC PLM PPM CRG COM CPF MCT MCC MCO CBD ... : length already checked
			if m == 0x64 && L < 5 {
				return in, "COM shorter than 5"
			}
		default:
			return in, fmt.Sprintf("unknown marker FF%02X in main header at %d", m, p)
		}
		p += 2 + L
	}
	if !sawCOD || !sawQCD {
		return in, "main header lacks COD or QCD"
	}
	// ---- tile-parts
	type tstate struct{ next, declared, count int }
	ts := map[int]*tstate{}
	var psots []uint32
	var isots []int
	sopAllowed := in.scod&2 != 0
	ephAllowed := in.scod&4 != 0
	for {
		if p+2 > n {
			return in, "ran off end without EOC"
		}
		if b[p] == 0xFF && b[p+1] == 0xD9 {
			if p+2 != n {
				return in, fmt.Sprintf("%d byte(s) follow EOC", n-p-2)
			}
			break
		}
		if b[p] != 0xFF || b[p+1] != 0x90 {
			return in, fmt.Sprintf("expected SOT or EOC at %d, found %02X%02X", p, b[p], b[p+1])
		}
		if p+12 > n {
			return in, "truncated SOT"
		}
		if verifBE16(b, p+2) != 10 {
			return in, "Lsot != 10"
		}
		isot := verifBE16(b, p+4)
		psot := binary.BigEndian.Uint32(b[p+6:])
		tp, tn := int(b[p+10]), int(b[p+11])
		if isot >= in.tiles {
			return in, fmt.Sprintf("Isot %d >= number of tiles %d", isot, in.tiles)
		}
		st := ts[isot]
		if st == nil {
			st = &tstate{}
			ts[isot] = st
		}
		if tp != st.next {
			return in, fmt.Sprintf("tile %d TPsot %d, expected %d", isot, tp, st.next)
		}
		st.next++
		st.count++
		if tn != 0 {
			if st.declared != 0 && st.declared != tn {
				return in, "TNsot inconsistent"
			}
			st.declared = tn
		}
		end := 0
		if psot == 0 {
			end = n - 2
		} else {
			if psot < 14 || uint64(p)+uint64(psot) > uint64(n-2) {
				return in, fmt.Sprintf("Psot %d at %d exceeds bytes present (%d before EOC)", psot, p, n-2-p)
			}
			end = p + int(psot)
		}
		psots = append(psots, psot)
		isots = append(isots, isot)
		in.tileParts++
		q := p + 12
		// tile-part header
		for {
			if q+2 > end {
				return in, fmt.Sprintf("tile-part at %d has no SOD within Psot", p)
			}
			if b[q] != 0xFF {
				return in, fmt.Sprintf("expected marker in tile-part header at %d", q)
			}
			mm := b[q+1]
			if mm == 0x93 {
				q += 2
				break
			}
			switch mm {
			case 0x52, 0x53, 0x5C, 0x5D, 0x5E, 0x5F, 0x61, 0x58, 0x64:
			default:
				return in, fmt.Sprintf("marker FF%02X not allowed in tile-part header at %d", mm, q)
			}
			if q+4 > end {
				return in, "truncated tile-part header segment"
			}
			LL := verifBE16(b, q+2)
			if LL < 2 || q+2+LL > end {
				return in, fmt.Sprintf("tile-part header FF%02X length %d exceeds Psot", mm, LL)
			}
			if mm == 0x5E {
				if LL != 5 || int(b[q+4]) >= in.comps {
					return in, "tile RGN malformed"
				}
			}
			q += 2 + LL
		}
		// bit stream q..end : no marker code in range FF90..FFFF except SOP/EPH when enabled
		for i := q; i+1 < end; i++ {
			if b[i] != 0xFF {
				continue
			}
			c := b[i+1]
			if c <= 0x8F {
				continue
			}
			if c == 0x91 && sopAllowed {
				continue
			}
			if c == 0x92 && ephAllowed {
				continue
			}
			return in, fmt.Sprintf("unescaped marker code FF%02X inside packet data at %d (tile-part at %d, Psot %d)", c, i, p, psot)
		}
		if end > q && b[end-1] == 0xFF {
			return in, fmt.Sprintf("tile-part data ends with FF at %d", end-1)
		}
		// the next thing at `end` must be SOT or EOC
		if end+2 > n || b[end] != 0xFF || (b[end+1] != 0x90 && b[end+1] != 0xD9) {
			return in, fmt.Sprintf("Psot %d of tile-part at %d does not land on SOT/EOC", psot, p)
		}
		p = end
	}
	for t := 0; t < in.tiles; t++ {
		st := ts[t]
		if st == nil {
			return in, fmt.Sprintf("tile %d has no tile-part", t)
		}
		if st.declared != 0 && st.declared != st.count {
			return in, fmt.Sprintf("tile %d TNsot %d but %d tile-parts", t, st.declared, st.count)
		}
	}
	if in.hasTLM {
		if len(tlm) != len(psots) {
			return in, fmt.Sprintf("TLM lists %d tile-parts, stream has %d", len(tlm), len(psots))
		}
		for i := range tlm {
			want := psots[i]
			if want == 0 {
				continue
			}
			if tlm[i] != want {
				return in, fmt.Sprintf("TLM entry %d Ptlm %d != Psot %d", i, tlm[i], want)
			}
			if tlmTiles[i] >= 0 && tlmTiles[i] != isots[i] {
				return in, fmt.Sprintf("TLM entry %d Ttlm %d != Isot %d", i, tlmTiles[i], isots[i])
			}
		}
	}
	return in, ""
}

// ================================================================= DICOM RLE (PS3.5 Annex G)

// verifWalkRLE checks the 64-byte header and that every segment decodes (PackBits) to exactly
// pixels bytes with at most one trailing pad byte; returns first violation.
func verifWalkRLE(b []byte, wantSegments, pixels int) string {
	n := len(b)
	if n < 64 {
		return "shorter than the 64 byte header"
	}
	if n&1 != 0 {
		return "odd total length"
	}
	cnt := int(binary.LittleEndian.Uint32(b))
	if cnt < 1 || cnt > 15 {
		return fmt.Sprintf("segment count %d", cnt)
	}
	if cnt != wantSegments {
		return fmt.Sprintf("segment count %d, want %d", cnt, wantSegments)
	}
	off := make([]int, 16)
	for i := 0; i < 15; i++ {
		off[i] = int(binary.LittleEndian.Uint32(b[4+4*i:]))
	}
	if off[0] != 64 {
		return fmt.Sprintf("first offset %d != 64", off[0])
	}
	for i := 0; i < 15; i++ {
		if i >= cnt {
			if off[i] != 0 {
				return fmt.Sprintf("unused offset %d is %d, not 0", i, off[i])
			}
			continue
		}
		if off[i]&1 != 0 {
			return fmt.Sprintf("offset %d (%d) is odd", i, off[i])
		}
		if i > 0 && off[i] <= off[i-1] {
			return fmt.Sprintf("offset %d not increasing", i)
		}
		if off[i] > n {
			return fmt.Sprintf("offset %d beyond data", i)
		}
	}
	for s := 0; s < cnt; s++ {
		lo, hi := off[s], n
		if s+1 < cnt {
			hi = off[s+1]
		}
		got := 0
		i := lo
		for i < hi && got < pixels {
			c := int(int8(b[i]))
			i++
			switch {
			case c >= 0:
				if i+c+1 > hi {
					return fmt.Sprintf("segment %d literal run overruns segment", s)
				}
				got += c + 1
				i += c + 1
			case c >= -127:
				if i >= hi {
					return fmt.Sprintf("segment %d replicate run lacks value byte", s)
				}
				got += 1 - c
				i++
			}
		}
		if got != pixels {
			return fmt.Sprintf("segment %d decodes to %d bytes, want %d", s, got, pixels)
		}
		if hi-i > 1 {
			return fmt.Sprintf("segment %d has %d trailing bytes after its data", s, hi-i)
		}
		if hi-i == 1 && b[i] != 0 {
			return fmt.Sprintf("segment %d pad byte is %02X", s, b[i])
		}
	}
	return ""
}
