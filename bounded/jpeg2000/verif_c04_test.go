package jpeg2000

// Bounded stand-in for C04:
// "For every image (1 to 4 components, precision 1..16, unsigned or two's-complement signed samples
// that fit the precision) and every reversible single-tile encoder configuration - 0 to 6
// decomposition levels, any power-of-two code-block and precinct size, each of the five progression
// orders, any number of quality layers, colour transform enabled or not - decoding the encoder's
// codestream reproduces the samples exactly and reports the same width, height, component count,
// precision and signedness."
//
// Every case runs Encoder.Encode on container bytes (low P bits of 8-bit / 16-bit LE containers,
// signed = P-bit two's complement) and Decoder.Decode on the result, then compares the five header
// fields, every sample of GetImageData and every byte of GetPixelData.

import (
	"fmt"
	"math/rand"
	"testing"
)

// verifC04Kind tags failures with the coarse regions "signed and P<8" and "layers>1" so that
// failure classes with different causes are reported (and shrunk) separately.  The tags only
// label failures, they never turn a failing case into a passing one.
func verifC04Kind(c verifJ2KCase, kind string) string {
	if kind == "" {
		return ""
	}
	if c.Signed && c.P < 8 {
		kind += "/signed-P<8"
	}
	if c.Layers > 1 {
		kind += "/layers>1"
	}
	return kind
}

func verifC04Run(r *verifJ2Report, c verifJ2KCase) {
	kind, detail := verifJ2KRoundTrip(c, nil)
	k := verifC04Kind(c, kind)
	if k != "" && r.nKind[k] == 0 {
		// first failure of this kind: add a greedily shrunk configuration that fails the same way
		min := verifJ2KShrink(c, false, func(x verifJ2KCase) bool {
			k2, _ := verifJ2KRoundTrip(x, nil)
			return verifC04Kind(x, k2) == k
		})
		_, d2 := verifJ2KRoundTrip(min, nil)
		detail += " shrunk=[" + d2 + "]"
	}
	r.record(k, detail)
}

var (
	verifC04CB    = []int{4, 8, 16, 32, 64}
	verifC04Prec  = []int{0, 32, 64, 128, 256}
	verifC04Fills = []string{"noise", "noise", "noise", "extremes", "gradient", "const"}
)

// verifC04RandomConfig draws every configuration field uniformly from the C04 domain.
func verifC04RandomConfig(rng *rand.Rand, w, h int) verifJ2KCase {
	return verifJ2KCase{
		W: w, H: h,
		C:      1 + rng.Intn(4),
		P:      1 + rng.Intn(16),
		Signed: rng.Intn(2) == 1,
		Levels: rng.Intn(7),
		CBW:    verifC04CB[rng.Intn(len(verifC04CB))],
		CBH:    verifC04CB[rng.Intn(len(verifC04CB))],
		PW:     verifC04Prec[rng.Intn(len(verifC04Prec))],
		PH:     verifC04Prec[rng.Intn(len(verifC04Prec))],
		Prog:   rng.Intn(5),
		Layers: 1 + rng.Intn(6),
		MCT:    rng.Intn(2) == 1,
		Fill:   verifC04Fills[rng.Intn(len(verifC04Fills))],
		Seed:   rng.Int63(),
	}
}

// TestVerif_C04_SizeGrid: every width x height in 1..40 (quick: all widths x 16 heights and the
// transposed set), once with the default configuration and once with a seeded random configuration.
func TestVerif_C04_SizeGrid(t *testing.T) {
	hs := []int{1, 2, 3, 4, 5, 7, 8, 9, 15, 16, 17, 31, 32, 33, 39, 40}
	dom := "sizes {1..40}x{1,2,3,4,5,7,8,9,15,16,17,31,32,33,39,40} and transposed; per size: (a) default config comps=1 P=8 unsigned levels=5 cb=64 noise, (b) one seeded random draw of the full C04 configuration product (comps 1..4, P 1..16, signed, levels 0..6, cb {4..64}^2, precinct {0,32,64,128,256}^2, prog 0..4, layers 1..6, MCT)"
	if verifJ2Thorough() {
		hs = nil
		for i := 1; i <= 40; i++ {
			hs = append(hs, i)
		}
		dom = "all sizes 1..40 x 1..40; per size: (a) default config comps=1 P=8 unsigned levels=5 cb=64 noise, (b) three seeded random draws of the full C04 configuration product"
	}
	r := verifJ2NewReport("TestVerif_C04_SizeGrid", dom)
	rng := rand.New(rand.NewSource(verifJ2Seed() ^ 0x0401))
	seen := map[[2]int]bool{}
	visit := func(w, h int) {
		if seen[[2]int{w, h}] {
			return
		}
		seen[[2]int{w, h}] = true
		verifC04Run(r, verifJ2KCase{W: w, H: h, C: 1, P: 8, Levels: 5, CBW: 64, CBH: 64, Layers: 1, MCT: true, Fill: "noise", Seed: int64(w*100 + h)})
		n := 1
		if verifJ2Thorough() {
			n = 3
		}
		for i := 0; i < n; i++ {
			verifC04Run(r, verifC04RandomConfig(rng, w, h))
		}
	}
	for w := 1; w <= 40; w++ {
		for _, h := range hs {
			visit(w, h)
			visit(h, w)
		}
	}
	r.finish(t)
}

// TestVerif_C04_PrecisionSignedness: the full grid P x signed x components x MCT on three small
// image sizes with noise and extreme-value contents, all other parameters default.
func TestVerif_C04_PrecisionSignedness(t *testing.T) {
	sizes := [][2]int{{1, 1}, {5, 3}, {17, 13}}
	if verifJ2Thorough() {
		sizes = append(sizes, [2]int{2, 2}, [2]int{40, 40}, [2]int{33, 1}, [2]int{1, 33})
	}
	r := verifJ2NewReport("TestVerif_C04_PrecisionSignedness",
		fmt.Sprintf("exhaustive grid P 1..16 x signed {0,1} x comps 1..4 x MCT {0,1} x fill {noise,extremes} x levels {0,5} x sizes %v; cb=64 prog=0 layers=1 precinct=default", sizes))
	for p := 1; p <= 16; p++ {
		for _, signed := range []bool{false, true} {
			for comps := 1; comps <= 4; comps++ {
				for _, mct := range []bool{false, true} {
					for _, fill := range []string{"noise", "extremes"} {
						for _, lv := range []int{0, 5} {
							for _, sz := range sizes {
								verifC04Run(r, verifJ2KCase{W: sz[0], H: sz[1], C: comps, P: p, Signed: signed, Levels: lv,
									CBW: 64, CBH: 64, Layers: 1, MCT: mct, Fill: fill, Seed: int64(p*1000 + comps*10 + sz[0])})
							}
						}
					}
				}
			}
		}
	}
	r.finish(t)
}

// TestVerif_C04_CodeBlockEdges: image sizes around multiples of the code-block size (in the image
// and, through the level count, in the sub-bands).
func TestVerif_C04_CodeBlockEdges(t *testing.T) {
	levels := []int{0, 1, 2, 5}
	if verifJ2Thorough() {
		levels = []int{0, 1, 2, 3, 4, 5, 6}
	}
	r := verifJ2NewReport("TestVerif_C04_CodeBlockEdges",
		fmt.Sprintf("cbw,cbh in {4,8,16,32,64}^2 x levels %v x sizes w in {m*cbw+d}, h in {m*cbh+d}, m in {1,2}, d in {-1,0,1} (size<=130; quick: 6 diagonal (w,h) pairings per combination, thorough: all 36); comps/P/signed/prog/layers cycled through {1,3}/{8,12,16}/{0,1}/0..4/{1,2}; noise", levels))
	idx := 0
	for _, cbw := range verifC04CB {
		for _, cbh := range verifC04CB {
			var ws, hs []int
			for _, m := range []int{1, 2} {
				for _, d := range []int{-1, 0, 1} {
					ws = append(ws, m*cbw+d)
					hs = append(hs, m*cbh+d)
				}
			}
			for li, lv := range levels {
				for i := range ws {
					js := []int{(i + li) % len(hs)}
					if verifJ2Thorough() {
						js = []int{0, 1, 2, 3, 4, 5}
					}
					for _, j := range js {
						w, h := ws[i], hs[j]
						if w > 130 || h > 130 {
							continue
						}
						idx++
						c := verifJ2KCase{W: w, H: h, C: []int{1, 3}[idx%2], P: []int{8, 12, 16}[idx%3], Signed: idx%4 >= 2,
							Levels: lv, CBW: cbw, CBH: cbh, Prog: idx % 5, Layers: 1 + (idx/5)%2, MCT: idx%8 < 4, Fill: "noise", Seed: int64(idx)}
						verifC04Run(r, c)
					}
				}
			}
		}
	}
	r.finish(t)
}

// TestVerif_C04_ProgressionLayersPrecincts: full grid progression x layers x precinct sizes.
func TestVerif_C04_ProgressionLayersPrecincts(t *testing.T) {
	r := verifJ2NewReport("TestVerif_C04_ProgressionLayersPrecincts",
		"exhaustive grid prog 0..4 x layers 1..6 x precinct (pw,ph) in {0,32,64,128,256}^2; image A = 40x37 comps=3 P=8 MCT levels=2 cb=16x16, image B = 33x40 comps=1 P=12 signed levels=5 cb=8x32, image C = 27x19 comps=4 P=16 levels=3 cb=4x4; quick: one of A/B per grid point (alternating), thorough: A, B and C on every grid point; noise")
	n := 0
	for prog := 0; prog <= 4; prog++ {
		for layers := 1; layers <= 6; layers++ {
			for _, pw := range verifC04Prec {
				for _, ph := range verifC04Prec {
					n++
					seed := int64(prog*10000 + layers*1000 + pw + ph*3)
					a := verifJ2KCase{W: 40, H: 37, C: 3, P: 8, Levels: 2, CBW: 16, CBH: 16, PW: pw, PH: ph, Prog: prog, Layers: layers, MCT: true, Fill: "noise", Seed: seed}
					b := verifJ2KCase{W: 33, H: 40, C: 1, P: 12, Signed: true, Levels: 5, CBW: 8, CBH: 32, PW: pw, PH: ph, Prog: prog, Layers: layers, MCT: false, Fill: "noise", Seed: seed + 1}
					if verifJ2Thorough() {
						verifC04Run(r, a)
						verifC04Run(r, b)
						verifC04Run(r, verifJ2KCase{W: 27, H: 19, C: 4, P: 16, Levels: 3, CBW: 4, CBH: 4, PW: pw, PH: ph, Prog: prog, Layers: layers, MCT: true, Fill: "noise", Seed: seed + 2})
					} else if n%2 == 0 {
						verifC04Run(r, a)
					} else {
						verifC04Run(r, b)
					}
				}
			}
		}
	}
	r.finish(t)
}

// TestVerif_C04_NoiseSeeds: many independent noise images for a few fixed small configurations
// (single code-block per sub-band).  Noise contents make the compressed code-block lengths vary
// around 255 / 511 bytes, which exercises data-dependent packet-header paths.
func TestVerif_C04_NoiseSeeds(t *testing.T) {
	seeds := 150
	if verifJ2Thorough() {
		seeds = 3000
	}
	r := verifJ2NewReport("TestVerif_C04_NoiseSeeds",
		fmt.Sprintf("configs {16x16 comps=1 P=8 levels=0; 16x16 comps=1 P=15 levels=0; 16x16 comps=3 P=8 MCT levels=0; 23x11 comps=1 P=8 levels=0; 32x32 comps=1 P=16 levels=1; 64x64 comps=1 P=16 levels=2} x noise seeds 0..%d; cb=64 prog=0 layers=1 unsigned", seeds-1))
	cfgs := []verifJ2KCase{
		{W: 16, H: 16, C: 1, P: 8, Levels: 0},
		{W: 16, H: 16, C: 1, P: 15, Levels: 0},
		{W: 16, H: 16, C: 3, P: 8, Levels: 0, MCT: true},
		{W: 23, H: 11, C: 1, P: 8, Levels: 0},
		{W: 32, H: 32, C: 1, P: 16, Levels: 1},
		{W: 64, H: 64, C: 1, P: 16, Levels: 2},
	}
	for _, cfg := range cfgs {
		for s := 0; s < seeds; s++ {
			c := cfg
			c.CBW, c.CBH, c.Layers, c.Fill, c.Seed = 64, 64, 1, "noise", int64(s)
			if c.W == 64 && !verifJ2Thorough() && s >= 40 {
				break
			}
			verifC04Run(r, c)
		}
	}
	r.finish(t)
}

// TestVerif_C04_ConfigSample: seeded uniform sampling of the whole configuration product.
func TestVerif_C04_ConfigSample(t *testing.T) {
	n := 1500
	if verifJ2Thorough() {
		n = 40000
	}
	r := verifJ2NewReport("TestVerif_C04_ConfigSample",
		fmt.Sprintf("%d seeded uniform draws (seed=%d) from: w,h 1..40 (10%% of draws: w,h in {63,64,65,127,128,129}), comps 1..4, P 1..16, signed {0,1}, levels 0..6, cbw,cbh {4,8,16,32,64}, pw,ph {0,32,64,128,256}, prog 0..4, layers 1..6, MCT {0,1}, fill {noise x3,extremes,gradient,const}", n, verifJ2Seed()))
	rng := rand.New(rand.NewSource(verifJ2Seed() ^ 0x0405))
	big := []int{63, 64, 65, 127, 128, 129}
	for i := 0; i < n; i++ {
		w, h := 1+rng.Intn(40), 1+rng.Intn(40)
		if rng.Intn(10) == 0 {
			w, h = big[rng.Intn(len(big))], big[rng.Intn(len(big))]
		}
		verifC04Run(r, verifC04RandomConfig(rng, w, h))
	}
	r.finish(t)
}

// TestVerif_C04_ManyLayers: "any number of quality layers" taken literally - far more layers than there
// are coding passes (most layers are then empty packets).  Counts up to 1000 are reported under their
// own failure kind; counts above are tagged many-layers>1000 (see known_findings.json).
func TestVerif_C04_ManyLayers(t *testing.T) {
	counts := []int{7, 40, 100, 400, 1000, 3000, 5000, 65535}
	if verifJ2Thorough() {
		counts = append(counts, 41, 164, 165, 2000, 2731, 4096, 20000)
	}
	r := verifJ2NewReport("TestVerif_C04_ManyLayers", fmt.Sprintf("reversible single tile, 20x17 12-bit unsigned and 9x5 8-bit x3 noise, levels {5,1}, NumLayers in %v", counts))
	for _, n := range counts {
		for i, c := range []verifJ2KCase{
			{W: 20, H: 17, C: 1, P: 12, Levels: 5, CBW: 64, CBH: 64, Layers: n, Fill: "noise", Seed: 12345},
			{W: 9, H: 5, C: 3, P: 8, Levels: 1, CBW: 64, CBH: 64, Layers: n, MCT: true, Fill: "noise", Seed: 77},
		} {
			kind, detail := verifJ2KRoundTrip(c, nil)
			if kind != "" {
				if n > 1000 {
					kind += "/many-layers>1000"
				} else {
					kind += "/layers<=1000"
				}
			}
			r.record(kind, fmt.Sprintf("img=%d %s", i, detail))
		}
	}
	r.finish(t)
}
