package t1

// Bounded stand-in for the EBCOT part of C20:
// "... the EBCOT block decoder returns the coefficient block given to the block encoder for every
// block size, sub-band orientation and code-block style (bypass, reset, terminate-all,
// vertically-causal, predictable-termination, segmentation-symbol, in any combination) when given
// the pass lengths the encoder reports ..."
//
// Pairing used (the one the tile decoder in jpeg2000/t2 uses):
//   enc := NewT1Encoder(w,h,style); enc.SetOrientation(o)
//   passes, data, _ := enc.EncodeLayered(block, 3*numbps-2, 0, nil, style)
//   dec := NewT1Decoder(w,h,style); dec.SetOrientation(o)
//   dec.DecodeLayeredWithMode(data, cumulative PassData.Rate, maxBitplane, 0,
//                             style&TERMALL != 0, style&RESET != 0)
//   dec.GetData() == block
// (for non-TERMALL styles DecodeLayeredWithMode forwards to DecodeWithOptions with the number of
// passes).  A block for which the encoder reports zero passes (all-zero block) must equal the
// freshly constructed decoder's all-zero output.

import (
	"fmt"
	"math/rand"
	"strings"
	"testing"
)

type verifT1Case struct {
	W, H, Orient, Style int
	Fill                string // noise | sparse | zero | single | max | negmax | checker
	Bits                int    // magnitudes < 2^Bits
	Seed                int64
}

func (c verifT1Case) String() string {
	return fmt.Sprintf("w=%d h=%d orient=%d style=0x%02x fill=%s bits=%d seed=%d", c.W, c.H, c.Orient, c.Style, c.Fill, c.Bits, c.Seed)
}

func verifT1Block(c verifT1Case) []int32 {
	rng := rand.New(rand.NewSource(c.Seed))
	n := c.W * c.H
	out := make([]int32, n)
	lim := int32(1) << uint(c.Bits)
	for i := range out {
		switch c.Fill {
		case "zero":
		case "single":
		case "max":
			out[i] = lim - 1
		case "negmax":
			out[i] = -(lim - 1)
		case "checker":
			x, y := i%c.W, i/c.W
			if (x+y)%2 == 0 {
				out[i] = lim - 1
			} else {
				out[i] = -1
			}
		case "sparse":
			if rng.Intn(16) == 0 {
				out[i] = rng.Int31n(2*lim-1) - (lim - 1)
			}
		default:
			out[i] = rng.Int31n(2*lim-1) - (lim - 1)
		}
	}
	if c.Fill == "single" {
		out[rng.Intn(n)] = -(lim - 1)
	}
	return out
}

// verifT1RoundTrip returns kind=="" when the decoder reproduces the block.
func verifT1RoundTrip(c verifT1Case) (kind, detail string) {
	defer func() {
		if r := recover(); r != nil {
			kind = "panic"
			detail = fmt.Sprintf("%s panic=%q", c, strings.ReplaceAll(fmt.Sprint(r), "\n", " "))
		}
	}()
	block := verifT1Block(c)
	maxAbs := int32(0)
	for _, v := range block {
		if v < 0 {
			v = -v
		}
		if v > maxAbs {
			maxAbs = v
		}
	}
	maxBitplane := -1
	for m := maxAbs; m > 0; m >>= 1 {
		maxBitplane++
	}
	numPasses := 1
	if maxBitplane >= 0 {
		numPasses = 3*(maxBitplane+1) - 2
	}
	enc := NewT1Encoder(c.W, c.H, c.Style)
	enc.SetOrientation(c.Orient)
	passes, data, err := enc.EncodeLayered(append([]int32(nil), block...), numPasses, 0, nil, uint8(c.Style))
	if err != nil {
		return "encode-error", fmt.Sprintf("%s err=%q", c, err.Error())
	}
	if maxBitplane >= 0 && len(passes) != numPasses {
		return "pass-count", fmt.Sprintf("%s reported_passes=%d want=%d", c, len(passes), numPasses)
	}
	dec := NewT1Decoder(c.W, c.H, c.Style)
	dec.SetOrientation(c.Orient)
	if len(passes) > 0 {
		lengths := make([]int, len(passes))
		for i, p := range passes {
			lengths[i] = p.Rate
		}
		if err := dec.DecodeLayeredWithMode(data, lengths, maxBitplane, 0, c.Style&CblkStyleTermAll != 0, c.Style&CblkStyleReset != 0); err != nil {
			return "decode-error", fmt.Sprintf("%s bytes=%d passes=%d err=%q", c, len(data), len(passes), err.Error())
		}
	}
	got := dec.GetData()
	if len(got) != len(block) {
		return "mismatch", fmt.Sprintf("%s got_len=%d want_len=%d", c, len(got), len(block))
	}
	bad, first := 0, -1
	for i := range block {
		if got[i] != block[i] {
			if first < 0 {
				first = i
			}
			bad++
		}
	}
	if bad > 0 {
		return "mismatch", fmt.Sprintf("%s maxBitplane=%d passes=%d bytes=%d bad_coeffs=%d/%d first_bad_x=%d first_bad_y=%d want=%d got=%d",
			c, maxBitplane, len(passes), len(data), bad, len(block), first%c.W, first/c.W, block[first], got[first])
	}
	return "", ""
}

// verifT1Kind labels failures with the region "bypass without terminate-all" (label only).
func verifT1Kind(c verifT1Case, kind string) string {
	if kind == "" {
		return ""
	}
	if c.Style&CblkStyleLazy != 0 && c.Style&CblkStyleTermAll == 0 {
		kind += "/bypass-without-termall"
	}
	return kind
}

func verifT1Shrink(c verifT1Case, kind string) verifT1Case {
	fails := func(x verifT1Case) bool {
		k, _ := verifT1RoundTrip(x)
		return verifT1Kind(x, k) == kind
	}
	for budget := 0; budget < 100; budget++ {
		changed := false
		mut := func(f func(x *verifT1Case)) {
			cand := c
			f(&cand)
			if cand == c || cand.W < 1 || cand.H < 1 || cand.Bits < 1 {
				return
			}
			if fails(cand) {
				c = cand
				changed = true
			}
		}
		for _, bit := range []int{0x20, 0x10, 0x08, 0x04, 0x02, 0x01} {
			b := bit
			mut(func(x *verifT1Case) { x.Style &^= b })
		}
		mut(func(x *verifT1Case) { x.Orient = 0 })
		mut(func(x *verifT1Case) { x.W = 1 })
		mut(func(x *verifT1Case) { x.H = 1 })
		mut(func(x *verifT1Case) { x.W = (x.W + 1) / 2 })
		mut(func(x *verifT1Case) { x.H = (x.H + 1) / 2 })
		mut(func(x *verifT1Case) { x.W-- })
		mut(func(x *verifT1Case) { x.H-- })
		mut(func(x *verifT1Case) { x.Bits-- })
		if !changed {
			break
		}
	}
	return c
}

func verifT1Run(r *verifJ2Report, c verifT1Case) {
	kind, detail := verifT1RoundTrip(c)
	k := verifT1Kind(c, kind)
	if k != "" && r.nKind[k] == 0 {
		min := verifT1Shrink(c, k)
		_, d2 := verifT1RoundTrip(min)
		detail += " shrunk=[" + d2 + "]"
	}
	r.record(k, detail)
}

// TestVerif_C20_T1StyleGrid: all 64 style combinations x 4 orientations x block sizes x magnitudes.
func TestVerif_C20_T1StyleGrid(t *testing.T) {
	sizes := [][2]int{{1, 1}, {1, 4}, {4, 1}, {3, 5}, {4, 4}, {5, 8}, {8, 8}, {16, 16}, {17, 9}, {33, 3}}
	bits := []int{1, 3, 6, 10, 14}
	if verifJ2Thorough() {
		sizes = append(sizes, [2]int{32, 32}, [2]int{64, 64}, [2]int{64, 1}, [2]int{1, 64}, [2]int{63, 5}, [2]int{7, 64})
		bits = []int{1, 2, 3, 4, 5, 6, 8, 10, 14, 20}
	}
	r := verifJ2NewReport("TestVerif_C20_T1StyleGrid",
		fmt.Sprintf("exhaustive grid: style 0x00..0x3f (all 64 combinations of bypass,reset,termall,vsc,pterm,segsym) x orientation 0..3 x block sizes %v x magnitude bits %v; seeded noise coefficients in (-2^bits,2^bits)", sizes, bits))
	seed := int64(0)
	for style := 0; style < 64; style++ {
		for orient := 0; orient < 4; orient++ {
			for _, sz := range sizes {
				for _, b := range bits {
					seed++
					verifT1Run(r, verifT1Case{W: sz[0], H: sz[1], Orient: orient, Style: style, Fill: "noise", Bits: b, Seed: seed})
				}
			}
		}
	}
	r.finish(t)
}

// TestVerif_C20_T1BlockSizes: every block size 1..64 x 1..64 (quick: 1..20 x 1..20 plus edges),
// styles and orientations cycled so that every style meets many sizes.
func TestVerif_C20_T1BlockSizes(t *testing.T) {
	var dims []int
	dom := "block sizes w,h in {1..20,31,32,33,48,63,64}^2"
	if verifJ2Thorough() {
		for i := 1; i <= 64; i++ {
			dims = append(dims, i)
		}
		dom = "all block sizes w,h in 1..64"
	} else {
		for i := 1; i <= 20; i++ {
			dims = append(dims, i)
		}
		dims = append(dims, 31, 32, 33, 48, 63, 64)
	}
	r := verifJ2NewReport("TestVerif_C20_T1BlockSizes",
		dom+" with w*h<=4096; per size one case: style cycled 0..63 (stride 37), orientation cycled 0..3, magnitude bits cycled {2,7,11}, fill cycled {noise,sparse}")
	i := 0
	for _, w := range dims {
		for _, h := range dims {
			if w*h > 4096 {
				continue
			}
			i++
			verifT1Run(r, verifT1Case{W: w, H: h, Orient: i % 4, Style: (i * 37) % 64, Fill: []string{"noise", "sparse"}[(i/4)%2], Bits: []int{2, 7, 11}[i%3], Seed: int64(i)})
		}
	}
	r.finish(t)
}

// TestVerif_C20_T1Contents: special block contents (all zero, single coefficient, all max, all
// negative, checkerboard, sparse) for every style.
func TestVerif_C20_T1Contents(t *testing.T) {
	r := verifJ2NewReport("TestVerif_C20_T1Contents",
		"style 0x00..0x3f x fill {zero,single,max,negmax,checker,sparse} x sizes {1x1,4x4,5x7,8x8,16x4,64x64(sparse,single only)} x magnitude bits {1,5,9,16} x orientation cycled")
	i := 0
	for style := 0; style < 64; style++ {
		for _, fill := range []string{"zero", "single", "max", "negmax", "checker", "sparse"} {
			for _, sz := range [][2]int{{1, 1}, {4, 4}, {5, 7}, {8, 8}, {16, 4}, {64, 64}} {
				if sz[0] == 64 && fill != "sparse" && fill != "single" {
					continue
				}
				for _, b := range []int{1, 5, 9, 16} {
					if sz[0] == 64 && b != 9 {
						continue
					}
					i++
					verifT1Run(r, verifT1Case{W: sz[0], H: sz[1], Orient: i % 4, Style: style, Fill: fill, Bits: b, Seed: int64(i)})
				}
			}
		}
	}
	r.finish(t)
}
