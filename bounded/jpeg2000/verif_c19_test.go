package jpeg2000

// Bounded stand-in for C19:
// "For every image and every tile size - any number of tiles per axis, tiles that do not divide the
// image (partial right and bottom tiles), odd tile sizes that put tile origins on odd coordinates,
// tiles smaller than a code-block - the reversible encoder's multi-tile codestream decodes to
// exactly the source samples, with every tile placed at its position. This holds together with
// multiple components, decomposition levels, layers and global rate allocation with a final
// lossless layer."
//
// Every case runs Encoder.Encode (Lossless=true, TileWidth/TileHeight set) and Decoder.Decode and
// compares header fields, every sample (GetImageData) and every byte (GetPixelData).  Image
// contents are seeded noise (or a position-coding gradient), so a tile placed at the wrong position
// or a sample decoded wrongly is detected.

import (
	"fmt"
	"math/rand"
	"testing"
)

// verifC19Unaligned reports whether some tile origin is not a multiple of 2^levels, i.e. whether the
// tile origin is odd at some decomposition level (at level 0 this is an odd tile origin).
func verifC19Unaligned(c verifJ2KCase) bool {
	if c.Levels == 0 {
		return false
	}
	tw, th := c.TW, c.TH
	if tw == 0 {
		tw = c.W
	}
	if th == 0 {
		th = c.H
	}
	m := 1 << uint(c.Levels)
	for x := tw; x < c.W; x += tw {
		if x%m != 0 {
			return true
		}
	}
	for y := th; y < c.H; y += th {
		if y%m != 0 {
			return true
		}
	}
	return false
}

// verifC19OriginBeyondCB reports whether some tile origin is at or beyond the code-block size, i.e.
// whether some tile does not lie inside code-block (0,0) of the absolute code-block grid.
func verifC19OriginBeyondCB(c verifJ2KCase) bool {
	tw, th := c.TW, c.TH
	if tw == 0 {
		tw = c.W
	}
	if th == 0 {
		th = c.H
	}
	lastX := ((c.W - 1) / tw) * tw
	lastY := ((c.H - 1) / th) * th
	return lastX >= c.CBW || lastY >= c.CBH
}

// verifC19Kind labels failures with coarse regions (never changes pass/fail):
// unaligned-origin = some tile origin is not a multiple of 2^levels; origin>=cb = some tile origin
// is at or beyond the code-block size; layers>1 = layered / global rate allocation path.
func verifC19Kind(c verifJ2KCase, kind string) string {
	if kind == "" {
		return ""
	}
	if verifC19Unaligned(c) {
		kind += "/unaligned-origin"
	}
	if verifC19OriginBeyondCB(c) {
		kind += "/origin>=cb"
	}
	if c.Layers > 1 {
		kind += "/layers>1"
	}
	return kind
}

func verifC19Run(r *verifJ2Report, c verifJ2KCase, tweak func(*EncodeParams)) {
	kind, detail := verifJ2KRoundTrip(c, tweak)
	k := verifC19Kind(c, kind)
	if k != "" && r.nKind[k] == 0 {
		min := verifJ2KShrink(c, true, func(x verifJ2KCase) bool {
			k2, _ := verifJ2KRoundTrip(x, tweak)
			return verifC19Kind(x, k2) == k
		})
		_, d2 := verifJ2KRoundTrip(min, tweak)
		detail += " shrunk=[" + d2 + "]"
	}
	r.record(k, detail)
}

// verifC19TileSizes returns tile sizes for an axis of length n: powers of two, odd sizes, the size
// that leaves a last tile one sample wide, and sizes giving exactly 1..8 tiles.
func verifC19TileSizes(n int) []int {
	cand := []int{1, 2, 3, 4, 5, 7, 8, 9, 15, 16, 17, 31, 32, 33, 64, n - 1, n, n + 3, (n + 1) / 2}
	for k := 1; k <= 8; k++ {
		cand = append(cand, (n+k-1)/k)
	}
	var out []int
	for _, t := range verifJ2SortedInts(cand, 1, 1<<30) {
		tiles := (n + t - 1) / t
		if tiles >= 1 && tiles <= 8 {
			out = append(out, t)
		}
	}
	return out
}

// TestVerif_C19_TileSizeGrid: for a set of image sizes, every listed tile width with a rotating
// tile height (and vice versa), components/precision/levels/layers cycled.
func TestVerif_C19_TileSizeGrid(t *testing.T) {
	sizes := [][2]int{{16, 16}, {17, 13}, {33, 20}, {40, 37}, {9, 64}, {65, 7}}
	if verifJ2Thorough() {
		sizes = append(sizes, [2]int{128, 96}, [2]int{255, 31}, [2]int{600, 9}, [2]int{7, 600}, [2]int{257, 129})
	}
	r := verifJ2NewReport("TestVerif_C19_TileSizeGrid",
		fmt.Sprintf("images %v; per axis tile sizes {1,2,3,4,5,7,8,9,15,16,17,31,32,33,64,n-1,n,n+3,ceil(n/k) k=1..8} restricted to 1..8 tiles per axis; every tile width paired with 2 rotating tile heights and every tile height with 2 rotating tile widths (at least 2 tiles in total); comps {1,3} P {8,12,16} signed {0,1} levels 0..5 layers 1..3 MCT cycled; cb 64 (and 16,4 cycled); noise", sizes))
	idx := 0
	for _, sz := range sizes {
		w, h := sz[0], sz[1]
		tws, ths := verifC19TileSizes(w), verifC19TileSizes(h)
		seen := map[[2]int]bool{}
		emit := func(tw, th int) {
			if seen[[2]int{tw, th}] {
				return
			}
			seen[[2]int{tw, th}] = true
			if ((w+tw-1)/tw)*((h+th-1)/th) < 2 {
				return
			}
			idx++
			cb := []int{64, 16, 4}[idx%3]
			c := verifJ2KCase{W: w, H: h, C: []int{1, 3}[idx%2], P: []int{8, 12, 16}[(idx/2)%3], Signed: (idx/6)%2 == 1,
				Levels: idx % 6, CBW: cb, CBH: cb, Prog: 0, Layers: 1 + (idx/3)%3, MCT: (idx/2)%2 == 0, TW: tw, TH: th, Fill: "noise", Seed: int64(idx)}
			verifC19Run(r, c, nil)
		}
		for i, tw := range tws {
			emit(tw, ths[i%len(ths)])
			emit(tw, ths[(i*3+1)%len(ths)])
		}
		for j, th := range ths {
			emit(tws[j%len(tws)], th)
			emit(tws[(j*5+2)%len(tws)], th)
		}
	}
	r.finish(t)
}

// TestVerif_C19_LevelsLayersOnTiles: fixed small multi-tile layouts (even tiles, odd tiles, partial
// tiles, 1-sample last tile, tiles smaller than the code-block) x levels 0..5 x layers 1..3 x comps.
func TestVerif_C19_LevelsLayersOnTiles(t *testing.T) {
	type layout struct{ w, h, tw, th int }
	layouts := []layout{
		{32, 32, 16, 16}, // 2x2 even tiles
		{32, 32, 8, 8},   // 4x4 tiles
		{33, 33, 16, 16}, // last tile 1 sample wide/high
		{20, 20, 7, 7},   // odd tile size: origins 7,14
		{21, 10, 5, 3},   // odd, partial
		{16, 16, 3, 16},  // tiles smaller than code-block, odd origins in x only
		{16, 16, 16, 5},  // odd origins in y only
		{8, 8, 1, 1},     // 1x1 tiles (8 per axis)
		{40, 12, 9, 12},  // single tile row
	}
	r := verifJ2NewReport("TestVerif_C19_LevelsLayersOnTiles",
		"layouts (w,h,tw,th) {32,32,16,16;32,32,8,8;33,33,16,16;20,20,7,7;21,10,5,3;16,16,3,16;16,16,16,5;8,8,1,1;40,12,9,12} x levels 0..5 x layers 1..3 x (comps,P,signed,MCT) in {(1,8,0,-),(3,8,0,1),(3,12,1,0),(1,16,0,-)}; cb=64 prog=0; noise; exhaustive")
	type img struct {
		c, p   int
		signed bool
		mct    bool
	}
	imgs := []img{{1, 8, false, false}, {3, 8, false, true}, {3, 12, true, false}, {1, 16, false, false}}
	seed := int64(0)
	for _, l := range layouts {
		for lv := 0; lv <= 5; lv++ {
			for ly := 1; ly <= 3; ly++ {
				for _, im := range imgs {
					seed++
					verifC19Run(r, verifJ2KCase{W: l.w, H: l.h, C: im.c, P: im.p, Signed: im.signed, Levels: lv, CBW: 64, CBH: 64,
						Layers: ly, MCT: im.mct, TW: l.tw, TH: l.th, Fill: "noise", Seed: seed}, nil)
				}
			}
		}
	}
	r.finish(t)
}

// TestVerif_C19_GlobalRateFinalLossless: multi-tile together with several layers and global rate
// allocation driven by a target ratio / layer-rate ladder with a final lossless layer
// (AppendLosslessLayer, LayerRates ending in 0).
func TestVerif_C19_GlobalRateFinalLossless(t *testing.T) {
	r := verifJ2NewReport("TestVerif_C19_GlobalRateFinalLossless",
		"layouts (w,h,tw,th) {32,32,16,16;40,37,16,16;33,20,8,8;20,20,7,7;64,64,32,32} x levels {0,2,5} x rate settings {TargetRatio 2/5/20 with AppendLosslessLayer & NumLayers 2..3 (PCRD on/off); LayerRates {20,0},{40,10,0}} x comps {1,3} P {8,12,16}; noise; exhaustive")
	type layout struct{ w, h, tw, th int }
	layouts := []layout{{32, 32, 16, 16}, {40, 37, 16, 16}, {33, 20, 8, 8}, {20, 20, 7, 7}, {64, 64, 32, 32}}
	type rate struct {
		name   string
		layers int
		tweak  func(*EncodeParams)
	}
	rates := []rate{
		{"ratio2", 2, func(p *EncodeParams) { p.TargetRatio = 2; p.AppendLosslessLayer = true }},
		{"ratio5-pcrd", 2, func(p *EncodeParams) { p.TargetRatio = 5; p.AppendLosslessLayer = true; p.UsePCRDOpt = true }},
		{"ratio20-pcrd-3l", 3, func(p *EncodeParams) { p.TargetRatio = 20; p.AppendLosslessLayer = true; p.UsePCRDOpt = true }},
		{"rates20-0", 2, func(p *EncodeParams) {
			p.TargetRatio = 20
			p.AppendLosslessLayer = true
			p.UsePCRDOpt = true
			p.LayerRates = []float64{20, 0}
		}},
		{"rates40-10-0", 3, func(p *EncodeParams) {
			p.TargetRatio = 10
			p.AppendLosslessLayer = true
			p.UsePCRDOpt = true
			p.LayerRates = []float64{40, 10, 0}
		}},
	}
	seed := int64(100)
	for _, l := range layouts {
		for _, lv := range []int{0, 2, 5} {
			for _, rt := range rates {
				for i, cp := range [][2]int{{1, 8}, {3, 8}, {1, 12}, {3, 16}} {
					seed++
					c := verifJ2KCase{W: l.w, H: l.h, C: cp[0], P: cp[1], Levels: lv, CBW: 64, CBH: 64, Layers: rt.layers, MCT: i%2 == 1,
						TW: l.tw, TH: l.th, Fill: "noise", Seed: seed}
					kind, detail := verifJ2KRoundTrip(c, rt.tweak)
					k := verifC19Kind(c, kind)
					if k != "" {
						detail = "rate=" + rt.name + " " + detail
					}
					r.record(k, detail)
				}
			}
		}
	}
	r.finish(t)
}

// TestVerif_C19_Sample: seeded random sampling of image size, tile size and configuration.
func TestVerif_C19_Sample(t *testing.T) {
	n, maxDim := 1200, 64
	if verifJ2Thorough() {
		n, maxDim = 5000, 600
	}
	r := verifJ2NewReport("TestVerif_C19_Sample",
		fmt.Sprintf("%d seeded draws (seed=%d): w,h uniform 1..%d (thorough: log-uniform up to 600 with area<=40000), tiles per axis 1..8 (at least 2 tiles), tile size drawn from {exact ceil(n/k), powers of two, odd sizes, n-1}, comps {1,3}, P {8,12,16}, signed {0,1}, levels 0..5, layers 1..3, cb {4,16,64}, prog 0..4, MCT {0,1}; noise/gradient", n, verifJ2Seed(), maxDim))
	rng := rand.New(rand.NewSource(verifJ2Seed() ^ 0x1904))
	dim := func() int {
		if !verifJ2Thorough() {
			return 1 + rng.Intn(maxDim)
		}
		// log-uniform
		v := 1.0
		for i := 0; i < 3; i++ {
			v *= 1 + rng.Float64()*7.4
		}
		d := int(v)
		if d < 1 {
			d = 1
		}
		if d > maxDim {
			d = maxDim
		}
		return d
	}
	for i := 0; i < n; i++ {
		w, h := dim(), dim()
		for w*h > 40000 {
			w, h = dim(), dim()
		}
		tws, ths := verifC19TileSizes(w), verifC19TileSizes(h)
		tw, th := tws[rng.Intn(len(tws))], ths[rng.Intn(len(ths))]
		if ((w+tw-1)/tw)*((h+th-1)/th) < 2 {
			if w > 1 {
				tw = (w + 1) / 2
			} else if h > 1 {
				th = (h + 1) / 2
			} else {
				w, tw = 2, 1
			}
		}
		cb := []int{4, 16, 64}[rng.Intn(3)]
		c := verifJ2KCase{W: w, H: h, C: []int{1, 3}[rng.Intn(2)], P: []int{8, 12, 16}[rng.Intn(3)], Signed: rng.Intn(2) == 1,
			Levels: rng.Intn(6), CBW: cb, CBH: cb, Prog: rng.Intn(5), Layers: 1 + rng.Intn(3), MCT: rng.Intn(2) == 1,
			TW: tw, TH: th, Fill: []string{"noise", "noise", "gradient"}[rng.Intn(3)], Seed: rng.Int63()}
		verifC19Run(r, c, nil)
	}
	r.finish(t)
}
