package jpeg2000

// Bounded stand-in helpers for package jpeg2000 (properties C04, C19).
// Not part of /repo: injected with `go test -overlay`.

import (
	"fmt"
	"math/rand"
	"os"
	"sort"
	"strconv"
	"strings"
	"testing"
)

// verifJ2Tier returns "quick" (default) or "thorough".
func verifJ2Tier() string {
	if os.Getenv("VERIF_TIER") == "thorough" {
		return "thorough"
	}
	return "quick"
}

func verifJ2Thorough() bool { return verifJ2Tier() == "thorough" }

// verifJ2Seed returns the base seed for all pseudo random choices.
func verifJ2Seed() int64 {
	if s := os.Getenv("VERIF_SEED"); s != "" {
		if v, err := strconv.ParseInt(s, 10, 64); err == nil {
			return v
		}
	}
	return 20260923
}

// verifJ2Report accumulates cases and prints the BOUNDED protocol lines.
type verifJ2Report struct {
	name   string
	domain string
	cases  int
	fails  int
	order  []string            // failure kinds in first-seen order
	byKind map[string][]string // kind -> first few descriptions
	nKind  map[string]int
}

func verifJ2NewReport(name, domain string) *verifJ2Report {
	return &verifJ2Report{name: name, domain: domain, byKind: map[string][]string{}, nKind: map[string]int{}}
}

func (r *verifJ2Report) ok() { r.cases++ }

func (r *verifJ2Report) fail(kind, desc string) {
	r.cases++
	r.fails++
	if _, seen := r.nKind[kind]; !seen {
		r.order = append(r.order, kind)
	}
	r.nKind[kind]++
	if len(r.byKind[kind]) < 5 {
		r.byKind[kind] = append(r.byKind[kind], desc)
	}
}

// record registers one executed case; kind=="" means the case passed.
func (r *verifJ2Report) record(kind, desc string) {
	if kind == "" {
		r.ok()
		return
	}
	r.fail(kind, desc)
}

// finish prints the protocol lines: at most 5 BOUNDED-FAIL lines, spread
// round-robin over the distinct failure kinds so that one frequent failure does not hide others.
func (r *verifJ2Report) finish(t *testing.T) {
	t.Helper()
	fmt.Printf("BOUNDED name=%s cases=%d fails=%d domain=%q\n", r.name, r.cases, r.fails, r.domain)
	if r.fails == 0 {
		return
	}
	kinds := make([]string, 0, len(r.nKind))
	for _, k := range r.order {
		kinds = append(kinds, fmt.Sprintf("%s:%d", k, r.nKind[k]))
	}
	summary := strings.Join(kinds, ",")
	printed := 0
	for round := 0; round < 5 && printed < 5; round++ {
		for _, k := range r.order {
			if printed >= 5 {
				break
			}
			if round < len(r.byKind[k]) {
				fmt.Printf("BOUNDED-FAIL name=%s kind=%s %s kinds=%s\n", r.name, k, r.byKind[k][round], summary)
				printed++
			}
		}
	}
	t.Fail()
}

// verifJ2KCase is one reversible encoder configuration plus image description.
type verifJ2KCase struct {
	W, H, C, P int
	Signed     bool
	Levels     int
	CBW, CBH   int
	PW, PH     int
	Prog       int
	Layers     int
	MCT        bool
	TW, TH     int    // 0 = single tile
	Fill       string // noise | extremes | const | gradient
	Seed       int64
}

func (c verifJ2KCase) String() string {
	b2i := func(b bool) int {
		if b {
			return 1
		}
		return 0
	}
	return fmt.Sprintf("w=%d h=%d comps=%d P=%d signed=%d levels=%d cbw=%d cbh=%d pw=%d ph=%d prog=%d layers=%d mct=%d tw=%d th=%d fill=%s seed=%d",
		c.W, c.H, c.C, c.P, b2i(c.Signed), c.Levels, c.CBW, c.CBH, c.PW, c.PH, c.Prog, c.Layers, b2i(c.MCT), c.TW, c.TH, c.Fill, c.Seed)
}

// verifJ2KSamples builds the sample values ([comp][pixel]) of the case, all inside the P-bit range.
func verifJ2KSamples(c verifJ2KCase) [][]int32 {
	rng := rand.New(rand.NewSource(c.Seed))
	lo, hi := int32(0), int32(1)<<uint(c.P)-1
	if c.Signed {
		lo, hi = -(int32(1) << uint(c.P-1)), int32(1)<<uint(c.P-1)-1
	}
	span := int64(hi) - int64(lo) + 1
	n := c.W * c.H
	out := make([][]int32, c.C)
	for k := range out {
		out[k] = make([]int32, n)
		cval := lo + int32(rng.Int63n(span))
		for i := 0; i < n; i++ {
			var v int32
			switch c.Fill {
			case "extremes":
				if rng.Intn(2) == 0 {
					v = lo
				} else {
					v = hi
				}
			case "const":
				v = cval
			case "gradient":
				x, y := i%c.W, i/c.W
				v = lo + int32(int64(x*7+y*13+k*29)%span)
			default: // noise
				v = lo + int32(rng.Int63n(span))
			}
			out[k][i] = v
		}
	}
	return out
}

// verifJ2KPack stores the samples pixel-interleaved: each sample occupies the low P bits of an
// 8-bit (P<=8) or 16-bit little-endian (P>8) container, signed samples as P-bit two's complement,
// unused high container bits are zero.
func verifJ2KPack(c verifJ2KCase, samples [][]int32) []byte {
	n := c.W * c.H
	mask := int32(1)<<uint(c.P) - 1
	if c.P <= 8 {
		out := make([]byte, n*c.C)
		for i := 0; i < n; i++ {
			for k := 0; k < c.C; k++ {
				out[i*c.C+k] = byte(samples[k][i] & mask)
			}
		}
		return out
	}
	out := make([]byte, n*c.C*2)
	for i := 0; i < n; i++ {
		for k := 0; k < c.C; k++ {
			v := samples[k][i] & mask
			out[(i*c.C+k)*2] = byte(v)
			out[(i*c.C+k)*2+1] = byte(v >> 8)
		}
	}
	return out
}

func verifJ2KParams(c verifJ2KCase) *EncodeParams {
	p := DefaultEncodeParams(c.W, c.H, c.C, c.P, c.Signed)
	p.Lossless = true
	p.NumLevels = c.Levels
	p.CodeBlockWidth = c.CBW
	p.CodeBlockHeight = c.CBH
	p.PrecinctWidth = c.PW
	p.PrecinctHeight = c.PH
	p.ProgressionOrder = uint8(c.Prog)
	p.NumLayers = c.Layers
	p.EnableMCT = c.MCT
	p.TileWidth = c.TW
	p.TileHeight = c.TH
	return p
}

// verifJ2KRoundTrip encodes with the real Encoder, decodes with the real Decoder and compares
// header fields, samples (GetImageData) and container bytes (GetPixelData).
// It returns kind=="" on success, otherwise a failure kind and a compact detail string.
func verifJ2KRoundTrip(c verifJ2KCase, tweak func(*EncodeParams)) (kind, detail string) {
	defer func() {
		if r := recover(); r != nil {
			kind = "panic"
			detail = fmt.Sprintf("%s panic=%q", c, strings.ReplaceAll(fmt.Sprint(r), "\n", " "))
		}
	}()
	samples := verifJ2KSamples(c)
	pix := verifJ2KPack(c, samples)
	params := verifJ2KParams(c)
	if tweak != nil {
		tweak(params)
	}
	cs, err := NewEncoder(params).Encode(pix)
	if err != nil {
		return "encode-error", fmt.Sprintf("%s err=%q", c, err.Error())
	}
	dec := NewDecoder()
	if err := dec.Decode(cs); err != nil {
		return "decode-error", fmt.Sprintf("%s err=%q", c, err.Error())
	}
	if dec.Width() != c.W || dec.Height() != c.H || dec.Components() != c.C || dec.BitDepth() != c.P || dec.IsSigned() != c.Signed {
		return "header-mismatch", fmt.Sprintf("%s got_w=%d got_h=%d got_comps=%d got_P=%d got_signed=%v",
			c, dec.Width(), dec.Height(), dec.Components(), dec.BitDepth(), dec.IsSigned())
	}
	got := dec.GetImageData()
	if len(got) != c.C {
		return "sample-mismatch", fmt.Sprintf("%s got_planes=%d", c, len(got))
	}
	bad, first := 0, ""
	for k := 0; k < c.C; k++ {
		if len(got[k]) != c.W*c.H {
			return "sample-mismatch", fmt.Sprintf("%s comp=%d got_len=%d want_len=%d", c, k, len(got[k]), c.W*c.H)
		}
		for i := range samples[k] {
			if got[k][i] != samples[k][i] {
				if bad == 0 {
					first = fmt.Sprintf("first_bad_comp=%d first_bad_x=%d first_bad_y=%d want=%d got=%d", k, i%c.W, i/c.W, samples[k][i], got[k][i])
				}
				bad++
			}
		}
	}
	if bad > 0 {
		return "sample-mismatch", fmt.Sprintf("%s bad_samples=%d/%d %s", c, bad, c.W*c.H*c.C, first)
	}
	out := dec.GetPixelData()
	if len(out) != len(pix) {
		return "pixeldata-mismatch", fmt.Sprintf("%s got_bytes=%d want_bytes=%d", c, len(out), len(pix))
	}
	for i := range pix {
		if out[i] != pix[i] {
			return "pixeldata-mismatch", fmt.Sprintf("%s first_bad_byte=%d want=0x%02x got=0x%02x", c, i, pix[i], out[i])
		}
	}
	return "", ""
}

// verifJ2KShrink greedily simplifies a failing case while `stillFails` keeps returning true.
// Simplest values: one component, P=8 unsigned, no levels, 64x64 code-blocks, default precincts,
// LRCP, one layer, no MCT, small image.  keepTiles=true preserves a multi-tile layout (C19).
// The result is deterministic; it is only used to make BOUNDED-FAIL lines more useful.
func verifJ2KShrink(c verifJ2KCase, keepTiles bool, stillFails func(verifJ2KCase) bool) verifJ2KCase {
	tiles := func(x verifJ2KCase) int {
		tw, th := x.TW, x.TH
		if tw == 0 {
			tw = x.W
		}
		if th == 0 {
			th = x.H
		}
		return ((x.W + tw - 1) / tw) * ((x.H + th - 1) / th)
	}
	try := func(cand verifJ2KCase) bool {
		if cand == c || cand.W < 1 || cand.H < 1 || cand.C < 1 || cand.Layers < 1 || cand.Levels < 0 || cand.P < 1 || cand.TW < 0 || cand.TH < 0 {
			return false
		}
		if keepTiles && tiles(cand) < 2 {
			return false
		}
		if stillFails(cand) {
			c = cand
			return true
		}
		return false
	}
	for budget := 0; budget < 200; budget++ {
		changed := false
		mut := func(f func(x *verifJ2KCase)) {
			cand := c
			f(&cand)
			if try(cand) {
				changed = true
			}
		}
		mut(func(x *verifJ2KCase) { x.Layers = 1 })
		mut(func(x *verifJ2KCase) { x.Layers-- })
		mut(func(x *verifJ2KCase) { x.Levels = 0 })
		mut(func(x *verifJ2KCase) { x.Levels-- })
		mut(func(x *verifJ2KCase) { x.C = 1 })
		mut(func(x *verifJ2KCase) { x.C-- })
		mut(func(x *verifJ2KCase) { x.MCT = false })
		mut(func(x *verifJ2KCase) { x.Prog = 0 })
		mut(func(x *verifJ2KCase) { x.PW = 0 })
		mut(func(x *verifJ2KCase) { x.PH = 0 })
		mut(func(x *verifJ2KCase) { x.CBW = 64 })
		mut(func(x *verifJ2KCase) { x.CBH = 64 })
		mut(func(x *verifJ2KCase) { x.Signed = false })
		mut(func(x *verifJ2KCase) { x.P = 8 })
		if !keepTiles {
			mut(func(x *verifJ2KCase) { x.TW, x.TH = 0, 0 })
		}
		mut(func(x *verifJ2KCase) { x.TH = 0 })
		mut(func(x *verifJ2KCase) { x.TW = 0 })
		mut(func(x *verifJ2KCase) { x.W = 1 })
		mut(func(x *verifJ2KCase) { x.H = 1 })
		mut(func(x *verifJ2KCase) { x.W = (x.W + 1) / 2 })
		mut(func(x *verifJ2KCase) { x.H = (x.H + 1) / 2 })
		mut(func(x *verifJ2KCase) { x.W-- })
		mut(func(x *verifJ2KCase) { x.H-- })
		mut(func(x *verifJ2KCase) { x.TW = (x.TW + 1) / 2 })
		mut(func(x *verifJ2KCase) { x.TH = (x.TH + 1) / 2 })
		mut(func(x *verifJ2KCase) { x.TW-- })
		mut(func(x *verifJ2KCase) { x.TH-- })
		if !changed {
			break
		}
	}
	return c
}

// verifJ2SortedInts returns a sorted, de-duplicated copy restricted to [lo,hi].
func verifJ2SortedInts(vals []int, lo, hi int) []int {
	seen := map[int]bool{}
	var out []int
	for _, v := range vals {
		if v >= lo && v <= hi && !seen[v] {
			seen[v] = true
			out = append(out, v)
		}
	}
	sort.Ints(out)
	return out
}
