package wavelet

// Bounded stand-in for the wavelet part of C20:
// "... the inverse 5/3 wavelet transform undoes the forward transform for every width, height,
// level count and origin parity ..."
//
// 1-D: Inverse53_1DWithParity(Forward53_1DWithParity(x, even), even) == x
// 2-D: InverseMultilevelWithParity(ForwardMultilevelWithParity(img,w,h,L,x0,y0),w,h,L,x0,y0) == img

import (
	"fmt"
	"math/rand"
	"strings"
	"testing"
)

func verifDWT1D(sig []int32, even bool) (firstBad int, got []int32, panicMsg string) {
	defer func() {
		if r := recover(); r != nil {
			panicMsg = strings.ReplaceAll(fmt.Sprint(r), "\n", " ")
		}
	}()
	work := append([]int32(nil), sig...)
	Forward53_1DWithParity(work, even)
	Inverse53_1DWithParity(work, even)
	for i := range sig {
		if work[i] != sig[i] {
			return i, work, ""
		}
	}
	return -1, work, ""
}

func verifDWT1DRecord(r *verifJ2Report, sig []int32, even bool) {
	bad, got, pm := verifDWT1D(sig, even)
	show := func(v []int32) string {
		if len(v) > 24 {
			return strings.ReplaceAll(fmt.Sprint(v[:24]), " ", ",") + "..."
		}
		return strings.ReplaceAll(fmt.Sprint(v), " ", ",")
	}
	switch {
	case pm != "":
		r.record("panic", fmt.Sprintf("len=%d even=%v signal=%s panic=%q", len(sig), even, show(sig), pm))
	case bad >= 0:
		r.record("mismatch", fmt.Sprintf("len=%d even=%v signal=%s got=%s first_bad_index=%d", len(sig), even, show(sig), show(got), bad))
	default:
		r.record("", "")
	}
}

// TestVerif_C20_DWT1DExhaustive: all signals of length <= 8 over {-2..2}, both parities.
func TestVerif_C20_DWT1DExhaustive(t *testing.T) {
	maxLen := 8
	vals := []int32{-2, -1, 0, 1, 2}
	dom := "exhaustive: all signals of length 1..8 over {-2,-1,0,1,2} x parity {even,odd}"
	if verifJ2Thorough() {
		maxLen = 10
		dom = "exhaustive: all signals of length 1..10 over {-2,-1,0,1,2} x parity {even,odd}, plus all signals of length 1..6 over {-2^28,-3,-1,0,1,2,2^28-1}"
	}
	r := verifJ2NewReport("TestVerif_C20_DWT1DExhaustive", dom)
	enum := func(vals []int32, maxLen int) {
		sig := make([]int32, maxLen)
		for l := 1; l <= maxLen; l++ { // length 0 is not a signal width (the odd-parity forward transform panics on an empty slice)
			total := 1
			for k := 0; k < l; k++ {
				total *= len(vals)
			}
			for code := 0; code < total; code++ {
				c := code
				for k := 0; k < l; k++ {
					sig[k] = vals[c%len(vals)]
					c /= len(vals)
				}
				verifDWT1DRecord(r, sig[:l], true)
				verifDWT1DRecord(r, sig[:l], false)
			}
		}
	}
	enum(vals, maxLen)
	if verifJ2Thorough() {
		enum([]int32{-(1 << 28), -3, -1, 0, 1, 2, 1<<28 - 1}, 6)
	}
	r.finish(t)
}

// TestVerif_C20_DWT1DRandom: longer signals with large magnitudes, both parities.
func TestVerif_C20_DWT1DRandom(t *testing.T) {
	n := 4000
	if verifJ2Thorough() {
		n = 60000
	}
	r := verifJ2NewReport("TestVerif_C20_DWT1DRandom",
		fmt.Sprintf("every length 1..300 with extreme-value signals (all min, all max, alternating min/max with |v|<=2^28) plus %d seeded signals (seed=%d) of length 1..1025, values uniform in +-2^k, k in {1,8,12,16,20,28}; parity {even,odd}", n, verifJ2Seed()))
	lo, hi := int32(-(1 << 28)), int32(1<<28-1)
	for l := 1; l <= 300; l++ {
		for pat := 0; pat < 4; pat++ {
			sig := make([]int32, l)
			for i := range sig {
				switch pat {
				case 0:
					sig[i] = lo
				case 1:
					sig[i] = hi
				case 2:
					sig[i] = []int32{lo, hi}[i&1]
				case 3:
					sig[i] = []int32{hi, lo}[i&1]
				}
			}
			verifDWT1DRecord(r, sig, true)
			verifDWT1DRecord(r, sig, false)
		}
	}
	rng := rand.New(rand.NewSource(verifJ2Seed() ^ 0x2002))
	for i := 0; i < n; i++ {
		l := 1 + rng.Intn(1025)
		if i%4 != 0 {
			l = 1 + rng.Intn(40)
		}
		k := []uint{1, 8, 12, 16, 20, 28}[rng.Intn(6)]
		sig := make([]int32, l)
		for j := range sig {
			sig[j] = int32(rng.Int63n(2<<k)) - (1 << k)
		}
		verifDWT1DRecord(r, sig, i%2 == 0)
	}
	r.finish(t)
}

type verifDWT2DCase struct {
	W, H, Levels, X0, Y0 int
	Bits                 uint
	Seed                 int64
}

func (c verifDWT2DCase) String() string {
	return fmt.Sprintf("w=%d h=%d levels=%d x0=%d y0=%d bits=%d seed=%d", c.W, c.H, c.Levels, c.X0, c.Y0, c.Bits, c.Seed)
}

func verifDWT2D(c verifDWT2DCase) (kind, detail string) {
	defer func() {
		if r := recover(); r != nil {
			kind = "panic"
			detail = fmt.Sprintf("%s panic=%q", c, strings.ReplaceAll(fmt.Sprint(r), "\n", " "))
		}
	}()
	rng := rand.New(rand.NewSource(c.Seed))
	img := make([]int32, c.W*c.H)
	for i := range img {
		img[i] = int32(rng.Int63n(2<<c.Bits)) - (1 << c.Bits)
	}
	work := append([]int32(nil), img...)
	ForwardMultilevelWithParity(work, c.W, c.H, c.Levels, c.X0, c.Y0)
	InverseMultilevelWithParity(work, c.W, c.H, c.Levels, c.X0, c.Y0)
	bad, first := 0, -1
	for i := range img {
		if work[i] != img[i] {
			if first < 0 {
				first = i
			}
			bad++
		}
	}
	if bad > 0 {
		return "mismatch", fmt.Sprintf("%s bad_samples=%d/%d first_bad_x=%d first_bad_y=%d want=%d got=%d", c, bad, len(img), first%c.W, first/c.W, img[first], work[first])
	}
	return "", ""
}

func verifDWT2DShrink(c verifDWT2DCase, kind string) verifDWT2DCase {
	for budget := 0; budget < 100; budget++ {
		changed := false
		mut := func(f func(x *verifDWT2DCase)) {
			cand := c
			f(&cand)
			if cand == c || cand.W < 1 || cand.H < 1 || cand.Levels < 0 || cand.X0 < 0 || cand.Y0 < 0 {
				return
			}
			if k, _ := verifDWT2D(cand); k == kind {
				c = cand
				changed = true
			}
		}
		mut(func(x *verifDWT2DCase) { x.Levels-- })
		mut(func(x *verifDWT2DCase) { x.X0 = 0 })
		mut(func(x *verifDWT2DCase) { x.Y0 = 0 })
		mut(func(x *verifDWT2DCase) { x.X0 &= 1 })
		mut(func(x *verifDWT2DCase) { x.Y0 &= 1 })
		mut(func(x *verifDWT2DCase) { x.W = 1 })
		mut(func(x *verifDWT2DCase) { x.H = 1 })
		mut(func(x *verifDWT2DCase) { x.W = (x.W + 1) / 2 })
		mut(func(x *verifDWT2DCase) { x.H = (x.H + 1) / 2 })
		mut(func(x *verifDWT2DCase) { x.W-- })
		mut(func(x *verifDWT2DCase) { x.H-- })
		mut(func(x *verifDWT2DCase) { x.Bits = 2 })
		if !changed {
			break
		}
	}
	return c
}

func verifDWT2DRun(r *verifJ2Report, c verifDWT2DCase) {
	kind, detail := verifDWT2D(c)
	if kind != "" && r.nKind[kind] == 0 {
		min := verifDWT2DShrink(c, kind)
		_, d2 := verifDWT2D(min)
		detail += " shrunk=[" + d2 + "]"
	}
	r.record(kind, detail)
}

// TestVerif_C20_DWT2DSmallGrid: every small size x level count x origin parity.
func TestVerif_C20_DWT2DSmallGrid(t *testing.T) {
	maxDim, maxOrg := 16, 7
	if verifJ2Thorough() {
		maxDim, maxOrg = 40, 7
	}
	r := verifJ2NewReport("TestVerif_C20_DWT2DSmallGrid",
		fmt.Sprintf("exhaustive grid: w,h in 1..%d x levels 0..8 x x0,y0 in 0..%d; seeded noise in +-2^12", maxDim, maxOrg))
	seed := int64(0)
	for w := 1; w <= maxDim; w++ {
		for h := 1; h <= maxDim; h++ {
			for lv := 0; lv <= 8; lv++ {
				for x0 := 0; x0 <= maxOrg; x0++ {
					for y0 := 0; y0 <= maxOrg; y0++ {
						seed++
						verifDWT2DRun(r, verifDWT2DCase{W: w, H: h, Levels: lv, X0: x0, Y0: y0, Bits: 12, Seed: seed})
					}
				}
			}
		}
	}
	r.finish(t)
}

// TestVerif_C20_DWT2DSample: sampled widths/heights up to 257 with every level count and origin.
func TestVerif_C20_DWT2DSample(t *testing.T) {
	n := 6000
	if verifJ2Thorough() {
		n = 40000
	}
	edges := []int{1, 2, 3, 4, 5, 7, 8, 9, 15, 16, 17, 31, 32, 33, 63, 64, 65, 127, 128, 129, 255, 256, 257}
	r := verifJ2NewReport("TestVerif_C20_DWT2DSample",
		fmt.Sprintf("structured: (w,h) in edges x edges with edges=%v, levels/x0/y0 cycled through 0..8/0..7/0..7; plus %d seeded draws (seed=%d): w,h uniform 1..257, levels 0..8, x0,y0 0..7, value bits {2,8,16,24}", edges, n, verifJ2Seed()))
	i := 0
	for _, w := range edges {
		for _, h := range edges {
			i++
			verifDWT2DRun(r, verifDWT2DCase{W: w, H: h, Levels: i % 9, X0: (i / 3) % 8, Y0: (i / 5) % 8, Bits: 12, Seed: int64(i)})
		}
	}
	rng := rand.New(rand.NewSource(verifJ2Seed() ^ 0x2003))
	for k := 0; k < n; k++ {
		w, h := 1+rng.Intn(257), 1+rng.Intn(257)
		if !verifJ2Thorough() && k%3 != 0 {
			w, h = 1+rng.Intn(48), 1+rng.Intn(48)
		}
		verifDWT2DRun(r, verifDWT2DCase{W: w, H: h, Levels: rng.Intn(9), X0: rng.Intn(8), Y0: rng.Intn(8), Bits: []uint{2, 8, 16, 24}[rng.Intn(4)], Seed: rng.Int63()})
	}
	r.finish(t)
}
