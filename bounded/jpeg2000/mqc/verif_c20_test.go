package mqc

// Bounded stand-in for the MQ-coder part of C20:
// "... the MQ decoder returns the bit sequence given to the MQ encoder for any sequence of
// (bit, context) pairs ..."
//
// Pairing: e := NewMQEncoder(n); e.Encode(bit, ctx)...; data := e.Flush();
//          d := NewMQDecoder(data, n); d.Decode(ctx) must return the same bits in order.

import (
	"fmt"
	"math/rand"
	"strings"
	"testing"
)

// verifMQRoundTrip encodes the pairs and decodes them again; init (optional) holds initial context
// states that are set identically on both sides.  It returns the index of the first wrong bit
// (-1 if none) and a panic message if one occurred.
func verifMQRoundTrip(bits, ctxs []uint8, numCtx int, init []uint8) (firstBad int, nbytes int, panicMsg string) {
	defer func() {
		if r := recover(); r != nil {
			panicMsg = strings.ReplaceAll(fmt.Sprint(r), "\n", " ")
		}
	}()
	enc := NewMQEncoder(numCtx)
	for i, s := range init {
		enc.SetContextState(i, s)
	}
	for i := range bits {
		enc.Encode(int(bits[i]), int(ctxs[i]))
	}
	data := append([]byte(nil), enc.Flush()...)
	dec := NewMQDecoder(data, numCtx)
	for i, s := range init {
		dec.SetContextState(i, s)
	}
	for i := range bits {
		if dec.Decode(int(ctxs[i])) != int(bits[i]) {
			return i, len(data), ""
		}
	}
	return -1, len(data), ""
}

func verifMQSeqString(bits, ctxs []uint8) string {
	var sb strings.Builder
	for i := range bits {
		if i > 0 {
			sb.WriteByte(',')
		}
		fmt.Fprintf(&sb, "%d@%d", bits[i], ctxs[i])
		if i >= 40 {
			fmt.Fprintf(&sb, ",...(%d more)", len(bits)-i-1)
			break
		}
	}
	return sb.String()
}

func verifMQRecord(r *verifJ2Report, bits, ctxs []uint8, numCtx int, init []uint8, label string) {
	bad, nb, pm := verifMQRoundTrip(bits, ctxs, numCtx, init)
	switch {
	case pm != "":
		r.record("panic", fmt.Sprintf("%s len=%d contexts=%d init=%v seq=%s panic=%q", label, len(bits), numCtx, init, verifMQSeqString(bits, ctxs), pm))
	case bad >= 0:
		r.record("bit-mismatch", fmt.Sprintf("%s len=%d contexts=%d init=%v bytes=%d first_bad_index=%d seq=%s", label, len(bits), numCtx, init, nb, bad, verifMQSeqString(bits, ctxs)))
	default:
		r.record("", "")
	}
}

// TestVerif_C20_MQExhaustivePairs: every sequence of (bit, context) pairs over 2 contexts up to a
// length bound (4^L sequences of length L).
func TestVerif_C20_MQExhaustivePairs(t *testing.T) {
	maxLen := 12
	if verifJ2Thorough() {
		maxLen = 13
	}
	r := verifJ2NewReport("TestVerif_C20_MQExhaustivePairs",
		fmt.Sprintf("exhaustive: all sequences of (bit,context) pairs, bit in {0,1}, context in {0,1}, length 0..%d (4^L sequences per length), contexts initialised to state 0; plus the same for length 0..%d with initial states {46,3} (T1 uniform / run-length states)", maxLen, maxLen-2))
	bits := make([]uint8, maxLen)
	ctxs := make([]uint8, maxLen)
	for _, cfg := range []struct {
		init []uint8
		max  int
	}{{nil, maxLen}, {[]uint8{46, 3}, maxLen - 2}} {
		for l := 0; l <= cfg.max; l++ {
			total := 1 << uint(2*l)
			for code := 0; code < total; code++ {
				for k := 0; k < l; k++ {
					s := (code >> uint(2*k)) & 3
					bits[k] = uint8(s & 1)
					ctxs[k] = uint8(s >> 1)
				}
				verifMQRecord(r, bits[:l], ctxs[:l], 2, cfg.init, "pairs")
			}
		}
	}
	r.finish(t)
}

// TestVerif_C20_MQExhaustiveBits: every bit sequence up to a length bound under five fixed context
// assignment rules over 2 contexts.
func TestVerif_C20_MQExhaustiveBits(t *testing.T) {
	maxLen := 16
	if verifJ2Thorough() {
		maxLen = 20
	}
	rules := []string{"all-ctx0", "alternating", "ctx=previous-bit", "first-half-ctx0", "ctx=index%3==0"}
	r := verifJ2NewReport("TestVerif_C20_MQExhaustiveBits",
		fmt.Sprintf("exhaustive: all bit sequences of length 1..%d (2^L per length) x context assignment rules %v over 2 contexts, initial state 0", maxLen, rules))
	bits := make([]uint8, maxLen)
	ctxs := make([]uint8, maxLen)
	for l := 1; l <= maxLen; l++ {
		for code := 0; code < 1<<uint(l); code++ {
			for k := 0; k < l; k++ {
				bits[k] = uint8((code >> uint(k)) & 1)
			}
			for ri, rule := range rules {
				for k := 0; k < l; k++ {
					switch ri {
					case 0:
						ctxs[k] = 0
					case 1:
						ctxs[k] = uint8(k & 1)
					case 2:
						if k == 0 {
							ctxs[k] = 0
						} else {
							ctxs[k] = bits[k-1]
						}
					case 3:
						if k < l/2 {
							ctxs[k] = 0
						} else {
							ctxs[k] = 1
						}
					case 4:
						if k%3 == 0 {
							ctxs[k] = 1
						} else {
							ctxs[k] = 0
						}
					}
				}
				verifMQRecord(r, bits[:l], ctxs[:l], 2, nil, rule)
			}
		}
	}
	r.finish(t)
}

// TestVerif_C20_MQLongBiased: long random sequences over 19 contexts with per-context bias,
// including the extreme runs that produce 0xFF bytes / carries.
func TestVerif_C20_MQLongBiased(t *testing.T) {
	n := 2000
	if verifJ2Thorough() {
		n = 20000
	}
	r := verifJ2NewReport("TestVerif_C20_MQLongBiased",
		fmt.Sprintf("%d seeded sequences (seed=%d): length log-uniform 1..60000, 19 contexts (ids 0..18) chosen uniformly / in runs / single context, per-context P(bit=1) drawn from {0,0.001,0.01,0.1,0.3,0.5,0.7,0.9,0.99,0.999,1}, initial states either all 0 or T1 states (ctx0=4, ctx17=3, ctx18=46); plus deterministic all-0 / all-1 / alternating runs of length {1,2,7,8,9,100,1000,50000} on 1 and 19 contexts", n, verifJ2Seed()))
	// deterministic runs
	for _, l := range []int{1, 2, 7, 8, 9, 100, 1000, 50000} {
		for _, pat := range []string{"zeros", "ones", "alt"} {
			for _, nc := range []int{1, 19} {
				bits := make([]uint8, l)
				ctxs := make([]uint8, l)
				for i := range bits {
					switch pat {
					case "ones":
						bits[i] = 1
					case "alt":
						bits[i] = uint8(i & 1)
					}
					ctxs[i] = uint8(i % nc)
				}
				verifMQRecord(r, bits, ctxs, nc, nil, "run-"+pat)
			}
		}
	}
	rng := rand.New(rand.NewSource(verifJ2Seed() ^ 0x2001))
	probs := []float64{0, 0.001, 0.01, 0.1, 0.3, 0.5, 0.7, 0.9, 0.99, 0.999, 1}
	for i := 0; i < n; i++ {
		// log-uniform length
		l := 1
		for k := rng.Intn(16); k > 0; k-- {
			l *= 2
		}
		l += rng.Intn(l)
		if l > 60000 {
			l = 60000
		}
		var p [19]float64
		for k := range p {
			p[k] = probs[rng.Intn(len(probs))]
		}
		mode := rng.Intn(3)
		bits := make([]uint8, l)
		ctxs := make([]uint8, l)
		cur := uint8(rng.Intn(19))
		for k := 0; k < l; k++ {
			switch mode {
			case 0:
				cur = uint8(rng.Intn(19))
			case 1:
				if rng.Intn(20) == 0 {
					cur = uint8(rng.Intn(19))
				}
			}
			ctxs[k] = cur
			if rng.Float64() < p[cur] {
				bits[k] = 1
			}
		}
		var init []uint8
		if rng.Intn(2) == 0 {
			init = make([]uint8, 19)
			init[0], init[17], init[18] = 4, 3, 46
		}
		verifMQRecord(r, bits, ctxs, 19, init, fmt.Sprintf("random#%d", i))
	}
	r.finish(t)
}
