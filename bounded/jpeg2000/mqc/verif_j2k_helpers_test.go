package mqc

// Bounded stand-in helpers for package jpeg2000/mqc (property C20).
// Not part of /repo: injected with `go test -overlay`.

import (
	"fmt"
	"os"
	"strconv"
	"strings"
	"testing"
)

func verifJ2Thorough() bool { return os.Getenv("VERIF_TIER") == "thorough" }

func verifJ2Seed() int64 {
	if s := os.Getenv("VERIF_SEED"); s != "" {
		if v, err := strconv.ParseInt(s, 10, 64); err == nil {
			return v
		}
	}
	return 20260923
}

// verifJ2Report accumulates cases and prints the BOUNDED protocol lines.
type verifJ2Report struct {
	name   string
	domain string
	cases  int
	fails  int
	order  []string
	byKind map[string][]string
	nKind  map[string]int
}

func verifJ2NewReport(name, domain string) *verifJ2Report {
	return &verifJ2Report{name: name, domain: domain, byKind: map[string][]string{}, nKind: map[string]int{}}
}

// record registers one executed case; kind=="" means the case passed.
func (r *verifJ2Report) record(kind, desc string) {
	r.cases++
	if kind == "" {
		return
	}
	r.fails++
	if _, seen := r.nKind[kind]; !seen {
		r.order = append(r.order, kind)
	}
	r.nKind[kind]++
	if len(r.byKind[kind]) < 5 {
		r.byKind[kind] = append(r.byKind[kind], desc)
	}
}

// finish prints the protocol lines: at most 5 BOUNDED-FAIL lines, spread round-robin over the
// distinct failure kinds.
func (r *verifJ2Report) finish(t *testing.T) {
	t.Helper()
	fmt.Printf("BOUNDED name=%s cases=%d fails=%d domain=%q\n", r.name, r.cases, r.fails, r.domain)
	if r.fails == 0 {
		return
	}
	kinds := make([]string, 0, len(r.nKind))
	for _, k := range r.order {
		kinds = append(kinds, fmt.Sprintf("%s:%d", k, r.nKind[k]))
	}
	summary := strings.Join(kinds, ",")
	printed := 0
	for round := 0; round < 5 && printed < 5; round++ {
		for _, k := range r.order {
			if printed >= 5 {
				break
			}
			if round < len(r.byKind[k]) {
				fmt.Printf("BOUNDED-FAIL name=%s kind=%s %s kinds=%s\n", r.name, k, r.byKind[k][round], summary)
				printed++
			}
		}
	}
	t.Fail()
}
