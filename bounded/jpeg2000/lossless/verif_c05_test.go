package lossless

// Bounded stand-in for C05:
// "Encoding through the JPEG 2000 Lossless-Only transfer syntaxes (1.2.840.10008.1.2.4.90 and .92)
// with the default parameters, or with any parameter object that keeps the final lossless layer or
// requests no rate target (any Rate, RateLevels ladder, TargetRatio, NumLayers, PCRD switch,
// NumLevels, progression order, MCT switch), and then decoding, returns every source frame byte for
// byte. No accepted parameter value can make the lossless-only syntax lose data, for any image size
// including images smaller than one code-block."
//
// Every case fetches the codec from the global registry (registered by this package's init), calls
// Codec.Encode on a PixelData holding 1..3 native frames and Codec.Decode on the result and
// compares frame count and every byte.  Frames hold samples in the low BitsStored bits of 8-bit
// (BitsAllocated=8) or 16-bit little-endian (BitsAllocated=16) containers, signed samples as
// BitsStored-bit two's complement, unused high bits zero.

import (
	"bytes"
	"fmt"
	"math/rand"
	"strings"
	"testing"

	codecHelpers "github.com/cocosip/go-dicom-codecs/codec"
	"github.com/cocosip/go-dicom/pkg/dicom/transfer"
	"github.com/cocosip/go-dicom/pkg/imaging/codec"
	"github.com/cocosip/go-dicom/pkg/imaging/imagetypes"
)

var verifC05Ladders = [][]int{
	{1280, 640, 320, 160, 80, 40, 20, 10, 5}, // default
	nil,
	{100, 10},
	{50},
	{640, 320, 160, 80, 40, 20, 10, 5, 2, 1},
	{10, 10, 10},
	{5, 20, 1280},
}

// verifC05Case describes one encode/decode round trip through the registered codec.
type verifC05Case struct {
	UID       int // 90 or 92
	W, H      int
	BA, BS    int
	SPP, PR   int
	Frames    int
	Mode      string // nil | default | typed | generic
	Rate      int
	Ladder    int
	TR        float64
	NumLayers int
	PCRD      bool
	Levels    int
	Prog      int
	MCT       bool
	Append    bool
	Fill      string
	Seed      int64
}

func (c verifC05Case) String() string {
	b := func(v bool) int {
		if v {
			return 1
		}
		return 0
	}
	s := fmt.Sprintf("ts=.4.%d w=%d h=%d bitsAllocated=%d bitsStored=%d spp=%d pixelRepr=%d frames=%d params=%s", c.UID, c.W, c.H, c.BA, c.BS, c.SPP, c.PR, c.Frames, c.Mode)
	if c.Mode == "typed" || c.Mode == "generic" {
		s += fmt.Sprintf(" rate=%d ladder=%s targetRatio=%g numLayers=%d pcrd=%d numLevels=%d prog=%d allowMCT=%d appendLossless=%d",
			c.Rate, strings.ReplaceAll(fmt.Sprint(verifC05Ladders[c.Ladder]), " ", ","), c.TR, c.NumLayers, b(c.PCRD), c.Levels, c.Prog, b(c.MCT), b(c.Append))
	}
	return s + fmt.Sprintf(" fill=%s seed=%d", c.Fill, c.Seed)
}

func verifC05Frames(c verifC05Case) [][]byte {
	rng := rand.New(rand.NewSource(c.Seed))
	mask := uint32(1)<<uint(c.BS) - 1
	n := c.W * c.H * c.SPP
	frames := make([][]byte, c.Frames)
	for f := range frames {
		vals := make([]uint32, n)
		cv := rng.Uint32() & mask
		for i := range vals {
			switch c.Fill {
			case "extremes":
				// unsigned: 0 / max; signed: min (100..0) / max (011..1) bit patterns
				if c.PR == 1 {
					vals[i] = []uint32{1 << uint(c.BS-1), mask >> 1}[rng.Intn(2)]
				} else {
					vals[i] = []uint32{0, mask}[rng.Intn(2)]
				}
			case "const":
				vals[i] = cv
			case "gradient":
				vals[i] = uint32(i*3+f*17) & mask
			default:
				vals[i] = rng.Uint32() & mask
			}
		}
		if c.BA == 8 {
			b := make([]byte, n)
			for i, v := range vals {
				b[i] = byte(v)
			}
			frames[f] = b
		} else {
			b := make([]byte, 2*n)
			for i, v := range vals {
				b[2*i] = byte(v)
				b[2*i+1] = byte(v >> 8)
			}
			frames[f] = b
		}
	}
	return frames
}

// verifC05Params builds a fresh parameter object (Encode/Validate may mutate it).
func verifC05Params(c verifC05Case, cd codec.Codec) codec.Parameters {
	ladder := append([]int(nil), verifC05Ladders[c.Ladder]...)
	if verifC05Ladders[c.Ladder] == nil {
		ladder = nil
	}
	switch c.Mode {
	case "nil":
		return nil
	case "default":
		return cd.GetDefaultParameters()
	case "typed":
		p := NewLosslessParameters()
		p.Rate = c.Rate
		p.RateLevels = ladder
		p.TargetRatio = c.TR
		p.NumLayers = c.NumLayers
		p.UsePCRDOpt = c.PCRD
		p.NumLevels = c.Levels
		p.ProgressionOrder = uint8(c.Prog)
		p.AllowMCT = c.MCT
		p.AppendLosslessLayer = c.Append
		return p
	default: // generic
		p := codec.NewBaseParameters()
		p.SetParameter("rate", c.Rate)
		if ladder != nil {
			p.SetParameter("rateLevels", ladder)
		}
		p.SetParameter("targetRatio", c.TR)
		p.SetParameter("numLayers", c.NumLayers)
		p.SetParameter("usePCRDOpt", c.PCRD)
		p.SetParameter("numLevels", c.Levels)
		p.SetParameter("progressionOrder", c.Prog)
		p.SetParameter("allowMCT", c.MCT)
		p.SetParameter("appendLosslessLayer", c.Append)
		return p
	}
}

// verifC05RoundTrip returns kind=="" on success.
func verifC05RoundTrip(c verifC05Case) (kind, detail string) {
	defer func() {
		if r := recover(); r != nil {
			kind = "panic"
			detail = fmt.Sprintf("%s panic=%q", c, strings.ReplaceAll(fmt.Sprint(r), "\n", " "))
		}
	}()
	ts := transfer.JPEG2000Lossless
	if c.UID == 92 {
		ts = transfer.JPEG2000Part2MultiComponentLosslessOnly
	}
	cd, ok := codec.GetGlobalRegistry().GetCodec(ts)
	if !ok {
		return "not-registered", c.String()
	}
	photometric := "MONOCHROME2"
	if c.SPP == 3 {
		photometric = "RGB"
	}
	newInfo := func() *imagetypes.FrameInfo {
		return &imagetypes.FrameInfo{
			Width: uint16(c.W), Height: uint16(c.H),
			BitsAllocated: uint16(c.BA), BitsStored: uint16(c.BS), HighBit: uint16(c.BS - 1),
			SamplesPerPixel: uint16(c.SPP), PixelRepresentation: uint16(c.PR),
			PlanarConfiguration: 0, PhotometricInterpretation: photometric,
		}
	}
	frames := verifC05Frames(c)
	src := codecHelpers.NewTestPixelData(newInfo())
	for _, f := range frames {
		_ = src.AddFrame(append([]byte(nil), f...))
	}
	enc := codecHelpers.NewTestPixelData(newInfo())
	if err := cd.Encode(src, enc, verifC05Params(c, cd)); err != nil {
		return "encode-error", fmt.Sprintf("%s err=%q", c, err.Error())
	}
	if enc.FrameCount() != len(frames) {
		return "frame-count", fmt.Sprintf("%s encoded_frames=%d", c, enc.FrameCount())
	}
	dec := codecHelpers.NewTestPixelData(newInfo())
	if err := cd.Decode(enc, dec, nil); err != nil {
		return "decode-error", fmt.Sprintf("%s err=%q", c, err.Error())
	}
	if dec.FrameCount() != len(frames) {
		return "frame-count", fmt.Sprintf("%s decoded_frames=%d", c, dec.FrameCount())
	}
	for f := range frames {
		got, _ := dec.GetFrame(f)
		if !bytes.Equal(got, frames[f]) {
			bad, first := 0, -1
			for i := 0; i < len(got) && i < len(frames[f]); i++ {
				if got[i] != frames[f][i] {
					if first < 0 {
						first = i
					}
					bad++
				}
			}
			d := fmt.Sprintf("%s frame=%d got_len=%d want_len=%d bad_bytes=%d", c, f, len(got), len(frames[f]), bad)
			if first >= 0 {
				d += fmt.Sprintf(" first_bad_byte=%d want=0x%02x got=0x%02x", first, frames[f][first], got[first])
			}
			return "bytes-mismatch", d
		}
	}
	return "", ""
}

// verifC05Layered reports whether the codec will request more than one quality layer / a rate
// target for this case (mirrors configureLosslessEncodeParams: a generic rate of 0 is ignored and
// the default Rate=20 stays in force).
func verifC05Layered(c verifC05Case) bool {
	switch c.Mode {
	case "nil", "default":
		return true
	case "generic":
		return true
	default:
		return c.NumLayers > 1 || c.TR > 0 || c.Rate > 0
	}
}

// verifC05Kind labels failures with coarse regions (never changes pass/fail).
func verifC05Kind(c verifC05Case, kind string) string {
	if kind == "" {
		return ""
	}
	if c.PR == 1 && c.BS < 8 {
		kind += "/signed-bitsStored<8"
	}
	if verifC05Layered(c) {
		kind += "/layered"
	}
	return kind
}

// verifC05Shrink greedily simplifies a failing case (same failure kind).
func verifC05Shrink(c verifC05Case, kind string) verifC05Case {
	fails := func(x verifC05Case) bool {
		k, _ := verifC05RoundTrip(x)
		return verifC05Kind(x, k) == kind
	}
	for budget := 0; budget < 100; budget++ {
		changed := false
		mut := func(f func(x *verifC05Case)) {
			cand := c
			f(&cand)
			if cand == c || cand.W < 1 || cand.H < 1 || cand.Frames < 1 || cand.NumLayers < 1 || cand.Levels < 0 || cand.Rate < 0 || cand.TR < 0 {
				return
			}
			// stay inside the property domain
			if (cand.Mode == "typed" || cand.Mode == "generic") && !cand.Append && (cand.Rate != 0 || cand.TR != 0) {
				return
			}
			if fails(cand) {
				c = cand
				changed = true
			}
		}
		mut(func(x *verifC05Case) { x.Frames = 1 })
		mut(func(x *verifC05Case) { x.UID = 90 })
		mut(func(x *verifC05Case) { x.SPP = 1 })
		mut(func(x *verifC05Case) { x.PR = 0 })
		mut(func(x *verifC05Case) { x.BA, x.BS = 8, 8 })
		if c.Mode == "typed" || c.Mode == "generic" {
			mut(func(x *verifC05Case) { x.Levels = 0 })
			mut(func(x *verifC05Case) { x.Levels-- })
			mut(func(x *verifC05Case) { x.NumLayers = 1 })
			mut(func(x *verifC05Case) { x.NumLayers-- })
			mut(func(x *verifC05Case) { x.TR = 0 })
			mut(func(x *verifC05Case) { x.Rate = 0 })
			mut(func(x *verifC05Case) { x.Ladder = 1 })
			mut(func(x *verifC05Case) { x.Ladder = 0 })
			mut(func(x *verifC05Case) { x.PCRD = false })
			mut(func(x *verifC05Case) { x.Prog = 0 })
			mut(func(x *verifC05Case) { x.MCT = false })
			mut(func(x *verifC05Case) { x.Append = true })
		}
		mut(func(x *verifC05Case) { x.W = 1 })
		mut(func(x *verifC05Case) { x.H = 1 })
		mut(func(x *verifC05Case) { x.W = (x.W + 1) / 2 })
		mut(func(x *verifC05Case) { x.H = (x.H + 1) / 2 })
		mut(func(x *verifC05Case) { x.W-- })
		mut(func(x *verifC05Case) { x.H-- })
		if !changed {
			break
		}
	}
	return c
}

func verifC05Run(r *verifJ2Report, c verifC05Case) {
	kind, detail := verifC05RoundTrip(c)
	k := verifC05Kind(c, kind)
	if k != "" && r.nKind[k] == 0 {
		min := verifC05Shrink(c, k)
		_, d2 := verifC05RoundTrip(min)
		detail += " shrunk=[" + d2 + "]"
	}
	r.record(k, detail)
}

type verifC05Img struct{ ba, bs, spp, pr int }

var verifC05Imgs = []verifC05Img{
	{8, 8, 1, 0}, {16, 12, 1, 0}, {16, 16, 1, 1}, {8, 8, 3, 0}, {16, 16, 1, 0}, {16, 12, 1, 1},
	{8, 8, 1, 1}, {16, 10, 3, 0}, {16, 15, 1, 1}, {8, 6, 1, 0}, {16, 9, 1, 0}, {8, 2, 3, 0},
}

// TestVerif_C05_DefaultParamsSizes: default parameters (nil and GetDefaultParameters()), both
// transfer syntaxes, every width 1..40 against a set of heights, image formats cycled.
func TestVerif_C05_DefaultParamsSizes(t *testing.T) {
	hs := []int{1, 2, 3, 5, 8, 16, 17, 33, 40}
	if verifJ2Thorough() {
		hs = nil
		for h := 1; h <= 40; h++ {
			hs = append(hs, h)
		}
	}
	r := verifJ2NewReport("TestVerif_C05_DefaultParamsSizes",
		fmt.Sprintf("widths 1..40 x heights %v; default parameters (alternating nil / GetDefaultParameters()), syntaxes .90/.92 alternating, formats (bitsAllocated,bitsStored,spp,pixelRepr) cycled through %v, frames 1..2, noise", hs, verifC05Imgs))
	i := 0
	for w := 1; w <= 40; w++ {
		for _, h := range hs {
			im := verifC05Imgs[i%len(verifC05Imgs)]
			c := verifC05Case{UID: []int{90, 92}[i%2], W: w, H: h, BA: im.ba, BS: im.bs, SPP: im.spp, PR: im.pr, Frames: 1 + (i/2)%2,
				Mode: []string{"nil", "default"}[(i/2)%2], Fill: "noise", Seed: int64(i)}
			verifC05Run(r, c)
			i++
		}
	}
	r.finish(t)
}

// TestVerif_C05_FrameInfoGrid: every BitsStored 2..16 x PixelRepresentation x SamplesPerPixel with
// default parameters on images smaller and larger than one code-block.
func TestVerif_C05_FrameInfoGrid(t *testing.T) {
	sizes := [][2]int{{1, 1}, {7, 5}, {24, 24}, {70, 66}}
	r := verifJ2NewReport("TestVerif_C05_FrameInfoGrid",
		fmt.Sprintf("exhaustive bitsStored 2..16 (bitsAllocated 8 for <=8, 16 above) x pixelRepr {0,1} x spp {1,3} x syntaxes {.90,.92} x sizes %v x fill {noise,extremes}; default parameters (nil); 1 frame", sizes))
	seed := int64(0)
	for bs := 2; bs <= 16; bs++ {
		ba := 8
		if bs > 8 {
			ba = 16
		}
		for pr := 0; pr <= 1; pr++ {
			for _, spp := range []int{1, 3} {
				for _, uid := range []int{90, 92} {
					for _, sz := range sizes {
						for _, fill := range []string{"noise", "extremes"} {
							seed++
							verifC05Run(r, verifC05Case{UID: uid, W: sz[0], H: sz[1], BA: ba, BS: bs, SPP: spp, PR: pr, Frames: 1, Mode: "nil", Fill: fill, Seed: seed})
						}
					}
				}
			}
		}
	}
	r.finish(t)
}

// verifC05RandomParams draws a parameter object from the C05 parameter domain.
func verifC05RandomParams(rng *rand.Rand, c *verifC05Case) {
	rates := []int{0, 1, 2, 5, 10, 20, 40, 80, 320, 1280}
	c.Rate = rates[rng.Intn(len(rates))]
	if rng.Intn(4) == 0 {
		c.Rate = rng.Intn(1281)
	}
	c.Ladder = rng.Intn(len(verifC05Ladders))
	trs := []float64{0, 0, 1, 1.5, 2, 5, 8, 10, 25, 100}
	c.TR = trs[rng.Intn(len(trs))]
	c.NumLayers = 1 + rng.Intn(10)
	c.PCRD = rng.Intn(2) == 1
	c.Levels = rng.Intn(7)
	c.Prog = rng.Intn(5)
	c.MCT = rng.Intn(2) == 1
	c.Append = rng.Intn(3) != 0
	if !c.Append {
		c.Rate, c.TR = 0, 0
	}
}

// TestVerif_C05_ParameterGrid: structured grid over the rate-control parameters on three images.
func TestVerif_C05_ParameterGrid(t *testing.T) {
	r := verifJ2NewReport("TestVerif_C05_ParameterGrid",
		"typed JPEG2000LosslessParameters: rate {0,1,5,20,80,1280} x targetRatio {0,2,10,100} x numLayers {1,2,5,10} x pcrd {0,1} x append {1, and 0 only when rate=0 and targetRatio=0}; ladder/numLevels/prog/allowMCT cycled ({default,nil,{100,10}},{5,0,2,6},0..4,{1,0}); images {40x40 8/8 mono, 17x9 16/12 mono signed, 64x64 8/8 RGB (thorough only: every image per grid point; quick: images cycled)}; syntaxes alternate; noise")
	imgs := []struct{ w, h, ba, bs, spp, pr int }{{40, 40, 8, 8, 1, 0}, {17, 9, 16, 12, 1, 1}, {64, 64, 8, 8, 3, 0}}
	i := 0
	for _, rate := range []int{0, 1, 5, 20, 80, 1280} {
		for _, tr := range []float64{0, 2, 10, 100} {
			for _, nl := range []int{1, 2, 5, 10} {
				for _, pcrd := range []bool{false, true} {
					for _, app := range []bool{true, false} {
						if !app && (rate != 0 || tr != 0) {
							continue
						}
						for k, im := range imgs {
							if !verifJ2Thorough() && k != i%len(imgs) {
								continue
							}
							c := verifC05Case{UID: []int{90, 92}[i%2], W: im.w, H: im.h, BA: im.ba, BS: im.bs, SPP: im.spp, PR: im.pr, Frames: 1, Mode: "typed",
								Rate: rate, Ladder: []int{0, 1, 2}[i%3], TR: tr, NumLayers: nl, PCRD: pcrd, Levels: []int{5, 0, 2, 6}[i%4], Prog: i % 5, MCT: i%2 == 0, Append: app,
								Fill: "noise", Seed: int64(i)}
							verifC05Run(r, c)
						}
						i++
					}
				}
			}
		}
	}
	r.finish(t)
}

// TestVerif_C05_ParameterSample: seeded random typed parameter objects x image formats x sizes.
func TestVerif_C05_ParameterSample(t *testing.T) {
	n := 1000
	if verifJ2Thorough() {
		n = 15000
	}
	r := verifJ2NewReport("TestVerif_C05_ParameterSample",
		fmt.Sprintf("%d seeded draws (seed=%d): typed JPEG2000LosslessParameters with rate in {0,1,2,5,10,20,40,80,320,1280} or uniform 0..1280, 7 ladders (default, nil, {100,10}, {50}, 10-step, {10,10,10}, ascending {5,20,1280}), targetRatio {0,1,1.5,2,5,8,10,25,100}, numLayers 1..10, pcrd, numLevels 0..6, prog 0..4, allowMCT, appendLossless (false only with rate=0 and targetRatio=0); w,h 1..40 (8%% {63..66}); bitsStored 2..16, spp {1,3}, pixelRepr {0,1}; frames 1..3; syntaxes .90/.92; fill noise/extremes/gradient/const", n, verifJ2Seed()))
	rng := rand.New(rand.NewSource(verifJ2Seed() ^ 0x0503))
	for i := 0; i < n; i++ {
		bs := 2 + rng.Intn(15)
		ba := 8
		if bs > 8 {
			ba = 16
		}
		c := verifC05Case{UID: []int{90, 92}[rng.Intn(2)], W: 1 + rng.Intn(40), H: 1 + rng.Intn(40), BA: ba, BS: bs, SPP: []int{1, 1, 3}[rng.Intn(3)], PR: rng.Intn(2),
			Frames: 1 + rng.Intn(3), Mode: "typed", Fill: []string{"noise", "noise", "noise", "extremes", "gradient", "const"}[rng.Intn(6)], Seed: rng.Int63()}
		if rng.Intn(12) == 0 {
			c.W, c.H = 63+rng.Intn(4), 63+rng.Intn(4)
			c.Frames = 1
		}
		verifC05RandomParams(rng, &c)
		verifC05Run(r, c)
	}
	r.finish(t)
}

// TestVerif_C05_GenericParameters: the same keys passed through a generic codec.BaseParameters.
func TestVerif_C05_GenericParameters(t *testing.T) {
	n := 500
	if verifJ2Thorough() {
		n = 6000
	}
	r := verifJ2NewReport("TestVerif_C05_GenericParameters",
		fmt.Sprintf("%d seeded draws (seed=%d): codec.BaseParameters with keys rate,rateLevels,targetRatio,numLayers,usePCRDOpt,numLevels,progressionOrder,allowMCT,appendLosslessLayer drawn as in ParameterSample (appendLosslessLayer=false only with rate=0 and targetRatio=0); w,h 1..40; bitsStored 2..16, spp {1,3}, pixelRepr {0,1}; 1 frame; noise", n, verifJ2Seed()))
	rng := rand.New(rand.NewSource(verifJ2Seed() ^ 0x0504))
	for i := 0; i < n; i++ {
		bs := 2 + rng.Intn(15)
		ba := 8
		if bs > 8 {
			ba = 16
		}
		c := verifC05Case{UID: []int{90, 92}[rng.Intn(2)], W: 1 + rng.Intn(40), H: 1 + rng.Intn(40), BA: ba, BS: bs, SPP: []int{1, 1, 3}[rng.Intn(3)], PR: rng.Intn(2),
			Frames: 1, Mode: "generic", Fill: "noise", Seed: rng.Int63()}
		verifC05RandomParams(rng, &c)
		verifC05Run(r, c)
	}
	r.finish(t)
}
