// Bounded stand-ins for properties C08 (no panic on any input) and C09 (time / memory budget).
// Injected into package jpeg2000/htj2k by `go test -overlay`; never copied into /repo. See ../README.md (or ../../README.md).

package htj2k

import (
	"encoding/binary"
	"fmt"
	"math/rand"
	"os"
	"regexp"
	"runtime"
	"runtime/debug"
	"runtime/metrics"
	"sort"
	"strconv"
	"strings"
	"sync/atomic"
	"syscall"
	"testing"
	"time"

	codecHelpers "github.com/cocosip/go-dicom-codecs/codec"
	"github.com/cocosip/go-dicom/pkg/imaging/imagetypes"
)

// ---------------------------------------------------------------------------------------------
// Shared harness for the C08 / C09 bounded stand-ins. In-package overlay tests cannot share a helper
// package, so this block is duplicated verbatim in every verif_c08_test.go (identifiers are prefixed
// verifC08 to stay clear of the package's own tests and of other bounded stand-ins).
// ---------------------------------------------------------------------------------------------

const verifC08MaxS = int64(1) << 22 // C09 quantifier: declared samples <= 2^22

// verifC08QuickMaxS is the declared-size cap applied to the generic mutations in the quick tier (handcrafted
// "special" cases and the thorough tier always use verifC08MaxS). The JPEG 2000 packages lower it because
// every decode of a stream that declares 2^22 samples allocates and clears 16 MiB per component.
var verifC08QuickMaxS = verifC08MaxS

// verifC08SecondaryOnOK: run the secondary entry points on every case the primary one accepted (default).
// Packages whose decode is expensive switch it off in the quick tier (panicking and every 8th case remain).
var verifC08SecondaryOnOK = true

func verifC08Cap(c *verifC08Case) int64 {
	if c.kind == "special" || verifC08Tier() == "thorough" {
		return verifC08MaxS
	}
	return verifC08QuickMaxS
}

func verifC08Tier() string {
	if os.Getenv("VERIF_TIER") == "thorough" {
		return "thorough"
	}
	return "quick"
}

func verifC08Seed() int64 {
	if s, err := strconv.ParseInt(os.Getenv("VERIF_SEED"), 10, 64); err == nil {
		return s
	}
	return 20260923
}

// verifC08Base is one valid stream produced by the package's own encoder.
type verifC08Base struct {
	name string
	data []byte
	// light marks a stream that is expensive to decode. quick tier: only unchanged / every 4th truncation /
	// segment mutations, no byte and word substitution; thorough tier: the 15 value list instead of all 256.
	light bool
}

// verifC08Case is one input handed to a decoder plus the recipe that produced it.
type verifC08Case struct {
	base string // description of the base stream (geometry / parameters) or of the random prefix
	kind string // valid | trunc | byte | word | segdrop | segdup | segswap | segfirst | rand | special
	off  int
	val  int
	data []byte
}

func (c *verifC08Case) key() string {
	return fmt.Sprintf("%s|%s|%d|%d", c.base, c.kind, c.off, c.val)
}

func (c *verifC08Case) String() string {
	s := fmt.Sprintf("base=%q mut=%s off=%d val=0x%x len=%d", c.base, c.kind, c.off, c.val, len(c.data))
	if len(c.data) <= 64 {
		s += fmt.Sprintf(" hex=%x", c.data)
	}
	return s
}

var verifC08ByteVals = []int{0, 1, 2, 3, 4, 15, 16, 17, 63, 64, 127, 128, 200, 254, 255}
var verifC08WordVals = []int{0, 1, 0x7fff, 0x8000, 0xffff}

// verifC08Enumerate produces the finite input domain shared by C08 and C09:
//
//	valid    every base stream unchanged
//	trunc    every proper prefix of every base (bases > 4 KiB: first 1024 offsets, then a stride)
//	byte     single byte substitution at each of the first N bytes (quick N=300, thorough N=1500)
//	         with values verifC08ByteVals (thorough: all 256; "light" streams see verifC08Base)
//	word     big-endian 16 bit substitution with verifC08WordVals at every offset of the first W
//	         bytes (quick W=120, thorough W=N)
//	seg*     marker segment dropped / duplicated / swapped with its successor / moved to the front
//	rand     seeded random strings behind each valid start-of-image prefix
//
// fn returns false to stop the enumeration.
func verifC08Enumerate(bases, prefixes []verifC08Base, markers []byte, segs func([]byte) [][2]int,
	tier string, seed int64, fn func(c *verifC08Case) bool) {
	nByte, nWord, nRand, allVals := 300, 120, 400, false
	if tier == "thorough" {
		nByte, nWord, nRand, allVals = 1500, 1500, 6000, true
	}
	clone := func(b []byte) []byte { return append(make([]byte, 0, len(b)), b...) }
	for _, b := range bases {
		if !fn(&verifC08Case{base: b.name, kind: "valid", data: clone(b.data)}) {
			return
		}
	}
	for _, b := range bases {
		n := len(b.data)
		for off := 0; off < n; {
			// exact-capacity copy: an over-read past the truncation point must fault, not read the tail
			if !fn(&verifC08Case{base: b.name, kind: "trunc", off: off, data: clone(b.data[:off])}) {
				return
			}
			if n > 4096 && off >= 1024 {
				off += 1 + n/1024
			} else if b.light && tier != "thorough" {
				off += 4 // quick tier, light base: every 4th truncation point
			} else {
				off++
			}
		}
	}
	for _, b := range bases {
		if b.light && tier != "thorough" {
			continue
		}
		n := len(b.data)
		lim := nByte
		if lim > n {
			lim = n
		}
		for off := 0; off < lim; off++ {
			if allVals && !b.light {
				for v := 0; v < 256; v++ {
					if byte(v) == b.data[off] {
						continue
					}
					d := clone(b.data)
					d[off] = byte(v)
					if !fn(&verifC08Case{base: b.name, kind: "byte", off: off, val: v, data: d}) {
						return
					}
				}
				continue
			}
			for _, v := range verifC08ByteVals {
				if byte(v) == b.data[off] {
					continue
				}
				d := clone(b.data)
				d[off] = byte(v)
				if !fn(&verifC08Case{base: b.name, kind: "byte", off: off, val: v, data: d}) {
					return
				}
			}
		}
	}
	for _, b := range bases {
		if b.light && tier != "thorough" {
			continue
		}
		n := len(b.data)
		lim := nWord
		if lim > n-1 {
			lim = n - 1
		}
		for off := 0; off < lim; off++ {
			for _, v := range verifC08WordVals {
				if b.data[off] == byte(v>>8) && b.data[off+1] == byte(v) {
					continue
				}
				d := clone(b.data)
				d[off], d[off+1] = byte(v>>8), byte(v)
				if !fn(&verifC08Case{base: b.name, kind: "word", off: off, val: v, data: d}) {
					return
				}
			}
		}
	}
	if segs != nil {
		for _, b := range bases {
			sp := segs(b.data)
			for i, s := range sp {
				seg := b.data[s[0]:s[1]]
				// drop
				d := append(clone(b.data[:s[0]]), b.data[s[1]:]...)
				if !fn(&verifC08Case{base: b.name, kind: "segdrop", off: s[0], val: i, data: d}) {
					return
				}
				// duplicate
				d = append(clone(b.data[:s[1]]), seg...)
				d = append(d, b.data[s[1]:]...)
				if !fn(&verifC08Case{base: b.name, kind: "segdup", off: s[0], val: i, data: d}) {
					return
				}
				// move to the front (right after the 2-byte start marker)
				if i > 0 && sp[0][0] <= s[0] {
					d = append(clone(b.data[:sp[0][0]]), seg...)
					d = append(d, b.data[sp[0][0]:s[0]]...)
					d = append(d, b.data[s[1]:]...)
					if !fn(&verifC08Case{base: b.name, kind: "segfirst", off: s[0], val: i, data: d}) {
						return
					}
				}
				// swap with successor
				if i+1 < len(sp) && sp[i+1][0] == s[1] {
					nx := b.data[sp[i+1][0]:sp[i+1][1]]
					d = append(clone(b.data[:s[0]]), nx...)
					d = append(d, seg...)
					d = append(d, b.data[sp[i+1][1]:]...)
					if !fn(&verifC08Case{base: b.name, kind: "segswap", off: s[0], val: i, data: d}) {
						return
					}
				}
			}
		}
	}
	rng := rand.New(rand.NewSource(seed))
	for _, p := range prefixes {
		for i := 0; i < nRand; i++ {
			n := rng.Intn(200)
			if i%16 == 15 {
				n = rng.Intn(3000)
			}
			d := clone(p.data)
			structured := i%2 == 1
			for len(d) < len(p.data)+n {
				if structured && len(markers) > 0 && rng.Intn(6) == 0 {
					// a marker followed by a short, often self-consistent length field
					d = append(d, 0xFF, markers[rng.Intn(len(markers))])
					if rng.Intn(3) > 0 {
						l := rng.Intn(40)
						d = append(d, byte(l>>8), byte(l))
					}
					continue
				}
				switch rng.Intn(8) {
				case 0:
					d = append(d, 0)
				case 1:
					d = append(d, 0xFF)
				case 2:
					d = append(d, byte(rng.Intn(20)))
				default:
					d = append(d, byte(rng.Intn(256)))
				}
			}
			if !fn(&verifC08Case{base: p.name, kind: "rand", off: i, val: int(seed & 0x7fffffff), data: clone(d)}) {
				return
			}
		}
	}
}

// verifC08Excl marks a recipe that cannot be executed inside the test process because the decode under test
// does not come back in time or exhausts memory (the run that discovered it was stopped by guard()).
// Every entry is a recorded C09 violation; c08 is set when it is a C08 violation as well.
type verifC08Excl struct {
	why string
	c08 bool
}

// verifC08ProcCPU returns the CPU time (user+system) consumed so far by this test process.
func verifC08ProcCPU() time.Duration {
	var ru syscall.Rusage
	if err := syscall.Getrusage(syscall.RUSAGE_SELF, &ru); err != nil {
		return 0
	}
	return time.Duration(ru.Utime.Nano() + ru.Stime.Nano())
}

// verifC08Effective discounts scheduler contention on a shared machine: the time charged to a decode is the
// smaller of its wall time and of the CPU time the process consumed meanwhile (the decoders never sleep; the
// garbage collector's helper threads make the CPU figure the larger one on an idle machine).
func verifC08Effective(wall, cpu time.Duration) time.Duration {
	if cpu > 0 && cpu < wall {
		return cpu
	}
	return wall
}

// verifC08Decoder is one decoding entry point. ok reports "returned a result, not an error".
type verifC08Decoder struct {
	name string
	fn   func(data []byte) (ok bool)
}

type verifC08Site struct {
	msg, frame, first string
	count             int
}

type verifC08Runner struct {
	test, pkg       string
	cases, skipped  int
	fails           int
	sites           map[string]*verifC08Site
	order           []string
	extra           []string // other failure lines (timeouts, memory budget, excluded recipes)
	cur             atomic.Pointer[verifC08Case]
	curDec          atomic.Pointer[string]
	curStart        atomic.Int64
	curCPU          atomic.Int64
	stop            chan struct{}
	maxDur          time.Duration
	maxDurCase      string
	maxAlloc        uint64
	maxAllocCase    string
	maxAllocS       int64
	domain          string
	caseLimit       time.Duration
	memAbort        uint64
	finishedSummary atomic.Bool
}

func verifC08NewRunner(test, pkg string, caseLimit time.Duration) *verifC08Runner {
	r := &verifC08Runner{test: test, pkg: pkg, sites: map[string]*verifC08Site{}, stop: make(chan struct{}),
		caseLimit: caseLimit, memAbort: 6 << 30}
	return r
}

var verifC08Digits = regexp.MustCompile(`[0-9]+`)

// verifC08TopFrame returns "func file:line" of the first frame under /repo that is not this test.
func verifC08TopFrame(stack string) string {
	lines := strings.Split(stack, "\n")
	for i := 1; i < len(lines); i++ {
		l := strings.TrimSpace(lines[i])
		if !strings.HasPrefix(l, "/repo/") || strings.Contains(l, "zz_verif") || strings.Contains(l, "verif_c08") {
			continue
		}
		if j := strings.Index(l, " +0x"); j > 0 {
			l = l[:j]
		}
		fn := strings.TrimSpace(lines[i-1])
		if j := strings.LastIndex(fn, "("); j > 0 {
			fn = fn[:j]
		}
		if j := strings.LastIndex(fn, "/"); j >= 0 {
			fn = fn[j+1:]
		}
		return fn + " " + l
	}
	return "?"
}

// call runs one decoder on one input under recover().
func (r *verifC08Runner) call(dec *verifC08Decoder, c *verifC08Case) (ok, panicked bool) {
	r.cur.Store(c)
	r.curDec.Store(&dec.name)
	r.curCPU.Store(int64(verifC08ProcCPU()))
	r.curStart.Store(time.Now().UnixNano())
	defer func() {
		r.curStart.Store(0)
		if p := recover(); p != nil {
			panicked = true
			msg := fmt.Sprint(p)
			frame := verifC08TopFrame(string(debug.Stack()))
			k := verifC08Digits.ReplaceAllString(msg, "N") + " @ " + frame
			s := r.sites[k]
			if s == nil {
				s = &verifC08Site{msg: msg, frame: frame, first: "entry=" + dec.name + " " + c.String()}
				r.sites[k] = s
				r.order = append(r.order, k)
			}
			s.count++
		}
	}()
	ok = dec.fn(c.data)
	return
}

// guard watches the running case from a second goroutine: a decode that exceeds caseLimit (effective time, see
// verifC08Effective; 6 x caseLimit wall time in any case) or a heap that
// exceeds memAbort cannot be interrupted, so the guard reports the case and ends the test process.
func (r *verifC08Runner) guard() {
	sample := []metrics.Sample{{Name: "/memory/classes/heap/objects:bytes"}}
	tick := time.NewTicker(20 * time.Millisecond)
	defer tick.Stop()
	for {
		select {
		case <-r.stop:
			return
		case <-tick.C:
		}
		st := r.curStart.Load()
		c := r.cur.Load()
		if st == 0 || c == nil {
			continue
		}
		metrics.Read(sample)
		heap := sample[0].Value.Uint64()
		el := time.Duration(time.Now().UnixNano() - st)
		cpu := verifC08ProcCPU() - time.Duration(r.curCPU.Load())
		why := ""
		if eff := verifC08Effective(el, cpu); eff > r.caseLimit || el > 6*r.caseLimit {
			why = fmt.Sprintf("kind=timeout wall=%s process_cpu=%s limit=%s", el.Round(time.Millisecond), cpu.Round(time.Millisecond), r.caseLimit)
		} else if heap > r.memAbort {
			why = fmt.Sprintf("kind=mem-abort live_heap=%d limit=%d", heap, r.memAbort)
		}
		if why == "" || r.curStart.Load() != st {
			continue
		}
		dn := ""
		if p := r.curDec.Load(); p != nil {
			dn = *p
		}
		fmt.Printf("BOUNDED-FAIL name=%s pkg=%s %s entry=%s %s (process stopped: the decode cannot be interrupted)\n",
			r.test, r.pkg, why, dn, c.String())
		fmt.Printf("BOUNDED name=%s cases=%d fails=%d domain=\"ABORTED after %d cases by the case above; %s\"\n",
			r.test, r.cases, r.fails+1, r.cases, r.domain)
		os.Exit(1)
	}
}

// peakLive re-runs one case and samples the heap (live + not yet swept objects, GOGC=25 so at most 1.25 x live)
// every 0.5 ms; it returns the growth of the maximum sample over the level before the call.
func (r *verifC08Runner) peakLive(dec *verifC08Decoder, c *verifC08Case) uint64 {
	runtime.GC()
	old := debug.SetGCPercent(25)
	defer debug.SetGCPercent(old)
	read := func() uint64 {
		s := []metrics.Sample{{Name: "/memory/classes/heap/objects:bytes"}}
		metrics.Read(s)
		return s[0].Value.Uint64()
	}
	base := read()
	var peak atomic.Uint64
	done, fin := make(chan struct{}), make(chan struct{})
	go func() {
		defer close(fin)
		tick := time.NewTicker(500 * time.Microsecond)
		defer tick.Stop()
		for {
			select {
			case <-done:
				return
			case <-tick.C:
				if v := read(); v > peak.Load() {
					peak.Store(v)
				}
			}
		}
	}()
	r.call(dec, c)
	close(done)
	<-fin
	if p := peak.Load(); p > base {
		return p - base
	}
	return 0
}

func (r *verifC08Runner) finish(t *testing.T) {
	close(r.stop)
	r.cur.Store(nil)
	keys := append([]string(nil), r.order...)
	sort.SliceStable(keys, func(i, j int) bool { return r.sites[keys[i]].count > r.sites[keys[j]].count })
	printed := 0
	for _, k := range keys {
		s := r.sites[k]
		if printed < 5 {
			fmt.Printf("BOUNDED-FAIL name=%s pkg=%s kind=panic site=%q panic=%q hits=%d %s\n", r.test, r.pkg, s.frame, s.msg, s.count, s.first)
			printed++
		}
	}
	for _, e := range r.extra {
		if printed < 5 {
			fmt.Printf("BOUNDED-FAIL name=%s pkg=%s %s\n", r.test, r.pkg, e)
			printed++
		}
	}
	// complete list (informational; not part of the BOUNDED protocol)
	for i, k := range keys {
		s := r.sites[k]
		fmt.Printf("VERIF-C08-SITE name=%s pkg=%s n=%d/%d site=%q panic=%q hits=%d %s\n", r.test, r.pkg, i+1, len(keys), s.frame, s.msg, s.count, s.first)
	}
	for _, e := range r.extra {
		fmt.Printf("VERIF-C08-EXTRA name=%s pkg=%s %s\n", r.test, r.pkg, e)
	}
	fmt.Printf("BOUNDED name=%s cases=%d fails=%d domain=\"%s\"\n", r.test, r.cases, r.fails, r.domain)
	if r.fails > 0 {
		t.Fail()
	}
}

// verifC08RunC08 executes the C08 statement: every entry point returns (result or error) without panicking.
// decs[0] is the package level entry point and sees every case; the remaining entry points (thin DICOM codec
// wrappers around decs[0]) see the cases decs[0] accepted, the cases it panicked on, and every 8th other case.
func verifC08RunC08(t *testing.T, pkg string, decs []verifC08Decoder, declared func([]byte) (int64, bool, int64),
	excluded map[string]verifC08Excl, enumerate func(fn func(c *verifC08Case) bool), domain string) {
	r := verifC08NewRunner(t.Name(), pkg, 30*time.Second)
	r.domain = domain
	old := debug.SetMemoryLimit(3 << 30)
	defer debug.SetMemoryLimit(old)
	go r.guard()
	start := time.Now()
	var kindTime map[string]time.Duration
	var kindN map[string]int
	if os.Getenv("VERIF_C08_DEBUG") != "" {
		kindTime, kindN = map[string]time.Duration{}, map[string]int{}
		defer func() {
			for k, v := range kindTime {
				fmt.Printf("VERIF-C08-DEBUG secs=%.3f n=%d key=%s\n", v.Seconds(), kindN[k], k)
			}
		}()
	}
	enumerate(func(c *verifC08Case) bool {
		if e, ex := excluded[c.key()]; ex && os.Getenv("VERIF_RUN_EXCLUDED") == "" {
			if !e.c08 {
				r.skipped++ // a C09 violation (too slow / too much memory), not a panic: see TestVerif_C09
				return true
			}
			r.cases++
			r.fails++
			r.extra = append(r.extra, fmt.Sprintf("kind=excluded-known-abort why=%q %s", e.why, c.String()))
			return true
		}
		if _, _, g := declared(c.data); g > verifC08Cap(c) {
			r.skipped++
			return true
		}
		r.cases++
		tCase := time.Now()
		defer func() {
			if kindTime != nil {
				el := time.Since(tCase)
				kindTime[c.kind] += el
				kindTime["base:"+c.base] += el
				kindN[c.kind]++
				kindN["base:"+c.base]++
				if el > 500*time.Millisecond {
					fmt.Printf("VERIF-C08-SLOW %s %s\n", el, c.String())
				}
			}
		}()
		failed, primOK := false, false
		for i := range decs {
			if i > 0 && !((primOK && verifC08SecondaryOnOK) || failed || r.cases%8 == 0) {
				continue
			}
			ok, p := r.call(&decs[i], c)
			if i == 0 {
				primOK = ok && !p
			}
			if p {
				failed = true
			}
		}
		if failed {
			r.fails++
		}
		return true
	})
	r.domain = fmt.Sprintf("%s; executed=%d skipped_declared_gt_cap=%d; elapsed=%s", domain, r.cases, r.skipped, time.Since(start).Round(time.Millisecond))
	r.finish(t)
}

// verifC08RunC09 executes the C09 statement on a sample of the same domain: each decode returns within 10 s
// and allocates (runtime.MemStats.TotalAlloc delta, an upper bound of the peak heap growth of the call;
// an exceedance is confirmed by peakLive before it counts) at most 512 MiB + 64*S bytes where S is the sample count declared by the first frame header (0 if none).
func verifC08RunC09(t *testing.T, pkg string, decs []verifC08Decoder, declared func([]byte) (int64, bool, int64),
	excluded map[string]verifC08Excl, enumerate func(fn func(c *verifC08Case) bool), every int, domain string) {
	r := verifC08NewRunner(t.Name(), pkg, 10*time.Second)
	r.domain = domain
	old := debug.SetMemoryLimit(3 << 30)
	defer debug.SetMemoryLimit(old)
	go r.guard()
	start := time.Now()
	seq := 0
	var m0, m1 runtime.MemStats
	var notes []string
	baseS := map[string]int64{}
	enumerate(func(c *verifC08Case) bool {
		seq++
		s, _, g := declared(c.data)
		if c.kind == "valid" {
			baseS[c.base] = s
		}
		if e, ex := excluded[c.key()]; ex && os.Getenv("VERIF_RUN_EXCLUDED") == "" {
			r.cases++
			r.fails++
			r.extra = append(r.extra, fmt.Sprintf("kind=excluded-known-abort declaredS=%d why=%q %s", s, e.why, c.String()))
			return true
		}
		if g > verifC08Cap(c) {
			r.skipped++
			return true
		}
		// sample: every case whose declared size differs from its base stream's, plus every n-th other case
		if bs, has := baseS[c.base]; !(c.kind == "valid" || c.kind == "special" || (has && bs != s) || seq%every == 0) {
			return true
		}
		if s < 0 {
			s = 0
		}
		budget := uint64(512<<20) + 64*uint64(s)
		r.cases++
		bad := false
		for i := range decs {
			if i > 0 && r.cases%4 != 0 {
				continue
			}
			runtime.ReadMemStats(&m0)
			t0, c0 := time.Now(), verifC08ProcCPU()
			r.call(&decs[i], c)
			el := verifC08Effective(time.Since(t0), verifC08ProcCPU()-c0)
			runtime.ReadMemStats(&m1)
			alloc := m1.TotalAlloc - m0.TotalAlloc
			if el > r.maxDur {
				r.maxDur, r.maxDurCase = el, c.String()
			}
			if alloc > r.maxAlloc {
				r.maxAlloc, r.maxAllocCase, r.maxAllocS = alloc, c.String(), s
			}
			if el > 10*time.Second {
				bad = true
				r.extra = append(r.extra, fmt.Sprintf("kind=time elapsed=%s limit=10s declaredS=%d entry=%s %s", el, s, decs[i].name, c.String()))
			}
			if alloc > budget {
				// TotalAlloc counts every allocation of the call, freed or not; confirm with a direct measurement
				peak := r.peakLive(&decs[i], c)
				if peak > budget {
					bad = true
					r.extra = append(r.extra, fmt.Sprintf("kind=alloc totalalloc_delta=%d sampled_peak_heap=%d budget=%d declaredS=%d entry=%s %s", alloc, peak, budget, s, decs[i].name, c.String()))
				} else {
					notes = append(notes, fmt.Sprintf("VERIF-C09-NOTE name=%s proxy-only exceedance (not counted): totalalloc_delta=%d > budget=%d but sampled_peak_heap=%d declaredS=%d entry=%s %s", r.test, alloc, budget, peak, s, decs[i].name, c.String()))
				}
			}
		}
		if bad {
			r.fails++
		}
		return true
	})
	// panics are C08's business: they are recorded by call() but do not count as C09 failures
	r.sites, r.order = map[string]*verifC08Site{}, nil
	r.domain = fmt.Sprintf("%s; executed=%d skipped_declared_gt_cap=%d; max_time=%s max_totalalloc=%d (declaredS=%d); elapsed=%s",
		domain, r.cases, r.skipped, r.maxDur.Round(time.Microsecond), r.maxAlloc, r.maxAllocS, time.Since(start).Round(time.Millisecond))
	for _, n := range notes {
		fmt.Println(n)
	}
	fmt.Printf("VERIF-C09-MAX name=%s slowest=%s case={%s} largest_alloc=%d case={%s}\n", t.Name(), r.maxDur, r.maxDurCase, r.maxAlloc, r.maxAllocCase)
	r.finish(t)
}

// ---- ISO 15444-1 marker level helpers (independent of the package's own parser) ----

// verifC08SizS computes (Xsiz-XOsiz)*(Ysiz-YOsiz)*Csiz of a SIZ marker at offset i (the 0xFF of FF51) in
// wrapping 64-bit arithmetic (the same width the library uses for `int`).
func verifC08SizS(data []byte, i int) (int64, bool) {
	if i+42 > len(data) {
		return 0, false
	}
	u32 := func(o int) int64 { return int64(binary.BigEndian.Uint32(data[i+o:])) }
	xsiz, ysiz, xo, yo := u32(6), u32(10), u32(14), u32(18)
	csiz := int64(binary.BigEndian.Uint16(data[i+38:]))
	return (xsiz - xo) * (ysiz - yo) * csiz, true
}

// verifC08Declared: s/declared = sample count declared by the first SIZ found by walking the main header
// marker segments from SOC; guard = the largest such product over every FF51 byte pair in the input.
func verifC08Declared(data []byte) (s int64, declared bool, guard int64) {
	for i := 0; i+1 < len(data); i++ {
		if data[i] == 0xFF && data[i+1] == 0x51 {
			if v, ok := verifC08SizS(data, i); ok && v > guard {
				guard = v
			}
		}
	}
	pos := 2
	for steps := 0; pos >= 0 && pos+3 < len(data) && steps < 4096; steps++ {
		if data[pos] == 0xFF && data[pos+1] == 0x51 {
			if v, ok := verifC08SizS(data, pos); ok {
				return v, true, guard
			}
			return
		}
		if data[pos] == 0xFF && (data[pos+1] == 0x90 || data[pos+1] == 0xD9 || data[pos+1] == 0x93) {
			return
		}
		pos += 2 + (int(data[pos+2])<<8 | int(data[pos+3]))
	}
	return
}

// verifC08Segments returns the [start,end) spans of the main header marker segments, of the first SOT
// segment and of the first tile-part header's marker segments (SOD excluded).
func verifC08Segments(data []byte) [][2]int {
	var out [][2]int
	pos := 2
	for pos+3 < len(data) && data[pos] == 0xFF {
		m := data[pos+1]
		if m == 0x93 || m == 0xD9 || m == 0x4F {
			break
		}
		l := int(data[pos+2])<<8 | int(data[pos+3])
		if l < 2 || pos+2+l > len(data) {
			break
		}
		out = append(out, [2]int{pos, pos + 2 + l})
		pos += 2 + l
	}
	return out
}

// verifC08ThroughSOD returns the prefix of a valid codestream up to and including the first SOD marker.
func verifC08ThroughSOD(data []byte) []byte {
	sp := verifC08Segments(data)
	if len(sp) == 0 {
		return data[:2]
	}
	end := sp[len(sp)-1][1]
	if end+2 <= len(data) && data[end] == 0xFF && data[end+1] == 0x93 {
		end += 2
	}
	return data[:end]
}

func verifC08FindSeg(data []byte, marker byte) int {
	for _, s := range verifC08Segments(data) {
		if data[s[0]+1] == marker {
			return s[0]
		}
	}
	return -1
}

// verifC08CODLayers returns the layer count of the first main-header COD (-1 if not found).
func verifC08CODLayers(data []byte) int {
	p := verifC08FindSeg(data, 0x52)
	if p < 0 || p+8 > len(data) {
		return -1
	}
	return int(data[p+6])<<8 | int(data[p+7])
}

// verifC08QuickFilter wraps fn: inputs whose COD declares more than 1024 quality layers cost 1-7 s each in
// the decoders under test (time proportional to the layer count, see the C09 findings), so both tiers execute
// them only for the base streams whose index is in keep (and for the handcrafted specials) and report the
// rest as sampled out.
func verifC08QuickFilter(tier string, bases []verifC08Base, keep map[int]bool, sampledOut *int, fn func(c *verifC08Case) bool) func(c *verifC08Case) bool {
	idx := map[string]int{}
	for i, b := range bases {
		idx[b.name] = i
	}
	return func(c *verifC08Case) bool {
		if c.kind != "special" && verifC08CODLayers(c.data) > 1024 {
			i, ok := idx[c.base]
			if !ok {
				for j, b := range bases {
					if strings.HasPrefix(c.base, b.name) {
						i, ok = j, true
					}
				}
			}
			if !ok || !keep[i] {
				*sampledOut++
				return true
			}
		}
		return fn(c)
	}
}

var verifC08Markers = []byte{0x51, 0x51, 0x52, 0x52, 0x53, 0x5C, 0x5C, 0x5D, 0x5E, 0x5F, 0x64, 0x90, 0x90, 0x93, 0x93, 0xD9, 0x74, 0x75, 0x77, 0x50, 0x55, 0x57, 0x58, 0x60, 0x61, 0x63, 0x4F}

// verifC08SIZSpecials: 32-bit / 16-bit / 8-bit field substitutions inside the SIZ segment of valid streams,
// including the pairs the single-field mutations cannot reach (Xsiz < XOsiz, both extents 2^32-1, ...).
func verifC08SIZSpecials(bases []verifC08Base) []verifC08Case {
	var out []verifC08Case
	names := []string{"Xsiz", "Ysiz", "XOsiz", "YOsiz", "XTsiz", "YTsiz", "XTOsiz", "YTOsiz"}
	for _, b := range bases {
		p := verifC08FindSeg(b.data, 0x51)
		if p < 0 || p+42 > len(b.data) {
			continue
		}
		get := func(f int) uint32 { return binary.BigEndian.Uint32(b.data[p+6+4*f:]) }
		set := func(d []byte, f int, v uint32) { binary.BigEndian.PutUint32(d[p+6+4*f:], v) }
		n := 0
		add := func(desc string, d []byte) {
			out = append(out, verifC08Case{base: b.name + " with SIZ." + desc, kind: "special", off: n, data: d})
			n++
		}
		for f := 0; f < 8; f++ {
			w := get(f)
			for _, v := range []uint32{0, 1, 2, 3, 7, 8, w - 1, w + 1, 2 * w, 255, 256, 2048, 0x7fffffff, 0x80000000, 0xfffffffe, 0xffffffff} {
				if v == w {
					continue
				}
				d := append([]byte(nil), b.data...)
				set(d, f, v)
				add(fmt.Sprintf("%s=%d", names[f], v), d)
			}
		}
		pairs := [][4]uint32{ // {fieldA, valueA, fieldB, valueB}
			{0, 0xffffffff, 1, 0xffffffff}, {0, 0x80000000, 1, 0x80000000}, {0, 0x10000, 1, 0x10000},
			{2, get(0) + 1, 3, 0}, {2, get(0) + 1, 3, get(1) + 1}, {2, get(0), 3, get(1)}, {2, 0xffffffff, 3, 0xffffffff},
			{4, 1, 5, 1}, {4, 0, 5, 0}, {4, 2, 5, 3}, {6, get(0), 7, get(1)}, {6, get(0) + 5, 7, get(1) + 5}, {6, 0xffffffff, 7, 0xffffffff},
			{0, 2048, 1, 2048}, {0, 2049, 1, 2047}, {4, 0xffffffff, 5, 0xffffffff}, {2, 1, 6, 1}, {3, 1, 7, 1}, {2, 3, 6, 0}, {2, 1, 3, 1},
		}
		for _, pr := range pairs {
			d := append([]byte(nil), b.data...)
			set(d, int(pr[0]), pr[1])
			set(d, int(pr[2]), pr[3])
			add(fmt.Sprintf("%s=%d,%s=%d", names[pr[0]], pr[1], names[pr[2]], pr[3]), d)
		}
		// Csiz with and without matching Lsiz / component entries
		csiz := int(binary.BigEndian.Uint16(b.data[p+38:]))
		for _, c := range []int{0, 1, 2, 3, 4, 5, 255, 256, 257, 16384, 65535} {
			if c == csiz {
				continue
			}
			d := append([]byte(nil), b.data...)
			binary.BigEndian.PutUint16(d[p+38:], uint16(c))
			add(fmt.Sprintf("Csiz=%d (Lsiz unchanged)", c), d)
			if c <= 300 {
				// consistent: rewrite Lsiz and the component table
				d = append([]byte(nil), b.data[:p+40]...)
				binary.BigEndian.PutUint16(d[p+38:], uint16(c))
				binary.BigEndian.PutUint16(d[p+2:], uint16(38+3*c))
				for i := 0; i < c; i++ {
					d = append(d, b.data[p+40], 1, 1)
				}
				d = append(d, b.data[p+40+3*csiz:]...)
				add(fmt.Sprintf("Csiz=%d (Lsiz and component table consistent)", c), d)
			}
		}
		// per component Ssiz / XRsiz / YRsiz
		for ci := 0; ci < csiz && ci < 3; ci++ {
			for fi, fname := range []string{"Ssiz", "XRsiz", "YRsiz"} {
				for _, v := range []int{0, 1, 2, 3, 4, 7, 8, 15, 16, 24, 30, 31, 32, 37, 38, 63, 64, 127, 128, 135, 143, 159, 165, 166, 200, 254, 255} {
					o := p + 40 + 3*ci + fi
					if o >= len(b.data) || int(b.data[o]) == v {
						continue
					}
					d := append([]byte(nil), b.data...)
					d[o] = byte(v)
					add(fmt.Sprintf("comp[%d].%s=%d", ci, fname, v), d)
				}
			}
		}
	}
	return out
}

// verifC08CODSpecials: every value of the COD / QCD parameter bytes of valid streams (quick tier: except the
// high byte of the COD layer count, whose boundary values the generic byte substitution already covers and
// whose large values cost seconds per case).
func verifC08CODSpecials(bases []verifC08Base, tier string, step int) []verifC08Case {
	var out []verifC08Case
	for _, b := range bases {
		for _, m := range []byte{0x52, 0x5C} {
			p := verifC08FindSeg(b.data, m)
			if p < 0 {
				continue
			}
			l := int(b.data[p+2])<<8 | int(b.data[p+3])
			for o := p + 2; o < p+2+l && o < len(b.data); o++ {
				if m == 0x52 && o == p+6 && tier != "thorough" {
					continue
				}
				for v := 0; v < 256; v += step {
					if int(b.data[o]) == v {
						continue
					}
					d := append([]byte(nil), b.data...)
					d[o] = byte(v)
					out = append(out, verifC08Case{base: fmt.Sprintf("%s with byte %d of the FF%02X segment", b.name, o-p, m), kind: "codbyte", off: o, val: v, data: d})
				}
			}
		}
	}
	return out
}

func verifC08J2KPixels(w, h, comps, bits int, seed int64) []byte {
	rng := rand.New(rand.NewSource(seed))
	bps := 1
	if bits > 8 {
		bps = 2
	}
	out := make([]byte, w*h*comps*bps)
	mask := (1 << uint(bits)) - 1
	for i := 0; i < w*h*comps; i++ {
		x, y := (i/comps)%w, (i/comps)/w
		v := (x*37 + y*11 + (i%comps)*5) & mask
		if (x/4+y/4)%3 == 0 {
			v = rng.Intn(mask+1) & mask
		} else if (x/4+y/4)%3 == 1 {
			v = mask / 3
		}
		if bps == 1 {
			out[i] = byte(v)
		} else {
			out[2*i], out[2*i+1] = byte(v), byte(v>>8)
		}
	}
	return out
}

func verifC08J2KDomain(tier string, nb int, extra string, layerFilter bool) string {
	lf := ""
	if layerFilter {
		lf = " inputs whose COD declares > 1024 layers (1-7 s each) are executed for base stream #1 and for the handcrafted specials only and otherwise sampled out;"
	}
	n, w, r := 300, 120, 400
	vals := "15 values {0,1,2,3,4,15,16,17,63,64,127,128,200,254,255}"
	if tier == "thorough" {
		n, w, r = 1500, 1500, 6000
		vals = "all 256 values"
	}
	return fmt.Sprintf("tier=%s seed=%d; %d valid codestreams (%s); each: unchanged, every truncation (streams > 4 KiB: first 1024 offsets then stride), byte substitution at first %d bytes x %s, 16-bit big-endian substitution {0,1,0x7fff,0x8000,0xffff} at first %d offsets, marker-segment drop/dup/swap/move-first (main header, SOT, first tile-part header); %d seeded random strings per start prefix (SOC; SOC+valid SIZ; valid header through first SOD); handcrafted SIZ field grids (32-bit extents incl. Xsiz<XOsiz and 2^32-1, tile sizes 0/1, Csiz, Ssiz/XRsiz/YRsiz) and all 256 values (quick tier of the decoder packages: every 3rd resp. 5th value) of every COD and QCD byte on selected streams;%s inputs whose independently parsed SIZ (any FF51 position) declares (Xsiz-XOsiz)*(Ysiz-YOsiz)*Csiz > 2^22 (wrapping int64) are skipped (quick tier of the decoder packages: generic mutations are capped at 2^18 declared samples, handcrafted cases at 2^22)",
		tier, verifC08Seed(), nb, extra, n, vals, w, r, lf)
}

// verifC08BudgetSpecials: short inputs that combine a large-but-admissible declared extent (S <= 2^22) with
// header fields that multiply the decoder's work (layer count, code-block size, tile size). They probe C09.
func verifC08BudgetSpecials(b verifC08Base, maxLayers int) []verifC08Case {
	var out []verifC08Case
	quick := verifC08Tier() != "thorough"
	ps, pc := verifC08FindSeg(b.data, 0x51), verifC08FindSeg(b.data, 0x52)
	if ps < 0 || pc < 0 {
		return nil
	}
	csiz := int(binary.BigEndian.Uint16(b.data[ps+38:]))
	exts := [][2]uint32{{64, 64}, {256, 256}, {1024, 1024}, {2048, 2048}, {1 << 22, 1}, {1, 1 << 22}, {1 << 20, 4}, {4, 1 << 20}}
	tiles := []uint32{0, 16, 1} // 0: one tile covering the image
	layerVals := []int{-1, 256, 4096, 0xffff}
	for ei, ext := range exts {
		if int64(ext[0])*int64(ext[1])*int64(csiz) > verifC08MaxS {
			continue
		}
		if quick && !((ext[0] == 2048 && ext[1] == 2048) || ext[0] == 1<<22 || (ext[0] == 64 && ext[1] == 64)) {
			continue // quick tier: 64x64, 2048x2048 and 4194304x1 only
		}
		for ti, tile := range tiles {
			if tile == 1 && ext[0] != ext[1] {
				continue
			}
			if quick && tile != 0 && ext[0] != 64 {
				continue
			}
			for li, layers := range layerVals {
				if layers > maxLayers || (layers > 4096 && ext[0] != ext[1]) {
					// strips with 65535 layers are borderline: 9-21 s measured on a loaded 16 core machine
					// (Xsiz=1048576,Ysiz=4 one tile, 195 byte input); left out to keep the verdict deterministic.
					continue
				}
				for ci, cb := range []int{-1, 0} { // -1: keep; 0: xcb=ycb=0 i.e. 4x4 code-blocks
					d := append([]byte(nil), b.data...)
					binary.BigEndian.PutUint32(d[ps+6:], ext[0])
					binary.BigEndian.PutUint32(d[ps+10:], ext[1])
					tx, ty := tile, tile
					if tile == 0 {
						tx, ty = ext[0], ext[1]
					}
					binary.BigEndian.PutUint32(d[ps+22:], tx)
					binary.BigEndian.PutUint32(d[ps+26:], ty)
					desc := fmt.Sprintf("Xsiz=%d,Ysiz=%d,XTsiz=%d,YTsiz=%d", ext[0], ext[1], tx, ty)
					if layers >= 0 {
						binary.BigEndian.PutUint16(d[pc+6:], uint16(layers))
						desc += fmt.Sprintf(",COD.layers=%d", layers)
					}
					if cb >= 0 {
						d[pc+10], d[pc+11] = byte(cb), byte(cb)
						desc += ",COD.xcb=ycb=0"
					}
					// off is a stable index of the grid point (independent of tier filters)
					out = append(out, verifC08Case{base: b.name + " with " + desc, kind: "special", off: ((ei*len(tiles)+ti)*len(layerVals)+li)*2 + ci, val: layers, data: d})
				}
			}
		}
	}
	return out
}

// verifC08ManyComponents rewrites the SIZ of b so that it declares csiz components (copies of component 0),
// a square extent ext (one tile) and the given layer count.
func verifC08ManyComponents(b verifC08Base, csiz int, ext uint32, layers int) (verifC08Case, bool) {
	ps := verifC08FindSeg(b.data, 0x51)
	if ps != 2 || ps+43 > len(b.data) {
		return verifC08Case{}, false
	}
	old := int(binary.BigEndian.Uint16(b.data[ps+38:]))
	d := append([]byte(nil), b.data[:ps+40]...)
	binary.BigEndian.PutUint16(d[ps+38:], uint16(csiz))
	binary.BigEndian.PutUint16(d[ps+2:], uint16(38+3*csiz))
	for i := 0; i < csiz; i++ {
		d = append(d, b.data[ps+40], 1, 1)
	}
	d = append(d, b.data[ps+40+3*old:]...)
	for _, o := range []int{6, 10, 22, 26} {
		binary.BigEndian.PutUint32(d[ps+o:], ext)
	}
	pc := verifC08FindSeg(d, 0x52)
	if pc < 0 {
		return verifC08Case{}, false
	}
	binary.BigEndian.PutUint16(d[pc+6:], uint16(layers))
	return verifC08Case{base: fmt.Sprintf("%s with Csiz=%d (consistent component table),Xsiz=Ysiz=XTsiz=YTsiz=%d,COD.layers=%d", b.name, csiz, ext, layers),
		kind: "special", off: csiz, val: layers, data: d}, true
}

const verifC08Pkg = "jpeg2000/htj2k"

// Two decoding entry points with different input domains live in this package:
//   - (*htj2k.Codec).Decode: a whole HTJ2K codestream (JPEG 2000 decoder object + HT block decoder factory);
//   - (*htj2k.HTDecoder).Decode / DecodeWithBitplane / DecodeLayered: one HT code-block byte string.
//
// verifC08Block selects the second one for the case that is currently enumerated.
type verifC08BlockCtx struct{ w, h, kmax, msbs int }

var verifC08Block *verifC08BlockCtx

func verifC08DeclaredHT(data []byte) (int64, bool, int64) {
	if verifC08Block != nil {
		return 0, false, 0 // a code-block declares no image size
	}
	return verifC08Declared(data)
}

func verifC08Info(w, h, comps, bits int) *imagetypes.FrameInfo {
	pi := "MONOCHROME2"
	if comps == 3 {
		pi = "RGB"
	}
	return &imagetypes.FrameInfo{Width: uint16(w), Height: uint16(h), BitsAllocated: uint16(bits), BitsStored: uint16(bits), HighBit: uint16(bits - 1),
		SamplesPerPixel: uint16(comps), PhotometricInterpretation: pi}
}

func verifC08Bases(t *testing.T) []verifC08Base {
	var out []verifC08Base
	type cfg struct {
		w, h, comps, bits int
		codec             string
		levels            int
	}
	cfgs := []cfg{
		{1, 1, 1, 8, "lossless", 0}, {8, 8, 1, 8, "lossless", 1}, {17, 5, 1, 16, "lossless", 2}, {17, 5, 3, 8, "lossless", 1},
		{8, 8, 3, 8, "lossy80", 2}, {17, 5, 1, 8, "losslessRPCL", 1}, {33, 20, 1, 16, "lossy50", 2}, {8, 8, 3, 16, "losslessRPCL", 0},
	}
	for _, c := range cfgs {
		c := c
		name := fmt.Sprintf("htj2k.Codec(%s).Encode %dx%d comps=%d bits=%d levels=%d block=64x64", c.codec, c.w, c.h, c.comps, c.bits, c.levels)
		func() {
			defer func() {
				if p := recover(); p != nil {
					t.Logf("encoder panicked for %s: %v", name, p)
				}
			}()
			var cd *Codec
			var params *Parameters
			switch c.codec {
			case "lossless":
				cd, params = NewLosslessCodec(), NewHTJ2KLosslessParameters()
			case "losslessRPCL":
				cd, params = NewLosslessRPCLCodec(), NewHTJ2KLosslessParameters()
			case "lossy80":
				cd, params = NewCodec(80), NewHTJ2KParameters().WithQuality(80)
			default:
				cd, params = NewCodec(50), NewHTJ2KParameters().WithQuality(50)
			}
			params = params.WithNumLevels(c.levels)
			info := verifC08Info(c.w, c.h, c.comps, c.bits)
			src, dst := codecHelpers.NewTestPixelData(info), codecHelpers.NewTestPixelData(info)
			_ = src.AddFrame(verifC08J2KPixels(c.w, c.h, c.comps, c.bits, 7))
			if err := cd.Encode(src, dst, params); err != nil {
				t.Logf("encoder refused %s: %v", name, err)
				return
			}
			d, _ := dst.GetFrame(0)
			chk := codecHelpers.NewTestPixelData(info)
			in := codecHelpers.NewTestPixelData(info)
			_ = in.AddFrame(d)
			if err := cd.Decode(in, chk, nil); err != nil {
				t.Logf("decoder rejects the encoder's own output for %s: %v", name, err)
			}
			out = append(out, verifC08Base{name: name, data: append([]byte(nil), d...)})
		}()
	}
	return out
}

// verifC08BlockBases: HT cleanup code-blocks from the package's own block encoder.
type verifC08BlockBase struct {
	ctx verifC08BlockCtx
	verifC08Base
}

func verifC08BlockBases(t *testing.T) []verifC08BlockBase {
	var out []verifC08BlockBase
	for _, g := range [][2]int{{1, 1}, {2, 2}, {4, 4}, {8, 8}, {17, 5}, {64, 64}, {3, 1}, {1, 7}} {
		for _, kmax := range []int{1, 8, 16, 24} {
			if kmax != 8 && g[0] != 8 {
				continue
			}
			w, h := g[0], g[1]
			rng := rand.New(rand.NewSource(int64(w*131 + h*7 + kmax)))
			coeffs := make([]int32, w*h)
			for i := range coeffs {
				lim := int32(1) << uint(kmax-1)
				if lim > 1<<20 {
					lim = 1 << 20
				}
				switch (i / 3) % 3 {
				case 0:
					coeffs[i] = rng.Int31n(lim) - lim/2
				case 1:
					coeffs[i] = 0
				default:
					coeffs[i] = int32(i%5) - 2
				}
			}
			name := fmt.Sprintf("HTEncoder(%dx%d,Kmax=%d).Encode", w, h, kmax)
			func() {
				defer func() {
					if p := recover(); p != nil {
						t.Logf("block encoder panicked for %s: %v", name, p)
					}
				}()
				enc := NewHTEncoder(w, h)
				enc.SetKMax(kmax)
				d, err := enc.Encode(coeffs, 1, 0)
				if err != nil {
					t.Logf("block encoder refused %s: %v", name, err)
					return
				}
				out = append(out, verifC08BlockBase{ctx: verifC08BlockCtx{w: w, h: h, kmax: kmax}, verifC08Base: verifC08Base{name: name, data: append([]byte(nil), d...)}})
			}()
		}
	}
	return out
}

func verifC08Decoders() []verifC08Decoder {
	codecDecode := func(cd *Codec, params *Parameters) func(d []byte) bool {
		return func(d []byte) bool {
			info := verifC08Info(0, 0, 1, 16)
			src, dst := codecHelpers.NewTestPixelData(info), codecHelpers.NewTestPixelData(info)
			_ = src.AddFrame(d)
			if params == nil {
				return cd.Decode(src, dst, nil) == nil
			}
			return cd.Decode(src, dst, params) == nil
		}
	}
	lossless, lossy := codecDecode(NewLosslessCodec(), nil), codecDecode(NewCodec(80), NewHTJ2KParameters())
	return []verifC08Decoder{
		{name: "(*htj2k.Codec).Decode[lossless codec, nil params] | HTDecoder.Decode", fn: func(d []byte) bool {
			if b := verifC08Block; b != nil {
				dec := NewHTDecoder(b.w, b.h)
				dec.SetCodingContext(b.kmax, b.msbs)
				_, err := dec.Decode(d, 1)
				_ = dec.GetData()
				return err == nil
			}
			return lossless(d)
		}},
		{name: "(*htj2k.Codec).Decode[lossy codec, typed params] | HTDecoder.DecodeWithBitplane+DecodeLayered", fn: func(d []byte) bool {
			if b := verifC08Block; b != nil {
				dec := NewHTDecoder(b.w, b.h)
				dec.SetCodingContext(b.kmax, b.msbs)
				err1 := dec.DecodeWithBitplane(d, 1, b.kmax-1, 0)
				dec.Reset()
				err2 := dec.DecodeLayered(d, []int{len(d)}, b.kmax-1, 0)
				return err1 == nil && err2 == nil
			}
			return lossy(d)
		}},
	}
}

// verifC08Excluded lists recipes (verifC08Case.key) that abort the whole test process (out of memory, or a
// decode that does not return within the watchdog limit); each one is a recorded violation and is not executed
// so that the remaining domain can run. Set VERIF_RUN_EXCLUDED=1 to execute them anyway.
var verifC08Excluded = map[string]verifC08Excl{}

func verifC08Setup(t *testing.T) (decs []verifC08Decoder, enumerate func(fn func(c *verifC08Case) bool), domain string) {
	verifC08QuickMaxS = 1 << 18
	bases := verifC08Bases(t)
	if len(bases) < 4 {
		t.Fatalf("too few base streams: %d", len(bases))
	}
	blocks := verifC08BlockBases(t)
	prefixes := []verifC08Base{{name: "prefix=SOC", data: []byte{0xFF, 0x4F}}}
	for _, i := range []int{1, 3} {
		prefixes = append(prefixes, verifC08Base{name: "prefix=header-through-SOD of " + bases[i].name, data: verifC08ThroughSOD(bases[i].data)})
	}
	tier, seed := verifC08Tier(), verifC08Seed()
	step := 1
	for i := range bases {
		bases[i].light = !(i == 0 || i == 1)
	}
	verifC08SecondaryOnOK = false // both tiers: the second codec runs on panicking and every 8th case only
	if tier != "thorough" {
		step = 5
		// one HT code-block costs ~0.7 ms in NewVLCDecoder.buildLookupTables, a valid 8x8x3 stream ~11 ms:
		// the quick tier substitutes bytes/words only in the two cheapest streams and truncates the others at every 4th offset
	}
	specials := append(verifC08SIZSpecials([]verifC08Base{bases[1]}), verifC08CODSpecials([]verifC08Base{bases[1]}, tier, step)...)
	for _, c := range verifC08BudgetSpecials(bases[1], 0xffff) {
		// near-limit, left out of the quick tier to keep the verdict deterministic: with 4x4 code-blocks a 230 byte
		// stream declaring 4194304x1 (2048x2048) samples needs 8.6 s (2.5 s) of CPU in HTDecoder set-up
		// (NewVLCDecoder.buildLookupTables once per code-block, 2^18 code-blocks).
		if tier != "thorough" && strings.Contains(c.base, "COD.xcb=ycb=0") && !strings.Contains(c.base, " with Xsiz=64,") {
			continue
		}
		specials = append(specials, c)
	}
	if tier == "thorough" {
		specials = append(specials, verifC08BudgetSpecials(bases[5], 256)...)
	}
	// CAP / other HT-specific main header segments: all 256 values of every byte
	for _, s := range verifC08Segments(bases[1].data) {
		m := bases[1].data[s[0]+1]
		if m == 0x51 || m == 0x52 || m == 0x5C || m == 0x64 {
			continue
		}
		for o := s[0] + 2; o < s[1]; o++ {
			for v := 0; v < 256; v += step {
				if int(bases[1].data[o]) == v {
					continue
				}
				d := append([]byte(nil), bases[1].data...)
				d[o] = byte(v)
				specials = append(specials, verifC08Case{base: fmt.Sprintf("%s with byte %d of the FF%02X segment at %d", bases[1].name, o-s[0], m, s[0]), kind: "segbyte", off: o, val: v, data: d})
			}
		}
	}
	enumerate = func(fn0 func(c *verifC08Case) bool) {
		stopped := false
		sampledOut := 0
		fn := verifC08QuickFilter(tier, bases, map[int]bool{1: true}, &sampledOut, fn0)
		defer func() {
			verifC08Block = nil
			if sampledOut > 0 {
				fmt.Printf("VERIF-C08-NOTE %d inputs with > 1024 declared layers sampled out\n", sampledOut)
			}
		}()
		wrap := func(c *verifC08Case) bool {
			if !fn(c) {
				stopped = true
				return false
			}
			return true
		}
		verifC08Block = nil
		verifC08Enumerate(bases, prefixes, verifC08Markers, verifC08Segments, tier, seed, wrap)
		for i := range specials {
			if stopped || !fn(&specials[i]) {
				return
			}
		}
		// ---- code-block level domain ----
		for bi := range blocks {
			b := &blocks[bi]
			for _, msbs := range []int{0, 1, b.ctx.kmax - 1, b.ctx.kmax, 29, 30, -1} {
				if msbs != 0 && (bi%4 != 0 || len(b.data) > 256) {
					continue
				}
				ctx := b.ctx
				ctx.msbs = msbs
				verifC08Block = &ctx
				nb := b.verifC08Base
				nb.light = tier == "thorough" && len(nb.data) > 256 // 64x64 blocks: 15 substitution values also in the thorough tier
				nb.name = fmt.Sprintf("code-block %s decoded as %dx%d Kmax=%d missingMSBs=%d", b.name, ctx.w, ctx.h, ctx.kmax, ctx.msbs)
				pre := []verifC08Base{{name: "code-block prefix=none (pure random) decoded as " + nb.name}}
				if len(nb.data) > 64 && tier != "thorough" {
					pre = nil
				}
				verifC08Enumerate([]verifC08Base{nb}, pre, nil, nil, tier, seed+int64(bi), wrap)
				if stopped {
					return
				}
				// every 1-byte and a grid of 2-byte code-blocks, and every value of the two Scup locator bytes
				if msbs == 0 {
					for v := 0; v < 256; v++ {
						if !wrap(&verifC08Case{base: nb.name, kind: "cblk1", off: 0, val: v, data: []byte{byte(v)}}) {
							return
						}
					}
					for v := 0; v < 65536; v += 257 {
						if !wrap(&verifC08Case{base: nb.name, kind: "cblk2", off: 0, val: v, data: []byte{byte(v >> 8), byte(v)}}) {
							return
						}
					}
					if n := len(nb.data); n >= 2 {
						for v := 0; v < 65536; v += 61 {
							d := append([]byte(nil), nb.data...)
							d[n-2], d[n-1] = byte(v>>8), byte(v)
							if !wrap(&verifC08Case{base: nb.name, kind: "scup", off: n - 2, val: v, data: d}) {
								return
							}
						}
					}
				}
				// decoding a valid block with mismatching block dimensions
				if msbs == 0 {
					for _, dim := range [][2]int{{0, 0}, {1, 1}, {2, 1}, {3, 3}, {4, 4}, {64, 64}, {1024, 1}, {1, 1024}, {5, 17}} {
						c2 := ctx
						c2.w, c2.h = dim[0], dim[1]
						verifC08Block = &c2
						if !wrap(&verifC08Case{base: fmt.Sprintf("code-block %s decoded as %dx%d Kmax=%d missingMSBs=0", b.name, c2.w, c2.h, c2.kmax), kind: "cblkdim", off: dim[0], val: dim[1], data: append([]byte(nil), nb.data...)}) {
							return
						}
					}
					for _, k := range []int{0, -1, 1, 2, 30, 31, 32, 33, 64} {
						c2 := ctx
						c2.kmax = k
						verifC08Block = &c2
						if !wrap(&verifC08Case{base: fmt.Sprintf("code-block %s decoded as %dx%d Kmax=%d missingMSBs=0", b.name, c2.w, c2.h, c2.kmax), kind: "cblkkmax", off: k, data: append([]byte(nil), nb.data...)}) {
							return
						}
					}
				}
			}
		}
		verifC08Block = nil
	}
	domain = verifC08J2KDomain(tier, len(bases), "htj2k codecs (lossless, lossless RPCL, lossy q80/q50) Encode: 1x1, 8x8, 17x5, 33x20; 1 and 3 components; 8/16 bit; 0-2 levels; quick tier: byte/word substitution only in streams #0,#1, every 4th truncation point for the others", true) +
		fmt.Sprintf("; plus all 256 values (quick: every 5th) of every byte of the remaining main header segments (CAP, ...) of stream #1; plus the HT code-block domain: %d blocks from HTEncoder (1x1..64x64, Kmax 1/8/16/24) decoded by HTDecoder.Decode/DecodeWithBitplane/DecodeLayered under missingMSBs {0,1,Kmax-1,Kmax,29,30,-1}: every truncation, byte/word substitution, random strings, all 256 one-byte blocks, every 257th two-byte block, every 61st value of the 16-bit Scup locator, mismatching block dimensions and Kmax {0,-1,1,2,30..33,64}", len(blocks))
	return verifC08Decoders(), enumerate, domain
}

func TestVerif_C08_htj2k(t *testing.T) {
	decs, enumerate, domain := verifC08Setup(t)
	verifC08RunC08(t, verifC08Pkg, decs, verifC08DeclaredHT, verifC08Excluded, enumerate,
		"C08 no-panic, entries (*htj2k.Codec).Decode with lossless codec/nil params (all cases) and lossy codec/typed params (panicking and every 8th case), and the HT block decoder object; "+domain)
}

func TestVerif_C09_htj2k(t *testing.T) {
	decs, enumerate, domain := verifC08Setup(t)
	every := 8
	if verifC08Tier() == "thorough" {
		every = 3
	}
	verifC08RunC09(t, verifC08Pkg, decs, verifC08DeclaredHT, verifC08Excluded, enumerate, every,
		fmt.Sprintf("C09 per decode: time <= 10 s (min of wall time and process CPU time of the call, to discount contention on a shared machine; hard stop at 60 s wall) and TotalAlloc delta (upper bound proxy for peak heap; an exceedance counts only if a 0.5 ms heap sampling re-run confirms it) <= 512MiB+64*S, S = (Xsiz-XOsiz)*(Ysiz-YOsiz)*Csiz of the first SIZ (0 for code-blocks / if none / if negative); sample = every case whose declared S differs from its base stream + handcrafted SIZ specials + every %d-th case of: ", every)+domain)
}
