package htj2k

// Bounded stand-in for C06:
// "Encoding any 8- or 16-bit-allocated frame through the HTJ2K Lossless and HTJ2K Lossless RPCL
// transfer syntaxes and decoding it again returns the source bytes exactly, for every image size
// (including 1-pixel-wide or -high images), sample content, component count 1 or 3, code-block size
// and decomposition depth. The same decoder reconstructs exactly the raw images from which the
// bundled OpenJPH/fo-dicom lossless codestreams were made."
//
// Frame cases build an imagetypes.PixelData (codec test helper) holding one native frame, call
// Codec.Encode / Codec.Decode on the codec objects NewLosslessCodec() / NewLosslessRPCLCodec()
// (fetched from the global registry where possible) and compare every byte.  Samples occupy the low
// BitsStored bits of an 8-bit or 16-bit little-endian container; signed samples are BitsStored-bit
// two's complement, either with zero unused high bits or sign-extended to the container (both are
// "source bytes" a DICOM producer may hand over).  Mode "lowlevel" bypasses the PixelData plumbing
// and drives jpeg2000.Encoder{HTJ2KMode,BlockEncoderFactory=NewHTEncoder} and jpeg2000.Decoder with
// SetBlockDecoderFactory(NewHTDecoder) configured exactly as Codec.Encode does, additionally
// checking the decoder's reported geometry.  A block-level test drives HTEncoder/HTDecoder directly.

import (
	"bytes"
	"encoding/json"
	"fmt"
	"math/rand"
	"os"
	"path/filepath"
	"strconv"
	"strings"
	"testing"
	"time"

	codecHelpers "github.com/cocosip/go-dicom-codecs/codec"
	"github.com/cocosip/go-dicom-codecs/jpeg2000"
	"github.com/cocosip/go-dicom-codecs/jpeg2000/t2"
	"github.com/cocosip/go-dicom/pkg/dicom/transfer"
	"github.com/cocosip/go-dicom/pkg/imaging/codec"
	"github.com/cocosip/go-dicom/pkg/imaging/imagetypes"
)

func verifC06Thorough() bool { return os.Getenv("VERIF_TIER") == "thorough" }

func verifC06Seed() int64 {
	if s := os.Getenv("VERIF_SEED"); s != "" {
		if v, err := strconv.ParseInt(s, 10, 64); err == nil {
			return v
		}
	}
	return 20260923
}

// ---------------------------------------------------------------------------------------------
// report

type verifC06Report struct {
	name, domain string
	cases, fails int
	nKind        map[string]int
	first        map[string]string
	order        []string
	start        time.Time
}

func verifC06NewReport(name, domain string) *verifC06Report {
	return &verifC06Report{name: name, domain: domain, nKind: map[string]int{}, first: map[string]string{}, start: time.Now()}
}

func (r *verifC06Report) record(kind, desc string) {
	r.cases++
	if kind == "" {
		return
	}
	r.fails++
	if r.nKind[kind] == 0 {
		r.order = append(r.order, kind)
		r.first[kind] = desc
	}
	r.nKind[kind]++
}

func (r *verifC06Report) finish(t *testing.T) {
	fmt.Printf("BOUNDED name=%s cases=%d fails=%d domain=%q\n", r.name, r.cases, r.fails, r.domain)
	for i, k := range r.order {
		if i >= 5 {
			break
		}
		fmt.Printf("BOUNDED-FAIL name=%s kind=%s count=%d first: %s\n", r.name, k, r.nKind[k], r.first[k])
	}
	if r.fails > 0 {
		t.Fail()
	}
}

// ---------------------------------------------------------------------------------------------
// frame cases

type verifC06Case struct {
	RPCL       bool
	W, H       int
	BA, BS     int
	SPP, PR    int
	SignExt    bool   // signed samples sign-extended into the unused high bits
	Mode       string // nil | default | typed | generic | lowlevel
	BW, BH, NL int    // used by typed/generic/lowlevel
	Fill       string
	Seed       int64
}

func (c verifC06Case) String() string {
	ts := "201"
	if c.RPCL {
		ts = "202"
	}
	se := 0
	if c.SignExt {
		se = 1
	}
	s := fmt.Sprintf("ts=.4.%s w=%d h=%d bitsAllocated=%d bitsStored=%d spp=%d pixelRepr=%d signExt=%d params=%s", ts, c.W, c.H, c.BA, c.BS, c.SPP, c.PR, se, c.Mode)
	if c.Mode == "typed" || c.Mode == "generic" || c.Mode == "lowlevel" {
		s += fmt.Sprintf(" blockWidth=%d blockHeight=%d numLevels=%d", c.BW, c.BH, c.NL)
	}
	return s + fmt.Sprintf(" fill=%s seed=%d", c.Fill, c.Seed)
}

var verifC06Fills = []string{"noise", "zero", "extremes", "max", "min", "rampx", "rampy", "single", "checker", "lowbits", "const"}

// verifC06Frame builds the native frame of the case (interleaved samples).
func verifC06Frame(c verifC06Case) []byte {
	rng := rand.New(rand.NewSource(c.Seed))
	mask := uint32(1)<<uint(c.BS) - 1
	lo, hi := uint32(0), mask // bit patterns of the smallest / largest sample value
	if c.PR == 1 {
		lo, hi = uint32(1)<<uint(c.BS-1), mask>>1
	}
	n := c.W * c.H * c.SPP
	vals := make([]uint32, n)
	cv := rng.Uint32() & mask
	single := rng.Intn(n)
	singleV := rng.Uint32() & mask
	if singleV == 0 || rng.Intn(3) == 0 {
		singleV = []uint32{hi, lo, 1, mask}[rng.Intn(4)]
		if singleV == 0 {
			singleV = 1
		}
	}
	for i := range vals {
		pix := i / c.SPP
		comp := i % c.SPP
		x, y := pix%c.W, pix/c.W
		switch c.Fill {
		case "zero":
			vals[i] = 0
		case "extremes":
			vals[i] = []uint32{lo, hi}[rng.Intn(2)]
		case "max":
			vals[i] = hi
		case "min":
			vals[i] = lo
		case "rampx":
			vals[i] = uint32(x*7+comp*31) & mask
		case "rampy":
			vals[i] = uint32(y*(int(mask)/(c.H+1)+1)+comp) & mask
		case "single":
			if i == single {
				vals[i] = singleV
			}
		case "checker":
			if (x+y+comp)&1 == 0 {
				vals[i] = lo
			} else {
				vals[i] = hi
			}
		case "lowbits":
			vals[i] = rng.Uint32() & 3 & mask
		case "const":
			vals[i] = cv
		default:
			vals[i] = rng.Uint32() & mask
		}
	}
	if c.PR == 1 && c.SignExt {
		full := uint32(1)<<uint(c.BA) - 1
		for i, v := range vals {
			if v&(1<<uint(c.BS-1)) != 0 {
				vals[i] = (v | ^mask) & full
			}
		}
	}
	if c.BA == 8 {
		b := make([]byte, n)
		for i, v := range vals {
			b[i] = byte(v)
		}
		return b
	}
	b := make([]byte, 2*n)
	for i, v := range vals {
		b[2*i] = byte(v)
		b[2*i+1] = byte(v >> 8)
	}
	return b
}

func verifC06Codec(rpcl bool) codec.Codec {
	ts := transfer.HTJ2KLossless
	if rpcl {
		ts = transfer.HTJ2KLosslessRPCL
	}
	if cd, ok := codec.GetGlobalRegistry().GetCodec(ts); ok {
		if hc, ok := cd.(*Codec); ok && hc.lossless {
			return cd
		}
	}
	// another package's init may have replaced the registration; fall back to the constructor
	if rpcl {
		return NewLosslessRPCLCodec()
	}
	return NewLosslessCodec()
}

func verifC06Diff(c verifC06Case, got, want []byte) string {
	bad, first := 0, -1
	for i := 0; i < len(got) && i < len(want); i++ {
		if got[i] != want[i] {
			if first < 0 {
				first = i
			}
			bad++
		}
	}
	d := fmt.Sprintf("%s got_len=%d want_len=%d bad_bytes=%d", c, len(got), len(want), bad)
	if first >= 0 {
		bps := c.BA / 8
		s := first / bps
		pix := s / c.SPP
		d += fmt.Sprintf(" first_bad_byte=%d (x=%d y=%d comp=%d) want=0x%02x got=0x%02x", first, pix%c.W, pix/c.W, s%c.SPP, want[first], got[first])
	}
	return d
}

// verifC06RoundTrip returns kind=="" on success.
func verifC06RoundTrip(c verifC06Case) (kind, detail string) {
	defer func() {
		if r := recover(); r != nil {
			kind = "panic"
			detail = fmt.Sprintf("%s panic=%q", c, strings.ReplaceAll(fmt.Sprint(r), "\n", " "))
		}
	}()
	frame := verifC06Frame(c)
	if c.Mode == "lowlevel" {
		return verifC06LowLevel(c, frame)
	}
	cd := verifC06Codec(c.RPCL)
	photometric := "MONOCHROME2"
	if c.SPP == 3 {
		photometric = "RGB"
	}
	newInfo := func() *imagetypes.FrameInfo {
		return &imagetypes.FrameInfo{
			Width: uint16(c.W), Height: uint16(c.H),
			BitsAllocated: uint16(c.BA), BitsStored: uint16(c.BS), HighBit: uint16(c.BS - 1),
			SamplesPerPixel: uint16(c.SPP), PixelRepresentation: uint16(c.PR),
			PlanarConfiguration: 0, PhotometricInterpretation: photometric,
		}
	}
	var params codec.Parameters
	switch c.Mode {
	case "nil":
	case "default":
		params = cd.GetDefaultParameters()
	case "typed":
		p := NewHTJ2KLosslessParameters()
		p.BlockWidth, p.BlockHeight, p.NumLevels = c.BW, c.BH, c.NL
		params = p
	default: // generic
		p := codec.NewBaseParameters()
		p.SetParameter("blockWidth", c.BW)
		p.SetParameter("blockHeight", c.BH)
		p.SetParameter("numLevels", c.NL)
		params = p
	}
	src := codecHelpers.NewTestPixelData(newInfo())
	_ = src.AddFrame(append([]byte(nil), frame...))
	enc := codecHelpers.NewTestPixelData(newInfo())
	if err := cd.Encode(src, enc, params); err != nil {
		return "encode-error", fmt.Sprintf("%s err=%q", c, err.Error())
	}
	if enc.FrameCount() != 1 {
		return "frame-count", fmt.Sprintf("%s encoded_frames=%d", c, enc.FrameCount())
	}
	dec := codecHelpers.NewTestPixelData(newInfo())
	if err := cd.Decode(enc, dec, nil); err != nil {
		return "decode-error", fmt.Sprintf("%s err=%q", c, err.Error())
	}
	if dec.FrameCount() != 1 {
		return "frame-count", fmt.Sprintf("%s decoded_frames=%d", c, dec.FrameCount())
	}
	got, _ := dec.GetFrame(0)
	if !bytes.Equal(got, frame) {
		return "bytes-mismatch", verifC06Diff(c, got, frame)
	}
	return "", ""
}

// verifC06LowLevel mirrors Codec.Encode's configuration on the jpeg2000 encoder/decoder pair.
func verifC06LowLevel(c verifC06Case, frame []byte) (kind, detail string) {
	ep := jpeg2000.DefaultEncodeParams(c.W, c.H, c.SPP, c.BA, c.PR != 0)
	nl := c.NL
	if m := calculateMaxLevels(c.W, c.H); nl > m {
		nl = m
	}
	ep.NumLevels = nl
	ep.CodeBlockWidth, ep.CodeBlockHeight = c.BW, c.BH
	ep.ProgressionOrder = 2
	ep.HTJ2KMode = true
	ep.Lossless = true
	ep.BlockEncoderFactory = func(w, h int) jpeg2000.BlockEncoder { return NewHTEncoder(w, h) }
	cs, err := jpeg2000.NewEncoder(ep).Encode(append([]byte(nil), frame...))
	if err != nil {
		return "encode-error", fmt.Sprintf("%s err=%q", c, err.Error())
	}
	d := jpeg2000.NewDecoder()
	d.SetBlockDecoderFactory(func(w, h int, _ int) t2.BlockDecoder { return NewHTDecoder(w, h) })
	if err := d.Decode(cs); err != nil {
		return "decode-error", fmt.Sprintf("%s err=%q", c, err.Error())
	}
	if d.Width() != c.W || d.Height() != c.H || d.Components() != c.SPP || d.BitDepth() != c.BA || d.IsSigned() != (c.PR != 0) {
		return "geometry", fmt.Sprintf("%s decoded w=%d h=%d comps=%d depth=%d signed=%v", c, d.Width(), d.Height(), d.Components(), d.BitDepth(), d.IsSigned())
	}
	got := d.GetPixelData()
	if !bytes.Equal(got, frame) {
		return "bytes-mismatch", verifC06Diff(c, got, frame)
	}
	return "", ""
}

// verifC06Shrink greedily simplifies a failing case keeping the failure kind.
func verifC06Shrink(c verifC06Case, kind string) verifC06Case {
	deadline := time.Now().Add(1500 * time.Millisecond)
	fails := func(x verifC06Case) bool {
		if time.Now().After(deadline) {
			return false
		}
		k, _ := verifC06RoundTrip(x)
		return verifC06Kind(x, k) == kind
	}
	for budget := 0; budget < 60; budget++ {
		changed := false
		mut := func(f func(x *verifC06Case)) {
			cand := c
			f(&cand)
			if cand == c || cand.W < 1 || cand.H < 1 || cand.NL < 0 || cand.BW < 4 || cand.BH < 4 || cand.BS < 1 || cand.BS > cand.BA {
				return
			}
			if fails(cand) {
				c = cand
				changed = true
			}
		}
		mut(func(x *verifC06Case) { x.RPCL = false })
		mut(func(x *verifC06Case) { x.SPP = 1 })
		mut(func(x *verifC06Case) { x.SignExt = false })
		mut(func(x *verifC06Case) { x.PR = 0; x.SignExt = false })
		mut(func(x *verifC06Case) { x.BA, x.BS = 8, 8 })
		mut(func(x *verifC06Case) { x.BS = x.BA })
		if c.Mode != "nil" && c.Mode != "default" {
			mut(func(x *verifC06Case) { x.Mode = "typed" })
			mut(func(x *verifC06Case) { x.NL = 0 })
			mut(func(x *verifC06Case) { x.NL-- })
			mut(func(x *verifC06Case) { x.BW = 64 })
			mut(func(x *verifC06Case) { x.BH = 64 })
		}
		for _, f := range []string{"zero", "single", "const", "rampx"} {
			f := f
			if c.Fill != "zero" && c.Fill != f {
				mut(func(x *verifC06Case) { x.Fill = f })
			}
		}
		mut(func(x *verifC06Case) { x.W = 1 })
		mut(func(x *verifC06Case) { x.H = 1 })
		mut(func(x *verifC06Case) { x.W = (x.W + 1) / 2 })
		mut(func(x *verifC06Case) { x.H = (x.H + 1) / 2 })
		mut(func(x *verifC06Case) { x.W-- })
		mut(func(x *verifC06Case) { x.H-- })
		if !changed {
			break
		}
	}
	return c
}

// verifC06Kind labels a failure with a coarse region (never changes pass/fail): the number of
// decomposition levels the codec really uses (requested levels clamped by calculateMaxLevels) and
// whether the frame contains the most negative level-shifted value -2^(BitsAllocated-1) (unsigned
// sample 0 / signed sample bit pattern 100..0 at full container width).
func verifC06Kind(c verifC06Case, kind string) string {
	if kind == "" {
		return ""
	}
	nl := c.NL
	if c.Mode == "nil" || c.Mode == "default" {
		nl = 5
	}
	if m := calculateMaxLevels(c.W, c.H); nl > m {
		nl = m
	}
	if nl == 0 {
		kind += "/effectiveLevels=0"
	} else {
		kind += "/effectiveLevels>0"
	}
	frame := verifC06Frame(c)
	hasMin := false
	if c.BA == 8 {
		for _, b := range frame {
			if (c.PR == 0 && b == 0) || (c.PR == 1 && b == 0x80) {
				hasMin = true
			}
		}
	} else {
		for i := 0; i+1 < len(frame); i += 2 {
			v := uint16(frame[i]) | uint16(frame[i+1])<<8
			if (c.PR == 0 && v == 0) || (c.PR == 1 && v == 0x8000) {
				hasMin = true
			}
		}
	}
	if hasMin {
		kind += "/hasMinValue"
	} else {
		kind += "/noMinValue"
	}
	return kind
}

func verifC06Run(r *verifC06Report, c verifC06Case) {
	kind, detail := verifC06RoundTrip(c)
	kind = verifC06Kind(c, kind)
	if kind != "" && r.nKind[kind] == 0 {
		min := verifC06Shrink(c, kind)
		_, d2 := verifC06RoundTrip(min)
		detail += " shrunk=[" + d2 + "]"
	}
	r.record(kind, detail)
}

type verifC06Img struct {
	ba, bs, spp, pr int
	se              bool
}

// image formats cycled through by the geometry tests (BitsStored <= BitsAllocated, signed/unsigned,
// sign-extended or not, 1 or 3 samples per pixel).
var verifC06Imgs = []verifC06Img{
	{8, 8, 1, 0, false}, {16, 16, 1, 0, false}, {16, 16, 1, 1, false}, {8, 8, 3, 0, false},
	{16, 12, 1, 0, false}, {16, 12, 1, 1, true}, {8, 8, 1, 1, false}, {16, 16, 3, 0, false},
	{16, 12, 1, 1, false}, {16, 10, 3, 0, false}, {8, 6, 1, 0, false}, {16, 15, 1, 1, true},
	{8, 7, 3, 1, true}, {16, 9, 1, 0, false}, {8, 1, 1, 0, false}, {16, 16, 3, 1, false},
}

func verifC06Apply(c *verifC06Case, im verifC06Img) {
	c.BA, c.BS, c.SPP, c.PR, c.SignExt = im.ba, im.bs, im.spp, im.pr, im.se
}

// TestVerif_C06_SizeGrid: default parameters (nil / GetDefaultParameters(), 64x64 blocks, 5 levels
// clamped by the codec for small images), both transfer syntaxes, a grid of sizes 1..80 in both
// directions; image formats and fills are cycled deterministically.
func TestVerif_C06_SizeGrid(t *testing.T) {
	other := []int{1, 2, 3, 4, 5, 8, 9, 17, 40}
	if verifC06Thorough() {
		other = nil
		for v := 1; v <= 80; v++ {
			other = append(other, v)
		}
	}
	r := verifC06NewReport("TestVerif_C06_SizeGrid", fmt.Sprintf(
		"Codec.Encode+Decode via NewLosslessCodec/NewLosslessRPCLCodec (alternating), params nil/default alternating; (w,h) in {1..80}x%v united with its transpose; %d image formats (BA 8/16, BS<=BA, spp 1/3, signed/unsigned, sign-extended or zero high bits) and %d fills cycled; seed=%d",
		other, len(verifC06Imgs), len(verifC06Fills), verifC06Seed()))
	seen := map[[2]int]bool{}
	i := 0
	run := func(w, h int) {
		if seen[[2]int{w, h}] {
			return
		}
		seen[[2]int{w, h}] = true
		c := verifC06Case{RPCL: i&1 == 1, W: w, H: h, Mode: []string{"nil", "default"}[(i>>1)&1], BW: 64, BH: 64, NL: 5,
			Fill: verifC06Fills[(i/3)%len(verifC06Fills)], Seed: verifC06Seed() + int64(i)}
		if (i/3)%len(verifC06Fills) >= 6 && i%2 == 0 {
			c.Fill = "noise"
		}
		verifC06Apply(&c, verifC06Imgs[i%len(verifC06Imgs)])
		verifC06Run(r, c)
		i++
	}
	for a := 1; a <= 80; a++ {
		for _, b := range other {
			run(a, b)
			run(b, a)
		}
	}
	r.finish(t)
}

// TestVerif_C06_ParameterGrid: every (BlockWidth, BlockHeight) in {4,8,16,32,64}^2 and every NumLevels
// 0..6 through typed / generic / lowlevel parameter paths, with sizes chosen around multiples of the
// block size (so that partial blocks of 1..3 samples and single-row/column sub-bands occur) plus
// tiny images.
func TestVerif_C06_ParameterGrid(t *testing.T) {
	rng := rand.New(rand.NewSource(verifC06Seed() ^ 0xC06))
	blocks := []int{4, 8, 16, 32, 64}
	perCombo, maxSize := 3, 100
	if verifC06Thorough() {
		perCombo, maxSize = 25, 260
	}
	r := verifC06NewReport("TestVerif_C06_ParameterGrid", fmt.Sprintf(
		"all BlockWidth x BlockHeight in {4,8,16,32,64}^2 x NumLevels 0..6 (175 combos) x %d sizes each drawn from {1,2,3,5, k*B-1,k*B,k*B+1,k*B+2,k*B+3 (B=block dim, k=1..3), (B<<L)+-1} capped at %d; modes typed/generic/lowlevel cycled, both syntaxes, %d formats and %d fills cycled; seed=%d",
		perCombo, maxSize, len(verifC06Imgs), len(verifC06Fills), verifC06Seed()))
	pick := func(b, l int) int {
		cands := []int{1, 2, 3, 5}
		for k := 1; k <= 3; k++ {
			for d := -1; d <= 3; d++ {
				cands = append(cands, k*b+d)
			}
		}
		cands = append(cands, (b<<uint(l))-1, (b<<uint(l))+1, (b << uint(l)), 2*(b<<uint(l))+1)
		v := cands[rng.Intn(len(cands))]
		for v > maxSize {
			v = v/2 + 1
		}
		if v < 1 {
			v = 1
		}
		return v
	}
	i := 0
	for _, bw := range blocks {
		for _, bh := range blocks {
			for nl := 0; nl <= 6; nl++ {
				for k := 0; k < perCombo; k++ {
					c := verifC06Case{RPCL: i&1 == 1, W: pick(bw, nl), H: pick(bh, nl), Mode: []string{"typed", "generic", "lowlevel"}[i%3],
						BW: bw, BH: bh, NL: nl, Fill: verifC06Fills[rng.Intn(len(verifC06Fills))], Seed: verifC06Seed() + int64(i)}
					if k%2 == 0 {
						c.Fill = "noise"
					}
					verifC06Apply(&c, verifC06Imgs[rng.Intn(len(verifC06Imgs))])
					verifC06Run(r, c)
					i++
				}
			}
		}
	}
	r.finish(t)
}

// TestVerif_C06_TinyExhaustive: every size 1..11 x 1..11 (1..20 thorough) with 4x4 blocks (the smallest the codec
// accepts) and every NumLevels 0..6, noise, single-sample and extreme content: all partial-block shapes
// 1x1..3x3 next to full blocks and all odd/even sub-band splits.
func TestVerif_C06_TinyExhaustive(t *testing.T) {
	maxDim := 11
	levels := []int{0, 1, 2, 6}
	if verifC06Thorough() {
		maxDim = 20
		levels = []int{0, 1, 2, 3, 4, 5, 6}
	}
	r := verifC06NewReport("TestVerif_C06_TinyExhaustive", fmt.Sprintf(
		"all (w,h) in 1..%d x 1..%d, BlockWidth=BlockHeight=4 typed parameters, NumLevels in %v, fills noise/single/extremes cycled, formats cycled, both syntaxes alternating; seed=%d",
		maxDim, maxDim, levels, verifC06Seed()))
	i := 0
	for w := 1; w <= maxDim; w++ {
		for h := 1; h <= maxDim; h++ {
			for li, nl := range levels {
				c := verifC06Case{RPCL: i&1 == 1, W: w, H: h, Mode: "typed", BW: 4, BH: 4, NL: nl,
					Fill: []string{"noise", "single", "extremes"}[(li+w+h)%3], Seed: verifC06Seed() + int64(i)}
				verifC06Apply(&c, verifC06Imgs[i%len(verifC06Imgs)])
				verifC06Run(r, c)
				i++
			}
		}
	}
	r.finish(t)
}

// TestVerif_C06_Contents: every fill x every image format x a few geometries x both syntaxes,
// default parameters and one small-block setting.
func TestVerif_C06_Contents(t *testing.T) {
	sizes := [][2]int{{1, 1}, {1, 37}, {41, 1}, {3, 3}, {17, 13}, {24, 21}}
	if verifC06Thorough() {
		sizes = append(sizes, [2]int{2, 2}, [2]int{33, 35}, [2]int{64, 64}, [2]int{65, 67}, [2]int{128, 129}, [2]int{200, 3}, [2]int{5, 300}, [2]int{255, 257})
	}
	r := verifC06NewReport("TestVerif_C06_Contents", fmt.Sprintf(
		"fills %v x %d image formats x sizes %v x {ts .201 default params, ts .202 typed 8x16 blocks 3 levels}; seed=%d",
		verifC06Fills, len(verifC06Imgs), sizes, verifC06Seed()))
	i := 0
	for _, f := range verifC06Fills {
		for _, im := range verifC06Imgs {
			for _, sz := range sizes {
				for v := 0; v < 2; v++ {
					c := verifC06Case{RPCL: v == 1, W: sz[0], H: sz[1], Mode: "default", BW: 64, BH: 64, NL: 5, Fill: f, Seed: verifC06Seed() + int64(i)}
					if v == 1 {
						c.Mode, c.BW, c.BH, c.NL = "typed", 8, 16, 3
					}
					verifC06Apply(&c, im)
					verifC06Run(r, c)
					i++
				}
			}
		}
	}
	r.finish(t)
}

// TestVerif_C06_RandomSample: everything random (sizes up to 160 in quick, 600 in thorough).
func TestVerif_C06_RandomSample(t *testing.T) {
	rng := rand.New(rand.NewSource(verifC06Seed() ^ 0x5A5A))
	n, maxDim, budget := 200, 160, 8*time.Second
	if verifC06Thorough() {
		n, maxDim, budget = 3000, 600, 150*time.Second
	}
	start := time.Now()
	r := verifC06NewReport("TestVerif_C06_RandomSample", "")
	blocks := []int{4, 8, 16, 32, 64}
	modes := []string{"nil", "default", "typed", "generic", "lowlevel"}
	for i := 0; i < n && time.Since(start) < budget; i++ {
		dim := func() int {
			switch rng.Intn(4) {
			case 0:
				return 1 + rng.Intn(8)
			case 1:
				return 1 + rng.Intn(maxDim)
			default:
				return 1 + rng.Intn(80)
			}
		}
		c := verifC06Case{RPCL: rng.Intn(2) == 1, W: dim(), H: dim(), Mode: modes[rng.Intn(len(modes))],
			BW: blocks[rng.Intn(5)], BH: blocks[rng.Intn(5)], NL: rng.Intn(7), Fill: verifC06Fills[rng.Intn(len(verifC06Fills))], Seed: rng.Int63()}
		if rng.Intn(2) == 0 {
			c.Fill = "noise"
		}
		c.BA = []int{8, 16}[rng.Intn(2)]
		c.BS = 1 + rng.Intn(c.BA)
		if rng.Intn(2) == 0 {
			c.BS = c.BA
		}
		c.SPP = []int{1, 3}[rng.Intn(2)]
		c.PR = rng.Intn(2)
		c.SignExt = c.PR == 1 && rng.Intn(2) == 1
		verifC06Run(r, c)
	}
	r.domain = fmt.Sprintf("%d seeded random cases (time budget %v): w,h in 1..%d (mixture of 1..8, 1..80, 1..%d), BA {8,16}, BS 1..BA (half BS=BA), spp {1,3}, signed/unsigned, sign-ext or not, mode {nil,default,typed,generic,lowlevel}, blocks {4..64}^2, NumLevels 0..6, fills %v (half noise), both syntaxes; seed=%d",
		r.cases, budget, maxDim, maxDim, verifC06Fills, verifC06Seed())
	r.finish(t)
}

// TestVerif_C06_FixtureSize: the 888x459 fixture geometry (and its transpose) with synthetic
// content through both syntaxes.
func TestVerif_C06_FixtureSize(t *testing.T) {
	r := verifC06NewReport("TestVerif_C06_FixtureSize", "888x459 and 459x888, 16-bit unsigned/signed mono and 8-bit RGB, noise and rampx, default params, both syntaxes")
	i := 0
	for _, sz := range [][2]int{{888, 459}, {459, 888}} {
		for _, im := range []verifC06Img{{16, 16, 1, 0, false}, {16, 16, 1, 1, false}, {8, 8, 3, 0, false}} {
			if !verifC06Thorough() && sz[0] == 459 && im.spp == 3 {
				continue
			}
			c := verifC06Case{RPCL: i&1 == 1, W: sz[0], H: sz[1], Mode: "default", BW: 64, BH: 64, NL: 5, Fill: []string{"noise", "rampx"}[i%2], Seed: verifC06Seed() + int64(i)}
			verifC06Apply(&c, im)
			verifC06Run(r, c)
			i++
		}
	}
	r.finish(t)
}

// ---------------------------------------------------------------------------------------------
// block coder

// verifC06BlockTrip encodes one code-block with HTEncoder and decodes it with HTDecoder the way the
// JPEG 2000 pipeline does (SetKMax(kmax); SetCodingContext(kmax, kmax-1); an empty code-block means
// "not included" and leaves the decoder's zero-initialised data).
func verifC06BlockTrip(w, h, kmax int, coeffs []int32) (kind, detail string) {
	desc := func() string { return fmt.Sprintf("block_w=%d block_h=%d kmax=%d", w, h, kmax) }
	defer func() {
		if r := recover(); r != nil {
			kind = "panic"
			detail = fmt.Sprintf("%s panic=%q", desc(), strings.ReplaceAll(fmt.Sprint(r), "\n", " "))
		}
	}()
	enc := NewHTEncoder(w, h)
	enc.SetKMax(kmax)
	in := append([]int32(nil), coeffs...)
	data, err := enc.Encode(in, 1, 0)
	if err != nil {
		return "encode-error", fmt.Sprintf("%s err=%q", desc(), err.Error())
	}
	dec := NewHTDecoder(w, h)
	dec.SetCodingContext(kmax, kmax-1)
	if err := dec.DecodeWithBitplane(data, 1, kmax-1, 0); err != nil {
		return "decode-error", fmt.Sprintf("%s len=%d err=%q", desc(), len(data), err.Error())
	}
	got := dec.GetData()
	if len(got) != len(coeffs) {
		return "length", fmt.Sprintf("%s got_len=%d want_len=%d", desc(), len(got), len(coeffs))
	}
	for i := range coeffs {
		if got[i] != coeffs[i] {
			bad := 0
			for j := range coeffs {
				if got[j] != coeffs[j] {
					bad++
				}
			}
			return "coeff-mismatch", fmt.Sprintf("%s bad=%d first_bad=(x=%d,y=%d) want=%d got=%d", desc(), bad, i%w, i/w, coeffs[i], got[i])
		}
	}
	return "", ""
}

// TestVerif_C06_BlockCoder: HTEncoder -> HTDecoder on raw code-blocks.
func TestVerif_C06_BlockCoder(t *testing.T) {
	rng := rand.New(rand.NewSource(verifC06Seed() ^ 0xB10C))
	dims := []int{1, 2, 3, 4, 5, 7, 8, 9, 15, 16, 17, 31, 32, 33, 64}
	kmaxes := []int{2, 3, 9, 13, 17, 20}
	reps := 1
	if verifC06Thorough() {
		kmaxes = nil
		for k := 2; k <= 22; k++ {
			kmaxes = append(kmaxes, k)
		}
		reps = 3
	}
	fills := []string{"noise", "sparse", "single", "zero", "maxpos", "maxneg", "small", "corner"}
	r := verifC06NewReport("TestVerif_C06_BlockCoder", fmt.Sprintf(
		"HTEncoder(SetKMax k).Encode -> HTDecoder(SetCodingContext(k,k-1)).DecodeWithBitplane; block w,h in %v^2 (area<=4096), k in %v, coefficient magnitudes < 2^k (everything a band with Kmax=k can hold), fills %v, %d repetition(s); seed=%d",
		dims, kmaxes, fills, reps, verifC06Seed()))
	for _, w := range dims {
		for _, h := range dims {
			if w*h > 4096 {
				continue
			}
			for _, k := range kmaxes {
				for _, f := range fills {
					for rep := 0; rep < reps; rep++ {
						lim := int32(1)<<uint(k) - 1
						co := make([]int32, w*h)
						rv := func() int32 {
							v := rng.Int31n(lim + 1)
							if rng.Intn(2) == 0 {
								v = -v
							}
							return v
						}
						switch f {
						case "noise":
							for i := range co {
								co[i] = rv()
							}
						case "sparse":
							for i := range co {
								if rng.Intn(8) == 0 {
									co[i] = rv()
								}
							}
						case "single":
							v := rv()
							if v == 0 {
								v = lim
							}
							co[rng.Intn(len(co))] = v
						case "maxpos":
							for i := range co {
								co[i] = lim
							}
						case "maxneg":
							for i := range co {
								co[i] = -lim
							}
						case "small":
							for i := range co {
								co[i] = rng.Int31n(3) - 1
							}
						case "corner":
							co[len(co)-1] = -lim
						}
						kind, detail := verifC06BlockTrip(w, h, k, co)
						if kind != "" {
							detail += " fill=" + f
						}
						r.record(kind, detail)
					}
				}
			}
		}
	}
	r.finish(t)
}

// ---------------------------------------------------------------------------------------------
// third-party fixtures

type verifC06Manifest struct {
	Fixtures []struct {
		Name          string `json:"name"`
		Width         int    `json:"width"`
		Height        int    `json:"height"`
		Components    int    `json:"components"`
		BitsAllocated int    `json:"bitsAllocated"`
		BitsStored    int    `json:"bitsStored"`
		Signed        bool   `json:"signed"`
		InputRaw      string `json:"inputRaw"`
		Codestreams   map[string]struct {
			Path     string `json:"path"`
			Lossless bool   `json:"lossless"`
			Order    string `json:"progressionOrder"`
		} `json:"codestreams"`
	} `json:"fixtures"`
}

func verifC06FixtureDir() string {
	if d := os.Getenv("HTJ2K_INTEROP_FIXTURE_DIR"); d != "" {
		return d
	}
	if wd, err := os.Getwd(); err == nil {
		d := filepath.Clean(filepath.Join(wd, "..", "..", "test-data", "htj2k", "interop"))
		if _, err := os.Stat(filepath.Join(d, "manifest.json")); err == nil {
			return d
		}
	}
	return "/repo/test-data/htj2k/interop"
}

// TestVerif_C06_InteropFixtures: every lossless codestream listed in
// test-data/htj2k/interop/manifest.json decodes (a) through jpeg2000.Decoder with the HT block
// decoder factory and (b) through Codec.Decode of both codec objects to exactly the raw input file.
func TestVerif_C06_InteropFixtures(t *testing.T) {
	dir := verifC06FixtureDir()
	r := verifC06NewReport("TestVerif_C06_InteropFixtures", "")
	var m verifC06Manifest
	raw, err := os.ReadFile(filepath.Join(dir, "manifest.json"))
	if err == nil {
		err = json.Unmarshal(raw, &m)
	}
	if err != nil || len(m.Fixtures) == 0 {
		r.record("manifest", fmt.Sprintf("dir=%s err=%v fixtures=%d", dir, err, len(m.Fixtures)))
		r.finish(t)
		return
	}
	streams := 0
	for _, fx := range m.Fixtures {
		want, err := os.ReadFile(filepath.Join(dir, filepath.FromSlash(fx.InputRaw)))
		if err != nil {
			r.record("missing-raw", fmt.Sprintf("fixture=%s err=%q", fx.Name, err.Error()))
			continue
		}
		if exp := fx.Width * fx.Height * fx.Components * ((fx.BitsAllocated + 7) / 8); len(want) != exp {
			r.record("raw-length", fmt.Sprintf("fixture=%s raw_len=%d expected=%d", fx.Name, len(want), exp))
			continue
		}
		names := make([]string, 0, len(fx.Codestreams))
		for k := range fx.Codestreams {
			names = append(names, k)
		}
		// deterministic order
		for i := range names {
			for j := i + 1; j < len(names); j++ {
				if names[j] < names[i] {
					names[i], names[j] = names[j], names[i]
				}
			}
		}
		for _, name := range names {
			csf := fx.Codestreams[name]
			if !csf.Lossless {
				continue
			}
			cs, err := os.ReadFile(filepath.Join(dir, filepath.FromSlash(csf.Path)))
			if err != nil {
				r.record("missing-codestream", fmt.Sprintf("fixture=%s stream=%s err=%q", fx.Name, name, err.Error()))
				continue
			}
			streams++
			for via := 0; via < 3; via++ {
				kind, detail := func() (kind, detail string) {
					id := fmt.Sprintf("fixture=%s stream=%s via=%s w=%d h=%d comps=%d bits=%d signed=%v", fx.Name, name,
						[]string{"jpeg2000.Decoder", "LosslessCodec.Decode", "LosslessRPCLCodec.Decode"}[via], fx.Width, fx.Height, fx.Components, fx.BitsStored, fx.Signed)
					defer func() {
						if p := recover(); p != nil {
							kind, detail = "panic", fmt.Sprintf("%s panic=%q", id, strings.ReplaceAll(fmt.Sprint(p), "\n", " "))
						}
					}()
					var got []byte
					if via == 0 {
						d := jpeg2000.NewDecoder()
						d.SetBlockDecoderFactory(func(w, h int, _ int) t2.BlockDecoder { return NewHTDecoder(w, h) })
						if err := d.Decode(cs); err != nil {
							return "decode-error", fmt.Sprintf("%s err=%q", id, err.Error())
						}
						if d.Width() != fx.Width || d.Height() != fx.Height || d.Components() != fx.Components || d.BitDepth() != fx.BitsStored || d.IsSigned() != fx.Signed {
							return "geometry", fmt.Sprintf("%s decoded w=%d h=%d comps=%d depth=%d signed=%v", id, d.Width(), d.Height(), d.Components(), d.BitDepth(), d.IsSigned())
						}
						got = d.GetPixelData()
					} else {
						pr := uint16(0)
						if fx.Signed {
							pr = 1
						}
						ph := "MONOCHROME2"
						if fx.Components == 3 {
							ph = "RGB"
						}
						info := func() *imagetypes.FrameInfo {
							return &imagetypes.FrameInfo{Width: uint16(fx.Width), Height: uint16(fx.Height), BitsAllocated: uint16(fx.BitsAllocated),
								BitsStored: uint16(fx.BitsStored), HighBit: uint16(fx.BitsStored - 1), SamplesPerPixel: uint16(fx.Components),
								PixelRepresentation: pr, PhotometricInterpretation: ph}
						}
						src := codecHelpers.NewTestPixelData(info())
						_ = src.AddFrame(append([]byte(nil), cs...))
						dst := codecHelpers.NewTestPixelData(info())
						if err := verifC06Codec(via == 2).Decode(src, dst, nil); err != nil {
							return "decode-error", fmt.Sprintf("%s err=%q", id, err.Error())
						}
						if dst.FrameCount() != 1 {
							return "frame-count", fmt.Sprintf("%s frames=%d", id, dst.FrameCount())
						}
						got, _ = dst.GetFrame(0)
					}
					if !bytes.Equal(got, want) {
						bad, first := 0, -1
						for i := 0; i < len(got) && i < len(want); i++ {
							if got[i] != want[i] {
								if first < 0 {
									first = i
								}
								bad++
							}
						}
						return "bytes-mismatch", fmt.Sprintf("%s got_len=%d want_len=%d bad_bytes=%d first_bad_byte=%d", id, len(got), len(want), bad, first)
					}
					return "", ""
				}()
				r.record(kind, detail)
			}
		}
	}
	r.domain = fmt.Sprintf("%d fixtures / %d lossless codestreams from %s/manifest.json, each decoded 3 ways (jpeg2000.Decoder+NewHTDecoder factory with geometry check, LosslessCodec.Decode, LosslessRPCLCodec.Decode) and compared byte-for-byte with inputRaw", len(m.Fixtures), streams, dir)
	if streams == 0 {
		r.record("no-streams", "manifest lists no lossless codestreams")
	}
	r.finish(t)
}
