package colorspace

// Bounded stand-in for the colour-transform part of C20:
// "... and the inverse reversible colour transform undoes the forward one."
//
// RCTInverse(RCTForward(r,g,b)) == (r,g,b) and
// ApplyInverseRCTToComponents(ApplyRCTToComponents(R,G,B)) == (R,G,B).

import (
	"fmt"
	"math/rand"
	"strings"
	"testing"
)

func verifRCTCheck(r *verifJ2Report, a, b, c int32) {
	var pm string
	var r2, g2, b2, y, cb, cr int32
	func() {
		defer func() {
			if e := recover(); e != nil {
				pm = strings.ReplaceAll(fmt.Sprint(e), "\n", " ")
			}
		}()
		y, cb, cr = RCTForward(a, b, c)
		r2, g2, b2 = RCTInverse(y, cb, cr)
	}()
	switch {
	case pm != "":
		r.record("panic", fmt.Sprintf("r=%d g=%d b=%d panic=%q", a, b, c, pm))
	case r2 != a || g2 != b || b2 != c:
		r.record("mismatch", fmt.Sprintf("r=%d g=%d b=%d y=%d cb=%d cr=%d got_r=%d got_g=%d got_b=%d", a, b, c, y, cb, cr, r2, g2, b2))
	default:
		r.record("", "")
	}
}

// TestVerif_C20_RCTScalar: exhaustive small cube, all combinations of extreme values and seeded
// random triples within +-2^28.
func TestVerif_C20_RCTScalar(t *testing.T) {
	cube, n := 40, 2000000
	if verifJ2Thorough() {
		cube, n = 128, 50000000
	}
	ext := []int32{-(1 << 28), -(1 << 28) + 1, -65536, -32769, -32768, -256, -129, -128, -3, -2, -1, 0, 1, 2, 3, 127, 128, 255, 256, 32767, 32768, 65535, 65536, 1<<28 - 2, 1<<28 - 1, 1 << 28}
	r := verifJ2NewReport("TestVerif_C20_RCTScalar",
		fmt.Sprintf("exhaustive (r,g,b) in [-%d,%d]^3; exhaustive (r,g,b) in E^3 with E=%v; %d seeded triples (seed=%d) uniform in [-2^k,2^k), k cycled {8,12,16,28}", cube, cube, ext, n, verifJ2Seed()))
	for a := -cube; a <= cube; a++ {
		for b := -cube; b <= cube; b++ {
			for c := -cube; c <= cube; c++ {
				verifRCTCheck(r, int32(a), int32(b), int32(c))
			}
		}
	}
	for _, a := range ext {
		for _, b := range ext {
			for _, c := range ext {
				verifRCTCheck(r, a, b, c)
			}
		}
	}
	rng := rand.New(rand.NewSource(verifJ2Seed() ^ 0x2004))
	for i := 0; i < n; i++ {
		k := []uint{8, 12, 16, 28}[i%4]
		draw := func() int32 { return int32(rng.Int63n(2<<k)) - (1 << k) }
		verifRCTCheck(r, draw(), draw(), draw())
	}
	r.finish(t)
}

// TestVerif_C20_RCTComponents: the slice versions, including empty and length-1 planes.
func TestVerif_C20_RCTComponents(t *testing.T) {
	n := 300
	if verifJ2Thorough() {
		n = 5000
	}
	r := verifJ2NewReport("TestVerif_C20_RCTComponents",
		fmt.Sprintf("plane lengths 0..64 and %d seeded lengths 1..5000 (seed=%d); values uniform in [-2^k,2^k), k in {8,16,28}; also checks the input planes are not modified", n, verifJ2Seed()))
	rng := rand.New(rand.NewSource(verifJ2Seed() ^ 0x2005))
	run := func(l int, k uint) {
		mk := func() []int32 {
			p := make([]int32, l)
			for i := range p {
				p[i] = int32(rng.Int63n(2<<k)) - (1 << k)
			}
			return p
		}
		R, G, B := mk(), mk(), mk()
		r0, g0, b0 := append([]int32(nil), R...), append([]int32(nil), G...), append([]int32(nil), B...)
		var pm string
		var r2, g2, b2 []int32
		func() {
			defer func() {
				if e := recover(); e != nil {
					pm = strings.ReplaceAll(fmt.Sprint(e), "\n", " ")
				}
			}()
			y, cb, cr := ApplyRCTToComponents(R, G, B)
			r2, g2, b2 = ApplyInverseRCTToComponents(y, cb, cr)
		}()
		if pm != "" {
			r.record("panic", fmt.Sprintf("len=%d bits=%d panic=%q", l, k, pm))
			return
		}
		if len(r2) != l || len(g2) != l || len(b2) != l {
			r.record("length-mismatch", fmt.Sprintf("len=%d got_lens=%d,%d,%d", l, len(r2), len(g2), len(b2)))
			return
		}
		for i := 0; i < l; i++ {
			if r2[i] != r0[i] || g2[i] != g0[i] || b2[i] != b0[i] {
				r.record("mismatch", fmt.Sprintf("len=%d index=%d r=%d g=%d b=%d got_r=%d got_g=%d got_b=%d", l, i, r0[i], g0[i], b0[i], r2[i], g2[i], b2[i]))
				return
			}
			if R[i] != r0[i] || G[i] != g0[i] || B[i] != b0[i] {
				r.record("input-modified", fmt.Sprintf("len=%d index=%d", l, i))
				return
			}
		}
		r.record("", "")
	}
	for l := 0; l <= 64; l++ {
		for _, k := range []uint{8, 16, 28} {
			run(l, k)
		}
	}
	for i := 0; i < n; i++ {
		run(1+rng.Intn(5000), []uint{8, 16, 28}[i%3])
	}
	r.finish(t)
}
