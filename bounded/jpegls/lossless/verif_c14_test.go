package lossless

// Bounded stand-in tests for C14 (T.87 conformance), lossless-encoder part.
//
//   TestVerif_C14_DefaultParameters        RANGE/qbpp/LIMIT/T1..T3 of ComputeCodingParameters vs T.87 A.2.1 + C.2.4.1.1.1
//   TestVerif_C14_IndependentDecoderLossless  streams of lossless.Encode decoded by the independent T.87 decoder
//   TestVerif_C14_AnnexH3Vector             T.87 H.3 example image -> published bit stream
//
// The byte-identity lossless vs near-lossless(NEAR=0), the cross-decoding and the near-lossless
// streams are checked from package nearlossless (lossless cannot import it).

import (
	"bytes"
	"fmt"
	"strings"
	"testing"
)

func TestVerif_C14_DefaultParameters(t *testing.T) {
	rep := verifJlsNewReport(t, "TestVerif_C14_DefaultParameters",
		"ComputeCodingParameters(2^P-1, NEAR, 64) vs independent T.87 formulas (RANGE, qbpp, LIMIT of A.2.1; default T1,T2,T3 of C.2.4.1.1.1 with the standard's CLAMP); every P in 2..16 x every NEAR in 0..min(255,MAXVAL/2)")
	var perP [17]int
	firstNear := map[int]int{}
	for p := 2; p <= 16; p++ {
		maxval := (1 << uint(p)) - 1
		nmax := maxval / 2
		if nmax > 255 {
			nmax = 255
		}
		for near := 0; near <= nmax; near++ {
			rep.cases++
			var cp CodingParameters
			var pan interface{}
			func() {
				defer func() { pan = recover() }()
				cp = ComputeCodingParameters(maxval, near, 64)
			}()
			if pan != nil {
				perP[p]++
				rep.fail("P=%d near=%d panic=%q", p, near, fmt.Sprint(pan))
				continue
			}
			st := verifT87NewState(p, near, nil)
			if cp.Range != st.rng || cp.Qbpp != st.qbpp || cp.Limit != st.limit || cp.T1 != st.t1 || cp.T2 != st.t2 || cp.T3 != st.t3 {
				perP[p]++
				if _, ok := firstNear[p]; !ok {
					firstNear[p] = near
				}
				rep.fail("P=%d near=%d lib_range=%d lib_qbpp=%d lib_limit=%d lib_T=%d/%d/%d std_range=%d std_qbpp=%d std_limit=%d std_T=%d/%d/%d",
					p, near, cp.Range, cp.Qbpp, cp.Limit, cp.T1, cp.T2, cp.T3, st.rng, st.qbpp, st.limit, st.t1, st.t2, st.t3)
			}
		}
	}
	if rep.fails > 0 {
		var sb strings.Builder
		for p := 2; p <= 16; p++ {
			if perP[p] > 0 {
				fmt.Fprintf(&sb, "P%d:%d(first_near=%d),", p, perP[p], firstNear[p])
			}
		}
		rep.summary("summary mismatching_NEAR_values_per_P=%s", strings.TrimSuffix(sb.String(), ","))
	}
	rep.flush()
}

// verifC14Compare decodes one library stream with the library decoder (libDec returns samples or
// an error string) and with the independent decoder and checks the C14 statement.
// src may be nil (NEAR>0): then only "independent == library" is required.
func verifC14Compare(stream []byte, src []int, w, h, c, p, near int, libDec func([]byte) ([]int, string)) (why string) {
	ind, ierr := verifT87Decode(stream)
	lib, lerr := libDec(stream)
	var parts []string
	if ierr != nil {
		parts = append(parts, fmt.Sprintf("independent_err=%q", ierr.Error()))
	} else {
		if ind.W != w || ind.H != h || ind.NC != c || ind.P != p || ind.Near != near {
			parts = append(parts, fmt.Sprintf("independent_header=%dx%dx%d/P%d/NEAR%d", ind.W, ind.H, ind.NC, ind.P, ind.Near))
		}
		if src != nil {
			if i := verifJlsFirstDiff(src, ind.Samples); i >= 0 {
				parts = append(parts, fmt.Sprintf("independent_vs_source_first_diff=%d(src=%d,ind=%d)", i, src[i], ind.Samples[i]))
			}
		}
	}
	if lerr != "" {
		parts = append(parts, "library_"+lerr)
	} else if ierr == nil {
		if i := verifJlsFirstDiff(lib, ind.Samples); i >= 0 {
			parts = append(parts, fmt.Sprintf("independent_vs_library_first_diff=%d(lib=%d,ind=%d)", i, lib[i], ind.Samples[i]))
		}
	}
	return strings.Join(parts, " ")
}

func verifC14LosslessLibDec(w, h, c, p int) func([]byte) ([]int, string) {
	return func(stream []byte) (s []int, why string) {
		defer func() {
			if r := recover(); r != nil {
				s, why = nil, fmt.Sprintf("decode_panic=%q", fmt.Sprint(r))
			}
		}()
		out, dw, dh, dc, dp, err := Decode(stream)
		if err != nil {
			return nil, fmt.Sprintf("decode_err=%q", err.Error())
		}
		if dw != w || dh != h || dc != c || dp != p {
			return nil, fmt.Sprintf("geometry=%dx%dx%d/P%d", dw, dh, dc, dp)
		}
		got, ok := verifJlsUnpack(out, p, w*h*c)
		if !ok {
			return nil, fmt.Sprintf("decoded_len=%d", len(out))
		}
		return got, ""
	}
}

func TestVerif_C14_IndependentDecoderLossless(t *testing.T) {
	type size struct{ w, h int }
	sizes := []size{{1, 1}, {2, 2}, {4, 3}, {9, 7}, {16, 16}, {33, 5}, {1, 17}, {40, 40}}
	reps := 2
	if verifJlsThorough() {
		sizes = append(sizes, size{64, 64}, size{300, 3}, size{128, 40})
		reps = 10
	}
	var sz []string
	for _, s := range sizes {
		sz = append(sz, fmt.Sprintf("%dx%d", s.w, s.h))
	}
	rep := verifJlsNewReport(t, "TestVerif_C14_IndependentDecoderLossless", fmt.Sprintf(
		"stream=lossless.Encode(img); independent T.87 decoder(stream)==img and ==lossless.Decode(stream); P in 2..16 x components {1 (ILV=0),3 (ILV=2)} x WxH {%s} x contents {%s} x %d seeded variants (seed %d)",
		strings.Join(sz, ","), strings.Join(verifJlsContentKinds, ","), reps, verifJlsSeed()))
	var pp verifJlsPerP
	for p := 2; p <= 16; p++ {
		for _, c := range []int{1, 3} {
			for _, s := range sizes {
				for _, kind := range verifJlsContentKinds {
					for v := 0; v < reps; v++ {
						r := verifJlsNewRNG(fmt.Sprintf("c14l/%d/%d/%dx%d/%s/%d", p, c, s.w, s.h, kind, v))
						src := verifJlsGenImage(kind, s.w, s.h, c, p, 0, r)
						rep.cases++
						pp.cases[p]++
						var stream []byte
						var encWhy string
						func() {
							defer func() {
								if x := recover(); x != nil {
									encWhy = fmt.Sprintf("encode_panic=%q", fmt.Sprint(x))
								}
							}()
							var err error
							stream, err = Encode(verifJlsPack(src, p), s.w, s.h, c, p)
							if err != nil {
								encWhy = fmt.Sprintf("encode_err=%q", err.Error())
							}
						}()
						why := encWhy
						if why == "" {
							why = verifC14Compare(stream, src, s.w, s.h, c, p, 0, verifC14LosslessLibDec(s.w, s.h, c, p))
						}
						if why != "" {
							pp.fails[p]++
							rep.fail("P=%d comps=%d w=%d h=%d kind=%s variant=%d %s src=%s", p, c, s.w, s.h, kind, v, why, verifJlsFmtSamples(src))
						}
					}
				}
			}
		}
	}
	if rep.fails > 0 {
		rep.summary("summary fails_per_P=%s", pp.String())
	}
	rep.flush()
}

// T.87 Annex H.3 example: 4x4, 8 bit, NEAR=0.
var verifH3Image = []int{
	0, 0, 90, 74,
	68, 50, 43, 205,
	64, 145, 145, 145,
	100, 145, 145, 145,
}

// Published encoding of the H.3 image. This vector was written down from memory, NOT copied from
// the Recommendation; the test therefore validates it first: the independent decoder must decode
// it to exactly the H.3 image with fewer than 8 zero padding bits left. Decoding is injective on
// the entropy-coded bits, so a vector that passes this check carries exactly the bits a conformant
// encoder emits for this image (only header layout and padding remain "from memory").
var verifH3Stream = []byte{
	0xFF, 0xD8,
	0xFF, 0xF7, 0x00, 0x0B, 0x08, 0x00, 0x04, 0x00, 0x04, 0x01, 0x01, 0x11, 0x00,
	0xFF, 0xDA, 0x00, 0x08, 0x01, 0x01, 0x00, 0x00, 0x00, 0x00,
	0xC0, 0x00, 0x00, 0x6C, 0x80, 0x20, 0x8E, 0x01, 0xC0, 0x00, 0x00, 0x57, 0x40, 0x00, 0x00, 0x6E,
	0xE6, 0x00, 0x00, 0x01, 0xBC, 0x18, 0x00, 0x00, 0x05, 0xD8, 0x00, 0x00, 0x91, 0x60,
	0xFF, 0xD9,
}

func TestVerif_C14_AnnexH3Vector(t *testing.T) {
	rep := verifJlsNewReport(t, "TestVerif_C14_AnnexH3Vector",
		"T.87 Annex H.3 example (4x4, P=8, NEAR=0): lossless.Encode(image)==published stream; lossless.Decode(published stream)==image; vector reproduced from memory and self-validated by the independent decoder (1 vector, 2 checks)")
	ind, err := verifT87Decode(verifH3Stream)
	if err != nil || ind.W != 4 || ind.H != 4 || ind.NC != 1 || ind.P != 8 || ind.Near != 0 ||
		verifJlsFirstDiff(ind.Samples, verifH3Image) >= 0 || ind.TrailingBits >= 8 || ind.TrailingNonZero {
		// the remembered vector is not trustworthy: do not blame the library
		fmt.Printf("VERIF-NOTE TestVerif_C14_AnnexH3Vector: remembered H.3 vector failed self-validation (err=%v); vector checks skipped\n", err)
		rep.domain += "; SKIPPED: remembered vector failed self-validation"
		rep.flush()
		return
	}
	// check 1: encoder output equals the published stream
	rep.cases++
	func() {
		defer func() {
			if x := recover(); x != nil {
				rep.fail("check=encode panic=%q", fmt.Sprint(x))
			}
		}()
		got, err := Encode(verifJlsPack(verifH3Image, 8), 4, 4, 1, 8)
		if err != nil {
			rep.fail("check=encode encode_err=%q", err.Error())
			return
		}
		if !bytes.Equal(got, verifH3Stream) {
			i := 0
			for i < len(got) && i < len(verifH3Stream) && got[i] == verifH3Stream[i] {
				i++
			}
			rep.fail("check=encode first_diff_offset=%d got_len=%d want_len=%d got=%x want=%x", i, len(got), len(verifH3Stream), got, verifH3Stream)
		}
	}()
	// check 2: library decoder decodes the published stream to the image
	rep.cases++
	if why := verifC14Compare(verifH3Stream, verifH3Image, 4, 4, 1, 8, 0, verifC14LosslessLibDec(4, 4, 1, 8)); why != "" {
		rep.fail("check=decode %s", why)
	}
	rep.flush()
}
