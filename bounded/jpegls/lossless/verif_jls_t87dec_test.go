package lossless

// Independent JPEG-LS (ITU-T T.87 | ISO/IEC 14495-1) baseline decoder used as the oracle of C14.
//
// Written from the text of the Recommendation (Annex A coding procedures, Annex C.2.4.1.1 default
// parameters, Annex F decoding) and deliberately sharing NO code, table or helper with the
// library: own marker parser, own bit reader (bit stuffing after 0xFF), own J table, own
// threshold computation, own context arrays (A,B,C,N as plain arrays, Nn for the two run
// interruption contexts), own edge handling on a 2-D sample array.
//
// Scope: default coding parameters only (an LSE segment is rejected), one scan,
// ILV=0 with one component or ILV=2 (sample interleaved) with up to 4 components, NEAR>=0, Al=0.
//
// Sample-interleaved run mode follows T.87 Annex B (and the reference implementations): the run
// mode is entered/continued only if the condition holds for all components, there is one RUNindex,
// and each component of the run-interruption sample is coded with RItype=0 (context 365).
//
// NOTE: this file exists twice (jpegls/lossless and jpegls/nearlossless), identical except for the
// package clause.

import (
	"errors"
	"fmt"
)

type verifT87Image struct {
	W, H, NC, P, Near, ILV int
	T1, T2, T3             int
	Samples                []int // interleaved, len W*H*NC
	TrailingBits           int   // unread bits left in the entropy-coded segment after the last sample
	TrailingNonZero        bool  // any of those bits is 1 (T.87 pads with 0)
}

var verifT87J = [32]uint{0, 0, 0, 0, 1, 1, 1, 1, 2, 2, 2, 2, 3, 3, 3, 3, 4, 4, 5, 5, 6, 6, 7, 7, 8, 9, 10, 11, 12, 13, 14, 15}

// verifT87Bits reads the entropy-coded segment MSB first; after a 0xFF byte the next byte
// contributes only 7 bits (its MSB is the stuffed 0).
type verifT87Bits struct {
	d      []byte
	pos    int
	cur    uint
	n      int
	prevFF bool
}

var errVerifT87EOD = errors.New("t87: entropy-coded segment exhausted")

func (b *verifT87Bits) bit() (int, error) {
	if b.n == 0 {
		if b.pos >= len(b.d) {
			return 0, errVerifT87EOD
		}
		v := uint(b.d[b.pos])
		b.pos++
		if b.prevFF {
			b.cur = (v & 0x7F) << 1
			b.n = 7
		} else {
			b.cur = v
			b.n = 8
		}
		b.prevFF = v == 0xFF
	}
	r := int(b.cur>>7) & 1
	b.cur = (b.cur << 1) & 0xFF
	b.n--
	return r, nil
}

func (b *verifT87Bits) bits(n int) (int, error) {
	v := 0
	for i := 0; i < n; i++ {
		x, err := b.bit()
		if err != nil {
			return 0, err
		}
		v = v<<1 | x
	}
	return v, nil
}

// verifT87DefaultThresholds implements T.87 C.2.4.1.1.1 (Figure C.3): note that the standard's
// CLAMP functions return the LOWER bound when the candidate exceeds MAXVAL.
func verifT87DefaultThresholds(maxval, near int) (int, int, int) {
	clampStd := func(i, j int) int {
		if i > maxval || i < j {
			return j
		}
		return i
	}
	maxi := func(a, b int) int {
		if a > b {
			return a
		}
		return b
	}
	const basicT1, basicT2, basicT3 = 3, 7, 21
	var t1, t2, t3 int
	if maxval >= 128 {
		m := maxval
		if m > 4095 {
			m = 4095
		}
		factor := (m + 128) / 256
		t1 = clampStd(factor*(basicT1-2)+2+3*near, near+1)
		t2 = clampStd(factor*(basicT2-3)+3+5*near, t1)
		t3 = clampStd(factor*(basicT3-4)+4+7*near, t2)
	} else {
		factor := 256 / (maxval + 1)
		t1 = clampStd(maxi(2, basicT1/factor+3*near), near+1)
		t2 = clampStd(maxi(3, basicT2/factor+5*near), t1)
		t3 = clampStd(maxi(4, basicT3/factor+7*near), t2)
	}
	return t1, t2, t3
}

type verifT87State struct {
	maxval, near, rng, qbpp, limit, reset int
	t1, t2, t3                            int
	a, n                                  [367]int
	b, c                                  [365]int
	nn                                    [2]int
	runIndex                              int
	br                                    *verifT87Bits
}

func verifT87CeilLog2(v int) int {
	k := 0
	for (1 << uint(k)) < v {
		k++
	}
	return k
}

func verifT87NewState(p, near int, br *verifT87Bits) *verifT87State {
	s := &verifT87State{br: br}
	s.maxval = (1 << uint(p)) - 1
	s.near = near
	s.rng = (s.maxval+2*near)/(2*near+1) + 1
	s.qbpp = verifT87CeilLog2(s.rng)
	bpp := verifT87CeilLog2(s.maxval + 1)
	if bpp < 2 {
		bpp = 2
	}
	m := bpp
	if m < 8 {
		m = 8
	}
	s.limit = 2 * (bpp + m)
	s.reset = 64
	s.t1, s.t2, s.t3 = verifT87DefaultThresholds(s.maxval, near)
	ainit := (s.rng + 32) / 64
	if ainit < 2 {
		ainit = 2
	}
	for i := range s.a {
		s.a[i] = ainit
		s.n[i] = 1
	}
	return s
}

// golomb decodes one limited-length Golomb code LG(k, glimit) (A.5.3 / Annex F).
func (s *verifT87State) golomb(k, glimit int) (int, error) {
	q := 0
	for {
		x, err := s.br.bit()
		if err != nil {
			return 0, err
		}
		if x == 1 {
			break
		}
		q++
		if q > glimit-s.qbpp-1 {
			return 0, fmt.Errorf("t87: unary prefix longer than glimit-qbpp-1=%d", glimit-s.qbpp-1)
		}
	}
	if q < glimit-s.qbpp-1 {
		lo, err := s.br.bits(k)
		if err != nil {
			return 0, err
		}
		return q<<uint(k) | lo, nil
	}
	v, err := s.br.bits(s.qbpp)
	if err != nil {
		return 0, err
	}
	return v + 1, nil
}

func (s *verifT87State) quant(d int) int {
	switch {
	case d <= -s.t3:
		return -4
	case d <= -s.t2:
		return -3
	case d <= -s.t1:
		return -2
	case d < -s.near:
		return -1
	case d <= s.near:
		return 0
	case d < s.t1:
		return 1
	case d < s.t2:
		return 2
	case d < s.t3:
		return 3
	}
	return 4
}

// fix applies the modulo-RANGE correction and the clamp of A.4.5 / Annex F to a reconstructed value.
func (s *verifT87State) fix(rx int) int {
	if rx < -s.near {
		rx += s.rng * (2*s.near + 1)
	} else if rx > s.maxval+s.near {
		rx -= s.rng * (2*s.near + 1)
	}
	if rx < 0 {
		return 0
	}
	if rx > s.maxval {
		return s.maxval
	}
	return rx
}

// regular decodes one sample in regular mode (A.4 - A.6).
func (s *verifT87State) regular(ra, rb, rc, q1, q2, q3 int) (int, error) {
	sign := 1
	if q1 < 0 || (q1 == 0 && (q2 < 0 || (q2 == 0 && q3 < 0))) {
		sign = -1
		q1, q2, q3 = -q1, -q2, -q3
	}
	// one-to-one mapping of the sign-normalised triplet onto [0..364] (Q1 in 0..4, Q2,Q3 in -4..4).
	// Index 0 (all gradients zero) is only reached in sample-interleaved scans, when another
	// component keeps the pixel out of run mode.
	q := q1*81 + (q2+4)*9 + (q3 + 4) - 40
	if q < 0 || q > 364 {
		return 0, fmt.Errorf("t87: context index %d out of range", q)
	}
	// A.4.1 MED prediction
	var px int
	mx, mn := ra, rb
	if rb > ra {
		mx, mn = rb, ra
	}
	switch {
	case rc >= mx:
		px = mn
	case rc <= mn:
		px = mx
	default:
		px = ra + rb - rc
	}
	// A.4.2 prediction correction
	px += sign * s.c[q]
	if px > s.maxval {
		px = s.maxval
	} else if px < 0 {
		px = 0
	}
	// A.5.1 Golomb parameter
	k := 0
	for (s.n[q] << uint(k)) < s.a[q] {
		k++
	}
	m, err := s.golomb(k, s.limit)
	if err != nil {
		return 0, err
	}
	// inverse of the A.5.2 error mapping
	var e int
	if s.near == 0 && k == 0 && 2*s.b[q] <= -s.n[q] {
		if m&1 == 1 {
			e = (m - 1) / 2
		} else {
			e = -(m / 2) - 1
		}
	} else {
		if m&1 == 0 {
			e = m / 2
		} else {
			e = -((m + 1) / 2)
		}
	}
	// A.6.1 update
	s.b[q] += e * (2*s.near + 1)
	if e < 0 {
		s.a[q] -= e
	} else {
		s.a[q] += e
	}
	if s.n[q] == s.reset {
		s.a[q] >>= 1
		if s.b[q] >= 0 {
			s.b[q] >>= 1
		} else {
			s.b[q] = -((1 - s.b[q]) >> 1)
		}
		s.n[q] >>= 1
	}
	s.n[q]++
	// A.6.2 bias computation
	if s.b[q] <= -s.n[q] {
		s.b[q] += s.n[q]
		if s.c[q] > -128 {
			s.c[q]--
		}
		if s.b[q] <= -s.n[q] {
			s.b[q] = -s.n[q] + 1
		}
	} else if s.b[q] > 0 {
		s.b[q] -= s.n[q]
		if s.c[q] < 127 {
			s.c[q]++
		}
		if s.b[q] > 0 {
			s.b[q] = 0
		}
	}
	return s.fix(px + sign*e*(2*s.near+1)), nil
}

// runInterruption decodes one run-interruption sample (A.7.2). forceType0 is set in ILV=2.
func (s *verifT87State) runInterruption(ra, rb int, forceType0 bool) (int, error) {
	ritype := 0
	d := ra - rb
	if d < 0 {
		d = -d
	}
	if d <= s.near && !forceType0 {
		ritype = 1
	}
	q := 365 + ritype
	temp := s.a[q]
	if ritype == 1 {
		temp += s.n[q] >> 1
	}
	k := 0
	for (s.n[q] << uint(k)) < temp {
		k++
	}
	// glimit uses RUNindex before the decrement of code segment A.16
	em, err := s.golomb(k, s.limit-int(verifT87J[s.runIndex])-1)
	if err != nil {
		return 0, err
	}
	t := em + ritype
	mapBit := t & 1
	mag := (t + mapBit) / 2
	var neg bool
	if k != 0 || 2*s.nn[ritype] >= s.n[q] {
		neg = mapBit == 1
	} else {
		neg = mapBit == 0
	}
	e := mag
	if neg {
		e = -mag
	}
	if e < 0 {
		s.nn[ritype]++
	}
	s.a[q] += (em + 1 - ritype) >> 1
	if s.n[q] == s.reset {
		s.a[q] >>= 1
		s.n[q] >>= 1
		s.nn[ritype] >>= 1
	}
	s.n[q]++
	px, sign := rb, 1
	if ritype == 1 {
		px = ra
	} else if ra > rb {
		sign = -1
	}
	return s.fix(px + sign*e*(2*s.near+1)), nil
}

// verifT87Decode parses and decodes a complete JPEG-LS stream.
func verifT87Decode(d []byte) (img *verifT87Image, err error) {
	defer func() {
		if r := recover(); r != nil {
			img, err = nil, fmt.Errorf("t87: internal panic: %v", r)
		}
	}()
	if len(d) < 4 || d[0] != 0xFF || d[1] != 0xD8 {
		return nil, errors.New("t87: missing SOI")
	}
	pos := 2
	img = &verifT87Image{}
	haveFrame := false
	for {
		if pos+4 > len(d) || d[pos] != 0xFF {
			return nil, fmt.Errorf("t87: marker expected at offset %d", pos)
		}
		mk := d[pos+1]
		seglen := int(d[pos+2])<<8 | int(d[pos+3])
		if seglen < 2 || pos+2+seglen > len(d) {
			return nil, fmt.Errorf("t87: bad segment length at offset %d", pos)
		}
		seg := d[pos+4 : pos+2+seglen]
		pos += 2 + seglen
		switch mk {
		case 0xF7: // SOF55
			if len(seg) < 6 {
				return nil, errors.New("t87: short SOF55")
			}
			img.P = int(seg[0])
			img.H = int(seg[1])<<8 | int(seg[2])
			img.W = int(seg[3])<<8 | int(seg[4])
			img.NC = int(seg[5])
			if len(seg) != 6+3*img.NC {
				return nil, errors.New("t87: SOF55 length does not match Nf")
			}
			for i := 0; i < img.NC; i++ {
				if seg[6+3*i+1] != 0x11 {
					return nil, errors.New("t87: sub-sampling not supported")
				}
			}
			if img.P < 2 || img.P > 16 || img.W == 0 || img.H == 0 || img.NC < 1 || img.NC > 4 {
				return nil, errors.New("t87: unsupported frame parameters")
			}
			haveFrame = true
			continue
		case 0xF8:
			return nil, errors.New("t87: LSE segment present (default parameters expected)")
		case 0xDA:
			if !haveFrame {
				return nil, errors.New("t87: SOS before SOF55")
			}
			if len(seg) < 1 || int(seg[0]) != img.NC || len(seg) != 1+2*img.NC+3 {
				return nil, errors.New("t87: SOS does not cover all frame components in one scan")
			}
			img.Near = int(seg[len(seg)-3])
			img.ILV = int(seg[len(seg)-2])
			if seg[len(seg)-1] != 0 {
				return nil, errors.New("t87: point transform not supported")
			}
			if (img.NC == 1 && img.ILV != 0) || (img.NC > 1 && img.ILV != 2) {
				return nil, fmt.Errorf("t87: unsupported ILV=%d for %d components", img.ILV, img.NC)
			}
		default:
			continue // APPn, COM, ...: skipped
		}
		break
	}
	// entropy-coded segment: up to the next marker (0xFF followed by a byte with MSB set)
	end := pos
	for {
		if end+1 >= len(d) {
			return nil, errors.New("t87: no marker after entropy-coded segment")
		}
		if d[end] == 0xFF && d[end+1]&0x80 != 0 {
			break
		}
		end++
	}
	if d[end+1] != 0xD9 {
		return nil, fmt.Errorf("t87: marker FF%02X after scan, EOI expected", d[end+1])
	}
	if end+2 != len(d) {
		return nil, errors.New("t87: data after EOI")
	}
	br := &verifT87Bits{d: d[pos:end]}
	s := verifT87NewState(img.P, img.Near, br)
	img.T1, img.T2, img.T3 = s.t1, s.t2, s.t3

	w, h, nc := img.W, img.H, img.NC
	plane := make([][][]int, nc) // plane[c][y][x]
	for c := range plane {
		plane[c] = make([][]int, h)
		for y := range plane[c] {
			plane[c][y] = make([]int, w)
		}
	}
	// causal template with the edge rules of A.2.1 / Figure 3
	neigh := func(c, x, y int) (ra, rb, rc, rd int) {
		pl := plane[c]
		if y > 0 {
			rb = pl[y-1][x]
			if x < w-1 {
				rd = pl[y-1][x+1]
			} else {
				rd = rb
			}
		}
		if x > 0 {
			ra = pl[y][x-1]
			if y > 0 {
				rc = pl[y-1][x-1]
			}
		} else {
			ra = rb // first sample of a line: Ra = Rb
			if y > 1 {
				rc = pl[y-2][0] // = Ra used for the first sample of the previous line
			}
		}
		return
	}
	absLE := func(v int) bool {
		if v < 0 {
			v = -v
		}
		return v <= s.near
	}
	var ra, rb, rc, rd [4]int
	for y := 0; y < h; y++ {
		x := 0
		for x < w {
			runMode := true
			for c := 0; c < nc; c++ {
				ra[c], rb[c], rc[c], rd[c] = neigh(c, x, y)
				if !(absLE(rd[c]-rb[c]) && absLE(rb[c]-rc[c]) && absLE(rc[c]-ra[c])) {
					runMode = false
				}
			}
			if !runMode {
				for c := 0; c < nc; c++ {
					v, err := s.regular(ra[c], rb[c], rc[c], s.quant(rd[c]-rb[c]), s.quant(rb[c]-rc[c]), s.quant(rc[c]-ra[c]))
					if err != nil {
						return nil, fmt.Errorf("%w (regular mode x=%d y=%d c=%d)", err, x, y, c)
					}
					plane[c][y][x] = v
				}
				x++
				continue
			}
			// run mode (A.7.1 / Annex F): RUNval = Ra per component
			var runval [4]int
			copy(runval[:], ra[:])
			interrupted := false
			for x < w {
				r, err := br.bit()
				if err != nil {
					return nil, fmt.Errorf("%w (run mode x=%d y=%d)", err, x, y)
				}
				if r == 1 {
					full := 1 << verifT87J[s.runIndex]
					cnt := full
					if w-x < cnt {
						cnt = w - x
					}
					for i := 0; i < cnt; i++ {
						for c := 0; c < nc; c++ {
							plane[c][y][x+i] = runval[c]
						}
					}
					x += cnt
					if cnt == full && s.runIndex < 31 {
						s.runIndex++
					}
					continue
				}
				cnt, err := br.bits(int(verifT87J[s.runIndex]))
				if err != nil {
					return nil, fmt.Errorf("%w (run length x=%d y=%d)", err, x, y)
				}
				if x+cnt >= w {
					return nil, fmt.Errorf("t87: run of %d followed by an interruption does not fit the line (x=%d y=%d)", cnt, x, y)
				}
				for i := 0; i < cnt; i++ {
					for c := 0; c < nc; c++ {
						plane[c][y][x+i] = runval[c]
					}
				}
				x += cnt
				interrupted = true
				break
			}
			if !interrupted {
				continue // run ended at the end of the line
			}
			for c := 0; c < nc; c++ {
				a, b, _, _ := neigh(c, x, y)
				v, err := s.runInterruption(a, b, nc > 1)
				if err != nil {
					return nil, fmt.Errorf("%w (run interruption x=%d y=%d c=%d)", err, x, y, c)
				}
				plane[c][y][x] = v
			}
			if s.runIndex > 0 {
				s.runIndex--
			}
			x++
		}
	}
	img.Samples = make([]int, 0, w*h*nc)
	for y := 0; y < h; y++ {
		for x := 0; x < w; x++ {
			for c := 0; c < nc; c++ {
				img.Samples = append(img.Samples, plane[c][y][x])
			}
		}
	}
	for {
		x, err := br.bit()
		if err != nil {
			break
		}
		img.TrailingBits++
		if x != 0 {
			img.TrailingNonZero = true
		}
	}
	return img, nil
}
