package lossless

// Bounded stand-in tests for C03 (JPEG-LS lossless: exact reconstruction at every bit depth).
//
//   TestVerif_C03_RoundTripStructured   Encode->Decode over P x components x sizes x contents (seeded)
//   TestVerif_C03_RoundTripExhaustive   every image up to 3x3 at P=2 and up to 2x2 at P=4
//   TestVerif_C03_WrapMinimal           smallest images built from range-boundary values, per-P failure counts
//   TestVerif_C03_GolombMappedValue     GolombWriter.EncodeMappedValue -> GolombReader.DecodeValue
//   TestVerif_C03_RunLength             RunModeScanner.EncodeRunLength -> DecodeRunLength
//
// The statement executed by the three round-trip tests is C03 verbatim: Decode(Encode(img)) returns
// exactly the input samples and the same width, height, component count and precision.

import (
	"bytes"
	"fmt"
	"sort"
	"strings"
	"testing"
)

// verifC03RoundTrip runs Encode->Decode on the real package functions. why=="" means the
// property held; otherwise why is a compact key=value description. Panics are reported.
func verifC03RoundTrip(src []int, w, h, c, p int) (why string) {
	defer func() {
		if r := recover(); r != nil {
			why = fmt.Sprintf("panic=%q", fmt.Sprint(r))
		}
	}()
	enc, err := Encode(verifJlsPack(src, p), w, h, c, p)
	if err != nil {
		return fmt.Sprintf("encode_err=%q", err.Error())
	}
	out, dw, dh, dc, dp, err := Decode(enc)
	if err != nil {
		return fmt.Sprintf("decode_err=%q", err.Error())
	}
	if dw != w || dh != h || dc != c || dp != p {
		return fmt.Sprintf("geometry got=%dx%dx%d/P%d", dw, dh, dc, dp)
	}
	got, ok := verifJlsUnpack(out, p, w*h*c)
	if !ok {
		return fmt.Sprintf("decoded_len=%d want_samples=%d", len(out), w*h*c)
	}
	if i := verifJlsFirstDiff(src, got); i >= 0 {
		n := 0
		for j := range src {
			if src[j] != got[j] {
				n++
			}
		}
		return fmt.Sprintf("first_diff_idx=%d want=%d got=%d wrong_samples=%d/%d", i, src[i], got[i], n, len(src))
	}
	return ""
}

// verifJlsPerP keeps per-precision case / failure counts.
type verifJlsPerP struct {
	cases, fails [17]int
	minimal      [17]string
}

func (pp *verifJlsPerP) String() string {
	var sb strings.Builder
	for p := 2; p <= 16; p++ {
		if pp.cases[p] == 0 {
			continue
		}
		if sb.Len() > 0 {
			sb.WriteByte(',')
		}
		fmt.Fprintf(&sb, "P%d:%d/%d", p, pp.fails[p], pp.cases[p])
	}
	return sb.String()
}

func TestVerif_C03_RoundTripStructured(t *testing.T) {
	type size struct{ w, h int }
	sizes := []size{{1, 1}, {1, 2}, {2, 1}, {2, 2}, {3, 3}, {1, 17}, {17, 1}, {8, 8}, {33, 5}, {40, 40}}
	reps := 3
	big := map[size]bool{} // sizes visited with a single variant
	if verifJlsThorough() {
		sizes = append(sizes, size{64, 64}, size{300, 3}, size{5, 70}, size{512, 512}, size{65535, 1}, size{1, 4099})
		big[size{512, 512}], big[size{65535, 1}] = true, true
		reps = 12
	}
	var sz []string
	for _, s := range sizes {
		sz = append(sz, fmt.Sprintf("%dx%d", s.w, s.h))
	}
	rep := verifJlsNewReport(t, "TestVerif_C03_RoundTripStructured", fmt.Sprintf(
		"lossless.Encode->Decode; P in 2..16 x components {1,3} x WxH {%s} x contents {%s} x %d seeded variants (1 for sizes above 60000 samples) (seed %d)",
		strings.Join(sz, ","), strings.Join(verifJlsContentKinds, ","), reps, verifJlsSeed()))
	var pp verifJlsPerP
	perKind := map[string]int{}
	for p := 2; p <= 16; p++ {
		for _, c := range []int{1, 3} {
			for _, s := range sizes {
				for _, kind := range verifJlsContentKinds {
					for v := 0; v < reps; v++ {
						if v > 0 && big[s] {
							break
						}
						r := verifJlsNewRNG(fmt.Sprintf("c03s/%d/%d/%dx%d/%s/%d", p, c, s.w, s.h, kind, v))
						src := verifJlsGenImage(kind, s.w, s.h, c, p, 0, r)
						rep.cases++
						pp.cases[p]++
						if why := verifC03RoundTrip(src, s.w, s.h, c, p); why != "" {
							pp.fails[p]++
							perKind[kind]++
							rep.fail("P=%d comps=%d w=%d h=%d kind=%s variant=%d %s src=%s", p, c, s.w, s.h, kind, v, why, verifJlsFmtSamples(src))
						}
					}
				}
			}
		}
	}
	if rep.fails > 0 {
		var ks []string
		for k, n := range perKind {
			ks = append(ks, fmt.Sprintf("%s:%d", k, n))
		}
		sort.Strings(ks)
		rep.summary("summary fails_per_P=%s fails_per_kind=%s", pp.String(), strings.Join(ks, ","))
	}
	rep.flush()
}

func TestVerif_C03_RoundTripExhaustive(t *testing.T) {
	type cfg struct{ p, c, w, h, stride int }
	var cfgs []cfg
	// P=2: every image up to 3x3 (1 component); 3 components: every image with up to 3 pixels.
	stride33 := 1 // the whole 3x3 set takes only a few seconds; kept as a knob
	for w := 1; w <= 3; w++ {
		for h := 1; h <= 3; h++ {
			st := 1
			if w*h == 9 {
				st = stride33
			}
			cfgs = append(cfgs, cfg{2, 1, w, h, st})
		}
	}
	maxPix3 := 2
	if verifJlsThorough() {
		maxPix3 = 3
	}
	for w := 1; w <= 3; w++ {
		for h := 1; h <= 3; h++ {
			if w*h <= maxPix3 {
				cfgs = append(cfgs, cfg{2, 3, w, h, 1})
			}
		}
	}
	// P=4: every image up to 2x2 (1 component); 3 components: 1x1
	for w := 1; w <= 2; w++ {
		for h := 1; h <= 2; h++ {
			cfgs = append(cfgs, cfg{4, 1, w, h, 1})
		}
	}
	cfgs = append(cfgs, cfg{4, 3, 1, 1, 1})
	// P=3: every image up to 2x2 / 1x3 / 3x1 (1 component)
	cfgs = append(cfgs, cfg{3, 1, 1, 1, 1}, cfg{3, 1, 2, 1, 1}, cfg{3, 1, 1, 2, 1}, cfg{3, 1, 3, 1, 1}, cfg{3, 1, 1, 3, 1}, cfg{3, 1, 2, 2, 1})
	rep := verifJlsNewReport(t, "TestVerif_C03_RoundTripExhaustive", fmt.Sprintf(
		"lossless.Encode->Decode, ALL images: P=2 1 comp WxH<=3x3 (3x3 image-code stride %d), P=2 3 comps up to %d pixels, P=4 1 comp WxH<=2x2, P=4 3 comps 1x1, P=3 1 comp {1x1,2x1,1x2,3x1,1x3,2x2}",
		stride33, maxPix3))
	var pp verifJlsPerP
	for _, g := range cfgs {
		n := g.w * g.h * g.c
		base := 1 << uint(g.p)
		total := 1
		for i := 0; i < n; i++ {
			total *= base
		}
		src := make([]int, n)
		start := 0
		if g.stride > 1 {
			start = int(verifJlsSeed() % uint64(g.stride))
		}
		for code := start; code < total; code += g.stride {
			v := code
			for i := 0; i < n; i++ {
				src[i] = v % base
				v /= base
			}
			rep.cases++
			pp.cases[g.p]++
			if why := verifC03RoundTrip(src, g.w, g.h, g.c, g.p); why != "" {
				pp.fails[g.p]++
				rep.fail("P=%d comps=%d w=%d h=%d %s src=%s", g.p, g.c, g.w, g.h, why, verifJlsFmtSamples(src))
			}
		}
	}
	if rep.fails > 0 {
		rep.summary("summary fails_per_P=%s", pp.String())
	}
	rep.flush()
}

// verifC03BoundaryValues returns the values that produce prediction errors at the ends and at the
// modulo boundary of the sample range.
func verifC03BoundaryValues(p int) []int {
	maxval := (1 << uint(p)) - 1
	half := (maxval + 1) / 2
	cand := []int{0, 1, half - 1, half, half + 1, maxval - 1, maxval}
	seen := map[int]bool{}
	var out []int
	for _, v := range cand {
		if v >= 0 && v <= maxval && !seen[v] {
			seen[v] = true
			out = append(out, v)
		}
	}
	sort.Ints(out)
	return out
}

func TestVerif_C03_WrapMinimal(t *testing.T) {
	// images are enumerated from the smallest upwards so that the first failure per P is a minimal one
	type size struct{ w, h int }
	sizes := []size{{1, 1}, {2, 1}, {1, 2}, {3, 1}, {1, 3}, {2, 2}}
	if verifJlsThorough() {
		sizes = append(sizes, size{4, 1}, size{1, 4}, size{5, 1}, size{1, 5}, size{3, 2}, size{2, 3})
	}
	var sz []string
	for _, s := range sizes {
		sz = append(sz, fmt.Sprintf("%dx%d", s.w, s.h))
	}
	rep := verifJlsNewReport(t, "TestVerif_C03_WrapMinimal", fmt.Sprintf(
		"lossless.Encode->Decode, 1 component, P in 2..16, WxH in {%s} (ascending), every assignment of the boundary values {0,1,R/2-1,R/2,R/2+1,MAXVAL-1,MAXVAL} (R=2^P) to the samples; 1x1: every value (quick tier: for P<=12)",
		strings.Join(sz, ",")))
	var pp verifJlsPerP
	for p := 2; p <= 16; p++ {
		for _, s := range sizes {
			vals := verifC03BoundaryValues(p)
			if s.w*s.h == 1 && (p <= 12 || verifJlsThorough()) {
				vals = vals[:0]
				for v := 0; v < 1<<uint(p); v++ { // every 1x1 image
					vals = append(vals, v)
				}
			}
			n := s.w * s.h
			total := 1
			for i := 0; i < n; i++ {
				total *= len(vals)
			}
			src := make([]int, n)
			for code := 0; code < total; code++ {
				v := code
				for i := 0; i < n; i++ {
					src[i] = vals[v%len(vals)]
					v /= len(vals)
				}
				rep.cases++
				pp.cases[p]++
				if why := verifC03RoundTrip(src, s.w, s.h, 1, p); why != "" {
					pp.fails[p]++
					if pp.minimal[p] == "" {
						pp.minimal[p] = fmt.Sprintf("P%d:%dx%d%s", p, s.w, s.h, verifJlsFmtSamples(src))
						rep.fail("P=%d comps=1 w=%d h=%d %s src=%s", p, s.w, s.h, why, verifJlsFmtSamples(src))
					} else {
						rep.fails++
					}
				}
			}
		}
	}
	if rep.fails > 0 {
		var mins []string
		for p := 2; p <= 16; p++ {
			if pp.minimal[p] != "" {
				mins = append(mins, pp.minimal[p])
			}
		}
		rep.summary("summary fails_per_P=%s", pp.String())
		rep.summary("summary first_failing_image_per_P=%s", strings.Join(mins, ";"))
	}
	rep.flush()
}

// verifC03GolombCase encodes prefix | LG(k,limit)(m) | sentinel and decodes it again.
func verifC03GolombCase(k, m, limit, qbpp, phase int) (why string) {
	defer func() {
		if r := recover(); r != nil {
			why = fmt.Sprintf("panic=%q", fmt.Sprint(r))
		}
	}()
	var buf bytes.Buffer
	gw := NewGolombWriter(&buf)
	if phase > 0 {
		if err := gw.WriteBits((uint32(1)<<uint(phase))-1, phase); err != nil { // ones: 8 or more give a stuffed 0xFF
			return fmt.Sprintf("prefix_err=%q", err.Error())
		}
	}
	if err := gw.EncodeMappedValue(k, m, limit, qbpp); err != nil {
		return fmt.Sprintf("encode_err=%q", err.Error())
	}
	if err := gw.WriteBits(5, 3); err != nil {
		return fmt.Sprintf("sentinel_err=%q", err.Error())
	}
	if err := gw.Flush(); err != nil {
		return fmt.Sprintf("flush_err=%q", err.Error())
	}
	gr := NewGolombReader(bytes.NewReader(buf.Bytes()))
	if phase > 0 {
		pv, err := gr.ReadBits(phase)
		if err != nil || pv != (uint32(1)<<uint(phase))-1 {
			return fmt.Sprintf("prefix_readback=%d err=%v bytes=%x", pv, err, buf.Bytes())
		}
	}
	got, err := gr.DecodeValue(k, limit, qbpp)
	if err != nil {
		return fmt.Sprintf("decode_err=%q bytes=%x", err.Error(), buf.Bytes())
	}
	if got != m {
		return fmt.Sprintf("decoded=%d bytes=%x", got, buf.Bytes())
	}
	sv, err := gr.ReadBits(3)
	if err != nil || sv != 5 {
		return fmt.Sprintf("sentinel_readback=%d err=%v (code length differs) bytes=%x", sv, err, buf.Bytes())
	}
	return ""
}

func TestVerif_C03_GolombMappedValue(t *testing.T) {
	phases := []int{0, 1, 3, 7, 8, 12}
	riJ := []int{0, 7, 15} // run-interruption limits LIMIT-J-1 for these J values in addition to LIMIT
	samples := 150
	if verifJlsThorough() {
		phases = []int{0, 1, 2, 3, 4, 5, 6, 7, 8, 9, 12, 15, 16, 17}
		riJ = []int{0, 1, 2, 3, 4, 5, 6, 7, 8, 9, 10, 11, 12, 13, 14, 15}
		samples = 600
	}
	rep := verifJlsNewReport(t, "TestVerif_C03_GolombMappedValue", fmt.Sprintf(
		"GolombWriter.EncodeMappedValue->GolombReader.DecodeValue (+3-bit sentinel); k in 0..16 x (LIMIT,qbpp) of ComputeCodingParameters(2^P-1,0) for P in 2..16, limits {LIMIT} u {LIMIT-J-1 : J in %v} x mapped value in 0..2^qbpp (all for P<=10, else boundaries + %d seeded) x writer phase (leading 1-bits) in %v",
		riJ, samples, phases))
	for p := 2; p <= 16; p++ {
		cp := ComputeCodingParameters((1<<uint(p))-1, 0, 64)
		limits := []int{cp.Limit}
		for _, j := range riJ {
			limits = append(limits, cp.Limit-j-1)
		}
		top := 1 << uint(cp.Qbpp)
		for _, limit := range limits {
			thr := limit - cp.Qbpp - 1
			if thr < 1 {
				continue // cannot arise: LIMIT-J-1-qbpp-1 >= 1 for P in 2..16
			}
			for k := 0; k <= 16; k++ {
				var ms []int
				if p <= 10 {
					for m := 0; m <= top; m++ {
						ms = append(ms, m)
					}
				} else {
					seen := map[int]bool{}
					add := func(m int) {
						if m >= 0 && m <= top && !seen[m] {
							seen[m] = true
							ms = append(ms, m)
						}
					}
					for _, hb := range []int{0, 1, 15, 16, 29, 30, 31, 32, 33, thr - 2, thr - 1, thr, thr + 1} {
						for d := -1; d <= 1; d++ {
							add(hb<<uint(k) + d)
							add((hb+1)<<uint(k) - 1 + d)
						}
					}
					for _, m := range []int{0, 1, 2, 3, top - 2, top - 1, top, top / 2, top/2 - 1, top/2 + 1, 254, 255, 256, 257, 511, 512, 65535} {
						add(m)
					}
					r := verifJlsNewRNG(fmt.Sprintf("c03g/%d/%d/%d", p, limit, k))
					for i := 0; i < samples; i++ {
						add(r.intn(top + 1))
					}
				}
				for _, m := range ms {
					for _, ph := range phases {
						rep.cases++
						if why := verifC03GolombCase(k, m, limit, cp.Qbpp, ph); why != "" {
							rep.fail("P=%d k=%d mapped=%d limit=%d qbpp=%d phase=%d %s", p, k, m, limit, cp.Qbpp, ph, why)
						}
					}
				}
			}
		}
	}
	rep.flush()
}

func verifC03RunLengthCase(tr Traits, run, remaining, idx0, phase int) (why string) {
	defer func() {
		if r := recover(); r != nil {
			why = fmt.Sprintf("panic=%q", fmt.Sprint(r))
		}
	}()
	var buf bytes.Buffer
	gw := NewGolombWriter(&buf)
	if phase > 0 {
		if err := gw.WriteBits((uint32(1)<<uint(phase))-1, phase); err != nil {
			return fmt.Sprintf("prefix_err=%q", err.Error())
		}
	}
	es := NewRunModeScanner(tr)
	es.RunIndex = idx0
	if err := es.EncodeRunLength(gw, run, run == remaining); err != nil {
		return fmt.Sprintf("encode_err=%q", err.Error())
	}
	if err := gw.WriteBits(5, 3); err != nil {
		return fmt.Sprintf("sentinel_err=%q", err.Error())
	}
	if err := gw.Flush(); err != nil {
		return fmt.Sprintf("flush_err=%q", err.Error())
	}
	gr := NewGolombReader(bytes.NewReader(buf.Bytes()))
	if phase > 0 {
		pv, err := gr.ReadBits(phase)
		if err != nil || pv != (uint32(1)<<uint(phase))-1 {
			return fmt.Sprintf("prefix_readback=%d err=%v", pv, err)
		}
	}
	ds := NewRunModeScanner(tr)
	ds.RunIndex = idx0
	got, err := ds.DecodeRunLength(gr, remaining)
	if err != nil {
		return fmt.Sprintf("decode_err=%q bytes=%x", err.Error(), buf.Bytes())
	}
	if got != run {
		return fmt.Sprintf("decoded_run=%d bytes=%x", got, buf.Bytes())
	}
	if ds.RunIndex != es.RunIndex {
		return fmt.Sprintf("runindex_after enc=%d dec=%d", es.RunIndex, ds.RunIndex)
	}
	sv, err := gr.ReadBits(3)
	if err != nil || sv != 5 {
		return fmt.Sprintf("sentinel_readback=%d err=%v (code length differs) bytes=%x", sv, err, buf.Bytes())
	}
	return ""
}

func TestVerif_C03_RunLength(t *testing.T) {
	phases := []int{0, 5}
	if verifJlsThorough() {
		phases = []int{0, 1, 5, 7, 8, 13}
	}
	rep := verifJlsNewReport(t, "TestVerif_C03_RunLength", fmt.Sprintf(
		"RunModeScanner.EncodeRunLength->DecodeRunLength (+3-bit sentinel, RunIndex equality); remaining-in-line R in 1..301 x run length 0..min(R,300) (end-of-line iff run==R) x initial RunIndex 0..31 x writer phase %v",
		phases))
	tr := NewTraits(255, 0, 64)
	for remaining := 1; remaining <= 301; remaining++ {
		for run := 0; run <= remaining && run <= 300; run++ {
			for idx0 := 0; idx0 <= 31; idx0++ {
				for _, ph := range phases {
					rep.cases++
					if why := verifC03RunLengthCase(tr, run, remaining, idx0, ph); why != "" {
						rep.fail("run=%d remaining=%d runindex0=%d phase=%d %s", run, remaining, idx0, ph, why)
					}
				}
			}
		}
	}
	rep.flush()
}
