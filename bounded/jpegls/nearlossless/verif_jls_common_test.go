package nearlossless

// Shared helpers for the bounded stand-in tests (C03, C07, C14) of the JPEG-LS packages.
// NOTE: this file exists twice (jpegls/lossless and jpegls/nearlossless) with only the
// package clause differing; test helpers cannot be shared across packages without adding
// a non-test package to /repo.

import (
	"fmt"
	"os"
	"runtime/debug"
	"strconv"
	"strings"
	"testing"
)

// The codecs allocate several hundred small context objects per Encode/Decode call; with
// hundreds of thousands of tiny images the collector dominates the run time. Relaxing the GC
// target only affects this test binary.
var _ = debug.SetGCPercent(800)

// verifJlsThorough reports whether VERIF_TIER=thorough was requested (default: quick).
func verifJlsThorough() bool { return os.Getenv("VERIF_TIER") == "thorough" }

// verifJlsSeed returns VERIF_SEED (default 1).
func verifJlsSeed() uint64 {
	s, err := strconv.ParseInt(strings.TrimSpace(os.Getenv("VERIF_SEED")), 10, 64)
	if err != nil {
		return 1
	}
	return uint64(s)
}

// verifJlsRNG is a splitmix64 generator; deterministic for a given (seed, stream label).
type verifJlsRNG struct{ s uint64 }

func verifJlsNewRNG(label string) *verifJlsRNG {
	h := uint64(1469598103934665603)
	for i := 0; i < len(label); i++ {
		h ^= uint64(label[i])
		h *= 1099511628211
	}
	return &verifJlsRNG{s: h ^ (verifJlsSeed() * 0x9E3779B97F4A7C15)}
}

func (r *verifJlsRNG) next() uint64 {
	r.s += 0x9E3779B97F4A7C15
	z := r.s
	z = (z ^ (z >> 30)) * 0xBF58476D1CE4E5B9
	z = (z ^ (z >> 27)) * 0x94D049BB133111EB
	return z ^ (z >> 31)
}

// intn returns a value in [0, n).
func (r *verifJlsRNG) intn(n int) int {
	if n <= 1 {
		return 0
	}
	return int(r.next() % uint64(n))
}

// verifJlsReport accumulates the result of one bounded test and prints the protocol lines.
type verifJlsReport struct {
	t      *testing.T
	name   string
	domain string
	cases  int
	fails  int
	lines  []string
	extra  []string // summary lines printed after the first failing cases (still within the 5-line cap)
}

func verifJlsNewReport(t *testing.T, name, domain string) *verifJlsReport {
	return &verifJlsReport{t: t, name: name, domain: strings.ReplaceAll(domain, "\"", "'")}
}

// fail records one failing case (only the first few descriptions are kept).
func (r *verifJlsReport) fail(format string, args ...interface{}) {
	r.fails++
	if len(r.lines) < 4 {
		r.lines = append(r.lines, fmt.Sprintf(format, args...))
	}
}

// summary adds a grouped summary line (e.g. per-P failure counts).
func (r *verifJlsReport) summary(format string, args ...interface{}) {
	r.extra = append(r.extra, fmt.Sprintf(format, args...))
}

// flush prints BOUNDED first (govc attaches the BOUNDED-FAIL lines to an existing result),
// then at most 5 BOUNDED-FAIL lines.
func (r *verifJlsReport) flush() {
	fmt.Printf("BOUNDED name=%s cases=%d fails=%d domain=\"%s\"\n", r.name, r.cases, r.fails, r.domain)
	if r.fails == 0 {
		return
	}
	out := r.lines
	room := 5 - len(r.extra)
	if room < 1 {
		room = 1
	}
	if len(out) > room {
		out = out[:room]
	}
	out = append(out, r.extra...)
	if len(out) > 5 {
		out = out[:5]
	}
	for _, l := range out {
		fmt.Printf("BOUNDED-FAIL name=%s %s\n", r.name, l)
	}
	r.t.Fail()
}

// verifJlsPack stores samples in the low P bits of 8-bit (P<=8) or 16-bit LE (P>8) containers.
func verifJlsPack(samples []int, p int) []byte {
	if p <= 8 {
		b := make([]byte, len(samples))
		for i, v := range samples {
			b[i] = byte(v)
		}
		return b
	}
	b := make([]byte, 2*len(samples))
	for i, v := range samples {
		b[2*i] = byte(v)
		b[2*i+1] = byte(v >> 8)
	}
	return b
}

// verifJlsUnpack is the inverse of verifJlsPack; ok=false if the length does not fit n samples.
func verifJlsUnpack(b []byte, p int, n int) ([]int, bool) {
	if p <= 8 {
		if len(b) != n {
			return nil, false
		}
		s := make([]int, n)
		for i := range s {
			s[i] = int(b[i])
		}
		return s, true
	}
	if len(b) != 2*n {
		return nil, false
	}
	s := make([]int, n)
	for i := range s {
		s[i] = int(b[2*i]) | int(b[2*i+1])<<8
	}
	return s, true
}

// verifJlsFmtSamples prints a (short) sample list for failure descriptions.
func verifJlsFmtSamples(s []int) string {
	const maxShown = 48
	var sb strings.Builder
	sb.WriteByte('[')
	for i, v := range s {
		if i >= maxShown {
			fmt.Fprintf(&sb, ",...(%d more)", len(s)-maxShown)
			break
		}
		if i > 0 {
			sb.WriteByte(',')
		}
		sb.WriteString(strconv.Itoa(v))
	}
	sb.WriteByte(']')
	return sb.String()
}

// verifJlsFirstDiff returns the index of the first differing sample, or -1.
func verifJlsFirstDiff(a, b []int) int {
	n := len(a)
	if len(b) < n {
		n = len(b)
	}
	for i := 0; i < n; i++ {
		if a[i] != b[i] {
			return i
		}
	}
	if len(a) != len(b) {
		return n
	}
	return -1
}

// verifJlsContentKinds lists the image contents used by the structured round-trip tests.
var verifJlsContentKinds = []string{
	"noise",     // seeded uniform noise over [0,MAXVAL]
	"twolevel",  // random 0 / MAXVAL
	"const",     // one constant value per component (0, MAXVAL or random)
	"runs",      // long runs with rare interruptions (isolated outliers and level changes)
	"runseol",   // noisy line head, flat tail: runs that end exactly at the line end
	"gradient",  // ramps (horizontal / vertical / diagonal, clipped or wrapping sawtooth)
	"altext",    // alternating extremes 0 / MAXVAL (checkerboard, columns, rows)
	"halfrange", // values jumping by about RANGE/2 (error values at the modulo boundary)
}

// verifJlsGenImage generates w*h*c interleaved samples of the given content kind, all in [0, 2^p-1].
// `near` only shapes the near-lossless specific kinds; it is ignored by the others.
func verifJlsGenImage(kind string, w, h, c, p, near int, r *verifJlsRNG) []int {
	maxval := (1 << uint(p)) - 1
	rng := maxval + 1
	s := make([]int, w*h*c)
	at := func(x, y, k int) int { return (y*w+x)*c + k }
	clampv := func(v int) int {
		if v < 0 {
			return 0
		}
		if v > maxval {
			return maxval
		}
		return v
	}
	switch kind {
	case "noise":
		for i := range s {
			s[i] = r.intn(rng)
		}
	case "twolevel":
		for i := range s {
			if r.intn(2) == 1 {
				s[i] = maxval
			}
		}
	case "const":
		var v [3]int
		mode := r.intn(4)
		for k := 0; k < c; k++ {
			switch mode {
			case 0:
				v[k] = 0
			case 1:
				v[k] = maxval
			default:
				v[k] = r.intn(rng)
			}
		}
		for i := range s {
			s[i] = v[i%c]
		}
	case "runs":
		// pixel-level structure shared by the components so that ILV=2 run mode is reached
		var level [3]int
		for k := 0; k < c; k++ {
			level[k] = r.intn(rng)
		}
		for y := 0; y < h; y++ {
			for x := 0; x < w; x++ {
				switch r.intn(24) {
				case 0: // isolated outlier (in one or all components), run continues afterwards
					only := -1
					if r.intn(2) == 0 {
						only = r.intn(c)
					}
					for k := 0; k < c; k++ {
						s[at(x, y, k)] = level[k]
						if only < 0 || only == k {
							switch r.intn(3) {
							case 0:
								s[at(x, y, k)] = r.intn(rng)
							case 1:
								s[at(x, y, k)] = (level[k] + rng/2 + r.intn(3) - 1 + rng) % rng
							default:
								s[at(x, y, k)] = maxval - level[k]
							}
						}
					}
					continue
				case 1: // level change
					if r.intn(3) == 0 {
						for k := 0; k < c; k++ {
							level[k] = r.intn(rng)
						}
					}
				}
				for k := 0; k < c; k++ {
					s[at(x, y, k)] = level[k]
				}
			}
		}
	case "runseol":
		var tail [3]int
		for k := 0; k < c; k++ {
			tail[k] = r.intn(rng)
		}
		for y := 0; y < h; y++ {
			head := r.intn(w + 1) // 0..w noisy samples, remainder flat up to the line end
			if r.intn(4) == 0 {
				head = 0
			}
			for x := 0; x < w; x++ {
				for k := 0; k < c; k++ {
					if x < head {
						s[at(x, y, k)] = r.intn(rng)
					} else {
						s[at(x, y, k)] = tail[k]
					}
				}
			}
		}
	case "gradient":
		mode := r.intn(4)
		step := 1 + r.intn(1+rng/4)
		if r.intn(2) == 0 {
			step = 1 + r.intn(3)
		}
		for y := 0; y < h; y++ {
			for x := 0; x < w; x++ {
				for k := 0; k < c; k++ {
					var t int
					switch mode {
					case 0:
						t = x
					case 1:
						t = y
					default:
						t = x + y
					}
					v := t*step + k
					if mode == 3 {
						v %= rng // wrapping sawtooth: full-range falling edges
					}
					if k == 1 {
						v = maxval - clampv(v) // descending ramp in the second component
					}
					s[at(x, y, k)] = clampv(v)
				}
			}
		}
	case "altext":
		mode := r.intn(3)
		for y := 0; y < h; y++ {
			for x := 0; x < w; x++ {
				for k := 0; k < c; k++ {
					var bit int
					switch mode {
					case 0:
						bit = (x + y + k) & 1
					case 1:
						bit = (x + k) & 1
					default:
						bit = (y + k) & 1
					}
					s[at(x, y, k)] = bit * maxval
				}
			}
		}
	case "halfrange":
		base := r.intn(rng)
		for i := range s {
			v := base
			if r.intn(2) == 1 {
				v = base + rng/2 + r.intn(3) - 1
			}
			s[i] = ((v % rng) + rng) % rng
			if r.intn(8) == 0 {
				base = r.intn(rng)
			}
		}
	case "nearedges": // samples within NEAR of 0 and of MAXVAL (reconstruction clamp)
		for i := range s {
			d := r.intn(near + 1)
			if d > maxval {
				d = maxval
			}
			if r.intn(2) == 0 {
				s[i] = d
			} else {
				s[i] = maxval - d
			}
		}
	case "nearramp": // ramps whose step is 2*NEAR+1 (+-1): run / regular mode boundary
		step := 2*near + 1 + (r.intn(3) - 1)
		if step < 1 {
			step = 1
		}
		mode := r.intn(3)
		for y := 0; y < h; y++ {
			for x := 0; x < w; x++ {
				for k := 0; k < c; k++ {
					t := x
					if mode == 1 {
						t = y
					} else if mode == 2 {
						t = x + y
					}
					v := (t * step) % (2 * rng)
					if v >= rng { // triangle wave keeps the step size without leaving the range
						v = 2*rng - 1 - v
					}
					if k == 1 {
						v = maxval - v
					}
					s[at(x, y, k)] = clampv(v)
				}
			}
		}
	case "nearjitter": // flat level with jitter of amplitude NEAR or NEAR+1 (run continuation vs interruption)
		var level [3]int
		for k := 0; k < c; k++ {
			level[k] = r.intn(rng)
		}
		amp := near
		if r.intn(2) == 0 {
			amp = near + 1
		}
		for i := range s {
			s[i] = clampv(level[i%c] + r.intn(2*amp+1) - amp)
		}
	default:
		panic("verifJlsGenImage: unknown kind " + kind)
	}
	return s
}
