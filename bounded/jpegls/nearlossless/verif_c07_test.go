package nearlossless

// Bounded stand-in tests for C07 (JPEG-LS near-lossless: every reconstructed sample within NEAR).
//
//   TestVerif_C07_BoundStructured   P x NEAR {0,1,2,3,7,max} x components x sizes x contents
//   TestVerif_C07_EveryNear         every NEAR in 0..min(255,MAXVAL/2) for every P with small images
//   TestVerif_C07_ExhaustiveSmall   all tiny images at P=2,3,4 for every admissible NEAR
//
// Statement executed (C07 verbatim): Decode(Encode(img, NEAR)) returns the original geometry, the
// requested NEAR, and samples with |dec-src| <= NEAR and 0 <= dec <= 2^P-1; NEAR=0 is exact.

import (
	"fmt"
	"sort"
	"strings"
	"testing"
)

func verifC07NearMax(p int) int {
	m := ((1 << uint(p)) - 1) / 2
	if m > 255 {
		m = 255
	}
	return m
}

// verifC07Check runs Encode(NEAR)->Decode on the real package functions; "" means the property held.
func verifC07Check(src []int, w, h, c, p, near int) (why string) {
	defer func() {
		if r := recover(); r != nil {
			why = fmt.Sprintf("panic=%q", fmt.Sprint(r))
		}
	}()
	enc, err := Encode(verifJlsPack(src, p), w, h, c, p, near)
	if err != nil {
		return fmt.Sprintf("encode_err=%q", err.Error())
	}
	out, dw, dh, dc, dp, dnear, err := Decode(enc)
	if err != nil {
		return fmt.Sprintf("decode_err=%q", err.Error())
	}
	if dw != w || dh != h || dc != c || dp != p {
		return fmt.Sprintf("geometry got=%dx%dx%d/P%d", dw, dh, dc, dp)
	}
	if dnear != near {
		return fmt.Sprintf("reported_near=%d", dnear)
	}
	got, ok := verifJlsUnpack(out, p, w*h*c)
	if !ok {
		return fmt.Sprintf("decoded_len=%d want_samples=%d", len(out), w*h*c)
	}
	maxval := (1 << uint(p)) - 1
	bad, first, worst := 0, -1, 0
	for i := range src {
		d := got[i] - src[i]
		if d < 0 {
			d = -d
		}
		if d > near || got[i] < 0 || got[i] > maxval {
			if first < 0 {
				first = i
			}
			bad++
			if d > worst {
				worst = d
			}
		}
	}
	if bad > 0 {
		return fmt.Sprintf("first_bad_idx=%d src=%d dec=%d max_abs_err=%d bad_samples=%d/%d", first, src[first], got[first], worst, bad, len(src))
	}
	return ""
}

func verifC07NearSet(p int) []int {
	nmax := verifC07NearMax(p)
	seen := map[int]bool{}
	var out []int
	for _, n := range []int{0, 1, 2, 3, 7, nmax} {
		if n <= nmax && !seen[n] {
			seen[n] = true
			out = append(out, n)
		}
	}
	sort.Ints(out)
	return out
}

var verifC07Kinds = append(append([]string{}, verifJlsContentKinds...), "nearedges", "nearramp", "nearjitter")

type verifC07Counts struct {
	cases, fails map[string]int
}

func (cc *verifC07Counts) add(key string, failed bool) {
	if cc.cases == nil {
		cc.cases, cc.fails = map[string]int{}, map[string]int{}
	}
	cc.cases[key]++
	if failed {
		cc.fails[key]++
	}
}

func (cc *verifC07Counts) String() string {
	var ks []string
	for k, n := range cc.fails {
		ks = append(ks, fmt.Sprintf("%s:%d/%d", k, n, cc.cases[k]))
	}
	sort.Strings(ks)
	if len(ks) > 24 {
		ks = append(ks[:24], fmt.Sprintf("...(%d more)", len(ks)-24))
	}
	return strings.Join(ks, ",")
}

func TestVerif_C07_BoundStructured(t *testing.T) {
	type size struct{ w, h int }
	sizes := []size{{1, 1}, {1, 2}, {2, 1}, {2, 2}, {3, 3}, {1, 17}, {17, 1}, {8, 8}, {33, 5}, {40, 40}}
	reps := 2
	big := map[size]bool{} // sizes visited with a single variant
	if verifJlsThorough() {
		sizes = append(sizes, size{64, 64}, size{300, 3}, size{5, 70}, size{512, 512}, size{65535, 1})
		big[size{512, 512}], big[size{65535, 1}] = true, true
		reps = 8
	}
	var sz []string
	for _, s := range sizes {
		sz = append(sz, fmt.Sprintf("%dx%d", s.w, s.h))
	}
	rep := verifJlsNewReport(t, "TestVerif_C07_BoundStructured", fmt.Sprintf(
		"nearlossless.Encode(NEAR)->Decode: |dec-src|<=NEAR, 0<=dec<=MAXVAL, reported NEAR, geometry; P in 2..16 x NEAR in {0,1,2,3,7,min(255,MAXVAL/2)} x components {1,3} x WxH {%s} x contents {%s} x %d seeded variants (1 for sizes above 60000 samples) (seed %d)",
		strings.Join(sz, ","), strings.Join(verifC07Kinds, ","), reps, verifJlsSeed()))
	var cc verifC07Counts
	for p := 2; p <= 16; p++ {
		for _, near := range verifC07NearSet(p) {
			for _, c := range []int{1, 3} {
				for _, s := range sizes {
					for _, kind := range verifC07Kinds {
						for v := 0; v < reps; v++ {
							if v > 0 && big[s] {
								break
							}
							r := verifJlsNewRNG(fmt.Sprintf("c07s/%d/%d/%d/%dx%d/%s/%d", p, near, c, s.w, s.h, kind, v))
							src := verifJlsGenImage(kind, s.w, s.h, c, p, near, r)
							rep.cases++
							why := verifC07Check(src, s.w, s.h, c, p, near)
							cc.add(fmt.Sprintf("P%02d", p), why != "")
							if why != "" {
								rep.fail("P=%d near=%d comps=%d w=%d h=%d kind=%s variant=%d %s src=%s", p, near, c, s.w, s.h, kind, v, why, verifJlsFmtSamples(src))
							}
						}
					}
				}
			}
		}
	}
	if rep.fails > 0 {
		rep.summary("summary fails_per_P=%s", cc.String())
	}
	rep.flush()
}

func TestVerif_C07_EveryNear(t *testing.T) {
	type img struct {
		kind string
		w, h int
	}
	imgs := []img{{"noise", 9, 5}, {"nearedges", 7, 3}, {"nearramp", 12, 2}, {"nearjitter", 11, 3}, {"halfrange", 6, 4}}
	reps := 2
	if verifJlsThorough() {
		imgs = append(imgs, img{"runs", 40, 6}, img{"twolevel", 8, 8}, img{"noise", 64, 16})
		reps = 4
	}
	var names []string
	for _, im := range imgs {
		names = append(names, fmt.Sprintf("%s %dx%d", im.kind, im.w, im.h))
	}
	rep := verifJlsNewReport(t, "TestVerif_C07_EveryNear", fmt.Sprintf(
		"nearlossless.Encode(NEAR)->Decode bound/range/NEAR/geometry; every P in 2..16 x EVERY NEAR in 0..min(255,MAXVAL/2) x components {1,3} x images {%s} x %d seeded variants (seed %d)",
		strings.Join(names, "; "), reps, verifJlsSeed()))
	var cc verifC07Counts
	for p := 2; p <= 16; p++ {
		for near := 0; near <= verifC07NearMax(p); near++ {
			for _, c := range []int{1, 3} {
				for _, im := range imgs {
					for v := 0; v < reps; v++ {
						r := verifJlsNewRNG(fmt.Sprintf("c07n/%d/%d/%d/%s/%d", p, near, c, im.kind, v))
						src := verifJlsGenImage(im.kind, im.w, im.h, c, p, near, r)
						rep.cases++
						why := verifC07Check(src, im.w, im.h, c, p, near)
						cc.add(fmt.Sprintf("P%02d", p), why != "")
						if why != "" {
							rep.fail("P=%d near=%d comps=%d w=%d h=%d kind=%s variant=%d %s src=%s", p, near, c, im.w, im.h, im.kind, v, why, verifJlsFmtSamples(src))
						}
					}
				}
			}
		}
	}
	if rep.fails > 0 {
		rep.summary("summary fails_per_P=%s", cc.String())
	}
	rep.flush()
}

func TestVerif_C07_ExhaustiveSmall(t *testing.T) {
	type cfg struct{ p, c, w, h int }
	cfgs := []cfg{
		{2, 1, 1, 1}, {2, 1, 2, 1}, {2, 1, 1, 2}, {2, 1, 3, 1}, {2, 1, 1, 3}, {2, 1, 2, 2}, {2, 1, 3, 2}, {2, 1, 2, 3}, {2, 3, 1, 1}, {2, 3, 2, 1}, {2, 3, 1, 2},
		{3, 1, 1, 1}, {3, 1, 2, 1}, {3, 1, 1, 2}, {3, 1, 3, 1}, {3, 1, 1, 3}, {3, 1, 2, 2}, {3, 3, 1, 1},
		{4, 1, 1, 1}, {4, 1, 2, 1}, {4, 1, 1, 2}, {4, 1, 3, 1}, {4, 1, 1, 3}, {4, 3, 1, 1},
		{4, 1, 2, 2},
	}
	if verifJlsThorough() {
		cfgs = append(cfgs, cfg{2, 1, 3, 3}, cfg{3, 1, 4, 1}, cfg{3, 1, 1, 4}, cfg{3, 1, 3, 2}, cfg{3, 1, 2, 3}, cfg{2, 3, 3, 1}, cfg{2, 3, 1, 3})
	}
	var names []string
	for _, g := range cfgs {
		names = append(names, fmt.Sprintf("P%d/%dc/%dx%d", g.p, g.c, g.w, g.h))
	}
	rep := verifJlsNewReport(t, "TestVerif_C07_ExhaustiveSmall", fmt.Sprintf(
		"nearlossless.Encode(NEAR)->Decode bound/range/NEAR/geometry; ALL images of {%s} x every NEAR in 0..MAXVAL/2",
		strings.Join(names, ",")))
	var cc verifC07Counts
	for _, g := range cfgs {
		n := g.w * g.h * g.c
		base := 1 << uint(g.p)
		total := 1
		for i := 0; i < n; i++ {
			total *= base
		}
		src := make([]int, n)
		for near := 0; near <= verifC07NearMax(g.p); near++ {
			for code := 0; code < total; code++ {
				v := code
				for i := 0; i < n; i++ {
					src[i] = v % base
					v /= base
				}
				rep.cases++
				why := verifC07Check(src, g.w, g.h, g.c, g.p, near)
				cc.add(fmt.Sprintf("P%d/near%d", g.p, near), why != "")
				if why != "" {
					rep.fail("P=%d near=%d comps=%d w=%d h=%d %s src=%s", g.p, near, g.c, g.w, g.h, why, verifJlsFmtSamples(src))
				}
			}
		}
	}
	if rep.fails > 0 {
		rep.summary("summary fails_per_P_near=%s", cc.String())
	}
	rep.flush()
}
