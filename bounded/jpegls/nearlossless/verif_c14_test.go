package nearlossless

// Bounded stand-in tests for C14 (T.87 conformance), near-lossless and cross-package part.
//
//   TestVerif_C14_IndependentDecoderNearLossless  streams of nearlossless.Encode decoded by the independent T.87 decoder
//   TestVerif_C14_IndependentDecoderEveryNear     same, every NEAR in 0..min(255,MAXVAL/2) with small images
//   TestVerif_C14_LosslessEqualsNear0Bytes        lossless.Encode(img) == nearlossless.Encode(img, NEAR=0) byte for byte
//   TestVerif_C14_CrossDecodeNear0                each package's decoder decodes the other package's NEAR=0 streams
//   TestVerif_C14_CrossDecodeNearStreams          lossless.Decode given NEAR>0 streams of the near-lossless encoder
//
// The lossless-encoder streams vs the independent decoder, the default-parameter comparison and the
// Annex H.3 vector live in package lossless.

import (
	"bytes"
	"fmt"
	"sort"
	"strings"
	"testing"

	"github.com/cocosip/go-dicom-codecs/jpegls/lossless"
)

// verifC14Compare: see the twin in package lossless. src may be nil (NEAR>0).
func verifC14Compare(stream []byte, src []int, w, h, c, p, near int, libDec func([]byte) ([]int, string)) (why string) {
	ind, ierr := verifT87Decode(stream)
	lib, lerr := libDec(stream)
	var parts []string
	if ierr != nil {
		parts = append(parts, fmt.Sprintf("independent_err=%q", ierr.Error()))
	} else {
		if ind.W != w || ind.H != h || ind.NC != c || ind.P != p || ind.Near != near {
			parts = append(parts, fmt.Sprintf("independent_header=%dx%dx%d/P%d/NEAR%d", ind.W, ind.H, ind.NC, ind.P, ind.Near))
		}
		if src != nil {
			if i := verifJlsFirstDiff(src, ind.Samples); i >= 0 {
				parts = append(parts, fmt.Sprintf("independent_vs_source_first_diff=%d(src=%d,ind=%d)", i, src[i], ind.Samples[i]))
			}
		}
	}
	if lerr != "" {
		parts = append(parts, "library_"+lerr)
	} else if ierr == nil {
		if i := verifJlsFirstDiff(lib, ind.Samples); i >= 0 {
			parts = append(parts, fmt.Sprintf("independent_vs_library_first_diff=%d(lib=%d,ind=%d)", i, lib[i], ind.Samples[i]))
		}
	}
	return strings.Join(parts, " ")
}

// verifC14NearDec wraps nearlossless.Decode (panic-safe, geometry-checked).
func verifC14NearDec(w, h, c, p, near int) func([]byte) ([]int, string) {
	return func(stream []byte) (s []int, why string) {
		defer func() {
			if r := recover(); r != nil {
				s, why = nil, fmt.Sprintf("decode_panic=%q", fmt.Sprint(r))
			}
		}()
		out, dw, dh, dc, dp, dn, err := Decode(stream)
		if err != nil {
			return nil, fmt.Sprintf("decode_err=%q", err.Error())
		}
		if dw != w || dh != h || dc != c || dp != p || dn != near {
			return nil, fmt.Sprintf("geometry=%dx%dx%d/P%d/NEAR%d", dw, dh, dc, dp, dn)
		}
		got, ok := verifJlsUnpack(out, p, w*h*c)
		if !ok {
			return nil, fmt.Sprintf("decoded_len=%d", len(out))
		}
		return got, ""
	}
}

// verifC14LosslessDec wraps lossless.Decode (panic-safe, geometry-checked).
func verifC14LosslessDec(w, h, c, p int) func([]byte) ([]int, string) {
	return func(stream []byte) (s []int, why string) {
		defer func() {
			if r := recover(); r != nil {
				s, why = nil, fmt.Sprintf("decode_panic=%q", fmt.Sprint(r))
			}
		}()
		out, dw, dh, dc, dp, err := lossless.Decode(stream)
		if err != nil {
			return nil, fmt.Sprintf("decode_err=%q", err.Error())
		}
		if dw != w || dh != h || dc != c || dp != p {
			return nil, fmt.Sprintf("geometry=%dx%dx%d/P%d", dw, dh, dc, dp)
		}
		got, ok := verifJlsUnpack(out, p, w*h*c)
		if !ok {
			return nil, fmt.Sprintf("decoded_len=%d", len(out))
		}
		return got, ""
	}
}

func verifC14EncodeNear(src []int, w, h, c, p, near int) (stream []byte, why string) {
	defer func() {
		if x := recover(); x != nil {
			stream, why = nil, fmt.Sprintf("near_encode_panic=%q", fmt.Sprint(x))
		}
	}()
	stream, err := Encode(verifJlsPack(src, p), w, h, c, p, near)
	if err != nil {
		return nil, fmt.Sprintf("near_encode_err=%q", err.Error())
	}
	return stream, ""
}

func verifC14EncodeLossless(src []int, w, h, c, p int) (stream []byte, why string) {
	defer func() {
		if x := recover(); x != nil {
			stream, why = nil, fmt.Sprintf("lossless_encode_panic=%q", fmt.Sprint(x))
		}
	}()
	stream, err := lossless.Encode(verifJlsPack(src, p), w, h, c, p)
	if err != nil {
		return nil, fmt.Sprintf("lossless_encode_err=%q", err.Error())
	}
	return stream, ""
}

func verifC14NearSet(p int) []int {
	nmax := ((1 << uint(p)) - 1) / 2
	if nmax > 255 {
		nmax = 255
	}
	seen := map[int]bool{}
	var out []int
	for _, n := range []int{0, 1, 2, 3, 7, nmax} {
		if n <= nmax && !seen[n] {
			seen[n] = true
			out = append(out, n)
		}
	}
	sort.Ints(out)
	return out
}

type verifC14Counts struct{ cases, fails map[string]int }

func (cc *verifC14Counts) add(key string, failed bool) {
	if cc.cases == nil {
		cc.cases, cc.fails = map[string]int{}, map[string]int{}
	}
	cc.cases[key]++
	if failed {
		cc.fails[key]++
	}
}

func (cc *verifC14Counts) String() string {
	var ks []string
	for k, n := range cc.fails {
		ks = append(ks, fmt.Sprintf("%s:%d/%d", k, n, cc.cases[k]))
	}
	sort.Strings(ks)
	if len(ks) > 40 {
		ks = append(ks[:40], fmt.Sprintf("...(%d more)", len(ks)-40))
	}
	return strings.Join(ks, ",")
}

var verifC14Kinds = append(append([]string{}, verifJlsContentKinds...), "nearedges", "nearramp", "nearjitter")

type verifC14Size struct{ w, h int }

func verifC14Sizes() ([]verifC14Size, int, string) {
	sizes := []verifC14Size{{1, 1}, {2, 2}, {4, 3}, {9, 7}, {16, 16}, {33, 5}, {1, 17}, {40, 40}}
	reps := 2
	if verifJlsThorough() {
		sizes = append(sizes, verifC14Size{64, 64}, verifC14Size{300, 3}, verifC14Size{128, 40})
		reps = 8
	}
	var sz []string
	for _, s := range sizes {
		sz = append(sz, fmt.Sprintf("%dx%d", s.w, s.h))
	}
	return sizes, reps, strings.Join(sz, ",")
}

func TestVerif_C14_IndependentDecoderNearLossless(t *testing.T) {
	sizes, reps, sz := verifC14Sizes()
	rep := verifJlsNewReport(t, "TestVerif_C14_IndependentDecoderNearLossless", fmt.Sprintf(
		"stream=nearlossless.Encode(img,NEAR); independent T.87 decoder(stream)==nearlossless.Decode(stream) (and ==img for NEAR=0); P in 2..16 x NEAR in {0,1,2,3,7,min(255,MAXVAL/2)} x components {1 (ILV=0),3 (ILV=2)} x WxH {%s} x contents {%s} x %d seeded variants (seed %d)",
		sz, strings.Join(verifC14Kinds, ","), reps, verifJlsSeed()))
	var cc verifC14Counts
	thrDiffFails, thrSameFails := 0, 0
	for p := 2; p <= 16; p++ {
		maxval := (1 << uint(p)) - 1
		for _, near := range verifC14NearSet(p) {
			s1, s2, s3 := verifT87DefaultThresholds(maxval, near)
			cp := lossless.ComputeCodingParameters(maxval, near, 64)
			thrDiffer := cp.T1 != s1 || cp.T2 != s2 || cp.T3 != s3
			for _, c := range []int{1, 3} {
				for _, s := range sizes {
					for _, kind := range verifC14Kinds {
						for v := 0; v < reps; v++ {
							r := verifJlsNewRNG(fmt.Sprintf("c14n/%d/%d/%d/%dx%d/%s/%d", p, near, c, s.w, s.h, kind, v))
							src := verifJlsGenImage(kind, s.w, s.h, c, p, near, r)
							rep.cases++
							stream, why := verifC14EncodeNear(src, s.w, s.h, c, p, near)
							if why == "" {
								var ref []int
								if near == 0 {
									ref = src
								}
								why = verifC14Compare(stream, ref, s.w, s.h, c, p, near, verifC14NearDec(s.w, s.h, c, p, near))
							}
							cc.add(fmt.Sprintf("P%02d/near%d", p, near), why != "")
							if why != "" {
								if thrDiffer {
									thrDiffFails++
								} else {
									thrSameFails++
								}
								rep.fail("P=%d near=%d comps=%d w=%d h=%d kind=%s variant=%d default_thresholds_differ=%v lib_T=%d/%d/%d std_T=%d/%d/%d %s src=%s",
									p, near, c, s.w, s.h, kind, v, thrDiffer, cp.T1, cp.T2, cp.T3, s1, s2, s3, why, verifJlsFmtSamples(src))
							}
						}
					}
				}
			}
		}
	}
	if rep.fails > 0 {
		rep.summary("summary fails_where_lib_default_thresholds_differ_from_T87=%d fails_where_thresholds_agree=%d fails_per_P_near=%s", thrDiffFails, thrSameFails, cc.String())
	}
	rep.flush()
}

func TestVerif_C14_IndependentDecoderEveryNear(t *testing.T) {
	type img struct {
		kind string
		w, h int
	}
	imgs := []img{{"noise", 9, 5}, {"nearjitter", 11, 3}, {"gradient", 12, 4}}
	if verifJlsThorough() {
		imgs = append(imgs, img{"runs", 40, 6}, img{"noise", 32, 32}, img{"nearramp", 20, 5})
	}
	var names []string
	for _, im := range imgs {
		names = append(names, fmt.Sprintf("%s %dx%d", im.kind, im.w, im.h))
	}
	rep := verifJlsNewReport(t, "TestVerif_C14_IndependentDecoderEveryNear", fmt.Sprintf(
		"independent T.87 decoder(nearlossless.Encode(img,NEAR))==nearlossless.Decode(...) (==img for NEAR=0); every P in 2..16 x EVERY NEAR in 0..min(255,MAXVAL/2) x components {1,3} x images {%s} (seed %d)",
		strings.Join(names, "; "), verifJlsSeed()))
	thrDiffFails, thrSameFails := 0, 0
	pairsFailing := map[string]bool{}
	var perP [17]int
	firstNear := map[int]int{}
	for p := 2; p <= 16; p++ {
		maxval := (1 << uint(p)) - 1
		nmax := maxval / 2
		if nmax > 255 {
			nmax = 255
		}
		for near := 0; near <= nmax; near++ {
			s1, s2, s3 := verifT87DefaultThresholds(maxval, near)
			cp := lossless.ComputeCodingParameters(maxval, near, 64)
			thrDiffer := cp.T1 != s1 || cp.T2 != s2 || cp.T3 != s3
			for _, c := range []int{1, 3} {
				for _, im := range imgs {
					r := verifJlsNewRNG(fmt.Sprintf("c14e/%d/%d/%d/%s", p, near, c, im.kind))
					src := verifJlsGenImage(im.kind, im.w, im.h, c, p, near, r)
					rep.cases++
					stream, why := verifC14EncodeNear(src, im.w, im.h, c, p, near)
					if why == "" {
						var ref []int
						if near == 0 {
							ref = src
						}
						why = verifC14Compare(stream, ref, im.w, im.h, c, p, near, verifC14NearDec(im.w, im.h, c, p, near))
					}
					if why != "" {
						if thrDiffer {
							thrDiffFails++
						} else {
							thrSameFails++
						}
						key := fmt.Sprintf("%d/%d", p, near)
						if !pairsFailing[key] {
							pairsFailing[key] = true
							perP[p]++
							if _, ok := firstNear[p]; !ok {
								firstNear[p] = near
							}
						}
						rep.fail("P=%d near=%d comps=%d w=%d h=%d kind=%s default_thresholds_differ=%v lib_T=%d/%d/%d std_T=%d/%d/%d %s src=%s",
							p, near, c, im.w, im.h, im.kind, thrDiffer, cp.T1, cp.T2, cp.T3, s1, s2, s3, why, verifJlsFmtSamples(src))
					}
				}
			}
		}
	}
	if rep.fails > 0 {
		var sb strings.Builder
		for p := 2; p <= 16; p++ {
			if perP[p] > 0 {
				fmt.Fprintf(&sb, "P%d:%d(first_near=%d),", p, perP[p], firstNear[p])
			}
		}
		rep.summary("summary fails_where_lib_default_thresholds_differ_from_T87=%d fails_where_thresholds_agree=%d failing_NEAR_values_per_P=%s",
			thrDiffFails, thrSameFails, strings.TrimSuffix(sb.String(), ","))
	}
	rep.flush()
}

func TestVerif_C14_LosslessEqualsNear0Bytes(t *testing.T) {
	sizes, reps, sz := verifC14Sizes()
	rep := verifJlsNewReport(t, "TestVerif_C14_LosslessEqualsNear0Bytes", fmt.Sprintf(
		"bytes.Equal(lossless.Encode(img), nearlossless.Encode(img,NEAR=0)); P in 2..16 x components {1,3} x WxH {%s} x contents {%s} x %d seeded variants (seed %d)",
		sz, strings.Join(verifJlsContentKinds, ","), reps, verifJlsSeed()))
	var cc verifC14Counts
	for p := 2; p <= 16; p++ {
		for _, c := range []int{1, 3} {
			for _, s := range sizes {
				for _, kind := range verifJlsContentKinds {
					for v := 0; v < reps; v++ {
						r := verifJlsNewRNG(fmt.Sprintf("c14b/%d/%d/%dx%d/%s/%d", p, c, s.w, s.h, kind, v))
						src := verifJlsGenImage(kind, s.w, s.h, c, p, 0, r)
						rep.cases++
						a, why := verifC14EncodeLossless(src, s.w, s.h, c, p)
						var b []byte
						if why == "" {
							b, why = verifC14EncodeNear(src, s.w, s.h, c, p, 0)
						}
						if why == "" && !bytes.Equal(a, b) {
							i := 0
							for i < len(a) && i < len(b) && a[i] == b[i] {
								i++
							}
							why = fmt.Sprintf("first_diff_offset=%d lossless_len=%d near0_len=%d", i, len(a), len(b))
							if len(a) <= 48 && len(b) <= 48 {
								why += fmt.Sprintf(" lossless=%x near0=%x", a, b)
							}
						}
						cc.add(fmt.Sprintf("P%02d", p), why != "")
						if why != "" {
							rep.fail("P=%d comps=%d w=%d h=%d kind=%s variant=%d %s src=%s", p, c, s.w, s.h, kind, v, why, verifJlsFmtSamples(src))
						}
					}
				}
			}
		}
	}
	if rep.fails > 0 {
		rep.summary("summary fails_per_P=%s", cc.String())
	}
	rep.flush()
}

func TestVerif_C14_CrossDecodeNear0(t *testing.T) {
	sizes, reps, sz := verifC14Sizes()
	rep := verifJlsNewReport(t, "TestVerif_C14_CrossDecodeNear0", fmt.Sprintf(
		"lossless.Decode(nearlossless.Encode(img,0))==img and nearlossless.Decode(lossless.Encode(img))==img (geometry, NEAR=0 reported); P in 2..16 x components {1,3} x WxH {%s} x contents {%s} x %d seeded variants (seed %d); 2 cases per image",
		sz, strings.Join(verifJlsContentKinds, ","), reps, verifJlsSeed()))
	var cc verifC14Counts
	for p := 2; p <= 16; p++ {
		for _, c := range []int{1, 3} {
			for _, s := range sizes {
				for _, kind := range verifJlsContentKinds {
					for v := 0; v < reps; v++ {
						r := verifJlsNewRNG(fmt.Sprintf("c14x/%d/%d/%dx%d/%s/%d", p, c, s.w, s.h, kind, v))
						src := verifJlsGenImage(kind, s.w, s.h, c, p, 0, r)
						// direction 1: near-lossless encoder (NEAR=0) -> lossless decoder
						rep.cases++
						stream, why := verifC14EncodeNear(src, s.w, s.h, c, p, 0)
						if why == "" {
							got, derr := verifC14LosslessDec(s.w, s.h, c, p)(stream)
							if derr != "" {
								why = "lossless_" + derr
							} else if i := verifJlsFirstDiff(src, got); i >= 0 {
								why = fmt.Sprintf("first_diff_idx=%d want=%d got=%d", i, src[i], got[i])
							}
						}
						cc.add(fmt.Sprintf("near0enc->losslessdec/P%02d", p), why != "")
						if why != "" {
							rep.fail("dir=near0enc->losslessdec P=%d comps=%d w=%d h=%d kind=%s variant=%d %s src=%s", p, c, s.w, s.h, kind, v, why, verifJlsFmtSamples(src))
						}
						// direction 2: lossless encoder -> near-lossless decoder
						rep.cases++
						stream, why = verifC14EncodeLossless(src, s.w, s.h, c, p)
						if why == "" {
							got, derr := verifC14NearDec(s.w, s.h, c, p, 0)(stream)
							if derr != "" {
								why = "near_" + derr
							} else if i := verifJlsFirstDiff(src, got); i >= 0 {
								why = fmt.Sprintf("first_diff_idx=%d want=%d got=%d", i, src[i], got[i])
							}
						}
						cc.add(fmt.Sprintf("losslessenc->neardec/P%02d", p), why != "")
						if why != "" {
							rep.fail("dir=losslessenc->neardec P=%d comps=%d w=%d h=%d kind=%s variant=%d %s src=%s", p, c, s.w, s.h, kind, v, why, verifJlsFmtSamples(src))
						}
					}
				}
			}
		}
	}
	if rep.fails > 0 {
		rep.summary("summary fails_per_direction_P=%s", cc.String())
	}
	rep.flush()
}

// Literal reading of "each of the two decoders decodes the other package's streams" for NEAR>0:
// lossless.Decode accepts every SOF55 stream, so given a NEAR>0 stream it must return the same
// image as nearlossless.Decode (it has no way to report NEAR, but the samples must agree).
func TestVerif_C14_CrossDecodeNearStreams(t *testing.T) {
	type size struct{ w, h int }
	sizes := []size{{1, 1}, {4, 3}, {16, 16}}
	kinds := []string{"noise", "runs", "gradient", "nearjitter"}
	rep := verifJlsNewReport(t, "TestVerif_C14_CrossDecodeNearStreams", fmt.Sprintf(
		"lossless.Decode(s)==nearlossless.Decode(s) for s=nearlossless.Encode(img,NEAR>0); P in 2..16 x NEAR in {1,2,3,7,min(255,MAXVAL/2)} x components {1,3} x WxH {1x1,4x3,16x16} x contents {%s} (seed %d)",
		strings.Join(kinds, ","), verifJlsSeed()))
	var cc verifC14Counts
	for p := 2; p <= 16; p++ {
		for _, near := range verifC14NearSet(p) {
			if near == 0 {
				continue
			}
			for _, c := range []int{1, 3} {
				for _, s := range sizes {
					for _, kind := range kinds {
						r := verifJlsNewRNG(fmt.Sprintf("c14y/%d/%d/%d/%dx%d/%s", p, near, c, s.w, s.h, kind))
						src := verifJlsGenImage(kind, s.w, s.h, c, p, near, r)
						rep.cases++
						stream, why := verifC14EncodeNear(src, s.w, s.h, c, p, near)
						if why == "" {
							ref, nerr := verifC14NearDec(s.w, s.h, c, p, near)(stream)
							got, lerr := verifC14LosslessDec(s.w, s.h, c, p)(stream)
							switch {
							case nerr != "":
								why = "near_" + nerr
							case lerr != "":
								why = "lossless_" + lerr
							default:
								if i := verifJlsFirstDiff(ref, got); i >= 0 {
									why = fmt.Sprintf("first_diff_idx=%d neardec=%d losslessdec=%d src=%d", i, ref[i], got[i], src[i])
								}
							}
						}
						cc.add(fmt.Sprintf("P%02d", p), why != "")
						if why != "" {
							rep.fail("P=%d near=%d comps=%d w=%d h=%d kind=%s %s src=%s", p, near, c, s.w, s.h, kind, why, verifJlsFmtSamples(src))
						}
					}
				}
			}
		}
	}
	if rep.fails > 0 {
		rep.summary("summary fails_per_P=%s", cc.String())
	}
	rep.flush()
}
